import GoSSE.Proofs.JoeProgress
/-!
A measure on Joe's states that strictly decreases on every transition that is not the start of a
new call: every run without new calls is finite (bounded by the measure of its first state).
-/
namespace GoSSE.Proofs.Joe
open GoSSE.Model.Joe

def sumTo (f : Nat → Nat) : Nat → Nat
  | 0 => 0
  | n + 1 => sumTo f n + f n

theorem sumTo_congr {f g : Nat → Nat} (n : Nat) (h : ∀ j < n, f j = g j) : sumTo f n = sumTo g n := by
  induction n with
  | zero => rfl
  | succ n ih =>
    simp only [sumTo]
    rw [ih (fun j hj => h j (Nat.lt_succ_of_lt hj)), h n (Nat.lt_succ_self n)]

/-- changing the summand at one index `k < n` -/
theorem sumTo_update (f g : Nat → Nat) (n k : Nat) (hk : k < n) (h : ∀ j, j ≠ k → g j = f j) :
    sumTo g n + f k = sumTo f n + g k := by
  induction n with
  | zero => omega
  | succ n ih =>
    simp only [sumTo]
    by_cases hkn : k = n
    · subst hkn
      have : sumTo g k = sumTo f k := sumTo_congr k (fun j hj => h j (by omega))
      omega
    · have := ih (by omega)
      have hn := h n (fun e => hkn e.symm)
      omega

def subM (st : SubSt) : Nat :=
  (match st.pc with
    | .idle => 0 | .start => 4 | .waiting => 3 | .cancelled => 2 | .returned _ => 0) +
  (if st.ctxCancelled then 0 else 1)

def pubM (w : Nat) (st : PubSt) : Nat :=
  match st.pc with
  | .idle => 0 | .start => w | .handed _ => 1 | .returned _ => 0

def shutM (st : ShutSt) : Nat :=
  (match st.pc with
    | .idle => 0 | .start => 2 | .waiting => 1 | .returned _ => 0) +
  (if st.ctxDone then 0 else 1)

def loopM : JoePc → Nat
  | .idle => 1
  | .fanout _ rest => 2 * rest.length + 2
  | .failed _ _ rest => 2 * rest.length + 3
  | _ => 0

/-- the measure, for calls with identifiers below `nS`, `nP`, `nK` -/
def mu (nS nP nK : Nat) (s : St) : Nat :=
  loopM s.joe + sumTo (fun i => subM (s.subs i)) nS + sumTo (fun p => pubM (2 * nS + 4) (s.pubs p)) nP +
    sumTo (fun k => shutM (s.shuts k)) nK

/-- the identifiers a label mentions are within bounds -/
def labelIn (nS nP nK : Nat) : Label → Prop
  | .subCall i | .subAccept i _ _ | .subClosedEarly i | .subSeeCancel i | .subRecv i | .unsubAccept i | .cancel i => i < nS
  | .fanStep i _ _ => i < nS
  | .pubCall p | .pubNoTopic p | .pubAccept p _ | .pubClosedEarly p | .pubRecv p => p < nP
  | .shutCall k | .shutClose k | .shutRecovered k | .shutSeeClosed k | .shutCtx k | .shutCancel k => k < nK
  | .fanRemove | .fanDone | .loopExit => True

def isCall : Label → Bool
  | .subCall _ | .pubCall _ | .shutCall _ => true
  | _ => false

/-- a duplicate-free list of numbers below `n` has at most `n` elements -/
theorem nodup_bounded_length (n : Nat) (l : List Nat) (hn : l.Nodup) (hb : ∀ x ∈ l, x < n) : l.length ≤ n := by
  induction n generalizing l with
  | zero =>
    cases l with
    | nil => simp
    | cons x xs => exact absurd (hb x (by simp)) (by omega)
  | succ n ih =>
    have h1 : (l.erase n).length ≤ n := by
      apply ih _ (hn.erase n)
      intro x hx
      have hxl : x ∈ l := List.mem_of_mem_erase hx
      have hxn : x ≠ n := by
        intro e; subst e; exact (List.Nodup.not_mem_erase hn) hx
      have := hb x hxl
      omega
    have h2 : l.length ≤ (l.erase n).length + 1 := by
      by_cases hm : n ∈ l
      · rw [List.length_erase_of_mem hm]; omega
      · rw [List.erase_of_not_mem hm]; omega
    omega


def subsM (nS : Nat) (s : St) : Nat := sumTo (fun i => subM (s.subs i)) nS
def pubsM (nS nP : Nat) (s : St) : Nat := sumTo (fun p => pubM (2 * nS + 4) (s.pubs p)) nP
def shutsM (nK : Nat) (s : St) : Nat := sumTo (fun k => shutM (s.shuts k)) nK

theorem mu_eq (nS nP nK : Nat) (s : St) :
    mu nS nP nK s = loopM s.joe + subsM nS s + pubsM nS nP s + shutsM nK s := rfl

theorem subsM_setSub (nS : Nat) (s : St) (k : SubId) (st : SubSt) (hk : k < nS) :
    subsM nS (setSub s k st) + subM (s.subs k) = subsM nS s + subM st := by
  have := sumTo_update (fun i => subM (s.subs i)) (fun i => subM ((setSub s k st).subs i)) nS k hk
    (fun j hj => by simp [setSub, upd, hj])
  simpa [subsM, setSub] using this

theorem pubsM_setPub (nS nP : Nat) (s : St) (p : PubId) (v : PubSt) (hp : p < nP) :
    pubsM nS nP (setPub s p v) + pubM (2 * nS + 4) (s.pubs p) = pubsM nS nP s + pubM (2 * nS + 4) v := by
  have := sumTo_update (fun q => pubM (2 * nS + 4) (s.pubs q)) (fun q => pubM (2 * nS + 4) ((setPub s p v).pubs q)) nP p hp
    (fun j hj => by simp [setPub, upd, hj])
  simpa [pubsM, setPub] using this

theorem shutsM_setShut (nK : Nat) (s : St) (k : ShutId) (v : ShutSt) (hk : k < nK) :
    shutsM nK (setShut s k v) + shutM (s.shuts k) = shutsM nK s + shutM v := by
  have := sumTo_update (fun q => shutM (s.shuts q)) (fun q => shutM ((setShut s k v).shuts q)) nK k hk
    (fun j hj => by simp [setShut, upd, hj])
  simpa [shutsM, setShut] using this

theorem subsM_congr (nS : Nat) (s s' : St) (h : ∀ i, subM (s'.subs i) = subM (s.subs i)) : subsM nS s' = subsM nS s :=
  sumTo_congr nS (fun j _ => h j)

@[simp] theorem closedSub_subM (st : SubSt) (n : Nat) : subM (closedSub st n) = subM st := rfl

theorem removeSubscriber_subM {s : St} (hi : Inv s) (k i : SubId) :
    subM ((removeSubscriber s k).subs i) = subM (s.subs i) := by
  by_cases hk : k ∈ s.subscribers
  · rw [remove_mem k hk (hi.reg k hk).1]
    by_cases hik : i = k
    · subst hik; simp
    · simp [upd, hik]
  · rw [remove_not_mem k hk]

theorem removeSubscriber_rest {s : St} (hi : Inv s) (k : SubId) :
    (removeSubscriber s k).pubs = s.pubs ∧ (removeSubscriber s k).shuts = s.shuts ∧ (removeSubscriber s k).joe = s.joe := by
  by_cases hk : k ∈ s.subscribers
  · rw [remove_mem k hk (hi.reg k hk).1]; exact ⟨rfl, rfl, rfl⟩
  · rw [remove_not_mem k hk]; exact ⟨rfl, rfl, rfl⟩

theorem closeAll_subM {s : St} (hi : Inv s) (hj : s.joe = .idle) (l : List SubId) (i : SubId) :
    subM ((closeAll l s).subs i) = subM (s.subs i) ∧ (closeAll l s).pubs = s.pubs ∧ (closeAll l s).shuts = s.shuts := by
  induction l generalizing s with
  | nil => exact ⟨rfl, rfl, rfl⟩
  | cons k ks ih =>
    obtain ⟨h1, hj1, _, _⟩ := inv_remove_idle hi hj k
    obtain ⟨a, b, c'⟩ := ih h1 hj1
    obtain ⟨p1, p2, _⟩ := removeSubscriber_rest hi k
    exact ⟨by show subM ((closeAll ks (removeSubscriber s k)).subs i) = _; rw [a, removeSubscriber_subM hi],
      by show (closeAll ks (removeSubscriber s k)).pubs = _; rw [b, p1],
      by show (closeAll ks (removeSubscriber s k)).shuts = _; rw [c', p2]⟩

theorem pubsM_congr (nS nP : Nat) (s s' : St) (h : s'.pubs = s.pubs) : pubsM nS nP s' = pubsM nS nP s := by
  simp [pubsM, h]
theorem shutsM_congr (nK : Nat) (s s' : St) (h : s'.shuts = s.shuts) : shutsM nK s' = shutsM nK s := by
  simp [shutsM, h]


/-- every transition other than the start of a new call strictly decreases the measure -/
theorem step_mu_decreases {c : Cfg} {s s' : St} (nS nP nK : Nat) (hi : Inv s)
    (hsub : ∀ i ∈ s.subscribers, i < nS) (l : Label) (hl : labelIn nS nP nK l) (hc : isCall l = false)
    (hs : step c s l = some s') : mu nS nP nK s' < mu nS nP nK s := by
  simp only [mu_eq]
  cases l with
  | subCall k => simp [isCall] at hc
  | pubCall k => simp [isCall] at hc
  | shutCall k => simp [isCall] at hc
  | subAccept k rc o =>
    have hk : k < nS := hl
    simp only [step] at hs
    split at hs
    · rename_i hg
      obtain ⟨hch0, _⟩ := hi.fresh k (Or.inr hg.1)
      have key : ∀ st : SubSt, st.pc = .waiting → st.ctxCancelled = (s.subs k).ctxCancelled →
          subsM nS (setSub s k st) < subsM nS s := by
        intro st hp hcx
        have := subsM_setSub nS s k st hk
        have e1 : subM st + 1 = subM (s.subs k) := by simp [subM, hp, hcx, hg.1]; omega
        omega
      split at hs
      · cases o with
        | ok =>
          simp only [Option.some.injEq] at hs; subst hs
          have := key { s.subs k with pc := .waiting, calls := (s.subs k).calls ++ rc, replayed := rc.length, regAt := some s.log.length, storeAt := s.store } rfl rfl
          simp only [subsM, pubsM, shutsM, setSub] at this ⊢; omega
        | panic =>
          simp only [Option.some.injEq] at hs; subst hs
          have := key { s.subs k with pc := .waiting, calls := (s.subs k).calls ++ rc, replayed := rc.length, regAt := some s.log.length, storeAt := s.store } rfl rfl
          simp only [subsM, pubsM, shutsM, setSub] at this ⊢; omega
        | err =>
          simp only [Option.some.injEq] at hs; subst hs
          simp only [sendChan, closeChan, setSub, upd_same, hch0]
          simp only [Bool.false_eq_true, if_false, Option.isSome_none, upd_same]
          have := key { s.subs k with pc := .waiting, calls := (s.subs k).calls ++ rc, replayed := rc.length, ch := ⟨some (.replay k), true⟩, storeAt := s.store } rfl rfl
          have e : subsM nS { s with subs := upd (upd (upd s.subs k { s.subs k with pc := .waiting, calls := (s.subs k).calls ++ rc, replayed := rc.length, storeAt := s.store }) k { s.subs k with pc := .waiting, calls := (s.subs k).calls ++ rc, replayed := rc.length, ch := ⟨some (.replay k), false⟩, storeAt := s.store }) k { s.subs k with pc := .waiting, calls := (s.subs k).calls ++ rc, replayed := rc.length, ch := ⟨some (.replay k), true⟩, storeAt := s.store } }
              = subsM nS (setSub s k { s.subs k with pc := .waiting, calls := (s.subs k).calls ++ rc, replayed := rc.length, ch := ⟨some (.replay k), true⟩, storeAt := s.store }) := by
            apply sumTo_congr; intro j _
            by_cases hjk : j = k
            · subst hjk; simp [setSub, upd]
            · simp [setSub, upd, hjk]
          simp only [subsM, pubsM, shutsM, setSub] at this e ⊢
          simp only [hch0] at e ⊢
          omega
      · split at hs
        · simp only [Option.some.injEq] at hs; subst hs
          have := key { s.subs k with pc := .waiting, calls := (s.subs k).calls ++ rc, replayed := rc.length, regAt := some s.log.length, storeAt := s.store } rfl rfl
          simp only [subsM, pubsM, shutsM, setSub] at this ⊢; omega
        · simp at hs
    · simp at hs
  | subClosedEarly k =>
    have hk : k < nS := hl
    simp only [step] at hs
    split at hs
    · rename_i hg
      simp only [Option.some.injEq] at hs; subst hs
      have := subsM_setSub nS s k { s.subs k with pc := .returned (some .closed) } hk
      have e1 : subM { s.subs k with pc := .returned (some .closed) } + 4 = subM (s.subs k) := by simp [subM, hg.1]; omega
      simp only [subsM, pubsM, shutsM, setSub] at this e1 ⊢; omega
    · simp at hs
  | subSeeCancel k =>
    have hk : k < nS := hl
    simp only [step] at hs
    split at hs
    · rename_i hg
      simp only [Option.some.injEq] at hs; subst hs
      have := subsM_setSub nS s k { s.subs k with pc := .cancelled } hk
      have e1 : subM { s.subs k with pc := .cancelled } + 1 = subM (s.subs k) := by simp [subM, hg.1]; omega
      simp only [subsM, pubsM, shutsM, setSub] at this e1 ⊢; omega
    · simp at hs
  | subRecv k =>
    have hk : k < nS := hl
    simp only [step] at hs
    split at hs
    · rename_i hg
      split at hs
      · rename_i e hbuf
        simp only [Option.some.injEq] at hs; subst hs
        have := subsM_setSub nS s k { s.subs k with pc := .returned (some e), ch := { (s.subs k).ch with buf := none } } hk
        have e1 : subM { s.subs k with pc := .returned (some e), ch := { (s.subs k).ch with buf := none } } + 2 ≤ subM (s.subs k) := by
          rcases hg with hg | hg <;> simp [subM, hg] <;> omega
        simp only [subsM, pubsM, shutsM, setSub] at this e1 ⊢; omega
      · split at hs
        · simp only [Option.some.injEq] at hs; subst hs
          have := subsM_setSub nS s k { s.subs k with pc := .returned none } hk
          have e1 : subM { s.subs k with pc := .returned none } + 2 ≤ subM (s.subs k) := by
            rcases hg with hg | hg <;> simp [subM, hg] <;> omega
          simp only [subsM, pubsM, shutsM, setSub] at this e1 ⊢; omega
        · simp at hs
    · simp at hs
  | unsubAccept k =>
    have hk : k < nS := hl
    simp only [step] at hs
    split at hs
    · rename_i hg
      simp only [Option.some.injEq] at hs; subst hs
      obtain ⟨p1, p2, p3⟩ := removeSubscriber_rest hi k
      have h0 : subsM nS (removeSubscriber s k) = subsM nS s := subsM_congr nS _ _ (removeSubscriber_subM hi k)
      have := subsM_setSub nS (removeSubscriber s k) k { (removeSubscriber s k).subs k with pc := .returned none } hk
      have e0 : subM ((removeSubscriber s k).subs k) = subM (s.subs k) := removeSubscriber_subM hi k k
      have e1 : subM { (removeSubscriber s k).subs k with pc := .returned none } + 2 = subM (s.subs k) := by
        rw [← e0]
        have hpc : ((removeSubscriber s k).subs k).pc = .cancelled := by
          have := (inv_remove_idle hi hg.2 k).2.2.2 k; rw [this]; exact hg.1
        simp [subM, hpc]; omega
      simp only [subsM, pubsM, shutsM, setSub, p1, p2, p3] at this h0 e0 e1 ⊢
      omega
    · simp at hs
  | cancel k =>
    have hk : k < nS := hl
    simp only [step] at hs
    split at hs
    · simp at hs
    · rename_i hg
      simp only [Option.some.injEq] at hs; subst hs
      have := subsM_setSub nS s k { s.subs k with ctxCancelled := true } hk
      have e1 : subM { s.subs k with ctxCancelled := true } + 1 = subM (s.subs k) := by
        simp at hg; simp [subM, hg]
      simp only [subsM, pubsM, shutsM, setSub] at this e1 ⊢; omega
  | pubNoTopic p =>
    have hp : p < nP := hl
    simp only [step] at hs
    split at hs
    · rename_i hg
      simp only [Option.some.injEq] at hs; subst hs
      have := pubsM_setPub nS nP s p { s.pubs p with pc := .returned (some .noTopic) } hp
      have e1 : pubM (2 * nS + 4) { s.pubs p with pc := .returned (some .noTopic) } + (2 * nS + 4) = pubM (2 * nS + 4) (s.pubs p) := by
        simp [pubM, hg.1]
      simp only [subsM, pubsM, shutsM, setPub] at this e1 ⊢; omega
    · simp at hs
  | pubClosedEarly p =>
    have hp : p < nP := hl
    simp only [step] at hs
    split at hs
    · rename_i hg
      simp only [Option.some.injEq] at hs; subst hs
      have := pubsM_setPub nS nP s p { s.pubs p with pc := .returned (some .closed) } hp
      have e1 : pubM (2 * nS + 4) { s.pubs p with pc := .returned (some .closed) } + (2 * nS + 4) = pubM (2 * nS + 4) (s.pubs p) := by
        simp [pubM, hg.1]
      simp only [subsM, pubsM, shutsM, setPub] at this e1 ⊢; omega
    · simp at hs
  | pubRecv p =>
    have hp : p < nP := hl
    simp only [step] at hs
    split at hs
    · rename_i e he
      simp only [Option.some.injEq] at hs; subst hs
      have := pubsM_setPub nS nP s p { s.pubs p with pc := .returned e } hp
      have e1 : pubM (2 * nS + 4) { s.pubs p with pc := .returned e } + 1 = pubM (2 * nS + 4) (s.pubs p) := by
        simp [pubM, he]
      simp only [subsM, pubsM, shutsM, setPub] at this e1 ⊢; omega
    · simp at hs
  | pubAccept p o =>
    have hp : p < nP := hl
    simp only [step] at hs
    split at hs
    · rename_i hg
      split at hs
      · simp at hs
      · simp only [Option.some.injEq] at hs; subst hs
        have hlen : (s.subscribers.filter fun i => topicsIntersect (c.subTopics i) (c.pubTopics p)).length ≤ nS :=
          nodup_bounded_length nS _ (hi.nodup.filter _) (fun x hx => hsub x (List.mem_filter.mp hx).1)
        have := pubsM_setPub nS nP s p { s.pubs p with pc := .handed (if o = .err then some (.put p) else none) } hp
        have e1 : pubM (2 * nS + 4) { s.pubs p with pc := .handed (if o = .err then some (.put p) else none) } + (2 * nS + 3) = pubM (2 * nS + 4) (s.pubs p) := by
          simp [pubM, hg.1]; omega
        simp only [subsM, pubsM, shutsM, setPub, loopM, hg.2.1] at this e1 ⊢; omega
    · simp at hs
  | fanStep k a b =>
    have hk : k < nS := hl
    simp only [step] at hs
    split at hs
    · rename_i p rest hj
      split at hs
      · rename_i hmem
        have hmem' : k ∈ rest := by simpa using hmem
        have hkm : k ∈ s.subscribers := (hi.fan p rest hj).2 k hmem'
        have hnf : ∀ p' j rest', s.joe ≠ .failed p' j rest' := by simp [hj]
        have hcl := (hi.reg k hkm).1
        have hbuf : (s.subs k).ch.buf = none := by
          rcases (hi.reg k hkm).2 with hb | ⟨p', rest', hf⟩
          · exact hb
          · exact absurd hf (hnf p' k rest')
        have hlen : (rest.erase k).length + 1 = rest.length := by
          rw [List.length_erase_of_mem hmem']
          have : 0 < rest.length := List.length_pos_of_mem hmem'
          omega
        have hsame : ∀ st : SubSt, st.pc = (s.subs k).pc → st.ctxCancelled = (s.subs k).ctxCancelled →
            subsM nS (setSub s k st) = subsM nS s := by
          intro st h1 h2
          have := subsM_setSub nS s k st hk
          have : subM st = subM (s.subs k) := by simp [subM, h1, h2]
          omega
        split at hs
        · simp only [Option.some.injEq] at hs; subst hs
          have := hsame { s.subs k with calls := (s.subs k).calls ++ [Call.send p a] ++ (if a then [Call.flush b] else []) } rfl rfl
          simp only [subsM, pubsM, shutsM, setSub, loopM, hj] at this ⊢; omega
        · simp only [Option.some.injEq] at hs
          rw [sendChan_ok _ _ _ (by simpa [setSub] using hcl) (by simpa [setSub] using hbuf)] at hs
          simp only [bad, setSub, hj] at hs
          simp only [upd_same] at hs
          have hS : ∀ j, subM (s'.subs j) = subM (s.subs j) := by
            subst hs; intro j
            by_cases hjk : j = k
            · subst hjk; simp [upd, subM]
            · simp [upd, hjk]
          have hJ : s'.joe = .failed p k (rest.erase k) := by subst hs; simp
          have hP : s'.pubs = s.pubs := by subst hs; simp
          have hK : s'.shuts = s.shuts := by subst hs; simp
          rw [subsM_congr nS s s' hS, pubsM_congr nS nP s s' hP, shutsM_congr nK s s' hK, hJ, hj]
          simp only [loopM]; omega
      · simp at hs
    · simp at hs
  | fanRemove =>
    simp only [step] at hs
    split at hs
    · rename_i p k rest hj
      obtain ⟨_, hnb⟩ := inv_fanRemove hi hj
      simp only [Bool.not_eq_true] at hnb
      simp only [Option.some.injEq] at hs; subst hs
      simp only [hnb, Bool.false_eq_true, if_false]
      obtain ⟨p1, p2, p3⟩ := removeSubscriber_rest hi k
      have h0 : subsM nS (removeSubscriber s k) = subsM nS s := subsM_congr nS _ _ (removeSubscriber_subM hi k)
      simp only [subsM, pubsM, shutsM, loopM, hj, p1, p2] at h0 ⊢
      omega
    · simp at hs
  | fanDone =>
    simp only [step] at hs
    split at hs
    · rename_i p hj
      simp only [Option.some.injEq] at hs; subst hs
      simp [subsM, pubsM, shutsM, loopM, hj]
    · simp at hs
  | loopExit =>
    simp only [step] at hs
    split at hs
    · rename_i hg
      simp only [Option.some.injEq] at hs; subst hs
      obtain ⟨_, hj1, _⟩ := inv_closeAll hi hg.1 s.subscribers
      have hnb : bad (closeAll s.subscribers s) = false := by simp [bad, hj1]
      simp only [hnb, Bool.false_eq_true, if_false]
      have h0 : subsM nS (closeAll s.subscribers s) = subsM nS s :=
        subsM_congr nS _ _ (fun i => (closeAll_subM hi hg.1 s.subscribers i).1)
      obtain ⟨_, p1, p2⟩ := closeAll_subM hi hg.1 s.subscribers 0
      simp only [subsM, pubsM, shutsM, loopM, hg.1, p1, p2] at h0 ⊢
      omega
    · simp at hs
  | shutClose k =>
    have hk : k < nK := hl
    simp only [step] at hs
    split at hs
    · rename_i hg
      simp only [Option.some.injEq] at hs; subst hs
      have := shutsM_setShut nK s k { s.shuts k with pc := .waiting } hk
      have e1 : shutM { s.shuts k with pc := .waiting } + 1 = shutM (s.shuts k) := by simp [shutM, hg.1]; omega
      simp only [subsM, pubsM, shutsM, setShut] at this e1 ⊢; omega
    · simp at hs
  | shutRecovered k =>
    have hk : k < nK := hl
    simp only [step] at hs
    split at hs
    · rename_i hg
      simp only [Option.some.injEq] at hs; subst hs
      have := shutsM_setShut nK s k { s.shuts k with pc := .returned (some .closed) } hk
      have e1 : shutM { s.shuts k with pc := .returned (some .closed) } + 2 = shutM (s.shuts k) := by simp [shutM, hg.1]; omega
      simp only [subsM, pubsM, shutsM, setShut] at this e1 ⊢; omega
    · simp at hs
  | shutSeeClosed k =>
    have hk : k < nK := hl
    simp only [step] at hs
    split at hs
    · rename_i hg
      simp only [Option.some.injEq] at hs; subst hs
      have := shutsM_setShut nK s k { s.shuts k with pc := .returned none } hk
      have e1 : shutM { s.shuts k with pc := .returned none } + 1 = shutM (s.shuts k) := by simp [shutM, hg.1]; omega
      simp only [subsM, pubsM, shutsM, setShut] at this e1 ⊢; omega
    · simp at hs
  | shutCtx k =>
    have hk : k < nK := hl
    simp only [step] at hs
    split at hs
    · rename_i hg
      simp only [Option.some.injEq] at hs; subst hs
      have := shutsM_setShut nK s k { s.shuts k with pc := .returned (some (.ctx k)) } hk
      have e1 : shutM { s.shuts k with pc := .returned (some (.ctx k)) } + 1 = shutM (s.shuts k) := by simp [shutM, hg.1]; omega
      simp only [subsM, pubsM, shutsM, setShut] at this e1 ⊢; omega
    · simp at hs
  | shutCancel k =>
    have hk : k < nK := hl
    simp only [step] at hs
    split at hs
    · simp at hs
    · rename_i hg
      simp only [Option.some.injEq] at hs; subst hs
      have := shutsM_setShut nK s k { s.shuts k with ctxDone := true } hk
      have e1 : shutM { s.shuts k with ctxDone := true } + 1 = shutM (s.shuts k) := by
        simp at hg; simp [shutM, hg]
      simp only [subsM, pubsM, shutsM, setShut] at this e1 ⊢; omega


/-- the subscription a label is about, if it changes that subscription's program counter -/
def pcSubject : Label → Option SubId
  | .subCall i | .subAccept i _ _ | .subClosedEarly i | .subSeeCancel i | .subRecv i | .unsubAccept i => some i
  | _ => none

theorem removeSubscriber_pc {s : St} (hi : Inv s) (k j : SubId) : ((removeSubscriber s k).subs j).pc = (s.subs j).pc := by
  by_cases hk : k ∈ s.subscribers
  · rw [remove_mem k hk (hi.reg k hk).1]
    by_cases hjk : j = k
    · subst hjk; simp
    · simp [upd, hjk]
  · rw [remove_not_mem k hk]

/-- a transition changes the program counter of at most the subscription it is about -/
theorem step_pc_frame {c : Cfg} {s s' : St} (hi : Inv s) (l : Label) (hs : step c s l = some s') (j : SubId)
    (hj : pcSubject l ≠ some j) : (s'.subs j).pc = (s.subs j).pc := by
  cases l with
  | subCall k =>
    have hjk : j ≠ k := fun e => hj (by simp [pcSubject, e])
    simp only [step] at hs; split at hs <;> simp at hs; subst hs; simp [setSub, upd, hjk]
  | subAccept k rc o =>
    have hjk : j ≠ k := fun e => hj (by simp [pcSubject, e])
    simp only [step] at hs
    split at hs
    · rename_i hg
      obtain ⟨hch0, _⟩ := hi.fresh k (Or.inr hg.1)
      split at hs
      · cases o with
        | ok => simp only [Option.some.injEq] at hs; subst hs; simp [setSub, upd, hjk]
        | panic => simp only [Option.some.injEq] at hs; subst hs; simp [setSub, upd, hjk]
        | err =>
          simp only [Option.some.injEq] at hs; subst hs
          simp only [sendChan, closeChan, setSub, upd_same, hch0]
          simp [upd, hjk]
      · split at hs
        · simp only [Option.some.injEq] at hs; subst hs; simp [setSub, upd, hjk]
        · simp at hs
    · simp at hs
  | subClosedEarly k =>
    have hjk : j ≠ k := fun e => hj (by simp [pcSubject, e])
    simp only [step] at hs; split at hs <;> simp at hs; subst hs; simp [setSub, upd, hjk]
  | subSeeCancel k =>
    have hjk : j ≠ k := fun e => hj (by simp [pcSubject, e])
    simp only [step] at hs; split at hs <;> simp at hs; subst hs; simp [setSub, upd, hjk]
  | subRecv k =>
    have hjk : j ≠ k := fun e => hj (by simp [pcSubject, e])
    simp only [step] at hs
    split at hs
    · split at hs
      · simp only [Option.some.injEq] at hs; subst hs; simp [setSub, upd, hjk]
      · split at hs
        · simp only [Option.some.injEq] at hs; subst hs; simp [setSub, upd, hjk]
        · simp at hs
    · simp at hs
  | unsubAccept k =>
    have hjk : j ≠ k := fun e => hj (by simp [pcSubject, e])
    simp only [step] at hs; split at hs <;> simp at hs; subst hs
    simp only [setSub, upd_other _ _ _ _ hjk]; exact removeSubscriber_pc hi k j
  | cancel k =>
    simp only [step] at hs; split at hs <;> simp at hs; subst hs
    by_cases hjk : j = k
    · subst hjk; simp [setSub]
    · simp [setSub, upd, hjk]
  | pubCall p => simp only [step] at hs; split at hs <;> simp at hs; subst hs; rfl
  | pubNoTopic p => simp only [step] at hs; split at hs <;> simp at hs; subst hs; rfl
  | pubAccept p o =>
    simp only [step] at hs
    split at hs
    · split at hs
      · simp at hs
      · simp only [Option.some.injEq] at hs; subst hs; rfl
    · simp at hs
  | pubClosedEarly p => simp only [step] at hs; split at hs <;> simp at hs; subst hs; rfl
  | pubRecv p => simp only [step] at hs; split at hs <;> simp at hs; subst hs; rfl
  | fanStep k a b =>
    simp only [step] at hs
    split at hs
    · rename_i p rest hjo
      split at hs
      · rename_i hmem
        have hmem' : k ∈ rest := by simpa using hmem
        have hkm : k ∈ s.subscribers := (hi.fan p rest hjo).2 k hmem'
        have hnf : ∀ p' j' rest', s.joe ≠ .failed p' j' rest' := by simp [hjo]
        have hcl := (hi.reg k hkm).1
        have hbuf : (s.subs k).ch.buf = none := by
          rcases (hi.reg k hkm).2 with hb | ⟨p', rest', hf⟩
          · exact hb
          · exact absurd hf (hnf p' k rest')
        split at hs
        · simp only [Option.some.injEq] at hs; subst hs
          by_cases hjk : j = k
          · subst hjk; simp [setSub]
          · simp [setSub, upd, hjk]
        · simp only [Option.some.injEq] at hs
          rw [sendChan_ok _ _ _ (by simpa [setSub] using hcl) (by simpa [setSub] using hbuf)] at hs
          simp only [bad, setSub, hjo] at hs
          subst hs
          by_cases hjk : j = k
          · subst hjk; simp [upd]
          · simp [upd, hjk]
      · simp at hs
    · simp at hs
  | fanRemove =>
    simp only [step] at hs
    split at hs
    · rename_i p k rest hjo
      obtain ⟨_, hnb⟩ := inv_fanRemove hi hjo
      simp only [Bool.not_eq_true] at hnb
      simp only [Option.some.injEq] at hs; subst hs
      simp only [hnb, Bool.false_eq_true, if_false]
      exact removeSubscriber_pc hi k j
    · simp at hs
  | fanDone => simp only [step] at hs; split at hs <;> simp at hs; subst hs; rfl
  | loopExit =>
    simp only [step] at hs
    split at hs
    · rename_i hg
      simp only [Option.some.injEq] at hs; subst hs
      obtain ⟨_, hj1, hpc⟩ := inv_closeAll hi hg.1 s.subscribers
      have hnb : bad (closeAll s.subscribers s) = false := by simp [bad, hj1]
      simp only [hnb, Bool.false_eq_true, if_false]
      exact hpc j
    · simp at hs
  | shutCall k => simp only [step] at hs; split at hs <;> simp at hs; subst hs; rfl
  | shutClose k => simp only [step] at hs; split at hs <;> simp at hs; subst hs; rfl
  | shutRecovered k => simp only [step] at hs; split at hs <;> simp at hs; subst hs; rfl
  | shutSeeClosed k => simp only [step] at hs; split at hs <;> simp at hs; subst hs; rfl
  | shutCtx k => simp only [step] at hs; split at hs <;> simp at hs; subst hs; rfl
  | shutCancel k => simp only [step] at hs; split at hs <;> simp at hs; subst hs; rfl

/-- all Subscribe calls made so far have identifiers below `nS` -/
def SubsBelow (nS : Nat) (s : St) : Prop := ∀ j, nS ≤ j → (s.subs j).pc = .idle

theorem subsBelow_step {c : Cfg} {s s' : St} {nS nP nK : Nat} (hi : Inv s) (hb : SubsBelow nS s) (l : Label)
    (hl : labelIn nS nP nK l) (hs : step c s l = some s') : SubsBelow nS s' := by
  intro j hj
  rw [step_pc_frame hi l hs j ?_]
  · exact hb j hj
  · intro e
    cases l <;> simp only [pcSubject, Option.some.injEq] at e <;> try (simp at e)
    all_goals (subst e; have hlt : _ < nS := hl; omega)

theorem subscribers_below {s : St} {nS : Nat} (hi : Inv s) (hb : SubsBelow nS s) : ∀ i ∈ s.subscribers, i < nS := by
  intro i him
  cases Nat.lt_or_ge i nS with
  | inl h => exact h
  | inr h => exact absurd him (hi.fresh i (Or.inl (hb i h))).2

/-- **Every run without new calls is finite**: its length plus the measure of its last state is at most
the measure of its first state. -/
theorem run_bounded {c : Cfg} {s s' : St} {ls : List Label} (nS nP nK : Nat) (h : Reachable c s)
    (hb : SubsBelow nS s) (r : Run c s ls s')
    (hls : ∀ l ∈ ls, isCall l = false ∧ labelIn nS nP nK l) :
    ls.length + mu nS nP nK s' ≤ mu nS nP nK s := by
  induction r with
  | nil => simp
  | @cons s0 s1 s2 l ls' hs r' ih =>
    have hi := (reachable_all h).1
    obtain ⟨hc, hl⟩ := hls l (by simp)
    have hdec := step_mu_decreases nS nP nK hi (subscribers_below hi hb) l hl hc hs
    have := ih (Reachable.step h hs) (subsBelow_step hi hb l hl hs) (fun l' hl' => hls l' (by simp [hl']))
    simp only [List.length_cons]
    omega

end GoSSE.Proofs.Joe
