import GoSSE.Gen.Reset
import GoSSE.Proofs.GenEquivJoeLoop
import GoSSE.Proofs.MapLemmas
/-!
# The callback registry of a `Connection`, as translated from client_connection.go

`addSubscriber`, `addSubscriberToAll`, the two function literals they return (the *removers*: translated as definitions of
their own over the variables they capture — closure conversion: `addSubscriber` returns `(event, id)`,
`addSubscriberToAll` returns `id`) and `dispatch`. In the translated text a callback is a number (its identity) and a call
`cb(ev)` appends `(cb, ev)` to the log the `Connection` value carries (`cblog`); `callbacks` is an association list of
association lists and the two `range` statements of `dispatch` take their visiting orders as parameters (any lists).
`mu.Lock / RLock / Unlock` are no-ops: each translated function is one critical section (mutual exclusion is assumed —
the race-freedom clause of C13 stays with the `-race` runs of the differential harness).
-/
set_option linter.unusedSimpArgs false
set_option linter.unusedVariables false
namespace GoSSE.GenEquiv
open GoSSE GoSSE.GoRT GoSSE.MapL

/-- the callbacks registered for exactly the type `ty` (no entry reads as none registered) -/
abbrev typed (c : Gen.Connection) (ty : Bytes) : List (Int × Nat) := inner c.callbacks ty

/-- one call per visited key that is registered, in visiting order -/
def callsOf (m : List (Int × Nat)) (order : List Int) (ev : Gen.Event) : List (Nat × Gen.Event) :=
  (order.filterMap fun k => mapGet m k).map fun cb => (cb, ev)

theorem callsOf_nil (m : List (Int × Nat)) (ev : Gen.Event) : callsOf m [] ev = [] := rfl

theorem callsOf_cons (m : List (Int × Nat)) (k : Int) (ks : List Int) (ev : Gen.Event) :
    callsOf m (k :: ks) ev = (match mapGet m k with | some cb => [(cb, ev)] | none => []) ++ callsOf m ks ev := by
  unfold callsOf
  cases h : mapGet m k <;> simp [List.filterMap_cons, h]

theorem callsOf_empty_map (order : List Int) (ev : Gen.Event) : callsOf [] order ev = [] := by
  induction order with
  | nil => rfl
  | cons k ks ih => rw [callsOf_cons, ih]; rfl

def logged (c : Gen.Connection) (l : List (Nat × Gen.Event)) : Gen.Connection := { c with cblog := c.cblog ++ l }

theorem logged_nil (c : Gen.Connection) : logged c [] = c := by cases c; simp [logged]
theorem logged_logged (c : Gen.Connection) (a b : List (Nat × Gen.Event)) : logged (logged c a) b = logged c (a ++ b) := by
  cases c; simp [logged, List.append_assoc]

/-! ## dispatch -/

theorem disp1_body (fuel : Nat) (ev : Gen.Event) (pre suf : List Int) (k : Int) (c : Gen.Connection) :
    Gen.Connection_dispatch_loop1 fuel ev (pre ++ k :: suf) ((pre.length : Int), c) =
      .ok (.next (((pre.length + 1 : Nat) : Int),
        logged c (match mapGet (typed c ev.Type') k with | some cb => [(cb, ev)] | none => []))) := by
  unfold Gen.Connection_dispatch_loop1
  simp only [lt_len_mid pre suf k, if_true, bind, Except.bind, idx_mid pre suf k, cast_succ]
  cases h : mapGet (typed c ev.Type') k with
  | none =>
    have h' : mapGet ((mapGet c.callbacks ev.Type').getD []) k = none := h
    simp [h', pure, Except.pure, logged_nil]
  | some v =>
    have h' : mapGet ((mapGet c.callbacks ev.Type').getD []) k = some v := h
    simp [h', pure, Except.pure, derefPtr, logged, bind, Except.bind]

theorem disp1_end (fuel : Nat) (ev : Gen.Event) (xs : List Int) (c : Gen.Connection) :
    Gen.Connection_dispatch_loop1 fuel ev xs ((xs.length : Int), c) = .ok (.brk ((xs.length : Int), c)) := by
  unfold Gen.Connection_dispatch_loop1
  simp [not_lt_len_end xs, pure, Except.pure]

theorem disp1_loop (fuel : Nat) (ev : Gen.Event) (xs : List Int) : ∀ (suf pre : List Int) (c : Gen.Connection) (n : Nat),
    xs = pre ++ suf → suf.length < n →
    loopM (Gen.Connection_dispatch_loop1 fuel ev xs) n ((pre.length : Int), c) =
      .ok (.inl ((xs.length : Int), logged c (callsOf (typed c ev.Type') suf ev))) := by
  intro suf
  induction suf with
  | nil =>
    intro pre c n hx hn
    obtain ⟨n', rfl⟩ : ∃ n', n = n' + 1 := ⟨n - 1, by omega⟩
    have hx' : xs = pre := by simpa using hx
    subst hx'
    simp only [loopM, disp1_end, callsOf_nil, logged_nil]
    rfl
  | cons k suf ih =>
    intro pre c n hx hn
    obtain ⟨n', rfl⟩ : ∃ n', n = n' + 1 := ⟨n - 1, by omega⟩
    have hn' : suf.length < n' := by simp at hn; omega
    have hrec := ih (pre ++ [k]) (logged c (match mapGet (typed c ev.Type') k with | some cb => [(cb, ev)] | none => [])) n'
      (by simp [hx]) hn'
    simp only [List.length_append, List.length_cons, List.length_nil, Nat.zero_add] at hrec
    subst hx
    simp only [loopM, disp1_body]
    rw [hrec, logged_logged, callsOf_cons]
    rfl

theorem disp2_body (fuel : Nat) (ev : Gen.Event) (pre suf : List Int) (k : Int) (c : Gen.Connection) :
    Gen.Connection_dispatch_loop2 fuel ev (pre ++ k :: suf) ((pre.length : Int), c) =
      .ok (.next (((pre.length + 1 : Nat) : Int),
        logged c (match mapGet c.callbacksAll k with | some cb => [(cb, ev)] | none => []))) := by
  unfold Gen.Connection_dispatch_loop2
  simp only [lt_len_mid pre suf k, if_true, bind, Except.bind, idx_mid pre suf k, cast_succ]
  cases h : mapGet c.callbacksAll k with
  | none => simp [h, pure, Except.pure, logged_nil]
  | some v => simp [h, pure, Except.pure, derefPtr, logged, bind, Except.bind]

theorem disp2_end (fuel : Nat) (ev : Gen.Event) (xs : List Int) (c : Gen.Connection) :
    Gen.Connection_dispatch_loop2 fuel ev xs ((xs.length : Int), c) = .ok (.brk ((xs.length : Int), c)) := by
  unfold Gen.Connection_dispatch_loop2
  simp [not_lt_len_end xs, pure, Except.pure]

theorem disp2_loop (fuel : Nat) (ev : Gen.Event) (xs : List Int) : ∀ (suf pre : List Int) (c : Gen.Connection) (n : Nat),
    xs = pre ++ suf → suf.length < n →
    loopM (Gen.Connection_dispatch_loop2 fuel ev xs) n ((pre.length : Int), c) =
      .ok (.inl ((xs.length : Int), logged c (callsOf c.callbacksAll suf ev))) := by
  intro suf
  induction suf with
  | nil =>
    intro pre c n hx hn
    obtain ⟨n', rfl⟩ : ∃ n', n = n' + 1 := ⟨n - 1, by omega⟩
    have hx' : xs = pre := by simpa using hx
    subst hx'
    simp only [loopM, disp2_end, callsOf_nil, logged_nil]
    rfl
  | cons k suf ih =>
    intro pre c n hx hn
    obtain ⟨n', rfl⟩ : ∃ n', n = n' + 1 := ⟨n - 1, by omega⟩
    have hn' : suf.length < n' := by simp at hn; omega
    have hrec := ih (pre ++ [k]) (logged c (match mapGet c.callbacksAll k with | some cb => [(cb, ev)] | none => [])) n'
      (by simp [hx]) hn'
    simp only [List.length_append, List.length_cons, List.length_nil, Nat.zero_add] at hrec
    subst hx
    simp only [loopM, disp2_body]
    rw [hrec, logged_logged, callsOf_cons]
    rfl

/-- **`dispatch` as translated**: whatever the two visiting orders, the connection is left as it was but for the call
log, which grows by one call per visited key registered for exactly the event's type, then one per visited key
registered for all events — each with this very event. (When nothing at all is registered the early return is taken:
both lists of calls are empty then, so the same formula holds.) -/
theorem dispatch_eq (fuel : Nat) (c : Gen.Connection) (ev : Gen.Event) (order order2 : List Int)
    (hf : order.length < fuel) (hf2 : order2.length < fuel) :
    Gen.Connection_dispatch fuel c ev order order2 =
      .ok (logged c (callsOf (typed c ev.Type') order ev ++ callsOf c.callbacksAll order2 ev)) := by
  unfold Gen.Connection_dispatch
  have h1 := disp1_loop fuel ev order order [] c fuel (by simp) hf
  have h2 := disp2_loop fuel ev order2 order2 [] (logged c (callsOf (typed c ev.Type') order ev)) fuel (by simp) hf2
  simp only [List.length_nil] at h1 h2
  have h0 : ((0 : Nat) : Int) = (0 : Int) := rfl
  rw [h0] at h1 h2
  by_cases hz : (len (typed c ev.Type') + len c.callbacksAll == (0 : Int)) = true
  · have hz' : (typed c ev.Type').length = 0 ∧ c.callbacksAll.length = 0 := by
      simp [len] at hz; omega
    have e1 : typed c ev.Type' = [] := List.length_eq_zero_iff.mp hz'.1
    have e2 : c.callbacksAll = [] := List.length_eq_zero_iff.mp hz'.2
    have hz2 : (len ((mapGet c.callbacks ev.Type').getD []) + len c.callbacksAll == (0 : Int)) = true := hz
    simp only [hz2, if_true, pure, Except.pure]
    rw [e1, e2, callsOf_empty_map, callsOf_empty_map, List.append_nil, logged_nil]
  · have hz2 : (len ((mapGet c.callbacks ev.Type').getD []) + len c.callbacksAll == (0 : Int)) = false :=
      Bool.eq_false_iff.mpr hz
    simp only [hz2, Bool.false_eq_true, if_false, bind, Except.bind, h1]
    have h2' : loopM (Gen.Connection_dispatch_loop2 fuel ev order2) fuel
        ((0 : Int), logged c (callsOf (typed c ev.Type') order ev)) = _ := h2
    simp only [h2', pure, Except.pure, logged_logged]
    rfl

/-! ## subscribing and unsubscribing -/

/-- `addSubscriberToAll`: the callback is registered under the next id, which is handed back (the remover's environment) -/
theorem addSubscriberToAll_eq (fuel : Nat) (c : Gen.Connection) (cb : Nat) :
    Gen.Connection_addSubscriberToAll fuel c cb =
      .ok (c.callbackID, { c with callbacksAll := mapPut c.callbacksAll c.callbackID cb, callbackID := c.callbackID + 1 }) := by
  unfold Gen.Connection_addSubscriberToAll
  rfl

/-- `addSubscriber`: the callback is registered for `event` under the next id; `(event, id)` is handed back -/
theorem addSubscriber_eq (fuel : Nat) (c : Gen.Connection) (event : Bytes) (cb : Nat) :
    Gen.Connection_addSubscriber fuel c event cb =
      .ok ((event, c.callbackID),
        { c with callbacks := mapPut c.callbacks event (mapPut (typed c event) c.callbackID cb), callbackID := c.callbackID + 1 }) := by
  unfold Gen.Connection_addSubscriber
  cases h : mapGet c.callbacks event with
  | none =>
    have hp : mapGet (mapPut c.callbacks event []) event = some ([] : List (Int × Nat)) := get_put_self _ _ _
    have hs : (mapGet (mapPut c.callbacks event ([] : List (Int × Nat))) event).isSome := by simp [hp]
    simp only [h, Option.isSome_none, Bool.not_false, if_true, mapInner, hp, bind, Except.bind, pure, Except.pure]
    have : typed c event = [] := by simp [typed, inner, h]
    rw [this, put_put_self]
  | some x =>
    simp only [h, Option.isSome_some, Bool.not_true, Bool.false_eq_true, if_false, mapInner, bind, Except.bind, pure, Except.pure]
    have : typed c event = x := by simp [typed, inner, h]
    rw [this]

theorem removeFromAll_eq (fuel : Nat) (c : Gen.Connection) (id : Int) :
    Gen.Connection_removeFromAll fuel c id = .ok { c with callbacksAll := mapDel c.callbacksAll id } := by
  unfold Gen.Connection_removeFromAll
  rfl

/-- what the remover of a typed subscription does to the registry -/
def removeTypedSpec (cbs : List (Bytes × List (Int × Nat))) (event : Bytes) (id : Int) : List (Bytes × List (Int × Nat)) :=
  let m := mapDelIn cbs event id
  if (inner m event).length = 0 then mapDel m event else m

theorem removeFromType_eq (fuel : Nat) (c : Gen.Connection) (event : Bytes) (id : Int) :
    Gen.Connection_removeFromType fuel c event id = .ok { c with callbacks := removeTypedSpec c.callbacks event id } := by
  unfold Gen.Connection_removeFromType removeTypedSpec
  by_cases hl : (inner (mapDelIn c.callbacks event id) event).length = 0
  · have : (len ((mapGet (mapDelIn c.callbacks event id) event).getD []) == (0 : Int)) = true := by
      have : len (inner (mapDelIn c.callbacks event id) event) = 0 := by simp [len, hl]
      simpa [inner] using this
    simp [this, hl, pure, Except.pure]
  · have : (len ((mapGet (mapDelIn c.callbacks event id) event).getD []) == (0 : Int)) = false := by
      have : ¬ len (inner (mapDelIn c.callbacks event id) event) = 0 := by
        intro h0
        apply hl
        have h1 : ((inner (mapDelIn c.callbacks event id) event).length : Int) = 0 := h0
        omega
      simpa [inner] using this
    simp [this, hl, pure, Except.pure]

/-- after the typed remover, read per type: its own id is gone from its own type, every other registration is as before
(dropping the emptied inner map changes nothing for a reader: no entry reads as empty) -/
theorem removeTyped_self (cbs : List (Bytes × List (Int × Nat))) (event : Bytes) (id : Int) :
    mapGet (inner (removeTypedSpec cbs event id) event) id = none := by
  unfold removeTypedSpec
  simp only [inner_delIn_self]
  by_cases hl : (mapDel (inner cbs event) id).length = 0
  · simp only [hl, if_true, inner_del_self, get_nil]
  · simp only [hl, if_false, inner_delIn_self, get_del_self]

theorem removeTyped_other_id (cbs : List (Bytes × List (Int × Nat))) (event : Bytes) (id k : Int) (h : k ≠ id) :
    mapGet (inner (removeTypedSpec cbs event id) event) k = mapGet (inner cbs event) k := by
  unfold removeTypedSpec
  simp only [inner_delIn_self]
  by_cases hl : (mapDel (inner cbs event) id).length = 0
  · simp only [hl, if_true, inner_del_self, get_nil]
    have e : mapDel (inner cbs event) id = [] := List.length_eq_zero_iff.mp hl
    have := get_del_other (inner cbs event) id k h
    rw [e, get_nil] at this
    exact this
  · simp only [hl, if_false, inner_delIn_self, get_del_other _ id k h]

theorem removeTyped_other_type (cbs : List (Bytes × List (Int × Nat))) (event ty : Bytes) (id : Int) (h : ty ≠ event) :
    inner (removeTypedSpec cbs event id) ty = inner cbs ty := by
  unfold removeTypedSpec
  simp only [inner_delIn_self]
  by_cases hl : (mapDel (inner cbs event) id).length = 0
  · simp only [hl, if_true, inner_del_other _ event ty h, inner_delIn_other _ event ty id h]
  · simp only [hl, if_false, inner_delIn_other _ event ty id h]

/-! ## what a reader of the registry sees after each operation -/

/-- the connection after `addSubscriber event cb` -/
def afterSub (c : Gen.Connection) (event : Bytes) (cb : Nat) : Gen.Connection :=
  { c with callbacks := mapPut c.callbacks event (mapPut (typed c event) c.callbackID cb), callbackID := c.callbackID + 1 }

/-- … after `addSubscriberToAll cb` -/
def afterSubAll (c : Gen.Connection) (cb : Nat) : Gen.Connection :=
  { c with callbacksAll := mapPut c.callbacksAll c.callbackID cb, callbackID := c.callbackID + 1 }

/-- every id in use is below the counter: the next id is one nobody holds -/
def Fresh (c : Gen.Connection) : Prop :=
  (∀ ty k, (mapGet (typed c ty) k).isSome → k < c.callbackID) ∧ (∀ k, (mapGet c.callbacksAll k).isSome → k < c.callbackID)

theorem sub_self (c : Gen.Connection) (event : Bytes) (cb : Nat) :
    mapGet (typed (afterSub c event cb) event) c.callbackID = some cb := by
  show mapGet (inner (mapPut c.callbacks event _) event) c.callbackID = some cb
  rw [inner_put_self, get_put_self]

theorem sub_other (c : Gen.Connection) (event : Bytes) (cb : Nat) (ty : Bytes) (k : Int)
    (h : ty ≠ event ∨ k ≠ c.callbackID) :
    mapGet (typed (afterSub c event cb) ty) k = mapGet (typed c ty) k := by
  show mapGet (inner (mapPut c.callbacks event _) ty) k = mapGet (inner c.callbacks ty) k
  by_cases ht : ty = event
  · subst ht
    have hk : k ≠ c.callbackID := by cases h with | inl h => exact absurd rfl h | inr h => exact h
    rw [inner_put_self, get_put_other _ _ _ _ hk]
  · rw [inner_put_other _ _ _ _ ht]

theorem sub_fresh (c : Gen.Connection) (event : Bytes) (cb : Nat) (h : Fresh c) : Fresh (afterSub c event cb) := by
  constructor
  · intro ty k hs
    show k < c.callbackID + 1
    by_cases he : ty = event ∧ k = c.callbackID
    · omega
    · have h' : ty ≠ event ∨ k ≠ c.callbackID := by
        by_cases ht : ty = event
        · exact Or.inr (fun hk => he ⟨ht, hk⟩)
        · exact Or.inl ht
      rw [sub_other c event cb ty k h'] at hs
      have := h.1 ty k hs
      omega
  · intro k hs
    have := h.2 k hs
    show k < c.callbackID + 1
    omega

theorem sub_slot_free (c : Gen.Connection) (event : Bytes) (h : Fresh c) : mapGet (typed c event) c.callbackID = none := by
  cases hg : mapGet (typed c event) c.callbackID with
  | none => rfl
  | some v =>
    have := h.1 event c.callbackID (by simp [hg])
    omega

theorem subAll_self (c : Gen.Connection) (cb : Nat) : mapGet (afterSubAll c cb).callbacksAll c.callbackID = some cb := by
  show mapGet (mapPut c.callbacksAll c.callbackID cb) c.callbackID = some cb
  rw [get_put_self]

theorem subAll_other (c : Gen.Connection) (cb : Nat) (k : Int) (h : k ≠ c.callbackID) :
    mapGet (afterSubAll c cb).callbacksAll k = mapGet c.callbacksAll k := by
  show mapGet (mapPut c.callbacksAll c.callbackID cb) k = _
  rw [get_put_other _ _ _ _ h]

theorem subAll_fresh (c : Gen.Connection) (cb : Nat) (h : Fresh c) : Fresh (afterSubAll c cb) := by
  constructor
  · intro ty k hs
    have := h.1 ty k hs
    show k < c.callbackID + 1
    omega
  · intro k hs
    show k < c.callbackID + 1
    by_cases hk : k = c.callbackID
    · omega
    · rw [subAll_other c cb k hk] at hs
      have := h.2 k hs
      omega

theorem subAll_slot_free (c : Gen.Connection) (h : Fresh c) : mapGet c.callbacksAll c.callbackID = none := by
  cases hg : mapGet c.callbacksAll c.callbackID with
  | none => rfl
  | some v =>
    have := h.2 c.callbackID (by simp [hg])
    omega

/-- the connection after the remover of a typed subscription -/
def afterUnsub (c : Gen.Connection) (event : Bytes) (id : Int) : Gen.Connection :=
  { c with callbacks := removeTypedSpec c.callbacks event id }

def afterUnsubAll (c : Gen.Connection) (id : Int) : Gen.Connection := { c with callbacksAll := mapDel c.callbacksAll id }

theorem unsub_lookup (c : Gen.Connection) (event : Bytes) (id : Int) (ty : Bytes) (k : Int) :
    mapGet (typed (afterUnsub c event id) ty) k = if ty = event ∧ k = id then none else mapGet (typed c ty) k := by
  show mapGet (inner (removeTypedSpec c.callbacks event id) ty) k = _
  by_cases ht : ty = event
  · subst ht
    by_cases hk : k = id
    · subst hk; simp [removeTyped_self]
    · simp [hk, removeTyped_other_id _ _ _ _ hk, typed]
  · simp [ht, removeTyped_other_type _ _ _ _ ht, typed]

theorem unsubAll_lookup (c : Gen.Connection) (id k : Int) :
    mapGet (afterUnsubAll c id).callbacksAll k = if k = id then none else mapGet c.callbacksAll k := by
  show mapGet (mapDel c.callbacksAll id) k = _
  by_cases hk : k = id
  · subst hk; simp [get_del_self]
  · simp [hk, get_del_other _ _ _ hk]

theorem unsub_fresh (c : Gen.Connection) (event : Bytes) (id : Int) (h : Fresh c) : Fresh (afterUnsub c event id) := by
  constructor
  · intro ty k hs
    rw [unsub_lookup] at hs
    by_cases he : ty = event ∧ k = id
    · simp [he] at hs
    · simp only [he, if_false] at hs
      exact h.1 ty k hs
  · exact h.2

theorem unsubAll_fresh (c : Gen.Connection) (id : Int) (h : Fresh c) : Fresh (afterUnsubAll c id) := by
  constructor
  · exact h.1
  · intro k hs
    rw [unsubAll_lookup] at hs
    by_cases he : k = id
    · simp [he] at hs
    · simp only [he, if_false] at hs
      exact h.2 k hs

/-- a call through a callback shows up in `callsOf` only for a key that is registered, with the callback registered there -/
theorem mem_callsOf (m : List (Int × Nat)) (order : List Int) (ev : Gen.Event) (x : Nat × Gen.Event) (h : x ∈ callsOf m order ev) :
    x.2 = ev ∧ ∃ k ∈ order, mapGet m k = some x.1 := by
  unfold callsOf at h
  simp only [List.mem_map, List.mem_filterMap] at h
  obtain ⟨cb, ⟨k, hk, hg⟩, rfl⟩ := h
  exact ⟨rfl, k, hk, hg⟩

/-- a key that is not registered contributes no call, wherever it stands in the order -/
theorem callsOf_length (m : List (Int × Nat)) (order : List Int) (ev : Gen.Event) :
    (callsOf m order ev).length = (order.filter fun k => (mapGet m k).isSome).length := by
  induction order with
  | nil => rfl
  | cons k ks ih =>
    rw [callsOf_cons, List.filter_cons]
    cases h : mapGet m k <;> simp [h, ih]

end GoSSE.GenEquiv
