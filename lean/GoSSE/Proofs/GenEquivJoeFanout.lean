import GoSSE.Proofs.GenEquivJoeLoop
/-!
# What the fan-out of a published message does (about `fanStep`, the step the translated loop is a fold of)

For one key: which subscriber entries and which part of the channel log a step touches (`fanStep_other`, `fanStep_self`,
`fanStep_log`). For a whole fan-out over a duplicate-free order of keys (a map's keys are distinct): every subscriber is
dealt with exactly once, by `outcome` (`fold_at`), the others are not touched (`fold_not_in`), and the channel log grows by
exactly the hand-overs of the failed ones, in order (`fold_log`).
-/
set_option linter.unusedSimpArgs false
set_option linter.unusedVariables false
namespace GoSSE.GenEquiv
open GoSSE GoSSE.GoRT GoSSE.Model

variable {σ : Type}

/-! ### association lists -/

theorem mapGet_nil {ν : Type} (k : Nat) : mapGet ([] : List (Nat × ν)) k = none := rfl

theorem mapGet_cons {ν : Type} (a : Nat) (b : ν) (m : List (Nat × ν)) (k : Nat) :
    mapGet ((a, b) :: m) k = if a = k then some b else mapGet m k := by
  by_cases h : a = k
  · simp [mapGet, List.find?, h]
  · have : (a == k) = false := by simpa using h
    simp [mapGet, List.find?, h, this]

theorem mapSet_cons {ν : Type} (a : Nat) (b : ν) (m : List (Nat × ν)) (k : Nat) (v : ν) :
    mapSet ((a, b) :: m) k v = (if a = k then (k, v) else (a, b)) :: mapSet m k v := by
  by_cases h : a = k <;> simp [mapSet, h]

theorem mapDel_cons {ν : Type} (a : Nat) (b : ν) (m : List (Nat × ν)) (k : Nat) :
    mapDel ((a, b) :: m) k = if a = k then mapDel m k else (a, b) :: mapDel m k := by
  by_cases h : a = k
  · simp [mapDel, List.filter, h]
  · have : (a == k) = false := by simpa using h
    simp [mapDel, List.filter, h, this]

theorem mapGet_mapSet_self {ν : Type} (m : List (Nat × ν)) (k : Nat) (v v0 : ν) (h : mapGet m k = some v0) :
    mapGet (mapSet m k v) k = some v := by
  induction m with
  | nil => simp [mapGet_nil] at h
  | cons e m ih =>
    obtain ⟨a, b⟩ := e
    rw [mapGet_cons] at h
    rw [mapSet_cons]
    by_cases he : a = k
    · simp [he, mapGet_cons]
    · simp only [he, if_false] at h ⊢
      rw [mapGet_cons]
      simp only [he, if_false]
      exact ih h

theorem mapGet_mapSet_other {ν : Type} (m : List (Nat × ν)) (k k' : Nat) (v : ν) (h : k' ≠ k) :
    mapGet (mapSet m k v) k' = mapGet m k' := by
  induction m with
  | nil => rfl
  | cons e m ih =>
    obtain ⟨a, b⟩ := e
    rw [mapSet_cons, mapGet_cons]
    by_cases he : a = k
    · have h1 : ¬ k = k' := fun x => h x.symm
      have h2 : ¬ a = k' := by rw [he]; exact h1
      simp only [he, if_true, mapGet_cons, h1, if_false]
      exact ih
    · simp only [he, if_false, mapGet_cons]
      by_cases hk : a = k'
      · simp [hk]
      · simp only [hk, if_false]; exact ih

theorem mapGet_mapDel_self {ν : Type} (m : List (Nat × ν)) (k : Nat) : mapGet (mapDel m k) k = none := by
  induction m with
  | nil => rfl
  | cons e m ih =>
    obtain ⟨a, b⟩ := e
    rw [mapDel_cons]
    by_cases he : a = k
    · simp only [he, if_true]; exact ih
    · simp only [he, if_false, mapGet_cons]; exact ih

theorem mapGet_mapDel_other {ν : Type} (m : List (Nat × ν)) (k k' : Nat) (h : k' ≠ k) :
    mapGet (mapDel m k) k' = mapGet m k' := by
  induction m with
  | nil => rfl
  | cons e m ih =>
    obtain ⟨a, b⟩ := e
    rw [mapDel_cons, mapGet_cons]
    by_cases he : a = k
    · have h2 : ¬ k = k' := fun x => h x.symm
      subst he
      simp only [if_true, h2, if_false]
      exact ih
    · simp only [he, if_false, mapGet_cons]
      by_cases hk : a = k'
      · simp [hk]
      · simp only [hk, if_false]; exact ih

/-! ### one step -/

/-- what happens to one subscriber in a fan-out -/
inductive Outcome (σ : Type)
  | skipped                                              -- its topics do not meet the message's: no call at all
  | delivered (sub' : Gen.Subscription σ)                 -- one Send, one Flush, both succeeded
  | failed (e : Option String)                            -- one Send and, if that succeeded, one Flush; the first error

def outcome (msg : Gen.publishedMessage) (sub : Gen.Subscription σ) : Outcome σ :=
  if topicsIntersect sub.Topics msg.messageWithTopics.topics then
    let r1 := sub.Client.send sub.Client.st msg.messageWithTopics.message
    match r1.1 with
    | some e => .failed (some e)
    | none =>
      let r2 := (setWriter sub r1.2).Client.flush r1.2
      match r2.1 with
      | some e => .failed (some e)
      | none => .delivered (setWriter (setWriter sub r1.2) r2.2)
  else .skipped

theorem removeSpec_other (j : Gen.Joe σ) (k k' : Nat) (h : k' ≠ k) :
    mapGet (removeSpec j k).subscribers k' = mapGet j.subscribers k' := by
  unfold removeSpec
  split
  · exact mapGet_mapDel_other _ _ _ h
  · rfl

/-- a step at `k` leaves every other key's entry alone -/
theorem fanStep_other (msg : Gen.publishedMessage) (j : Gen.Joe σ) (k k' : Nat) (h : k' ≠ k) :
    mapGet (fanStep msg j k).subscribers k' = mapGet j.subscribers k' := by
  unfold fanStep
  cases hg : mapGet j.subscribers k with
  | none => rfl
  | some sub =>
    simp only
    split
    · split
      · simp only [failSub]
        rw [removeSpec_other _ _ _ h]
        exact mapGet_mapSet_other _ _ _ _ h
      · split
        · simp only [failSub]
          rw [removeSpec_other _ _ _ h]
          simp only [mapGet_mapSet_other _ _ _ _ h]
        · simp only [mapGet_mapSet_other _ _ _ _ h]
    · rfl

/-- a step at a key that is no subscriber does nothing -/
theorem fanStep_absent (msg : Gen.publishedMessage) (j : Gen.Joe σ) (k : Nat) (h : mapGet j.subscribers k = none) :
    fanStep msg j k = j := by
  simp [fanStep, h]

/-- a step at subscriber `k`: its entry afterwards, by `outcome` -/
theorem fanStep_self (msg : Gen.publishedMessage) (j : Gen.Joe σ) (k : Nat) (sub : Gen.Subscription σ)
    (h : mapGet j.subscribers k = some sub) :
    mapGet (fanStep msg j k).subscribers k =
      match outcome msg sub with
      | .skipped => some sub
      | .delivered sub' => some sub'
      | .failed _ => none := by
  unfold fanStep outcome
  simp only [h]
  cases hti : topicsIntersect sub.Topics msg.messageWithTopics.topics with
  | false => simp [h]
  | true =>
    simp only [if_true]
    have p1 := mapGet_mapSet_self j.subscribers k (setWriter sub (sub.Client.send sub.Client.st msg.messageWithTopics.message).2) sub h
    cases h1 : (sub.Client.send sub.Client.st msg.messageWithTopics.message).1 with
    | some e =>
      simp only [failSub, removeSpec, p1, Option.isSome_some, if_true]
      exact mapGet_mapDel_self _ _
    | none =>
      simp only
      have p2 := mapGet_mapSet_self _ k (setWriter (setWriter sub (sub.Client.send sub.Client.st msg.messageWithTopics.message).2)
        ((setWriter sub (sub.Client.send sub.Client.st msg.messageWithTopics.message).2).Client.flush (sub.Client.send sub.Client.st msg.messageWithTopics.message).2).2) _ p1
      cases h2 : ((setWriter sub (sub.Client.send sub.Client.st msg.messageWithTopics.message).2).Client.flush (sub.Client.send sub.Client.st msg.messageWithTopics.message).2).1 with
      | some e =>
        simp only [failSub, removeSpec, p2, Option.isSome_some, if_true]
        exact mapGet_mapDel_self _ _
      | none => exact p2

/-- … and what it appends to the channel log: nothing, or — for a failed subscriber — its error on its own channel and
then that channel's close -/
theorem fanStep_log (msg : Gen.publishedMessage) (j : Gen.Joe σ) (k : Nat) (sub : Gen.Subscription σ)
    (h : mapGet j.subscribers k = some sub) :
    (fanStep msg j k).chlog = j.chlog ++
      match outcome msg sub with
      | .failed e => [ChanOp.send k e, ChanOp.close k]
      | _ => [] := by
  unfold fanStep outcome
  simp only [h]
  cases hti : topicsIntersect sub.Topics msg.messageWithTopics.topics with
  | false => simp
  | true =>
    simp only [if_true]
    have p1 := mapGet_mapSet_self j.subscribers k (setWriter sub (sub.Client.send sub.Client.st msg.messageWithTopics.message).2) sub h
    cases h1 : (sub.Client.send sub.Client.st msg.messageWithTopics.message).1 with
    | some e => simp [failSub, removeSpec, p1, List.append_assoc]
    | none =>
      simp only
      have p2 := mapGet_mapSet_self _ k (setWriter (setWriter sub (sub.Client.send sub.Client.st msg.messageWithTopics.message).2)
        ((setWriter sub (sub.Client.send sub.Client.st msg.messageWithTopics.message).2).Client.flush (sub.Client.send sub.Client.st msg.messageWithTopics.message).2).2) _ p1
      cases h2 : ((setWriter sub (sub.Client.send sub.Client.st msg.messageWithTopics.message).2).Client.flush (sub.Client.send sub.Client.st msg.messageWithTopics.message).2).1 with
      | some e => simp [failSub, removeSpec, p2, List.append_assoc]
      | none => simp

/-! ### a whole fan-out -/

/-- what a fan-out appends to the channel log for key `k`, given the entry it finds there -/
def stepLog (msg : Gen.publishedMessage) (k : Nat) : Option (Gen.Subscription σ) → List (ChanOp (Option String))
  | none => []
  | some sub =>
    match outcome msg sub with
    | .failed e => [ChanOp.send k e, ChanOp.close k]
    | _ => []

theorem fanStep_log' (msg : Gen.publishedMessage) (j : Gen.Joe σ) (k : Nat) :
    (fanStep msg j k).chlog = j.chlog ++ stepLog msg k (mapGet j.subscribers k) := by
  cases h : mapGet j.subscribers k with
  | none => simp [fanStep_absent msg j k h, stepLog]
  | some sub => rw [fanStep_log msg j k sub h]; rfl

/-- keys that are not visited keep their entry: no call is made on their writers -/
theorem fold_not_in (msg : Gen.publishedMessage) (ks : List Nat) (j : Gen.Joe σ) (k : Nat) (h : k ∉ ks) :
    mapGet (ks.foldl (fanStep msg) j).subscribers k = mapGet j.subscribers k := by
  induction ks generalizing j with
  | nil => rfl
  | cons a ks ih =>
    simp only [List.mem_cons, not_or] at h
    simp only [List.foldl_cons]
    rw [ih _ h.2, fanStep_other msg j a k h.1]

/-- **every subscriber is dealt with exactly once**: over a duplicate-free order, the entry of a visited key afterwards is
what one `outcome` makes of the entry it had before — untouched if its topics do not meet the message's, its writer
after exactly one `Send` and one `Flush` if both succeeded, gone if one of them failed -/
theorem fold_at (msg : Gen.publishedMessage) (ks : List Nat) (j : Gen.Joe σ) (k : Nat) (sub : Gen.Subscription σ)
    (hnd : ks.Nodup) (hk : k ∈ ks) (h : mapGet j.subscribers k = some sub) :
    mapGet (ks.foldl (fanStep msg) j).subscribers k =
      match outcome msg sub with
      | .skipped => some sub
      | .delivered sub' => some sub'
      | .failed _ => none := by
  induction ks generalizing j with
  | nil => simp at hk
  | cons a ks ih =>
    simp only [List.foldl_cons]
    have hnd' := List.nodup_cons.1 hnd
    by_cases ha : a = k
    · subst ha
      rw [fold_not_in msg ks _ a hnd'.1]
      exact fanStep_self msg j a sub h
    · have hk' : k ∈ ks := by
        rcases List.mem_cons.1 hk with h1 | h1
        · exact absurd h1.symm ha
        · exact h1
      apply ih _ hnd'.2 hk'
      rw [fanStep_other msg j a k (fun x => ha x.symm)]
      exact h

/-- **the channel log of a fan-out**: over a duplicate-free order it grows by exactly, for every failed subscriber in
turn, its error on its own channel followed by that channel's close — nothing for the others; so no channel is sent to
or closed twice, and nothing is ever put on a channel that is not closed right after -/
theorem fold_log (msg : Gen.publishedMessage) (ks : List Nat) (j : Gen.Joe σ) (hnd : ks.Nodup) :
    (ks.foldl (fanStep msg) j).chlog = j.chlog ++ ks.flatMap fun k => stepLog msg k (mapGet j.subscribers k) := by
  induction ks generalizing j with
  | nil => simp
  | cons a ks ih =>
    have hnd' := List.nodup_cons.1 hnd
    simp only [List.foldl_cons, List.flatMap_cons]
    rw [ih _ hnd'.2, fanStep_log' msg j a, List.append_assoc]
    congr 2
    have hcongr : ∀ (l : List Nat), (∀ k ∈ l, k ≠ a) →
        (l.flatMap fun k => stepLog msg k (mapGet (fanStep msg j a).subscribers k)) =
          (l.flatMap fun k => stepLog msg k (mapGet j.subscribers k)) := by
      intro l
      induction l with
      | nil => intro _; rfl
      | cons b l ihl =>
        intro hb
        simp only [List.flatMap_cons]
        rw [fanStep_other msg j a b (hb b (by simp)), ihl (fun k hk => hb k (by simp [hk]))]
    exact hcongr ks (fun k hk x => hnd'.1 (x ▸ hk))

/-! ### closeSubscribers -/

theorem removeSpec_self (j : Gen.Joe σ) (k : Nat) : mapGet (removeSpec j k).subscribers k = none := by
  unfold removeSpec
  cases h : mapGet j.subscribers k with
  | none => simp [h]
  | some v => simp [h, mapGet_mapDel_self]

theorem removeSpec_log (j : Gen.Joe σ) (k : Nat) :
    (removeSpec j k).chlog = j.chlog ++ (if (mapGet j.subscribers k).isSome then [ChanOp.close k] else []) := by
  unfold removeSpec
  cases h : (mapGet j.subscribers k).isSome <;> simp [h]

theorem closeFold_other (ks : List Nat) (j : Gen.Joe σ) (k : Nat) (h : k ∉ ks) :
    mapGet (ks.foldl removeSpec j).subscribers k = mapGet j.subscribers k := by
  induction ks generalizing j with
  | nil => rfl
  | cons a ks ih =>
    simp only [List.mem_cons, not_or] at h
    simp only [List.foldl_cons]
    rw [ih _ h.2, removeSpec_other j a k h.1]

/-- after `closeSubscribers` no visited key is a subscriber any more -/
theorem closeFold_gone (ks : List Nat) (j : Gen.Joe σ) (k : Nat) (hk : k ∈ ks) :
    mapGet (ks.foldl removeSpec j).subscribers k = none := by
  induction ks generalizing j with
  | nil => simp at hk
  | cons a ks ih =>
    simp only [List.foldl_cons]
    by_cases hin : k ∈ ks
    · exact ih _ hin
    · have ha : k = a := by
        rcases List.mem_cons.1 hk with h1 | h1
        · exact h1
        · exact absurd h1 hin
      subst ha
      rw [closeFold_other ks _ k hin]
      exact removeSpec_self j k

/-- … and every channel of a registered subscriber was closed exactly once, those and no others, in the order visited -/
theorem closeFold_log (ks : List Nat) (j : Gen.Joe σ) (hnd : ks.Nodup) :
    (ks.foldl removeSpec j).chlog =
      j.chlog ++ (ks.filter fun k => (mapGet j.subscribers k).isSome).map ChanOp.close := by
  induction ks generalizing j with
  | nil => simp
  | cons a ks ih =>
    have hnd' := List.nodup_cons.1 hnd
    simp only [List.foldl_cons]
    rw [ih _ hnd'.2, removeSpec_log, List.append_assoc]
    congr 1
    have hcongr : ∀ (l : List Nat), (∀ k ∈ l, k ≠ a) →
        (l.filter fun k => (mapGet (removeSpec j a).subscribers k).isSome) = (l.filter fun k => (mapGet j.subscribers k).isSome) := by
      intro l
      induction l with
      | nil => intro _; rfl
      | cons b l ihl =>
        intro hb
        simp only [List.filter_cons]
        rw [removeSpec_other j a b (hb b (by simp)), ihl (fun k hk => hb k (by simp [hk]))]
    rw [hcongr ks (fun k hk x => hnd'.1 (x ▸ hk))]
    cases h : (mapGet j.subscribers a).isSome <;> simp [List.filter_cons, h]

end GoSSE.GenEquiv
