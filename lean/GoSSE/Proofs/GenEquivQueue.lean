import GoSSE.Proofs.GenEquiv
/-!
# The translated ring buffer (`queue[T].enqueue / dequeue / resize` of replay.go) computes the model's

`GoSSE/Gen/Root.lean` holds the three methods as translated from /repo's current source (generic in `T`, every
index / slice / `make` / `copy` a checked operation). Instantiated at `T = Slot` (a `*Message` slot, `nil` =
`none`) they agree with `Model.Queue.enqueue / dequeue / resize` on **every** queue state, well-formed or not:
the same new state, and a panic exactly where the model says the Go code panics.
-/
set_option linter.unusedSimpArgs false
namespace GoSSE.GenEquiv
open GoSSE GoSSE.GoRT GoSSE.Model GoSSE.Spec

/-- the translated struct for a model queue -/
def toGen (q : Queue) : Gen.queue Slot :=
  { buf := q.buf, head := (q.head : Int), tail := (q.tail : Int), count := (q.count : Int) }

/-- same outcome: the same new state, or a panic on both sides -/
def Agrees (g : GoM (Gen.queue Slot)) (m : QRes Queue) : Prop :=
  match m with
  | .ok q' => g = .ok (toGen q')
  | .panic => ∃ msg, g = .error (.panic msg)

theorem setIdx_ok {α} (s : List α) (i : Nat) (v : α) (h : i < s.length) :
    setIdx s (i : Int) v = .ok (s.set i v) := by
  unfold setIdx len
  have : (0 : Int) ≤ i ∧ (i : Int) < s.length := ⟨by omega, by omega⟩
  simp [this, pure, Except.pure]

theorem setIdx_panic {α} (s : List α) (i : Nat) (v : α) (h : ¬ i < s.length) :
    setIdx s (i : Int) v = .error (.panic "index out of range") := by
  unfold setIdx len
  have : ¬ ((0 : Int) ≤ i ∧ (i : Int) < s.length) := by omega
  rw [if_neg this]; rfl

theorem enqueue_eq (fuel : Nat) (q : Queue) (v : Entry) :
    Agrees (Gen.queue_enqueue fuel (toGen q) (some v)) (Queue.enqueue q v) := by
  unfold Gen.queue_enqueue Queue.enqueue toGen Agrees
  by_cases ht : q.tail < q.buf.length
  · simp only [ht, if_true, bind, Except.bind, setIdx_ok q.buf q.tail (some v) ht, len, List.length_set]
    have e1 : ((q.tail : Int) + 1) = ((q.tail + 1 : Nat) : Int) := by omega
    rw [e1]
    by_cases hov : (q.tail + 1 > q.head ∧ q.count = q.buf.length)
    · have c1 : (decide (((q.tail + 1 : Nat) : Int) > (q.head : Int)) && ((q.count : Int) == ((q.buf.length : Nat) : Int))) = true := by
        simp; omega
      have c1' : (decide (q.tail + 1 > q.head) && decide (q.count = q.buf.length)) = true := by simp; omega
      simp only [c1, c1', if_true]
      by_cases hw : q.tail + 1 = q.buf.length
      · have c2 : (((q.tail + 1 : Nat) : Int) == ((q.buf.length : Nat) : Int)) = true := by simp; omega
        simp [c2, hw, pure, Except.pure, toGen]
      · have c2 : (((q.tail + 1 : Nat) : Int) == ((q.buf.length : Nat) : Int)) = false := by
          rw [beq_eq_false_iff_ne]; omega
        simp [c2, hw, pure, Except.pure, toGen]
        intro h; omega
    · have c1 : (decide (((q.tail + 1 : Nat) : Int) > (q.head : Int)) && ((q.count : Int) == ((q.buf.length : Nat) : Int))) = false := by
        rw [Bool.and_eq_false_iff]; simp; omega
      have c1' : (decide (q.tail + 1 > q.head) && decide (q.count = q.buf.length)) = false := by
        rw [Bool.and_eq_false_iff]; simp; omega
      have e2 : ((q.count : Int) + 1) = ((q.count + 1 : Nat) : Int) := by omega
      simp only [c1, c1', Bool.false_eq_true, if_false, e2]
      by_cases hw : q.tail + 1 = q.buf.length
      · have c2 : (((q.tail + 1 : Nat) : Int) == ((q.buf.length : Nat) : Int)) = true := by simp; omega
        simp [c2, hw, pure, Except.pure, toGen]
      · have c2 : (((q.tail + 1 : Nat) : Int) == ((q.buf.length : Nat) : Int)) = false := by
          rw [beq_eq_false_iff_ne]; omega
        simp [c2, hw, pure, Except.pure, toGen]
        intro h; omega
  · simp only [ht, if_false, bind, Except.bind, setIdx_panic q.buf q.tail (some v) ht]
    exact ⟨_, rfl⟩

/-- `dequeue` is only called with `count > 0` (the model's `count - 1` is natural-number subtraction) -/
theorem dequeue_eq (fuel : Nat) (q : Queue) (hc : 0 < q.count) :
    Agrees (Gen.queue_dequeue fuel (toGen q)) (Queue.dequeue q) := by
  unfold Gen.queue_dequeue Queue.dequeue toGen Agrees
  by_cases hh : q.head < q.buf.length
  · have hs : setIdx q.buf (q.head : Int) (default : Slot) = .ok (q.buf.set q.head none) :=
      setIdx_ok q.buf q.head none hh
    have e1 : ((q.head : Int) + 1) = ((q.head + 1 : Nat) : Int) := by omega
    have e2 : ((q.count : Int) - 1) = ((q.count - 1 : Nat) : Int) := by omega
    simp only [hh, if_true, bind, Except.bind, hs, len, List.length_set, e1, e2]
    by_cases hw : q.head + 1 = q.buf.length
    · have c2 : (((q.head + 1 : Nat) : Int) == ((q.buf.length : Nat) : Int)) = true := by simp; omega
      simp [c2, hw, pure, Except.pure, toGen]
    · have c2 : (((q.head + 1 : Nat) : Int) == ((q.buf.length : Nat) : Int)) = false := by
        rw [beq_eq_false_iff_ne]; omega
      simp [c2, hw, pure, Except.pure, toGen]
      intro h; omega
  · simp only [hh, if_false, bind, Except.bind, setIdx_panic q.buf q.head default hh]
    exact ⟨_, rfl⟩

theorem copyInto_eq (dst : List Slot) (off : Nat) (src : List Slot) (h : off ≤ dst.length) :
    copyInto dst (off : Int) src =
      .ok (dst.take off ++ (Queue.copy (dst.drop off) src).1, ((Queue.copy (dst.drop off) src).2 : Int)) := by
  unfold copyInto len Queue.copy
  have : (0 : Int) ≤ off ∧ (off : Int) ≤ dst.length := ⟨by omega, by omega⟩
  simp only [this, and_self, if_true, pure, Except.pure, Int.toNat_natCast, List.length_drop, List.drop_drop,
    List.append_assoc]

theorem copyInto0_eq (dst src : List Slot) :
    copyInto dst (0 : Int) src = .ok ((Queue.copy dst src).1, ((Queue.copy dst src).2 : Int)) := by
  have h := copyInto_eq dst 0 src (Nat.zero_le _)
  simpa using h

theorem makeSlice_ok (n : Nat) : makeSlice (default : Slot) (n : Int) = .ok (List.replicate n none) := by
  unfold makeSlice
  have : (0 : Int) ≤ n := by omega
  simp only [this, if_true, pure, Except.pure, Int.toNat_natCast]; rfl

theorem slice_panic {α} (s : List α) (i j : Nat) (h : ¬ (i ≤ j ∧ j ≤ s.length)) :
    slice s (i : Int) (j : Int) = .error (.panic "slice bounds out of range") := by
  unfold slice len
  have : ¬ ((0 : Int) ≤ i ∧ (i : Int) ≤ j ∧ (j : Int) ≤ s.length) := by omega
  rw [if_neg this]; rfl

theorem sliceFrom_panic {α} (s : List α) (i : Nat) (h : ¬ i ≤ s.length) :
    sliceFrom s (i : Int) = .error (.panic "slice bounds out of range") := by
  unfold sliceFrom len
  have : ¬ ((0 : Int) ≤ i ∧ (i : Int) ≤ s.length) := by omega
  rw [if_neg this]; rfl

theorem sliceTo_panic {α} (s : List α) (j : Nat) (h : ¬ j ≤ s.length) :
    sliceTo s (j : Int) = .error (.panic "slice bounds out of range") := by
  unfold sliceTo len
  have : ¬ ((0 : Int) ≤ j ∧ (j : Int) ≤ s.length) := by omega
  rw [if_neg this]; rfl

theorem copy_snd_le (dst src : List Slot) : (Queue.copy dst src).2 ≤ dst.length := by
  unfold Queue.copy; simp; omega

theorem copy_fst_length (dst src : List Slot) : (Queue.copy dst src).1.length = dst.length := by
  unfold Queue.copy; simp; omega

theorem resize_eq (fuel : Nat) (q : Queue) (n : Nat) :
    Agrees (Gen.queue_resize fuel (toGen q) (n : Int)) (Queue.resize q n) := by
  unfold Gen.queue_resize Queue.resize toGen Agrees
  simp only [bind, Except.bind, makeSlice_ok]
  by_cases hlt : q.head < q.tail
  · have c1 : ((q.head : Int) < (q.tail : Int)) := by omega
    simp only [c1, decide_true, if_true, hlt]
    by_cases ht : q.tail ≤ q.buf.length
    · simp only [ht, if_true, slice_ok q.buf q.head q.tail (by omega) ht]
      simp only [copyInto0_eq, pure, Except.pure, toGen]
      rfl
    · simp only [ht, if_false, slice_panic q.buf q.head q.tail (by omega)]
      exact ⟨_, rfl⟩
  · have c1 : ¬ ((q.head : Int) < (q.tail : Int)) := by omega
    simp only [c1, decide_false, Bool.false_eq_true, if_false, hlt]
    by_cases hh : q.head ≤ q.buf.length
    · simp only [hh, if_true, sliceFrom_ok q.buf q.head hh, copyInto0_eq]
      by_cases ht : q.tail ≤ q.buf.length
      · simp only [ht, if_true, sliceTo_ok q.buf q.tail ht]
        generalize hr : Queue.copy (List.replicate n none) (q.buf.drop q.head) = r
        have hle : r.2 ≤ r.1.length := by
          rw [← hr, copy_fst_length]; exact copy_snd_le _ _
        simp only [copyInto_eq r.1 r.2 (q.buf.take q.tail) hle, pure, Except.pure, toGen]
        rfl
      · simp only [ht, if_false, sliceTo_panic q.buf q.tail ht]
        exact ⟨_, rfl⟩
    · simp only [hh, if_false, sliceFrom_panic q.buf q.head hh]
      exact ⟨_, rfl⟩

end GoSSE.GenEquiv
