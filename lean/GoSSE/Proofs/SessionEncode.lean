import GoSSE.Model.Session
import GoSSE.Proofs.MessageWrite
import GoSSE.Proofs.MessageBuild
/-!
# The session model's own message encoding is the message model's

`Model/Session.lean` keeps a small self-contained encoding (`Msg`, `encodeWrites`: the list of `Write` calls);
`Model/Message.lean` models `Message.WriteTo` in depth (`Message.writes`). For every message with a `time.Duration`
retry value they are the same list of `Write` calls (`encodeWrites_msgOf`), so what C16 proves over the one holds of the
other — the two hand-written models were tied only through the differential check before.
-/
namespace GoSSE.Proofs
open GoSSE GoSSE.Model GoSSE.Spec

/-- a message of the message model as the session model's `Msg` -/
def msgOf (m : Message) : Session.Msg :=
  { id := if m.id.set then some m.id.value else none,
    typ := if m.typ.set then some m.typ.value else none,
    retryMs := if m.millis ≤ 0 then 0 else m.millis.toNat,
    chunks := m.chunks.map fun c => (c.content, c.isComment) }

theorem digitChar_byte : ∀ d : Fin 10, UInt8.ofNat (Nat.digitChar d.val).toNat = 48 + UInt8.ofNat d.val := by decide

theorem accLoop_zero (j : Nat) (acc : Bytes) : accLoop j 0 acc = some acc := by
  cases j <;> simp [accLoop]

/-- the digit loop of `writeRetry` produces the decimal digits of `Nat.toDigits` -/
theorem accLoop_toDigits (j n : Nat) (acc : Bytes) (hpos : 0 < n) (h : n < 10 ^ j) :
    accLoop j n acc = some ((Nat.toDigits 10 n).map (fun ch => UInt8.ofNat ch.toNat) ++ acc) := by
  induction j generalizing n acc with
  | zero => simp at h; omega
  | succ j ih =>
    unfold accLoop
    have hn : n ≠ 0 := by omega
    simp only [hn, if_false]
    have hd := digitChar_byte ⟨n % 10, Nat.mod_lt _ (by omega)⟩
    simp only at hd
    rw [Nat.toDigits_eq_if (by omega : 1 < 10)]
    by_cases hlt : n < 10
    · have h0 : n / 10 = 0 := by omega
      have hm : n % 10 = n := by omega
      rw [h0, accLoop_zero]
      rw [hm] at hd
      simp [hlt, hd, hm]
    · have hq : 0 < n / 10 := by omega
      have hq2 : n / 10 < 10 ^ j := by
        have : 10 ^ (j + 1) = 10 * 10 ^ j := by rw [Nat.pow_succ]; omega
        omega
      rw [ih (n / 10) _ hq hq2]
      simp [hlt, ← hd]

theorem digits_eq_retryDigits (n : Nat) (hpos : 0 < n) (h : n < 10 ^ 13) :
    Session.digits n = (retryDigits n).getD [] := by
  rw [retryDigits_eq, accLoop_toDigits 13 n [] hpos h]
  simp [Session.digits]

theorem millis_lt (m : Message) (hm : m.retry ≤ (maxInt64 : Int)) (hpos : ¬ m.millis ≤ 0) : m.millis.toNat < 10 ^ 13 := by
  unfold Message.millis at hpos ⊢
  have h0 : 0 ≤ m.retry := by
    by_cases hneg : m.retry < 0
    · exact absurd (tdiv_nonpos m.retry (by omega)) hpos
    · omega
  rw [Int.tdiv_eq_ediv_of_nonneg h0]
  unfold maxInt64 at hm
  omega

/-- the two models make the same `Write` calls -/
theorem encodeWrites_msgOf (m : Message) (hm : m.retry ≤ (maxInt64 : Int)) : Session.encodeWrites (msgOf m) = m.writes := by
  have hf : Session.fieldWrites (msgOf m) = m.bodyWrites := by
    unfold Session.fieldWrites Message.bodyWrites msgOf
    have e1 : Session.writeMessageField (if m.id.set = true then some m.id.value else none) Session.bytesID =
        (if m.id.set = true then fieldWrites fieldBytesID m.id.value else []) := by
      by_cases h : m.id.set = true <;> simp [h, Session.writeMessageField, fieldWrites] <;> decide
    have e2 : Session.writeMessageField (if m.typ.set = true then some m.typ.value else none) Session.bytesEvent =
        (if m.typ.set = true then fieldWrites fieldBytesEvent m.typ.value else []) := by
      by_cases h : m.typ.set = true <;> simp [h, Session.writeMessageField, fieldWrites] <;> decide
    have e3 : Session.writeRetry (if m.millis ≤ 0 then 0 else m.millis.toNat) =
        (if m.millis ≤ 0 then [] else fieldWrites fieldBytesRetry ((retryDigits m.millis.toNat).getD [])) := by
      by_cases h : m.millis ≤ 0
      · simp [h, Session.writeRetry]
      · have hp : 0 < m.millis.toNat := by omega
        have hne : m.millis.toNat ≠ 0 := by omega
        simp only [h, if_false, Session.writeRetry, hne, fieldWrites]
        rw [digits_eq_retryDigits _ hp (millis_lt m hm h)]
        simp
        exact ⟨by decide, by decide⟩
    have e4 : (List.map (fun c => (c.content, c.isComment)) m.chunks).flatMap Session.chunkWrites =
        m.chunks.flatMap fun c => fieldWrites (if c.isComment then fieldBytesComment else fieldBytesData) c.content := by
      induction m.chunks with
      | nil => rfl
      | cons c cs ih =>
        simp only [List.map_cons, List.flatMap_cons, ih]
        have e : Session.chunkWrites (c.content, c.isComment) =
            fieldWrites (if c.isComment then fieldBytesComment else fieldBytesData) c.content := by
          cases hc : c.isComment <;> simp [Session.chunkWrites, fieldWrites] <;> (try decide)
        rw [e]
    simp only [e1, e2, e3, e4]
  unfold Session.encodeWrites Message.writes
  simp only [hf]
  by_cases he : m.bodyWrites.isEmpty = true
  · simp [he]
  · simp [he]; decide

end GoSSE.Proofs
