import GoSSE.Proofs.JoeMore
/-!
Progress and termination for Joe's transition system (C07).
-/
namespace GoSSE.Proofs.Joe
open GoSSE.Model.Joe

structure PInv (s : St) : Prop where
  exited : s.joe = .exited → s.doneClosed = true ∧ s.closedClosed = true ∧ s.subscribers = []
  closedExited : s.closedClosed = true → s.joe = .exited
  waitingOK : ∀ i, ((s.subs i).pc = .waiting ∨ (s.subs i).pc = .cancelled) →
    i ∈ s.subscribers ∨ (s.subs i).ch.buf ≠ none ∨ (s.subs i).ch.closed = true
  shutWaiting : ∀ k, (s.shuts k).pc = .waiting → s.doneClosed = true

theorem pinv_init {s : St} (h : IsInit s) : PInv s := by
  obtain ⟨hj, _, _, _, hcc, _, hsub, _, hsh⟩ := h
  refine ⟨by simp [hj], by simp [hcc], ?_, ?_⟩
  · intro i hp; simp [(hsub i).1] at hp
  · intro k hp; simp [(hsh k).1] at hp

/-- only the pc / context flag of one subscription changes -/
theorem pinv_setSub {s : St} (h : PInv s) (k : SubId) (st : SubSt) (hch : st.ch = (s.subs k).ch)
    (hp : (st.pc = .waiting ∨ st.pc = .cancelled) → ((s.subs k).pc = .waiting ∨ (s.subs k).pc = .cancelled)) :
    PInv (setSub s k st) := by
  refine ⟨h.exited, h.closedExited, ?_, h.shutWaiting⟩
  intro i hi
  by_cases hik : i = k
  · subst hik; simp only [setSub, upd_same] at hi ⊢; rw [hch]; exact h.waitingOK i (hp hi)
  · simp only [setSub, upd_other _ _ _ _ hik] at hi ⊢; exact h.waitingOK i hi

theorem pinv_congr {s s' : St} (h : PInv s) (hj : s'.joe = s.joe) (hs : s'.subscribers = s.subscribers)
    (hsub : s'.subs = s.subs) (hd : s'.doneClosed = s.doneClosed) (hc : s'.closedClosed = s.closedClosed)
    (hsh : s'.shuts = s.shuts) : PInv s' := by
  obtain ⟨a, b, c, d⟩ := h
  exact ⟨by rw [hj, hd, hc, hs]; exact a, by rw [hj, hc]; exact b, by rw [hs, hsub]; exact c, by rw [hsh, hd]; exact d⟩

/-- removal of a subscriber (its channel gets closed) while the loop is not exited -/
theorem pinv_remove {s : St} (hi : Inv s) (h : PInv s) (k : SubId) : PInv (removeSubscriber s k) ∧
    (removeSubscriber s k).joe = s.joe ∧ (removeSubscriber s k).doneClosed = s.doneClosed ∧
    (removeSubscriber s k).closedClosed = s.closedClosed ∧ (removeSubscriber s k).shuts = s.shuts := by
  by_cases hk : k ∈ s.subscribers
  · rw [remove_mem k hk (hi.reg k hk).1]
    refine ⟨⟨?_, h.closedExited, ?_, h.shutWaiting⟩, rfl, rfl, rfl, rfl⟩
    · intro hj
      obtain ⟨a, b, c⟩ := h.exited hj
      exact ⟨a, b, by simp [c]⟩
    · intro i hp
      by_cases hik : i = k
      · subst hik; right; right; simp
      · simp only [upd_other _ _ _ _ hik] at hp ⊢
        rcases h.waitingOK i hp with x | x
        · exact Or.inl ((List.mem_erase_of_ne hik).mpr x)
        · exact Or.inr x
  · rw [remove_not_mem k hk]; exact ⟨h, rfl, rfl, rfl, rfl⟩

theorem pinv_closeAll {s : St} (hi : Inv s) (h : PInv s) (hj : s.joe = .idle) (l : List SubId) :
    PInv (closeAll l s) ∧ (closeAll l s).doneClosed = s.doneClosed ∧ (closeAll l s).shuts = s.shuts := by
  induction l generalizing s with
  | nil => exact ⟨h, rfl, rfl⟩
  | cons k ks ih =>
    obtain ⟨h1, hj1, hd1, _, hs1⟩ := pinv_remove hi h k
    obtain ⟨hi1, hji, _, _⟩ := inv_remove_idle hi hj k
    obtain ⟨h2, hd2, hs2⟩ := ih hi1 h1 hji
    exact ⟨h2, by show (closeAll ks (removeSubscriber s k)).doneClosed = _; rw [hd2, hd1],
      by show (closeAll ks (removeSubscriber s k)).shuts = _; rw [hs2, hs1]⟩

/-- after `closeSubscribers` nobody is registered any more -/
theorem closeAll_subscribers {s : St} (hi : Inv s) (hj : s.joe = .idle) (l : List SubId) :
    (closeAll l s).subscribers = l.foldl (fun acc k => acc.erase k) s.subscribers := by
  induction l generalizing s with
  | nil => rfl
  | cons k ks ih =>
    obtain ⟨hi1, hji, hs1, _⟩ := inv_remove_idle hi hj k
    show (closeAll ks (removeSubscriber s k)).subscribers = _
    rw [ih hi1 hji, hs1]; rfl

theorem foldl_erase_self (l : List SubId) (hn : l.Nodup) : l.foldl (fun acc k => acc.erase k) l = [] := by
  suffices ∀ (l m : List SubId), (∀ x ∈ m, x ∈ l) → m.Nodup → l.foldl (fun acc k => acc.erase k) m = [] from
    this l l (fun _ h => h) hn
  intro l
  induction l with
  | nil => intro m hm _; cases m with
    | nil => rfl
    | cons x xs => exact absurd (hm x (by simp)) (by simp)
  | cons k ks ih =>
    intro m hm hnd
    simp only [List.foldl_cons]
    apply ih
    · intro x hx
      have hxm : x ∈ m := List.mem_of_mem_erase hx
      rcases List.mem_cons.mp (hm x hxm) with e | e
      · subst e; exact absurd hx (List.Nodup.not_mem_erase hnd)
      · exact e
    · exact hnd.erase k


theorem step_pinv {c : Cfg} {s s' : St} (hi : Inv s) (h : PInv s) (l : Label) (hs : step c s l = some s') : PInv s' := by
  cases l with
  | subCall k =>
    simp only [step] at hs; split at hs <;> simp at hs; subst hs
    exact pinv_setSub h k _ rfl (by simp)
  | subAccept k rc o =>
    simp only [step] at hs
    split at hs
    · rename_i hg
      obtain ⟨hch0, hni⟩ := hi.fresh k (Or.inr hg.1)
      have hne : s.joe ≠ .exited := by simp [hg.2]
      have reg : ∀ st : SubSt, PInv { setSub s k st with subscribers := k :: s.subscribers } := by
        intro st
        refine ⟨fun hj => absurd hj hne, h.closedExited, ?_, h.shutWaiting⟩
        intro i hp
        by_cases hik : i = k
        · subst hik; left; simp
        · simp only [setSub, upd_other _ _ _ _ hik] at hp ⊢
          rcases h.waitingOK i hp with x | x
          · left; simp [x]
          · exact Or.inr x
      split at hs
      · cases o with
        | ok => simp only [Option.some.injEq] at hs; subst hs; exact reg _
        | panic =>
          simp only [Option.some.injEq] at hs; subst hs
          exact pinv_congr (reg { s.subs k with pc := .waiting, calls := (s.subs k).calls ++ rc, replayed := rc.length, regAt := some s.log.length, storeAt := s.store }) rfl rfl rfl rfl rfl rfl
        | err =>
          simp only [Option.some.injEq] at hs; subst hs
          simp only [sendChan, closeChan, setSub, upd_same, hch0]
          simp only [Bool.false_eq_true, if_false, Option.isSome_none, upd_same]
          refine ⟨h.exited, h.closedExited, ?_, h.shutWaiting⟩
          intro i hp
          by_cases hik : i = k
          · subst hik; right; left; simp [upd]
          · simp only [upd, hik, if_false] at hp ⊢; exact h.waitingOK i hp
      · split at hs
        · simp only [Option.some.injEq] at hs; subst hs; exact reg _
        · simp at hs
    · simp at hs
  | subClosedEarly k =>
    simp only [step] at hs; split at hs <;> simp at hs; subst hs
    exact pinv_setSub h k _ rfl (by simp)
  | subSeeCancel k =>
    simp only [step] at hs
    split at hs
    · rename_i hg
      simp only [Option.some.injEq] at hs; subst hs
      exact pinv_setSub h k _ rfl (fun _ => Or.inl hg.1)
    · simp at hs
  | subRecv k =>
    simp only [step] at hs
    split at hs
    · split at hs
      · simp only [Option.some.injEq] at hs; subst hs
        refine ⟨h.exited, h.closedExited, ?_, h.shutWaiting⟩
        intro i hp
        by_cases hik : i = k
        · subst hik; simp [setSub] at hp
        · simp only [setSub, upd_other _ _ _ _ hik] at hp ⊢; exact h.waitingOK i hp
      · split at hs
        · simp only [Option.some.injEq] at hs; subst hs
          exact pinv_setSub h k _ rfl (by simp)
        · simp at hs
    · simp at hs
  | unsubAccept k =>
    simp only [step] at hs; split at hs <;> simp at hs; subst hs
    obtain ⟨h1, _, _, _, _⟩ := pinv_remove hi h k
    exact pinv_setSub h1 k _ rfl (by simp)
  | cancel k =>
    simp only [step] at hs; split at hs <;> simp at hs; subst hs
    exact pinv_setSub h k _ rfl (fun x => x)
  | pubCall p => simp only [step] at hs; split at hs <;> simp at hs; subst hs; exact pinv_congr h rfl rfl rfl rfl rfl rfl
  | pubNoTopic p => simp only [step] at hs; split at hs <;> simp at hs; subst hs; exact pinv_congr h rfl rfl rfl rfl rfl rfl
  | pubAccept p o =>
    simp only [step] at hs
    split at hs
    · rename_i hg
      split at hs
      · simp at hs
      · simp only [Option.some.injEq] at hs; subst hs
        refine ⟨by simp, ?_, h.waitingOK, h.shutWaiting⟩
        intro hc
        have := h.closedExited hc
        rw [hg.2.1] at this; simp at this
    · simp at hs
  | pubClosedEarly p => simp only [step] at hs; split at hs <;> simp at hs; subst hs; exact pinv_congr h rfl rfl rfl rfl rfl rfl
  | pubRecv p => simp only [step] at hs; split at hs <;> simp at hs; subst hs; exact pinv_congr h rfl rfl rfl rfl rfl rfl
  | fanStep k a b =>
    simp only [step] at hs
    split at hs
    · rename_i p rest hj
      have hcne : s.closedClosed = true → False := fun hc => by
        have := h.closedExited hc; rw [hj] at this; simp at this
      split at hs
      · rename_i hmem
        have hmem' : k ∈ rest := by simpa using hmem
        have hk : k ∈ s.subscribers := (hi.fan p rest hj).2 k hmem'
        have hnf : ∀ p' j rest', s.joe ≠ .failed p' j rest' := by simp [hj]
        have hcl := (hi.reg k hk).1
        have hbuf : (s.subs k).ch.buf = none := by
          rcases (hi.reg k hk).2 with hb | ⟨p', rest', hf⟩
          · exact hb
          · exact absurd hf (hnf p' k rest')
        split at hs
        · simp only [Option.some.injEq] at hs; subst hs
          have h1 := pinv_setSub h k { s.subs k with calls := (s.subs k).calls ++ [Call.send p a] ++ (if a then [Call.flush b] else []) } rfl (fun x => x)
          exact ⟨by simp, fun hc => absurd (h1.closedExited hc) (by simp [setSub, hj]), h1.waitingOK, h1.shutWaiting⟩
        · simp only [Option.some.injEq] at hs; subst hs
          rw [sendChan_ok _ _ _ (by simpa [setSub] using hcl) (by simpa [setSub] using hbuf)]
          simp only [bad, setSub, hj]
          simp only [upd_same]
          refine ⟨by simp, fun hc => (hcne hc).elim, ?_, h.shutWaiting⟩
          intro i hp
          by_cases hik : i = k
          · subst hik; left; exact hk
          · simp [upd, hik] at hp
            simpa [upd, hik] using h.waitingOK i hp
      · simp at hs
    · simp at hs
  | fanRemove =>
    simp only [step] at hs
    split at hs
    · rename_i p k rest hj
      obtain ⟨_, hnb⟩ := inv_fanRemove hi hj
      simp only [Bool.not_eq_true] at hnb
      simp only [Option.some.injEq] at hs; subst hs
      simp only [hnb, Bool.false_eq_true, if_false]
      obtain ⟨h1, hj1, _, hc1, _⟩ := pinv_remove hi h k
      refine ⟨by simp, ?_, h1.waitingOK, h1.shutWaiting⟩
      intro hc
      have := h1.closedExited hc
      rw [hj1, hj] at this; simp at this
    · simp at hs
  | fanDone =>
    simp only [step] at hs
    split at hs
    · rename_i p hj
      simp only [Option.some.injEq] at hs; subst hs
      refine ⟨by simp, ?_, h.waitingOK, h.shutWaiting⟩
      intro hc
      have := h.closedExited hc
      rw [hj] at this; simp at this
    · simp at hs
  | loopExit =>
    simp only [step] at hs
    split at hs
    · rename_i hg
      simp only [Option.some.injEq] at hs; subst hs
      obtain ⟨_, hj1, _⟩ := inv_closeAll hi hg.1 s.subscribers
      have hnb : bad (closeAll s.subscribers s) = false := by simp [bad, hj1]
      simp only [hnb, Bool.false_eq_true, if_false]
      obtain ⟨h1, hd1, hs1⟩ := pinv_closeAll hi h hg.1 s.subscribers
      have hsubs : (closeAll s.subscribers s).subscribers = [] := by
        rw [closeAll_subscribers hi hg.1, foldl_erase_self _ hi.nodup]
      refine ⟨fun _ => ⟨by rw [hd1]; exact hg.2, rfl, hsubs⟩, fun _ => rfl, h1.waitingOK, ?_⟩
      intro k hk
      show (closeAll s.subscribers s).doneClosed = true
      rw [hd1]; exact hg.2
    · simp at hs
  | shutCall k =>
    simp only [step] at hs; split at hs <;> simp at hs; subst hs
    refine ⟨h.exited, h.closedExited, h.waitingOK, ?_⟩
    intro j hj
    by_cases hjk : j = k
    · subst hjk; simp [setShut] at hj
    · simp only [setShut, upd_other _ _ _ _ hjk] at hj; exact h.shutWaiting j hj
  | shutClose k =>
    simp only [step] at hs
    split at hs
    · rename_i hg
      simp only [Option.some.injEq] at hs; subst hs
      refine ⟨?_, h.closedExited, h.waitingOK, fun _ _ => rfl⟩
      intro hj
      have := (h.exited hj).1
      simp at hg; rw [hg.2] at this; simp at this
    · simp at hs
  | shutRecovered k =>
    simp only [step] at hs; split at hs <;> simp at hs; subst hs
    refine ⟨h.exited, h.closedExited, h.waitingOK, ?_⟩
    intro j hj
    by_cases hjk : j = k
    · subst hjk; simp [setShut] at hj
    · simp only [setShut, upd_other _ _ _ _ hjk] at hj; exact h.shutWaiting j hj
  | shutSeeClosed k =>
    simp only [step] at hs; split at hs <;> simp at hs; subst hs
    refine ⟨h.exited, h.closedExited, h.waitingOK, ?_⟩
    intro j hj
    by_cases hjk : j = k
    · subst hjk; simp [setShut] at hj
    · simp only [setShut, upd_other _ _ _ _ hjk] at hj; exact h.shutWaiting j hj
  | shutCtx k =>
    simp only [step] at hs; split at hs <;> simp at hs; subst hs
    refine ⟨h.exited, h.closedExited, h.waitingOK, ?_⟩
    intro j hj
    by_cases hjk : j = k
    · subst hjk; simp [setShut] at hj
    · simp only [setShut, upd_other _ _ _ _ hjk] at hj; exact h.shutWaiting j hj
  | shutCancel k =>
    simp only [step] at hs; split at hs <;> simp at hs; subst hs
    refine ⟨h.exited, h.closedExited, h.waitingOK, ?_⟩
    intro j hj
    by_cases hjk : j = k
    · subst hjk; simp only [setShut, upd_same] at hj; exact h.shutWaiting j hj
    · simp only [setShut, upd_other _ _ _ _ hjk] at hj; exact h.shutWaiting j hj

theorem reachable_pinv {c : Cfg} {s : St} (h : Reachable c s) : PInv s := by
  induction h with
  | init hi => exact pinv_init hi
  | step hr hs ih => exact step_pinv (reachable_all hr).1 ih _ hs

end GoSSE.Proofs.Joe
