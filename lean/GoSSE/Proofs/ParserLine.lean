import GoSSE.Model.Parser
/-!
# One line: `scanSegment` + one iteration of `read()`'s `switch` = the specification's `procLine`

`lineStep_conforms`: for every byte string `l` (no assumption), both values of `conn`, the
implementation's handling of one complete line coincides with `procLine .gosse`, and keeps the
invariant `CleanInv` ("`typ` and `sb` are empty whenever `dirty` is clear").
-/
namespace GoSSE.Proofs
open GoSSE GoSSE.Spec GoSSE.Model

/-- the interpreter state of `read()` seen as the specification's state -/
def toI (st : RState) : IState := { lastID := st.lastID, typ := st.typ, data := st.sb, dirty := st.dirty }

/-- `read()` resets `typ` and `sb` whenever it clears `dirty` -/
def CleanInv (st : RState) : Prop := st.dirty = false → st.typ = [] ∧ st.sb = []

/-- what the implementation does with one complete line -/
def lineStep (conn : Bool) (st : RState) (l : Bytes) : RState × List Out :=
  match scanSegment false l with
  | some f => readField conn st f
  | none => (st, [])

/-- auxiliary: what the implementation does once the line is cut into name and value -/
def fieldStep (conn : Bool) (st : RState) (name v : Bytes) : RState × List Out :=
  match getFieldName name with
  | some n => readField conn st ⟨n, v⟩
  | none => (st, [])

theorem span_loop_eq {α} (p : α → Bool) (l acc : List α) :
    List.span.loop p l acc = (acc.reverse ++ l.takeWhile p, l.dropWhile p) := by
  induction l generalizing acc with
  | nil => simp [List.span.loop]
  | cons a t ih =>
    cases h : p a <;> simp [List.span.loop, h, ih]

theorem span_eq {α} (p : α → Bool) (l : List α) :
    l.span p = (l.takeWhile p, l.dropWhile p) := by
  simp [List.span, span_loop_eq]

theorem indexByte_cons_ne (b : Byte) (t : Bytes) (hb : b ≠ 58) :
    indexByte (b :: t) 58 = (indexByte t 58).map (· + 1) := by
  have hbb : (b == 58) = false := by simp [hb]
  simp only [indexByte, List.findIdx_cons, hbb, cond_false, List.length_cons]
  by_cases h : List.findIdx (fun x => x == 58) t < t.length <;> simp [h]

theorem span_cons_ne (b : Byte) (t : Bytes) (hb : b ≠ 58) :
    (b :: t).span (· != 58) = (b :: (t.span (· != 58)).1, (t.span (· != 58)).2) := by
  simp [span_eq, hb]

theorem colon_split (l : Bytes) :
    (58 ∉ l ∧ indexByte l 58 = none ∧ l.span (· != 58) = (l, [])) ∨
    ∃ name v, l = name ++ 58 :: v ∧ 58 ∉ name ∧ indexByte l 58 = some name.length ∧
      l.span (· != 58) = (name, 58 :: v) := by
  induction l with
  | nil => left; simp [indexByte, span_eq]
  | cons b t ih =>
    by_cases hb : b = 58
    · subst hb; right
      refine ⟨[], t, ?_⟩
      simp [indexByte, span_eq, List.findIdx_cons]
    · have hb' : (58 : UInt8) ≠ b := fun h => hb h.symm
      rw [indexByte_cons_ne b t hb, span_cons_ne b t hb]
      rcases ih with ⟨h1, h2, h3⟩ | ⟨name, v, h1, h2, h3, h4⟩
      · left
        simp [h1, h2, h3, hb']
      · right
        refine ⟨b :: name, v, ?_⟩
        refine ⟨by simp [h1], by simp [h2, hb'], by simp [h3], by simp [h4]⟩

theorem take_drop_colon (name v : Bytes) :
    (name ++ 58 :: v).take name.length = name ∧
    (name ++ 58 :: v).drop (min (name.length + 1) (name ++ 58 :: v).length) = v := by
  constructor
  · simp
  · have : min (name.length + 1) (name ++ 58 :: v).length = name.length + 1 := by
      simp
    rw [this]
    simp

theorem trimFirstSpace_eq : trimFirstSpace = dropOneSpace := by
  funext s
  unfold trimFirstSpace dropOneSpace
  split <;> split <;> simp_all

theorem getFieldName_long (name : Bytes) (h : name.length > 5) : getFieldName name = none := by
  have h1 : name ≠ fData := by rintro rfl; simp [fData] at h
  have h2 : name ≠ fEvent := by rintro rfl; simp [fEvent] at h
  have h3 : name ≠ fRetry := by rintro rfl; simp [fRetry] at h
  have h4 : name ≠ fId := by rintro rfl; simp [fId] at h
  simp [getFieldName, h1, h2, h3, h4]

theorem getFieldName_nil : getFieldName [] = none := by decide

theorem parseInt_digits (v : Bytes) (h : v.all isDigit = true) :
    parseInt v = if v.isEmpty then none else if digitsVal v ≤ maxInt64 then some (digitsVal v : Int) else none := by
  unfold parseInt
  split
  · simp [isDigit] at h
  · simp [isDigit] at h
  · simp [h]

theorem retry_conforms (conn : Bool) (st : RState) (v : Bytes) :
    (match retryVal v with
      | some n => if conn then ({ toI st with dirty := true }, [Out.retry n]) else (toI st, [])
      | none => (toI st, [])) =
    (toI (readField conn st ⟨.retry, v⟩).1, (readField conn st ⟨.retry, v⟩).2) := by
  by_cases hd : v.all isDigit = true
  · simp only [readField, retryVal, parseInt_digits v hd, hd]
    by_cases he : v = []
    · simp [he]
    · by_cases hm : digitsVal v ≤ maxInt64
      · cases conn <;> simp [he, hm, toI]
      · simp [he, hm]
  · simp [readField, retryVal, hd]

theorem procLine_field (conn : Bool) (st : RState) (l name v : Bytes) (hl : l ≠ [])
    (hp : parseLine l = some (name, v)) :
    procLine .gosse conn (toI st) l = (toI (fieldStep conn st name v).1, (fieldStep conn st name v).2) := by
  have hl' : l.isEmpty = false := by cases l <;> simp_all
  simp only [procLine, hl', hp]
  by_cases h1 : name = fData
  · subst h1; simp [fieldStep, getFieldName, readField, toI]
  by_cases h2 : name = fEvent
  · subst h2; simp [fieldStep, getFieldName, readField, toI, fData, fEvent]
  by_cases h3 : name = fId
  · subst h3
    by_cases h0 : (0 : UInt8) ∈ v <;> simp [fieldStep, getFieldName, readField, toI, fData, fEvent, fId, fRetry, h0]
  by_cases h4 : name = fRetry
  · subst h4
    have := retry_conforms conn st v
    simp [fieldStep, getFieldName, fData, fEvent, fId, fRetry] at this ⊢
    exact this
  simp [fieldStep, getFieldName, h1, h2, h3, h4]

theorem fieldStep_inv (conn : Bool) (st : RState) (name v : Bytes) (h : CleanInv st) :
    CleanInv (fieldStep conn st name v).1 := by
  unfold fieldStep
  split
  · rename_i n _
    unfold readField
    cases n <;> simp only
    · simp [CleanInv]
    · simp [CleanInv]
    · split
      · exact h
      · split
        · split
          · simp [CleanInv]
          · exact h
        · exact h
    · split
      · exact h
      · simp [CleanInv]
    · split
      · simp [CleanInv]
      · exact h
    · split
      · simp [CleanInv]
      · exact h
  · exact h

theorem scanSegment_nil : scanSegment false [] = some ⟨.none, []⟩ := by decide

theorem lineStep_nil (conn : Bool) (st : RState) :
    lineStep conn st [] =
      if st.dirty then ({ lastID := st.lastID }, [.event (doYield st)]) else (st, []) := by
  simp [lineStep, scanSegment_nil, readField]

theorem mkEvent_toI (st : RState) : mkEvent (toI st) = doYield st := rfl

/-- a non-empty line without colon: the whole line is the field name, the value is empty -/
theorem lineStep_nocolon (conn : Bool) (st : RState) (l : Bytes) (hl : l ≠ [])
    (hc : indexByte l 58 = none) : lineStep conn st l = fieldStep conn st l [] := by
  have hl' : l.isEmpty = false := by cases l <;> simp_all
  unfold lineStep fieldStep scanSegment
  simp only [hc]
  cases getFieldName l <;> simp [hl']

/-- a line with a colon -/
theorem lineStep_colon (conn : Bool) (st : RState) (name v : Bytes)
    (hc : indexByte (name ++ 58 :: v) 58 = some name.length) :
    lineStep conn st (name ++ 58 :: v) = fieldStep conn st name (dropOneSpace v) := by
  unfold lineStep fieldStep scanSegment
  simp only [hc, (take_drop_colon name v).1, (take_drop_colon name v).2, trimFirstSpace_eq]
  by_cases hlen : name.length > maxFieldNameLength
  · rw [getFieldName_long name hlen]; simp [hlen]
  · simp only [hlen, if_false]
    cases getFieldName name <;> simp

theorem lineStep_conforms (conn : Bool) (st : RState) (l : Bytes) (h : CleanInv st) :
    procLine .gosse conn (toI st) l = (toI (lineStep conn st l).1, (lineStep conn st l).2) ∧
    CleanInv (lineStep conn st l).1 := by
  by_cases hl : l = []
  · subst hl
    rw [lineStep_nil]
    by_cases hd : st.dirty = true
    · simp [procLine, dispatchable, hd, toI, mkEvent, doYield, CleanInv]
    · have hd' : st.dirty = false := by simpa using hd
      obtain ⟨h1, h2⟩ := h hd'
      simp [procLine, dispatchable, hd', toI, h1, h2, CleanInv]
  · rcases colon_split l with ⟨_, hc, hs⟩ | ⟨name, v, rfl, hn, hc, hs⟩
    · rw [lineStep_nocolon conn st l hl hc]
      refine ⟨procLine_field conn st l l [] hl ?_, fieldStep_inv conn st l [] h⟩
      simp [parseLine, hs]
    · rw [lineStep_colon conn st name v hc]
      refine ⟨?_, fieldStep_inv conn st name _ h⟩
      by_cases hne : name = []
      · subst hne
        simp only [List.nil_append] at hs ⊢
        have : parseLine (58 :: v) = none := by simp [parseLine, hs]
        simp [procLine, this, fieldStep, getFieldName_nil]
      · apply procLine_field conn st _ name _ hl
        have hne' : name.isEmpty = false := by cases name <;> simp_all
        simp [parseLine, hs, hne']
end GoSSE.Proofs
