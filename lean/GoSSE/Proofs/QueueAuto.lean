import GoSSE.Proofs.QueueEach
import GoSSE.Proofs.QueueNum
/-!
Helper lemmas for automatic IDs: the stored IDs are consecutive decimals (`Consec`), and
`findIDInQueue`'s arithmetic branch against `Spec.afterAuto`.
-/
namespace GoSSE.Proofs
open GoSSE GoSSE.Spec GoSSE.Model

/-- the IDs of `l` are the consecutive decimal numerals ending just below `cur` -/
def Consec (l : List Entry) (cur : Nat) : Prop :=
  l.length ≤ cur ∧ ∀ j (h : j < l.length), l[j].id = some (decimal (cur - l.length + j))

theorem consec_nil (cur : Nat) : Consec [] cur := ⟨by simp, by intro j h; simp at h⟩

theorem takeLast_length (n : Nat) (l : List α) : (takeLast n l).length = l.length - (l.length - n) := by
  simp [takeLast]

theorem consec_put {l : List Entry} {cur : Nat} (h : Consec l cur) (e : Entry) (he : e.id = some (decimal cur))
    (n : Nat) : Consec (takeLast n (l ++ [e])) (cur + 1) := by
  obtain ⟨hle, hid⟩ := h
  constructor
  · rw [takeLast_length]; simp; omega
  · intro j hj
    have hlen := takeLast_length n (l ++ [e])
    simp only [List.length_append, List.length_cons, List.length_nil] at hlen
    rw [hlen] at hj
    simp only [takeLast, List.getElem_drop, List.length_append, List.length_cons, List.length_nil]
    rw [List.getElem_append]
    split
    · rename_i hlt
      rw [hid _ hlt]
      simp only [List.length_drop, List.length_append, List.length_cons, List.length_nil]
      congr 2; omega
    · rename_i hge
      simp only [List.getElem_singleton, he, List.length_drop, List.length_append, List.length_cons, List.length_nil]
      congr 2; omega

theorem consec_drop {l : List Entry} {cur : Nat} (h : Consec l cur) (m : Nat) : Consec (l.drop m) cur := by
  obtain ⟨hle, hid⟩ := h
  constructor
  · simp; omega
  · intro j hj
    simp only [List.length_drop] at hj
    simp only [List.getElem_drop, List.length_drop]
    rw [hid _ (by omega)]
    congr 2; omega

theorem filter_consec (l : List Entry) (base n : Nat)
    (h : ∀ j (hj : j < l.length), (idNum l[j].id).getD 0 = base + j) :
    l.filter (fun e => decide (n < (idNum e.id).getD 0)) = l.drop (n + 1 - base) := by
  induction l generalizing base with
  | nil => simp
  | cons e t ih =>
    have h0 := h 0 (by simp)
    simp only [List.getElem_cons_zero, Nat.add_zero] at h0
    have ht := ih (base + 1) (by
      intro j hj
      have := h (j + 1) (by simpa using hj)
      simp only [List.getElem_cons_succ] at this
      omega)
    simp only [List.filter_cons, h0, ht]
    by_cases hn : n < base
    · simp only [hn, decide_true, if_true]
      have : n + 1 - base = 0 := by omega
      have h2 : n + 1 - (base + 1) = 0 := by omega
      simp [this, h2]
    · simp only [hn, decide_false, Bool.false_eq_true, if_false]
      have : n + 1 - base = (n + 1 - (base + 1)) + 1 := by omega
      rw [this, List.drop_succ_cons]

theorem consec_num {l : List Entry} {cur : Nat} (h : Consec l cur) (hcur : cur ≤ maxUint64 + 1)
    (j : Nat) (hj : j < l.length) : (idNum l[j].id).getD 0 = cur - l.length + j := by
  rw [h.2 j hj]
  simp only [idNum, Option.bind_some]
  rw [decimal?_decimal _ (by have := h.1; omega)]
  rfl

theorem afterAuto_consec {l : List Entry} {cur : Nat} (h : Consec l cur) (hcur : cur ≤ maxUint64 + 1)
    (id : EventID) (n : Nat) (hn : idNum id = some n) :
    afterAuto id l = l.drop (n + 1 - (cur - l.length)) := by
  simp only [afterAuto, hn]
  exact filter_consec l _ n (consec_num h hcur)

theorem idNum_parse (id : EventID) :
    idNum id = if (parseUint (id.getD [])).2 then none else some (parseUint (id.getD [])).1 := by
  cases id with
  | none => simp [idNum, parseUint]
  | some s => simp only [idNum, Option.bind_some, Option.getD_some]; exact (parseUint_decimal? s).symm

theorem abs_getElem_zero {q : Queue} (h : WF q) (hpos : 0 < q.count) :
    ∃ e, q.buf[q.head]? = some (some e) ∧ (abs q)[0]? = some e := by
  have hhd := h.hd; have hcnt := h.cnt
  have hidx0 : idx q 0 = q.head := by simp only [idx]; somega
  obtain ⟨e, he⟩ := h.live 0 hpos
  rw [hidx0] at he
  refine ⟨e, he, ?_⟩
  have hs := slots_getElem? q 0
  simp only [hpos, if_true, hidx0, slotAt, he, Option.join_some] at hs
  rw [h.slots_eq] at hs
  simp only [List.getElem?_map] at hs
  cases ha : (abs q)[0]? with
  | none => simp [ha] at hs
  | some x => simp [ha] at hs; simp [hs]

/-- `findIDInQueue` with automatic IDs: −1 when nothing is numbered above the presented
number, otherwise the slot of the first entry numbered above it. -/
theorem findID_auto {q : Queue} (h : WF q) {cur : Nat} (hc : Consec (abs q) cur) (hcur : cur ≤ maxUint64 + 1)
    (id : EventID) :
    ∃ r, findIDInQueue q id true = .ok r ∧
      ((r = -1 ∧ afterAuto id (abs q) = []) ∨
       (∃ k, k < q.count ∧ r = (idx q k : Nat) ∧ afterAuto id (abs q) = (abs q).drop k)) := by
  have hcnt := h.cnt; have hhd := h.hd; have htl := h.tl; have hring := h.ring
  unfold findIDInQueue
  by_cases hcz : q.count = 0
  · simp only [hcz, if_true]
    refine ⟨-1, rfl, Or.inl ⟨rfl, ?_⟩⟩
    rw [abs_nil_of_count hcz]
    simp only [afterAuto]; split <;> simp
  · simp only [hcz, if_false, if_true]
    have hpos : 0 < q.count := by omega
    have hnum := idNum_parse id
    by_cases hp : (parseUint (id.getD [])).2 = true
    · simp only [hp, if_true] at hnum ⊢
      exact ⟨-1, rfl, Or.inl ⟨rfl, by simp [afterAuto, hnum]⟩⟩
    · simp only [hp, if_false, Bool.false_eq_true] at hnum ⊢
      obtain ⟨e0, hb, ha⟩ := abs_getElem_zero h hpos
      have hlen := abs_length h
      have h0lt : 0 < (abs q).length := by omega
      have he0 : (abs q)[0] = e0 := by
        rw [List.getElem?_eq_getElem h0lt] at ha; simpa using ha
      have hid0 := hc.2 0 h0lt
      rw [he0, hlen] at hid0
      simp only [Nat.add_zero] at hid0
      have hle := hc.1
      rw [hlen] at hle
      simp only [hb, slotID, hid0, Option.getD_some]
      rw [parseUint_decimal _ (by omega)]
      simp only
      have hafter := afterAuto_consec hc hcur id _ hnum
      rw [hlen] at hafter
      generalize (parseUint (id.getD [])).1 = n at *
      by_cases hnew : n ≥ cur - q.count ∧ n - (cur - q.count) ≥ q.count - 1
      · simp only [hnew, and_self, if_true]
        refine ⟨-1, rfl, Or.inl ⟨rfl, ?_⟩⟩
        rw [hafter, List.drop_of_length_le]; omega
      · simp only [hnew, if_false]
        refine ⟨_, rfl, Or.inr ⟨n + 1 - (cur - q.count), by omega, ?_, hafter⟩⟩
        simp only [idx]
        somega

end GoSSE.Proofs
