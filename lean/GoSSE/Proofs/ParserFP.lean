import GoSSE.Proofs.ParserSpec
import GoSSE.Proofs.ParserLine
/-!
`FieldParser.Next` against the specification machine: the lines it skips are no-ops of the
specification, the field it returns is what the specification does with that line.
-/
namespace GoSSE.Proofs
open GoSSE GoSSE.Spec GoSSE.Model

theorem nextChunk_noNl (s : Bytes) (_h : NoNl s) (e : newlineIndex s = (s.length, 0)) :
    nextChunk s = (s, [], false) := by
  simp [nextChunk, e]

theorem nextChunk_split (l term t : Bytes) (e : newlineIndex (l ++ term ++ t) = (l.length, term.length))
    (hterm : IsTerm term t) : nextChunk (l ++ term ++ t) = (l, t, true) := by
  have hp := hterm.pos
  have h1 : (l ++ term ++ t).take l.length = l := by simp [List.append_assoc]
  have h2 : (l ++ term ++ t).drop (l.length + term.length) = t := by
    rw [← List.length_append, List.drop_left]
  simp only [nextChunk, e, h1, h2]
  simp only [Prod.mk.injEq, true_and, bne_iff_ne, ne_eq]; omega

theorem head?_append_of_ne_nil (a b : Bytes) (h : a ≠ []) : (a ++ b).head? = a.head? := by
  cases a with
  | nil => exact absurd rfl h
  | cons x t => rfl

/-- what `FieldParser.Next` guarantees, seen from the specification machine in state
`⟨toI st, [], sk⟩` -/
def FPPost (conn : Bool) (st : RState) (sk : Bool) (f : FP) (o : Option Field) (f' : FP) : Prop :=
  f'.keepComments = f.keepComments ∧ f'.removeBOM = f.removeBOM ∧
  match o with
  | some fld =>
    ∃ C sk', f.data = C ++ f'.data ∧
      feed conn ⟨toI st, [], sk⟩ C = (⟨toI (readField conn st fld).1, [], sk'⟩, (readField conn st fld).2) ∧
      (sk' = true → f'.data.head? ≠ some 10) ∧ CleanInv (readField conn st fld).1 ∧
      f'.err = f.err ∧ f'.started = true ∧ C ≠ []
  | none =>
    ∃ sk', feed conn ⟨toI st, [], sk⟩ f.data = (⟨toI st, f'.data.reverse, sk'⟩, []) ∧
      NoNl f'.data ∧ f'.err = (f.err || !f'.data.isEmpty) ∧ f'.started = (f.started || !f.data.isEmpty)

theorem FP_next_feed (conn : Bool) (fuel : Nat) (f : FP) (st : RState) (sk : Bool)
    (hk : f.keepComments = false) (hfuel : f.data.length < fuel) (hclean : CleanInv st)
    (hsk : sk = true → f.data.head? ≠ some 10) :
    FPPost conn st sk f (FP.next fuel f).1 (FP.next fuel f).2 := by
  induction fuel generalizing f sk with
  | zero => omega
  | succ fuel ih =>
    obtain ⟨data, err, started, kc, rb⟩ := f
    simp only at hk hfuel hsk
    subst hk
    rw [FP.next]
    by_cases hd : data = []
    · subst hd
      simp only [List.isEmpty_nil, if_true]
      refine ⟨rfl, rfl, sk, ?_, ?_, ?_, ?_⟩
      · simp
      · intro b hb; simp at hb
      · simp
      · simp
    · have hde : data.isEmpty = false := by simpa using hd
      simp only [hde, Bool.false_eq_true, if_false]
      rcases nl_split data with ⟨hno, e⟩ | ⟨l, term, t, hs, hl, hterm, e⟩
      · -- no line end left: ErrUnexpectedEOF
        rw [nextChunk_noNl _ hno e]
        simp only [Bool.not_false, if_true]
        refine ⟨rfl, rfl, false, ?_, hno, ?_, ?_⟩
        · rw [feed_noNl conn _ _ _ _ hno]; simp [hd]
        · simp [hd]
        · simp [hd]
      · subst hs
        have hnc := nextChunk_split l term t e hterm
        have hne : l ++ term ≠ [] := by
          intro h; exact hterm.ne_nil (List.append_eq_nil_iff.1 h).2
        have hsk' : sk = true → (l ++ term).head? ≠ some 10 := by
          intro h
          have := hsk h
          rwa [head?_append_of_ne_nil _ _ hne] at this
        have hfl := feed_line conn (toI st) sk l term t hl hterm hsk'
        obtain ⟨hconf, hinv⟩ := lineStep_conforms conn st l hclean
        have hskt : decide (term = [13]) = true → t.head? ≠ some 10 := by
          intro h
          have h13 : term = [13] := by simpa using h
          rcases hterm with h' | h' | ⟨_, h'⟩
          · rw [h13] at h'; simp at h'
          · rw [h13] at h'; simp at h'
          · exact h'
        simp only [hnc, Bool.not_true, Bool.false_eq_true, if_false]
        cases hseg : scanSegment false l with
        | some fld =>
          simp only
          have hls : lineStep conn st l = readField conn st fld := by simp [lineStep, hseg]
          rw [hls] at hconf hinv
          refine ⟨rfl, rfl, l ++ term, decide (term = [13]), rfl, ?_, hskt, hinv, rfl, rfl, hne⟩
          rw [hfl, hconf]
        | none =>
          simp only
          have hls : lineStep conn st l = (st, []) := by simp [lineStep, hseg]
          rw [hls] at hconf
          have hrec := ih { data := t, err := err, started := true, keepComments := false, removeBOM := rb }
            (decide (term = [13])) rfl
            (by have := hterm.pos; simp only [List.length_append] at hfuel ⊢; omega) hskt
          generalize FP.next fuel { data := t, err := err, started := true, keepComments := false, removeBOM := rb } = R at hrec
          obtain ⟨r1, r2, r3⟩ := hrec
          refine ⟨r1, r2, ?_⟩
          have hfeed : ∀ X, feed conn ⟨toI st, [], sk⟩ (l ++ term ++ X) = feed conn ⟨toI st, [], decide (term = [13])⟩ X := by
            intro X
            rw [feed_append, hfl, hconf]; simp
          obtain ⟨o, f'⟩ := R
          cases o with
          | some fld =>
            obtain ⟨C, sk', h1, h2, h3, h4, h5, h6, h7⟩ := r3
            simp only at h1
            refine ⟨l ++ term ++ C, sk', ?_, ?_, h3, h4, h5, h6, fun h => hne (List.append_eq_nil_iff.1 h).1⟩
            · show l ++ term ++ t = l ++ term ++ C ++ f'.data
              rw [List.append_assoc (l ++ term), ← h1]
            · rw [hfeed, h2]
          | none =>
            obtain ⟨sk', h1, h2, h3, h4⟩ := r3
            refine ⟨sk', ?_, h2, h3, ?_⟩
            · show feed conn ⟨toI st, [], sk⟩ (l ++ term ++ t) = _
              rw [hfeed]; exact h1
            · simp only at h4; simp only [h4, Bool.true_or, hde, Bool.not_false, Bool.or_true]

end GoSSE.Proofs
