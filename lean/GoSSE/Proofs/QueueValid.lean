import GoSSE.Proofs.QueueFinite
/-!
Helper lemmas for the ValidReplayer: `dequeue`, `resize`, the `doGC` loop, expiries.
-/
namespace GoSSE.Proofs
open GoSSE GoSSE.Spec GoSSE.Model

/-! ## dequeue -/

theorem dequeue_spec {q : Queue} (h : WF q) (hpos : 0 < q.count) :
    ∃ q', q.dequeue = .ok q' ∧ WF q' ∧ q'.buf.length = q.buf.length ∧ q'.count = q.count - 1 ∧
      slots q' = (slots q).drop 1 ∧ (DeadZero q → DeadZero q') := by
  have hcnt := h.cnt; have hhd := h.hd; have htl := h.tl; have hring := h.ring
  have hh : q.head < q.buf.length := by omega
  have hdq : q.dequeue = .ok ⟨q.buf.set q.head none,
      if q.head + 1 = (q.buf.set q.head none).length then 0 else q.head + 1, q.tail, q.count - 1⟩ := by
    simp [Queue.dequeue, hh]
  refine ⟨_, hdq, ?_, by simp, rfl, ?_, ?_⟩
  · constructor
    · simp; omega
    · simp; somega
    · simp; omega
    · simp; somega
    · intro k hk
      simp only at hk
      obtain ⟨x, hx⟩ := h.live (k + 1) (by omega)
      refine ⟨x, ?_⟩
      simp only [idx, List.length_set, List.getElem?_set] at hx ⊢
      rw [if_neg (by somega)]
      rw [← hx]; congr 1; somega
  · apply List.ext_getElem?
    intro i
    rw [List.getElem?_drop, slots_getElem?, slots_getElem?]
    simp only
    by_cases hi : i < q.count - 1
    · simp only [hi, show 1 + i < q.count from by omega, if_true]
      congr 1
      simp only [slotAt, idx, List.length_set, List.getElem?_set]
      rw [if_neg (by somega)]
      congr 2; somega
    · simp only [hi, show ¬ 1 + i < q.count from by omega, if_false]
  · intro hd i hi hnl
    simp only [List.length_set] at hi
    simp only [isLive, List.length_set] at hnl
    simp only [List.getElem?_set]
    by_cases hih : q.head = i
    · simp [hih, hi]
    · rw [if_neg hih]
      apply hd i hi
      intro hl; apply hnl
      simp only [isLive] at hl
      revert hl; somega

/-! ## resize -/

theorem copy_le (dst src : List Slot) (h : src.length ≤ dst.length) :
    Queue.copy dst src = (src ++ dst.drop src.length, src.length) := by
  simp [Queue.copy, Nat.min_eq_right h]

theorem copy_all_none (dst src : List Slot) (h1 : ∀ x ∈ dst, x = none) (h2 : ∀ x ∈ src, x = none) :
    ∀ x ∈ (Queue.copy dst src).1, x = none := by
  intro x hx
  simp only [Queue.copy, List.mem_append] at hx
  rcases hx with hx | hx
  · exact h2 x (List.mem_of_mem_take hx)
  · exact h1 x (List.mem_of_mem_drop hx)

theorem copy_length (dst src : List Slot) : (Queue.copy dst src).1.length = dst.length := by
  simp [Queue.copy]; omega

theorem slotAt_some {q : Queue} {i : Nat} (hi : i < q.buf.length) : q.buf[i]? = some (slotAt q i) := by
  simp [slotAt, List.getElem?_eq_getElem hi]

theorem getElem?_all_none (l : List Slot) (h : ∀ x ∈ l, x = none) (i : Nat) (hi : i < l.length) : l[i]? = some none := by
  rw [List.getElem?_eq_getElem hi, h _ (List.getElem_mem hi)]

/-- `resize` linearises the live range to the front of a fresh array; the rest is zero. -/
theorem resize_spec {q : Queue} (h : WF q) (hd : DeadZero q) (n : Nat) (hn : q.count < n) :
    ∃ q', q.resize n = .ok q' ∧ q'.head = 0 ∧ q'.tail = q.count ∧ q'.count = q.count ∧ q'.buf.length = n ∧
      (∀ i, i < q.count → q'.buf[i]? = some (slotAt q (idx q i))) ∧
      (∀ i, q.count ≤ i → i < n → q'.buf[i]? = some none) := by
  have hcnt := h.cnt; have hhd := h.hd; have htl := h.tl; have hring := h.ring
  unfold Queue.resize
  by_cases hlt : q.head < q.tail
  · simp only [hlt, if_true, show q.tail ≤ q.buf.length from by omega]
    have hS : ((q.buf.take q.tail).drop q.head).length = q.count := by simp; omega
    rw [copy_le _ _ (by simp [hS]; omega)]
    simp only [hS, List.drop_replicate]
    refine ⟨_, rfl, rfl, rfl, rfl, by simp [hS]; omega, ?_, ?_⟩
    · intro i hi
      simp only
      rw [List.getElem?_append_left (by omega), List.getElem?_drop, List.getElem?_take]
      rw [if_pos (by omega)]
      have : idx q i = q.head + i := by simp only [idx]; somega
      rw [this, slotAt_some (by omega)]
    · intro i hi1 hi2
      simp only
      rw [List.getElem?_append_right (by omega), hS, List.getElem?_replicate, if_pos (by omega)]
  · simp only [hlt, if_false, show q.head ≤ q.buf.length from by omega, show q.tail ≤ q.buf.length from by omega, if_true]
    by_cases hempty : q.count = 0
    · -- empty: only dead (zero) slots are copied
      have hdead : ∀ x ∈ q.buf, x = none := by
        intro x hx
        obtain ⟨j, hj, rfl⟩ := List.getElem_of_mem hx
        have := hd j hj (by simp only [isLive]; somega)
        rw [List.getElem?_eq_getElem hj] at this
        simpa using this
      have hrep : ∀ x ∈ List.replicate n (none : Slot), x = none := by
        intro x hx; exact (List.mem_replicate.1 hx).2
      have h1 := copy_all_none (List.replicate n none) (q.buf.drop q.head) hrep
        (fun x hx => hdead x (List.mem_of_mem_drop hx))
      have hall : ∀ x ∈ (List.take (Queue.copy (List.replicate n none) (List.drop q.head q.buf)).2
            (Queue.copy (List.replicate n none) (List.drop q.head q.buf)).1 ++
          (Queue.copy (List.drop (Queue.copy (List.replicate n none) (List.drop q.head q.buf)).2
            (Queue.copy (List.replicate n none) (List.drop q.head q.buf)).1) (List.take q.tail q.buf)).1), x = none := by
        intro x hx
        rw [List.mem_append] at hx
        rcases hx with hx | hx
        · exact h1 x (List.mem_of_mem_take hx)
        · exact copy_all_none _ _ (fun y hy => h1 y (List.mem_of_mem_drop hy))
            (fun y hy => hdead y (List.mem_of_mem_take hy)) x hx
      have hlen : (List.take (Queue.copy (List.replicate n none) (List.drop q.head q.buf)).2
            (Queue.copy (List.replicate n none) (List.drop q.head q.buf)).1 ++
          (Queue.copy (List.drop (Queue.copy (List.replicate n none) (List.drop q.head q.buf)).2
            (Queue.copy (List.replicate n none) (List.drop q.head q.buf)).1) (List.take q.tail q.buf)).1).length = n := by
        simp only [List.length_append, List.length_take, copy_length, List.length_drop, List.length_replicate]
        simp only [Queue.copy, List.length_replicate]
        omega
      refine ⟨_, rfl, rfl, rfl, rfl, hlen, ?_, ?_⟩
      · intro i hi; omega
      · intro i _ hi2
        exact getElem?_all_none _ hall i (by rw [hlen]; exact hi2)
    · have hwrap : q.head + q.count = q.tail + q.buf.length := by omega
      have hA : (q.buf.drop q.head).length = q.buf.length - q.head := by simp
      rw [copy_le _ _ (by simp; omega)]
      simp only [hA, List.drop_replicate]
      rw [List.take_left' hA, List.drop_left' hA]
      have hB : (q.buf.take q.tail).length = q.tail := by simp; omega
      rw [copy_le _ _ (by simp [hB]; omega)]
      simp only [hB, List.drop_replicate]
      refine ⟨_, rfl, rfl, rfl, rfl, by simp [hA, hB]; omega, ?_, ?_⟩
      · intro i hi
        simp only
        by_cases hi1 : q.head + i < q.buf.length
        · rw [List.getElem?_append_left (by omega), List.getElem?_drop]
          have : idx q i = q.head + i := by simp only [idx]; somega
          rw [this, slotAt_some (by omega)]
        · rw [List.getElem?_append_right (by omega), hA, List.getElem?_append_left (by rw [hB]; omega), List.getElem?_take]
          rw [if_pos (by omega)]
          have : idx q i = q.head + i - q.buf.length := by simp only [idx]; somega
          have e1 : i - (q.buf.length - q.head) = q.head + i - q.buf.length := by omega
          rw [this, e1, slotAt_some (by omega)]
      · intro i hi1 hi2
        simp only
        rw [List.getElem?_append_right (by omega), hA, List.getElem?_append_right (by rw [hB]; omega), hB,
          List.getElem?_replicate, if_pos (by omega)]


theorem lt_ite (a x y : Nat) (c : Prop) [Decidable c] (h1 : c → a < x) (h2 : ¬ c → a < y) :
    a < if c then x else y := by
  by_cases h : c
  · simp only [h, if_true]; exact h1 h
  · simp only [h, if_false]; exact h2 h

theorem abs_of_slots {q q' : Queue} (h : slots q' = slots q) : abs q' = abs q := by simp [abs, h]

/-- `resize` preserves the invariant and the abstraction, and leaves every dead slot zero -/
theorem resize_abs {q : Queue} (h : WF q) (hd : DeadZero q) (n : Nat) (hn : q.count < n) :
    ∃ q', q.resize n = .ok q' ∧ WF q' ∧ DeadZero q' ∧ abs q' = abs q ∧ q'.buf.length = n ∧ q'.count = q.count := by
  obtain ⟨q', hr, hh, ht, hc, hl, hlive, hdead⟩ := resize_spec h hd n hn
  have hidx : ∀ k, k < q.count → idx q' k = k := by
    intro k hk; simp only [idx, hh, hl]; somega
  refine ⟨q', hr, ?_, ?_, ?_, hl, hc⟩
  · constructor
    · omega
    · omega
    · omega
    · omega
    · intro k hk
      rw [hc] at hk
      obtain ⟨e, he⟩ := h.live k hk
      refine ⟨e, ?_⟩
      rw [hidx k hk, hlive k hk]
      simp [slotAt, he]
  · intro i hi hnl
    rw [hl] at hi
    apply hdead i ?_ hi
    simp only [isLive, hh, hc, hl] at hnl
    revert hnl; somega
  · apply abs_of_slots
    apply List.ext_getElem?
    intro i
    rw [slots_getElem?, slots_getElem?, hc]
    by_cases hi : i < q.count
    · simp only [hi, if_true]
      congr 1
      rw [hidx i hi]
      simp only [slotAt, hlive i hi, Option.join_some]
    · simp only [hi, if_false]

theorem abs_dequeue {q q' : Queue} (h : WF q) (hs : slots q' = (slots q).drop 1) : abs q' = (abs q).drop 1 := by
  unfold abs
  rw [hs, h.slots_eq, ← List.map_drop, filterMap_id_map_some, filterMap_id_map_some]

def expired (now : Int) (e : Entry) : Bool := decide (e.exp ≤ now)

theorem gc_eq (now : Int) (l : List Entry) : gc now l = l.dropWhile (expired now) := rfl

/-- the `doGC` loop removes exactly the expired prefix -/
theorem gcLoop_spec (fuel : Nat) (now : Int) {q : Queue} (h : WF q) (hd : DeadZero q) (hf : q.count ≤ fuel) :
    ∃ q', Valid.gcLoop fuel now q = .ok q' ∧ WF q' ∧ DeadZero q' ∧ q'.buf.length = q.buf.length ∧
      abs q' = gc now (abs q) := by
  induction fuel generalizing q with
  | zero =>
    refine ⟨q, rfl, h, hd, rfl, ?_⟩
    rw [abs_nil_of_count (by omega)]; rfl
  | succ fuel ih =>
    unfold Valid.gcLoop
    by_cases hpos : q.count > 0
    · simp only [hpos, if_true]
      obtain ⟨e0, hb, ha⟩ := abs_getElem_zero h hpos
      rw [hb]
      simp only
      have hcons : abs q = e0 :: (abs q).drop 1 := by
        cases hl : abs q with
        | nil => simp [hl] at ha
        | cons x t => simp [hl] at ha; simp [ha]
      by_cases hexp : e0.exp > now
      · simp only [hexp, decide_true, if_true]
        refine ⟨q, rfl, h, hd, rfl, ?_⟩
        rw [gc_eq, hcons, List.dropWhile_cons]
        simp [expired, show ¬ e0.exp ≤ now from by omega]
      · simp only [hexp, decide_false, Bool.false_eq_true, if_false]
        obtain ⟨q1, hdq, hw1, hl1, hc1, hs1, hd1⟩ := dequeue_spec h hpos
        rw [hdq]
        simp only
        obtain ⟨q', hg, hw', hd', hl', ha'⟩ := ih hw1 (hd1 hd) (by omega)
        refine ⟨q', hg, hw', hd', by rw [hl', hl1], ?_⟩
        rw [ha', abs_dequeue h hs1, gc_eq, gc_eq]
        conv => rhs; rw [hcons, List.dropWhile_cons]
        simp [expired, show e0.exp ≤ now from by omega]
    · simp only [hpos, if_false]
      refine ⟨q, rfl, h, hd, rfl, ?_⟩
      rw [abs_nil_of_count (by omega)]; rfl

/-- `doGC` on the queue: the expired prefix goes, nothing else; shrinking keeps the rest -/
theorem doGCq_spec (now : Int) {q : Queue} (h : WF q) (hd : DeadZero q) :
    ∃ q', Valid.doGCq now q = .ok q' ∧ WF q' ∧ DeadZero q' ∧ abs q' = gc now (abs q) := by
  unfold Valid.doGCq
  obtain ⟨q1, hg, hw1, hd1, hl1, ha1⟩ := gcLoop_spec q.count now h hd (Nat.le_refl _)
  rw [hg]
  simp only
  by_cases hs : q1.count ≤ q1.buf.length / 4
  · simp only [hs, if_true]
    obtain ⟨q', hr, hw', hd', ha', _, _⟩ := resize_abs hw1 hd1
      (if q1.buf.length / 2 < minCap then minCap else q1.buf.length / 2) (by simp only [minCap]; apply lt_ite <;> omega)
    exact ⟨q', hr, hw', hd', by rw [ha', ha1]⟩
  · simp only [hs, if_false]
    exact ⟨q1, rfl, hw1, hd1, ha1⟩

/-- growing when full: afterwards there is room, so `enqueue` will not overwrite -/
theorem growIfFull_spec {q : Queue} (h : WF q) (hd : DeadZero q) :
    ∃ q', Valid.growIfFull q = .ok q' ∧ WF q' ∧ DeadZero q' ∧ abs q' = abs q ∧ q'.count < q'.buf.length := by
  unfold Valid.growIfFull
  by_cases hf : q.count = q.buf.length
  · simp only [hf, if_true]
    obtain ⟨q', hr, hw', hd', ha', hl', hc'⟩ := resize_abs h hd
      (if q.buf.length * 2 < minCap then minCap else q.buf.length * 2) (by simp only [minCap]; apply lt_ite <;> omega)
    refine ⟨q', hr, hw', hd', ha', ?_⟩
    rw [hl', hc']; simp only [minCap]; apply lt_ite <;> omega
  · simp only [hf, if_false]
    have := h.cnt
    exact ⟨q, rfl, h, hd, rfl, by omega⟩


/-! ## the ValidReplayer invariant -/

/-- expiries are non-decreasing along the stored entries -/
def Sorted (l : List Entry) : Prop := List.Pairwise (fun a b => a.exp ≤ b.exp) l

/-- invariant of a `ValidReplayer`; `t` is the latest instant the clock has shown -/
structure VInv (t : Int) (v : Valid) : Prop where
  wf : WF v.messages
  dead : DeadZero v.messages
  auto : AutoOK v.currentID (abs v.messages)
  sorted : Sorted (abs v.messages)
  bound : ∀ e ∈ abs v.messages, e.exp ≤ t + v.ttl

/-- the specification state a `ValidReplayer` stands for -/
def vspec (v : Valid) : VState :=
  { st := { log := abs v.messages, next := v.currentID }, lastGC := v.lastGC }

theorem dropWhile_eq_drop (p : α → Bool) (l : List α) : ∃ m, l.dropWhile p = l.drop m := by
  induction l with
  | nil => exact ⟨0, rfl⟩
  | cons a t ih =>
    by_cases h : p a = true
    · obtain ⟨m, hm⟩ := ih
      exact ⟨m + 1, by simp [List.dropWhile_cons, h, hm]⟩
    · exact ⟨0, by simp [List.dropWhile_cons, h]⟩

theorem gc_sorted (now : Int) {l : List Entry} (h : Sorted l) : Sorted (gc now l) :=
  List.Pairwise.sublist (List.dropWhile_sublist _) h

theorem gc_subset (now : Int) (l : List Entry) : ∀ e ∈ gc now l, e ∈ l :=
  fun _ he => (List.dropWhile_sublist _).subset he

theorem gc_auto (now : Int) {cur : Option Nat} {l : List Entry} (h : AutoOK cur l) : AutoOK cur (gc now l) := by
  intro c hc
  obtain ⟨m, hm⟩ := dropWhile_eq_drop (fun e => decide (e.exp ≤ now)) l
  simp only [gc, hm]
  exact consec_drop (h c hc) m

/-- after `gc now` of a sorted list every remaining entry is unexpired -/
theorem gc_all_unexpired (now : Int) {l : List Entry} (h : Sorted l) : ∀ e ∈ gc now l, e.exp > now := by
  induction l with
  | nil => intro e he; simp [gc] at he
  | cons a t ih =>
    intro e he
    simp only [gc, List.dropWhile_cons] at he
    by_cases ha : a.exp ≤ now
    · simp only [ha, decide_true, if_true] at he
      exact ih (List.Pairwise.of_cons h) e he
    · simp only [ha, decide_false, Bool.false_eq_true, if_false, List.mem_cons] at he
      rcases he with rfl | he
      · omega
      · have := List.rel_of_pairwise_cons h he
        omega

/-- unexpired entries survive `gc` -/
theorem gc_keeps (now : Int) (l : List Entry) : ∀ e ∈ l, e.exp > now → e ∈ gc now l := by
  induction l with
  | nil => intro e he; simp at he
  | cons a t ih =>
    intro e he hexp
    simp only [gc, List.dropWhile_cons]
    by_cases ha : a.exp ≤ now
    · simp only [ha, decide_true, if_true]
      rcases List.mem_cons.1 he with rfl | he
      · omega
      · exact ih e he hexp
    · simp only [ha, decide_false, Bool.false_eq_true, if_false]
      exact he

theorem doGC_inv {t : Int} {v : Valid} (h : VInv t v) (now : Int) :
    ∃ v', v.doGC now = .ok v' ∧ VInv t v' ∧ abs v'.messages = gc now (abs v.messages) ∧
      v' = { v with messages := v'.messages } := by
  obtain ⟨q', hq, hw, hd, ha⟩ := doGCq_spec now h.wf h.dead
  refine ⟨{ v with messages := q' }, by simp [Valid.doGC, hq], ?_, ha, rfl⟩
  refine ⟨hw, hd, ?_, ?_, ?_⟩
  · simp only [ha]; exact gc_auto now h.auto
  · simp only [ha]; exact gc_sorted now h.sorted
  · simp only [ha]; intro e he; exact h.bound e (gc_subset now _ e he)

theorem sorted_snoc {l : List Entry} (h : Sorted l) (x : Entry) (hx : ∀ e ∈ l, e.exp ≤ x.exp) : Sorted (l ++ [x]) := by
  unfold Sorted
  rw [List.pairwise_append]
  refine ⟨h, by simp, ?_⟩
  intro a ha b hb
  simp at hb; subst hb
  exact hx a ha

theorem takeLast_all (n : Nat) (l : List α) (h : l.length ≤ n) : takeLast n l = l := by
  simp [takeLast, Nat.sub_eq_zero_of_le h]


theorem VInv.congr {t : Int} {v v' : Valid} (h : VInv t v) (hm : v'.messages = v.messages)
    (hc : v'.currentID = v.currentID) (ht : v'.ttl = v.ttl) : VInv t v' := by
  refine ⟨by rw [hm]; exact h.wf, by rw [hm]; exact h.dead, by rw [hm, hc]; exact h.auto,
    by rw [hm]; exact h.sorted, by rw [hm, ht]; exact h.bound⟩

/-- the lazy `lastGC` initialisation and the Put-triggered collection -/
theorem gcIfDue_spec {t : Int} {v : Valid} (h : VInv t v) (now : Int) :
    ∃ v1, v.gcIfDue now = .ok v1 ∧ VInv t v1 ∧ v1.ttl = v.ttl ∧ v1.gcInterval = v.gcInterval ∧
      v1.currentID = v.currentID ∧
      abs v1.messages = (if v.gcInterval > 0 ∧ now - v.lastGC.getD now ≥ v.gcInterval then gc now (abs v.messages)
        else abs v.messages) ∧
      v1.lastGC = some (if v.gcInterval > 0 ∧ now - v.lastGC.getD now ≥ v.gcInterval then now else v.lastGC.getD now) := by
  unfold Valid.gcIfDue
  generalize hv0 : (if v.lastGC.isNone = true then { v with lastGC := some now } else v) = v0
  have h0 : v0.messages = v.messages ∧ v0.currentID = v.currentID ∧ v0.ttl = v.ttl ∧ v0.gcInterval = v.gcInterval ∧
      v0.lastGC = some (v.lastGC.getD now) := by
    subst hv0
    cases hl : v.lastGC <;> simp [hl]
  obtain ⟨hm, hc, ht, hg, hl⟩ := h0
  have hinv0 : VInv t v0 := h.congr hm hc ht
  have hshould : v0.shouldGC now = decide (v.gcInterval > 0 ∧ now - v.lastGC.getD now ≥ v.gcInterval) := by
    simp [Valid.shouldGC, hg, hl, Bool.decide_and]
  simp only [hshould]
  by_cases hdue : v.gcInterval > 0 ∧ now - v.lastGC.getD now ≥ v.gcInterval
  · simp only [hdue, and_self, decide_true, if_true]
    obtain ⟨v', hgc, hinv', ha', hv'⟩ := doGC_inv hinv0 now
    rw [hgc]
    simp only
    have e1 : v'.ttl = v0.ttl := by rw [hv']
    have e2 : v'.currentID = v0.currentID := by rw [hv']
    have e3 : v'.gcInterval = v0.gcInterval := by rw [hv']
    refine ⟨_, rfl, hinv'.congr rfl rfl rfl, by simp [e1, ht], by simp [e3, hg], by simp [e2, hc], ?_, rfl⟩
    simp only [ha', hm]
  · simp only [hdue, decide_false, Bool.false_eq_true, if_false]
    exact ⟨v0, rfl, hinv0, ht, hg, hc, by rw [hm], hl⟩


/-! ## C18: what the slots of the backing array reference -/

theorem isLive_idx {q : Queue} (h : WF q) (i : Nat) (hi : i < q.buf.length) (hl : isLive q i) :
    ∃ k, k < q.count ∧ idx q k = i := by
  have hcnt := h.cnt; have hhd := h.hd; have htl := h.tl; have hring := h.ring
  refine ⟨if q.head ≤ i then i - q.head else i + q.buf.length - q.head, ?_, ?_⟩
  · simp only [isLive] at hl; revert hl; somega
  · simp only [isLive] at hl; simp only [idx]; revert hl; somega

/-- with dead slots zero, every message referenced from ANY slot of the backing array is a stored entry -/
theorem nonempty_slot_stored {q : Queue} (h : WF q) (hd : DeadZero q) (i : Nat) (e : Entry)
    (hs : q.buf[i]? = some (some e)) : e ∈ abs q := by
  have hi : i < q.buf.length := by
    cases hlt : decide (i < q.buf.length) with
    | true => simpa using hlt
    | false =>
      have : q.buf.length ≤ i := by simpa using hlt
      rw [List.getElem?_eq_none this] at hs; cases hs
  have hl : isLive q i := by
    apply Classical.byContradiction
    intro hnl
    rw [hd i hi hnl] at hs; cases hs
  obtain ⟨k, hk, hik⟩ := isLive_idx h i hi hl
  have hsl := slots_getElem? q k
  simp only [hk, if_true, hik, slotAt, hs, Option.join_some] at hsl
  rw [h.slots_eq, List.getElem?_map] at hsl
  cases ha : (abs q)[k]? with
  | none => simp [ha] at hsl
  | some x =>
    simp only [ha, Option.map_some, Option.some.injEq] at hsl
    subst hsl
    exact List.mem_of_getElem? ha

theorem filterMap_id_length_le (l : List (Option α)) : (l.filterMap id).length ≤ l.length :=
  List.length_filterMap_le _ _

end GoSSE.Proofs
