import GoSSE.Proofs.GenEquivFields
import GoSSE.Gen.Write
/-!
# The translated encoders (`chunk.WriteTo`, `writeMessageField`, `writeID/Type/Retry`, `Message.WriteTo`)

`GoSSE/Gen/Write.lean` is the encoding side of message.go as translated from /repo's current source, generic in the
writer (`GoRT.Writer σ`: any state and any `Write` function). For every model writer, message and starting state
the translated `Message.WriteTo` returns the model's count and error and leaves the writer in the model's state —
so C15's byte accounting (`writeTo_accounting`) and C02's wire format hold of the source text — and it panics exactly
when the model's 13-byte retry buffer overflows (never, for a `time.Duration`: `retry_digits`).
-/
set_option linter.unusedSimpArgs false
namespace GoSSE.GenEquiv
open GoSSE GoSSE.GoRT GoSSE.Model

/-- a model writer (with `String` errors) at state `st`, as the translated code's `io.Writer` -/
def toGenW {σ : Type} (w : Model.Writer σ String) (st : σ) : GoRT.Writer σ :=
  { st := st, write := fun s p => (((w.write s p).1 : Int), (w.write s p).2.1, (w.write s p).2.2) }

def toGenMsg (m : Message) : Gen.Message :=
  { chunks := m.chunks.map gC, ID := ⟨toGenF m.id⟩, Type' := ⟨toGenF m.typ⟩, Retry := m.retry }

/-- what a translated encoder returns for the model's result `r` (count, error, the in/out values) -/
def okOf {σ α : Type} (w : Model.Writer σ String) (r : WR σ String) (x : α) : GoM (Int × Option String × α × GoRT.Writer σ) :=
  .ok ((r.n : Int), r.err, x, toGenW w r.st)

@[simp] theorem toGenW_st {σ : Type} (w : Model.Writer σ String) (st : σ) : (toGenW w st).st = st := rfl
@[simp] theorem toGenW_write {σ : Type} (w : Model.Writer σ String) (st s : σ) (p : Bytes) :
    (toGenW w st).write s p = (((w.write s p).1 : Int), (w.write s p).2.1, (w.write s p).2.2) := rfl
@[simp] theorem toGenW_with {σ : Type} (w : Model.Writer σ String) (st s : σ) :
    ({ toGenW w st with st := s } : GoRT.Writer σ) = toGenW w s := rfl

theorem writeString_eq {σ : Type} (fuel : Nat) (w : Model.Writer σ String) (st : σ) (s : Bytes) :
    Gen.writeString fuel (toGenW w st) s =
      .ok (((w.write st s).1 : Int), (w.write st s).2.1, toGenW w (w.write st s).2.2) := by
  unfold Gen.writeString
  simp [pure, Except.pure]

/-- the three-writes shape shared by `chunk.WriteTo`, `writeMessageField` and `writeRetry`, on the model side -/
theorem write3_spec {σ : Type} (w : Model.Writer σ String) (st : σ) (log) (a b c : Bytes) :
    let q1 := w.write st a
    let q2 := w.write q1.2.2 b
    let q3 := w.write q2.2.2 c
    let r := write3 w st log a b c
    r.panic = false ∧
    (q1.2.1.isSome = true → r.n = q1.1 ∧ r.err = q1.2.1 ∧ r.st = q1.2.2) ∧
    (q1.2.1 = none → q2.2.1.isSome = true → r.n = q1.1 + q2.1 ∧ r.err = q2.2.1 ∧ r.st = q2.2.2) ∧
    (q1.2.1 = none → q2.2.1 = none → r.n = q1.1 + q2.1 + q3.1 ∧ r.err = q3.2.1 ∧ r.st = q3.2.2) := by
  simp only [write3, WR.write, WR.stop, Nat.zero_add, Bool.or_false]
  cases h1 : (w.write st a).2.1 <;> simp
  cases h2 : (w.write (w.write st a).2.2 b).2.1 <;> simp

/-- the translated three writes `name`, `content`, newline with the early returns, as a function of the writer -/
theorem three_writes {σ α : Type} (fuel : Nat) (w : Model.Writer σ String) (st : σ) (log) (a b : Bytes) (x : α) :
    (do
      let w0 := toGenW w st
      let w_1 := (w0).write (w0).st a
      let w1 : GoRT.Writer σ := { w0 with st := w_1.2.2 }
      let n : Int := w_1.1
      let err : Option String := w_1.2.1
      if (err != none) then pure (n, err, x, w1)
      else do
        let m_5 ← Gen.writeString fuel w1 b
        let w2 : GoRT.Writer σ := m_5.2.2
        let m : Int := m_5.1
        let err : Option String := m_5.2.1
        let n : Int := n + m
        if (err != none) then pure (n, err, x, w2)
        else do
          let w_7 := (w2).write (w2).st ([10] : Bytes)
          let w3 : GoRT.Writer σ := { w2 with st := w_7.2.2 }
          pure ((n + w_7.1), w_7.2.1, x, w3) : GoM (Int × Option String × α × GoRT.Writer σ)) =
      okOf w (write3 w st log a b newline) x := by
  obtain ⟨_, h1, h2, h3⟩ := write3_spec w st log a b newline
  simp only [toGenW_st, toGenW_write, toGenW_with, bind, Except.bind, writeString_eq, pure, Except.pure, okOf, newline] at *
  generalize w.write st a = q1 at *
  generalize w.write q1.2.2 b = q2 at *
  generalize w.write q2.2.2 [10] = q3 at *
  generalize write3 w st log a b [10] = r at *
  cases he1 : q1.2.1 with
  | some e1 =>
    obtain ⟨e1', e2', e3'⟩ := h1 (by simp [he1])
    simp [he1, e1', e2', e3'] at *
  | none =>
    cases he2 : q2.2.1 with
    | some e2 =>
      obtain ⟨e1', e2', e3'⟩ := h2 he1 (by simp [he2])
      simp [he1, he2, e1', e2', e3']
    | none =>
      obtain ⟨e1', e2', e3'⟩ := h3 he1 he2
      simp [he1, he2, e1', e2', e3']

theorem chunk_WriteTo_eq {σ : Type} (fuel : Nat) (w : Model.Writer σ String) (st : σ) (log) (c : Chunk) :
    Gen.chunk_WriteTo fuel (gC c) (toGenW w st) = okOf w (c.writeTo w st log) (gC c) := by
  unfold Gen.chunk_WriteTo Chunk.writeTo
  cases hc : c.isComment
  · simp only [gC, hc, Bool.false_eq_true, if_false]
    exact three_writes fuel w st log fieldBytesData c.content _
  · simp only [gC, hc, if_true]
    exact three_writes fuel w st log fieldBytesComment c.content _

theorem IsSet_eq (fuel : Nat) (f : MField) : Gen.messageField_IsSet fuel (toGenF f) = .ok f.set := rfl
theorem String_eq (fuel : Nat) (f : MField) : Gen.messageField_String fuel (toGenF f) = .ok f.value := rfl

theorem writeMessageField_eq {σ : Type} (fuel : Nat) (w : Model.Writer σ String) (st : σ) (log) (e : Gen.Message)
    (f : MField) (fb : Bytes) :
    Gen.Message_writeMessageField fuel e (toGenW w st) (toGenF f) fb = okOf w (writeMessageField w st log f fb) e := by
  unfold Gen.Message_writeMessageField writeMessageField
  simp only [bind, Except.bind, IsSet_eq, String_eq]
  cases hs : f.set
  · simp [pure, Except.pure, okOf]
  · simp only [Bool.not_true, Bool.false_eq_true, if_false]
    exact three_writes fuel w st log fb f.value e

theorem writeID_eq {σ : Type} (fuel : Nat) (w : Model.Writer σ String) (st : σ) (log) (m : Message) :
    Gen.Message_writeID fuel (toGenMsg m) (toGenW w st) = okOf w (m.writeID w st log) (toGenMsg m) := by
  unfold Gen.Message_writeID Message.writeID
  have h := writeMessageField_eq fuel w st log (toGenMsg m) m.id fieldBytesID
  simp only [bind, Except.bind, pure, Except.pure]
  have e : ((toGenMsg m).ID).messageField = toGenF m.id := rfl
  rw [e]
  have e2 : ([105, 100, 58, 32] : Bytes) = fieldBytesID := rfl
  rw [e2, h]
  rfl

theorem writeType_eq {σ : Type} (fuel : Nat) (w : Model.Writer σ String) (st : σ) (log) (m : Message) :
    Gen.Message_writeType fuel (toGenMsg m) (toGenW w st) = okOf w (m.writeType w st log) (toGenMsg m) := by
  unfold Gen.Message_writeType Message.writeType
  have h := writeMessageField_eq fuel w st log (toGenMsg m) m.typ fieldBytesEvent
  simp only [bind, Except.bind, pure, Except.pure]
  have e : ((toGenMsg m).Type').messageField = toGenF m.typ := rfl
  rw [e]
  have e2 : ([101, 118, 101, 110, 116, 58, 32] : Bytes) = fieldBytesEvent := rfl
  rw [e2, h]
  rfl

/-! ### `writeRetry`: the digit loop over `var buf [13]byte` -/

theorem digit_eq (M : Nat) :
    (48 : UInt8) + UInt8.ofNat (Int.toNat (Int.emod (Int.tmod (M : Int) 10) 256)) = 48 + UInt8.ofNat (M % 10) := by
  have h1 : Int.tmod (M : Int) 10 = ((M % 10 : Nat) : Int) := by
    rw [Int.tmod_eq_emod_of_nonneg (by omega)]; omega
  have h2 : Int.emod ((M % 10 : Nat) : Int) 256 = ((M % 10 : Nat) : Int) := by
    show ((M % 10 : Nat) : Int) % 256 = _
    omega
  rw [h1, h2, Int.toNat_natCast]

theorem setIdx_ok' {α} (s : List α) (i : Nat) (v : α) (h : i < s.length) :
    setIdx s (i : Int) v = .ok (s.set i v) := by
  unfold setIdx len
  have : (0 : Int) ≤ i ∧ (i : Int) < s.length := ⟨by omega, by omega⟩
  simp [this, pure, Except.pure]

/-- one iteration of the digit loop: `j = i + 1` -/
theorem retry_loop1_step {σ : Type} (fuel : Nat) (M j : Nat) (buf : Bytes) (hb : buf.length = 13) (hj : j ≤ 13) :
    Gen.Message_writeRetry_loop1 (σ := σ) fuel ((M : Int), buf, (j : Int) - 1) =
      if M = 0 then .ok (.brk ((M : Int), buf, (j : Int) - 1))
      else if j = 0 then .error (.panic "index out of range")
      else .ok (.next (((M / 10 : Nat) : Int), buf.set (j - 1) (48 + UInt8.ofNat (M % 10)), ((j - 1 : Nat) : Int) - 1)) := by
  unfold Gen.Message_writeRetry_loop1
  by_cases hM : M = 0
  · subst hM; simp [pure, Except.pure]
  · have c1 : (((M : Nat) : Int) != 0) = true := by simp; omega
    simp only [c1, if_true, hM, if_false, digit_eq]
    by_cases h0 : j = 0
    · subst h0
      simp only [if_true, bind, Except.bind]
      unfold setIdx
      have c2 : ¬ ((0 : Int) ≤ ((0 : Nat) : Int) - 1 ∧ ((0 : Nat) : Int) - 1 < len buf) := by omega
      rw [if_neg c2]
      rfl
    · have e1 : ((j : Nat) : Int) - 1 = ((j - 1 : Nat) : Int) := by omega
      have hlt : j - 1 < buf.length := by omega
      have ediv : Int.tdiv ((M : Nat) : Int) 10 = ((M / 10 : Nat) : Int) := by
        rw [Int.natCast_tdiv_eq_ediv]; omega
      simp only [h0, if_false, e1, bind, Except.bind, setIdx_ok' buf (j - 1) _ hlt, ediv, pure, Except.pure]

theorem retry_loop_eq {σ : Type} (fuel : Nat) :
    ∀ (j n M : Nat) (buf : Bytes), buf.length = 13 → j ≤ 13 → j < n →
      loopM (Gen.Message_writeRetry_loop1 (σ := σ) fuel) n ((M : Int), buf, (j : Int) - 1) =
        match retryLoop j M buf with
        | some r => .ok (.inl ((0 : Int), r.2, (r.1 : Int) - 1))
        | none => .error (.panic "index out of range") := by
  intro j
  induction j with
  | zero =>
    intro n M buf hb hj hn
    obtain ⟨n', rfl⟩ : ∃ n', n = n' + 1 := ⟨n - 1, by omega⟩
    unfold loopM
    rw [retry_loop1_step fuel M 0 buf hb hj]
    unfold retryLoop
    by_cases hM : M = 0
    · subst hM; simp [pure, Except.pure]
    · simp [hM]
  | succ j ih =>
    intro n M buf hb hj hn
    obtain ⟨n', rfl⟩ : ∃ n', n = n' + 1 := ⟨n - 1, by omega⟩
    unfold loopM
    rw [retry_loop1_step fuel M (j + 1) buf hb hj]
    unfold retryLoop
    by_cases hM : M = 0
    · subst hM; simp [pure, Except.pure]
    · simp only [hM, if_false, Nat.add_one_ne_zero, Nat.add_sub_cancel]
      exact ih n' (M / 10) _ (by simp [hb]) (by omega) (by omega)

theorem retryLoop_bounds : ∀ (j M : Nat) (buf : Bytes) (r : Nat × Bytes), retryLoop j M buf = some r →
    r.1 ≤ j ∧ r.2.length = buf.length := by
  intro j
  induction j with
  | zero =>
    intro M buf r h
    unfold retryLoop at h
    split at h
    · cases h; exact ⟨Nat.le_refl _, rfl⟩
    · cases h
  | succ j ih =>
    intro M buf r h
    unfold retryLoop at h
    split at h
    · cases h; exact ⟨Nat.le_refl _, rfl⟩
    · obtain ⟨h1, h2⟩ := ih _ _ r h
      exact ⟨by omega, by rw [h2]; simp⟩

/-- what a translated encoder returns for the model's result `r`, including the model's panic outcome -/
def okOrPanic {σ α : Type} (w : Model.Writer σ String) (r : WR σ String) (x : α) : GoM (Int × Option String × α × GoRT.Writer σ) :=
  if r.panic then .error (.panic "index out of range") else okOf w r x

theorem writeRetry_eq {σ : Type} (fuel : Nat) (hf : 13 < fuel) (w : Model.Writer σ String) (st : σ) (log) (m : Message) :
    Gen.Message_writeRetry fuel (toGenMsg m) (toGenW w st) = okOrPanic w (m.writeRetry w st log) (toGenMsg m) := by
  unfold Gen.Message_writeRetry Message.writeRetry okOrPanic
  have em : Int.tdiv (toGenMsg m).Retry (1000000 : Int) = m.millis := rfl
  simp only [em]
  by_cases hle : m.millis ≤ 0
  · simp [hle, pure, Except.pure, okOf]
  · simp only [hle, decide_false, Bool.false_eq_true, if_false]
    obtain ⟨M, hM⟩ : ∃ M : Nat, m.millis = (M : Int) := ⟨m.millis.toNat, by omega⟩
    rw [hM, Int.toNat_natCast]
    have ebytes : ([114, 101, 116, 114, 121, 58, 32] : Bytes) = fieldBytesRetry := rfl
    simp only [toGenW_st, toGenW_write, toGenW_with, bind, Except.bind, ebytes]
    have e12 : ((12 : Int)) = ((13 : Nat) : Int) - 1 := by omega
    have hloop := retry_loop_eq (σ := σ) fuel 13 fuel M (List.replicate 13 (0 : UInt8)) (by simp) (Nat.le_refl _) hf
    rw [e12, hloop]
    unfold retryDigits
    cases hr : retryLoop 13 M (List.replicate 13 0) with
    | none =>
      -- the model's 13-byte buffer overflows: a panic once the field name has been written without an error
      simp only [Option.map_none]
      cases he1 : (w.write st fieldBytesRetry).2.1 with
      | some e1 => simp [WR.write, WR.stop, he1, pure, Except.pure, okOf]
      | none => simp [WR.write, WR.stop, he1]
    | some r =>
      obtain ⟨hj, hl⟩ := retryLoop_bounds 13 M _ r hr
      have hl13 : r.2.length = 13 := by rw [hl]; simp
      simp only [Option.map_some]
      obtain ⟨hp, h1, h2, h3⟩ := write3_spec w st log fieldBytesRetry (r.2.drop r.1) newline
      have eidx : ((r.1 : Nat) : Int) - 1 + 1 = ((r.1 : Nat) : Int) := by omega
      simp only [hp, Bool.false_eq_true, if_false, eidx, sliceFrom_ok r.2 r.1 (by omega), toGenW_st, toGenW_write,
        toGenW_with, pure, Except.pure, okOf, newline] at *
      generalize w.write st fieldBytesRetry = q1 at *
      generalize w.write q1.2.2 (r.2.drop r.1) = q2 at *
      generalize w.write q2.2.2 [10] = q3 at *
      generalize write3 w st log fieldBytesRetry (r.2.drop r.1) [10] = wr at *
      cases he1 : q1.2.1 with
      | some e1 =>
        obtain ⟨a1, a2, a3⟩ := h1 (by simp [he1])
        simp [he1, a1, a2, a3] at *
      | none =>
        cases he2 : q2.2.1 with
        | some e2 =>
          obtain ⟨a1, a2, a3⟩ := h2 he1 (by simp [he2])
          simp [he1, he2, a1, a2, a3]
        | none =>
          obtain ⟨a1, a2, a3⟩ := h3 he1 he2
          simp [he1, he2, a1, a2, a3]

/-! ### `Message.WriteTo` -/

theorem chunk_writeTo_panic {σ : Type} (w : Model.Writer σ String) (st : σ) (log) (c : Chunk) :
    (c.writeTo w st log).panic = false := by
  unfold Chunk.writeTo; exact (write3_spec w st log _ _ _).1

/-- one iteration of the chunk loop of the translated `WriteTo` -/
theorem WriteTo_loop1_step {σ : Type} (fuel : Nat) (w : Model.Writer σ String) (all : List Chunk) (e : Gen.Message)
    (he : e.chunks = all.map gC) (i : Nat) (st : σ) (log) (n : Int) (errp : Option String) (mp : Int) :
    Gen.Message_WriteTo_loop1 fuel (all.map gC) ((i : Int), e, toGenW w st, n, errp, mp) =
      if h : i < all.length then
        let q := (all[i]).writeTo w st log
        if q.err.isSome then .ok (.ret (n + (q.n : Int), q.err, e, toGenW w q.st))
        else .ok (.next (((i + 1 : Nat) : Int), e, toGenW w q.st, n + (q.n : Int), q.err, (q.n : Int)))
      else .ok (.brk ((i : Int), e, toGenW w st, n, errp, mp)) := by
  unfold Gen.Message_WriteTo_loop1
  by_cases h : i < all.length
  · have c1 : ((i : Int) < len (all.map gC)) := by unfold len; simp; omega
    have hidx : idx e.chunks (i : Int) = .ok (gC all[i]) := by
      rw [he]
      have := idx_ok (all.map gC) i (by simp; exact h)
      rw [this]; simp
    simp only [c1, if_true, h, dif_pos, bind, Except.bind, hidx, chunk_WriteTo_eq fuel w st log all[i], okOf]
    cases hq : ((all[i]).writeTo w st log).err with
    | none => simp [pure, Except.pure]
    | some x => simp [pure, Except.pure]
  · have c1 : ¬ ((i : Int) < len (all.map gC)) := by unfold len; simp; omega
    simp only [c1, if_false, h, dif_neg, not_false_eq_true, pure, Except.pure]

@[simp] theorem addTo_n {σ ε : Type} (n : Nat) (q : WR σ ε) : (WR.addTo n q).n = n + q.n := rfl
@[simp] theorem addTo_err {σ ε : Type} (n : Nat) (q : WR σ ε) : (WR.addTo n q).err = q.err := rfl
@[simp] theorem addTo_st {σ ε : Type} (n : Nat) (q : WR σ ε) : (WR.addTo n q).st = q.st := rfl
@[simp] theorem addTo_log {σ ε : Type} (n : Nat) (q : WR σ ε) : (WR.addTo n q).log = q.log := rfl
@[simp] theorem addTo_panic {σ ε : Type} (n : Nat) (q : WR σ ε) : (WR.addTo n q).panic = q.panic := rfl

theorem writeChunks_cons {σ : Type} (w : Model.Writer σ String) (r : WR σ String) (c : Chunk) (cs : List Chunk) :
    writeChunks w r (c :: cs) =
      if (WR.addTo r.n (c.writeTo w r.st r.log)).stop then WR.addTo r.n (c.writeTo w r.st r.log)
      else writeChunks w (WR.addTo r.n (c.writeTo w r.st r.log)) cs := by
  conv => lhs; unfold writeChunks

theorem WriteTo_loop_eq {σ : Type} (fuel : Nat) (w : Model.Writer σ String) (all : List Chunk) (e : Gen.Message)
    (he : e.chunks = all.map gC) :
    ∀ (cs : List Chunk) (i : Nat) (r : WR σ String) (k : Nat) (errp : Option String) (mp : Int),
      i ≤ all.length → all.drop i = cs → r.panic = false → r.err = none → cs.length < k →
      (writeChunks w r cs).panic = false ∧
      ∃ err' m', loopM (Gen.Message_WriteTo_loop1 fuel (all.map gC)) k ((i : Int), e, toGenW w r.st, (r.n : Int), errp, mp) =
        if (writeChunks w r cs).err.isSome then
          .ok (.inr (((writeChunks w r cs).n : Int), (writeChunks w r cs).err, e, toGenW w (writeChunks w r cs).st))
        else .ok (.inl ((all.length : Int), e, toGenW w (writeChunks w r cs).st, ((writeChunks w r cs).n : Int), err', m')) := by
  intro cs
  induction cs with
  | nil =>
    intro i r k errp mp hile hd hp hen hk
    obtain ⟨k', rfl⟩ : ∃ k', k = k' + 1 := ⟨k - 1, by omega⟩
    have hi : i = all.length := by
      have := congrArg List.length hd
      simp at this; omega
    subst hi
    refine ⟨by simpa [writeChunks] using hp, errp, mp, ?_⟩
    unfold loopM
    rw [WriteTo_loop1_step fuel w all e he all.length r.st r.log]
    simp only [Nat.lt_irrefl, dif_neg, not_false_eq_true, writeChunks, hen, Option.isSome_none, Bool.false_eq_true,
      if_false, pure, Except.pure]
  | cons c cs ih =>
    intro i r k errp mp hile hd hp hen hk
    obtain ⟨k', rfl⟩ : ∃ k', k = k' + 1 := ⟨k - 1, by omega⟩
    have hi : i < all.length := by
      have := congrArg List.length hd
      simp at this; omega
    have hci : all[i] = c := by
      have := List.drop_eq_getElem_cons hi
      rw [hd] at this
      injection this with h1 _
      exact h1.symm
    have hdn : all.drop (i + 1) = cs := by
      have := List.drop_eq_getElem_cons hi
      rw [hd] at this
      injection this with _ h2
      exact h2.symm
    have hcp := chunk_writeTo_panic w r.st r.log c
    rw [writeChunks_cons]
    unfold loopM
    rw [WriteTo_loop1_step fuel w all e he i r.st r.log]
    simp only [hi, dif_pos, hci, WR.stop, addTo_err, addTo_panic, hcp, Bool.or_false]
    cases hq : (c.writeTo w r.st r.log).err with
    | some x =>
      simp only [Option.isSome_some, if_true, addTo_panic, hcp, addTo_n, addTo_err, addTo_st, hq, pure, Except.pure]
      refine ⟨trivial, errp, mp, ?_⟩
      have ecast : ((r.n : Int) + ((c.writeTo w r.st r.log).n : Int)) = ((r.n + (c.writeTo w r.st r.log).n : Nat) : Int) := by omega
      rw [ecast]
    | none =>
      simp only [Option.isSome_none, Bool.false_eq_true, if_false]
      have := ih (i + 1) (WR.addTo r.n (c.writeTo w r.st r.log)) k'
        (c.writeTo w r.st r.log).err ((c.writeTo w r.st r.log).n : Int) (by omega) hdn (by simp [hcp]) (by simp [hq])
        (by simp at hk; omega)
      obtain ⟨hp', err', m', hl⟩ := this
      refine ⟨hp', err', m', ?_⟩
      have ecast : ((r.n : Int) + ((c.writeTo w r.st r.log).n : Int)) = ((r.n + (c.writeTo w r.st r.log).n : Nat) : Int) := by omega
      rw [ecast]
      simpa [hq] using hl

theorem writeMessageField_panic {σ : Type} (w : Model.Writer σ String) (st : σ) (log) (f : MField) (fb : Bytes) :
    (writeMessageField w st log f fb).panic = false := by
  unfold writeMessageField
  split
  · rfl
  · exact (write3_spec w st log _ _ _).1

/-- **`Message.WriteTo`, as translated from message.go, is the model's `writeTo`**: for every writer (any state
machine with `String` errors), every message and every starting state — the count and the error returned, and the
writer's state afterwards; a panic exactly when the model's 13-byte retry buffer overflows. -/
theorem WriteTo_eq {σ : Type} (fuel : Nat) (w : Model.Writer σ String) (st : σ) (m : Message)
    (hf : 13 < fuel) (hc : m.chunks.length < fuel) :
    Gen.Message_WriteTo fuel (toGenMsg m) (toGenW w st) = okOrPanic w (m.writeTo w st) (toGenMsg m) := by
  unfold Gen.Message_WriteTo Message.writeTo
  simp only [bind, Except.bind, writeID_eq fuel w st [] m, okOf]
  have hp1 : (m.writeID w st []).panic = false := writeMessageField_panic _ _ _ _ _
  generalize m.writeID w st [] = r1 at hp1 ⊢
  cases he1 : r1.err with
  | some x => simp [WR.stop, he1, hp1, okOrPanic, okOf, pure, Except.pure]
  | none =>
    simp only [WR.stop, he1, hp1, Option.isSome_none, Bool.or_false, Bool.false_eq_true, if_false, bne_self_eq_false,
      writeType_eq fuel w r1.st r1.log m, okOf]
    have hp2 : (WR.addTo r1.n (m.writeType w r1.st r1.log)).panic = false := by
      simp; exact writeMessageField_panic _ _ _ _ _
    generalize hq2 : m.writeType w r1.st r1.log = q2 at hp2 ⊢
    cases he2 : q2.err with
    | some x =>
      simp [he2, okOrPanic, okOf, pure, Except.pure]
      simp at hp2; simp [hp2]
    | none =>
      simp at hp2
      simp only [he2, addTo_err, addTo_panic, hp2, Option.isSome_none, Bool.or_false, Bool.false_eq_true, if_false,
        bne_self_eq_false, addTo_st, addTo_log, addTo_n]
      rw [writeRetry_eq fuel hf w q2.st q2.log m]
      obtain ⟨q3, hq3⟩ : ∃ q3, m.writeRetry w q2.st q2.log = q3 := ⟨_, rfl⟩
      simp only [hq3]
      unfold okOrPanic
      cases hp3 : q3.panic with
      | true => simp [WR.stop, hp3]
      | false =>
        simp only [Bool.false_eq_true, if_false, okOf, WR.stop, addTo_err, addTo_panic, hp3, Bool.or_false]
        cases he3 : q3.err with
        | some x =>
          simp [he3, pure, Except.pure, hp3]
        | none =>
          simp only [he3, Option.isSome_none, Bool.false_eq_true, if_false, bne_self_eq_false]
          -- the chunk loop
          have ecast : ((r1.n : Int) + (q2.n : Int) + (q3.n : Int)) = (((WR.addTo (r1.n + q2.n) q3).n : Nat) : Int) := by
            simp
          have hst : q3.st = (WR.addTo (r1.n + q2.n) q3).st := rfl
          rw [ecast, hst]
          obtain ⟨hpl, err', m', hl⟩ := WriteTo_loop_eq fuel w m.chunks (toGenMsg m) rfl m.chunks 0
            (WR.addTo (r1.n + q2.n) q3) fuel none (q3.n : Int) (Nat.zero_le _) rfl (by simp [hp3]) (by simp [he3]) hc
          have e0 : (0 : Int) = ((0 : Nat) : Int) := rfl
          have echunks : (toGenMsg m).chunks = m.chunks.map gC := rfl
          rw [echunks, e0, hl]
          generalize writeChunks w (WR.addTo (r1.n + q2.n) q3) m.chunks = r4 at hpl ⊢
          cases he4 : r4.err with
          | some x => simp [he4, hpl, pure, Except.pure]
          | none =>
            simp only [he4, Option.isSome_none, Bool.false_eq_true, if_false, hpl, Bool.or_false]
            by_cases hn0 : r4.n = 0
            · simp [hn0, pure, Except.pure]
            · have c1 : (((r4.n : Nat) : Int) == 0) = false := by rw [beq_eq_false_iff_ne]; omega
              have c2 : (r4.n == 0) = false := by rw [beq_eq_false_iff_ne]; exact hn0
              simp only [c1, c2, Bool.false_eq_true, if_false, toGenW_st, toGenW_write, toGenW_with, WR.write, hpl, pure,
                Except.pure, newline]
              simp [hn0]
              omega

end GoSSE.GenEquiv
