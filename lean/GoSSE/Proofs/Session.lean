import GoSSE.Spec.HttpLog
/-!
Helper lemmas for C16, session part: what one `doUpgrade` / `writeAll` / `Send` / `Flush` emits,
for every fault schedule; the protocol automaton `phases` simulates `didUpgrade`.
-/
namespace GoSSE.Proofs.Session
open GoSSE GoSSE.Model.Session GoSSE.Model.Server GoSSE.Spec.HttpLog

/-! ### errors: a call's events are clean up to a possible last, failing one -/

/-- `Good evs err`: no event of `evs` failed and `err = none`, or the last one failed with `err`
and none before it did -/
def Good (evs : List Ev) (err : Option Nat) : Prop :=
  (err = none ∧ ∀ e ∈ evs, e.err = none) ∨
  (∃ a e k, evs = a ++ [e] ∧ (∀ x ∈ a, x.err = none) ∧ e.err = some k ∧ err = some k)

theorem Good.nil : Good [] none := by simp [Good]

theorem Good.append {a b : List Ev} {r : Option Nat} (ha : Good a none) (hb : Good b r) : Good (a ++ b) r := by
  have ha' : ∀ e ∈ a, e.err = none := by
    rcases ha with ⟨_, h⟩ | ⟨_, _, _, _, _, _, h⟩
    · exact h
    · cases h
  rcases hb with ⟨h1, h2⟩ | ⟨b', e, k, h1, h2, h3, h4⟩
  · left
    refine ⟨h1, ?_⟩
    intro e he
    rcases List.mem_append.mp he with h | h
    · exact ha' e h
    · exact h2 e h
  · right
    refine ⟨a ++ b', e, k, by simp [h1], ?_, h3, h4⟩
    intro x hx
    rcases List.mem_append.mp hx with h | h
    · exact ha' x h
    · exact h2 x h

theorem firstErr_clean {evs : List Ev} (h : ∀ e ∈ evs, e.err = none) : firstErr evs = none := by
  induction evs with
  | nil => rfl
  | cons e t ih =>
    have he : e.err = none := h e (by simp)
    have ht : ∀ x ∈ t, x.err = none := fun x hx => h x (by simp [hx])
    simp only [firstErr, List.findSome?_cons, he]
    exact ih ht

theorem firstErr_append_clean {a b : List Ev} (h : ∀ e ∈ a, e.err = none) : firstErr (a ++ b) = firstErr b := by
  induction a with
  | nil => rfl
  | cons e t ih =>
    have he : e.err = none := h e (by simp)
    have ht : ∀ x ∈ t, x.err = none := fun x hx => h x (by simp [hx])
    simp only [firstErr, List.cons_append, List.findSome?_cons, he]
    exact ih ht

/-- the value returned is the first error among the events -/
theorem Good.firstErr {evs : List Ev} {r : Option Nat} (h : Good evs r) : firstErr evs = r := by
  rcases h with ⟨h1, h2⟩ | ⟨a, e, k, h1, h2, h3, h4⟩
  · rw [h1]; exact firstErr_clean h2
  · subst h1; rw [firstErr_append_clean h2, h4]
    simp [GoSSE.Spec.HttpLog.firstErr, h3]

/-- nothing happens after the first error -/
theorem Good.stops {evs : List Ev} {r : Option Nat} (h : Good evs r) {a b : List Ev} {e : Ev}
    (hs : evs = a ++ e :: b) (he : e.err ≠ none) : b = [] ∧ r = e.err := by
  rcases h with ⟨_, h2⟩ | ⟨a', e', k, h1, h2, h3, h4⟩
  · exact absurd (h2 e (by simp [hs])) he
  · subst h1
    -- e is not in a' (clean), so it is e'
    rcases List.eq_nil_or_concat b with hb | ⟨b', x, hb⟩
    · subst hb
      have : a ++ [e] = a' ++ [e'] := hs.symm
      have h5 := List.append_inj' this rfl
      simp at h5
      refine ⟨rfl, ?_⟩
      rw [h4, h5.2, h3]
    · exfalso
      subst hb
      have : a' ++ [e'] = (a ++ e :: b') ++ [x] := by rw [hs]; simp
      have h5 := List.append_inj' this rfl
      have : e ∈ a' := by rw [h5.1]; simp
      exact he (h2 e this)

/-! ### single writer calls -/

theorem wWrite_err (sched : Sched) (lvl c : Nat) (p : Bytes) :
    (wWrite sched lvl c p).1.err = (wWrite sched lvl c p).2 := by
  unfold wWrite; cases sched c <;> rfl

theorem wFlush_err (sched : Sched) (lvl : Nat) (k : FlushKind) (c : Nat) :
    (wFlush sched lvl k c).1.err = (wFlush sched lvl k c).2 := by
  unfold wFlush; rfl

theorem wFlush_ev (sched : Sched) (lvl : Nat) (k : FlushKind) (c : Nat) :
    (wFlush sched lvl k c).1 = .flush lvl k (wFlush sched lvl k c).2 := by
  unfold wFlush; rfl

theorem wFlush_err_call (sched : Sched) (lvl : Nat) (k : FlushKind) (c j : Nat)
    (h : (wFlush sched lvl k c).2 = some j) : j = c ∧ k = .flushError ∧ sched c ≠ none := by
  unfold wFlush at h
  cases k <;> cases hs : sched c <;> simp_all

theorem wWrite_isWrite (sched : Sched) (lvl c : Nat) (p : Bytes) :
    ∃ a e, (wWrite sched lvl c p).1 = .write lvl a p e := by
  unfold wWrite; cases sched c <;> simp

/-! ### `writeAll` -/

theorem writeAll_cons_fail {sched : Sched} {lvl c : Nat} {p : Bytes} {k : Nat} (ps : List Bytes)
    (h : (wWrite sched lvl c p).2 = some k) :
    writeAll sched lvl c (p :: ps) = ⟨[(wWrite sched lvl c p).1], c + 1, some k⟩ := by
  simp [writeAll, h]

theorem writeAll_cons_ok {sched : Sched} {lvl c : Nat} {p : Bytes} (ps : List Bytes)
    (h : (wWrite sched lvl c p).2 = none) :
    writeAll sched lvl c (p :: ps) = ⟨(wWrite sched lvl c p).1 :: (writeAll sched lvl (c + 1) ps).evs,
      (writeAll sched lvl (c + 1) ps).calls, (writeAll sched lvl (c + 1) ps).err⟩ := by
  simp [writeAll, h]

theorem writeAll_good (sched : Sched) (lvl : Nat) (ws : List Bytes) (c : Nat) :
    Good (writeAll sched lvl c ws).evs (writeAll sched lvl c ws).err := by
  induction ws generalizing c with
  | nil => simp [writeAll, Good]
  | cons p ps ih =>
    have he := wWrite_err sched lvl c p
    cases h : (wWrite sched lvl c p).2 with
    | some k =>
      rw [writeAll_cons_fail ps h]
      right
      exact ⟨[], (wWrite sched lvl c p).1, k, by simp, by simp, by rw [he, h], rfl⟩
    | none =>
      rw [writeAll_cons_ok ps h]
      have : Good [(wWrite sched lvl c p).1] none := by
        left; refine ⟨rfl, ?_⟩; intro e hx; simp at hx; rw [hx, he, h]
      exact Good.append this (ih (c + 1))

theorem writeAll_phases (sched : Sched) (res : Res) (ws : List Bytes) (c : Nat) :
    phases res .upgraded (writeAll sched res.lvl c ws).evs = some .upgraded := by
  induction ws generalizing c with
  | nil => simp [writeAll, phases]
  | cons p ps ih =>
    obtain ⟨a, e, hw⟩ := wWrite_isWrite sched res.lvl c p
    cases h : (wWrite sched res.lvl c p).2 with
    | some k => rw [writeAll_cons_fail ps h]; simp [phases, hw, stepPhase]
    | none =>
      rw [writeAll_cons_ok ps h]
      simp only [phases, List.foldlM_cons, hw, stepPhase, if_true]
      exact ih (c + 1)

theorem writeAll_noFlush (sched : Sched) (lvl : Nat) (ws : List Bytes) (c : Nat) :
    ∀ e ∈ (writeAll sched lvl c ws).evs, e.isWrite = true := by
  induction ws generalizing c with
  | nil => simp [writeAll]
  | cons p ps ih =>
    obtain ⟨a, e, hw⟩ := wWrite_isWrite sched lvl c p
    cases h : (wWrite sched lvl c p).2 with
    | some k => rw [writeAll_cons_fail ps h]; simp [hw, Ev.isWrite]
    | none =>
      rw [writeAll_cons_ok ps h]
      simp only [List.mem_cons, forall_eq_or_imp]
      exact ⟨by simp [hw, Ev.isWrite], ih (c + 1)⟩

/-- what the writer accepted of a write sequence: everything, or — when call `c + j` failed —
the writes before it and the first `n` bytes of write `j`, `n` as scheduled -/
theorem writeAll_body (sched : Sched) (lvl : Nat) (ws : List Bytes) (c : Nat) :
    ((writeAll sched lvl c ws).err = none ∧ bodyOf (writeAll sched lvl c ws).evs = ws.flatten) ∨
    (∃ j p n, ws[j]? = some p ∧ sched (c + j) = some n ∧ (writeAll sched lvl c ws).err = some (c + j) ∧
      bodyOf (writeAll sched lvl c ws).evs = (ws.take j).flatten ++ p.take n) := by
  induction ws generalizing c with
  | nil => simp [writeAll, bodyOf]
  | cons p ps ih =>
    cases hs : sched c with
    | some n =>
      have hw : wWrite sched lvl c p = (.write lvl (p.take n) p (some c), some c) := by simp [wWrite, hs]
      rw [writeAll_cons_fail ps (by rw [hw])]
      right
      refine ⟨0, p, n, by simp, by simpa using hs, ?_, ?_⟩ <;> simp [hw, bodyOf, Ev.body]
    | none =>
      have hw : wWrite sched lvl c p = (.write lvl p p none, none) := by simp [wWrite, hs]
      rw [writeAll_cons_ok ps (by rw [hw])]
      simp only [hw]
      rcases ih (c + 1) with ⟨h1, h2⟩ | ⟨j, q, n, h1, h2, h3, h4⟩
      · left
        refine ⟨h1, ?_⟩
        simp only [bodyOf, List.flatMap_cons, Ev.body, List.flatten_cons] at *
        rw [h2]
      · right
        refine ⟨j + 1, q, n, by simpa using h1, by rw [← h2]; congr 1; omega, by rw [h3]; congr 1; omega, ?_⟩
        simp only [bodyOf, List.flatMap_cons, Ev.body, List.take_succ_cons, List.flatten_cons, List.append_assoc] at *
        rw [h4]

theorem take_flatten_prefix (ws : List Bytes) (j n : Nat) (p : Bytes) (h : ws[j]? = some p) :
    (ws.take j).flatten ++ p.take n <+: ws.flatten := by
  induction ws generalizing j with
  | nil => simp at h
  | cons w t ih =>
    cases j with
    | zero =>
      simp at h; subst h
      simp only [List.take_zero, List.flatten_nil, List.nil_append, List.flatten_cons]
      exact (List.take_prefix n w).trans (List.prefix_append _ _)
    | succ j =>
      simp at h
      simp only [List.take_succ_cons, List.flatten_cons, List.append_assoc]
      exact (List.prefix_append_right_inj w).mpr (ih j h)

/-! ### `doUpgrade`, `Send`, `Flush` -/

/-- the protocol state a session is in -/
def phaseOf (s : Session) : Phase := if s.didUpgrade then .upgraded else .fresh

/-- everything `doUpgrade` can do -/
theorem doUpgrade_cases (sched : Sched) (s : Session) (c : Nat) :
    (s.didUpgrade = true ∧ doUpgrade sched s c = ⟨[], s, c, none⟩) ∨
    (s.didUpgrade = false ∧ ∃ e,
      (wFlush sched s.res.lvl s.res.kind c).2 = e ∧
      doUpgrade sched s c = ⟨[upgradeHeader s.res, .flush s.res.lvl s.res.kind e],
        { s with didUpgrade := e.isNone }, c + 1, e⟩) := by
  unfold doUpgrade
  cases hd : s.didUpgrade with
  | true => simp
  | false =>
    right
    refine ⟨rfl, _, rfl, ?_⟩
    simp only [Bool.false_eq_true, if_false, wFlush_ev]
    cases h : (wFlush sched s.res.lvl s.res.kind c).2 with
    | some k => cases s; simp_all
    | none => simp

theorem phases_upgrade_pair (res : Res) (e : Option Nat) :
    phases res .fresh [upgradeHeader res, .flush res.lvl res.kind e] =
      some (if e.isNone then .upgraded else .fresh) := by
  simp [phases, upgradeHeader, stepPhase]

/-- facts about one `Send`/`Flush` call, from any state, under any schedule -/
structure StepFacts (sched : Sched) (s : Session) (c : Nat) (op : Op) : Prop where
  res : (step sched s c op).s.res = s.res
  phases : phases s.res (phaseOf s) (step sched s c op).evs = some (phaseOf (step sched s c op).s)
  good : Good (step sched s c op).evs (step sched s c op).err
  mono : s.didUpgrade = true → (step sched s c op).s.didUpgrade = true

theorem phases_append (res : Res) (p : Phase) (a b : List Ev) :
    phases res p (a ++ b) = (phases res p a).bind fun q => phases res q b := by
  simp [phases, List.foldlM_append]

theorem send_facts (sched : Sched) (s : Session) (c : Nat) (m : Msg) : StepFacts sched s c (.send m) := by
  rcases doUpgrade_cases sched s c with ⟨hd, hu⟩ | ⟨hd, e, he, hu⟩
  · have hev : (step sched s c (.send m)).evs = (writeAll sched s.res.lvl c (encodeWrites m)).evs := by
      simp [step, send, hu]
    have hs : (step sched s c (.send m)).s = s := by simp [step, send, hu]
    have herr : (step sched s c (.send m)).err = (writeAll sched s.res.lvl c (encodeWrites m)).err := by
      simp [step, send, hu]
    refine ⟨by rw [hs], ?_, ?_, by rw [hs]; exact id⟩
    · rw [hev, hs]; simp only [phaseOf, hd, if_true]; exact writeAll_phases ..
    · rw [hev, herr]; exact writeAll_good ..
  · cases e with
    | some k =>
      have hev : (step sched s c (.send m)).evs = [upgradeHeader s.res, .flush s.res.lvl s.res.kind (some k)] := by
        simp [step, send, hu]
      have hs : (step sched s c (.send m)).s = { s with didUpgrade := false } := by simp [step, send, hu]
      have herr : (step sched s c (.send m)).err = some k := by simp [step, send, hu]
      refine ⟨by rw [hs], ?_, ?_, by rw [hd]; intro h; cases h⟩
      · rw [hev, hs]; simp [phaseOf, hd, phases_upgrade_pair]
      · rw [hev, herr]; right
        exact ⟨[upgradeHeader s.res], _, k, rfl, by simp [upgradeHeader, Ev.err], rfl, rfl⟩
    | none =>
      have hev : (step sched s c (.send m)).evs = [upgradeHeader s.res, .flush s.res.lvl s.res.kind none]
          ++ (writeAll sched s.res.lvl (c + 1) (encodeWrites m)).evs := by
        simp [step, send, hu]
      have hs : (step sched s c (.send m)).s = { s with didUpgrade := true } := by simp [step, send, hu]
      have herr : (step sched s c (.send m)).err = (writeAll sched s.res.lvl (c + 1) (encodeWrites m)).err := by
        simp [step, send, hu]
      refine ⟨by rw [hs], ?_, ?_, by rw [hs]; intro _; rfl⟩
      · rw [hev, hs, phases_append]
        simp only [phaseOf, hd, Bool.false_eq_true, if_false, phases_upgrade_pair, Option.isNone_none, if_true,
          Option.bind_some]
        exact writeAll_phases ..
      · rw [hev, herr]
        refine Good.append ?_ (writeAll_good ..)
        left; refine ⟨rfl, ?_⟩; intro e he; simp at he; rcases he with h | h <;> subst h <;> rfl

theorem flush_facts (sched : Sched) (s : Session) (c : Nat) : StepFacts sched s c .flush := by
  rcases doUpgrade_cases sched s c with ⟨hd, hu⟩ | ⟨hd, e, he, hu⟩
  · have hall : step sched s c .flush = ⟨[(wFlush sched s.res.lvl s.res.kind c).1], s, c + 1,
        (wFlush sched s.res.lvl s.res.kind c).2⟩ := by
      simp [step, flush, hu]
    refine ⟨by rw [hall], ?_, ?_, by rw [hall]; exact id⟩
    · rw [hall]; simp [phaseOf, hd, phases, wFlush_ev, stepPhase]
    · rw [hall]; simp only
      cases h : (wFlush sched s.res.lvl s.res.kind c).2 with
      | none => left; refine ⟨rfl, ?_⟩; intro x hx; simp at hx; rw [hx, wFlush_err, h]
      | some k => right; exact ⟨[], _, k, rfl, by simp, by rw [wFlush_err, h], rfl⟩
  · cases e with
    | some k =>
      have hall : step sched s c .flush = ⟨[upgradeHeader s.res, .flush s.res.lvl s.res.kind (some k)],
          { s with didUpgrade := false }, c + 1, some k⟩ := by
        simp [step, flush, hu]
      refine ⟨by rw [hall], ?_, ?_, by rw [hd]; intro h; cases h⟩
      · rw [hall]; simp [phaseOf, hd, phases_upgrade_pair]
      · rw [hall]; right
        exact ⟨[upgradeHeader s.res], _, k, rfl, by simp [upgradeHeader, Ev.err], rfl, rfl⟩
    | none =>
      have hall : step sched s c .flush = ⟨[upgradeHeader s.res, .flush s.res.lvl s.res.kind none],
          { s with didUpgrade := true }, c + 1, none⟩ := by
        simp [step, flush, hu, hd]
      refine ⟨by rw [hall], ?_, ?_, by rw [hall]; intro _; rfl⟩
      · rw [hall]; simp [phaseOf, hd, phases_upgrade_pair]
      · rw [hall]; left; refine ⟨rfl, ?_⟩; intro e he; simp at he; rcases he with h | h <;> subst h <;> rfl

theorem step_facts (sched : Sched) (s : Session) (c : Nat) (op : Op) : StepFacts sched s c op := by
  cases op with
  | send m => exact send_facts sched s c m
  | flush => exact flush_facts sched s c

/-! ### runs -/

/-- a property of single calls holds for every entry of a run -/
theorem forall_entries (sched : Sched) (P : Entry → Prop)
    (h : ∀ s c op, P ⟨op, (step sched s c op).evs, (step sched s c op).err⟩)
    (s : Session) (c : Nat) (ops : List Op) : ∀ e ∈ (runOps sched s c ops).obs, P e := by
  induction ops generalizing s c with
  | nil => simp [runOps]
  | cons op ops ih =>
    simp only [runOps, List.mem_cons, forall_eq_or_imp]
    exact ⟨h s c op, ih _ _⟩

theorem run_res (sched : Sched) (s : Session) (c : Nat) (ops : List Op) : (runOps sched s c ops).s.res = s.res := by
  induction ops generalizing s c with
  | nil => rfl
  | cons op ops ih => simp only [runOps]; rw [ih, (step_facts sched s c op).res]

theorem run_ops (sched : Sched) (s : Session) (c : Nat) (ops : List Op) :
    (runOps sched s c ops).obs.map (·.op) = ops := by
  induction ops generalizing s c with
  | nil => rfl
  | cons op ops ih => simp only [runOps, List.map_cons]; rw [ih]

theorem run_phases (sched : Sched) (s : Session) (c : Nat) (ops : List Op) :
    phases s.res (phaseOf s) (trace (runOps sched s c ops).obs) = some (phaseOf (runOps sched s c ops).s) := by
  induction ops generalizing s c with
  | nil => simp [runOps, trace, phases]
  | cons op ops ih =>
    have f := step_facts sched s c op
    simp only [runOps, trace, List.flatMap_cons]
    rw [phases_append, f.phases, Option.bind_some]
    have := ih (step sched s c op).s (step sched s c op).calls
    rw [f.res] at this
    exact this

theorem trace_append (a b : List Entry) : trace (a ++ b) = trace a ++ trace b := by
  simp [trace]

theorem bodyOf_append (a b : List Ev) : bodyOf (a ++ b) = bodyOf a ++ bodyOf b := by
  simp [bodyOf]

theorem bodyOf_trace (obs : List Entry) : bodyOf (trace obs) = (obs.map fun e => bodyOf e.evs).flatten := by
  induction obs with
  | nil => rfl
  | cons e t ih => simp only [trace, List.flatMap_cons, List.map_cons, List.flatten_cons] at *; rw [bodyOf_append, ih]

/-! ### what the protocol automaton means -/

theorem phases_cons (res : Res) (p : Phase) (e : Ev) (t : List Ev) :
    phases res p (e :: t) = (stepPhase res p e).bind fun q => phases res q t := by
  simp [phases, List.foldlM_cons]

/-- a body write is only possible in phase `upgraded` -/
theorem write_needs_upgraded (res : Res) (p : Phase) (e : Ev) (q : Phase)
    (h : stepPhase res p e = some q) (hw : e.isWrite = true) : p = .upgraded := by
  cases p <;> cases e <;> simp_all [stepPhase, Ev.isWrite]

theorem headerSet_needs_fresh (res : Res) (p : Phase) (e : Ev) (q : Phase)
    (h : stepPhase res p e = some q) (hw : e.isHeaderSet = true) :
    p = .fresh ∧ q = .headerSet ∧ e = upgradeHeader res := by
  cases p <;> cases e <;> simp_all [stepPhase, Ev.isHeaderSet, upgradeHeader]
  all_goals (split at h <;> simp_all)

/-- how phase `upgraded` can have been reached -/
theorem reach_upgraded (res : Res) (pre : List Ev) (p : Phase) (h : phases res p pre = some .upgraded) :
    p = .upgraded ∨
    (p = .headerSet ∧ ∃ c, pre = .flush res.lvl res.kind none :: c) ∨
    ∃ a c, pre = a ++ [upgradeHeader res, .flush res.lvl res.kind none] ++ c := by
  induction pre generalizing p with
  | nil => simp [phases] at h; exact Or.inl h
  | cons e t ih =>
    rw [phases_cons] at h
    cases hq : stepPhase res p e with
    | none => simp [hq] at h
    | some q =>
      rw [hq, Option.bind_some] at h
      rcases ih q h with h1 | ⟨h1, c, h2⟩ | ⟨a, c, h2⟩
      · -- the step reached `upgraded`
        subst h1
        cases p with
        | upgraded => exact Or.inl rfl
        | fresh => cases e <;> simp [stepPhase] at hq
        | headerSet =>
          right; left
          refine ⟨rfl, t, ?_⟩
          cases e <;> simp [stepPhase] at hq
          rename_i l k err
          obtain ⟨⟨h3, h4⟩, h5⟩ := hq
          cases err <;> simp_all
      · -- q = headerSet: the step was the header assignment
        subst h1
        right; right
        refine ⟨[], c, ?_⟩
        cases p <;> cases e <;> simp [stepPhase] at hq
        · rename_i l k v
          obtain ⟨h3, h4, h5⟩ := hq
          simp [h2, upgradeHeader, h3, h4, h5]
        · rename_i l k err
          cases err <;> simp at hq
      · right; right
        exact ⟨e :: a, c, by simp [h2]⟩

/-- once `upgraded`, always `upgraded`, and the header is never assigned again -/
theorem upgraded_stays (res : Res) (evs : List Ev) (q : Phase) (h : phases res .upgraded evs = some q) :
    q = .upgraded ∧ ∀ e ∈ evs, e.isHeaderSet = false := by
  induction evs with
  | nil => simp [phases] at h; exact ⟨h.symm, by simp⟩
  | cons e t ih =>
    rw [phases_cons] at h
    cases hq : stepPhase res .upgraded e with
    | none => simp [hq] at h
    | some p =>
      rw [hq, Option.bind_some] at h
      have hp : p = .upgraded ∧ e.isHeaderSet = false := by
        cases e <;> simp [stepPhase] at hq <;> simp [Ev.isHeaderSet] <;> (try split at hq) <;> simp_all
      rw [hp.1] at h
      have := ih h
      exact ⟨this.1, by intro x hx; rcases List.mem_cons.mp hx with h1 | h1; (rw [h1]; exact hp.2); exact this.2 x h1⟩

end GoSSE.Proofs.Session
