import GoSSE.GoRT
/-!
# Go maps as association lists (`GoRT.mapGet / mapSet / mapDel / mapPut / mapDelIn / mapInner`): lookup laws

For any key type with a lawful `==`. None of the laws needs the "one entry per key" invariant: `mapDel` removes every
entry of the key, `mapSet` rewrites every entry of the key, `mapGet` reads the first.
-/
namespace GoSSE.MapL
open GoSSE GoSSE.GoRT

set_option linter.unusedSectionVars false
variable {κ ν : Type} [BEq κ] [LawfulBEq κ] [DecidableEq κ]

theorem get_nil (k : κ) : mapGet ([] : List (κ × ν)) k = none := rfl

theorem get_cons (a : κ) (b : ν) (m : List (κ × ν)) (k : κ) :
    mapGet ((a, b) :: m) k = if a = k then some b else mapGet m k := by
  by_cases h : a = k
  · simp [mapGet, List.find?, h]
  · have : (a == k) = false := by simpa using h
    simp [mapGet, List.find?, h, this]

theorem set_cons (a : κ) (b : ν) (m : List (κ × ν)) (k : κ) (v : ν) :
    mapSet ((a, b) :: m) k v = (if a = k then (k, v) else (a, b)) :: mapSet m k v := by
  by_cases h : a = k <;> simp [mapSet, h]

theorem del_cons (a : κ) (b : ν) (m : List (κ × ν)) (k : κ) :
    mapDel ((a, b) :: m) k = if a = k then mapDel m k else (a, b) :: mapDel m k := by
  by_cases h : a = k
  · simp [mapDel, List.filter, h]
  · have : (a == k) = false := by simpa using h
    simp [mapDel, List.filter, h, this]

theorem get_set_self (m : List (κ × ν)) (k : κ) (v : ν) (h : (mapGet m k).isSome) :
    mapGet (mapSet m k v) k = some v := by
  induction m with
  | nil => simp [get_nil] at h
  | cons e m ih =>
    obtain ⟨a, b⟩ := e
    rw [set_cons, get_cons] at *
    by_cases hak : a = k
    · simp [hak]
    · simp only [hak, if_false] at h ⊢
      exact ih h

theorem get_set_other (m : List (κ × ν)) (k k' : κ) (v : ν) (h : k' ≠ k) :
    mapGet (mapSet m k v) k' = mapGet m k' := by
  induction m with
  | nil => rfl
  | cons e m ih =>
    obtain ⟨a, b⟩ := e
    rw [set_cons, get_cons]
    by_cases hak : a = k
    · have : ¬ k = k' := fun e => h e.symm
      have h2 : ¬ a = k' := by rw [hak]; exact this
      simp [hak, this, get_cons, ih]
    · simp only [hak, if_false, get_cons, ih]

theorem get_del_self (m : List (κ × ν)) (k : κ) : mapGet (mapDel m k) k = none := by
  induction m with
  | nil => rfl
  | cons e m ih =>
    obtain ⟨a, b⟩ := e
    rw [del_cons]
    by_cases hak : a = k
    · simp [hak, ih]
    · simp [hak, get_cons, ih]

theorem get_del_other (m : List (κ × ν)) (k k' : κ) (h : k' ≠ k) :
    mapGet (mapDel m k) k' = mapGet m k' := by
  induction m with
  | nil => rfl
  | cons e m ih =>
    obtain ⟨a, b⟩ := e
    rw [del_cons, get_cons]
    by_cases hak : a = k
    · have : ¬ a = k' := by rw [hak]; exact fun e => h e.symm
      simp [hak, ih]
      intro e; exact absurd e.symm h
    · simp [hak, get_cons, ih]

theorem get_append_single (m : List (κ × ν)) (k k' : κ) (v : ν) :
    mapGet (m ++ [(k, v)]) k' = match mapGet m k' with
      | some x => some x
      | none => if k = k' then some v else none := by
  induction m with
  | nil => simp [get_cons, get_nil]
  | cons e m ih =>
    obtain ⟨a, b⟩ := e
    rw [List.cons_append, get_cons, get_cons]
    by_cases hak : a = k'
    · simp [hak]
    · simp [hak, ih]

theorem get_put_self (m : List (κ × ν)) (k : κ) (v : ν) : mapGet (mapPut m k v) k = some v := by
  unfold mapPut
  by_cases h : (mapGet m k).isSome
  · simp [h, get_set_self m k v h]
  · simp only [h, Bool.false_eq_true, if_false, get_append_single]
    have : mapGet m k = none := by simpa using h
    simp [this]

theorem get_put_other (m : List (κ × ν)) (k k' : κ) (v : ν) (h : k' ≠ k) :
    mapGet (mapPut m k v) k' = mapGet m k' := by
  unfold mapPut
  by_cases hs : (mapGet m k).isSome
  · simp [hs, get_set_other m k k' v h]
  · simp only [hs, Bool.false_eq_true, if_false, get_append_single]
    have : ¬ k = k' := fun e => h e.symm
    cases mapGet m k' <;> simp [this]

theorem get_none_key (m : List (κ × ν)) (k : κ) (h : mapGet m k = none) : ∀ e ∈ m, e.1 ≠ k := by
  induction m with
  | nil => intro e he; cases he
  | cons x m ih =>
    obtain ⟨a, b⟩ := x
    rw [get_cons] at h
    by_cases hak : a = k
    · simp [hak] at h
    · simp only [hak, if_false] at h
      intro e he
      cases he with
      | head => exact hak
      | tail _ hm => exact ih h e hm

theorem set_absent (m : List (κ × ν)) (k : κ) (v : ν) (h : mapGet m k = none) : mapSet m k v = m := by
  unfold mapSet
  have hk := get_none_key m k h
  calc m.map (fun e => if (e.1 == k) = true then (k, v) else e) = m.map id :=
        List.map_congr_left (fun e he => by simp [hk e he])
    _ = m := by simp

theorem set_set (m : List (κ × ν)) (k : κ) (a b : ν) : mapSet (mapSet m k a) k b = mapSet m k b := by
  unfold mapSet
  rw [List.map_map]
  apply List.map_congr_left
  intro e _
  by_cases h : e.1 = k <;> simp [h]

theorem set_append (m m' : List (κ × ν)) (k : κ) (v : ν) : mapSet (m ++ m') k v = mapSet m k v ++ mapSet m' k v := by
  simp [mapSet]

theorem put_of_some (m : List (κ × ν)) (k : κ) (v : ν) (h : (mapGet m k).isSome) : mapPut m k v = mapSet m k v := by
  unfold mapPut; simp [h]

theorem put_of_none (m : List (κ × ν)) (k : κ) (v : ν) (h : mapGet m k = none) : mapPut m k v = m ++ [(k, v)] := by
  unfold mapPut; simp [h]

/-- a second `m[k] = b` replaces what the first put there -/
theorem put_put_self (m : List (κ × ν)) (k : κ) (a b : ν) : mapPut (mapPut m k a) k b = mapPut m k b := by
  have hs : (mapGet (mapPut m k a) k).isSome := by simp [get_put_self]
  rw [put_of_some _ k b hs]
  by_cases h : (mapGet m k).isSome
  · rw [put_of_some m k a h, put_of_some m k b h, set_set]
  · have hn : mapGet m k = none := by simpa using h
    rw [put_of_none m k a hn, put_of_none m k b hn, set_append, set_absent m k b hn]
    simp [mapSet]

/-- the inner map of a map of maps as a reader sees it: nil (no entry) reads as empty -/
def inner {ι : Type} (m : List (κ × List (ι × ν))) (k : κ) : List (ι × ν) := (mapGet m k).getD []

theorem inner_put_self {ι : Type} (m : List (κ × List (ι × ν))) (k : κ) (x : List (ι × ν)) :
    inner (mapPut m k x) k = x := by simp [inner, get_put_self]

theorem inner_put_other {ι : Type} (m : List (κ × List (ι × ν))) (k k' : κ) (x : List (ι × ν)) (h : k' ≠ k) :
    inner (mapPut m k x) k' = inner m k' := by simp [inner, get_put_other m k k' x h]

theorem inner_del_self {ι : Type} (m : List (κ × List (ι × ν))) (k : κ) : inner (mapDel m k) k = [] := by
  simp [inner, get_del_self]

theorem inner_del_other {ι : Type} (m : List (κ × List (ι × ν))) (k k' : κ) (h : k' ≠ k) :
    inner (mapDel m k) k' = inner m k' := by simp [inner, get_del_other m k k' h]

theorem inner_delIn_self {ι : Type} [BEq ι] (m : List (κ × List (ι × ν))) (k : κ) (i : ι) :
    inner (mapDelIn m k i) k = mapDel (inner m k) i := by
  unfold mapDelIn inner
  cases h : mapGet m k with
  | none => simp [h, mapDel]
  | some x =>
    have hs : (mapGet m k).isSome := by simp [h]
    simp [get_set_self m k _ hs]

theorem inner_delIn_other {ι : Type} [BEq ι] (m : List (κ × List (ι × ν))) (k k' : κ) (i : ι) (h : k' ≠ k) :
    inner (mapDelIn m k i) k' = inner m k' := by
  unfold mapDelIn inner
  cases hk : mapGet m k with
  | none => rfl
  | some x => simp [get_set_other m k k' _ h]

end GoSSE.MapL
