import GoSSE.Proofs.JoeMore
/-!
Resuming with Last-Event-ID (C04): runs of Joe with a replayer that conforms to `ReplaySpec` —
Put stores (possibly evicting oldest entries), Replay sends exactly the stored publications after
the presented one that match the subscription's topics.
-/
namespace GoSSE.Proofs.Joe
open GoSSE.Model.Joe

/-- the stored publications after the one with the presented ID; nothing if it is absent or newest -/
def afterID (store : List PubId) (k : PubId) : List PubId := (store.dropWhile (· != k)).drop 1

/-- what a conforming replayer sends to subscription `i` given what it holds -/
def replaySends (c : Cfg) (store : List PubId) (i : SubId) : List PubId :=
  match c.subLast i with
  | none => []
  | some k => (afterID store k).filter (matchesP c i)

/-- labels a conforming, non-failing replayer and non-failing replay Sends can produce -/
def Conforming (c : Cfg) (s : St) : Label → Prop
  | .subAccept i rc o => o = .ok ∧ pubsOf rc = replaySends c s.store i
  | .pubAccept _ o => ∃ n, o = .ok n
  | _ => True

inductive ReachableC (c : Cfg) : St → Prop
  | init {s} : IsInit s → s.replayer = true → ReachableC c s
  | step {s s' l} : ReachableC c s → Conforming c s l → step c s l = some s' → ReachableC c s'

theorem ReachableC.reachable {c : Cfg} {s : St} (h : ReachableC c s) : Reachable c s := by
  induction h with
  | init hi _ => exact Reachable.init hi
  | step _ _ hs ih => exact Reachable.step ih hs

/-- publications replayed to a subscription (by the replayer, before it was registered) -/
def replayedPubs (st : SubSt) : List PubId := pubsOf (st.calls.take st.replayed)

theorem pubsOf_calls (st : SubSt) : pubsOf st.calls = replayedPubs st ++ livePubs st := by
  simp only [replayedPubs, livePubs, ← pubsOf_append, List.take_append_drop]

structure RInv (c : Cfg) (s : St) : Prop where
  rep : s.replayer = true
  store : ∃ n, n ≤ s.log.length ∧ s.store = s.log.drop n
  storeAt : ∀ i a, (s.subs i).regAt = some a → ∃ n, n ≤ a ∧ (s.subs i).storeAt = (s.log.take a).drop n
  replayed : ∀ i a, (s.subs i).regAt = some a → replayedPubs (s.subs i) = replaySends c (s.subs i).storeAt i


def RGhostEq (a b : SubSt) : Prop :=
  a.regAt = b.regAt ∧ a.storeAt = b.storeAt ∧ replayedPubs a = replayedPubs b

theorem rGhostEq_refl (a : SubSt) : RGhostEq a a := ⟨rfl, rfl, rfl⟩

theorem rinv_frame {c : Cfg} {s s' : St} (h : RInv c s) (hr : s'.replayer = s.replayer) (hst : s'.store = s.store)
    (hlog : s'.log = s.log) (hg : ∀ k, RGhostEq (s'.subs k) (s.subs k)) : RInv c s' := by
  refine ⟨by rw [hr]; exact h.rep, by rw [hst, hlog]; exact h.store, ?_, ?_⟩
  · intro i a ha
    obtain ⟨e1, e2, _⟩ := hg i
    rw [e1] at ha; rw [e2, hlog]; exact h.storeAt i a ha
  · intro i a ha
    obtain ⟨e1, e2, e3⟩ := hg i
    rw [e1] at ha; rw [e2, e3]; exact h.replayed i a ha

theorem rinv_setSub {c : Cfg} {s : St} (h : RInv c s) (k : SubId) (st : SubSt) (hg : RGhostEq st (s.subs k)) :
    RInv c (setSub s k st) := by
  refine rinv_frame h rfl rfl rfl (fun j => ?_)
  by_cases hjk : j = k
  · subst hjk; simpa [setSub] using hg
  · simp only [setSub, upd_other _ _ _ _ hjk]; exact rGhostEq_refl _

theorem drop_min {α} (l : List α) (k : Nat) : l.drop k = l.drop (min k l.length) := by
  by_cases h : k ≤ l.length
  · rw [Nat.min_eq_left h]
  · have : l.length ≤ k := by omega
    rw [Nat.min_eq_right this, List.drop_of_length_le this, List.drop_of_length_le (Nat.le_refl _)]

theorem removeSubscriber_rghost {s : St} (hi : Inv s) (k j : SubId) :
    RGhostEq ((removeSubscriber s k).subs j) (s.subs j) := by
  by_cases hk : k ∈ s.subscribers
  · rw [remove_mem k hk (hi.reg k hk).1]
    by_cases hjk : j = k
    · subst hjk; simp only [upd_same]; exact ⟨rfl, rfl, rfl⟩
    · simp only [upd_other _ _ _ _ hjk]; exact rGhostEq_refl _
  · rw [remove_not_mem k hk]; exact rGhostEq_refl _

theorem removeSubscriber_store {s : St} (hi : Inv s) (k : SubId) :
    (removeSubscriber s k).store = s.store ∧ (removeSubscriber s k).replayer = s.replayer := by
  by_cases hk : k ∈ s.subscribers
  · rw [remove_mem k hk (hi.reg k hk).1]; exact ⟨rfl, rfl⟩
  · rw [remove_not_mem k hk]; exact ⟨rfl, rfl⟩

theorem rinv_remove {c : Cfg} {s : St} (hi : Inv s) (h : RInv c s) (k : SubId) : RInv c (removeSubscriber s k) :=
  rinv_frame h (removeSubscriber_store hi k).2 (removeSubscriber_store hi k).1 (removeSubscriber_log s k)
    (fun j => removeSubscriber_rghost hi k j)

theorem rinv_closeAll {c : Cfg} {s : St} (hi : Inv s) (h : RInv c s) (hj : s.joe = .idle) (l : List SubId) :
    RInv c (closeAll l s) := by
  induction l generalizing s with
  | nil => exact h
  | cons k ks ih =>
    obtain ⟨h1, hj1, _, _⟩ := inv_remove_idle hi hj k
    exact ih h1 (rinv_remove hi h k) hj1

theorem step_rinv {c : Cfg} {s s' : St} (hi : Inv s) (hd : DInv c s) (h : RInv c s) (l : Label)
    (hc : Conforming c s l) (hs : step c s l = some s') : RInv c s' := by
  cases l with
  | subAccept k rc o =>
    obtain ⟨ho, hrc⟩ := hc
    subst ho
    simp only [step] at hs
    split at hs
    · rename_i hg
      obtain ⟨hcalls, hrep, hreg, hend⟩ := hd.fresh k (Or.inr hg.1)
      simp only [h.rep, if_true] at hs
      simp only [Option.some.injEq] at hs; subst hs
      obtain ⟨n, hn, hstore⟩ := h.store
      refine ⟨h.rep, ⟨n, hn, hstore⟩, ?_, ?_⟩
      · intro i a ha
        by_cases hik : i = k
        · subst hik
          simp only [setSub, upd_same, Option.some.injEq] at ha ⊢
          subst ha
          exact ⟨n, hn, by rw [List.take_length]; exact hstore⟩
        · simp only [setSub, upd_other _ _ _ _ hik] at ha ⊢; exact h.storeAt i a ha
      · intro i a ha
        by_cases hik : i = k
        · subst hik
          simp only [setSub, upd_same, replayedPubs, hcalls, List.nil_append, List.take_length]
          exact hrc
        · simp only [setSub, upd_other _ _ _ _ hik] at ha ⊢; exact h.replayed i a ha
    · simp at hs
  | pubAccept p o =>
    obtain ⟨n', ho⟩ := hc
    subst ho
    simp only [step] at hs
    split at hs
    · split at hs
      · simp at hs
      · simp only [Option.some.injEq] at hs; subst hs
        obtain ⟨n, hn, hstore⟩ := h.store
        refine ⟨by simp [h.rep], ?_, ?_, h.replayed⟩
        · refine ⟨min (n + n') (s.log.length + 1), by simp; omega, ?_⟩
          simp only [h.rep, if_true, setPub]
          rw [hstore, ← List.drop_append_of_le_length hn, List.drop_drop]
          have := drop_min (s.log ++ [p]) (n + n')
          simpa [Nat.add_comm] using this
        · intro i a ha
          obtain ⟨m, hm, hsa⟩ := h.storeAt i a ha
          obtain ⟨hale, _⟩ := hd.bounds i a ha
          refine ⟨m, hm, ?_⟩
          show (s.subs i).storeAt = ((s.log ++ [p]).take a).drop m
          rw [List.take_append_of_le_length hale]; exact hsa
    · simp at hs
  | fanStep k a b =>
    simp only [step] at hs
    split at hs
    · rename_i p rest hj
      split at hs
      · rename_i hmem
        have hmem' : k ∈ rest := by simpa using hmem
        have hkm : k ∈ s.subscribers := (hi.fan p rest hj).2 k hmem'
        have hnf : ∀ p' j' rest', s.joe ≠ .failed p' j' rest' := by simp [hj]
        have hcl := (hi.reg k hkm).1
        have hbuf : (s.subs k).ch.buf = none := by
          rcases (hi.reg k hkm).2 with hb | ⟨p', rest', hf⟩
          · exact hb
          · exact absurd hf (hnf p' k rest')
        have hlen := hd.lenOK k
        have hgh : ∀ extra : List Call, replayedPubs { s.subs k with calls := (s.subs k).calls ++ extra } = replayedPubs (s.subs k) := by
          intro extra
          simp only [replayedPubs]
          rw [List.take_append_of_le_length hlen]
        split at hs
        · simp only [Option.some.injEq] at hs; subst hs
          have h1 := rinv_setSub h k { s.subs k with calls := (s.subs k).calls ++ [Call.send p a] ++ (if a then [Call.flush b] else []) }
            ⟨rfl, rfl, by rw [List.append_assoc]; exact hgh _⟩
          exact rinv_frame h1 rfl rfl rfl (fun _ => rGhostEq_refl _)
        · simp only [Option.some.injEq] at hs
          rw [sendChan_ok _ _ _ (by simpa [setSub] using hcl) (by simpa [setSub] using hbuf)] at hs
          simp only [bad, setSub, hj] at hs
          simp only [upd_same] at hs
          subst hs
          refine rinv_frame h rfl rfl rfl (fun j => ?_)
          by_cases hjk : j = k
          · subst hjk
            refine ⟨by simp [upd], by simp [upd], ?_⟩
            have := hgh ([Call.send p a] ++ (if a then [Call.flush b] else []))
            simp only [replayedPubs, ← List.append_assoc] at this
            simpa [replayedPubs, upd] using this
          · have e : ∀ (x y z : SubSt), upd (upd (upd s.subs k x) k y) k z j = s.subs j := by
              intro x y z; simp [upd, hjk]
            show RGhostEq (upd (upd (upd s.subs k _) k _) k _ j) (s.subs j)
            rw [e]; exact rGhostEq_refl _
      · simp at hs
    · simp at hs
  | subCall k =>
    simp only [step] at hs; split at hs <;> simp at hs; subst hs
    exact rinv_setSub h k _ ⟨rfl, rfl, rfl⟩
  | subClosedEarly k =>
    simp only [step] at hs; split at hs <;> simp at hs; subst hs
    exact rinv_setSub h k _ ⟨rfl, rfl, rfl⟩
  | subSeeCancel k =>
    simp only [step] at hs; split at hs <;> simp at hs; subst hs
    exact rinv_setSub h k _ ⟨rfl, rfl, rfl⟩
  | subRecv k =>
    simp only [step] at hs
    split at hs
    · split at hs
      · simp only [Option.some.injEq] at hs; subst hs
        exact rinv_setSub h k _ ⟨rfl, rfl, rfl⟩
      · split at hs
        · simp only [Option.some.injEq] at hs; subst hs
          exact rinv_setSub h k _ ⟨rfl, rfl, rfl⟩
        · simp at hs
    · simp at hs
  | unsubAccept k =>
    simp only [step] at hs; split at hs <;> simp at hs; subst hs
    exact rinv_setSub (rinv_remove hi h k) k _ ⟨rfl, rfl, rfl⟩
  | cancel k =>
    simp only [step] at hs; split at hs <;> simp at hs; subst hs
    exact rinv_setSub h k _ ⟨rfl, rfl, rfl⟩
  | pubCall p => simp only [step] at hs; split at hs <;> simp at hs; subst hs; exact rinv_frame h rfl rfl rfl (fun _ => rGhostEq_refl _)
  | pubNoTopic p => simp only [step] at hs; split at hs <;> simp at hs; subst hs; exact rinv_frame h rfl rfl rfl (fun _ => rGhostEq_refl _)
  | pubClosedEarly p => simp only [step] at hs; split at hs <;> simp at hs; subst hs; exact rinv_frame h rfl rfl rfl (fun _ => rGhostEq_refl _)
  | pubRecv p => simp only [step] at hs; split at hs <;> simp at hs; subst hs; exact rinv_frame h rfl rfl rfl (fun _ => rGhostEq_refl _)
  | fanRemove =>
    simp only [step] at hs
    split at hs
    · rename_i p k rest hj
      obtain ⟨_, hnb⟩ := inv_fanRemove hi hj
      simp only [Bool.not_eq_true] at hnb
      simp only [Option.some.injEq] at hs; subst hs
      simp only [hnb, Bool.false_eq_true, if_false]
      exact rinv_frame (rinv_remove hi h k) rfl rfl rfl (fun _ => rGhostEq_refl _)
    · simp at hs
  | fanDone => simp only [step] at hs; split at hs <;> simp at hs; subst hs; exact rinv_frame h rfl rfl rfl (fun _ => rGhostEq_refl _)
  | loopExit =>
    simp only [step] at hs
    split at hs
    · rename_i hg
      simp only [Option.some.injEq] at hs; subst hs
      obtain ⟨_, hj1, _⟩ := inv_closeAll hi hg.1 s.subscribers
      have hnb : bad (closeAll s.subscribers s) = false := by simp [bad, hj1]
      simp only [hnb, Bool.false_eq_true, if_false]
      exact rinv_frame (rinv_closeAll hi h hg.1 s.subscribers) rfl rfl rfl (fun _ => rGhostEq_refl _)
    · simp at hs
  | shutCall k => simp only [step] at hs; split at hs <;> simp at hs; subst hs; exact rinv_frame h rfl rfl rfl (fun _ => rGhostEq_refl _)
  | shutClose k => simp only [step] at hs; split at hs <;> simp at hs; subst hs; exact rinv_frame h rfl rfl rfl (fun _ => rGhostEq_refl _)
  | shutRecovered k => simp only [step] at hs; split at hs <;> simp at hs; subst hs; exact rinv_frame h rfl rfl rfl (fun _ => rGhostEq_refl _)
  | shutSeeClosed k => simp only [step] at hs; split at hs <;> simp at hs; subst hs; exact rinv_frame h rfl rfl rfl (fun _ => rGhostEq_refl _)
  | shutCtx k => simp only [step] at hs; split at hs <;> simp at hs; subst hs; exact rinv_frame h rfl rfl rfl (fun _ => rGhostEq_refl _)
  | shutCancel k => simp only [step] at hs; split at hs <;> simp at hs; subst hs; exact rinv_frame h rfl rfl rfl (fun _ => rGhostEq_refl _)

theorem reachableC_rinv {c : Cfg} {s : St} (h : ReachableC c s) : RInv c s := by
  induction h with
  | init hi hr =>
    obtain ⟨_, _, hst, _, _, hlog, hsub, _, _⟩ := hi
    refine ⟨hr, ⟨0, by simp, by simp [hst, hlog]⟩, ?_, ?_⟩
    · intro i a ha; simp [(hsub i).2.2.2.2.2.1] at ha
    · intro i a ha; simp [(hsub i).2.2.2.2.2.1] at ha
  | step hr hc hs ih =>
    have hall := reachable_all hr.reachable
    exact step_rinv hall.1 hall.2.1 ih _ hc hs


theorem dropWhile_ne_of_not_mem (pre : List PubId) (k : PubId) (rest : List PubId) (h : k ∉ pre) :
    (pre ++ rest).dropWhile (· != k) = rest.dropWhile (· != k) := by
  induction pre with
  | nil => rfl
  | cons x xs ih =>
    have hx : x ≠ k := fun e => h (by simp [e])
    have hxs : k ∉ xs := fun e => h (by simp [e])
    simp [List.dropWhile, hx, ih hxs]

theorem afterID_decomp (pre post : List PubId) (k : PubId) (h : k ∉ pre) : afterID (pre ++ k :: post) k = post := by
  simp [afterID, dropWhile_ne_of_not_mem pre k _ h, List.dropWhile]

theorem afterID_absent (l : List PubId) (k : PubId) (h : k ∉ l) : afterID l k = [] := by
  have := dropWhile_ne_of_not_mem l k [] h
  simp only [List.append_nil] at this
  simp [afterID, this]

theorem take_drop_split {α} (l : List α) (j a b : Nat) (h1 : j ≤ a) (h2 : a ≤ b) :
    (l.take b).drop j = (l.take a).drop j ++ (l.take b).drop a := by
  have e : l.take a = (l.take b).take a := by rw [List.take_take, Nat.min_eq_left h2]
  rw [e]
  generalize l.take b = t
  have := List.take_append_drop a t
  conv => lhs; rw [← this]
  by_cases hl : a ≤ t.length
  · rw [List.drop_append_of_le_length (by simp; omega)]
  · have h3 : t.length ≤ a := by omega
    rw [List.take_of_length_le h3, List.drop_of_length_le h3]
    simp

/-- executable version of `Conforming`, for concrete runs -/
def confB (c : Cfg) (s : St) : Label → Bool
  | .subAccept i rc o => o == .ok && pubsOf rc == replaySends c s.store i
  | .pubAccept _ o => match o with | .ok _ => true | _ => false
  | _ => true

theorem confB_sound {c : Cfg} {s : St} {l : Label} (h : confB c s l = true) : Conforming c s l := by
  cases l <;> simp only [confB, Conforming] at h ⊢
  · simp only [Bool.and_eq_true, beq_iff_eq] at h; exact h
  · rename_i p o; cases o <;> simp at h ⊢

/-- run a list of labels, insisting that each is conforming -/
def runC (c : Cfg) (s : St) : List Label → Option St
  | [] => some s
  | l :: ls => if confB c s l then (match step c s l with | some s' => runC c s' ls | none => none) else none

theorem runC_reachable {c : Cfg} {s s' : St} {ls : List Label} (h : ReachableC c s) (hr : runC c s ls = some s') :
    ReachableC c s' := by
  induction ls generalizing s with
  | nil => simp only [runC, Option.some.injEq] at hr; subst hr; exact h
  | cons l ls ih =>
    simp only [runC] at hr
    split at hr
    · rename_i hc
      split at hr
      · rename_i s1 hs; exact ih (ReachableC.step h (confB_sound hc) hs) hr
      · simp at hr
    · simp at hr

end GoSSE.Proofs.Joe
