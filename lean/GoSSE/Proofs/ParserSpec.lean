import GoSSE.Proofs.ParserSplit
/-!
The specification as a byte-at-a-time machine (`step`/`feed`), so that it can be run over the
pieces in which the implementation consumes the stream.
-/
namespace GoSSE.Proofs
open GoSSE GoSSE.Spec GoSSE.Model

/-- state of the specification between two bytes: interpreter state, the (reversed) bytes of
the current line, and whether an LF is to be swallowed -/
structure M where
  ist : IState
  acc : Bytes := []
  sk : Bool := false

def step (conn : Bool) (m : M) (b : Byte) : M × List Out :=
  if m.sk && b == 10 then ({ m with sk := false }, [])
  else if b == 10 then
    let r := procLine .gosse conn m.ist m.acc.reverse
    (⟨r.1, [], false⟩, r.2)
  else if b == 13 then
    let r := procLine .gosse conn m.ist m.acc.reverse
    (⟨r.1, [], true⟩, r.2)
  else (⟨m.ist, b :: m.acc, false⟩, [])

def feed (conn : Bool) : M → Bytes → M × List Out
  | m, [] => (m, [])
  | m, b :: t =>
    let r := step conn m b
    let q := feed conn r.1 t
    (q.1, r.2 ++ q.2)

@[simp] theorem feed_nil (conn : Bool) (m : M) : feed conn m [] = (m, []) := rfl

theorem feed_cons (conn : Bool) (m : M) (b : Byte) (t : Bytes) :
    feed conn m (b :: t) = ((feed conn (step conn m b).1 t).1, (step conn m b).2 ++ (feed conn (step conn m b).1 t).2) := rfl

theorem feed_append (conn : Bool) (m : M) (A B : Bytes) :
    feed conn m (A ++ B) =
      ((feed conn (feed conn m A).1 B).1, (feed conn m A).2 ++ (feed conn (feed conn m A).1 B).2) := by
  induction A generalizing m with
  | nil => simp
  | cons b t ih => simp only [List.cons_append, feed_cons, ih, List.append_assoc]

/-- `feed` is the specification's splitter + interpreter -/
theorem feed_spec (conn : Bool) (m : M) (X : Bytes) :
    (feed conn m X).2 = (interp .gosse conn m.ist (splitLines X m.acc m.sk).1).2 ∧
    (feed conn m X).1.ist = (interp .gosse conn m.ist (splitLines X m.acc m.sk).1).1 ∧
    (feed conn m X).1.acc = (splitLines X m.acc m.sk).2.reverse := by
  induction X generalizing m with
  | nil => simp [splitLines, interp]
  | cons b t ih =>
    rw [feed_cons]
    unfold step splitLines
    by_cases h1 : (m.sk && b == 10) = true
    · simp only [h1, if_true]
      exact ih _
    · simp only [h1, if_false, Bool.false_eq_true]
      by_cases h2 : (b == 10) = true
      · simp only [h2, if_true]
        have := ih ⟨(procLine .gosse conn m.ist m.acc.reverse).1, [], false⟩
        simp only [interp, this, and_self]
      · simp only [h2, if_false, Bool.false_eq_true]
        by_cases h3 : (b == 13) = true
        · simp only [h3, if_true]
          have := ih ⟨(procLine .gosse conn m.ist m.acc.reverse).1, [], true⟩
          simp only [interp, this, and_self]
        · simp only [h3, if_false, Bool.false_eq_true]
          have := ih ⟨m.ist, b :: m.acc, false⟩
          simpa using this

/-- the end rule of `Spec.run`, on the machine's final state -/
def endRule (r : M × List Out) (ek : EndKind) : List Out × EndCond :=
  match ek with
  | .err => (r.2, .readErr)
  | .eof =>
    if r.1.acc ≠ [] then (r.2, .unexpectedEOF)
    else if r.1.ist.dirty then (r.2 ++ [.event (mkEvent r.1.ist)], .clean)
    else (r.2, .clean)

theorem run_eq_feed (conn : Bool) (lastID : Bytes) (S : Bytes) (ek : EndKind) :
    Spec.run .gosse conn lastID S ek = endRule (feed conn ⟨{ lastID := lastID }, [], false⟩ (stripBOM S)) ek := by
  obtain ⟨h1, h2, h3⟩ := feed_spec conn ⟨{ lastID := lastID }, [], false⟩ (stripBOM S)
  unfold Spec.run endRule
  cases ek with
  | err => simp only [h1]
  | eof =>
    simp only [h1, h2, h3, dispatchable]
    by_cases hr : (splitLines (stripBOM S) [] false).2 = []
    · by_cases hd : (interp .gosse conn { lastID := lastID } (splitLines (stripBOM S) [] false).1).1.dirty = true
      · simp [hr, hd]
      · simp [hr, hd]
    · simp [hr]

/-- machine states that can arise: an LF is only swallowed right after a CR, when no byte of
the next line has been seen -/
def M.WF (m : M) : Prop := m.sk = true → m.acc = []

theorem step_wf (conn : Bool) (m : M) (b : Byte) (_h : m.WF) : (step conn m b).1.WF := by
  unfold step
  split
  · simp [M.WF]
  · split
    · simp [M.WF]
    · split <;> simp [M.WF]

theorem feed_wf (conn : Bool) (m : M) (X : Bytes) (h : m.WF) : (feed conn m X).1.WF := by
  induction X generalizing m with
  | nil => exact h
  | cons b t ih => rw [feed_cons]; exact ih _ (step_wf conn m b h)

/-- bytes of a line (no CR/LF) are only collected -/
theorem feed_noNl (conn : Bool) (ist : IState) (acc : Bytes) (sk : Bool) (l : Bytes) (h : NoNl l) :
    feed conn ⟨ist, acc, sk⟩ l = (⟨ist, l.reverse ++ acc, if l = [] then sk else false⟩, []) := by
  induction l generalizing acc sk with
  | nil => simp
  | cons b t ih =>
    have hb : isNl b = false := h b (by simp)
    obtain ⟨h10, h13⟩ := (isNl_false_iff b).1 hb
    have ht : NoNl t := fun x hx => h x (by simp [hx])
    rw [feed_cons]
    have hs : step conn ⟨ist, acc, sk⟩ b = (⟨ist, b :: acc, false⟩, []) := by
      simp [step, h10, h13]
    rw [hs, ih _ _ ht]
    simp

/-- the interpreter state at an event boundary -/
def Boundary (ist : IState) : Prop := ist.typ = [] ∧ ist.data = [] ∧ ist.dirty = false

theorem procLine_nil_boundary (conn : Bool) (ist : IState) : Boundary (procLine .gosse conn ist []).1 := by
  simp only [procLine, List.isEmpty_nil, if_true]
  split <;> simp [Boundary]

theorem procLine_nil_of_boundary (conn : Bool) (ist : IState) (h : Boundary ist) :
    procLine .gosse conn ist [] = (ist, []) := by
  obtain ⟨h1, h2, h3⟩ := h
  cases ist
  simp_all [procLine, dispatchable]

/-- one complete line -/
theorem feed_line (conn : Bool) (ist : IState) (sk : Bool) (l term t : Bytes) (hl : NoNl l) (ht : IsTerm term t)
    (hsk : sk = true → (l ++ term).head? ≠ some 10) :
    feed conn ⟨ist, [], sk⟩ (l ++ term) =
      (⟨(procLine .gosse conn ist l).1, [], decide (term = [13])⟩, (procLine .gosse conn ist l).2) := by
  rw [feed_append, feed_noNl conn ist [] sk l hl]
  simp only [List.append_nil, List.nil_append]
  have hsk' : (if l = [] then sk else false) = true → term.head? ≠ some 10 := by
    intro h
    by_cases hl0 : l = []
    · subst hl0; simp at h; simpa using hsk h
    · simp [hl0] at h
  generalize (if l = [] then sk else false) = sk' at hsk'
  rcases ht with h | h | ⟨h, _⟩ <;> subst h
  · have : sk' = false := by cases sk' <;> simp_all
    subst this
    simp [feed_cons, step]
  · cases sk' <;> simp [feed_cons, step]
  · cases sk' <;> simp [feed_cons, step]

/-- at an event boundary blank lines (and a swallowed LF) change nothing -/
theorem feed_blanks (conn : Bool) (ist : IState) (sk : Bool) (B : Bytes) (hb : Boundary ist) (hB : AllNl B) :
    ∃ sk', feed conn ⟨ist, [], sk⟩ B = (⟨ist, [], sk'⟩, []) := by
  induction B generalizing sk with
  | nil => exact ⟨sk, rfl⟩
  | cons b t ih =>
    have ht : AllNl t := fun x hx => hB x (by simp [hx])
    have hp := procLine_nil_of_boundary conn ist hb
    rw [feed_cons]
    rcases (isNl_true_iff b).1 (hB b (by simp)) with h | h <;> subst h
    · cases sk
      · have : step conn ⟨ist, [], false⟩ 10 = (⟨ist, [], false⟩, []) := by simp [step, hp]
        rw [this]; obtain ⟨sk', h⟩ := ih false ht; exact ⟨sk', by simp [h]⟩
      · have : step conn ⟨ist, [], true⟩ 10 = (⟨ist, [], false⟩, []) := by simp [step]
        rw [this]; obtain ⟨sk', h⟩ := ih false ht; exact ⟨sk', by simp [h]⟩
    · have : step conn ⟨ist, [], sk⟩ 13 = (⟨ist, [], true⟩, []) := by simp [step, hp]
      rw [this]; obtain ⟨sk', h⟩ := ih true ht; exact ⟨sk', by simp [h]⟩

/-- after a byte string that ends in CR or LF the machine is between two lines -/
theorem feed_lastIsNl (conn : Bool) (m : M) (T : Bytes) (hm : m.WF) (hT : LastIsNl T) :
    (feed conn m T).1.acc = [] ∧ ((feed conn m T).1.sk = true → T.getLast? = some 13) := by
  obtain ⟨b, hb1, hb2⟩ := hT
  obtain ⟨T0, rfl⟩ := List.getLast?_eq_some_iff.1 hb1
  rw [feed_append]
  have hwf := feed_wf conn m T0 hm
  generalize (feed conn m T0).1 = m1 at hwf
  simp only [feed_cons, feed_nil]
  rcases (isNl_true_iff b).1 hb2 with h | h <;> subst h
  · unfold step
    by_cases hs : m1.sk = true
    · simp [hs, hwf hs]
    · simp [hs]
  · simp [step]

/-- a token that `splitFunc` cuts before the end of the input (non-blank lines `T`, one more
line end `nl`) leaves the specification at an event boundary, between two lines -/
theorem feed_token_boundary (conn : Bool) (m : M) (T nl rest : Bytes) (hm : m.WF) (hT : LastIsNl T)
    (hcr : T.getLast? = some 13 → nl.head? ≠ some 10) (hnl : IsTerm nl rest) :
    (feed conn m (T ++ nl)).1.acc = [] ∧ Boundary (feed conn m (T ++ nl)).1.ist := by
  rw [feed_append]
  obtain ⟨h1, h2⟩ := feed_lastIsNl conn m T hm hT
  generalize (feed conn m T).1 = m1 at h1 h2
  obtain ⟨ist1, acc1, sk1⟩ := m1
  simp only at h1 h2
  subst h1
  have hsk : sk1 = true → nl.head? ≠ some 10 := fun h => hcr (h2 h)
  have hb := procLine_nil_boundary conn ist1
  rcases hnl with h | h | ⟨h, _⟩ <;> subst h
  · have : sk1 = false := by cases sk1 <;> simp_all
    subst this
    simpa [feed_cons, step] using hb
  · cases sk1 <;> simpa [feed_cons, step] using hb
  · cases sk1 <;> simpa [feed_cons, step] using hb

end GoSSE.Proofs
