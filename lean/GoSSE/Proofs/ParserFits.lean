import GoSSE.Proofs.ParserRun
import GoSSE.Proofs.ParserPulled
/-!
`FitsLimit`: every event of the stream (with the blank lines before it and the terminator of
its closing blank line) is shorter than the scanner's limit — then `ErrTooLong` cannot occur.
-/
namespace GoSSE.Proofs
open GoSSE GoSSE.Spec GoSSE.Model

/-- Cut the stream at the event boundaries (`pieceLen`): every complete piece is shorter than
`L`, and the unfinished remainder `R` at the end satisfies `|R| + 1 < L` (one byte of slack: the
LF of a CRLF that closed the previous event may still be pending in front of it). -/
inductive FitsLimit (L : Nat) : Bytes → Prop
  | rest (R : Bytes) (h : pieceLen R 0 = none) (hl : R.length + 1 < L) : FitsLimit L R
  | piece (R : Bytes) (n : Nat) (h : pieceLen R 0 = some n) (hl : n < L) (ht : FitsLimit L (R.drop n)) :
      FitsLimit L R

/-- what the scanner still has to deliver fits: possibly after the pending LF of a CRLF whose
CR ended the previous token -/
def Fit (L : Nat) (R : Bytes) : Prop := FitsLimit L R ∨ ∃ R', R = 10 :: R' ∧ FitsLimit L R'

theorem sigma_lastIsNl (T : Bytes) (h : LastIsNl T) :
    (T.getLast? = some 10 ∧ sigma T = 2) ∨ (T.getLast? = some 13 ∧ sigma T = 3) := by
  obtain ⟨b, hb1, hb2⟩ := h
  rcases (isNl_true_iff b).1 hb2 with h | h <;> subst h
  · exact .inl ⟨hb1, by simp [sigma, hb1]⟩
  · exact .inr ⟨hb1, by simp [sigma, hb1]⟩

/-- a token returned by `splitFunc` ends where the first piece of the stream ends — or one byte
earlier, when the buffer ended with the CR of a CRLF -/
theorem split_tok_piece (D : Bytes) (e : Bool) (adv : Nat) (tok : Bytes) (h : splitFunc D e = (adv, some tok))
    (X : Bytes) :
    (e = true ∧ adv = D.length) ∨
    ∃ n, pieceLen (D ++ X) 0 = some n ∧ (n = adv ∨ (n = adv + 1 ∧ adv = D.length ∧ X.head? = some 10)) := by
  cases splitFunc_cases D e with
  | empty hd hr => rw [hr] at h; simp at h
  | more B T he hd hB hT _ hr => rw [hr] at h; simp at h
  | final B T he hd hne hB hT _ hr =>
    rw [hr] at h; simp only [Prod.mk.injEq] at h
    exact .inl ⟨he, h.1.symm⟩
  | tok B T nl rest hd hB hT hl hcr hnl hphi hr =>
    right
    rw [hr] at h
    simp only [Prod.mk.injEq, Option.some.injEq] at h
    obtain ⟨hadv, _⟩ := h
    have e1 : D ++ X = B ++ T ++ (nl ++ (rest ++ X)) := by rw [hd]; simp
    have hlenD : D.length = B.length + T.length + nl.length + rest.length := by
      rw [hd]; simp only [List.length_append]
    have hlen : (B ++ T ++ nl).length = B.length + T.length + nl.length := by
      simp only [List.length_append]
    rw [hlen] at hadv
    rw [e1, hphi]
    -- the closing blank line
    have key : ∃ k, pieceLen (nl ++ (rest ++ X)) (sigma T) = some k ∧
        (k = nl.length ∨ (k = nl.length + 1 ∧ rest = [] ∧ X.head? = some 10)) := by
      rcases sigma_lastIsNl T hl with ⟨hlast, hs⟩ | ⟨hlast, hs⟩
      · rw [hs]
        rcases hnl with h' | h' | ⟨h', hr'⟩ <;> subst h'
        · exact ⟨1, by simp [pieceLen], .inl rfl⟩
        · exact ⟨2, by simp [pieceLen], .inl rfl⟩
        · cases rest with
          | nil =>
            by_cases hx : X.head? = some 10
            · exact ⟨2, by simp [pieceLen, hx], .inr ⟨rfl, rfl, hx⟩⟩
            · exact ⟨1, by simp [pieceLen, hx], .inl rfl⟩
          | cons c rest' =>
            have : c ≠ 10 := by simpa using hr'
            exact ⟨1, by simp [pieceLen, this], .inl rfl⟩
      · rw [hs]
        have hcr' := hcr hlast
        rcases hnl with h' | h' | ⟨h', hr'⟩ <;> subst h'
        · simp at hcr'
        · exact ⟨2, by simp [pieceLen], .inl rfl⟩
        · cases rest with
          | nil =>
            by_cases hx : X.head? = some 10
            · exact ⟨2, by simp [pieceLen, hx], .inr ⟨rfl, rfl, hx⟩⟩
            · exact ⟨1, by simp [pieceLen, hx], .inl rfl⟩
          | cons c rest' =>
            have : c ≠ 10 := by simpa using hr'
            exact ⟨1, by simp [pieceLen, this], .inl rfl⟩
    obtain ⟨k, hk, hk2⟩ := key
    refine ⟨k + (B.length + T.length), by rw [hk]; rfl, ?_⟩
    rcases hk2 with h1 | ⟨h1, h2, h3⟩
    · left; omega
    · right
      subst h2
      simp only [List.length_nil, Nat.add_zero] at hlenD
      exact ⟨by omega, by omega, h3⟩

/-- as long as `splitFunc` asks for more data, the first piece of the stream is not complete
in the buffer -/
theorem split_none_piece (D : Bytes) (h : splitFunc D false = (0, none)) (X : Bytes) (n : Nat)
    (hp : pieceLen (D ++ X) 0 = some n) : D.length < n := by
  cases splitFunc_cases D false with
  | empty hd hr => subst hd; exact pieceLen_pos _ _ _ hp
  | more B T he hd hB hT hphi hr =>
    have e1 : D ++ X = B ++ T ++ X := by rw [hd]
    rw [e1, hphi] at hp
    cases hq : pieceLen X (sigma T) with
    | none => simp [hq] at hp
    | some m =>
      have := pieceLen_pos _ _ _ hq
      simp [hq] at hp
      rw [hd]; simp only [List.length_append]; omega
  | tok B T nl rest hd hB hT hl hcr hnl _ hr =>
    rw [hr] at h; simp at h
  | final B T he hd hne hB hT _ hr => simp at he

theorem pieceLen_lf (R : Bytes) : pieceLen (10 :: R) 0 = (pieceLen R 0).map (· + 1) := by
  simp [pieceLen, isNl]

/-- with a fitting stream ahead, a buffer in which `splitFunc` finds nothing is shorter than `L` -/
theorem fit_visible (L : Nat) (R D X : Bytes) (hfit : Fit L R) (hR : R = D ++ X)
    (h : splitFunc D false = (0, none)) : D.length < L := by
  have hle : D.length ≤ R.length := by rw [hR]; simp
  rcases hfit with hf | ⟨R', hR', hf⟩
  · cases hf with
    | rest _ hp hl => omega
    | piece _ n hp hl ht =>
      have := split_none_piece D h X n (hR ▸ hp)
      omega
  · cases hf with
    | rest _ hp hl => rw [hR'] at hle; simp at hle; omega
    | piece _ n hp hl ht =>
      have hp' : pieceLen (D ++ X) 0 = some (n + 1) := by rw [← hR, hR', pieceLen_lf, hp]; rfl
      have := split_none_piece D h X (n + 1) hp'
      omega

/-- after a token the stream ahead still fits -/
theorem fit_step (L : Nat) (R D X : Bytes) (e : Bool) (adv : Nat) (tok : Bytes) (hfit : Fit L R)
    (hR : R = D ++ X) (h : splitFunc D e = (adv, some tok)) :
    (e = true ∧ adv = D.length) ∨ Fit L (R.drop adv) := by
  rcases split_tok_piece D e adv tok h X with hl | ⟨n, hn, hcase⟩
  · exact .inl hl
  right
  rw [← hR] at hn
  -- the stream after the piece fits
  have htail : FitsLimit L (R.drop n) := by
    rcases hfit with hf | ⟨R', hR', hf⟩
    · cases hf with
      | rest _ hp hl => rw [hp] at hn; simp at hn
      | piece _ n' hp hl ht => rw [hp] at hn; simp at hn; subst hn; exact ht
    · cases hf with
      | rest _ hp hl => rw [hR', pieceLen_lf, hp] at hn; simp at hn
      | piece _ n' hp hl ht =>
        rw [hR', pieceLen_lf, hp] at hn; simp at hn; subst hn
        rw [hR']; simpa using ht
  rcases hcase with h1 | ⟨h1, h2, h3⟩
  · subst h1; exact .inl htail
  · right
    have hdrop : R.drop adv = X := by rw [hR, h2]; simp
    cases X with
    | nil => simp at h3
    | cons c X' =>
      simp at h3; subst h3
      refine ⟨X', hdrop, ?_⟩
      have : R.drop n = X' := by
        rw [h1, ← List.drop_drop, hdrop]; rfl
      rw [← this]; exact htail

/-! ### the scanner never reports `ErrTooLong` on a fitting stream -/

/-- scanner invariant: `L = max cap0 M.toNat` is the limit, and unless the input is exhausted
what remains fits -/
structure KInv (L : Nat) (M : Int) (cap0 : Nat) (s : Scanner) : Prop where
  inv : SInv s
  maxTok : s.maxTok = M
  cap : cap0 ≤ s.bufLen
  noTooLong : s.err ≠ some .tooLong
  fit : s.err.isSome = true ∨ Fit L (remaining s)

theorem sinv_no_toolong (s : Scanner) (h : SInv s) : s.err ≠ some .tooLong := by
  intro he
  have := (h.errEnd _ he).1
  simp only [endE] at this
  split at this <;> cases this

theorem scan_kinv (L : Nat) (M : Int) (cap0 : Nat) (hL : L = max cap0 M.toNat) (s : Scanner)
    (hk : KInv L M cap0 s) : KInv L M cap0 (Scanner.scan (s.src.size + s.data.length + 4) s).2 := by
  have hscan := scan_spec (s.src.size + s.data.length + 4) s hk.inv (by split <;> omega)
  generalize Scanner.scan (s.src.size + s.data.length + 4) s = r at hscan
  cases hscan with
  | tok D adv tok s' hrem hsplit hdata hinv hcfg hwt =>
    refine ⟨hinv, hcfg.maxTok.trans hk.maxTok, Nat.le_trans hk.cap hcfg.bufLo, sinv_no_toolong s' hinv, ?_⟩
    by_cases he : s'.err.isSome = true
    · exact .inl he
    · right
      have hsnone : ¬ s.err.isSome = true := fun h => he (hcfg.errMono h)
      have hfit : Fit L (remaining s) := by
        rcases hk.fit with h | h
        · exact absurd h hsnone
        · exact h
      have he' : s'.err.isSome = false := by simpa using he
      rw [he'] at hsplit
      rcases fit_step L (remaining s) D _ false adv tok hfit hrem hsplit with ⟨h, _⟩ | h
      · simp at h
      · have hle := sf_adv_le D false
        rw [hsplit] at hle
        have : remaining s' = (remaining s).drop adv := by
          rw [hrem, remaining, hdata, List.drop_append_of_le_length hle]
        rw [this]; exact h
  | tooLong D s' herr hnone hrem hsplit hdata hfull hlim hcfg =>
    exfalso
    have hfit : Fit L (remaining s) := by
      rcases hk.fit with h | h
      · rw [hnone] at h; simp at h
      · exact h
    have hlt := fit_visible L (remaining s) D _ hfit hrem hsplit
    have h1 : cap0 ≤ s'.bufLen := Nat.le_trans hk.cap hcfg.bufLo
    have h2 : s'.maxTok = M := hcfg.maxTok.trans hk.maxTok
    rw [h2] at hlim
    rw [hfull, hL] at hlt
    omega
  | done s' herr hrem hdata hsrc hinv hcfg =>
    refine ⟨hinv, hcfg.maxTok.trans hk.maxTok, Nat.le_trans hk.cap hcfg.bufLo, sinv_no_toolong s' hinv, .inl ?_⟩
    simp [herr]

/-! ### lifting a scanner invariant through `Parser.next` and the loop of `read()` -/

theorem parserNext_sc (K : Scanner → Prop)
    (hK : ∀ s, K s → K (Scanner.scan (s.src.size + s.data.length + 4) s).2)
    (fuel : Nat) (p : Parser) (h : K p.sc) : K (Parser.next fuel p).2.sc := by
  induction fuel generalizing p with
  | zero => exact h
  | succ fuel ih =>
    rw [Parser.next]
    split
    · exact h
    · have hs := hK p.sc h
      split
      · rename_i heq; rw [heq] at hs; exact hs
      · rename_i heq; rw [heq] at hs; exact ih _ hs

theorem readLoop_sc (K : Scanner → Prop)
    (hK : ∀ s, K s → K (Scanner.scan (s.src.size + s.data.length + 4) s).2)
    (conn : Bool) (stopAt : Option Nat) (fuel : Nat) (p : Parser) (st : RState) (outs : List Out) (h : K p.sc) :
    K (readLoop conn stopAt fuel p st outs).1.sc := by
  induction fuel generalizing p st outs with
  | zero => exact h
  | succ fuel ih =>
    have hn := parserNext_sc K hK (p.sc.src.size + p.sc.data.length + 4) p h
    rw [readLoop]
    split
    · rename_i heq; rw [heq] at hn; exact hn
    · rename_i heq; rw [heq] at hn
      simp only
      split
      · exact hn
      · exact ih _ _ _ hn

theorem parserErr_toolong (p : Parser) (h : p.err = PErr.tooLong) : p.sc.err = some .tooLong := by
  unfold Parser.err at h
  cases hg : p.gone <;> cases he : p.sc.err with
  | none => simp [hg, he] at h; try (split at h <;> simp at h)
  | some e => cases e <;> simp [hg, he] at h <;> (try rfl) <;> try (split at h <;> simp at h)

theorem implRun_err_toolong (conn : Bool) (lastID : Bytes) (src : Source) (cfg : Option (Nat × Int))
    (stopAt : Option Nat) (h : (implRun conn lastID src cfg stopAt).2.1 = PErr.tooLong) :
    (finalScanner conn lastID src cfg stopAt).err = some .tooLong := by
  apply parserErr_toolong
  unfold implRun at h
  simp only at h
  show (readLoop conn stopAt (src.size + 4) { sc := mkScanner src cfg } { lastID := lastID } []).1.err = _
  generalize readLoop conn stopAt (src.size + 4) { sc := mkScanner src cfg } { lastID := lastID } [] = R at h ⊢
  split at h
  · simp at h
  · split at h
    · split at h
      · simp at h
      · simp only at h
        split at h
        · simp at h
        · exact h
    · simp only at h
      split at h
      · simp at h
      · exact h

theorem limitOf_eq (src : Source) (cfg : Option (Nat × Int)) :
    limitOf cfg = max (mkScanner src cfg).bufLen (mkScanner src cfg).maxTok.toNat := by
  cases cfg with
  | none => simp [limitOf, mkScanner]
  | some c => obtain ⟨a, b⟩ := c; simp [limitOf, mkScanner]

/-- **no `ErrTooLong` below the limit** -/
theorem fits_no_toolong (conn : Bool) (lastID : Bytes) (src : Source) (cfg : Option (Nat × Int))
    (stopAt : Option Nat) (hfit : FitsLimit (limitOf cfg) src.chunks.flatten) :
    (implRun conn lastID src cfg stopAt).2.1 ≠ PErr.tooLong := by
  intro h
  have herr := implRun_err_toolong conn lastID src cfg stopAt h
  obtain ⟨hsinv, hrem, hsrc, hdata⟩ := mkScanner_facts src cfg
  have hk0 : KInv (limitOf cfg) (mkScanner src cfg).maxTok (mkScanner src cfg).bufLen (mkScanner src cfg) :=
    ⟨hsinv, rfl, Nat.le_refl _, sinv_no_toolong _ hsinv, .inr (.inl (by rw [hrem]; exact hfit))⟩
  have hkf := readLoop_sc (KInv (limitOf cfg) (mkScanner src cfg).maxTok (mkScanner src cfg).bufLen)
    (scan_kinv _ _ _ (limitOf_eq src cfg)) conn stopAt (src.size + 4) { sc := mkScanner src cfg }
    { lastID := lastID } [] hk0
  exact hkf.noTooLong herr

end GoSSE.Proofs
