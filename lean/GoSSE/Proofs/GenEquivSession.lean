import GoSSE.Gen.Session
import GoSSE.Model.Session
import GoSSE.Proofs.GenEquivWrite
import GoSSE.Proofs.MessageWrite
import GoSSE.Proofs.MessageBuild
import GoSSE.Proofs.SessionEncode
/-!
# `Session.doUpgrade / Send / Flush` as translated from session.go = the model of `Model/Session.lean`

The translated `Session σ` holds *any* response writer (`GoRT.ResW σ`: a state, `Write`, `Flush`, `Header()[k] = v`).
The hand-written model talks to one particular family of writers: the recording writer with a fault schedule
(`wWrite`, `wFlush`: call number `c` fails when `sched c` says so, every call is logged as an `Ev`). `resOf` is that
writer as a `ResW` whose state is (calls so far, log so far); over it the translated methods return the model's error,
leave the model's session, call counter and log.

`Send` writes the message with `Message.WriteTo` (translated, `GenEquivWrite.WriteTo_eq`): the model of the session is
stated here over the message model's own list of `Write` calls (`Message.writes`), `sendW`.
-/
set_option linter.unusedSimpArgs false
set_option linter.unusedVariables false
namespace GoSSE.GenEquiv
open GoSSE GoSSE.GoRT GoSSE.Model GoSSE.Spec GoSSE.Proofs
open GoSSE.Model.Session (Sched Res Ev FlushKind wWrite wFlush)

/-- the recording writer's state: writer calls so far, events logged so far -/
abbrev SSt := Nat × List Ev

/-- an error of the recording writer (the number of the failing call) as the translated code sees it -/
def errS (k : Nat) : String := toString k

/-- the recording writer as an `io.Writer` of the message model -/
def recW (sched : Sched) (lvl : Nat) : Model.Writer SSt String :=
  ⟨fun st p => ((wWrite sched lvl st.1 p).1.body.length, (wWrite sched lvl st.1 p).2.map errS, (st.1 + 1, st.2 ++ [(wWrite sched lvl st.1 p).1]))⟩

/-- the recording writer as a response writer of the translated code -/
def resOf (sched : Sched) (r : Res) (st : SSt) : ResW SSt :=
  { st := st,
    write := fun s p => ((((recW sched r.lvl).write s p).1 : Int), ((recW sched r.lvl).write s p).2.1, ((recW sched r.lvl).write s p).2.2),
    flush := fun s => ((wFlush sched r.lvl r.kind s.1).2.map errS, (s.1 + 1, s.2 ++ [(wFlush sched r.lvl r.kind s.1).1])),
    setHeader := fun s k v => (s.1, s.2 ++ [Ev.headerSet r.lvl k (v.headD [])]) }

theorem resWriter_resOf (sched : Sched) (r : Res) (st : SSt) : resWriter (resOf sched r st) = toGenW (recW sched r.lvl) st := rfl

theorem resOf_with (sched : Sched) (r : Res) (st st' : SSt) : ({ resOf sched r st with st := st' } : ResW SSt) = resOf sched r st' := rfl

/-- a model session over the recording writer, as the translated struct -/
def toGenS (sched : Sched) (s : Session.Session) (st : SSt) (lid : Gen.EventID) : Gen.Session SSt :=
  { Res := resOf sched s.res st, Req := none, LastEventID := lid, didUpgrade := s.didUpgrade }

theorem recW_obeys (sched : Sched) (lvl : Nat) : (recW sched lvl).Obeys := by
  intro st p
  simp only [recW, wWrite]
  cases h : sched st.1 with
  | none => simp [Ev.body]
  | some n => simp [Ev.body, List.length_take]; omega

/-- `doUpgrade` as translated: the model's outcome, session, counter and log -/
theorem doUpgrade_eq (fuel : Nat) (sched : Sched) (s : Session.Session) (c : Nat) (log : List Ev) (lid : Gen.EventID) :
    Gen.Session_doUpgrade fuel (toGenS sched s (c, log) lid) =
      .ok ((Session.doUpgrade sched s c).err.map errS,
           toGenS sched (Session.doUpgrade sched s c).s ((Session.doUpgrade sched s c).calls, log ++ (Session.doUpgrade sched s c).evs) lid) := by
  unfold Gen.Session_doUpgrade Session.doUpgrade
  by_cases hd : s.didUpgrade = true
  · simp [toGenS, hd, pure, Except.pure]
  · have hd' : s.didUpgrade = false := by simpa using hd
    simp only [toGenS, hd', Bool.not_false, if_true, Bool.false_eq_true, if_false]
    cases hf : (wFlush sched s.res.lvl s.res.kind c).2 with
    | none =>
      simp [resOf, hf, pure, Except.pure, bind, Except.bind, Session.upgradeHeader, Session.headerContentType,
        Session.headerContentTypeValue, List.append_assoc]
    | some k =>
      simp [resOf, hf, pure, Except.pure, bind, Except.bind, Session.upgradeHeader, Session.headerContentType,
        Session.headerContentTypeValue, List.append_assoc, hd']

/-- the specification's `writeAll` over the recording writer = the session model's `writeAll` -/
theorem recW_writeAll (sched : Sched) (lvl : Nat) (ws : List Bytes) (r : WR SSt String) (c : Nat) (log : List Ev)
    (he : r.err = none) (hst : r.st = (c, log)) :
    (Spec.writeAll (recW sched lvl) r ws).st = ((Session.writeAll sched lvl c ws).calls, log ++ (Session.writeAll sched lvl c ws).evs) ∧
    (Spec.writeAll (recW sched lvl) r ws).err = (Session.writeAll sched lvl c ws).err.map errS := by
  induction ws generalizing r c log with
  | nil => simp [Spec.writeAll, Session.writeAll, he, hst]
  | cons p ps ih =>
    simp only [Spec.writeAll, he, Option.isSome_none, Bool.false_eq_true, if_false, Session.writeAll]
    cases hw : (wWrite sched lvl c p).2 with
    | some k =>
      have herr : (r.write (recW sched lvl) p).err.isSome = true := by simp [WR.write, recW, hst, hw]
      rw [writeAll_of_err _ _ _ herr]
      simp [WR.write, recW, hst, hw]
    | none =>
      obtain ⟨h1, h2⟩ := ih (r.write (recW sched lvl) p) (c + 1) (log ++ [(wWrite sched lvl c p).1])
        (by simp [WR.write, recW, hst, hw]) (by simp [WR.write, recW, hst])
      rw [h1, h2]
      simp [hw, List.append_assoc]

/-- `Session.send` of the model, over an explicit list of `Write` calls -/
def sendW (sched : Sched) (s : Session.Session) (c : Nat) (ws : List Bytes) : Session.Step :=
  let u := Session.doUpgrade sched s c
  match u.err with
  | some k => ⟨u.evs, u.s, u.calls, some k⟩
  | none =>
    let w := Session.writeAll sched s.res.lvl u.calls ws
    ⟨u.evs ++ w.evs, u.s, w.calls, w.err⟩

theorem send_eq_sendW (sched : Sched) (s : Session.Session) (c : Nat) (m : Session.Msg) :
    Session.send sched s c m = sendW sched s c (Session.encodeWrites m) := rfl

theorem doUpgrade_res (sched : Sched) (s : Session.Session) (c : Nat) : (Session.doUpgrade sched s c).s.res = s.res := by
  unfold Session.doUpgrade
  by_cases hd : s.didUpgrade = true
  · simp [hd]
  · simp only [hd, if_false]
    cases h : (wFlush sched s.res.lvl s.res.kind c).2 <;> simp [h]

/-- `Send` as translated: the model's outcome, session, counter and log, the message left as it was -/
theorem Send_eq (fuel : Nat) (sched : Sched) (s : Session.Session) (c : Nat) (log : List Ev) (lid : Gen.EventID) (m : Message)
    (hf : 13 < fuel) (hc : m.chunks.length < fuel) (hm : m.retry ≤ (maxInt64 : Int)) :
    Gen.Session_Send fuel (toGenS sched s (c, log) lid) (toGenMsg m) =
      .ok ((sendW sched s c m.writes).err.map errS,
           toGenS sched (sendW sched s c m.writes).s ((sendW sched s c m.writes).calls, log ++ (sendW sched s c m.writes).evs) lid,
           toGenMsg m) := by
  unfold Gen.Session_Send sendW
  simp only [bind, Except.bind, doUpgrade_eq]
  cases hu : (Session.doUpgrade sched s c).err with
  | some k => simp [pure, Except.pure]
  | none =>
    simp only [Option.map_none, bne_self_eq_false, Bool.false_eq_true, if_false]
    have hres := doUpgrade_res sched s c
    simp only [toGenS, hres, resWriter_resOf]
    rw [WriteTo_eq fuel _ _ m hf hc]
    have e := writeTo_eq_writeAll (recW sched s.res.lvl) (recW_obeys sched s.res.lvl)
      ((Session.doUpgrade sched s c).calls, log ++ (Session.doUpgrade sched s c).evs) m (retryOK_of_le m hm)
    have hp : (m.writeTo (recW sched s.res.lvl) ((Session.doUpgrade sched s c).calls, log ++ (Session.doUpgrade sched s c).evs)).panic = false := by
      rw [e, writeAll_panic]; rfl
    have hw := recW_writeAll sched s.res.lvl m.writes (r0 ((Session.doUpgrade sched s c).calls, log ++ (Session.doUpgrade sched s c).evs))
      (Session.doUpgrade sched s c).calls (log ++ (Session.doUpgrade sched s c).evs) rfl rfl
    rw [← e] at hw
    simp only [okOrPanic, hp, Bool.false_eq_true, if_false, okOf, toGenW_st, hw.1, hw.2]
    cases hwe : (Session.writeAll sched s.res.lvl (Session.doUpgrade sched s c).calls m.writes).err with
    | none => simp [pure, Except.pure, resOf_with, List.append_assoc]
    | some k => simp [pure, Except.pure, resOf_with, List.append_assoc]

/-- `Flush` as translated: the model's outcome, session, counter and log -/
theorem Flush_eq (fuel : Nat) (sched : Sched) (s : Session.Session) (c : Nat) (log : List Ev) (lid : Gen.EventID) :
    Gen.Session_Flush fuel (toGenS sched s (c, log) lid) =
      .ok ((Session.flush sched s c).err.map errS,
           toGenS sched (Session.flush sched s c).s ((Session.flush sched s c).calls, log ++ (Session.flush sched s c).evs) lid) := by
  unfold Gen.Session_Flush Session.flush
  simp only [bind, Except.bind, doUpgrade_eq]
  cases hu : (Session.doUpgrade sched s c).err with
  | some k => simp [pure, Except.pure, toGenS]
  | none =>
    simp only [Option.map_none, bne_self_eq_false, Bool.false_eq_true, if_false]
    have hres := doUpgrade_res sched s c
    by_cases hd : (s.didUpgrade == (Session.doUpgrade sched s c).s.didUpgrade) = true
    · simp [toGenS, hd, hres, resOf, pure, Except.pure, List.append_assoc]
    · simp [toGenS, hd, hres, pure, Except.pure]

/-- `Send` as translated = `Session.send` of the model on the message as the session model sees it (`msgOf`) -/
theorem Send_eq_model (fuel : Nat) (sched : Sched) (s : Session.Session) (c : Nat) (log : List Ev) (lid : Gen.EventID) (m : Message)
    (hf : 13 < fuel) (hc : m.chunks.length < fuel) (hm : m.retry ≤ (maxInt64 : Int)) :
    Gen.Session_Send fuel (toGenS sched s (c, log) lid) (toGenMsg m) =
      .ok ((Session.send sched s c (msgOf m)).err.map errS,
           toGenS sched (Session.send sched s c (msgOf m)).s
             ((Session.send sched s c (msgOf m)).calls, log ++ (Session.send sched s c (msgOf m)).evs) lid,
           toGenMsg m) := by
  rw [send_eq_sendW, encodeWrites_msgOf m hm]
  exact Send_eq fuel sched s c log lid m hf hc hm

/-! ## Any sequence of `Send` and `Flush` calls -/

/-- what a provider does with the session -/
inductive GOp
  | send (m : Message)
  | flush

def GOp.toOp : GOp → Session.Op
  | .send m => .send (msgOf m)
  | .flush => .flush

/-- the messages of a call sequence are ones the translated `WriteTo` is proved for: a `time.Duration` retry value,
fewer chunks than the fuel -/
def GOp.Ok (fuel : Nat) : GOp → Prop
  | .send m => m.chunks.length < fuel ∧ m.retry ≤ (maxInt64 : Int)
  | .flush => True

/-- one call on the translated session: its result and the session afterwards -/
def genStep (fuel : Nat) (g : Gen.Session SSt) : GOp → GoM (Option String × Gen.Session SSt)
  | .send m => do
    let r ← Gen.Session_Send fuel g (toGenMsg m)
    pure (r.1, r.2.1)
  | .flush => Gen.Session_Flush fuel g

/-- a sequence of calls: the results in order and the session afterwards -/
def genRun (fuel : Nat) : Gen.Session SSt → List GOp → GoM (List (Option String) × Gen.Session SSt)
  | g, [] => pure ([], g)
  | g, op :: ops => do
    let r ← genStep fuel g op
    let q ← genRun fuel r.2 ops
    pure (r.1 :: q.1, q.2)

theorem genStep_eq (fuel : Nat) (sched : Sched) (s : Session.Session) (c : Nat) (log : List Ev) (lid : Gen.EventID) (op : GOp)
    (hf : 13 < fuel) (hok : op.Ok fuel) :
    genStep fuel (toGenS sched s (c, log) lid) op =
      .ok ((Session.step sched s c op.toOp).err.map errS,
           toGenS sched (Session.step sched s c op.toOp).s
             ((Session.step sched s c op.toOp).calls, log ++ (Session.step sched s c op.toOp).evs) lid) := by
  cases op with
  | send m =>
    simp only [genStep, GOp.toOp, Session.step, bind, Except.bind, Send_eq_model fuel sched s c log lid m hf hok.1 hok.2]
    rfl
  | flush => simp only [genStep, GOp.toOp, Session.step, Flush_eq]

/-- **Every sequence of `Send` / `Flush` calls** on the translated session over the recording writer returns, call by
call, the model's results, makes exactly the model's writer calls (the log), and leaves the model's session. -/
theorem genRun_eq (fuel : Nat) (sched : Sched) (ops : List GOp) (s : Session.Session) (c : Nat) (log : List Ev) (lid : Gen.EventID)
    (hf : 13 < fuel) (hok : ∀ op ∈ ops, op.Ok fuel) :
    genRun fuel (toGenS sched s (c, log) lid) ops =
      .ok ((Session.runOps sched s c (ops.map GOp.toOp)).obs.map (fun e => e.ret.map errS),
           toGenS sched (Session.runOps sched s c (ops.map GOp.toOp)).s
             ((Session.runOps sched s c (ops.map GOp.toOp)).calls,
              log ++ Session.trace (Session.runOps sched s c (ops.map GOp.toOp)).obs) lid) := by
  induction ops generalizing s c log with
  | nil => simp [genRun, Session.runOps, Session.trace, pure, Except.pure]
  | cons op ops ih =>
    have h1 := genStep_eq fuel sched s c log lid op hf (hok op (by simp))
    have h2 := ih (Session.step sched s c op.toOp).s (Session.step sched s c op.toOp).calls
      (log ++ (Session.step sched s c op.toOp).evs) (fun o ho => hok o (by simp [ho]))
    simp only [genRun, bind, Except.bind, h1, h2, List.map_cons, Session.runOps, pure, Except.pure, Session.trace,
      List.flatMap_cons, List.append_assoc]

end GoSSE.GenEquiv
