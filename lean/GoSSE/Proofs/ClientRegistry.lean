import GoSSE.Model.Registry
/-!
Helper lemmas for C13: the association-list maps of the registry model, what subscribe / remove do
to the per-type id lists, and the invariant tying the model's script run to the specification's.
-/
namespace GoSSE.Proofs.ClientRegistry
open GoSSE GoSSE.Spec GoSSE.Spec.Client GoSSE.Model GoSSE.Model.Client

/-! ## `TMap` -/

theorem get_set_same (m : TMap) (t : Bytes) (v : List Nat) : (m.set t v).get t = some v := by
  induction m with
  | nil => simp [TMap.set, TMap.get]
  | cons e rest ih =>
    obtain ⟨k, w⟩ := e
    by_cases h : k = t
    · subst h; simp [TMap.set, TMap.get]
    · simp [TMap.set, TMap.get, h, ih]

theorem get_set_other (m : TMap) (t t' : Bytes) (v : List Nat) (h : t' ≠ t) : (m.set t v).get t' = m.get t' := by
  induction m with
  | nil => simp [TMap.set, TMap.get]; intro e; exact absurd e.symm h
  | cons e rest ih =>
    obtain ⟨k, w⟩ := e
    by_cases hk : k = t
    · subst hk
      have : ¬ k = t' := fun e => h e.symm
      simp [TMap.set, TMap.get, this]
    · by_cases hk' : k = t'
      · subst hk'; simp [TMap.set, TMap.get, hk]
      · simp [TMap.set, TMap.get, hk, hk', ih]

theorem get_del_same (m : TMap) (t : Bytes) : (m.del t).get t = none := by
  induction m with
  | nil => simp [TMap.del, TMap.get]
  | cons e rest ih =>
    obtain ⟨k, w⟩ := e
    by_cases h : k = t
    · subst h; simp [TMap.del, ih]
    · simp [TMap.del, TMap.get, h, ih]

theorem get_del_other (m : TMap) (t t' : Bytes) (h : t' ≠ t) : (m.del t).get t' = m.get t' := by
  induction m with
  | nil => simp [TMap.del, TMap.get]
  | cons e rest ih =>
    obtain ⟨k, w⟩ := e
    by_cases hk : k = t
    · subst hk
      have : ¬ k = t' := fun e => h e.symm
      simp [TMap.del, TMap.get, this, ih]
    · by_cases hk' : k = t'
      · subst hk'; simp [TMap.del, TMap.get, hk]
      · simp [TMap.del, TMap.get, hk, hk', ih]

theorem set_set (m : TMap) (t : Bytes) (v w : List Nat) : (m.set t v).set t w = m.set t w := by
  induction m with
  | nil => simp [TMap.set]
  | cons e rest ih =>
    obtain ⟨k, u⟩ := e
    by_cases h : k = t
    · subst h; simp [TMap.set]
    · simp [TMap.set, h, ih]

/-! ## the per-type id list -/

/-- ids registered for type `t` -/
def typedIds (r : Registry) (t : Bytes) : List Nat := (r.byType.get t).getD []

theorem dispatch_eq (r : Registry) (t : Bytes) : r.dispatch t = typedIds r t ++ r.all := by
  unfold Registry.dispatch typedIds
  simp only []
  split
  · rename_i h
    have h' : ((r.byType.get t).getD []).length + r.all.length = 0 := by simpa using h
    have h1 : ((r.byType.get t).getD []).length = 0 := by omega
    have h2 : r.all.length = 0 := by omega
    rw [List.length_eq_zero_iff] at h1 h2
    simp [h1, h2]
  · rfl

theorem typedIds_add_same (r : Registry) (t : Bytes) :
    typedIds (r.addSubscriber t).1 t = typedIds r t ++ [r.next] := by
  unfold Registry.addSubscriber typedIds
  cases h : r.byType.get t with
  | none => simp [get_set_same]
  | some v => simp [get_set_same, h]

theorem typedIds_add_other (r : Registry) (t t' : Bytes) (h : t' ≠ t) :
    typedIds (r.addSubscriber t).1 t' = typedIds r t' := by
  unfold Registry.addSubscriber typedIds
  cases hg : r.byType.get t with
  | none => simp [get_set_other _ _ _ _ h]
  | some v => simp [get_set_other _ _ _ _ h]

theorem add_all (r : Registry) (t : Bytes) : (r.addSubscriber t).1.all = r.all := by
  simp [Registry.addSubscriber]

theorem add_next (r : Registry) (t : Bytes) : (r.addSubscriber t).1.next = r.next + 1 := by
  simp [Registry.addSubscriber]

theorem add_remover (r : Registry) (t : Bytes) : (r.addSubscriber t).2 = .typed t r.next := by
  simp [Registry.addSubscriber]

theorem typedIds_addAll (r : Registry) (t : Bytes) : typedIds r.addSubscriberToAll.1 t = typedIds r t := by
  simp [Registry.addSubscriberToAll, typedIds]

theorem remove_typed_none (r : Registry) (t : Bytes) (id : Nat) (h : r.byType.get t = none) :
    r.remove (.typed t id) = r := by simp [Registry.remove, h]

theorem remove_typed_empty (r : Registry) (t : Bytes) (id : Nat) (inner : List Nat) (h : r.byType.get t = some inner)
    (he : (inner.filter (· != id)).isEmpty = true) :
    r.remove (.typed t id) = { r with byType := r.byType.del t } := by simp [Registry.remove, h, he]

theorem remove_typed_nonempty (r : Registry) (t : Bytes) (id : Nat) (inner : List Nat) (h : r.byType.get t = some inner)
    (he : ¬ (inner.filter (· != id)).isEmpty = true) :
    r.remove (.typed t id) = { r with byType := r.byType.set t (inner.filter (· != id)) } := by
  simp [Registry.remove, h, he]

theorem typedIds_remove_typed_same (r : Registry) (t : Bytes) (id : Nat) :
    typedIds (r.remove (.typed t id)) t = (typedIds r t).filter (· != id) := by
  cases h : r.byType.get t with
  | none => rw [remove_typed_none _ _ _ h]; simp [typedIds, h]
  | some inner =>
    by_cases he : (inner.filter (· != id)).isEmpty = true
    · rw [remove_typed_empty _ _ _ _ h he]
      simp only [typedIds, get_del_same, h]
      simp only [List.isEmpty_iff] at he
      simp [he]
    · rw [remove_typed_nonempty _ _ _ _ h he]
      simp [typedIds, get_set_same, h]

theorem typedIds_remove_typed_other (r : Registry) (t t' : Bytes) (id : Nat) (h : t' ≠ t) :
    typedIds (r.remove (.typed t id)) t' = typedIds r t' := by
  cases hg : r.byType.get t with
  | none => rw [remove_typed_none _ _ _ hg]
  | some inner =>
    by_cases he : (inner.filter (· != id)).isEmpty = true
    · rw [remove_typed_empty _ _ _ _ hg he]; simp [typedIds, get_del_other _ _ _ h]
    · rw [remove_typed_nonempty _ _ _ _ hg he]; simp [typedIds, get_set_other _ _ _ _ h]

theorem all_remove_typed (r : Registry) (t : Bytes) (id : Nat) : (r.remove (.typed t id)).all = r.all := by
  cases hg : r.byType.get t with
  | none => rw [remove_typed_none _ _ _ hg]
  | some inner =>
    by_cases he : (inner.filter (· != id)).isEmpty = true
    · rw [remove_typed_empty _ _ _ _ hg he]
    · rw [remove_typed_nonempty _ _ _ _ hg he]

theorem next_remove (r : Registry) (rm : Remover) : (r.remove rm).next = r.next := by
  cases rm with
  | all id => simp [Registry.remove]
  | typed t id =>
    cases hg : r.byType.get t with
    | none => rw [remove_typed_none _ _ _ hg]
    | some inner =>
      by_cases he : (inner.filter (· != id)).isEmpty = true
      · rw [remove_typed_empty _ _ _ _ hg he]
      · rw [remove_typed_nonempty _ _ _ _ hg he]

theorem typedIds_remove_all (r : Registry) (t : Bytes) (id : Nat) : typedIds (r.remove (.all id)) t = typedIds r t := by
  simp [Registry.remove, typedIds]

theorem all_remove_all (r : Registry) (id : Nat) : (r.remove (.all id)).all = r.all.filter (· != id) := by
  simp [Registry.remove]

/-- removing is idempotent on the registry itself -/
theorem remove_remove (r : Registry) (rm : Remover) : (r.remove rm).remove rm = r.remove rm := by
  cases rm with
  | all id => simp [Registry.remove, List.filter_filter]
  | typed t id =>
    cases hg : r.byType.get t with
    | none =>
      have e : r.remove (.typed t id) = r := by simp [Registry.remove, hg]
      rw [e, e]
    | some inner =>
      by_cases he : (inner.filter (· != id)).isEmpty = true
      · have e : r.remove (.typed t id) = { r with byType := r.byType.del t } := by simp [Registry.remove, hg, he]
        rw [e]
        simp [Registry.remove, get_del_same]
      · have e : r.remove (.typed t id) = { r with byType := r.byType.set t (inner.filter (· != id)) } := by
          simp [Registry.remove, hg, he]
        rw [e]
        simp only [Registry.remove, get_set_same, List.filter_filter, Bool.and_self, he, set_set]
        simp

/-! ## model run vs specification run -/

def remOf (k : Nat) : Option Bytes → Remover
  | some t => .typed t k
  | none => .all k

theorem remOf_id (k : Nat) (f : Option Bytes) : (remOf k f).id = k := by cases f <;> rfl

theorem remOf_inj (k : Nat) (f g : Option Bytes) (h : remOf k f = remOf k g) : f = g := by
  cases f <;> cases g <;> simp_all [remOf]

def isTyped (t : Bytes) (s : Nat × Option Bytes) : Bool := s.2 == some t
def isAll (s : Nat × Option Bytes) : Bool := s.2 == none

/-- the relation between the model state and the specification state after the same script -/
structure Inv (ms : RegState) (ss : SubState) : Prop where
  next : ms.reg.next = ss.count
  len : ms.removers.length = ss.count
  ids : ∀ (k : Nat) (rm : Remover), ms.removers[k]? = some rm → rm.id = k
  live : ∀ (k : Nat) (f : Option Bytes), (k, f) ∈ ss.live → ms.removers[k]? = some (remOf k f)
  typed : ∀ t : Bytes, typedIds ms.reg t = (ss.live.filter (isTyped t)).map (·.1)
  all : ms.reg.all = (ss.live.filter isAll).map (·.1)
  bound : ∀ (k : Nat) (f : Option Bytes), (k, f) ∈ ss.live → k < ss.count
  nodup : (ss.live.map (·.1)).Nodup

theorem inv_init : Inv ({} : RegState) ({} : SubState) := by
  constructor <;> simp [typedIds, TMap.get]

theorem filter_map_fst_ne (l : List (Nat × Option Bytes)) (p : Nat × Option Bytes → Bool) (k : Nat) :
    ((l.filter (fun a => a.1 != k)).filter p).map (·.1) = ((l.filter p).map (·.1)).filter (· != k) := by
  induction l with
  | nil => simp
  | cons a l ih =>
    rw [List.filter_cons]
    by_cases h1 : a.1 = k
    · have e1 : (a.1 != k) = false := by simp [h1]
      simp only [e1, Bool.false_eq_true, if_false]
      rw [ih, List.filter_cons]
      by_cases h2 : p a = true
      · simp only [h2, if_true, List.map_cons, List.filter_cons, e1, Bool.false_eq_true, if_false]
      · simp [h2]
    · have e1 : (a.1 != k) = true := by simp [h1]
      simp only [e1, if_true]
      rw [List.filter_cons, List.filter_cons]
      by_cases h2 : p a = true
      · simp only [h2, if_true, List.map_cons, List.filter_cons, e1, ih]
      · simp only [h2, Bool.false_eq_true, if_false, ih]

theorem filter_ne_of_not_mem (l : List (Nat × Option Bytes)) (p : Nat × Option Bytes → Bool) (k : Nat)
    (h : ∀ f, (k, f) ∈ l → p (k, f) = false) :
    (l.filter (fun a => a.1 != k)).filter p = l.filter p := by
  induction l with
  | nil => simp
  | cons a l ih =>
    have ih' := ih (fun f hf => h f (List.mem_cons_of_mem _ hf))
    by_cases h1 : a.1 = k
    · have : p a = false := by
        have := h a.2 (by rw [← h1]; exact List.mem_cons_self)
        rw [← h1] at this; exact this
      simp [h1, this, ih']
    · simp [List.filter_cons, h1, ih']

theorem inv_step (ms : RegState) (ss : SubState) (op : ROp) (h : Inv ms ss) : Inv (ms.step op) (ss.step op) := by
  cases op with
  | sub ev =>
    have hfresh : ∀ f, (ss.count, f) ∉ ss.live := fun f hm => Nat.lt_irrefl _ (h.bound _ _ hm)
    constructor
    · simp [RegState.step, SubState.step, add_next, h.next]
    · simp [RegState.step, SubState.step, h.len]
    · intro k rm hk
      simp only [RegState.step] at hk
      rw [List.getElem?_append] at hk
      split at hk
      · exact h.ids k rm hk
      · rename_i hlt
        have : k = ms.removers.length := by
          rcases Nat.lt_or_ge (k - ms.removers.length) 1 with h1 | h1
          · omega
          · rw [List.getElem?_eq_none (by simpa using h1)] at hk; cases hk
        subst this
        simp [add_remover] at hk
        rw [← hk]; simp [Remover.id, h.next, h.len]
    · intro k f hm
      simp only [SubState.step, List.mem_append, List.mem_singleton] at hm
      simp only [RegState.step]
      rcases hm with hm | hm
      · have := h.live k f hm
        rw [List.getElem?_append_left (by have := h.bound k f hm; rw [h.len]; exact this)]
        exact this
      · cases hm
        rw [List.getElem?_append_right (by rw [h.len]; exact Nat.le_refl _)]
        simp [h.len, add_remover, remOf, h.next]
    · intro t
      simp only [RegState.step, SubState.step, List.filter_append, List.map_append]
      by_cases ht : t = ev
      · subst ht
        rw [typedIds_add_same, h.typed, h.next]
        simp [isTyped]
      · rw [typedIds_add_other _ _ _ ht, h.typed]
        have : isTyped t (ss.count, some ev) = false := by
          simp [isTyped]; exact fun e => ht e.symm
        simp [this]
    · simp only [RegState.step, SubState.step, add_all, h.all, List.filter_append, List.map_append]
      simp [isAll]
    · intro k f hm
      simp only [SubState.step, List.mem_append, List.mem_singleton] at hm ⊢
      rcases hm with hm | hm
      · have := h.bound k f hm; omega
      · cases hm; omega
    · simp only [SubState.step, List.map_append, List.map_cons, List.map_nil]
      rw [List.nodup_append]
      refine ⟨h.nodup, by simp, ?_⟩
      intro a ha b hb
      simp at hb; subst hb
      intro e; subst e
      obtain ⟨⟨k, f⟩, hm, rfl⟩ := List.mem_map.mp ha
      exact hfresh f hm
  | subAll =>
    have hfresh : ∀ f, (ss.count, f) ∉ ss.live := fun f hm => Nat.lt_irrefl _ (h.bound _ _ hm)
    constructor
    · simp [RegState.step, SubState.step, Registry.addSubscriberToAll, h.next]
    · simp [RegState.step, SubState.step, h.len]
    · intro k rm hk
      simp only [RegState.step] at hk
      rw [List.getElem?_append] at hk
      split at hk
      · exact h.ids k rm hk
      · rename_i hlt
        have : k = ms.removers.length := by
          rcases Nat.lt_or_ge (k - ms.removers.length) 1 with h1 | h1
          · omega
          · rw [List.getElem?_eq_none (by simpa using h1)] at hk; cases hk
        subst this
        simp [Registry.addSubscriberToAll] at hk
        rw [← hk]; simp [Remover.id, h.next, h.len]
    · intro k f hm
      simp only [SubState.step, List.mem_append, List.mem_singleton] at hm
      simp only [RegState.step]
      rcases hm with hm | hm
      · have := h.live k f hm
        rw [List.getElem?_append_left (by have := h.bound k f hm; rw [h.len]; exact this)]
        exact this
      · cases hm
        rw [List.getElem?_append_right (by rw [h.len]; exact Nat.le_refl _)]
        simp [h.len, Registry.addSubscriberToAll, remOf, h.next]
    · intro t
      simp only [RegState.step, SubState.step, List.filter_append, List.map_append]
      rw [typedIds_addAll, h.typed]
      simp [isTyped]
    · simp only [RegState.step, SubState.step, List.filter_append, List.map_append]
      simp [Registry.addSubscriberToAll, h.all, h.next, isAll]
    · intro k f hm
      simp only [SubState.step, List.mem_append, List.mem_singleton] at hm ⊢
      rcases hm with hm | hm
      · have := h.bound k f hm; omega
      · cases hm; omega
    · simp only [SubState.step, List.map_append, List.map_cons, List.map_nil]
      rw [List.nodup_append]
      refine ⟨h.nodup, by simp, ?_⟩
      intro a ha b hb
      simp at hb; subst hb
      intro e; subst e
      obtain ⟨⟨k, f⟩, hm, rfl⟩ := List.mem_map.mp ha
      exact hfresh f hm
  | event typ =>
    constructor
    · simpa [RegState.step, SubState.step] using h.next
    · simpa [RegState.step, SubState.step] using h.len
    · simpa [RegState.step, SubState.step] using h.ids
    · simpa [RegState.step, SubState.step] using h.live
    · simpa [RegState.step, SubState.step] using h.typed
    · simpa [RegState.step, SubState.step] using h.all
    · simpa [RegState.step, SubState.step] using h.bound
    · simpa [RegState.step, SubState.step] using h.nodup
  | unsub k =>
    cases hr : ms.removers[k]? with
    | none =>
      -- no such remover: the k-th subscription does not exist, so nothing is live under k
      have hk : ss.count ≤ k := by
        rw [List.getElem?_eq_none_iff] at hr; rw [← h.len]; exact hr
      have hnone : ss.live.filter (·.1 != k) = ss.live := by
        rw [List.filter_eq_self]
        intro a ha
        have := h.bound a.1 a.2 ha
        simp; omega
      have e1 : ms.step (.unsub k) = ms := by simp [RegState.step, hr]
      have e2 : ss.step (.unsub k) = ss := by simp [SubState.step, hnone]
      rw [e1, e2]; exact h
    | some rm =>
      have hid := h.ids k rm hr
      have e1 : ms.step (.unsub k) = { ms with reg := ms.reg.remove rm } := by simp [RegState.step, hr]
      rw [e1]
      have hsub : ∀ a, a ∈ ss.live.filter (·.1 != k) → a ∈ ss.live := fun a ha => (List.mem_filter.mp ha).1
      -- whatever is live under k was registered by this very remover
      have hlive : ∀ f, (k, f) ∈ ss.live → rm = remOf k f := by
        intro f hf
        have := h.live k f hf
        rw [hr] at this; exact Option.some.inj this
      constructor
      · simp [SubState.step, next_remove, h.next]
      · simpa [SubState.step] using h.len
      · simpa using h.ids
      · intro k' f hm
        exact h.live k' f (hsub _ hm)
      · intro t
        simp only [SubState.step]
        cases rm with
        | all id =>
          rw [typedIds_remove_all, h.typed]
          congr 1
          symm
          apply filter_ne_of_not_mem
          intro f hf
          have := hlive f hf
          cases f with
          | none => simp [isTyped]
          | some t' => simp [remOf] at this
        | typed t' id =>
          simp [Remover.id] at hid
          subst hid
          by_cases ht : t = t'
          · subst ht
            rw [typedIds_remove_typed_same, h.typed, filter_map_fst_ne]
          · rw [typedIds_remove_typed_other _ _ _ _ ht, h.typed]
            congr 1
            symm
            apply filter_ne_of_not_mem
            intro f hf
            have := hlive f hf
            cases f with
            | none => simp [isTyped]
            | some t'' =>
              simp [remOf] at this
              simp [isTyped]; intro e; exact ht (e ▸ this.symm ▸ rfl)
      · simp only [SubState.step]
        cases rm with
        | all id =>
          simp [Remover.id] at hid
          subst hid
          rw [all_remove_all, h.all, filter_map_fst_ne]
        | typed t' id =>
          rw [all_remove_typed, h.all]
          congr 1
          symm
          apply filter_ne_of_not_mem
          intro f hf
          have := hlive f hf
          cases f with
          | none => simp [remOf] at this
          | some t'' => simp [isAll]
      · intro k' f hm
        exact h.bound k' f (hsub _ hm)
      · simp only [SubState.step]
        exact List.Nodup.sublist (List.Sublist.map _ List.filter_sublist) h.nodup

theorem inv_run_from (ops : List ROp) (ms : RegState) (ss : SubState) (h : Inv ms ss) :
    Inv (ops.foldl RegState.step ms) (ops.foldl SubState.step ss) := by
  induction ops generalizing ms ss with
  | nil => exact h
  | cons op ops ih => exact ih _ _ (inv_step ms ss op h)

theorem inv_run (ops : List ROp) : Inv (runScript ops) (specScript ops) :=
  inv_run_from ops {} {} inv_init

/-- two logs agree entry by entry up to permutation -/
inductive LogsPerm : List (List Nat) → List (List Nat) → Prop
  | nil : LogsPerm [] []
  | cons {a b : List Nat} {l m : List (List Nat)} : a.Perm b → LogsPerm l m → LogsPerm (a :: l) (b :: m)

theorem LogsPerm.append {l m l' m' : List (List Nat)} (h : LogsPerm l m) (h' : LogsPerm l' m') :
    LogsPerm (l ++ l') (m ++ m') := by
  induction h with
  | nil => exact h'
  | cons hp _ ih => exact LogsPerm.cons hp ih

/-- `matchesSub` splits into the typed and the subscribe-to-all part -/
theorem matches_perm (l : List (Nat × Option Bytes)) (t : Bytes) :
    ((l.filter (isTyped t)).map (·.1) ++ (l.filter isAll).map (·.1)).Perm ((l.filter (matchesSub t)).map (·.1)) := by
  induction l with
  | nil => simp
  | cons a l ih =>
    obtain ⟨k, f⟩ := a
    cases f with
    | none =>
      have h1 : isTyped t (k, none) = false := by simp [isTyped]
      have h2 : isAll (k, none) = true := by simp [isAll]
      have h3 : matchesSub t (k, none) = true := by simp [matchesSub]
      simp only [List.filter_cons, h1, h2, h3, if_true, List.map_cons]
      simp only [Bool.false_eq_true, if_false]
      exact (List.perm_middle).trans (List.Perm.cons _ ih)
    | some t' =>
      by_cases ht : t' = t
      · have h1 : isTyped t (k, some t') = true := by simp [isTyped, ht]
        have h2 : isAll (k, some t') = false := by simp [isAll]
        have h3 : matchesSub t (k, some t') = true := by simp [matchesSub, ht]
        simp only [List.filter_cons, h1, h2, h3, if_true, List.map_cons, List.cons_append]
        simp only [Bool.false_eq_true, if_false]
        exact List.Perm.cons _ ih
      · have h1 : isTyped t (k, some t') = false := by simp [isTyped, ht]
        have h2 : isAll (k, some t') = false := by simp [isAll]
        have h3 : matchesSub t (k, some t') = false := by simp [matchesSub, ht]
        simp only [List.filter_cons, h1, h2, h3]
        simp only [Bool.false_eq_true, if_false]
        exact ih

/-- the log of the model is, entry by entry, a permutation of the specification's log -/
theorem log_rel_from (ops : List ROp) (ms : RegState) (ss : SubState) (h : Inv ms ss)
    (hl : LogsPerm ms.log ss.log) :
    LogsPerm (ops.foldl RegState.step ms).log (ops.foldl SubState.step ss).log := by
  induction ops generalizing ms ss with
  | nil => exact hl
  | cons op ops ih =>
    apply ih _ _ (inv_step ms ss op h)
    cases op with
    | event typ =>
      simp only [RegState.step, SubState.step]
      apply LogsPerm.append hl
      refine LogsPerm.cons ?_ LogsPerm.nil
      rw [dispatch_eq, h.typed, h.all]
      exact matches_perm _ _
    | sub ev => simpa [RegState.step, SubState.step] using hl
    | subAll => simpa [RegState.step, SubState.step] using hl
    | unsub k =>
      simp only [RegState.step, SubState.step]
      split <;> exact hl

theorem foldl_step_append (ops : List ROp) (ms : RegState) :
    ∃ rest, (ops.foldl RegState.step ms).log = ms.log ++ rest := by
  induction ops generalizing ms with
  | nil => exact ⟨[], by simp⟩
  | cons op ops ih =>
    obtain ⟨rest, hr⟩ := ih (ms.step op)
    cases op with
    | event typ =>
      refine ⟨ms.reg.dispatch typ :: rest, ?_⟩
      simp only [List.foldl_cons, hr]
      simp [RegState.step]
    | sub ev => exact ⟨rest, by simpa [RegState.step] using hr⟩
    | subAll => exact ⟨rest, by simpa [RegState.step] using hr⟩
    | unsub k =>
      refine ⟨rest, ?_⟩
      simp only [List.foldl_cons, hr]
      simp only [RegState.step]
      split <;> rfl

end GoSSE.Proofs.ClientRegistry
