import GoSSE.Model.Finite
import GoSSE.Model.Valid
/-!
Helper definitions and lemmas for the ring buffer `queue` of `replay.go`:
the abstraction `abs`, the well-formedness invariant `WF`, and how
`enqueue / dequeue / resize / each` act on them.
-/
namespace GoSSE.Proofs
open GoSSE GoSSE.Spec GoSSE.Model

/-- `omega` after splitting up to three `if`s -/
macro "somega" : tactic => `(tactic| first
  | omega
  | (split <;> omega)
  | (split <;> split <;> omega)
  | (split <;> split <;> split <;> omega)
  | ((repeat' split) <;> omega))

/-- index of the `k`-th live element: conditional wrap, no `%` -/
def idx (q : Queue) (k : Nat) : Nat :=
  if q.head + k < q.buf.length then q.head + k else q.head + k - q.buf.length

/-- content of slot `i` (`none` also when out of range; only used below `buf.length`) -/
def slotAt (q : Queue) (i : Nat) : Slot := (q.buf[i]?).join

/-- the `count` slots from `head`, in order -/
def slots (q : Queue) : List Slot := (List.range q.count).map fun k => slotAt q (idx q k)

/-- the abstraction: the stored entries, oldest first -/
def abs (q : Queue) : List Entry := (slots q).filterMap id

/-- index `i` lies in the live range -/
def isLive (q : Queue) (i : Nat) : Prop :=
  if q.head + q.count ≤ q.buf.length then q.head ≤ i ∧ i < q.head + q.count
  else q.head ≤ i ∨ i + q.buf.length < q.head + q.count

structure WF (q : Queue) : Prop where
  cnt : q.count ≤ q.buf.length
  hd : q.head < q.buf.length ∨ (q.buf.length = 0 ∧ q.head = 0)
  tl : q.tail < q.buf.length ∨ (q.buf.length = 0 ∧ q.tail = 0)
  ring : q.head + q.count = q.tail ∨ q.head + q.count = q.tail + q.buf.length
  live : ∀ k, k < q.count → ∃ e, q.buf[idx q k]? = some (some e)

/-- every slot outside the live range holds the zero value (C18, ValidReplayer) -/
def DeadZero (q : Queue) : Prop := ∀ i, i < q.buf.length → ¬ isLive q i → q.buf[i]? = some none

theorem slots_length (q : Queue) : (slots q).length = q.count := by simp [slots]

theorem slots_getElem? (q : Queue) (i : Nat) :
    (slots q)[i]? = if i < q.count then some (slotAt q (idx q i)) else none := by
  unfold slots
  by_cases h : i < q.count
  · simp [h]
  · simp [h]

theorem WF.slots_eq {q : Queue} (h : WF q) : slots q = (abs q).map some := by
  unfold abs
  have : ∀ s ∈ slots q, ∃ e, s = some e := by
    intro s hs
    unfold slots at hs
    simp only [List.mem_map, List.mem_range] at hs
    obtain ⟨k, hk, rfl⟩ := hs
    obtain ⟨e, he⟩ := h.live k hk
    exact ⟨e, by simp [slotAt, he]⟩
  generalize slots q = l at this
  induction l with
  | nil => simp
  | cons a t ih =>
    obtain ⟨e, rfl⟩ := this a (by simp)
    simp
    exact ih (fun s hs => this s (by simp [hs]))

theorem abs_length {q : Queue} (h : WF q) : (abs q).length = q.count := by
  have := congrArg List.length h.slots_eq
  simpa [slots_length] using this.symm

/-- full ↔ `head = tail ∧ count = len` (for a non-empty backing array) -/
theorem WF.full_iff {q : Queue} (h : WF q) (hn : 0 < q.buf.length) :
    q.count = q.buf.length ↔ (q.head = q.tail ∧ q.count ≠ 0) := by
  have := h.cnt; have := h.hd; have := h.tl; have := h.ring
  omega


/-! ## enqueue -/

def wrapSucc (q : Queue) (i : Nat) : Nat := if i + 1 = q.buf.length then 0 else i + 1

theorem enqueue_notfull {q : Queue} (h : WF q) (hc : q.count < q.buf.length) (e : Entry) :
    q.enqueue e = .ok { buf := q.buf.set q.tail (some e), head := q.head, tail := wrapSucc q q.tail,
                        count := q.count + 1 } := by
  have := h.tl
  have hne : q.count ≠ q.buf.length := by omega
  unfold Queue.enqueue wrapSucc
  have ht : q.tail < q.buf.length := by omega
  simp only [ht, if_true, List.length_set, hne, decide_false, Bool.and_false, Bool.false_eq_true, if_false]
  split <;> rfl

theorem enqueue_full {q : Queue} (h : WF q) (hn : 0 < q.buf.length) (hc : q.count = q.buf.length) (e : Entry) :
    q.enqueue e = .ok { buf := q.buf.set q.tail (some e), head := wrapSucc q q.tail, tail := wrapSucc q q.tail,
                        count := q.count } := by
  have := h.tl
  have hht : q.head = q.tail := ((h.full_iff hn).1 hc).1
  unfold Queue.enqueue wrapSucc
  have ht : q.tail < q.buf.length := by omega
  have hgt : q.tail + 1 > q.head := by omega
  simp only [ht, if_true, List.length_set, hc, hgt, decide_true, Bool.and_true, if_true]
  split <;> rfl


theorem takeLast_getElem? (n : Nat) (l : List α) (i : Nat) :
    (takeLast n l)[i]? = l[l.length - n + i]? := by
  simp [takeLast]

theorem enqueue_wf_slots {q : Queue} (h : WF q) (hn : 0 < q.buf.length) (e : Entry) :
    ∃ q', q.enqueue e = .ok q' ∧ WF q' ∧ q'.buf.length = q.buf.length ∧
      slots q' = takeLast q.buf.length (slots q ++ [some e]) := by
  have hcnt := h.cnt; have hhd := h.hd; have htl := h.tl; have hring := h.ring
  by_cases hc : q.count < q.buf.length
  · refine ⟨_, enqueue_notfull h hc e, ?_, by simp, ?_⟩
    · constructor
      · simp; omega
      · simp; omega
      · simp [wrapSucc]; somega
      · simp [wrapSucc]; somega
      · intro k hk
        simp only [idx, List.length_set] at *
        simp only [List.getElem?_set]
        by_cases hk' : k < q.count
        · obtain ⟨x, hx⟩ := h.live k hk'
          simp only [idx] at hx
          refine ⟨x, ?_⟩
          rw [if_neg (by split <;> omega)]
          exact hx
        · refine ⟨e, ?_⟩
          have : k = q.count := by omega
          subst this
          rw [if_pos (by split <;> omega)]
          simp; omega
    · apply List.ext_getElem?
      intro i
      rw [takeLast_getElem?, slots_getElem?]
      simp only [List.length_append, slots_length, List.length_cons, List.length_nil]
      have : q.count + (0 + 1) - q.buf.length + i = i := by omega
      rw [this, List.getElem?_append]
      simp only [slots_length, slots_getElem?]
      by_cases hi : i < q.count
      · have hi' : i < q.count + 1 := by omega
        simp only [hi, hi', if_true]
        congr 1
        simp only [slotAt, idx, List.length_set, List.getElem?_set]
        rw [if_neg (by split <;> omega)]
      · by_cases hi2 : i = q.count
        · subst hi2
          simp only [Nat.lt_irrefl, if_false, Nat.sub_self, Nat.lt_succ_self, if_true]
          simp only [slotAt, idx, List.length_set, List.getElem?_set]
          rw [if_pos (by split <;> omega)]
          have : q.tail < q.buf.length := by omega
          simp [this]
        · have : ¬ i < q.count + 1 := by omega
          simp only [hi, this, if_false]
          have : i - q.count ≠ 0 := by omega
          simp; omega
  · have hc' : q.count = q.buf.length := by omega
    have hht : q.head = q.tail := ((h.full_iff hn).1 hc').1
    refine ⟨_, enqueue_full h hn hc' e, ?_, by simp, ?_⟩
    · constructor
      · simp; omega
      · simp [wrapSucc]; somega
      · simp [wrapSucc]; somega
      · simp [wrapSucc]; somega
      · intro k hk
        simp only [idx, List.length_set, wrapSucc] at *
        simp only [List.getElem?_set]
        by_cases hk' : k + 1 < q.count
        · obtain ⟨x, hx⟩ := h.live (k + 1) hk'
          simp only [idx] at hx
          refine ⟨x, ?_⟩
          rw [if_neg (by split <;> split <;> omega)]
          rw [← hx]
          congr 1
          split <;> split <;> split <;> omega
        · refine ⟨e, ?_⟩
          rw [if_pos (by split <;> split <;> omega)]
          simp; omega
    · apply List.ext_getElem?
      intro i
      rw [takeLast_getElem?, slots_getElem?]
      simp only [List.length_append, slots_length, List.length_cons, List.length_nil]
      have : q.count + (0 + 1) - q.buf.length + i = i + 1 := by omega
      rw [this, List.getElem?_append]
      simp only [slots_length, slots_getElem?]
      by_cases hi : i + 1 < q.count
      · have hi' : i < q.count := by omega
        simp only [hi, hi', if_true]
        congr 1
        simp only [slotAt, idx, List.length_set, List.getElem?_set, wrapSucc]
        rw [if_neg (by split <;> split <;> omega)]
        congr 2
        split <;> split <;> split <;> omega
      · by_cases hi2 : i + 1 = q.count
        · have hi' : i < q.count := by omega
          simp only [hi, hi', if_true, if_false]
          have : i + 1 - q.count = 0 := by omega
          simp only [this, List.getElem?_cons_zero]
          congr 1
          simp only [slotAt, idx, List.length_set, List.getElem?_set, wrapSucc]
          rw [if_pos (by split <;> split <;> omega)]
          have : q.tail < q.buf.length := by omega
          simp [this]
        · have : ¬ i < q.count := by omega
          simp only [hi, this, if_false]
          have : i + 1 - q.count ≠ 0 := by omega
          simp; omega


theorem takeLast_map (f : α → β) (n : Nat) (l : List α) : takeLast n (l.map f) = (takeLast n l).map f := by
  simp [takeLast, List.map_drop]

theorem filterMap_id_map_some (l : List α) : (l.map some).filterMap id = l := by
  induction l with
  | nil => rfl
  | cons a t ih => simp [ih]

/-- C08 core: `enqueue` appends and keeps the last `len(buf)` entries. -/
theorem enqueue_abs {q : Queue} (h : WF q) (hn : 0 < q.buf.length) (e : Entry) :
    ∃ q', q.enqueue e = .ok q' ∧ WF q' ∧ q'.buf.length = q.buf.length ∧
      abs q' = takeLast q.buf.length (abs q ++ [e]) := by
  obtain ⟨q', he, hw, hl, hs⟩ := enqueue_wf_slots h hn e
  refine ⟨q', he, hw, hl, ?_⟩
  unfold abs
  rw [hs, h.slots_eq]
  have : List.map some (abs q) ++ [some e] = (abs q ++ [e]).map some := by simp
  rw [this, takeLast_map, filterMap_id_map_some]
  simp [abs]

/-- `enqueue` keeps the dead slots zero (when full there are no dead slots). -/
theorem enqueue_deadZero {q : Queue} (h : WF q) (hn : 0 < q.buf.length) (hd : DeadZero q) (e : Entry) :
    ∀ q', q.enqueue e = .ok q' → DeadZero q' := by
  have hcnt := h.cnt; have hhd := h.hd; have htl := h.tl; have hring := h.ring
  intro q' hq'
  by_cases hc : q.count < q.buf.length
  · rw [enqueue_notfull h hc e] at hq'
    cases hq'
    intro i hi hnl
    simp only [List.length_set] at hi
    simp only [isLive, List.length_set] at hnl
    simp only [List.getElem?_set]
    have hne : q.tail ≠ i := by
      intro ht; subst ht; apply hnl; somega
    rw [if_neg hne]
    apply hd i hi
    intro hl; apply hnl
    simp only [isLive] at hl
    revert hl
    somega
  · have hc' : q.count = q.buf.length := by omega
    rw [enqueue_full h hn hc' e] at hq'
    cases hq'
    intro i hi hnl
    exfalso; apply hnl
    simp only [List.length_set] at hi
    simp only [isLive, List.length_set, wrapSucc]
    somega

end GoSSE.Proofs
