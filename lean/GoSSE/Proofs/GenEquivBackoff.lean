import GoSSE.Gen.Backoff
import GoSSE.Model.Backoff
/-!
# The back-off controller of client.go as translated = the model of `Model/Backoff.lean`

`backoffController.reset / next`, `nextInterval`, `growInterval`. In the translated text `float64` is an abstract
carrier `φ` with the operations the Go code performs (`fo : GoRT.FloatI φ`, nothing assumed of them), the PRNG is the
list of its coming draws, the clock reading of a call is a parameter. The hand-written model is stated over three
abstract float computations (`Floats`: `grow`, `capped`, `jitter`): `floatsOf` spells them out in terms of `fo`, the
`Backoff`'s `Multiplier` / `Jitter` and the draw at hand, and with them one call of the translated `next` / `reset` is
one step of the model (`Ctl.next`, `Ctl.reset`) — for every float implementation, every configuration, every state.
-/
set_option linter.unusedSimpArgs false
set_option linter.unusedVariables false
namespace GoSSE.GenEquiv
open GoSSE GoSSE.GoRT GoSSE.Model.Client

variable {φ : Type}

/-- the configuration as the model's controller sees it -/
def cfgOf (fo : FloatI φ) (b : Gen.Backoff φ) : Cfg :=
  { initialInterval := b.InitialInterval, maxInterval := b.MaxInterval, maxElapsedTime := b.MaxElapsedTime,
    maxRetries := b.MaxRetries, jitterOff := fo.eq b.Jitter (fo.lit (-1) 1) }

@[simp] theorem cfgOf_maxRetries (fo : FloatI φ) (b : Gen.Backoff φ) : (cfgOf fo b).maxRetries = b.MaxRetries := rfl
@[simp] theorem cfgOf_maxElapsedTime (fo : FloatI φ) (b : Gen.Backoff φ) : (cfgOf fo b).maxElapsedTime = b.MaxElapsedTime := rfl
@[simp] theorem cfgOf_maxInterval (fo : FloatI φ) (b : Gen.Backoff φ) : (cfgOf fo b).maxInterval = b.MaxInterval := rfl
@[simp] theorem cfgOf_initialInterval (fo : FloatI φ) (b : Gen.Backoff φ) : (cfgOf fo b).initialInterval = b.InitialInterval := rfl

/-- the model's three float computations, as the source text performs them with `fo` (the draw `d` is the next one of
the generator) -/
def floatsOf (fo : FloatI φ) (b : Gen.Backoff φ) (d : φ) : Floats :=
  { grow := fun cur => fo.toInt (fo.mul (fo.ofInt cur) b.Multiplier),
    capped := fun cur mx => fo.le (fo.div (fo.ofInt mx) b.Multiplier) (fo.ofInt cur),
    jitter := fun cur _ =>
      fo.toInt (fo.add (fo.sub (fo.ofInt cur) (fo.mul b.Jitter (fo.ofInt cur)))
        (fo.mul d (fo.add (fo.sub (fo.add (fo.ofInt cur) (fo.mul b.Jitter (fo.ofInt cur))) (fo.sub (fo.ofInt cur) (fo.mul b.Jitter (fo.ofInt cur)))) (fo.lit 1 1)))) }

def ctlOf (c : Gen.backoffController φ) : Ctl := { start := c.start, interval := c.interval, numRetries := c.numRetries }

/-- the translated controller with the model's fields put back -/
def withCtl (c : Gen.backoffController φ) (k : Ctl) (rng : List φ) : Gen.backoffController φ :=
  { c with start := k.start, interval := k.interval, numRetries := k.numRetries, rng := rng }

/-- the retry limit refuses: `next` returns before it touches anything -/
def refused (cfg : Cfg) (k : Ctl) : Bool := decide (cfg.maxRetries < 0) || (decide (cfg.maxRetries > 0) && k.numRetries == cfg.maxRetries)

theorem growInterval_eq (fo : FloatI φ) (fuel : Nat) (b : Gen.Backoff φ) (d : φ) (cur : Int) :
    Gen.growInterval fo fuel cur b.MaxInterval b.Multiplier = .ok (growInterval (floatsOf fo b d) cur b.MaxInterval) := by
  unfold Gen.growInterval growInterval floatsOf
  by_cases h : (decide (b.MaxInterval > 0) && fo.le (fo.div (fo.ofInt b.MaxInterval) b.Multiplier) (fo.ofInt cur)) = true
  · simp [h, pure, Except.pure]
  · simp [h, pure, Except.pure]

theorem nextInterval_eq (fo : FloatI φ) (fuel : Nat) (b : Gen.Backoff φ) (d : φ) (rest : List φ) (cur : Int) :
    Gen.nextInterval fo fuel b.Jitter (d :: rest) cur =
      .ok (nextInterval (cfgOf fo b) (floatsOf fo b d) cur 0, if (cfgOf fo b).jitterOff then d :: rest else rest) := by
  unfold Gen.nextInterval nextInterval cfgOf floatsOf
  by_cases h : fo.eq b.Jitter (fo.lit (-1) 1) = true
  · simp [h, pure, Except.pure]
  · simp [h, pure, Except.pure, rngFloat64, bind, Except.bind]

theorem nextInterval_eq_off (fo : FloatI φ) (fuel : Nat) (b : Gen.Backoff φ) (d : φ) (rng : List φ) (cur : Int)
    (hoff : (cfgOf fo b).jitterOff = true) :
    Gen.nextInterval fo fuel b.Jitter rng cur = .ok (nextInterval (cfgOf fo b) (floatsOf fo b d) cur 0, rng) := by
  unfold Gen.nextInterval nextInterval
  simp only [cfgOf] at hoff
  simp [hoff, cfgOf, pure, Except.pure]

/-- `reset` as translated: the model's `Ctl.reset` at the clock reading of the call -/
theorem reset_eq (fo : FloatI φ) (fuel : Nat) (c : Gen.backoffController φ) (b : Gen.Backoff φ) (hb : c.b = some b)
    (newInterval now : Int) :
    Gen.backoffController_reset fo fuel c newInterval now =
      .ok (withCtl c (Ctl.reset (cfgOf fo b) (ctlOf c) newInterval now) c.rng) := by
  unfold Gen.backoffController_reset Ctl.reset withCtl cfgOf
  by_cases h : newInterval > 0
  · simp [h, pure, Except.pure]
  · simp [h, hb, derefPtr, pure, Except.pure, bind, Except.bind]

/-- what `next` returns for the model's answer -/
def nextRes (c : Gen.backoffController φ) (r : Ctl × Option Int) (rng : List φ) : Int × Bool × Gen.backoffController φ :=
  (r.2.getD 0, r.2.isSome, withCtl c r.1 rng)

/-- one `next`, given what `nextInterval` (`ni`, and the generator afterwards) and `growInterval` (`gi`) answer -/
def stepPure (b : Gen.Backoff φ) (st iv nr now ni gi : Int) : Ctl × Option Int :=
  if b.MaxRetries < 0 ∨ (0 < b.MaxRetries ∧ nr = b.MaxRetries) then ({ start := st, interval := iv, numRetries := nr }, none)
  else if 0 < b.MaxElapsedTime ∧ b.MaxElapsedTime < now - st + ni then ({ start := st, interval := gi, numRetries := nr + 1 }, none)
  else ({ start := st, interval := gi, numRetries := nr + 1 }, some ni)

theorem model_next_core (cfg : Cfg) (fl : Floats) (b : Gen.Backoff φ) (st iv nr now ni gi : Int)
    (h1 : cfg.maxRetries = b.MaxRetries) (h2 : cfg.maxElapsedTime = b.MaxElapsedTime) (h3 : cfg.maxInterval = b.MaxInterval)
    (hN : nextInterval cfg fl iv 0 = ni) (hG : growInterval fl iv b.MaxInterval = gi) :
    Ctl.next cfg fl { start := st, interval := iv, numRetries := nr } now 0 = stepPure b st iv nr now ni gi := by
  unfold Ctl.next stepPure
  simp only [h1, h2, h3, hN, hG]
  by_cases a : b.MaxRetries < 0
  · simp [a]
  · by_cases a2 : 0 < b.MaxRetries
    · by_cases a3 : nr = b.MaxRetries
      · simp [a, a2, a3]
      · by_cases a4 : 0 < b.MaxElapsedTime
        · by_cases a5 : b.MaxElapsedTime < now - st + ni <;> simp [a, a2, a3, a4, a5]
        · simp [a, a2, a3, a4]
    · by_cases a4 : 0 < b.MaxElapsedTime
      · by_cases a5 : b.MaxElapsedTime < now - st + ni <;> simp [a, a2, a4, a5]
      · simp [a, a2, a4]

theorem gen_next_core (fo : FloatI φ) (fuel : Nat) (b : Gen.Backoff φ) (rng rngJ : List φ) (st iv nr now ni gi : Int)
    (hN : Gen.nextInterval fo fuel b.Jitter rng iv = .ok (ni, rngJ))
    (hG : Gen.growInterval fo fuel iv b.MaxInterval b.Multiplier = .ok gi) :
    Gen.backoffController_next fo fuel { start := st, rng := rng, b := some b, interval := iv, numRetries := nr } now =
      .ok (nextRes { start := st, rng := rng, b := some b, interval := iv, numRetries := nr } (stepPure b st iv nr now ni gi)
        (if b.MaxRetries < 0 ∨ (0 < b.MaxRetries ∧ nr = b.MaxRetries) then rng else rngJ)) := by
  unfold Gen.backoffController_next stepPure nextRes
  simp only [derefPtr, bind, Except.bind, pure, Except.pure, hN, hG]
  by_cases a : b.MaxRetries < 0
  · simp [a, withCtl]
  · by_cases a2 : 0 < b.MaxRetries
    · by_cases a3 : nr = b.MaxRetries
      · simp [a, a2, a3, withCtl]
      · by_cases a4 : 0 < b.MaxElapsedTime
        · by_cases a5 : b.MaxElapsedTime < now - st + ni <;> simp [a, a2, a3, a4, a5, withCtl]
        · simp [a, a2, a3, a4, withCtl]
    · by_cases a4 : 0 < b.MaxElapsedTime
      · by_cases a5 : b.MaxElapsedTime < now - st + ni <;> simp [a, a2, a4, a5, withCtl]
      · simp [a, a2, a4, withCtl]

theorem refused_iff (fo : FloatI φ) (b : Gen.Backoff φ) (k : Ctl) :
    refused (cfgOf fo b) k = true ↔ (b.MaxRetries < 0 ∨ (0 < b.MaxRetries ∧ k.numRetries = b.MaxRetries)) := by
  show (decide (b.MaxRetries < 0) || (decide (b.MaxRetries > 0) && k.numRetries == b.MaxRetries)) = true ↔ _
  simp

/-- `next` as translated, with a draw at hand: the model's `Ctl.next`; the draw is consumed exactly when the retry limit
does not refuse and jitter is on -/
theorem next_eq (fo : FloatI φ) (fuel : Nat) (c : Gen.backoffController φ) (b : Gen.Backoff φ) (hb : c.b = some b)
    (d : φ) (rest : List φ) (hr : c.rng = d :: rest) (now : Int) :
    Gen.backoffController_next fo fuel c now =
      .ok (nextRes c (Ctl.next (cfgOf fo b) (floatsOf fo b d) (ctlOf c) now 0)
        (if refused (cfgOf fo b) (ctlOf c) || (cfgOf fo b).jitterOff then c.rng else rest)) := by
  cases c with
  | mk st rng cb iv nr =>
  simp only at hb hr
  subst hb hr
  rw [gen_next_core fo fuel b (d :: rest) _ st iv nr now _ _ (nextInterval_eq fo fuel b d rest iv) (growInterval_eq fo fuel b d iv)]
  dsimp only [ctlOf]
  rw [model_next_core (cfgOf fo b) (floatsOf fo b d) b st iv nr now _ _ rfl rfl rfl rfl rfl]
  congr 2
  by_cases hrf : (b.MaxRetries < 0 ∨ (0 < b.MaxRetries ∧ nr = b.MaxRetries))
  · have := (refused_iff fo b { start := st, interval := iv, numRetries := nr }).2 hrf
    simp [hrf, this]
  · have : refused (cfgOf fo b) { start := st, interval := iv, numRetries := nr } = false := by
      cases h : refused (cfgOf fo b) { start := st, interval := iv, numRetries := nr }
      · rfl
      · exact absurd ((refused_iff fo b _).1 h) hrf
    simp only [hrf, if_false, this, Bool.false_or]

/-- `next` as translated when jitter is off (`Jitter == -1`): no draw is needed, whatever the generator holds -/
theorem next_eq_off (fo : FloatI φ) (fuel : Nat) (c : Gen.backoffController φ) (b : Gen.Backoff φ) (hb : c.b = some b)
    (d : φ) (hoff : (cfgOf fo b).jitterOff = true) (now : Int) :
    Gen.backoffController_next fo fuel c now =
      .ok (nextRes c (Ctl.next (cfgOf fo b) (floatsOf fo b d) (ctlOf c) now 0) c.rng) := by
  cases c with
  | mk st rng cb iv nr =>
  simp only at hb
  subst hb
  rw [gen_next_core fo fuel b rng _ st iv nr now _ _ (nextInterval_eq_off fo fuel b d rng iv hoff) (growInterval_eq fo fuel b d iv)]
  dsimp only [ctlOf]
  rw [model_next_core (cfgOf fo b) (floatsOf fo b d) b st iv nr now _ _ rfl rfl rfl rfl rfl]
  simp

end GoSSE.GenEquiv
