import GoSSE.Model.Parser
/-!
Helper lemmas: go-sse's `NewlineIndex`/`NextChunk` iteration coincides with the
specification's byte-at-a-time line splitter.
-/
namespace GoSSE.Proofs
open GoSSE GoSSE.Spec GoSSE.Model

/-- iterated `NextChunk`, as `FieldParser.Next` and `appendText` do it: the complete
lines and the unterminated rest -/
def chunks : Nat → Bytes → List Bytes × Bytes
  | 0, s => ([], s)
  | f + 1, s =>
    if s.isEmpty then ([], []) else
    let r := nextChunk s
    if !r.2.2 then ([], s) else
      let q := chunks f r.2.1
      (r.1 :: q.1, q.2)

theorem splitLines_skip_nonLF (b : Byte) (t acc : Bytes) (h : b ≠ 10) :
    splitLines (b :: t) acc true = splitLines (b :: t) acc false := by
  simp [splitLines, h]

/-- the skip flag only matters when the next byte is LF -/
theorem splitLines_true_eq (s : Bytes) :
    splitLines s [] true = splitLines (if s.head? = some 10 then s.tail else s) [] false := by
  cases s with
  | nil => simp [splitLines]
  | cons b t =>
    by_cases h : b = 10
    · subst h; simp [splitLines]
    · rw [splitLines_skip_nonLF _ _ _ h]; simp [h]

theorem splitLines_acc (s acc : Bytes) :
    splitLines s acc false =
      let r := newlineIndex s
      if r.2 = 0 then ([], acc.reverse ++ s)
      else
        let q := splitLines (s.drop (r.1 + r.2)) [] false
        ((acc.reverse ++ s.take r.1) :: q.1, q.2) := by
  induction s generalizing acc with
  | nil => simp [splitLines, newlineIndex]
  | cons b t ih =>
    by_cases h10 : b = 10
    · subst h10
      simp [splitLines, newlineIndex, isNl]
    · by_cases h13 : b = 13
      · subst h13
        simp only [splitLines, newlineIndex, isNl]
        rw [splitLines_true_eq]
        cases t with
        | nil => simp
        | cons c t' =>
          by_cases hc : c = 10
          · subst hc; simp
          · simp [hc]
      · have hnl : isNl b = false := by simp [isNl, h10, h13]
        rw [splitLines]
        simp only [Bool.false_and, hnl, newlineIndex]
        simp only [beq_iff_eq, h10, h13, if_false, Bool.false_eq_true]
        rw [ih]
        simp only []
        split
        · simp
        · have e : (newlineIndex t).1 + 1 + (newlineIndex t).2 = ((newlineIndex t).1 + (newlineIndex t).2) + 1 := by omega
          simp [e]

theorem newlineIndex_le (s : Bytes) : (newlineIndex s).1 + (newlineIndex s).2 ≤ s.length := by
  induction s with
  | nil => simp [newlineIndex]
  | cons b t ih =>
    unfold newlineIndex
    split
    · cases t with
      | nil => simp
      | cons c t' => simp; split <;> omega
    · simp; omega

theorem chunks_eq_splitLines (n : Nat) (s : Bytes) (h : s.length < n) :
    chunks n s = splitLines s [] false := by
  induction n generalizing s with
  | zero => omega
  | succ n ih =>
    rw [splitLines_acc]
    unfold chunks
    cases s with
    | nil => simp [newlineIndex]
    | cons b t =>
      simp only [List.isEmpty_cons, Bool.false_eq_true, if_false, nextChunk]
      by_cases hz : (newlineIndex (b :: t)).2 = 0
      · simp [hz]
      · have hle := newlineIndex_le (b :: t)
        have : ((b :: t).drop ((newlineIndex (b :: t)).1 + (newlineIndex (b :: t)).2)).length < n := by
          simp only [List.length_drop]; simp only [List.length_cons] at h hle ⊢; omega
        simp [hz, ih _ this]

end GoSSE.Proofs
