import GoSSE.Proofs.ClientBackoff
/-!
Helper lemmas about `doConnect` and the `Connect` loop, shared by C10, C11 and C12: what one
attempt contributes to the trace and how it changes the connection and the controller, plus the
trace predicates the property theorems are stated with.
-/
namespace GoSSE.Proofs.ClientConnect
open GoSSE GoSSE.Spec GoSSE.Spec.Client GoSSE.Model GoSSE.Model.Client GoSSE.Proofs.ClientBackoff

/-- the `attempt` item of a request -/
def attOf (c : Conn) : TItem := .attempt c.req.header c.req.body c.req.getBodyCalls

/-- the events and retry fields a stream attempt reports -/
def outsOf (c : Conn) (src : Source) : List Out := (implRun true c.lastEventID src c.buf).1

theorem doConnect_resetFailed (cfg : Cfg) (c : Conn) (ctl : Ctl) (a : Attempt) (done : Bool) (e : ErrV)
    (h : (resetRequest c).2 = some e) :
    doConnect cfg c ctl a done = ⟨false, .wrapped .resetFailed e, (resetRequest c).1, ctl, []⟩ := by
  simp [doConnect, h]

/-- the error of a transport failure -/
def trErr (isCtx : Bool) : ErrV := if isCtx then .ctx else .transport

theorem doConnect_transport (cfg : Cfg) (c : Conn) (ctl : Ctl) (a : Attempt) (done : Bool) (isCtx : Bool)
    (h : (resetRequest c).2 = none) (ho : a.out = .transport isCtx) :
    doConnect cfg c ctl a done =
      if errorsIs (trErr isCtx) (ctxErr (done || a.cancelDuring))
      then ⟨false, .bare (trErr isCtx), (resetRequest c).1, ctl, [attOf (resetRequest c).1]⟩
      else ⟨true, .wrapped .connFailed (trErr isCtx), (resetRequest c).1, ctl, [attOf (resetRequest c).1]⟩ := by
  simp only [doConnect, h, ho, attOf, trErr]
  cases isCtx <;> rfl

theorem doConnect_rejected (cfg : Cfg) (c : Conn) (ctl : Ctl) (a : Attempt) (done : Bool)
    (h : (resetRequest c).2 = none) (ho : a.out = .rejected) :
    doConnect cfg c ctl a done =
      ⟨false, .wrapped .validation .validator, (resetRequest c).1, ctl, [attOf (resetRequest c).1]⟩ := by
  simp [doConnect, h, ho, attOf]

theorem doConnect_stream (cfg : Cfg) (c : Conn) (ctl : Ctl) (a : Attempt) (done : Bool) (src : Source) (ic : Bool)
    (h : (resetRequest c).2 = none) (ho : a.out = .stream src ic) :
    doConnect cfg c ctl a done =
      let c' := (resetRequest c).1
      let r := implRun true c'.lastEventID src c'.buf
      let c'' : Conn := { c' with lastEventID := lastDispatched c'.lastEventID r.1 }
      if errorsIs (readErr r.2.1 ic) (ctxErr (done || a.cancelDuring))
      then ⟨false, .bare (readErr r.2.1 ic), c'', applyRetries cfg ctl r.1 a.tReset, [attOf c', .connected r.1]⟩
      else ⟨true, .wrapped .lost (readErr r.2.1 ic), c'', applyRetries cfg ctl r.1 a.tReset, [attOf c', .connected r.1]⟩ := by
  simp [doConnect, h, ho, attOf]

/-- one attempt, summarised: what it adds to the trace, the controller and the connection afterwards -/
theorem doConnect_spec (cfg : Cfg) (c : Conn) (ctl : Ctl) (a : Attempt) (done : Bool) :
    (∃ e, (resetRequest c).2 = some e ∧
        doConnect cfg c ctl a done = ⟨false, .wrapped .resetFailed e, (resetRequest c).1, ctl, []⟩) ∨
    ((resetRequest c).2 = none ∧
      (((doConnect cfg c ctl a done).items = [attOf (resetRequest c).1] ∧ (doConnect cfg c ctl a done).ctl = ctl ∧
          (doConnect cfg c ctl a done).conn = (resetRequest c).1 ∧ ∀ s ic, a.out ≠ .stream s ic) ∨
       (∃ src ic, a.out = .stream src ic ∧
          (doConnect cfg c ctl a done).items = [attOf (resetRequest c).1, .connected (outsOf (resetRequest c).1 src)] ∧
          (doConnect cfg c ctl a done).ctl = applyRetries cfg ctl (outsOf (resetRequest c).1 src) a.tReset ∧
          (doConnect cfg c ctl a done).conn =
            { (resetRequest c).1 with lastEventID := lastDispatched (resetRequest c).1.lastEventID (outsOf (resetRequest c).1 src) }))) := by
  cases h : (resetRequest c).2 with
  | some e => exact Or.inl ⟨e, rfl, doConnect_resetFailed cfg c ctl a done e h⟩
  | none =>
    right
    refine ⟨rfl, ?_⟩
    cases ho : a.out with
    | transport isCtx =>
      left
      rw [doConnect_transport cfg c ctl a done isCtx h ho]
      split <;> simp
    | rejected =>
      left
      rw [doConnect_rejected cfg c ctl a done h ho]
      simp
    | stream src ic =>
      right
      refine ⟨src, ic, rfl, ?_⟩
      rw [doConnect_stream cfg c ctl a done src ic h ho]
      simp only [outsOf]
      split <;> simp

theorem connectLoop_nil (cfg : Cfg) (fl : Floats) (c : Conn) (ctl : Ctl) (done : Bool) :
    connectLoop cfg fl [] c ctl done = ⟨[], none, c⟩ := rfl

theorem connectLoop_cons (cfg : Cfg) (fl : Floats) (a : Attempt) (rest : List Attempt) (c : Conn) (ctl : Ctl) (done : Bool) :
    connectLoop cfg fl (a :: rest) c ctl done =
      if done && !a.timerWins then ⟨[], some (.bare .ctx), c⟩
      else
        let r := doConnect cfg c ctl a done
        if !r.shouldRetry then ⟨r.items, some r.err, r.conn⟩
        else
          match (r.ctl.next cfg fl a.tNext a.draw).2 with
          | none => ⟨r.items, some r.err, r.conn⟩
          | some w =>
            let q := connectLoop cfg fl rest r.conn (r.ctl.next cfg fl a.tNext a.draw).1 (done || a.cancelDuring || a.cancelAfter)
            ⟨r.items ++ TItem.retry r.err w :: q.trace, q.result, q.conn⟩ := by
  rw [connectLoop]
  rfl

/-- The trace of a `Connect` run, one iteration unfolded: either nothing (the context won the
`select`), or the items of the attempt, or those followed by one `retry` item and the rest of the run
from the new connection / controller state. -/
theorem connectLoop_trace (cfg : Cfg) (fl : Floats) (a : Attempt) (rest : List Attempt) (c : Conn) (ctl : Ctl) (done : Bool) :
    (connectLoop cfg fl (a :: rest) c ctl done).trace = [] ∨
    (connectLoop cfg fl (a :: rest) c ctl done).trace = (doConnect cfg c ctl a done).items ∨
    ∃ w, (doConnect cfg c ctl a done).shouldRetry = true ∧
      ((doConnect cfg c ctl a done).ctl.next cfg fl a.tNext a.draw).2 = some w ∧
      (connectLoop cfg fl (a :: rest) c ctl done).trace =
        (doConnect cfg c ctl a done).items ++ TItem.retry (doConnect cfg c ctl a done).err w ::
          (connectLoop cfg fl rest (doConnect cfg c ctl a done).conn
            ((doConnect cfg c ctl a done).ctl.next cfg fl a.tNext a.draw).1 (done || a.cancelDuring || a.cancelAfter)).trace := by
  rw [connectLoop_cons]
  split
  · exact Or.inl rfl
  · simp only []
    by_cases hs : (doConnect cfg c ctl a done).shouldRetry = true
    · simp only [hs, Bool.not_true, Bool.false_eq_true, if_false]
      split
      · exact Or.inr (Or.inl rfl)
      · rename_i w hw
        exact Or.inr (Or.inr ⟨w, trivial, hw, rfl⟩)
    · simp only [Bool.not_eq_true] at hs
      simp [hs]

/-- induction over a `Connect` run for trace predicates that depend on the connection and the
controller state -/
theorem connectLoop_induct (cfg : Cfg) (fl : Floats) (Q : Conn → Ctl → List TItem → Prop)
    (hnil : ∀ c ctl, Q c ctl [])
    (hitems : ∀ c ctl a done, Q c ctl (doConnect cfg c ctl a done).items)
    (hstep : ∀ c ctl a done w q, (doConnect cfg c ctl a done).shouldRetry = true →
      ((doConnect cfg c ctl a done).ctl.next cfg fl a.tNext a.draw).2 = some w →
      Q (doConnect cfg c ctl a done).conn ((doConnect cfg c ctl a done).ctl.next cfg fl a.tNext a.draw).1 q →
      Q c ctl ((doConnect cfg c ctl a done).items ++ TItem.retry (doConnect cfg c ctl a done).err w :: q)) :
    ∀ h c ctl done, Q c ctl (connectLoop cfg fl h c ctl done).trace := by
  intro h
  induction h with
  | nil => intro c ctl done; exact hnil c ctl
  | cons a rest ih =>
    intro c ctl done
    rcases connectLoop_trace cfg fl a rest c ctl done with h1 | h1 | ⟨w, hs, hw, h1⟩
    · rw [h1]; exact hnil c ctl
    · rw [h1]; exact hitems c ctl a done
    · rw [h1]; exact hstep c ctl a done w _ hs hw (ih _ _ _)

/-- like `connectLoop_induct`, for predicates that also look at the remaining history -/
theorem connectLoop_induct_h (cfg : Cfg) (fl : Floats) (Q : List Attempt → Conn → Ctl → Bool → List TItem → Prop)
    (hnil : ∀ h c ctl done, Q h c ctl done [])
    (hitems : ∀ a rest c ctl done, Q (a :: rest) c ctl done (doConnect cfg c ctl a done).items)
    (hstep : ∀ a rest c ctl done w q, (doConnect cfg c ctl a done).shouldRetry = true →
      ((doConnect cfg c ctl a done).ctl.next cfg fl a.tNext a.draw).2 = some w →
      Q rest (doConnect cfg c ctl a done).conn ((doConnect cfg c ctl a done).ctl.next cfg fl a.tNext a.draw).1
        (done || a.cancelDuring || a.cancelAfter) q →
      Q (a :: rest) c ctl done ((doConnect cfg c ctl a done).items ++ TItem.retry (doConnect cfg c ctl a done).err w :: q)) :
    ∀ h c ctl done, Q h c ctl done (connectLoop cfg fl h c ctl done).trace := by
  intro h
  induction h with
  | nil => intro c ctl done; exact hnil _ c ctl done
  | cons a rest ih =>
    intro c ctl done
    rcases connectLoop_trace cfg fl a rest c ctl done with h1 | h1 | ⟨w, hs, hw, h1⟩
    · rw [h1]; exact hnil _ c ctl done
    · rw [h1]; exact hitems a rest c ctl done
    · rw [h1]; exact hstep a rest c ctl done w _ hs hw (ih _ _ _)

/-! ## `resetRequest` -/

/-- the first call only sets `isRetry` -/
theorem resetRequest_first (c : Conn) (h : c.isRetry = false) :
    resetRequest c = ({ c with isRetry := true }, none) := by
  simp [resetRequest, h]

/-- the complete table of `resetRequestBody` -/
theorem resetRequestBody_table (r : Req) :
    ((r.body = .none ∨ r.body = .noBody) → resetRequestBody r = (r, none)) ∧
    (¬ (r.body = .none ∨ r.body = .noBody) →
      (r.getBody = .absent → resetRequestBody r = (r, some .noGetBody)) ∧
      (∀ failAt, r.getBody = .present failAt →
        (failAt = some r.getBodyCalls → resetRequestBody r = ({ r with getBodyCalls := r.getBodyCalls + 1 }, some .getBody)) ∧
        (failAt ≠ some r.getBodyCalls →
          resetRequestBody r = ({ r with getBodyCalls := r.getBodyCalls + 1, body := .fresh (r.getBodyCalls + 1) }, none)))) := by
  refine ⟨?_, ?_⟩
  · intro h
    rcases h with h | h <;> simp [resetRequestBody, h]
  · intro h
    have hb : (r.body == BodyRef.none || r.body == BodyRef.noBody) = false := by
      simp only [not_or] at h
      simp [h.1, h.2]
    refine ⟨?_, ?_⟩
    · intro hg; simp [resetRequestBody, hb, hg]
    · intro failAt hg
      refine ⟨?_, ?_⟩
      · intro hf; simp [resetRequestBody, hb, hg, hf]
      · intro hf; simp [resetRequestBody, hb, hg, hf]

/-- later calls: the body is reset first, then the header is set from `lastEventID` -/
theorem resetRequest_retry (c : Conn) (h : c.isRetry = true) :
    (∀ e, (resetRequestBody c.req).2 = some e →
      resetRequest c = ({ c with req := (resetRequestBody c.req).1 }, some e)) ∧
    ((resetRequestBody c.req).2 = none →
      resetRequest c = ({ c with req := { (resetRequestBody c.req).1 with header := headerOf c.lastEventID } }, none)) := by
  constructor
  · intro e he; simp [resetRequest, h, he]
  · intro he
    simp only [resetRequest, h, he, headerOf, Bool.not_true, Bool.false_eq_true, if_false]
    by_cases hl : c.lastEventID.isEmpty = true <;> simp [hl]

/-- what `resetRequest` never touches -/
theorem resetRequest_keeps (c : Conn) :
    (resetRequest c).1.lastEventID = c.lastEventID ∧ (resetRequest c).1.buf = c.buf ∧
    (resetRequest c).1.req.getBody = c.req.getBody ∧ (resetRequest c).1.isRetry = true := by
  cases h : c.isRetry with
  | false => rw [resetRequest_first c h]; simp
  | true =>
    have hb : (resetRequestBody c.req).1.getBody = c.req.getBody := by
      unfold resetRequestBody
      split
      · rfl
      · split
        · rfl
        · split <;> rfl
    cases he : (resetRequestBody c.req).2 with
    | some e => rw [(resetRequest_retry c h).1 e he]; simp [h, hb]
    | none => rw [(resetRequest_retry c h).2 he]; simp [h, hb]

/-- the header of the request an attempt is made with -/
theorem resetRequest_header (c : Conn) (hr : (resetRequest c).2 = none) :
    (resetRequest c).1.req.header = if c.isRetry then headerOf c.lastEventID else c.req.header := by
  cases h : c.isRetry with
  | false => rw [resetRequest_first c h]; simp
  | true =>
    cases he : (resetRequestBody c.req).2 with
    | some e => rw [(resetRequest_retry c h).1 e he] at hr; simp at hr
    | none => rw [(resetRequest_retry c h).2 he]; simp

/-- the only errors a request reset can fail with -/
theorem resetRequest_err_kinds (c : Conn) (e : ErrV) (he : (resetRequest c).2 = some e) :
    e = .noGetBody ∨ e = .getBody := by
  cases hr : c.isRetry with
  | false => rw [resetRequest_first c hr] at he; cases he
  | true =>
    cases hb : (resetRequestBody c.req).2 with
    | none => rw [(resetRequest_retry c hr).2 hb] at he; cases he
    | some e' =>
      rw [(resetRequest_retry c hr).1 e' hb] at he
      have : e' = e := by simpa using he
      subst this
      unfold resetRequestBody at hb
      split at hb
      · cases hb
      · split at hb
        · left; simpa using hb.symm
        · split at hb
          · right; simpa using hb.symm
          · cases hb

/-- the error a stream attempt ends with -/
def strErr (c : Conn) (src : Source) (ic : Bool) : ErrV := readErr (implRun true c.lastEventID src c.buf).2.1 ic

/-! ## trace predicates -/

/-- C12: no more than `m` consecutive `retry` items without a `connected` item in between; `k` =
retries already made in the current series -/
def boundedRuns (m : Int) : Int → List TItem → Prop
  | _, [] => True
  | k, .retry _ _ :: t => k + 1 ≤ m ∧ boundedRuns m (k + 1) t
  | _, .connected _ :: t => boundedRuns m 0 t
  | k, .attempt _ _ _ :: t => boundedRuns m k t

def noRetry : List TItem → Prop
  | [] => True
  | .retry _ _ :: _ => False
  | _ :: t => noRetry t

/-- C12: `attempt (connected)? (retry attempt (connected)?)* retry?` — between two attempts there is
exactly one `OnRetry`; state 0 = an attempt may start, 1 = after `attempt`, 2 = after `connected` -/
def shape : Nat → List TItem → Prop
  | _, [] => True
  | 0, .attempt _ _ _ :: t => shape 1 t
  | 1, .connected _ :: t => shape 2 t
  | 1, .retry _ _ :: t => shape 0 t
  | 2, .retry _ _ :: t => shape 0 t
  | _, _ => False

/-- C12: every wait is related by `P` to the base in force: `b` is the current base; a `retry` item
uses it and moves on to the next base; a `connected` item installs the base the server asked for. -/
def sched (P : Int → Int → Prop) (cfg : Cfg) (fl : Floats) : Int → List TItem → Prop
  | _, [] => True
  | b, .retry _ w :: t => P b w ∧ sched P cfg fl (growI cfg fl b) t
  | _, .connected outs :: t => sched P cfg fl (retryInterval cfg.initialInterval outs) t
  | b, .attempt _ _ _ :: t => sched P cfg fl b t

/-- C10: every attempt but the very first carries `headerOf` the last dispatched ID -/
def headersOK (first : Bool) (id : Bytes) : List TItem → Prop
  | [] => True
  | .attempt h _ _ :: t => (first = true ∨ h = headerOf id) ∧ headersOK false id t
  | .connected outs :: t => headersOK first (lastDispatched id outs) t
  | .retry _ _ :: t => headersOK first id t

/-- C10: the `i`-th attempt (0-based) carries the original body, every later one a fresh body
obtained by exactly one more `GetBody` call — or, for requests without a body, nothing changes -/
def bodiesOK (body0 : BodyRef) : Nat → List TItem → Prop
  | _, [] => True
  | i, .attempt _ b g :: t =>
    (if body0 = .none ∨ body0 = .noBody then b = body0 ∧ g = 0
     else if i = 0 then b = body0 ∧ g = 0 else b = .fresh i ∧ g = i) ∧ bodiesOK body0 (i + 1) t
  | i, _ :: t => bodiesOK body0 i t

/-- `schedule` with an invariant `I` on the bases and a condition `U` on the random draws -/
theorem schedule_inv (P : Int → Int → Prop) (I : Int → Prop) (U : Int → Prop) (cfg : Cfg) (fl : Floats)
    (hI0 : I cfg.initialInterval) (hIg : ∀ b, I b → I (growI cfg fl b))
    (hIr : ∀ outs, I (retryInterval cfg.initialInterval outs))
    (hP : ∀ b u, I b → U u → P b (nextInterval cfg fl b u))
    (h : List Attempt) (hU : ∀ a ∈ h, U a.draw) (c : Conn) (t0 : Int) (done0 : Bool) :
    sched P cfg fl cfg.initialInterval (connect cfg fl c t0 done0 h).trace := by
  have key := connectLoop_induct_h cfg fl
    (fun h _ ctl _ tr => (∀ a ∈ h, U a.draw) → I ctl.interval → sched P cfg fl ctl.interval tr)
    (fun _ _ _ _ _ _ => trivial)
    (by
      intro a rest c ctl done _ _
      rcases doConnect_spec cfg c ctl a done with ⟨e, _, he⟩ | ⟨_, ⟨hi, _⟩ | ⟨src, ic, _, hi, _⟩⟩
      · simp [he, sched]
      · simp [hi, attOf, sched]
      · simp [hi, attOf, sched])
    (by
      intro a rest c ctl done w q hs hw ih hU hI
      obtain ⟨_, hwv, hst, _⟩ := next_some cfg fl _ _ _ w hw
      rw [hst] at ih
      simp only [] at ih
      have hUa : U a.draw := hU a List.mem_cons_self
      have hUr : ∀ b ∈ rest, U b.draw := fun b hb => hU b (List.mem_cons_of_mem _ hb)
      rcases doConnect_spec cfg c ctl a done with ⟨e, _, he⟩ | ⟨_, ⟨hi, hc, _⟩ | ⟨src, ic, _, hi, hc, _⟩⟩
      · rw [he] at hs; cases hs
      · rw [hi]
        rw [hc] at hwv ih
        simp only [attOf, List.cons_append, List.nil_append, sched]
        exact ⟨hwv ▸ hP _ _ hI hUa, ih hUr (hIg _ hI)⟩
      · rw [hi]
        have hb := (applyRetries_spec cfg ctl (outsOf (resetRequest c).1 src) a.tReset).2.2
        rw [hc] at hwv ih
        rw [hb] at hwv ih
        simp only [attOf, List.cons_append, List.nil_append, sched]
        exact ⟨hwv ▸ hP _ _ (hIr _) hUa, ih hUr (hIg _ (hIr _))⟩)
  exact key h c (Ctl.new cfg t0) done0 hU hI0


/-! ## C10 against the specification -/

def srcBytes (src : Source) : Bytes := src.chunks.flatten
def srcEnd (src : Source) : EndKind := if src.endErr then .err else .eof

/-- the last dispatched ID after attempt `a`, according to the WHATWG specification `Spec.run` -/
def idAfterSpec (id : Bytes) (a : Attempt) : Bytes :=
  match a.out with
  | .stream src _ => lastDispatched id (run .gosse true id (srcBytes src) (srcEnd src)).1
  | _ => id

/-- the Last-Event-ID headers the specification prescribes for the attempts of a history: `h0` for the
next attempt, then `headerOf` the last dispatched ID of all streams so far -/
def expectedHeaders (h0 : Option Bytes) (id : Bytes) : List Attempt → List (Option Bytes)
  | [] => []
  | a :: rest => h0 :: expectedHeaders (headerOf (idAfterSpec id a)) (idAfterSpec id a) rest

def attemptHeaders : List TItem → List (Option Bytes)
  | [] => []
  | .attempt h _ _ :: t => h :: attemptHeaders t
  | _ :: t => attemptHeaders t

/-- the refinement proved as C01, for the streams of a history: the connection's reader dispatches
exactly the events the specification dispatches -/
def RefinesSpec (buf : Option (Nat × Int)) (h : List Attempt) : Prop :=
  ∀ a ∈ h, ∀ src ic, a.out = .stream src ic → ∀ id,
    (implRun true id src buf).1.filter isEvent = (run .gosse true id (srcBytes src) (srcEnd src)).1.filter isEvent

/-- no stream of the history makes the connection's scanner (buffer configuration `buf`) report
`ErrTooLong`, whatever ID the connection holds at that point -/
def NoTooLong (buf : Option (Nat × Int)) (h : List Attempt) : Prop :=
  ∀ a ∈ h, ∀ src ic, a.out = .stream src ic → ∀ id, (implRun true id src buf).2.1 ≠ .tooLong

theorem lastDispatched_filter (id : Bytes) (outs : List Out) :
    lastDispatched id (outs.filter isEvent) = lastDispatched id outs := by
  unfold lastDispatched
  induction outs generalizing id with
  | nil => rfl
  | cons o outs ih =>
    cases o with
    | event e => simp [List.filter_cons, isEvent, ih]
    | retry n => simp [isEvent, ih]

theorem lastDispatched_congr (id : Bytes) (o1 o2 : List Out) (h : o1.filter isEvent = o2.filter isEvent) :
    lastDispatched id o1 = lastDispatched id o2 := by
  rw [← lastDispatched_filter id o1, ← lastDispatched_filter id o2, h]

end GoSSE.Proofs.ClientConnect
