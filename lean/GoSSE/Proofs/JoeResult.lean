import GoSSE.Proofs.JoeMore
/-!
What a Subscribe call can return (C06): invariants about the contents of a subscription's channel.
-/
namespace GoSSE.Proofs.Joe
open GoSSE.Model.Joe

def GoodResult (i : SubId) (cancelledOrDone : Bool) (r : Option Err) : Prop :=
  (r = none ∧ cancelledOrDone = true) ∨ r = some (.own i) ∨ r = some (.replay i) ∨ r = some .closed

structure JInv (s : St) : Prop where
  bufOwn : ∀ i e, (s.subs i).ch.buf = some e → e = .own i ∨ e = .replay i
  closedEmpty : ∀ i, (s.subs i).ch.closed = true → (s.subs i).ch.buf = none →
    (∃ r, (s.subs i).pc = .returned r) ∨ s.doneClosed = true
  result : ∀ i r, (s.subs i).pc = .returned r → GoodResult i ((s.subs i).ctxCancelled || s.doneClosed) r
  failedBuf : ∀ p i rest, s.joe = .failed p i rest →
    (s.subs i).ch.buf = some (.own i) ∨ ∃ r, (s.subs i).pc = .returned r
  ownErr : ∀ i, failedLive (s.subs i) = true →
    ((s.subs i).ch.buf = some (.own i) ∧ ∀ r, (s.subs i).pc = .returned r → (s.subs i).ctxCancelled = true) ∨
    ∃ r, (s.subs i).pc = .returned r ∧ (r = some (.own i) ∨ (s.subs i).ctxCancelled = true)

theorem jinv_init {s : St} (h : IsInit s) : JInv s := by
  obtain ⟨hj, _, _, _, _, _, hsub, _, _⟩ := h
  refine ⟨?_, ?_, ?_, by simp [hj], ?_⟩
  · intro i e he; simp [(hsub i).2.2.1] at he
  · intro i hc; simp [(hsub i).2.2.1] at hc
  · intro i r hr; simp [(hsub i).1] at hr
  · intro i hf; simp [failedLive, (hsub i).2.2.2.1] at hf

theorem goodResult_mono {i : SubId} {a b : Bool} {r : Option Err} (h : GoodResult i a r) (hab : a = true → b = true) :
    GoodResult i b r := by
  rcases h with ⟨h1, h2⟩ | h | h | h
  · exact Or.inl ⟨h1, hab h2⟩
  · exact Or.inr (Or.inl h)
  · exact Or.inr (Or.inr (Or.inl h))
  · exact Or.inr (Or.inr (Or.inr h))

/-- a transition that changes only subscription `k`, whose new state satisfies the per-subscription
clauses, and leaves `joe` and `doneClosed` alone -/
theorem jinv_setSub {s : St} (h : JInv s) (k : SubId) (st : SubSt)
    (h1 : ∀ e, st.ch.buf = some e → e = .own k ∨ e = .replay k)
    (h2 : st.ch.closed = true → st.ch.buf = none → (∃ r, st.pc = .returned r) ∨ s.doneClosed = true)
    (h3 : ∀ r, st.pc = .returned r → GoodResult k (st.ctxCancelled || s.doneClosed) r)
    (h4 : ∀ p rest, s.joe = .failed p k rest → st.ch.buf = some (.own k) ∨ ∃ r, st.pc = .returned r)
    (h5 : failedLive st = true → (st.ch.buf = some (.own k) ∧ ∀ r, st.pc = .returned r → st.ctxCancelled = true) ∨
      ∃ r, st.pc = .returned r ∧ (r = some (.own k) ∨ st.ctxCancelled = true)) :
    JInv (setSub s k st) := by
  refine ⟨?_, ?_, ?_, ?_, ?_⟩
  · intro i e he
    by_cases hik : i = k
    · subst hik; simp only [setSub, upd_same] at he; exact h1 e he
    · simp only [setSub, upd_other _ _ _ _ hik] at he; exact h.bufOwn i e he
  · intro i hc hb
    by_cases hik : i = k
    · subst hik; simp only [setSub, upd_same] at hc hb ⊢; exact h2 hc hb
    · simp only [setSub, upd_other _ _ _ _ hik] at hc hb ⊢; exact h.closedEmpty i hc hb
  · intro i r hr
    by_cases hik : i = k
    · subst hik; simp only [setSub, upd_same] at hr ⊢; exact h3 r hr
    · simp only [setSub, upd_other _ _ _ _ hik] at hr ⊢; exact h.result i r hr
  · intro p i rest hf
    by_cases hik : i = k
    · subst hik; simp only [setSub, upd_same]; exact h4 p rest hf
    · simp only [setSub, upd_other _ _ _ _ hik]; exact h.failedBuf p i rest hf
  · intro i hf
    by_cases hik : i = k
    · subst hik; simp only [setSub, upd_same] at hf ⊢; exact h5 hf
    · simp only [setSub, upd_other _ _ _ _ hik] at hf ⊢; exact h.ownErr i hf

/-- nothing about subscriptions, the loop or `done` changes -/
theorem jinv_congr {s s' : St} (h : JInv s) (hj : s'.joe = s.joe) (hsub : s'.subs = s.subs)
    (hd : s.doneClosed = true → s'.doneClosed = true) : JInv s' := by
  refine ⟨by rw [hsub]; exact h.bufOwn, ?_, ?_, by rw [hj, hsub]; exact h.failedBuf, by rw [hsub]; exact h.ownErr⟩
  · intro i hc hb
    rw [hsub] at hc hb ⊢
    rcases h.closedEmpty i hc hb with x | x
    · exact Or.inl x
    · exact Or.inr (hd x)
  · intro i r hr
    rw [hsub] at hr ⊢
    refine goodResult_mono (h.result i r hr) ?_
    intro hx
    simp only [Bool.or_eq_true] at hx ⊢
    rcases hx with x | x
    · exact Or.inl x
    · exact Or.inr (hd x)


theorem jinv_remove {s : St} (hi : Inv s) (h : JInv s) (k : SubId)
    (why : (s.subs k).ch.buf ≠ none ∨ (∃ r, (s.subs k).pc = .returned r) ∨ s.doneClosed = true) :
    JInv (removeSubscriber s k) := by
  by_cases hk : k ∈ s.subscribers
  · rw [remove_mem k hk (hi.reg k hk).1]
    refine ⟨?_, ?_, ?_, ?_, ?_⟩
    · intro i e he
      by_cases hik : i = k
      · subst hik; simp only [upd_same, closedSub_buf] at he; exact h.bufOwn i e he
      · simp only [upd_other _ _ _ _ hik] at he; exact h.bufOwn i e he
    · intro i hc hb
      by_cases hik : i = k
      · subst hik
        simp only [upd_same, closedSub_buf, closedSub_pc] at hb ⊢
        rcases why with w | w | w
        · exact absurd hb w
        · exact Or.inl w
        · exact Or.inr w
      · simp only [upd_other _ _ _ _ hik] at hc hb ⊢; exact h.closedEmpty i hc hb
    · intro i r hr
      by_cases hik : i = k
      · subst hik; simp only [upd_same, closedSub_pc, closedSub_ctx] at hr ⊢; exact h.result i r hr
      · simp only [upd_other _ _ _ _ hik] at hr ⊢; exact h.result i r hr
    · intro p i rest hf
      by_cases hik : i = k
      · subst hik; simp only [upd_same, closedSub_buf, closedSub_pc]; exact h.failedBuf p i rest hf
      · simp only [upd_other _ _ _ _ hik]; exact h.failedBuf p i rest hf
    · intro i hf
      by_cases hik : i = k
      · subst hik
        simp only [upd_same, closedSub_failedLive, closedSub_buf, closedSub_pc, closedSub_ctx] at hf ⊢
        exact h.ownErr i hf
      · simp only [upd_other _ _ _ _ hik] at hf ⊢; exact h.ownErr i hf
  · rw [remove_not_mem k hk]; exact h

theorem jinv_closeAll {s : St} (hi : Inv s) (h : JInv s) (hj : s.joe = .idle) (hd : s.doneClosed = true) (l : List SubId) :
    JInv (closeAll l s) := by
  induction l generalizing s with
  | nil => exact h
  | cons k ks ih =>
    obtain ⟨h1, hj1, _, _⟩ := inv_remove_idle hi hj k
    have hd1 : (removeSubscriber s k).doneClosed = true := by
      have := closeAll_doneClosed [k] s
      simp only [closeAll] at this; rw [this]; exact hd
    exact ih h1 (jinv_remove hi h k (Or.inr (Or.inr hd))) hj1 hd1

theorem failedLive_congr (a b : SubSt) (h1 : a.calls = b.calls) (h2 : a.replayed = b.replayed) :
    failedLive a = failedLive b := by simp [failedLive, h1, h2]

theorem step_jinv {c : Cfg} {s s' : St} (hi : Inv s) (hd : DInv c s) (hx : XInv s) (h : JInv s) (l : Label)
    (hs : step c s l = some s') : JInv s' := by
  cases l with
  | subCall k =>
    simp only [step] at hs
    split at hs
    · rename_i hpc
      simp only [Option.some.injEq] at hs; subst hs
      refine jinv_setSub h k _ (h.bufOwn k) ?_ (by simp) ?_ ?_
      · intro hc hb
        rcases h.closedEmpty k hc hb with ⟨r, hr⟩ | x
        · rw [hpc] at hr; simp at hr
        · exact Or.inr x
      · intro p rest hf
        rcases h.failedBuf p k rest hf with x | ⟨r, hr⟩
        · exact Or.inl x
        · rw [hpc] at hr; simp at hr
      · intro hf
        have := (hd.fresh k (Or.inl hpc))
        simp [failedLive, this.1] at hf
    · simp at hs
  | subAccept k rc o =>
    simp only [step] at hs
    split at hs
    · rename_i hg
      obtain ⟨hcalls, hrep, hreg, hend⟩ := hd.fresh k (Or.inr hg.1)
      obtain ⟨hch0, hni⟩ := hi.fresh k (Or.inr hg.1)
      have hnf : ∀ p rest, s.joe ≠ .failed p k rest := by simp [hg.2]
      -- registering branches: the channel stays fresh, no live call yet
      have reg : ∀ st : SubSt, st.pc = .waiting → st.ch = {} → st.calls = rc → st.replayed = rc.length →
          JInv (setSub s k st) := by
        intro st hp hc hcl hr
        refine jinv_setSub h k st (by simp [hc]) (by simp [hc]) (by simp [hp]) (fun p rest hf => absurd hf (hnf p rest)) ?_
        intro hf
        simp [failedLive, hcl, hr] at hf
      split at hs
      · cases o with
        | ok =>
          simp only [Option.some.injEq] at hs; subst hs
          exact jinv_congr (reg { s.subs k with pc := .waiting, calls := (s.subs k).calls ++ rc, replayed := rc.length, regAt := some s.log.length, storeAt := s.store } rfl hch0 (by simp [hcalls]) rfl) rfl rfl (fun x => x)
        | panic =>
          simp only [Option.some.injEq] at hs; subst hs
          exact jinv_congr (reg { s.subs k with pc := .waiting, calls := (s.subs k).calls ++ rc, replayed := rc.length, regAt := some s.log.length, storeAt := s.store } rfl hch0 (by simp [hcalls]) rfl) rfl rfl (fun x => x)
        | err =>
          simp only [Option.some.injEq] at hs; subst hs
          simp only [sendChan, closeChan, setSub, upd_same, hch0]
          simp only [Bool.false_eq_true, if_false, Option.isSome_none, upd_same]
          have := jinv_setSub h k { s.subs k with pc := .waiting, calls := (s.subs k).calls ++ rc, replayed := rc.length, ch := ⟨some (.replay k), true⟩, storeAt := s.store }
            (by simp) (by simp) (by simp) (fun p rest hf => absurd hf (hnf p rest)) (by simp [failedLive, hcalls])
          refine jinv_congr this rfl ?_ (fun x => x)
          funext j
          by_cases hjk : j = k
          · subst hjk; simp [setSub, upd]
          · simp [setSub, upd, hjk]
      · split at hs
        · simp only [Option.some.injEq] at hs; subst hs
          exact jinv_congr (reg { s.subs k with pc := .waiting, calls := (s.subs k).calls ++ rc, replayed := rc.length, regAt := some s.log.length, storeAt := s.store } rfl hch0 (by simp [hcalls]) rfl) rfl rfl (fun x => x)
        · simp at hs
    · simp at hs
  | subClosedEarly k =>
    simp only [step] at hs
    split at hs
    · rename_i hg
      obtain ⟨hcalls, hrep, _, _⟩ := hd.fresh k (Or.inr hg.1)
      simp only [Option.some.injEq] at hs; subst hs
      refine jinv_setSub h k _ (h.bufOwn k) (fun _ _ => Or.inl ⟨_, rfl⟩) ?_ (fun _ _ _ => Or.inr ⟨_, rfl⟩) ?_
      · intro r hr
        simp only [SubPc.returned.injEq] at hr; subst hr
        exact Or.inr (Or.inr (Or.inr rfl))
      · intro hf; simp [failedLive, hcalls] at hf
    · simp at hs
  | subSeeCancel k =>
    simp only [step] at hs
    split at hs
    · rename_i hg
      simp only [Option.some.injEq] at hs; subst hs
      refine jinv_setSub h k _ (h.bufOwn k) ?_ (by simp) ?_ ?_
      · intro hc hb
        rcases h.closedEmpty k hc hb with ⟨r, hr⟩ | x
        · rw [hg.1] at hr; simp at hr
        · exact Or.inr x
      · intro p rest hf
        rcases h.failedBuf p k rest hf with x | ⟨r, hr⟩
        · exact Or.inl x
        · rw [hg.1] at hr; simp at hr
      · intro hf
        rcases h.ownErr k hf with x | ⟨r, hr, _⟩
        · exact Or.inl ⟨x.1, by simp⟩
        · rw [hg.1] at hr; simp at hr
    · simp at hs
  | subRecv k =>
    simp only [step] at hs
    split at hs
    · rename_i hg
      split at hs
      · rename_i e hbuf
        simp only [Option.some.injEq] at hs; subst hs
        refine jinv_setSub h k _ (by simp) (fun _ _ => Or.inl ⟨_, rfl⟩) ?_ (fun _ _ _ => Or.inr ⟨_, rfl⟩) ?_
        · intro r hr
          simp only [SubPc.returned.injEq] at hr; subst hr
          rcases h.bufOwn k e hbuf with x | x
          · exact Or.inr (Or.inl (by rw [x]))
          · exact Or.inr (Or.inr (Or.inl (by rw [x])))
        · intro hf
          right
          refine ⟨_, rfl, ?_⟩
          rcases h.ownErr k hf with x | ⟨r, hr, _⟩
          · rw [hbuf] at x; left; exact x.1
          · rcases hg with hg | hg <;> (rw [hg] at hr; simp at hr)
      · rename_i hbuf
        split at hs
        · rename_i hcl
          simp only [Option.some.injEq] at hs; subst hs
          have hdone : s.doneClosed = true := by
            rcases h.closedEmpty k hcl hbuf with ⟨r, hr⟩ | x
            · rcases hg with hg | hg <;> (rw [hg] at hr; simp at hr)
            · exact x
          refine jinv_setSub h k _ (h.bufOwn k) (fun _ _ => Or.inl ⟨_, rfl⟩) ?_ (fun _ _ _ => Or.inr ⟨_, rfl⟩) ?_
          · intro r hr
            simp only [SubPc.returned.injEq] at hr; subst hr
            exact Or.inl ⟨rfl, by simp [hdone]⟩
          · intro hf
            rcases h.ownErr k hf with x | ⟨r, hr, _⟩
            · rw [hbuf] at x; simp at x
            · rcases hg with hg | hg <;> (rw [hg] at hr; simp at hr)
        · simp at hs
    · simp at hs
  | unsubAccept k =>
    simp only [step] at hs
    split at hs
    · rename_i hg
      simp only [Option.some.injEq] at hs; subst hs
      have hcx := hx.cancelled k hg.1
      have hnf : ∀ p rest, s.joe ≠ .failed p k rest := by simp [hg.2]
      by_cases hk : k ∈ s.subscribers
      · have hbuf : (s.subs k).ch.buf = none := by
          rcases (hi.reg k hk).2 with hb | ⟨p', rest', hf⟩
          · exact hb
          · rw [hg.2] at hf; simp at hf
        rw [remove_mem k hk (hi.reg k hk).1]
        have := jinv_setSub h k { closedSub (s.subs k) s.log.length with pc := .returned none }
          (by simp [hbuf]) (fun _ _ => Or.inl ⟨_, rfl⟩)
          (by intro r hr; simp only [SubPc.returned.injEq] at hr; subst hr; exact Or.inl ⟨rfl, by simp [hcx]⟩)
          (fun p rest hf => absurd hf (hnf p rest))
          (by
            intro hf
            have hf' : failedLive (s.subs k) = true := hf
            rcases h.ownErr k hf' with x | ⟨r, hr, _⟩
            · rw [hbuf] at x; simp at x
            · rw [hg.1] at hr; simp at hr)
        refine jinv_congr this rfl ?_ (fun x => x)
        funext j
        by_cases hjk : j = k
        · subst hjk; simp [setSub, upd]
        · simp [setSub, upd, hjk]
      · rw [remove_not_mem k hk]
        refine jinv_setSub h k _ (h.bufOwn k) (fun _ _ => Or.inl ⟨_, rfl⟩) ?_ (fun p rest hf => absurd hf (hnf p rest)) ?_
        · intro r hr; simp only [SubPc.returned.injEq] at hr; subst hr; exact Or.inl ⟨rfl, by simp [hcx]⟩
        · intro hf
          rcases h.ownErr k hf with x | ⟨r, hr, _⟩
          · exact Or.inl ⟨x.1, fun _ _ => hcx⟩
          · rw [hg.1] at hr; simp at hr
    · simp at hs
  | cancel k =>
    simp only [step] at hs
    split at hs
    · simp at hs
    · simp only [Option.some.injEq] at hs; subst hs
      refine jinv_setSub h k _ (h.bufOwn k) (h.closedEmpty k) ?_ (h.failedBuf · k) ?_
      · intro r hr
        exact goodResult_mono (h.result k r hr) (by simp)
      · intro hf
        rcases h.ownErr k hf with x | ⟨r, hr, hx'⟩
        · exact Or.inl ⟨x.1, fun _ _ => rfl⟩
        · exact Or.inr ⟨r, hr, by rcases hx' with y | y; exact Or.inl y; exact Or.inr rfl⟩
  | pubCall p => simp only [step] at hs; split at hs <;> simp at hs; subst hs; exact jinv_congr h rfl rfl (fun x => x)
  | pubNoTopic p => simp only [step] at hs; split at hs <;> simp at hs; subst hs; exact jinv_congr h rfl rfl (fun x => x)
  | pubAccept p o =>
    simp only [step] at hs
    split at hs
    · rename_i hg
      split at hs
      · simp at hs
      · simp only [Option.some.injEq] at hs; subst hs
        exact ⟨h.bufOwn, h.closedEmpty, h.result, by simp, h.ownErr⟩
    · simp at hs
  | pubClosedEarly p => simp only [step] at hs; split at hs <;> simp at hs; subst hs; exact jinv_congr h rfl rfl (fun x => x)
  | pubRecv p => simp only [step] at hs; split at hs <;> simp at hs; subst hs; exact jinv_congr h rfl rfl (fun x => x)
  | fanStep k a b =>
    simp only [step] at hs
    split at hs
    · rename_i p rest hj
      split at hs
      · rename_i hmem
        have hmem' : k ∈ rest := by simpa using hmem
        have hkm : k ∈ s.subscribers := (hi.fan p rest hj).2 k hmem'
        have hnf : ∀ p' j' rest', s.joe ≠ .failed p' j' rest' := by simp [hj]
        have hcl := (hi.reg k hkm).1
        have hbuf : (s.subs k).ch.buf = none := by
          rcases (hi.reg k hkm).2 with hb | ⟨p', rest', hf⟩
          · exact hb
          · exact absurd hf (hnf p' k rest')
        -- k has not returned and has had no failure so far
        have hnr : ∀ r, (s.subs k).pc ≠ .returned r := by
          intro r hr
          rcases hi.ret k r hr with x | ⟨p', rest', hf⟩
          · exact x hkm
          · exact absurd hf (hnf p' k rest')
        have hnofail : failedLive (s.subs k) = false := by
          cases hfl : failedLive (s.subs k) with
          | false => rfl
          | true =>
            rcases h.ownErr k hfl with x | ⟨r, hr, _⟩
            · rw [hbuf] at x; simp at x
            · exact absurd hr (hnr r)
        split at hs
        · rename_i hok
          simp only [Option.some.injEq] at hs; subst hs
          have h1 := jinv_setSub h k { s.subs k with calls := (s.subs k).calls ++ [Call.send p a] ++ (if a then [Call.flush b] else []) }
            (h.bufOwn k) (h.closedEmpty k) (h.result k) (fun p' rest' hf => absurd hf (hnf p' k rest'))
            (by
              intro hf
              rw [List.append_assoc, failedLive_append _ _ (hd.lenOK k), hnofail] at hf
              simp only [Bool.and_eq_true] at hok
              obtain ⟨ha, hb⟩ := hok
              subst ha; subst hb
              simp [callFailed] at hf)
          exact ⟨h1.bufOwn, h1.closedEmpty, h1.result, by simp, h1.ownErr⟩
        · simp only [Option.some.injEq] at hs
          rw [sendChan_ok _ _ _ (by simpa [setSub] using hcl) (by simpa [setSub] using hbuf)] at hs
          simp only [bad, setSub, hj] at hs
          simp only [upd_same] at hs
          subst hs
          refine ⟨?_, ?_, ?_, ?_, ?_⟩
          · intro i e he
            by_cases hik : i = k
            · subst hik; simp [upd] at he; exact Or.inl he.symm
            · simp [upd, hik] at he; exact h.bufOwn i e he
          · intro i hc hb
            by_cases hik : i = k
            · subst hik; simp [upd] at hb
            · simp [upd, hik] at hc hb ⊢; exact h.closedEmpty i hc hb
          · intro i r hr
            by_cases hik : i = k
            · subst hik; simp [upd] at hr; exact absurd hr (hnr r)
            · simp [upd, hik] at hr ⊢; exact h.result i r hr
          · intro p' i rest' hf
            simp at hf
            obtain ⟨_, rfl, _⟩ := hf
            left; simp [upd]
          · intro i hf
            by_cases hik : i = k
            · subst hik; left; simp [upd]; exact fun r hr => absurd hr (hnr r)
            · simp [upd, hik] at hf ⊢; exact h.ownErr i hf
      · simp at hs
    · simp at hs
  | fanRemove =>
    simp only [step] at hs
    split at hs
    · rename_i p k rest hj
      obtain ⟨_, hnb⟩ := inv_fanRemove hi hj
      simp only [Bool.not_eq_true] at hnb
      simp only [Option.some.injEq] at hs; subst hs
      simp only [hnb, Bool.false_eq_true, if_false]
      have why : (s.subs k).ch.buf ≠ none ∨ (∃ r, (s.subs k).pc = .returned r) ∨ s.doneClosed = true := by
        rcases h.failedBuf p k rest hj with x | x
        · left; rw [x]; simp
        · exact Or.inr (Or.inl x)
      have h1 := jinv_remove hi h k why
      exact ⟨h1.bufOwn, h1.closedEmpty, h1.result, by simp, h1.ownErr⟩
    · simp at hs
  | fanDone =>
    simp only [step] at hs
    split at hs
    · simp only [Option.some.injEq] at hs; subst hs
      exact ⟨h.bufOwn, h.closedEmpty, h.result, by simp, h.ownErr⟩
    · simp at hs
  | loopExit =>
    simp only [step] at hs
    split at hs
    · rename_i hg
      simp only [Option.some.injEq] at hs; subst hs
      obtain ⟨_, hj1, _⟩ := inv_closeAll hi hg.1 s.subscribers
      have hnb : bad (closeAll s.subscribers s) = false := by simp [bad, hj1]
      simp only [hnb, Bool.false_eq_true, if_false]
      have h1 := jinv_closeAll hi h hg.1 hg.2 s.subscribers
      exact ⟨h1.bufOwn, h1.closedEmpty, h1.result, by simp, h1.ownErr⟩
    · simp at hs
  | shutCall k => simp only [step] at hs; split at hs <;> simp at hs; subst hs; exact jinv_congr h rfl rfl (fun x => x)
  | shutClose k => simp only [step] at hs; split at hs <;> simp at hs; subst hs; exact jinv_congr h rfl rfl (fun _ => rfl)
  | shutRecovered k => simp only [step] at hs; split at hs <;> simp at hs; subst hs; exact jinv_congr h rfl rfl (fun x => x)
  | shutSeeClosed k => simp only [step] at hs; split at hs <;> simp at hs; subst hs; exact jinv_congr h rfl rfl (fun x => x)
  | shutCtx k => simp only [step] at hs; split at hs <;> simp at hs; subst hs; exact jinv_congr h rfl rfl (fun x => x)
  | shutCancel k => simp only [step] at hs; split at hs <;> simp at hs; subst hs; exact jinv_congr h rfl rfl (fun x => x)

theorem reachable_jinv {c : Cfg} {s : St} (h : Reachable c s) : JInv s := by
  induction h with
  | init hi => exact jinv_init hi
  | step hr hs ih =>
    have hall := reachable_all hr
    exact step_jinv hall.1 hall.2.1 hall.2.2 ih _ hs

end GoSSE.Proofs.Joe
