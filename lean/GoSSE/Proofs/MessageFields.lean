import GoSSE.Proofs.MessageLines
/-!
Helper lemmas for C14: what `newMessageField` guarantees, and that every value
`FieldParser.Next` hands out is part of one CR/LF-free chunk.
-/
namespace GoSSE.Proofs
open GoSSE GoSSE.Spec GoSSE.Model

theorem nlFree_iff (v : Bytes) : NlFree v ↔ ∀ b ∈ v, b ≠ 10 ∧ b ≠ 13 := by
  simp [NlFree, isNl]

theorem not_nlFree_iff (v : Bytes) : ¬ NlFree v ↔ hasNewline v = true := by
  rw [← hasNewline_eq_false]; cases hasNewline v <;> simp

/-- `newMessageField` on a single-line value: set to exactly that value, no error -/
theorem newMessageField_single (v : Bytes) (h : NlFree v) : newMessageField v = ({ value := v, set := true }, false) := by
  simp [newMessageField, (isSingleLine_iff v).2 h]

/-- `newMessageField` on anything else: the zero field and an error -/
theorem newMessageField_multi (v : Bytes) (h : ¬ NlFree v) : newMessageField v = ({}, true) := by
  have : isSingleLine v = false := by
    cases hs : isSingleLine v with
    | false => rfl
    | true => exact absurd ((isSingleLine_iff v).1 hs) h
  simp [newMessageField, this]

theorem newMessageField_cases (v : Bytes) :
    (NlFree v ∧ newMessageField v = ({ value := v, set := true }, false)) ∨ (¬ NlFree v ∧ newMessageField v = ({}, true)) := by
  by_cases h : NlFree v
  · exact Or.inl ⟨h, newMessageField_single v h⟩
  · exact Or.inr ⟨h, newMessageField_multi v h⟩

theorem nlFree_drop (s : Bytes) (k : Nat) (h : NlFree s) : NlFree (s.drop k) :=
  fun b hb => h b (List.mem_of_mem_drop hb)

theorem nlFree_trimFirstSpace (s : Bytes) (h : NlFree s) : NlFree (trimFirstSpace s) := by
  unfold trimFirstSpace
  split
  · exact (nlFree_cons.1 h).2
  · exact h

theorem scanSegment_nlFree (kc : Bool) (chunk : Bytes) (fld : Field) (h : scanSegment kc chunk = some fld)
    (hc : NlFree chunk) : NlFree fld.value := by
  unfold scanSegment at h
  have hd : ∀ k, NlFree (trimFirstSpace (chunk.drop k)) := fun k => nlFree_trimFirstSpace _ (nlFree_drop _ k hc)
  split at h
  · split at h
    · simp at h
    · split at h
      · simp at h; subst h; exact hd _
      · split at h
        · simp at h; subst h; exact nlFree_nil
        · split at h
          · simp at h; subst h; exact hd _
          · simp at h
  · split at h
    · simp at h; subst h; exact nlFree_nil
    · split at h
      · simp at h; subst h; exact nlFree_nil
      · simp at h

/-- every field `FieldParser.Next` returns has a value without CR or LF -/
theorem FP_next_nlFree (fuel : Nat) (f : FP) (fld : Field) (f' : FP) (h : FP.next fuel f = (some fld, f')) :
    NlFree fld.value := by
  induction fuel generalizing f with
  | zero => simp [FP.next] at h
  | succ n ih =>
    unfold FP.next at h
    split at h
    · simp at h
    · simp only at h
      split at h
      · simp at h
      · split at h
        · rename_i fld' hs
          simp at h
          rw [← h.1]
          exact scanSegment_nlFree _ _ _ hs (newlineIndex_take_nlFree _)
        · exact ih _ h

/-- what `Message.UnmarshalText` keeps true of the receiver while it loops -/
structure FieldsOK (m : Message) : Prop where
  id : m.id.set = true → NlFree m.id.value
  typ : m.typ.set = true → NlFree m.typ.value
  chunks : ∀ c ∈ m.chunks, NlFree c.content

theorem fieldsOK_empty : FieldsOK {} :=
  { id := by intro h; simp at h, typ := by intro h; simp at h, chunks := by intro c hc; simp at hc }

theorem unmarshalLoop_ok (fuel : Nat) (fp : FP) (m : Message) (hm : FieldsOK m) :
    FieldsOK (unmarshalLoop fuel fp m).1 := by
  induction fuel generalizing fp m with
  | zero => exact hm
  | succ n ih =>
    unfold unmarshalLoop
    split
    · exact hm
    · rename_i f fp' hn
      have hv := FP_next_nlFree _ _ _ _ hn
      split
      · split
        · exact hm
        · split
          · exact hm
          · exact ih _ _ ⟨hm.id, hm.typ, hm.chunks⟩
      · refine ih _ _ ⟨hm.id, hm.typ, ?_⟩
        intro c hc
        simp only [List.mem_append, List.mem_singleton] at hc
        rcases hc with hc | hc
        · exact hm.chunks c hc
        · subst hc; exact hv
      · refine ih _ _ ⟨hm.id, hm.typ, ?_⟩
        intro c hc
        simp only [List.mem_append, List.mem_singleton] at hc
        rcases hc with hc | hc
        · exact hm.chunks c hc
        · subst hc; exact hv
      · exact ih _ _ ⟨hm.id, fun _ => hv, hm.chunks⟩
      · split
        · exact ih _ _ hm
        · exact ih _ _ ⟨fun _ => hv, hm.typ, hm.chunks⟩
      · exact hm

theorem unmarshalText_ok (p : Bytes) : FieldsOK (Message.unmarshalText p).1 := by
  unfold Message.unmarshalText
  have := unmarshalLoop_ok (p.length + 1) (({ data := p, keepComments := true } : FP).setRemoveBOM true) {} fieldsOK_empty
  simp only
  split
  · exact this
  · split
    · exact fieldsOK_empty
    · exact this

end GoSSE.Proofs
