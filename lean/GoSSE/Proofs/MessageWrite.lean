import GoSSE.Spec.Message
/-!
Helper lemmas about the encoders: `WriteTo` is "write the list `writes m`, stop at the first
error" (`Spec.writeAll`), the retry digit loop, and what `writeAll` guarantees under the
`io.Writer` contract.
-/
namespace GoSSE.Proofs
open GoSSE GoSSE.Spec GoSSE.Model

variable {σ ε : Type}

/-! ### digits -/

theorem digit_toNat (k : Nat) (h : k < 10) : (48 + UInt8.ofNat k).toNat = 48 + k := by
  have : ∀ k : Fin 10, (48 + UInt8.ofNat k.val).toNat = 48 + k.val := by decide
  exact this ⟨k, h⟩

theorem digit_isDigit (k : Nat) (h : k < 10) : isDigit (48 + UInt8.ofNat k) = true := by
  have : ∀ k : Fin 10, isDigit (48 + UInt8.ofNat k.val) = true := by decide
  exact this ⟨k, h⟩

theorem digit_ne_zero (k : Nat) (h : k < 10) (h0 : 0 < k) : (48 + UInt8.ofNat k) ≠ 48 := by
  have : ∀ k : Fin 10, 0 < k.val → (48 + UInt8.ofNat k.val) ≠ 48 := by decide
  exact this ⟨k, h⟩ h0

theorem digitsVal_foldl (v : Bytes) (a : Nat) :
    v.foldl (fun n b => n * 10 + (b.toNat - 48)) a = a * 10 ^ v.length + digitsVal v := by
  unfold digitsVal
  induction v generalizing a with
  | nil => simp
  | cons b t ih =>
    simp only [List.foldl_cons, List.length_cons]
    rw [ih (a * 10 + (b.toNat - 48)), ih (0 * 10 + (b.toNat - 48))]
    simp only [Nat.zero_mul, Nat.zero_add, Nat.pow_succ, Nat.add_mul]
    rw [Nat.mul_assoc, Nat.mul_comm 10]
    omega

theorem digitsVal_cons (b : Byte) (t : Bytes) :
    digitsVal (b :: t) = (b.toNat - 48) * 10 ^ t.length + digitsVal t := by
  have := digitsVal_foldl t (0 * 10 + (b.toNat - 48))
  simp only [Nat.zero_mul, Nat.zero_add] at this
  simpa [digitsVal] using this

/-- the digit loop on an accumulator instead of the buffer: `acc` is `buf[i+1:]` -/
def accLoop : Nat → Nat → Bytes → Option Bytes
  | 0, millis, acc => if millis = 0 then some acc else none
  | j + 1, millis, acc =>
    if millis = 0 then some acc else accLoop j (millis / 10) ((48 + UInt8.ofNat (millis % 10)) :: acc)

theorem drop_set_self (l : List Byte) (j : Nat) (d : Byte) (h : j < l.length) :
    (l.set j d).drop j = d :: l.drop (j + 1) := by
  induction l generalizing j with
  | nil => simp at h
  | cons a t ih =>
    cases j with
    | zero => simp
    | succ j => simp only [List.set_cons_succ, List.drop_succ_cons]; exact ih j (by simpa using h)

theorem drop_set_succ (l : List Byte) (j : Nat) (d : Byte) :
    (l.set j d).drop (j + 1) = l.drop (j + 1) := by
  induction l generalizing j with
  | nil => simp
  | cons a t ih =>
    cases j with
    | zero => simp
    | succ j => simp only [List.set_cons_succ, List.drop_succ_cons]; exact ih j

theorem retryLoop_eq_accLoop (j millis : Nat) (buf : List Byte) (h : j ≤ buf.length) :
    (retryLoop j millis buf).map (fun r => r.2.drop r.1) = accLoop j millis (buf.drop j) := by
  induction j generalizing millis buf with
  | zero => unfold retryLoop accLoop; split <;> simp
  | succ j ih =>
    unfold retryLoop accLoop
    by_cases hm : millis = 0
    · simp [hm]
    · simp only [hm, if_false]
      rw [ih _ _ (by simp; omega)]
      rw [drop_set_self _ _ _ (by omega)]

theorem retryDigits_eq (millis : Nat) : retryDigits millis = accLoop 13 millis [] := by
  unfold retryDigits
  rw [retryLoop_eq_accLoop 13 millis _ (by simp)]
  simp

theorem accLoop_isSome (j millis : Nat) (acc : Bytes) (h : millis < 10 ^ j) : (accLoop j millis acc).isSome := by
  induction j generalizing millis acc with
  | zero => simp at h; simp [accLoop, h]
  | succ j ih =>
    unfold accLoop
    by_cases hm : millis = 0
    · simp [hm]
    · simp only [hm, if_false]
      apply ih
      rw [Nat.pow_succ] at h
      exact Nat.div_lt_of_lt_mul (by rw [Nat.mul_comm]; exact h)

theorem accLoop_val (j millis : Nat) (acc ds : Bytes) (h : accLoop j millis acc = some ds) :
    digitsVal ds = millis * 10 ^ acc.length + digitsVal acc := by
  induction j generalizing millis acc with
  | zero =>
    unfold accLoop at h
    split at h
    · rename_i hm; simp at h; subst h; simp [hm]
    · simp at h
  | succ j ih =>
    unfold accLoop at h
    by_cases hm : millis = 0
    · simp [hm] at h; subst h; simp [hm]
    · simp only [hm, if_false] at h
      have := ih _ _ h
      rw [this, digitsVal_cons, digit_toNat _ (Nat.mod_lt _ (by omega))]
      simp only [List.length_cons, Nat.pow_succ, Nat.add_sub_cancel_left]
      have hdm := Nat.div_add_mod millis 10
      calc millis / 10 * (10 ^ acc.length * 10) + (millis % 10 * 10 ^ acc.length + digitsVal acc)
          = (10 * (millis / 10) + millis % 10) * 10 ^ acc.length + digitsVal acc := by
            rw [Nat.add_mul, Nat.mul_comm (10 ^ acc.length) 10, ← Nat.mul_assoc, Nat.mul_comm (millis / 10) 10]; omega
        _ = millis * 10 ^ acc.length + digitsVal acc := by rw [hdm]

theorem accLoop_digits (j millis : Nat) (acc ds : Bytes) (h : accLoop j millis acc = some ds)
    (hacc : acc.all isDigit = true) : ds.all isDigit = true := by
  induction j generalizing millis acc with
  | zero =>
    unfold accLoop at h
    split at h
    · simp at h; subst h; exact hacc
    · simp at h
  | succ j ih =>
    unfold accLoop at h
    by_cases hm : millis = 0
    · simp [hm] at h; subst h; exact hacc
    · simp only [hm, if_false] at h
      refine ih _ _ h ?_
      simp only [List.all_cons, hacc, Bool.and_true]
      exact digit_isDigit _ (Nat.mod_lt _ (by omega))

/-- a positive number gets at least one digit and no leading zero -/
theorem accLoop_head (j millis : Nat) (acc ds : Bytes) (h : accLoop j millis acc = some ds) (hpos : 0 < millis) :
    ∃ d t, ds = d :: t ∧ d ≠ 48 := by
  induction j generalizing millis acc with
  | zero => unfold accLoop at h; split at h <;> first | omega | simp at h
  | succ j ih =>
    unfold accLoop at h
    have hm : millis ≠ 0 := by omega
    simp only [hm, if_false] at h
    by_cases hd : millis / 10 = 0
    · have hlt : millis < 10 := by omega
      rw [hd] at h
      have : accLoop j 0 ((48 + UInt8.ofNat (millis % 10)) :: acc) = some ((48 + UInt8.ofNat (millis % 10)) :: acc) := by
        cases j <;> simp [accLoop]
      rw [this] at h; simp at h; subst h
      refine ⟨_, _, rfl, ?_⟩
      rw [Nat.mod_eq_of_lt hlt]
      exact digit_ne_zero _ hlt hpos
    · exact ih _ _ h (by omega)

/-! ### `writeAll` -/

theorem writeAll_of_err (w : Writer σ ε) (r : WR σ ε) (ps : List Bytes) (h : r.err.isSome = true) :
    writeAll w r ps = r := by
  cases ps <;> simp [writeAll, h]

theorem writeAll_append (w : Writer σ ε) (r : WR σ ε) (a b : List Bytes) :
    writeAll w r (a ++ b) = writeAll w (writeAll w r a) b := by
  induction a generalizing r with
  | nil => simp [writeAll]
  | cons p ps ih =>
    simp only [List.cons_append, writeAll]
    split
    · rename_i h; rw [writeAll_of_err w r b h]
    · exact ih _

theorem writeAll_panic (w : Writer σ ε) (r : WR σ ε) (ps : List Bytes) : (writeAll w r ps).panic = r.panic := by
  induction ps generalizing r with
  | nil => simp [writeAll]
  | cons p ps ih =>
    simp only [writeAll]
    split
    · rfl
    · rw [ih]; simp [WR.write]

theorem addTo_zero (q : WR σ ε) : WR.addTo 0 q = q := by
  cases q; simp [WR.addTo]

/-- the three-write shape is `writeAll` of its three arguments -/
theorem write3_eq (w : Writer σ ε) (r : WR σ ε) (a b c : Bytes) (he : r.err = none) (hp : r.panic = false) :
    WR.addTo r.n (write3 w r.st r.log a b c) = writeAll w r [a, b, c] := by
  cases r with
  | mk n err st log panic =>
    simp only at he hp; subst he hp
    simp only [write3, writeAll, WR.write, WR.stop, Option.isSome_none, Bool.false_eq_true, if_false,
      Bool.or_false, Nat.zero_add]
    by_cases h1 : (w.write st a).2.1.isSome = true
    · simp [h1, WR.addTo]
    · by_cases h2 : (w.write (w.write st a).2.2 b).2.1.isSome = true
      · simp [h1, h2, WR.addTo, Nat.add_assoc]
      · simp [h1, h2, WR.addTo, Nat.add_assoc]

theorem writeMessageField_eq (w : Writer σ ε) (r : WR σ ε) (f : MField) (fb : Bytes) (he : r.err = none) (hp : r.panic = false) :
    WR.addTo r.n (writeMessageField w r.st r.log f fb) = writeAll w r (if f.set then fieldWrites fb f.value else []) := by
  unfold writeMessageField
  cases hs : f.set with
  | false =>
    cases r; simp only at he hp; subst he hp
    simp [WR.addTo, writeAll]
  | true => simp only [Bool.not_true, Bool.false_eq_true, if_false, if_true, fieldWrites]; exact write3_eq w r _ _ _ he hp

/-- the retry value is writable: the digit buffer suffices -/
def RetryOK (m : Message) : Prop := m.millis ≤ 0 ∨ (retryDigits m.millis.toNat).isSome = true

theorem writeRetry_eq (w : Writer σ ε) (r : WR σ ε) (m : Message) (hm : RetryOK m) (he : r.err = none) (hp : r.panic = false) :
    WR.addTo r.n (m.writeRetry w r.st r.log) =
      writeAll w r (if m.millis ≤ 0 then [] else fieldWrites fieldBytesRetry ((retryDigits m.millis.toNat).getD [])) := by
  unfold Message.writeRetry
  by_cases h0 : m.millis ≤ 0
  · cases r; simp only at he hp; subst he hp
    simp [h0, WR.addTo, writeAll]
  · simp only [h0, if_false]
    cases hm with
    | inl h => exact absurd h h0
    | inr h =>
      cases hd : retryDigits m.millis.toNat with
      | none => simp [hd] at h
      | some ds => simp only [Option.getD_some, fieldWrites]; exact write3_eq w r _ _ _ he hp

theorem chunk_writeTo_eq (w : Writer σ ε) (r : WR σ ε) (c : Chunk) (he : r.err = none) (hp : r.panic = false) :
    WR.addTo r.n (c.writeTo w r.st r.log) =
      writeAll w r (fieldWrites (if c.isComment then fieldBytesComment else fieldBytesData) c.content) := by
  unfold Chunk.writeTo fieldWrites
  exact write3_eq w r _ _ _ he hp

theorem stop_eq (r : WR σ ε) (hp : r.panic = false) : r.stop = r.err.isSome := by
  simp [WR.stop, hp]

theorem writeChunks_eq (w : Writer σ ε) (r : WR σ ε) (cs : List Chunk) (he : r.err = none) (hp : r.panic = false) :
    writeChunks w r cs =
      writeAll w r (cs.flatMap fun c => fieldWrites (if c.isComment then fieldBytesComment else fieldBytesData) c.content) := by
  induction cs generalizing r with
  | nil => simp [writeChunks, writeAll]
  | cons c cs ih =>
    simp only [writeChunks, List.flatMap_cons]
    rw [chunk_writeTo_eq w r c he hp, writeAll_append]
    have hp' := writeAll_panic w r (fieldWrites (if c.isComment then fieldBytesComment else fieldBytesData) c.content)
    rw [hp] at hp'
    rw [stop_eq _ hp']
    cases he' : (writeAll w r (fieldWrites (if c.isComment then fieldBytesComment else fieldBytesData) c.content)).err with
    | some e => simp only [Option.isSome_some, if_true]; exact (writeAll_of_err w _ _ (by simp [he'])).symm
    | none => simp only [Option.isSome_none, Bool.false_eq_true, if_false]; exact ih _ he' hp'

def r0 (st : σ) : WR σ ε := { n := 0, err := none, st := st, log := [] }

/-- one step of `WriteTo`: return if the previous part failed, else run the next sub-encoder and add -/
def stage (r : WR σ ε) (f : σ → List (Bytes × Nat × Option ε) → WR σ ε) : WR σ ε :=
  if r.stop then r else WR.addTo r.n (f r.st r.log)

theorem stage_eq (w : Writer σ ε) (r : WR σ ε) (f : σ → List (Bytes × Nat × Option ε) → WR σ ε) (ps : List Bytes)
    (hp : r.panic = false)
    (hf : r.err = none → WR.addTo r.n (f r.st r.log) = writeAll w r ps) :
    stage r f = writeAll w r ps := by
  unfold stage
  rw [stop_eq r hp]
  cases he : r.err with
  | some e => simp only [Option.isSome_some, if_true]; exact (writeAll_of_err w _ _ (by simp [he])).symm
  | none => simp only [Option.isSome_none, Bool.false_eq_true, if_false]; exact hf he

/-- `WriteTo` as a chain of stages -/
theorem writeTo_staged (w : Writer σ ε) (st : σ) (m : Message) :
    m.writeTo w st =
      let r3 := stage (stage (stage (r0 st) (fun s l => m.writeID w s l)) (fun s l => m.writeType w s l))
        (fun s l => m.writeRetry w s l)
      let r := if r3.stop then r3 else writeChunks w r3 m.chunks
      if r.stop then r else if r.n == 0 then { r with n := 0, err := none } else r.write w newline := by
  unfold Message.writeTo
  have e0 : stage (r0 st) (fun s l => m.writeID w s l) = m.writeID w st [] := by
    simp [stage, r0, WR.stop, addTo_zero]
  simp only [e0]
  generalize m.writeID w st [] = r1
  by_cases h1 : r1.stop = true
  · simp [stage, h1]
  · simp only [h1, stage, Bool.false_eq_true, if_false]
    generalize WR.addTo r1.n (m.writeType w r1.st r1.log) = r2
    by_cases h2 : r2.stop = true
    · simp [h2]
    · simp only [h2, Bool.false_eq_true, if_false]
      generalize WR.addTo r2.n (m.writeRetry w r2.st r2.log) = r3
      by_cases h3 : r3.stop = true
      · simp [h3]
      · simp only [h3, Bool.false_eq_true, if_false]

/-- `WriteTo` without any assumption on the writer: the body writes, then the `n == 0` test -/
theorem writeTo_body (w : Writer σ ε) (st : σ) (m : Message) (hm : RetryOK m) :
    m.writeTo w st =
      let r := writeAll w (r0 st) m.bodyWrites
      if r.err.isSome then r
      else if r.n == 0 then { r with n := 0, err := none }
      else r.write w newline := by
  rw [writeTo_staged]
  unfold Message.bodyWrites
  simp only [writeAll_append]
  have hp0 : (r0 st : WR σ ε).panic = false := rfl
  rw [stage_eq w (r0 st) _ _ hp0 (fun he => writeMessageField_eq w (r0 st) m.id fieldBytesID he hp0)]
  generalize hr1 : writeAll w (r0 st) (if m.id.set then fieldWrites fieldBytesID m.id.value else []) = r1
  have hp1 : r1.panic = false := by rw [← hr1, writeAll_panic]; rfl
  rw [stage_eq w r1 _ _ hp1 (fun he => writeMessageField_eq w r1 m.typ fieldBytesEvent he hp1)]
  generalize hr2 : writeAll w r1 (if m.typ.set then fieldWrites fieldBytesEvent m.typ.value else []) = r2
  have hp2 : r2.panic = false := by rw [← hr2, writeAll_panic]; exact hp1
  rw [stage_eq w r2 _ _ hp2 (fun he => writeRetry_eq w r2 m hm he hp2)]
  generalize hr3 : writeAll w r2 (if m.millis ≤ 0 then [] else fieldWrites fieldBytesRetry ((retryDigits m.millis.toNat).getD [])) = r3
  have hp3 : r3.panic = false := by rw [← hr3, writeAll_panic]; exact hp2
  have e4 : (if r3.stop = true then r3 else writeChunks w r3 m.chunks) =
      writeAll w r3 (m.chunks.flatMap fun c => fieldWrites (if c.isComment then fieldBytesComment else fieldBytesData) c.content) := by
    rw [stop_eq r3 hp3]
    cases he : r3.err with
    | some e => simp only [Option.isSome_some, if_true]; exact (writeAll_of_err w _ _ (by simp [he])).symm
    | none => simp only [Option.isSome_none, Bool.false_eq_true, if_false]; exact writeChunks_eq w r3 _ he hp3
  simp only [e4]
  generalize hr4 : writeAll w r3 _ = r4
  have hp4 : r4.panic = false := by rw [← hr4, writeAll_panic]; exact hp3
  simp only [stop_eq r4 hp4]

/-! ### accounting under the `io.Writer` contract -/

/-- the error the writer returned at the last call made -/
def lastErr (log : List (Bytes × Nat × Option ε)) : Option ε := log.getLast?.bind (·.2.2)

/-- the call succeeded and took everything -/
def FullCall (c : Bytes × Nat × Option ε) : Prop := c.2.2 = none ∧ c.2.1 = c.1.length

/-- what `WriteTo` owes its caller, relative to the write sequence `ps` -/
structure Acc (r : WR σ ε) (ps : List Bytes) : Prop where
  count : r.n = (accepted r.log).length
  calls : r.log.map (·.1) <+: ps
  bytes : accepted r.log <+: ps.flatten
  complete : r.err = none → r.log.map (·.1) = ps ∧ accepted r.log = ps.flatten
  err_last : r.err = lastErr r.log
  earlier : ∀ c ∈ r.log.dropLast, FullCall c
  /-- on error, what the failing call did not take is missing from the total -/
  short : r.err ≠ none → ∃ c, r.log.getLast? = some c ∧ (accepted r.log).length + (c.1.length - c.2.1) ≤ ps.flatten.length

theorem accepted_append (l : List (Bytes × Nat × Option ε)) (x : Bytes × Nat × Option ε) :
    accepted (l ++ [x]) = accepted l ++ x.1.take x.2.1 := by
  simp [accepted, List.flatMap_append]

theorem lastErr_of_full (log : List (Bytes × Nat × Option ε)) (h : ∀ c ∈ log, FullCall c) : lastErr log = none := by
  unfold lastErr
  cases hl : log.getLast? with
  | none => rfl
  | some c => simp only [Option.bind_some]; exact (h c (List.mem_of_getLast? hl)).1

theorem writeAll_acc (w : Writer σ ε) (hw : w.Obeys) (ps done : List Bytes) (r : WR σ ε)
    (he : r.err = none) (hcalls : r.log.map (·.1) = done) (hbytes : accepted r.log = done.flatten)
    (hn : r.n = done.flatten.length) (hfull : ∀ c ∈ r.log, FullCall c) :
    Acc (writeAll w r ps) (done ++ ps) := by
  induction ps generalizing done r with
  | nil =>
    simp only [writeAll, List.append_nil]
    exact ⟨by rw [hn, hbytes], by rw [hcalls]; exact List.prefix_refl _, by rw [hbytes]; exact List.prefix_refl _,
      fun _ => ⟨hcalls, hbytes⟩, by rw [he, lastErr_of_full _ hfull], fun c hc => hfull c (List.dropLast_subset _ hc),
      fun h => absurd he h⟩
  | cons p ps ih =>
    simp only [writeAll, he, Option.isSome_none, Bool.false_eq_true, if_false]
    have hob := hw r.st p
    cases hq : (w.write r.st p).2.1 with
    | none =>
      have hlen : (w.write r.st p).1 = p.length := by
        rcases Nat.lt_or_ge (w.write r.st p).1 p.length with h | h
        · exact absurd hq (hob.2 h)
        · omega
      have := ih (done ++ [p]) (r.write w p) (by simp [WR.write, hq])
        (by simp [WR.write, hcalls])
        (by simp [WR.write, accepted_append, hbytes, hlen])
        (by simp [WR.write, hn, hlen])
        (by
          intro c hc
          simp only [WR.write, List.mem_append, List.mem_singleton] at hc
          cases hc with
          | inl hc => exact hfull c hc
          | inr hc => subst hc; exact ⟨hq, hlen⟩)
      simpa using this
    | some e =>
      have hstop : (r.write w p).err.isSome = true := by simp [WR.write, hq]
      rw [writeAll_of_err w _ ps hstop]
      have hacc : accepted (r.write w p).log = done.flatten ++ p.take (w.write r.st p).1 := by
        simp [WR.write, accepted_append, hbytes]
      refine ⟨?_, ?_, ?_, ?_, ?_, ?_, ?_⟩
      · rw [hacc]; simp only [WR.write, hn, List.length_append, List.length_take]; have := hob.1; omega
      · simp only [WR.write, List.map_append, hcalls, List.map_cons, List.map_nil]
        exact ⟨ps, by simp⟩
      · rw [hacc]
        refine ⟨p.drop (w.write r.st p).1 ++ ps.flatten, ?_⟩
        simp [List.append_assoc, ← List.append_assoc (p.take _), List.take_append_drop]
      · intro h; simp [WR.write, hq] at h
      · simp [WR.write, lastErr, hq]
      · intro c hc
        simp only [WR.write, List.dropLast_concat] at hc
        exact hfull c hc
      · intro _
        refine ⟨(p, (w.write r.st p).1, (w.write r.st p).2.1), by simp [WR.write], ?_⟩
        rw [hacc]
        simp only [List.length_append, List.length_take, List.flatten_append, List.flatten_cons]
        have := hob.1
        omega

theorem r0_acc (w : Writer σ ε) (hw : w.Obeys) (st : σ) (ps : List Bytes) : Acc (writeAll w (r0 st) ps) ps := by
  have := writeAll_acc w hw ps [] (r0 st) rfl rfl rfl rfl (by intro c hc; cases hc)
  simpa using this

/-- every field line starts with a non-empty name: an empty body is the only body of length 0 -/
theorem bodyWrites_flatten_length (m : Message) (h : m.bodyWrites.flatten.length = 0) : m.bodyWrites = [] := by
  unfold Message.bodyWrites at h ⊢
  by_cases h1 : m.id.set = true
  · simp [h1, fieldWrites, fieldBytesID, fId] at h
  · by_cases h2 : m.typ.set = true
    · simp [h2, fieldWrites, fieldBytesEvent, fEvent] at h
    · by_cases h3 : m.millis ≤ 0
      · cases hc : m.chunks with
        | nil => simp [h1, h2, h3]
        | cons c cs =>
          rw [hc] at h
          by_cases hcm : c.isComment = true <;>
            simp [h1, h2, h3, hcm, fieldWrites, fieldBytesComment, fieldBytesData, fData] at h
      · simp [h3, fieldWrites, fieldBytesRetry, fRetry] at h

/-- Under the writer contract, `WriteTo` is exactly: perform `writes m` in order, stop at the first error. -/
theorem writeTo_eq_writeAll (w : Writer σ ε) (hw : w.Obeys) (st : σ) (m : Message) (hm : RetryOK m) :
    m.writeTo w st = writeAll w (r0 st) m.writes := by
  rw [writeTo_body w st m hm]
  have hacc := r0_acc w hw st m.bodyWrites
  generalize hr : writeAll w (r0 st) m.bodyWrites = r at hacc
  unfold Message.writes
  cases he : r.err with
  | some e =>
    simp only [Option.isSome_some, if_true]
    by_cases hb : m.bodyWrites.isEmpty = true
    · simp only [hb, if_true]
      have : m.bodyWrites = [] := by simpa using hb
      rw [this] at hr; simp [writeAll] at hr; rw [← hr] at he; simp [r0] at he
    · simp only [hb, Bool.false_eq_true, if_false]
      rw [writeAll_append, hr, writeAll_of_err]; simp [he]; simp [he]
  | none =>
    simp only [Option.isSome_none, Bool.false_eq_true, if_false]
    have hc := hacc.complete he
    by_cases hn : r.n = 0
    · have hlen : m.bodyWrites.flatten.length = 0 := by rw [← hc.2, ← hacc.count, hn]
      have hb := bodyWrites_flatten_length m hlen
      simp only [hn, beq_self_eq_true, if_true, hb, List.isEmpty_nil]
      rw [hb] at hr; simp only [writeAll] at hr
      rw [← hr]; rfl
    · have hb : m.bodyWrites.isEmpty = false := by
        cases hbw : m.bodyWrites with
        | nil => rw [hbw] at hr; simp only [writeAll] at hr; rw [← hr] at hn; simp [r0] at hn
        | cons a t => rfl
      have hn' : (r.n == 0) = false := by simpa using hn
      simp only [hn', Bool.false_eq_true, if_false, hb]
      rw [writeAll_append, hr]
      simp [writeAll, he]

theorem bufWriter_obeys : bufWriter.Obeys := by
  intro st p; simp [bufWriter]

theorem buf_writeAll (r : WR Bytes Empty) (ps : List Bytes) (he : r.err = none) :
    (writeAll bufWriter r ps).st = r.st ++ ps.flatten ∧ (writeAll bufWriter r ps).err = none ∧
      (writeAll bufWriter r ps).n = r.n + ps.flatten.length := by
  induction ps generalizing r with
  | nil => simp [writeAll, he]
  | cons p ps ih =>
    simp only [writeAll, he, Option.isSome_none, Bool.false_eq_true, if_false]
    have := ih (r.write bufWriter p) (by simp [WR.write, bufWriter])
    simp only [WR.write, bufWriter] at this ⊢
    simp [this, List.append_assoc, Nat.add_assoc]

end GoSSE.Proofs
