import GoSSE.Proofs.ParserSplit
/-!
Index facts about `splitFunc` (C20): every index stays within the buffer.
-/
namespace GoSSE.Proofs
open GoSSE GoSSE.Spec GoSSE.Model

/-- one iteration of the loop keeps `rest = data[advance:]` in step with `advance`: the byte
`data[advance]` the exit test looks at exists unless `advance == len(data)` (which Go tests first) -/
theorem splitLoop_step_range (len : Nat) (rest : Bytes) (adv : Nat) (h : adv + rest.length = len) :
    let r := newlineIndex rest
    adv + r.1 + r.2 + (rest.drop (r.1 + r.2)).length = len ∧
    (rest.drop (r.1 + r.2) = [] ↔ adv + r.1 + r.2 = len) := by
  have hle := newlineIndex_le rest
  simp only [List.length_drop]
  constructor
  · omega
  · rw [List.drop_eq_nil_iff]; omega

/-- the loop, from any state in which `rest = data[advance:]` and `start ≤ advance` -/
theorem splitLoop_range (len fuel : Nat) (rest : Bytes) (adv st : Nat) (h : adv + rest.length = len)
    (hst : st ≤ adv) :
    (splitLoop len fuel rest adv st).2 ≤ (splitLoop len fuel rest adv st).1 ∧
    (splitLoop len fuel rest adv st).1 ≤ len := by
  induction fuel generalizing rest adv st with
  | zero => simp only [splitLoop]; omega
  | succ fuel ih =>
    have hle := newlineIndex_le rest
    obtain ⟨h1, _⟩ := splitLoop_step_range len rest adv h
    have hst' : (if ((newlineIndex rest).1 == 0) = true then st + (newlineIndex rest).2 else st) ≤
        adv + (newlineIndex rest).1 + (newlineIndex rest).2 := by split <;> omega
    rw [splitLoop]
    split
    · simp only; omega
    · exact ih _ _ _ h1 hst'

theorem splitFunc_loop_range (data : Bytes) :
    (splitLoop data.length (data.length + 1) data 0 0).2 ≤ (splitLoop data.length (data.length + 1) data 0 0).1 ∧
    (splitLoop data.length (data.length + 1) data 0 0).1 ≤ data.length :=
  splitLoop_range data.length _ data 0 0 (by simp) (Nat.le_refl _)

/-- `token = data[start:advance]` with `start ≤ advance ≤ len(data)`, and a token always
comes with a positive advance -/
theorem splitFunc_token_range (data : Bytes) (e : Bool) (tok : Bytes) (h : (splitFunc data e).2 = some tok) :
    0 < (splitFunc data e).1 ∧ (splitFunc data e).1 ≤ data.length ∧
    (splitLoop data.length (data.length + 1) data 0 0).2 ≤ (splitFunc data e).1 ∧
    tok = (data.take (splitFunc data e).1).drop (splitLoop data.length (data.length + 1) data 0 0).2 := by
  have hpos : 0 < (splitFunc data e).1 ∧ (splitFunc data e).1 ≤ data.length := by
    cases splitFunc_cases data e with
    | empty hd hr => rw [hr] at h; simp at h
    | more B T he hd hB hT _ hr => rw [hr] at h; simp at h
    | tok B T nl rest hd hB hT hl hcr hnl _ hr =>
      rw [hr, hd]
      have := hnl.pos
      simp only [List.length_append]; omega
    | final B T he hd hne hB hT _ hr =>
      rw [hr]; exact ⟨List.length_pos_iff.2 hne, Nat.le_refl _⟩
  obtain ⟨hl1, hl2⟩ := splitFunc_loop_range data
  refine ⟨hpos.1, hpos.2, ?_, ?_⟩
  · simp only [splitFunc] at h ⊢
    by_cases h0 : (data.length == 0) = true
    · simp [h0] at h
    · by_cases h1 : ((splitLoop data.length (data.length + 1) data 0 0).1 == data.length && !e) = true
      · simp [h0, h1] at h
      · simp only [h0, h1, Bool.false_eq_true, if_false]
        split
        · split <;> omega
        · omega
  · simp only [splitFunc] at h ⊢
    by_cases h0 : (data.length == 0) = true
    · simp [h0] at h
    · by_cases h1 : ((splitLoop data.length (data.length + 1) data 0 0).1 == data.length && !e) = true
      · simp [h0, h1] at h
      · simp only [h0, h1, Bool.false_eq_true, if_false] at h ⊢
        simp only [Option.some.injEq] at h
        exact h.symm

end GoSSE.Proofs
