import GoSSE.Model.Joe
/-!
The safety invariant of Joe's transition system and its preservation by every transition.
-/
namespace GoSSE.Proofs.Joe
open GoSSE.Model.Joe

@[simp] theorem upd_same {α} (f : Nat → α) (i : Nat) (v : α) : upd f i v i = v := by simp [upd]
theorem upd_other {α} (f : Nat → α) (i j : Nat) (v : α) (h : j ≠ i) : upd f i v j = f j := by simp [upd, h]
theorem upd_apply {α} (f : Nat → α) (i j : Nat) (v : α) : upd f i v j = if j = i then v else f j := rfl

structure Inv (s : St) : Prop where
  ok : s.joe ≠ .panicked ∧ s.joe ≠ .blocked
  nodup : s.subscribers.Nodup
  reg : ∀ i ∈ s.subscribers, (s.subs i).ch.closed = false ∧
          ((s.subs i).ch.buf = none ∨ ∃ p rest, s.joe = .failed p i rest)
  fresh : ∀ i, ((s.subs i).pc = .idle ∨ (s.subs i).pc = .start) → (s.subs i).ch = {} ∧ i ∉ s.subscribers
  fan : ∀ p rest, s.joe = .fanout p rest → rest.Nodup ∧ ∀ i ∈ rest, i ∈ s.subscribers
  fail : ∀ p i rest, s.joe = .failed p i rest →
          i ∈ s.subscribers ∧ rest.Nodup ∧ (∀ k ∈ rest, k ∈ s.subscribers) ∧ i ∉ rest
  ret : ∀ i r, (s.subs i).pc = .returned r → i ∉ s.subscribers ∨ ∃ p rest, s.joe = .failed p i rest

theorem inv_init {s : St} (h : IsInit s) : Inv s := by
  obtain ⟨hj, hs, _, _, _, _, hsub, _, _⟩ := h
  refine ⟨by simp [hj], by simp [hs], by simp [hs], ?_, by simp [hj], by simp [hj], ?_⟩
  · intro i _; exact ⟨(hsub i).2.2.1, by simp [hs]⟩
  · intro i r hr; simp [(hsub i).1] at hr


/-- changing only the pc (and ghost fields) of one subscription keeps the invariant, provided a
`returned` pc is justified and the call does not go back to `idle`/`start` -/
theorem inv_setSub {s : St} (h : Inv s) (i : SubId) (st' : SubSt)
    (hch : st'.ch = (s.subs i).ch)
    (hfresh : (st'.pc = .idle ∨ st'.pc = .start) → ((s.subs i).pc = .idle ∨ (s.subs i).pc = .start))
    (hret : ∀ r, st'.pc = .returned r → i ∉ s.subscribers ∨ ∃ p rest, s.joe = .failed p i rest) :
    Inv (setSub s i st') := by
  refine ⟨h.ok, h.nodup, ?_, ?_, h.fan, h.fail, ?_⟩
  · intro k hk
    by_cases hki : k = i
    · subst hki; simp only [setSub, upd_same, hch]; exact h.reg k hk
    · simp only [setSub, upd_other _ _ _ _ hki]; exact h.reg k hk
  · intro k hk
    by_cases hki : k = i
    · subst hki
      simp only [setSub, upd_same] at hk ⊢
      rw [hch]; exact h.fresh k (hfresh hk)
    · simp only [setSub, upd_other _ _ _ _ hki] at hk ⊢; exact h.fresh k hk
  · intro k r hr
    by_cases hki : k = i
    · subst hki; simp only [setSub, upd_same] at hr; exact hret r hr
    · simp only [setSub, upd_other _ _ _ _ hki] at hr; exact h.ret k r hr

theorem inv_setPub {s : St} (h : Inv s) (p : PubId) (v : PubSt) : Inv (setPub s p v) :=
  ⟨h.ok, h.nodup, h.reg, h.fresh, h.fan, h.fail, h.ret⟩

theorem inv_setShut {s : St} (h : Inv s) (k : ShutId) (v : ShutSt) : Inv (setShut s k v) :=
  ⟨h.ok, h.nodup, h.reg, h.fresh, h.fan, h.fail, h.ret⟩

theorem inv_doneClosed {s : St} (h : Inv s) (b : Bool) : Inv { s with doneClosed := b } :=
  ⟨h.ok, h.nodup, h.reg, h.fresh, h.fan, h.fail, h.ret⟩


/-- `removeSubscriber` of a registered subscriber whose channel is open: the explicit result -/
def closedSub (st : SubSt) (n : Nat) : SubSt :=
  { st with ch := ⟨st.ch.buf, true⟩, endAt := st.endAt.or (some n) }

@[simp] theorem closedSub_pc (st : SubSt) (n : Nat) : (closedSub st n).pc = st.pc := rfl
@[simp] theorem closedSub_calls (st : SubSt) (n : Nat) : (closedSub st n).calls = st.calls := rfl
@[simp] theorem closedSub_closed (st : SubSt) (n : Nat) : (closedSub st n).ch.closed = true := rfl
@[simp] theorem closedSub_buf (st : SubSt) (n : Nat) : (closedSub st n).ch.buf = st.ch.buf := rfl

theorem remove_mem {s : St} (i : SubId) (hi : i ∈ s.subscribers) (hc : (s.subs i).ch.closed = false) :
    removeSubscriber s i =
      { s with subscribers := s.subscribers.erase i, subs := upd s.subs i (closedSub (s.subs i) s.log.length) } := by
  have hi' : s.subscribers.contains i = true := by simpa using hi
  unfold removeSubscriber
  rw [if_pos hi']
  simp only [closeChan, hc, setSub, Bool.false_eq_true, if_false, upd_same, closedSub]
  congr 1
  funext j
  by_cases hj : j = i
  · subst hj; simp [upd]
  · simp [upd, hj]

theorem remove_not_mem {s : St} (i : SubId) (hi : i ∉ s.subscribers) : removeSubscriber s i = s := by
  have hi' : ¬ (s.subscribers.contains i = true) := by simpa using hi
  unfold removeSubscriber
  rw [if_neg hi']

/-- (B) removing any subscriber while the loop is idle keeps the invariant -/
theorem inv_remove_idle {s : St} (h : Inv s) (hj : s.joe = .idle) (i : SubId) :
    Inv (removeSubscriber s i) ∧ (removeSubscriber s i).joe = .idle ∧
    (removeSubscriber s i).subscribers = s.subscribers.erase i ∧
    (∀ k, ((removeSubscriber s i).subs k).pc = (s.subs k).pc) := by
  by_cases hi : i ∈ s.subscribers
  · have hc := (h.reg i hi).1
    rw [remove_mem i hi hc]
    refine ⟨⟨by simp [hj], h.nodup.erase i, ?_, ?_, by simp [hj], by simp [hj], ?_⟩, hj, rfl, ?_⟩
    · intro k hk
      have hk' : k ∈ s.subscribers := List.mem_of_mem_erase hk
      have hki : k ≠ i := by
        intro e; subst e; exact (List.Nodup.not_mem_erase h.nodup) hk
      have := h.reg k hk'
      simp only [upd_other _ _ _ _ hki]
      refine ⟨this.1, ?_⟩
      rcases this.2 with hb | ⟨p, rest, hf⟩
      · exact Or.inl hb
      · simp [hj] at hf
    · intro k hk
      by_cases hki : k = i
      · subst hki
        simp only [upd_same] at hk
        exact absurd hi (h.fresh k hk).2
      · simp only [upd_other _ _ _ _ hki] at hk ⊢
        exact ⟨(h.fresh k hk).1, fun hm => (h.fresh k hk).2 (List.mem_of_mem_erase hm)⟩
    · intro k r hr
      left
      by_cases hki : k = i
      · subst hki; exact List.Nodup.not_mem_erase h.nodup
      · simp only [upd_other _ _ _ _ hki] at hr
        rcases h.ret k r hr with hn | ⟨p, rest, hf⟩
        · exact fun hm => hn (List.mem_of_mem_erase hm)
        · simp [hj] at hf
    · intro k
      by_cases hki : k = i
      · subst hki; simp [closedSub]
      · simp [upd_other _ _ _ _ hki]
  · rw [remove_not_mem i hi]
    exact ⟨h, hj, by rw [List.erase_of_not_mem hi], fun _ => rfl⟩


/-- `closeSubscribers` while idle -/
theorem inv_closeAll {s : St} (h : Inv s) (hj : s.joe = .idle) (l : List SubId) :
    Inv (closeAll l s) ∧ (closeAll l s).joe = .idle ∧ (∀ k, ((closeAll l s).subs k).pc = (s.subs k).pc) := by
  induction l generalizing s with
  | nil => exact ⟨h, hj, fun _ => rfl⟩
  | cons i is ih =>
    obtain ⟨h1, hj1, _, hpc1⟩ := inv_remove_idle h hj i
    obtain ⟨h2, hj2, hpc2⟩ := ih h1 hj1
    exact ⟨h2, hj2, fun k => by show ((closeAll is (removeSubscriber s i)).subs k).pc = _; rw [hpc2 k, hpc1 k]⟩

/-- (A) the loop removes the subscriber whose error it has just placed -/
theorem inv_fanRemove {s : St} (h : Inv s) {p : PubId} {i : SubId} {rest : List SubId}
    (hj : s.joe = .failed p i rest) :
    Inv { removeSubscriber s i with joe := .fanout p rest } ∧ ¬ bad (removeSubscriber s i) := by
  obtain ⟨hi, hnd, hsub, hni⟩ := h.fail p i rest hj
  have hc := (h.reg i hi).1
  rw [remove_mem i hi hc]
  refine ⟨⟨by simp, h.nodup.erase i, ?_, ?_, ?_, by simp, ?_⟩, by simp [bad, hj]⟩
  · intro k hk
    have hk' : k ∈ s.subscribers := List.mem_of_mem_erase hk
    have hki : k ≠ i := by
      intro e; subst e; exact (List.Nodup.not_mem_erase h.nodup) hk
    have := h.reg k hk'
    simp only [upd_other _ _ _ _ hki]
    refine ⟨this.1, ?_⟩
    rcases this.2 with hb | ⟨p', rest', hf⟩
    · exact Or.inl hb
    · rw [hj] at hf; injection hf with _ e _; exact absurd e.symm hki
  · intro k hk
    by_cases hki : k = i
    · subst hki
      simp only [upd_same, closedSub_pc] at hk
      exact absurd hi (h.fresh k hk).2
    · simp only [upd_other _ _ _ _ hki] at hk ⊢
      exact ⟨(h.fresh k hk).1, fun hm => (h.fresh k hk).2 (List.mem_of_mem_erase hm)⟩
  · intro p' rest' hf
    simp only [JoePc.fanout.injEq] at hf
    obtain ⟨_, rfl⟩ := hf
    refine ⟨hnd, fun k hk => ?_⟩
    have hki : k ≠ i := fun e => hni (e ▸ hk)
    exact (List.mem_erase_of_ne hki).mpr (hsub k hk)
  · intro k r hr
    left
    by_cases hki : k = i
    · subst hki; exact List.Nodup.not_mem_erase h.nodup
    · simp only [upd_other _ _ _ _ hki] at hr
      rcases h.ret k r hr with hn | ⟨p', rest', hf⟩
      · exact fun hm => hn (List.mem_of_mem_erase hm)
      · rw [hj] at hf; injection hf with _ e _; exact absurd e.symm hki


/-- the invariant only looks at `joe`, `subscribers` and `subs` -/
theorem inv_congr {s s' : St} (h : Inv s) (hj : s'.joe = s.joe) (hs : s'.subscribers = s.subscribers)
    (hsub : s'.subs = s.subs) : Inv s' := by
  obtain ⟨a, b, c, d, e, f, g⟩ := h
  exact ⟨by rw [hj]; exact a, by rw [hs]; exact b, by rw [hs, hsub, hj]; exact c, by rw [hs, hsub]; exact d,
    by rw [hs, hj]; exact e, by rw [hs, hj]; exact f, by rw [hs, hsub, hj]; exact g⟩

/-- moving the loop between states other than `failed` -/
theorem inv_joe {s : St} (h : Inv s) (j' : JoePc) (hnf : ∀ p i rest, s.joe ≠ .failed p i rest)
    (hok : j' ≠ .panicked ∧ j' ≠ .blocked)
    (hfan : ∀ p rest, j' = .fanout p rest → rest.Nodup ∧ ∀ i ∈ rest, i ∈ s.subscribers)
    (hfail : ∀ p i rest, j' ≠ .failed p i rest) : Inv { s with joe := j' } := by
  refine ⟨hok, h.nodup, ?_, h.fresh, hfan, fun p i rest hf => absurd hf (hfail p i rest), ?_⟩
  · intro k hk
    refine ⟨(h.reg k hk).1, ?_⟩
    rcases (h.reg k hk).2 with hb | ⟨p, rest, hf⟩
    · exact Or.inl hb
    · exact absurd hf (hnf p k rest)
  · intro k r hr
    rcases h.ret k r hr with hn | ⟨p, rest, hf⟩
    · exact Or.inl hn
    · exact absurd hf (hnf p k rest)

end GoSSE.Proofs.Joe
