import GoSSE.Proofs.QueueAuto
/-!
Helper definitions for the replayer-level theorems: the invariants of `FiniteReplayer`
and the reading of its state as a specification state.
-/
namespace GoSSE.Proofs
open GoSSE GoSSE.Spec GoSSE.Model

theorem topicsIntersect_eq (a : List Bytes) (e : Entry) : topicsIntersect a e.topics = matchesTopics a e := by
  simp only [topicsIntersect, matchesTopics]
  congr 1
  funext t
  induction e.topics with
  | nil => rfl
  | cons b bs ih =>
    simp only [List.any_cons, List.contains_cons, ih]

theorem ensureID_eq (id : EventID) (cur : Option Nat) : ensureID id cur = assignID cur id := by
  cases cur with
  | none => cases id <;> simp [ensureID, assignID]
  | some k => cases id <;> simp [ensureID, assignID, formatUint_eq]

/-- automatic IDs are consecutive decimals ending below the counter; the counter has not wrapped -/
def AutoOK (cur : Option Nat) (l : List Entry) : Prop := ∀ c, cur = some c → Consec l c

/-- invariant of a `FiniteReplayer` of capacity `N` -/
structure FInv (N : Nat) (f : Finite) : Prop where
  wf : WF f.buf
  len : f.buf.buf.length = N
  cap : 2 ≤ N
  auto : AutoOK f.currentID (abs f.buf)
  dead : DeadZero f.buf

/-- the specification state a `FiniteReplayer` stands for -/
def fspec (f : Finite) : Spec.State := { log := abs f.buf, next := f.currentID }

theorem abs_replicate (n : Nat) : abs { buf := List.replicate n none, head := 0, tail := 0, count := 0 } = [] := by
  simp [abs, slots]

theorem wf_new (n : Nat) (hn : 0 < n) : WF { buf := List.replicate n none, head := 0, tail := 0, count := 0 } := by
  constructor <;> simp <;> omega

theorem deadZero_new (n : Nat) : DeadZero { buf := List.replicate n none, head := 0, tail := 0, count := 0 } := by
  intro i hi _
  simp at hi
  simp [hi]

/-- the common part of `Replay` of both replayers -/
theorem replay_core {q : Queue} (h : WF q) (auto : Bool) {cur : Option Nat} (hauto : auto = cur.isSome)
    (hc : AutoOK cur (abs q)) (hcur : ∀ c, cur = some c → c ≤ maxUint64 + 1) (sub : Sub) (live : Entry → Bool) :
    ∃ r, findIDInQueue q sub.lastEventID auto = .ok r ∧
      ((r < 0 ∧ replayOut auto live (abs q) sub = { calls := [], err := .nil }) ∨
       (0 ≤ r ∧ ∃ st, q.each r.toNat (sendStep sub fun e => live e && topicsIntersect sub.topics e.topics)
            { calls := [], failed := false } = .ok st ∧
          finishReplay sub st = replayOut auto live (abs q) sub)) := by
  have key : ∃ r, findIDInQueue q sub.lastEventID auto = .ok r ∧
      ((r = -1 ∧ after auto sub.lastEventID (abs q) = []) ∨
       (∃ k, k < q.count ∧ r = (idx q k : Nat) ∧ after auto sub.lastEventID (abs q) = (abs q).drop k)) := by
    cases cur with
    | none =>
      simp only [Option.isSome_none] at hauto; subst hauto
      simpa [after] using findID_manual h sub.lastEventID
    | some c =>
      simp only [Option.isSome_some] at hauto; subst hauto
      simpa [after] using findID_auto h (hc c rfl) (hcur c rfl) sub.lastEventID
  obtain ⟨r, hr, hcase⟩ := key
  refine ⟨r, hr, ?_⟩
  rcases hcase with ⟨hr1, ha⟩ | ⟨k, hk, hrk, ha⟩
  · left
    refine ⟨by omega, ?_⟩
    simp [replayOut, ha, serve]
  · right
    refine ⟨by omega, ?_⟩
    obtain ⟨st, hst, hfin⟩ := each_send h k hk sub (fun e => live e && topicsIntersect sub.topics e.topics)
    refine ⟨st, by rw [hrk]; simpa using hst, ?_⟩
    rw [hfin]
    have hne : (List.drop k (abs q)).isEmpty = false := by
      have := abs_length h
      cases hd : List.drop k (abs q) with
      | nil => have := congrArg List.length hd; simp at this; omega
      | cons _ _ => rfl
    simp only [replayOut, ha, hne, Bool.not_false, replay, topicsIntersect_eq]


/-! ## histories of Puts -/

structure PutIn where
  msg : Nat
  id : EventID
  topics : List Bytes

/-- a history of Puts on a FiniteReplayer: the results in order, and the final replayer -/
def runPuts : Finite → List PutIn → QRes (List (Except PutErr Entry) × Finite)
  | f, [] => .ok ([], f)
  | f, p :: ps =>
    match f.put p.msg p.id p.topics with
    | .panic => .panic
    | .ok (r, f') =>
      match runPuts f' ps with
      | .panic => .panic
      | .ok (rs, f'') => .ok (r :: rs, f'')

/-- the IDs returned by the accepted Puts -/
def acceptedIDs : List (Except PutErr Entry) → List EventID
  | [] => []
  | .ok e :: t => e.id :: acceptedIDs t
  | .error _ :: t => acceptedIDs t

end GoSSE.Proofs
