import GoSSE.Proofs.JoeDeliv
/-!
Further invariants of Joe's transition system: the log has no duplicates, a subscription's
window only ends for its own reasons (own failure, own cancellation, shutdown).
-/
namespace GoSSE.Proofs.Joe
open GoSSE.Model.Joe

def callFailed : Call → Bool
  | .send _ ok => !ok
  | .flush ok => !ok

/-- did one of the subscription's own live Send/Flush calls fail? -/
def failedLive (st : SubSt) : Bool := (st.calls.drop st.replayed).any callFailed

structure XInv (s : St) : Prop where
  logPc : ∀ p ∈ s.log, (s.pubs p).pc ≠ .idle ∧ (s.pubs p).pc ≠ .start
  logNodup : s.log.Nodup
  cancelled : ∀ i, (s.subs i).pc = .cancelled → (s.subs i).ctxCancelled = true
  endWhy : ∀ i, (s.subs i).endAt ≠ none →
    failedLive (s.subs i) = true ∨ (s.subs i).ctxCancelled = true ∨ s.doneClosed = true

theorem xinv_init {s : St} (h : IsInit s) : XInv s := by
  obtain ⟨_, _, _, _, _, hlog, hsub, _, _⟩ := h
  refine ⟨by simp [hlog], by simp [hlog], ?_, ?_⟩
  · intro i hp; simp [(hsub i).1] at hp
  · intro i he; exact absurd (hsub i).2.2.2.2.2.2 he

/-- a change to one subscription that keeps its ghost fields, does not newly enter `cancelled`
without a cancelled context, and does not reset `ctxCancelled` -/
theorem xinv_setSub {s : St} (h : XInv s) (k : SubId) (st : SubSt) (hg : GhostEq st (s.subs k))
    (hc : st.pc = .cancelled → st.ctxCancelled = true)
    (hm : (s.subs k).ctxCancelled = true → st.ctxCancelled = true) : XInv (setSub s k st) := by
  refine ⟨h.logPc, h.logNodup, ?_, ?_⟩
  · intro i hp
    by_cases hik : i = k
    · subst hik; simp only [setSub, upd_same] at hp ⊢; exact hc hp
    · simp only [setSub, upd_other _ _ _ _ hik] at hp ⊢; exact h.cancelled i hp
  · intro i he
    by_cases hik : i = k
    · subst hik
      obtain ⟨a, b, _, d⟩ := hg
      simp only [setSub, upd_same] at he ⊢
      rw [d] at he
      rcases h.endWhy i he with x | x | x
      · left; simp only [failedLive, a, b] at x ⊢; exact x
      · right; left; exact hm x
      · right; right; exact x
    · simp only [setSub, upd_other _ _ _ _ hik] at he ⊢; exact h.endWhy i he

theorem xinv_pubs {s : St} (h : XInv s) (p : PubId) (v : PubSt)
    (hv : p ∈ s.log → v.pc ≠ .idle ∧ v.pc ≠ .start) : XInv (setPub s p v) := by
  refine ⟨?_, h.logNodup, h.cancelled, h.endWhy⟩
  intro q hq
  by_cases hqp : q = p
  · subst hqp; simp only [setPub, upd_same]; exact hv hq
  · simp only [setPub, upd_other _ _ _ _ hqp]; exact h.logPc q hq

theorem xinv_congr {s s' : St} (h : XInv s) (hlog : s'.log = s.log) (hpubs : s'.pubs = s.pubs)
    (hsubs : s'.subs = s.subs) (hd : s.doneClosed = true → s'.doneClosed = true) : XInv s' := by
  refine ⟨by rw [hlog, hpubs]; exact h.logPc, by rw [hlog]; exact h.logNodup, by rw [hsubs]; exact h.cancelled, ?_⟩
  intro i he
  rw [hsubs] at he ⊢
  rcases h.endWhy i he with x | x | x
  · exact Or.inl x
  · exact Or.inr (Or.inl x)
  · exact Or.inr (Or.inr (hd x))

theorem failedLive_append (st : SubSt) (extra : List Call) (hl : st.replayed ≤ st.calls.length) :
    failedLive { st with calls := st.calls ++ extra } = (failedLive st || extra.any callFailed) := by
  simp only [failedLive]
  rw [List.drop_append_of_le_length hl, List.any_append]


@[simp] theorem closedSub_ctx (st : SubSt) (n : Nat) : (closedSub st n).ctxCancelled = st.ctxCancelled := rfl
@[simp] theorem closedSub_failedLive (st : SubSt) (n : Nat) : failedLive (closedSub st n) = failedLive st := rfl

theorem xinv_remove {s : St} (hi : Inv s) (h : XInv s) (i : SubId)
    (why : (s.subs i).endAt ≠ none ∨ (s.subs i).ctxCancelled = true ∨ s.doneClosed = true) :
    XInv (removeSubscriber s i) := by
  by_cases him : i ∈ s.subscribers
  · rw [remove_mem i him (hi.reg i him).1]
    refine ⟨h.logPc, h.logNodup, ?_, ?_⟩
    · intro k hp
      by_cases hk : k = i
      · subst hk; simp only [upd_same, closedSub_pc, closedSub_ctx] at hp ⊢; exact h.cancelled k hp
      · simp only [upd_other _ _ _ _ hk] at hp ⊢; exact h.cancelled k hp
    · intro k he
      by_cases hk : k = i
      · subst hk
        simp only [upd_same, closedSub_failedLive, closedSub_ctx]
        rcases why with w | w | w
        · exact h.endWhy k w
        · exact Or.inr (Or.inl w)
        · exact Or.inr (Or.inr w)
      · simp only [upd_other _ _ _ _ hk] at he ⊢; exact h.endWhy k he
  · rw [remove_not_mem i him]; exact h

theorem closeAll_doneClosed (l : List SubId) (s : St) : (closeAll l s).doneClosed = s.doneClosed := by
  induction l generalizing s with
  | nil => rfl
  | cons i is ih =>
    show (closeAll is (removeSubscriber s i)).doneClosed = _
    rw [ih]
    unfold removeSubscriber closeChan
    split
    · split <;> simp [setSub]
    · rfl

theorem xinv_closeAll {s : St} (hi : Inv s) (h : XInv s) (hj : s.joe = .idle) (hd : s.doneClosed = true)
    (l : List SubId) : XInv (closeAll l s) := by
  induction l generalizing s with
  | nil => exact h
  | cons i is ih =>
    obtain ⟨h1, hj1, _, _⟩ := inv_remove_idle hi hj i
    have hx := xinv_remove hi h i (Or.inr (Or.inr hd))
    have hd1 : (removeSubscriber s i).doneClosed = true := by
      have := closeAll_doneClosed [i] s
      simp only [closeAll] at this; rw [this]; exact hd
    exact ih h1 hx hj1 hd1

theorem step_xinv {c : Cfg} {s s' : St} (hi : Inv s) (hd : DInv c s) (h : XInv s) (l : Label)
    (hs : step c s l = some s') : XInv s' := by
  cases l with
  | subCall k =>
    simp only [step] at hs; split at hs <;> simp at hs; subst hs
    exact xinv_setSub h k _ ⟨rfl, rfl, rfl, rfl⟩ (by simp) (fun x => x)
  | subAccept k rc o =>
    simp only [step] at hs
    split at hs
    · rename_i hg
      obtain ⟨hcalls, hrep, hreg, hend⟩ := hd.fresh k (Or.inr hg.1)
      obtain ⟨hch0, _⟩ := hi.fresh k (Or.inr hg.1)
      -- whatever the branch, subscription k keeps endAt = none, the others are untouched
      have key : ∀ st : SubSt, st.endAt = none → st.pc = .waiting → st.ctxCancelled = (s.subs k).ctxCancelled →
          XInv (setSub s k st) := by
        intro st he hp hc
        refine ⟨h.logPc, h.logNodup, ?_, ?_⟩
        · intro j hj
          by_cases hjk : j = k
          · subst hjk; simp [setSub, hp] at hj
          · simp only [setSub, upd_other _ _ _ _ hjk] at hj ⊢; exact h.cancelled j hj
        · intro j hj
          by_cases hjk : j = k
          · subst hjk; simp [setSub, he] at hj
          · simp only [setSub, upd_other _ _ _ _ hjk] at hj ⊢; exact h.endWhy j hj
      split at hs
      · cases o with
        | ok =>
          simp only [Option.some.injEq] at hs; subst hs
          exact xinv_congr (key { s.subs k with pc := .waiting, calls := (s.subs k).calls ++ rc, replayed := rc.length, regAt := some s.log.length, storeAt := s.store } hend rfl rfl) rfl rfl rfl (fun x => x)
        | panic =>
          simp only [Option.some.injEq] at hs; subst hs
          exact xinv_congr (key { s.subs k with pc := .waiting, calls := (s.subs k).calls ++ rc, replayed := rc.length, regAt := some s.log.length, storeAt := s.store } hend rfl rfl) rfl rfl rfl (fun x => x)
        | err =>
          simp only [Option.some.injEq] at hs; subst hs
          simp only [sendChan, closeChan, setSub, upd_same, hch0]
          simp only [Bool.false_eq_true, if_false, Option.isSome_none, upd_same]
          have := key { s.subs k with pc := .waiting, calls := (s.subs k).calls ++ rc, replayed := rc.length, ch := ⟨some (.replay k), true⟩, storeAt := s.store } hend rfl rfl
          refine xinv_congr this rfl rfl ?_ (fun x => x)
          funext j
          by_cases hjk : j = k
          · subst hjk; simp [setSub, upd]
          · simp [setSub, upd, hjk]
      · split at hs
        · simp only [Option.some.injEq] at hs; subst hs
          exact xinv_congr (key { s.subs k with pc := .waiting, calls := (s.subs k).calls ++ rc, replayed := rc.length, regAt := some s.log.length, storeAt := s.store } hend rfl rfl) rfl rfl rfl (fun x => x)
        · simp at hs
    · simp at hs
  | subClosedEarly k =>
    simp only [step] at hs; split at hs <;> simp at hs; subst hs
    exact xinv_setSub h k _ ⟨rfl, rfl, rfl, rfl⟩ (by simp) (fun x => x)
  | subSeeCancel k =>
    simp only [step] at hs
    split at hs
    · rename_i hg
      simp only [Option.some.injEq] at hs; subst hs
      exact xinv_setSub h k _ ⟨rfl, rfl, rfl, rfl⟩ (fun _ => hg.2) (fun x => x)
    · simp at hs
  | subRecv k =>
    simp only [step] at hs
    split at hs
    · split at hs
      · simp only [Option.some.injEq] at hs; subst hs
        exact xinv_setSub h k _ ⟨rfl, rfl, rfl, rfl⟩ (by simp) (fun x => x)
      · split at hs
        · simp only [Option.some.injEq] at hs; subst hs
          exact xinv_setSub h k _ ⟨rfl, rfl, rfl, rfl⟩ (by simp) (fun x => x)
        · simp at hs
    · simp at hs
  | unsubAccept k =>
    simp only [step] at hs
    split at hs
    · rename_i hg
      simp only [Option.some.injEq] at hs; subst hs
      have h1 := xinv_remove hi h k (Or.inr (Or.inl (h.cancelled k hg.1)))
      exact xinv_setSub h1 k _ ⟨rfl, rfl, rfl, rfl⟩ (by simp) (fun x => x)
    · simp at hs
  | cancel k =>
    simp only [step] at hs; split at hs <;> simp at hs; subst hs
    exact xinv_setSub h k _ ⟨rfl, rfl, rfl, rfl⟩ (fun _ => rfl) (fun _ => rfl)
  | pubCall p =>
    simp only [step] at hs
    split at hs
    · rename_i hpc
      simp only [Option.some.injEq] at hs; subst hs
      exact xinv_pubs h p _ (fun hm => absurd hpc (h.logPc p hm).1)
    · simp at hs
  | pubNoTopic p =>
    simp only [step] at hs; split at hs <;> simp at hs; subst hs
    exact xinv_pubs h p _ (by simp)
  | pubAccept p o =>
    simp only [step] at hs
    split at hs
    · rename_i hg
      split at hs
      · simp at hs
      · simp only [Option.some.injEq] at hs; subst hs
        have hnp : p ∉ s.log := fun hm => (h.logPc p hm).2 hg.1
        refine ⟨?_, ?_, h.cancelled, h.endWhy⟩
        · intro q hq
          by_cases hqp : q = p
          · subst hqp; simp [setPub]
          · simp only [setPub, upd_other _ _ _ _ hqp]
            have : q ∈ s.log := by
              rcases List.mem_append.mp hq with x | x
              · exact x
              · simp at x; exact absurd x hqp
            exact h.logPc q this
        · show (s.log ++ [p]).Nodup
          refine List.nodup_append.mpr ⟨h.logNodup, by simp, ?_⟩
          intro a ha b hb
          simp at hb; subst hb
          exact fun e => hnp (e ▸ ha)
    · simp at hs
  | pubClosedEarly p =>
    simp only [step] at hs; split at hs <;> simp at hs; subst hs
    exact xinv_pubs h p _ (by simp)
  | pubRecv p =>
    simp only [step] at hs; split at hs <;> simp at hs; subst hs
    exact xinv_pubs h p _ (by simp)
  | fanStep k a b =>
    simp only [step] at hs
    split at hs
    · rename_i p rest hj
      split at hs
      · rename_i hmem
        have hmem' : k ∈ rest := by simpa using hmem
        have hk : k ∈ s.subscribers := (hi.fan p rest hj).2 k hmem'
        have hnf : ∀ p' j rest', s.joe ≠ .failed p' j rest' := by simp [hj]
        have hcl := (hi.reg k hk).1
        have hbuf : (s.subs k).ch.buf = none := by
          rcases (hi.reg k hk).2 with hb | ⟨p', rest', hf⟩
          · exact hb
          · exact absurd hf (hnf p' k rest')
        split at hs
        · simp only [Option.some.injEq] at hs; subst hs
          refine xinv_congr (s := setSub s k { s.subs k with calls := (s.subs k).calls ++ [Call.send p a] ++ (if a then [Call.flush b] else []) }) ?_ rfl rfl rfl (fun x => x)
          refine ⟨h.logPc, h.logNodup, ?_, ?_⟩
          · intro j hp
            by_cases hjk : j = k
            · subst hjk; simp only [setSub, upd_same] at hp ⊢; exact h.cancelled j hp
            · simp only [setSub, upd_other _ _ _ _ hjk] at hp ⊢; exact h.cancelled j hp
          · intro j he
            by_cases hjk : j = k
            · subst hjk
              simp only [setSub, upd_same] at he ⊢
              rcases h.endWhy j he with x | x | x
              · left
                rw [List.append_assoc, failedLive_append _ _ (hd.lenOK j), x]; rfl
              · exact Or.inr (Or.inl x)
              · exact Or.inr (Or.inr x)
            · simp only [setSub, upd_other _ _ _ _ hjk] at he ⊢; exact h.endWhy j he
        · rename_i hfail
          simp only [Option.some.injEq] at hs; subst hs
          rw [sendChan_ok _ _ _ (by simpa [setSub] using hcl) (by simpa [setSub] using hbuf)]
          have hnb : bad (setSub (setSub s k { s.subs k with calls := (s.subs k).calls ++ [Call.send p a] ++ (if a then [Call.flush b] else []) }) k
              { (setSub s k { s.subs k with calls := (s.subs k).calls ++ [Call.send p a] ++ (if a then [Call.flush b] else []) }).subs k with ch := ⟨some (.own k), false⟩ }) = false := by
            simp [bad, setSub, hj]
          rw [hnb]
          simp only [Bool.false_eq_true, if_false, setSub, upd_same]
          refine ⟨h.logPc, h.logNodup, ?_, ?_⟩
          · intro j hp
            by_cases hjk : j = k
            · subst hjk; simp only [upd_same] at hp ⊢; exact h.cancelled j hp
            · simp only [upd, hjk, if_false] at hp ⊢; exact h.cancelled j hp
          · intro j he
            by_cases hjk : j = k
            · subst hjk
              left
              simp only [upd_same]
              have := failedLive_append (s.subs j) ([Call.send p a] ++ (if a then [Call.flush b] else [])) (hd.lenOK j)
              simp only [failedLive, ← List.append_assoc] at this ⊢
              rw [this]
              cases a <;> cases b <;> simp_all [callFailed]
            · simp only [upd, hjk, if_false] at he ⊢; exact h.endWhy j he
      · simp at hs
    · simp at hs
  | fanRemove =>
    simp only [step] at hs
    split at hs
    · rename_i p k rest hj
      obtain ⟨_, hnb⟩ := inv_fanRemove hi hj
      simp only [Bool.not_eq_true] at hnb
      simp only [Option.some.injEq] at hs; subst hs
      simp only [hnb, Bool.false_eq_true, if_false]
      exact xinv_congr (xinv_remove hi h k (Or.inl (hd.failedEnd p k rest hj))) rfl rfl rfl (fun x => x)
    · simp at hs
  | fanDone =>
    simp only [step] at hs; split at hs <;> simp at hs; subst hs
    exact xinv_congr h rfl rfl rfl (fun x => x)
  | loopExit =>
    simp only [step] at hs
    split at hs
    · rename_i hg
      simp only [Option.some.injEq] at hs; subst hs
      obtain ⟨_, hj1, _⟩ := inv_closeAll hi hg.1 s.subscribers
      have hnb : bad (closeAll s.subscribers s) = false := by simp [bad, hj1]
      simp only [hnb, Bool.false_eq_true, if_false]
      exact xinv_congr (xinv_closeAll hi h hg.1 hg.2 s.subscribers) rfl rfl rfl (fun x => x)
    · simp at hs
  | shutCall k =>
    simp only [step] at hs; split at hs <;> simp at hs; subst hs
    exact xinv_congr h rfl rfl rfl (fun x => x)
  | shutClose k =>
    simp only [step] at hs; split at hs <;> simp at hs; subst hs
    exact xinv_congr h rfl rfl rfl (fun _ => rfl)
  | shutRecovered k =>
    simp only [step] at hs; split at hs <;> simp at hs; subst hs
    exact xinv_congr h rfl rfl rfl (fun x => x)
  | shutSeeClosed k =>
    simp only [step] at hs; split at hs <;> simp at hs; subst hs
    exact xinv_congr h rfl rfl rfl (fun x => x)
  | shutCtx k =>
    simp only [step] at hs; split at hs <;> simp at hs; subst hs
    exact xinv_congr h rfl rfl rfl (fun x => x)
  | shutCancel k =>
    simp only [step] at hs; split at hs <;> simp at hs; subst hs
    exact xinv_congr h rfl rfl rfl (fun x => x)

theorem reachable_all {c : Cfg} {s : St} (h : Reachable c s) : Inv s ∧ DInv c s ∧ XInv s := by
  induction h with
  | init hi => exact ⟨inv_init hi, dinv_init hi, xinv_init hi⟩
  | step _ hs ih => exact ⟨step_inv ih.1 _ hs, step_dinv ih.1 ih.2.1 _ hs, step_xinv ih.1 ih.2.1 ih.2.2 _ hs⟩


/-- how a transition can change a window's end: not at all, or from "open" to the current length of the log -/
def EndStep (s s' : St) (i : SubId) : Prop :=
  (s'.subs i).endAt = (s.subs i).endAt ∨ ((s.subs i).endAt = none ∧ (s'.subs i).endAt = some s.log.length)

theorem removeSubscriber_endAt (s : St) (k i : SubId) : EndStep s (removeSubscriber s k) i := by
  unfold removeSubscriber closeChan
  split
  · split
    · by_cases hik : i = k
      · subst hik
        simp only [EndStep, setSub, upd_same]
        cases h : (s.subs i).endAt <;> simp [h]
      · simp [EndStep, setSub, upd, hik]
    · by_cases hik : i = k
      · subst hik
        simp only [EndStep, setSub, upd_same]
        cases h : (s.subs i).endAt <;> simp [h]
      · simp [EndStep, setSub, upd, hik]
  · exact Or.inl rfl

theorem removeSubscriber_log (s : St) (k : SubId) : (removeSubscriber s k).log = s.log := by
  have := closeAll_log [k] s
  simpa [closeAll] using this

theorem closeAll_endAt (l : List SubId) (s : St) (i : SubId) : EndStep s (closeAll l s) i := by
  induction l generalizing s with
  | nil => exact Or.inl rfl
  | cons k ks ih =>
    have h1 := removeSubscriber_endAt s k i
    have h2 := ih (removeSubscriber s k)
    simp only [EndStep, removeSubscriber_log] at h1 h2 ⊢
    show ((closeAll ks (removeSubscriber s k)).subs i).endAt = _ ∨ _
    rcases h2 with e2 | ⟨n2, e2⟩
    · rcases h1 with e1 | ⟨n1, e1⟩
      · exact Or.inl (e2.trans e1)
      · exact Or.inr ⟨n1, e2.trans e1⟩
    · rcases h1 with e1 | ⟨n1, e1⟩
      · rw [e1] at n2; exact Or.inr ⟨n2, e2⟩
      · rw [e1] at n2; simp at n2

theorem endStep_setSub (s : St) (k : SubId) (st : SubSt) (i : SubId) (h : st.endAt = (s.subs k).endAt) :
    EndStep s (setSub s k st) i := by
  left
  by_cases hik : i = k
  · subst hik; simp [setSub, h]
  · simp [setSub, upd, hik]

/-- every transition leaves a window's end alone or fixes it at the current length of the log -/
theorem step_endAt {c : Cfg} {s s' : St} (hi : Inv s) (hd : DInv c s) (l : Label) (hs : step c s l = some s') (i : SubId) :
    EndStep s s' i := by
  cases l with
  | subCall k => simp only [step] at hs; split at hs <;> simp at hs; subst hs; exact endStep_setSub _ _ _ _ rfl
  | subAccept k rc o =>
    simp only [step] at hs
    split at hs
    · rename_i hg
      obtain ⟨hch0, _⟩ := hi.fresh k (Or.inr hg.1)
      split at hs
      · cases o with
        | ok => simp only [Option.some.injEq] at hs; subst hs; exact endStep_setSub _ _ _ _ rfl
        | panic => simp only [Option.some.injEq] at hs; subst hs; exact endStep_setSub _ _ _ _ rfl
        | err =>
          simp only [Option.some.injEq] at hs; subst hs
          simp only [sendChan, closeChan, setSub, upd_same, hch0]
          simp only [Bool.false_eq_true, if_false, Option.isSome_none, upd_same]
          left
          by_cases hik : i = k
          · subst hik; simp [upd]
          · simp [upd, hik]
      · split at hs
        · simp only [Option.some.injEq] at hs; subst hs; exact endStep_setSub _ _ _ _ rfl
        · simp at hs
    · simp at hs
  | subClosedEarly k => simp only [step] at hs; split at hs <;> simp at hs; subst hs; exact endStep_setSub _ _ _ _ rfl
  | subSeeCancel k => simp only [step] at hs; split at hs <;> simp at hs; subst hs; exact endStep_setSub _ _ _ _ rfl
  | subRecv k =>
    simp only [step] at hs
    split at hs
    · split at hs
      · simp only [Option.some.injEq] at hs; subst hs; exact endStep_setSub _ _ _ _ rfl
      · split at hs
        · simp only [Option.some.injEq] at hs; subst hs; exact endStep_setSub _ _ _ _ rfl
        · simp at hs
    · simp at hs
  | unsubAccept k =>
    simp only [step] at hs; split at hs <;> simp at hs; subst hs
    have h1 := removeSubscriber_endAt s k i
    simp only [EndStep] at h1 ⊢
    by_cases hik : i = k
    · subst hik; simpa [setSub] using h1
    · simpa [setSub, upd, hik] using h1
  | cancel k => simp only [step] at hs; split at hs <;> simp at hs; subst hs; exact endStep_setSub _ _ _ _ rfl
  | pubCall p => simp only [step] at hs; split at hs <;> simp at hs; subst hs; exact Or.inl rfl
  | pubNoTopic p => simp only [step] at hs; split at hs <;> simp at hs; subst hs; exact Or.inl rfl
  | pubAccept p o =>
    simp only [step] at hs
    split at hs
    · split at hs
      · simp at hs
      · simp only [Option.some.injEq] at hs; subst hs; exact Or.inl rfl
    · simp at hs
  | pubClosedEarly p => simp only [step] at hs; split at hs <;> simp at hs; subst hs; exact Or.inl rfl
  | pubRecv p => simp only [step] at hs; split at hs <;> simp at hs; subst hs; exact Or.inl rfl
  | fanStep k a b =>
    simp only [step] at hs
    split at hs
    · rename_i p rest hj
      split at hs
      · rename_i hmem
        have hmem' : k ∈ rest := by simpa using hmem
        have hk : k ∈ s.subscribers := (hi.fan p rest hj).2 k hmem'
        have hnf : ∀ p' j rest', s.joe ≠ .failed p' j rest' := by simp [hj]
        have hcl := (hi.reg k hk).1
        have hbuf : (s.subs k).ch.buf = none := by
          rcases (hi.reg k hk).2 with hb | ⟨p', rest', hf⟩
          · exact hb
          · exact absurd hf (hnf p' k rest')
        split at hs
        · simp only [Option.some.injEq] at hs; subst hs; exact endStep_setSub _ _ _ _ rfl
        · simp only [Option.some.injEq] at hs; subst hs
          rw [sendChan_ok _ _ _ (by simpa [setSub] using hcl) (by simpa [setSub] using hbuf)]
          simp only [EndStep, bad, setSub, hj]
          by_cases hik : i = k
          · subst hik
            have he : (s.subs i).endAt = none := ((hd.cur p rest (by simp [restOf, hj])).2 i hmem').2
            right; simp [he]
          · left; simp [upd, hik]
      · simp at hs
    · simp at hs
  | fanRemove =>
    simp only [step] at hs
    split at hs
    · rename_i p k rest hj
      obtain ⟨_, hnb⟩ := inv_fanRemove hi hj
      simp only [Bool.not_eq_true] at hnb
      simp only [Option.some.injEq] at hs; subst hs
      simp only [hnb, Bool.false_eq_true, if_false]
      exact removeSubscriber_endAt s k i
    · simp at hs
  | fanDone => simp only [step] at hs; split at hs <;> simp at hs; subst hs; exact Or.inl rfl
  | loopExit =>
    simp only [step] at hs
    split at hs
    · rename_i hg
      simp only [Option.some.injEq] at hs; subst hs
      obtain ⟨_, hj1, _⟩ := inv_closeAll hi hg.1 s.subscribers
      have hnb : bad (closeAll s.subscribers s) = false := by simp [bad, hj1]
      simp only [hnb, Bool.false_eq_true, if_false]
      exact closeAll_endAt s.subscribers s i
    · simp at hs
  | shutCall k => simp only [step] at hs; split at hs <;> simp at hs; subst hs; exact Or.inl rfl
  | shutClose k => simp only [step] at hs; split at hs <;> simp at hs; subst hs; exact Or.inl rfl
  | shutRecovered k => simp only [step] at hs; split at hs <;> simp at hs; subst hs; exact Or.inl rfl
  | shutSeeClosed k => simp only [step] at hs; split at hs <;> simp at hs; subst hs; exact Or.inl rfl
  | shutCtx k => simp only [step] at hs; split at hs <;> simp at hs; subst hs; exact Or.inl rfl
  | shutCancel k => simp only [step] at hs; split at hs <;> simp at hs; subst hs; exact Or.inl rfl


theorem sendChan_log (s : St) (i : SubId) (e : Err) : (sendChan s i e).log = s.log := by
  unfold sendChan; split
  · rfl
  · split <;> rfl

theorem closeChan_log (s : St) (i : SubId) : (closeChan s i).log = s.log := by
  unfold closeChan; split <;> rfl

/-- the log only grows, one accepted publication at a time -/
theorem step_log {c : Cfg} {s s' : St} (l : Label) (hs : step c s l = some s') :
    s'.log = s.log ∨ ∃ p, s'.log = s.log ++ [p] := by
  cases l with
  | pubAccept p o =>
    simp only [step] at hs
    split at hs
    · split at hs
      · simp at hs
      · simp only [Option.some.injEq] at hs; subst hs; exact Or.inr ⟨p, rfl⟩
    · simp at hs
  | subAccept k rc o =>
    left
    simp only [step] at hs
    split at hs
    · split at hs
      · cases o <;> simp only [Option.some.injEq] at hs <;> subst hs
        · rfl
        · rw [closeChan_log, sendChan_log]; rfl
        · rfl
      · split at hs
        · simp only [Option.some.injEq] at hs; subst hs; rfl
        · simp at hs
    · simp at hs
  | subRecv k =>
    left
    simp only [step] at hs
    split at hs
    · split at hs
      · simp only [Option.some.injEq] at hs; subst hs; rfl
      · split at hs
        · simp only [Option.some.injEq] at hs; subst hs; rfl
        · simp at hs
    · simp at hs
  | unsubAccept k =>
    left
    simp only [step] at hs; split at hs <;> simp at hs; subst hs
    exact removeSubscriber_log s k
  | fanStep k a b =>
    left
    simp only [step] at hs
    split at hs
    · split at hs
      · split at hs
        · simp only [Option.some.injEq] at hs; subst hs; rfl
        · simp only [Option.some.injEq] at hs; subst hs
          generalize hX : sendChan _ _ _ = X
          have hXl : X.log = s.log := by rw [← hX, sendChan_log]; rfl
          by_cases hb : bad X = true
          · rw [if_pos hb]; exact hXl
          · rw [if_neg hb]; exact hXl
      · simp at hs
    · simp at hs
  | fanRemove =>
    left
    simp only [step] at hs
    split at hs
    · simp only [Option.some.injEq] at hs; subst hs
      split
      · exact removeSubscriber_log _ _
      · exact removeSubscriber_log _ _
    · simp at hs
  | loopExit =>
    left
    simp only [step] at hs
    split at hs
    · simp only [Option.some.injEq] at hs; subst hs
      split
      · exact closeAll_log _ _
      · exact closeAll_log _ _
    · simp at hs
  | subCall k => left; simp only [step] at hs; split at hs <;> simp at hs; subst hs; rfl
  | subClosedEarly k => left; simp only [step] at hs; split at hs <;> simp at hs; subst hs; rfl
  | subSeeCancel k => left; simp only [step] at hs; split at hs <;> simp at hs; subst hs; rfl
  | cancel k => left; simp only [step] at hs; split at hs <;> simp at hs; subst hs; rfl
  | pubCall p => left; simp only [step] at hs; split at hs <;> simp at hs; subst hs; rfl
  | pubNoTopic p => left; simp only [step] at hs; split at hs <;> simp at hs; subst hs; rfl
  | pubClosedEarly p => left; simp only [step] at hs; split at hs <;> simp at hs; subst hs; rfl
  | pubRecv p => left; simp only [step] at hs; split at hs <;> simp at hs; subst hs; rfl
  | fanDone => left; simp only [step] at hs; split at hs <;> simp at hs; subst hs; rfl
  | shutCall k => left; simp only [step] at hs; split at hs <;> simp at hs; subst hs; rfl
  | shutClose k => left; simp only [step] at hs; split at hs <;> simp at hs; subst hs; rfl
  | shutRecovered k => left; simp only [step] at hs; split at hs <;> simp at hs; subst hs; rfl
  | shutSeeClosed k => left; simp only [step] at hs; split at hs <;> simp at hs; subst hs; rfl
  | shutCtx k => left; simp only [step] at hs; split at hs <;> simp at hs; subst hs; rfl
  | shutCancel k => left; simp only [step] at hs; split at hs <;> simp at hs; subst hs; rfl

/-- a run of the system: `Run c s ls s'` — the labels `ls` lead from `s` to `s'` -/
inductive Run (c : Cfg) : St → List Label → St → Prop
  | nil {s} : Run c s [] s
  | cons {s s1 s' l ls} : step c s l = some s1 → Run c s1 ls s' → Run c s (l :: ls) s'

theorem run_Run {c : Cfg} {s s' : St} {ls : List Label} (h : run c s ls = some s') : Run c s ls s' := by
  induction ls generalizing s with
  | nil => simp only [run, Option.some.injEq] at h; subst h; exact Run.nil
  | cons l ls ih =>
    simp only [run] at h
    split at h
    · rename_i s1 hs; exact Run.cons hs (ih h)
    · simp at h

theorem Run.reachable {c : Cfg} {s s' : St} {ls : List Label} (h : Reachable c s) (r : Run c s ls s') :
    Reachable c s' := by
  induction r with
  | nil => exact h
  | cons hs _ ih => exact ih (Reachable.step h hs)

/-- a window's end never changes once it is fixed -/
theorem run_endAt_stable {c : Cfg} {s s' : St} {ls : List Label} (h : Reachable c s) (r : Run c s ls s') (i : SubId)
    (b : Nat) (he : (s.subs i).endAt = some b) : (s'.subs i).endAt = some b := by
  induction r with
  | nil => exact he
  | @cons s0 s1 s2 l ls' hs _ ih =>
    have hall := reachable_all h
    apply ih (Reachable.step h hs)
    rcases step_endAt hall.1 hall.2.1 l hs i with e | ⟨n, _⟩
    · rw [e]; exact he
    · rw [he] at n; simp at n

/-- along any run the log grows and an open window, if it ends, ends at or after the log's length
at the start of the run -/
theorem run_window_end {c : Cfg} {s s' : St} {ls : List Label} (h : Reachable c s) (r : Run c s ls s') (i : SubId) :
    s.log.length ≤ s'.log.length ∧
    ((s.subs i).endAt = none → ∀ b, (s'.subs i).endAt = some b → s.log.length ≤ b) := by
  induction r with
  | nil => exact ⟨Nat.le_refl _, fun he b hb => by rw [he] at hb; simp at hb⟩
  | @cons s0 s1 s2 l ls' hs r' ih =>
    have hall := reachable_all h
    have h1 := Reachable.step h hs
    obtain ⟨ih1, ih2⟩ := ih h1
    have hlog : s0.log.length ≤ s1.log.length := by
      rcases step_log l hs with e | ⟨p, e⟩ <;> rw [e] <;> simp
    refine ⟨Nat.le_trans hlog ih1, fun he b hb => ?_⟩
    rcases step_endAt hall.1 hall.2.1 l hs i with e | ⟨_, e⟩
    · rw [he] at e
      exact Nat.le_trans hlog (ih2 e b hb)
    · have := run_endAt_stable h1 r' i _ e
      rw [this] at hb
      simp only [Option.some.injEq] at hb
      omega


theorem sendChan_replayer (s : St) (i : SubId) (e : Err) : (sendChan s i e).replayer = s.replayer := by
  unfold sendChan; split
  · rfl
  · split <;> rfl

theorem closeChan_replayer (s : St) (i : SubId) : (closeChan s i).replayer = s.replayer := by
  unfold closeChan; split <;> rfl

theorem removeSubscriber_replayer (s : St) (i : SubId) : (removeSubscriber s i).replayer = s.replayer := by
  unfold removeSubscriber; split
  · simp [setSub, closeChan_replayer]
  · rfl

theorem closeAll_replayer (l : List SubId) (s : St) : (closeAll l s).replayer = s.replayer := by
  induction l generalizing s with
  | nil => rfl
  | cons i is ih => show (closeAll is (removeSubscriber s i)).replayer = _; rw [ih, removeSubscriber_replayer]

/-- a disabled replayer stays disabled -/
theorem step_replayer {c : Cfg} {s s' : St} (l : Label) (hs : step c s l = some s') (hd : s.replayer = false) :
    s'.replayer = false := by
  cases l with
  | pubAccept p o =>
    simp only [step] at hs
    split at hs
    · split at hs
      · simp at hs
      · simp only [Option.some.injEq] at hs; subst hs; simp [hd]
    · simp at hs
  | subAccept k rc o =>
    simp only [step] at hs
    split at hs
    · simp only [hd, Bool.false_eq_true, if_false] at hs
      split at hs
      · simp only [Option.some.injEq] at hs; subst hs; simpa [setSub] using hd
      · simp at hs
    · simp at hs
  | subRecv k =>
    simp only [step] at hs
    split at hs
    · split at hs
      · simp only [Option.some.injEq] at hs; subst hs; exact hd
      · split at hs
        · simp only [Option.some.injEq] at hs; subst hs; exact hd
        · simp at hs
    · simp at hs
  | unsubAccept k =>
    simp only [step] at hs; split at hs <;> simp at hs; subst hs
    show (removeSubscriber s k).replayer = false
    rw [removeSubscriber_replayer]; exact hd
  | fanStep k a b =>
    simp only [step] at hs
    split at hs
    · split at hs
      · split at hs
        · simp only [Option.some.injEq] at hs; subst hs; exact hd
        · simp only [Option.some.injEq] at hs; subst hs
          generalize hX : sendChan _ _ _ = X
          have hXl : X.replayer = false := by rw [← hX, sendChan_replayer]; exact hd
          by_cases hb : bad X = true
          · rw [if_pos hb]; exact hXl
          · rw [if_neg hb]; exact hXl
      · simp at hs
    · simp at hs
  | fanRemove =>
    simp only [step] at hs
    split at hs
    · simp only [Option.some.injEq] at hs; subst hs
      split
      · rw [removeSubscriber_replayer]; exact hd
      · show (removeSubscriber s _).replayer = false; rw [removeSubscriber_replayer]; exact hd
    · simp at hs
  | loopExit =>
    simp only [step] at hs
    split at hs
    · simp only [Option.some.injEq] at hs; subst hs
      split
      · rw [closeAll_replayer]; exact hd
      · show (closeAll _ s).replayer = false; rw [closeAll_replayer]; exact hd
    · simp at hs
  | subCall k => simp only [step] at hs; split at hs <;> simp at hs; subst hs; exact hd
  | subClosedEarly k => simp only [step] at hs; split at hs <;> simp at hs; subst hs; exact hd
  | subSeeCancel k => simp only [step] at hs; split at hs <;> simp at hs; subst hs; exact hd
  | cancel k => simp only [step] at hs; split at hs <;> simp at hs; subst hs; exact hd
  | pubCall p => simp only [step] at hs; split at hs <;> simp at hs; subst hs; exact hd
  | pubNoTopic p => simp only [step] at hs; split at hs <;> simp at hs; subst hs; exact hd
  | pubClosedEarly p => simp only [step] at hs; split at hs <;> simp at hs; subst hs; exact hd
  | pubRecv p => simp only [step] at hs; split at hs <;> simp at hs; subst hs; exact hd
  | fanDone => simp only [step] at hs; split at hs <;> simp at hs; subst hs; exact hd
  | shutCall k => simp only [step] at hs; split at hs <;> simp at hs; subst hs; exact hd
  | shutClose k => simp only [step] at hs; split at hs <;> simp at hs; subst hs; exact hd
  | shutRecovered k => simp only [step] at hs; split at hs <;> simp at hs; subst hs; exact hd
  | shutSeeClosed k => simp only [step] at hs; split at hs <;> simp at hs; subst hs; exact hd
  | shutCtx k => simp only [step] at hs; split at hs <;> simp at hs; subst hs; exact hd
  | shutCancel k => simp only [step] at hs; split at hs <;> simp at hs; subst hs; exact hd

end GoSSE.Proofs.Joe
