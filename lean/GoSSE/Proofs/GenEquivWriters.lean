import GoSSE.Gen.Writers
import GoSSE.Model.Server
/-!
# `getResponseWriter` as translated from session.go = the model's `getResponseWriter`

In the translated text an `http.ResponseWriter` is a `GoRT.DynRW` (an identity, the extra methods of its dynamic type,
what `Unwrap()` returns), the type switch asks `dynHas`, and the result is the wrapper type chosen and the writer wrapped
(or nil). A model `Shape` (which layers implement `Flush()`, `FlushError() error`, `Unwrap()`) is such a writer whose
identities are the layer numbers (`toDyn`). For every shape the translated loop ends without a fault and answers what
the model answers: the outermost layer that can flush at all, `FlushError` preferred to `Flush` on one layer.
-/
set_option linter.unusedSimpArgs false
set_option linter.unusedVariables false
namespace GoSSE.GenEquiv
open GoSSE GoSSE.GoRT GoSSE.Model.Server GoSSE.Model.Session

def capsMethods : Caps → List String
  | .plain => []
  | .flusher => ["Flush"]
  | .flushError => ["FlushError"]
  | .both => ["Flush", "FlushError"]

/-- a shape as a dynamic writer: layer `lvl` first -/
def toDyn : Shape → Nat → DynRW
  | .base c, lvl => .mk lvl (capsMethods c) none
  | .wrapped c inner, lvl => .mk lvl (capsMethods c) (some (toDyn inner (lvl + 1)))

def kindName : FlushKind → String
  | .flushError => "flusherErrorWrapper"
  | .flusher => "flusherWrapper"

def depth : Shape → Nat
  | .base _ => 0
  | .wrapped _ inner => depth inner + 1

/-- what the caller can tell of the answer: which wrapper, around which layer -/
def resView (r : Option (String × DynRW)) : Option (String × Nat) := r.map fun x => (x.1, x.2.id)

def modelView (r : Option Res) : Option (String × Nat) := r.map fun x => (kindName x.kind, x.lvl)

theorem has_flushError (c : Caps) (lvl : Nat) (i : Option DynRW) :
    dynHas (.mk lvl (capsMethods c) i) ["FlushError"] = (c == .flushError || c == .both) := by
  cases c <;> simp [dynHas, capsMethods, DynRW.methods] <;> decide

theorem has_flush (c : Caps) (lvl : Nat) (i : Option DynRW) :
    dynHas (.mk lvl (capsMethods c) i) ["Flush"] = (c == .flusher || c == .both) := by
  cases c <;> simp [dynHas, capsMethods, DynRW.methods] <;> decide

theorem has_unwrap (ms : List String) (lvl : Nat) (i : Option DynRW) :
    dynHas (.mk lvl ms i) ["Unwrap"] = i.isSome := by
  simp [dynHas, DynRW.inner]

/-- one round of the translated loop on a layer that can flush: the answer -/
theorem body_pick (fuel : Nat) (c : Caps) (lvl : Nat) (i : Option DynRW) (k : FlushKind) (h : c.pick = some k) :
    Gen.getResponseWriter_loop1 fuel (.mk lvl (capsMethods c) i) = .ok (.ret (some (kindName k, .mk lvl (capsMethods c) i))) := by
  unfold Gen.getResponseWriter_loop1
  simp only [has_flushError, has_flush]
  cases c <;> simp [Caps.pick] at h <;> subst h <;> simp [kindName, pure, Except.pure] <;> rfl

/-- … on a plain layer with an `Unwrap()`: on to what it returns -/
theorem body_unwrap (fuel : Nat) (lvl : Nat) (i : DynRW) :
    Gen.getResponseWriter_loop1 fuel (.mk lvl (capsMethods .plain) (some i)) = .ok (.next i) := by
  unfold Gen.getResponseWriter_loop1
  simp only [has_flushError, has_flush, has_unwrap]
  simp [dynUnwrap, DynRW.inner, bind, Except.bind, pure, Except.pure]

/-- … on a plain layer without: nil -/
theorem body_none (fuel : Nat) (lvl : Nat) :
    Gen.getResponseWriter_loop1 fuel (.mk lvl (capsMethods .plain) none) = .ok (.ret none) := by
  unfold Gen.getResponseWriter_loop1
  simp only [has_flushError, has_flush, has_unwrap]
  simp [pure, Except.pure]

theorem pick_none_plain (c : Caps) (h : c.pick = none) : c = .plain := by
  cases c <;> simp [Caps.pick] at h <;> rfl

theorem loop_eq (fuel : Nat) : ∀ (sh : Shape) (lvl n : Nat), depth sh < n →
    ∃ r, loopM (Gen.getResponseWriter_loop1 fuel) n (toDyn sh lvl) = .ok (.inr r) ∧
      resView r = modelView (Model.Server.getResponseWriter sh lvl) := by
  intro sh
  induction sh with
  | base c =>
    intro lvl n hn
    obtain ⟨n', rfl⟩ : ∃ n', n = n' + 1 := ⟨n - 1, by omega⟩
    cases hp : c.pick with
    | some k =>
      refine ⟨some (kindName k, toDyn (.base c) lvl), ?_, ?_⟩
      · simp only [loopM, toDyn, body_pick fuel c lvl none k hp]; rfl
      · simp [resView, modelView, Model.Server.getResponseWriter, hp, toDyn, DynRW.id]
    | none =>
      have := pick_none_plain c hp
      subst this
      refine ⟨none, ?_, ?_⟩
      · simp only [loopM, toDyn, body_none]; rfl
      · simp [resView, modelView, Model.Server.getResponseWriter, Caps.pick]
  | wrapped c inner ih =>
    intro lvl n hn
    obtain ⟨n', rfl⟩ : ∃ n', n = n' + 1 := ⟨n - 1, by omega⟩
    cases hp : c.pick with
    | some k =>
      refine ⟨some (kindName k, toDyn (.wrapped c inner) lvl), ?_, ?_⟩
      · simp only [loopM, toDyn, body_pick fuel c lvl _ k hp]; rfl
      · simp [resView, modelView, Model.Server.getResponseWriter, hp, toDyn, DynRW.id]
    | none =>
      have := pick_none_plain c hp
      subst this
      have hd : depth inner < n' := by simp [depth] at hn; omega
      obtain ⟨r, hr, hv⟩ := ih (lvl + 1) n' hd
      refine ⟨r, ?_, ?_⟩
      · simp only [loopM, toDyn, body_unwrap]; exact hr
      · simp only [Model.Server.getResponseWriter, Caps.pick]; exact hv

/-- **`getResponseWriter` as translated**: for every shape of response writer and fuel beyond its depth, no fault, and
the model's answer — which wrapper (`flusherErrorWrapper` / `flusherWrapper`), around which layer, or nil -/
theorem getResponseWriter_eq (fuel : Nat) (sh : Shape) (hf : depth sh < fuel) :
    ∃ r, Gen.getResponseWriter fuel (toDyn sh 0) = .ok r ∧ resView r = modelView (Model.Server.getResponseWriter sh 0) := by
  obtain ⟨r, hr, hv⟩ := loop_eq fuel sh 0 fuel hf
  refine ⟨r, ?_, hv⟩
  unfold Gen.getResponseWriter
  simp only [hr, bind, Except.bind, pure, Except.pure]

end GoSSE.GenEquiv
