import GoSSE.Proofs.GenEquivWrite
import GoSSE.Proofs.ClientRead
import GoSSE.Gen.Unmarshal
/-!
# `Message.UnmarshalText` as translated computes the model's

`GoSSE/Gen/Unmarshal.lean` holds `Message.reset` and `Message.UnmarshalText` as translated from /repo's message.go: the
`for f := (parser.Field{}); s.Next(&f);` loop with its `switch` (a `break` that leaves the switch, a labelled
`break loop`), the retry checks (`strings.IndexFunc` for a non-digit, `strconv.ParseInt`, the `int64` multiplication
by `time.Millisecond` with wrap-around) and the final emptiness test. It returns the model's receiver and the model's
error class for **every** text.
-/
set_option linter.unusedSimpArgs false
namespace GoSSE.GenEquiv
open GoSSE GoSSE.GoRT GoSSE.Model GoSSE.Proofs

/-- the error value the translated code returns for the model's error class (the translated text does not keep which
`strconv` error it wrapped) -/
def uErrStr : UErr → Option String
  | .nil => none
  | .retryNonDigit => some "UnmarshalError: contains character %q, which is not an ASCII digit"
  | .retrySyntax => some "UnmarshalError: invalid retry value: %w"
  | .retryRange => some "UnmarshalError: invalid retry value: %w"
  | .unexpectedEOF => some "UnmarshalError: ErrUnexpectedEOF"

theorem reset_eq (fuel : Nat) (e : Gen.Message) : Gen.Message_reset fuel e = .ok (toGenMsg {}) := rfl

/-! ## the re-modelled library calls -/

theorem outside_iff (b : Byte) : (decide (b.toNat < 48) || decide (b.toNat > 57)) = !isDigit b := by
  unfold isDigit
  have h1 : decide (48 ≤ b) = decide (48 ≤ b.toNat) := by
    apply decide_eq_decide.mpr; exact UInt8.le_iff_toNat_le
  have h2 : decide (b ≤ 57) = decide (b.toNat ≤ 57) := by
    apply decide_eq_decide.mpr; exact UInt8.le_iff_toNat_le
  rw [h1, h2]
  by_cases a : b.toNat < 48 <;> by_cases c : b.toNat > 57 <;> simp [a, c] <;> omega

theorem indexOutside_spec (v : Bytes) :
    (stringsIndexOutside v 48 57 != (-1 : Int)) = !v.all isDigit ∧
      (0 ≤ stringsIndexOutside v 48 57 ∨ stringsIndexOutside v 48 57 = -1) ∧ stringsIndexOutside v 48 57 ≤ v.length := by
  unfold stringsIndexOutside
  have hp : (fun (b : Byte) => decide (b.toNat < 48) || decide (b.toNat > 57)) = fun b => !isDigit b := by
    funext b; exact outside_iff b
  simp only [hp]
  by_cases h : v.findIdx (fun b => !isDigit b) < v.length
  · have hex : ∃ x ∈ v, (!isDigit x) = true := List.findIdx_lt_length.mp h
    have hall : v.all isDigit = false := by
      rw [Bool.eq_false_iff]; intro ha
      obtain ⟨x, hx, hnx⟩ := hex
      have := List.all_eq_true.mp ha x hx
      simp [this] at hnx
    simp only [h, if_true, hall, Bool.not_false]
    refine ⟨?_, Or.inl (by omega), by omega⟩
    simp
  · have hall : v.all isDigit = true := by
      rw [List.all_eq_true]; intro x hx
      cases hd : isDigit x with
      | true => rfl
      | false =>
        have : ∃ y ∈ v, (!isDigit y) = true := ⟨x, hx, by simp [hd]⟩
        exact absurd (List.findIdx_lt_length.mpr this) h
    simp only [h, if_false, hall, Bool.not_true]
    refine ⟨by decide, Or.inr (by simp), by omega⟩

theorem parseIntDigits_digits (v : Bytes) (n : Nat) (h : v.all isDigit = true) :
    parseIntDigits v n = some (v.foldl (fun n b => n * 10 + (b.toNat - 48)) n) := by
  induction v generalizing n with
  | nil => rfl
  | cons c t ih =>
    simp only [List.all_cons, Bool.and_eq_true] at h
    have hc : (decide (48 ≤ c) && decide (c ≤ 57)) = true := by simpa [isDigit] using h.1
    unfold parseIntDigits
    simp only [hc, Bool.not_true, Bool.false_eq_true, if_false, List.foldl_cons]
    exact ih _ h.2

theorem parseInt_model_digits (c : Byte) (t : Bytes) (h : (c :: t).all isDigit = true) :
    parseInt (c :: t) = if digitsVal (c :: t) ≤ maxInt64 then some ((digitsVal (c :: t) : Nat) : Int) else none := by
  have hcd : isDigit c = true := by simp only [List.all_cons, Bool.and_eq_true] at h; exact h.1
  have hc1 : c ≠ 43 := by intro e; subst e; simp [isDigit] at hcd
  have hc2 : c ≠ 45 := by intro e; subst e; simp [isDigit] at hcd
  unfold parseInt
  split
  · rename_i t' heq; cases heq; exact absurd rfl hc1
  · rename_i t' heq; cases heq; exact absurd rfl hc2
  · simp [h]

theorem strconvParseInt_digits (c : Byte) (t : Bytes) (h : (c :: t).all isDigit = true) :
    strconvParseInt (c :: t) = if digitsVal (c :: t) ≤ 9223372036854775807 then (((digitsVal (c :: t) : Nat) : Int), none)
      else (9223372036854775807, some "strconv.ErrRange") := by
  have hcd : isDigit c = true := by simp only [List.all_cons, Bool.and_eq_true] at h; exact h.1
  have hc1 : c ≠ 43 := by intro e; subst e; simp [isDigit] at hcd
  have hc2 : c ≠ 45 := by intro e; subst e; simp [isDigit] at hcd
  unfold strconvParseInt
  have hh : ((c :: t : Bytes).head? == some 45) = false := by simp [hc2]
  have hh3 : ((c :: t : Bytes).head? == some 43) = false := by simp [hc1]
  simp only [hh, hh3, Bool.or_false, Bool.false_eq_true, if_false, List.isEmpty_cons, parseIntDigits_digits (c :: t) 0 h]
  rfl

/-- on digit strings `strconv.ParseInt` as re-modelled is the model's `parseInt` -/
theorem parseInt_digits (v : Bytes) (h : v.all isDigit = true) :
    (match parseInt v with
     | some n => strconvParseInt v = (n, none)
     | none => (strconvParseInt v).2 ≠ none) := by
  cases v with
  | nil => simp [parseInt, strconvParseInt]
  | cons c t =>
    rw [parseInt_model_digits c t h, strconvParseInt_digits c t h]
    by_cases hle : digitsVal (c :: t) ≤ maxInt64
    · have : digitsVal (c :: t) ≤ 9223372036854775807 := hle
      simp [hle, this]
    · have : ¬ digitsVal (c :: t) ≤ 9223372036854775807 := hle
      simp [hle, this]

theorem indexByte_contains (v : Bytes) (c : Byte) : (stringsIndexByte v c != (-1 : Int)) = v.contains c := by
  unfold stringsIndexByte
  by_cases h : v.findIdx (· == c) < v.length
  · have hex : ∃ x ∈ v, (x == c) = true := List.findIdx_lt_length.mp h
    have hc : v.contains c = true := by
      obtain ⟨x, hx, hxc⟩ := hex
      have : x = c := by simpa using hxc
      subst this
      simpa using hx
    simp only [h, if_true, hc]
    simp
  · have hc : v.contains c = false := by
      rw [Bool.eq_false_iff]; intro hcon
      have hm : c ∈ v := by simpa using hcon
      exact h (List.findIdx_lt_length.mpr ⟨c, hm, by simp⟩)
    simp only [h, if_false, hc]
    decide

/-! ## the loop -/

/-- how the translated loop ends, for an outcome of the model's `unmarshalLoop` -/
def ULoopAgrees (res : Message × FP × UErr)
    (lhs : GoM ((Gen.Message × Gen.FieldParser × Gen.Field) ⊕ (Option String × Gen.Message))) : Prop :=
  if res.2.2 = .nil then ∃ s' f', lhs = .ok (.inl (toGenMsg res.1, s', f')) ∧ absFP s' = res.2.1
  else lhs = .ok (.inr (uErrStr res.2.2, toGenMsg res.1))

theorem wrapInt64_eq (x : Int) : wrapInt64 x = wrap64 x := rfl

theorem uloop_eq (fuel : Nat) :
    ∀ (n : Nat) (s : Gen.FieldParser) (m : Message) (f : Gen.Field) (F : Nat),
      s.data.length < n → n < F → s.data.length + 1 < fuel →
      ULoopAgrees (unmarshalLoop n (absFP s) m)
        (loopM (Gen.Message_UnmarshalText_loop1 fuel) F (toGenMsg m, s, f)) := by
  intro n
  induction n with
  | zero => intro s m f F h; omega
  | succ n ih =>
    intro s m f F hn hF hfuel
    obtain ⟨k, rfl⟩ : ∃ k, F = k + 1 := ⟨F - 1, by omega⟩
    obtain ⟨s', out', ok, hnext, habs, hres⟩ := Next_eq fuel s f hfuel
    have hdata : (absFP s).data = s.data := rfl
    unfold unmarshalLoop
    rw [hdata]
    cases hfn : FP.next (s.data.length + 1) (absFP s) with
    | mk ofld fp' =>
      rw [hfn] at habs hres
      simp only at habs hres
      cases ofld with
      | none =>
        obtain ⟨hok, hout⟩ := hres
        subst hok
        rw [hout] at hnext
        have hstep : Gen.Message_UnmarshalText_loop1 fuel (toGenMsg m, s, f) = .ok (Step.brk (toGenMsg m, s', f)) := by
          unfold Gen.Message_UnmarshalText_loop1
          simp [bind, Except.bind, hnext, pure, Except.pure]
        unfold loopM; rw [hstep]
        exact ⟨s', f, rfl, habs⟩
      | some fld =>
        obtain ⟨hok, hout⟩ := hres
        subst hok
        rw [hout] at hnext
        -- the next iteration's premises
        have hdec : s'.data.length + 1 ≤ s.data.length := by
          have h1 := ClientRead.fpNext_some (s.data.length + 1) (absFP s) (by rw [hfn]; rfl)
          rw [hfn] at h1
          have h2 : fp'.data.length + 1 ≤ s.data.length := h1
          have h3 : fp'.data = s'.data := by rw [← habs]; rfl
          rw [h3] at h2; exact h2
        have hlen : s'.data.length < n := by omega
        have hfuel' : s'.data.length + 1 < fuel := by omega
        have hfp : fp' = absFP s' := habs.symm
        subst hfp
        cases hname : fld.name with
        | retry =>
          simp only [hname]
          have hv := indexOutside_spec fld.value
          by_cases hdig : fld.value.all isDigit = true
          · have hne : (stringsIndexOutside fld.value 48 57 != (-1 : Int)) = false := by rw [hv.1, hdig]; rfl
            have hpi := parseInt_digits fld.value hdig
            cases hp : parseInt fld.value with
            | none =>
              rw [hp] at hpi
              have hstep : Gen.Message_UnmarshalText_loop1 fuel (toGenMsg m, s, f) =
                  .ok (Step.ret (some "UnmarshalError: invalid retry value: %w", toGenMsg m)) := by
                unfold Gen.Message_UnmarshalText_loop1
                have hb : ((strconvParseInt fld.value).2 != none) = true := by
                  cases h2 : (strconvParseInt fld.value).2 with
                  | none => exact absurd h2 hpi
                  | some e => rfl
                simp [bind, Except.bind, hnext, fieldOf, nameBytes, hname, fRetry, hne, hb, pure, Except.pure, errStruct]
              simp only [hdig, Bool.not_true, Bool.false_eq_true, if_false]
              unfold loopM ULoopAgrees; rw [hstep]
              by_cases he : fld.value.isEmpty = true <;> simp [he, uErrStr, pure, Except.pure]
            | some milli =>
              rw [hp] at hpi
              have hstep : Gen.Message_UnmarshalText_loop1 fuel (toGenMsg m, s, f) =
                  .ok (Step.next (toGenMsg { m with retry := wrap64 (milli * 1000000) }, s', fieldOf fld)) := by
                unfold Gen.Message_UnmarshalText_loop1
                have hb : ((strconvParseInt fld.value).2 != none) = false := by rw [hpi]; rfl
                have hval : (strconvParseInt fld.value).1 = milli := by rw [hpi]
                simp [bind, Except.bind, hnext, fieldOf, nameBytes, hname, fRetry, hne, hb, hval, pure, Except.pure,
                  wrapInt64_eq, toGenMsg]
              simp only [hdig, Bool.not_true, Bool.false_eq_true, if_false]
              unfold loopM; rw [hstep]
              exact ih s' _ (fieldOf fld) k hlen (by omega) hfuel'
          · have hdig' : fld.value.all isDigit = false := by simpa using hdig
            have hne : (stringsIndexOutside fld.value 48 57 != (-1 : Int)) = true := by rw [hv.1, hdig']; rfl
            have hidx : stringsIndexOutside fld.value 48 57 ≠ -1 := by
              intro e; rw [e] at hne; simp at hne
            have hsl : ∃ t, sliceFrom fld.value (stringsIndexOutside fld.value 48 57) = .ok t := by
              unfold sliceFrom len
              have : 0 ≤ stringsIndexOutside fld.value 48 57 ∧ stringsIndexOutside fld.value 48 57 ≤ (fld.value.length : Int) := by
                rcases hv.2.1 with h0 | h0
                · exact ⟨h0, hv.2.2⟩
                · exact absurd h0 hidx
              exact ⟨fld.value.drop (stringsIndexOutside fld.value 48 57).toNat, by simp [this, pure, Except.pure]⟩
            obtain ⟨tl, htl⟩ := hsl
            have hstep : Gen.Message_UnmarshalText_loop1 fuel (toGenMsg m, s, f) =
                .ok (Step.ret (some "UnmarshalError: contains character %q, which is not an ASCII digit", toGenMsg m)) := by
              unfold Gen.Message_UnmarshalText_loop1
              simp [bind, Except.bind, hnext, fieldOf, nameBytes, hname, fRetry, hne, htl, pure, Except.pure, errStruct]
            simp only [hdig', Bool.not_false, if_true]
            unfold loopM ULoopAgrees; rw [hstep]
            simp [uErrStr, pure, Except.pure]
        | data =>
          simp only [hname]
          have hstep : Gen.Message_UnmarshalText_loop1 fuel (toGenMsg m, s, f) =
              .ok (Step.next (toGenMsg { m with chunks := m.chunks ++ [⟨fld.value, false⟩] }, s', fieldOf fld)) := by
            unfold Gen.Message_UnmarshalText_loop1
            simp [bind, Except.bind, hnext, fieldOf, nameBytes, hname, fData, pure, Except.pure, toGenMsg, gC]
          unfold loopM; rw [hstep]
          exact ih s' _ (fieldOf fld) k hlen (by omega) hfuel'
        | comment =>
          simp only [hname]
          have hstep : Gen.Message_UnmarshalText_loop1 fuel (toGenMsg m, s, f) =
              .ok (Step.next (toGenMsg { m with chunks := m.chunks ++ [⟨fld.value, true⟩] }, s', fieldOf fld)) := by
            unfold Gen.Message_UnmarshalText_loop1
            simp [bind, Except.bind, hnext, fieldOf, nameBytes, hname, pure, Except.pure, toGenMsg, gC]
          unfold loopM; rw [hstep]
          exact ih s' _ (fieldOf fld) k hlen (by omega) hfuel'
        | event =>
          simp only [hname]
          have hstep : Gen.Message_UnmarshalText_loop1 fuel (toGenMsg m, s, f) =
              .ok (Step.next (toGenMsg { m with typ := { value := fld.value, set := true } }, s', fieldOf fld)) := by
            unfold Gen.Message_UnmarshalText_loop1
            simp [bind, Except.bind, hnext, fieldOf, nameBytes, hname, fEvent, pure, Except.pure, toGenMsg, toGenF]
          unfold loopM; rw [hstep]
          exact ih s' _ (fieldOf fld) k hlen (by omega) hfuel'
        | id =>
          simp only [hname]
          have hcon := indexByte_contains fld.value 0
          by_cases hz : fld.value.contains 0 = true
          · have hstep : Gen.Message_UnmarshalText_loop1 fuel (toGenMsg m, s, f) =
                .ok (Step.next (toGenMsg m, s', fieldOf fld)) := by
              unfold Gen.Message_UnmarshalText_loop1
              rw [hz] at hcon
              simp [bind, Except.bind, hnext, fieldOf, nameBytes, hname, fId, hcon, pure, Except.pure]
            simp only [hz, if_true]
            unfold loopM; rw [hstep]
            exact ih s' m (fieldOf fld) k hlen (by omega) hfuel'
          · have hz' : fld.value.contains 0 = false := by simpa using hz
            have hstep : Gen.Message_UnmarshalText_loop1 fuel (toGenMsg m, s, f) =
                .ok (Step.next (toGenMsg { m with id := { value := fld.value, set := true } }, s', fieldOf fld)) := by
              unfold Gen.Message_UnmarshalText_loop1
              rw [hz'] at hcon
              simp [bind, Except.bind, hnext, fieldOf, nameBytes, hname, fId, hcon, pure, Except.pure, toGenMsg, toGenF]
            simp only [hz', Bool.false_eq_true, if_false]
            unfold loopM; rw [hstep]
            exact ih s' _ (fieldOf fld) k hlen (by omega) hfuel'
        | none =>
          simp only [hname]
          have hstep : Gen.Message_UnmarshalText_loop1 fuel (toGenMsg m, s, f) = .ok (Step.brk (toGenMsg m, s', fieldOf fld)) := by
            unfold Gen.Message_UnmarshalText_loop1
            simp [bind, Except.bind, hnext, fieldOf, nameBytes, hname, pure, Except.pure]
          unfold loopM; rw [hstep]
          exact ⟨s', fieldOf fld, rfl, rfl⟩

theorem setRemoveBOM_len (fp : FP) (b : Bool) : (fp.setRemoveBOM b).data.length ≤ fp.data.length := by
  unfold FP.setRemoveBOM FP.doRemoveBOM
  split <;> simp

/-- `Message.UnmarshalText` as translated: for every text, the model's receiver and the model's error class; the
receiver's previous content plays no part (`reset`); no panic, the loop ends -/
theorem Message_UnmarshalText_eq (fuel : Nat) (e : Gen.Message) (p : Bytes) (hf : p.length + 2 < fuel) :
    Gen.Message_UnmarshalText fuel e p =
      .ok (uErrStr (Message.unmarshalText p).2, toGenMsg (Message.unmarshalText p).1) := by
  unfold Gen.Message_UnmarshalText Message.unmarshalText
  simp only [bind, Except.bind, reset_eq, Gen.NewFieldParser, Gen.FieldParser_KeepComments, pure, Except.pure]
  obtain ⟨s2, h2, habs2, herr2⟩ := RemoveBOM_eq fuel
    { err := none, data := p, started := false, keepComments := true, removeBOM := false } true
  rw [h2]
  have hfp : absFP { err := none, data := p, started := false, keepComments := true, removeBOM := false } =
      ({ data := p, keepComments := true } : FP) := rfl
  rw [hfp] at habs2
  have hlen2 : s2.data.length ≤ p.length := by
    have := setRemoveBOM_len ({ data := p, keepComments := true } : FP) true
    rw [← habs2] at this
    exact this
  have hloop := uloop_eq fuel (p.length + 1) s2 {} ({ Name := [], Value := [] } : Gen.Field) fuel (by omega) (by omega) (by omega)
  rw [habs2] at hloop
  generalize hr : unmarshalLoop (p.length + 1) (({ data := p, keepComments := true } : FP).setRemoveBOM true) {} = r at hloop
  obtain ⟨m', fp', ue⟩ := r
  unfold ULoopAgrees at hloop
  by_cases hue : ue = .nil
  · subst hue
    simp only [if_true] at hloop
    obtain ⟨s', f', hl, habs'⟩ := hloop
    simp only []
    rw [hl]
    have herr : fp'.err = s'.err.isSome := by rw [← habs']; rfl
    simp only [bne_self_eq_false, Bool.false_eq_true, if_false, herr]
    cases hch : m'.chunks with
    | nil =>
      cases hts : m'.typ.set <;> cases hrz : (m'.retry == 0) <;> cases his : m'.id.set <;> cases hse : s'.err <;>
        simp [toGenMsg, toGenF, len, hch, hts, hrz, his, hse, Gen.messageField_IsSet, Gen.FieldParser_Err, bind, Except.bind,
          pure, Except.pure, uErrStr, errStruct, reset_eq, gC] <;> simp_all
    | cons c t =>
      have hnz : ¬ ((t.length : Int) + 1 = 0) := by omega
      cases hse : s'.err <;>
        simp [toGenMsg, toGenF, len, hch, hse, hnz, Gen.messageField_IsSet, Gen.FieldParser_Err, bind, Except.bind,
          pure, Except.pure, uErrStr, errStruct, reset_eq, gC]
  · simp only [hue, if_false] at hloop
    simp only []
    rw [hloop]
    have : (ue != UErr.nil) = true := by simp [hue]
    simp [this]

end GoSSE.GenEquiv
