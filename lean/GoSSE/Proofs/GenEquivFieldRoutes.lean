import GoSSE.Gen.FieldRoutes
import GoSSE.Proofs.GenEquivFields
/-!
# The other construction routes of an ID / event type, as translated from message_fields.go

`(*messageField).Scan` (database/sql), `UnmarshalJSON` (what `encoding/json` decodes is a parameter), `MarshalText`:
each is the model's function (`MField.scan`, `MField.unmarshalJSON`, the set value or an error) for every input and
whatever the receiver held before.
-/
set_option linter.unusedSimpArgs false
set_option linter.unusedVariables false
namespace GoSSE.GenEquiv
open GoSSE GoSSE.GoRT GoSSE.Model

/-- the dynamic type of `Scan`'s argument, as the translated code sees it -/
def toAny : ScanSrc → AnyV
  | .nil => .nil
  | .bytes v => .bytes v
  | .string v => .str v
  | .other => .other

/-- the model's error classes as the translated code's error texts -/
def fErrStr : FErr → Option String
  | .nil => none
  | .json => some "json.Unmarshal"
  | .multiline => some "input is multiline"
  | .unsupported => some "unsupported Scan, storing driver.Value type %T into type %T"

def srcLen : ScanSrc → Nat
  | .bytes v => v.length
  | .string v => v.length
  | _ => 0

/-- `Scan` as translated: the model's receiver and error class, for every dynamic type of the source -/
theorem Scan_eq (fuel : Nat) (prev : Gen.messageField) (prevM : MField) (src : ScanSrc) (hf : srcLen src < fuel) :
    Gen.messageField_Scan fuel prev (toAny src) = .ok (fErrStr (MField.scan prevM src).2, toGenF (MField.scan prevM src).1) := by
  unfold Gen.messageField_Scan MField.scan
  cases src with
  | nil => simp [toAny, anyIsNil, pure, Except.pure, fErrStr, toGenF]
  | other => simp [toAny, anyIsNil, anyIsBytes, anyIsStr, pure, Except.pure, fErrStr, toGenF]
  | bytes v =>
    simp only [srcLen] at hf
    simp only [toAny, anyIsNil, anyIsBytes, anyBytes, Bool.false_eq_true, if_false, if_true, bind, Except.bind,
      newMessageField_eq fuel v hf]
    cases h : (newMessageField v).2 <;> simp [h, pure, Except.pure, fErrStr, toGenF]
  | string v =>
    simp only [srcLen] at hf
    simp only [toAny, anyIsNil, anyIsBytes, anyIsStr, anyStr, Bool.false_eq_true, if_false, if_true, bind, Except.bind,
      newMessageField_eq fuel v hf]
    cases h : (newMessageField v).2 <;> simp [h, pure, Except.pure, fErrStr, toGenF]

/-- `UnmarshalJSON` as translated, for every decoder `jsonDecode` (what `json.Unmarshal(data, &string)` yields) -/
theorem UnmarshalJSON_eq (fuel : Nat) (prev : Gen.messageField) (prevM : MField) (data : Bytes) (jsonDecode : Bytes → Option Bytes)
    (hf : ∀ v, jsonDecode data = some v → v.length < fuel) :
    Gen.messageField_UnmarshalJSON fuel prev data jsonDecode =
      .ok (fErrStr (MField.unmarshalJSON prevM data (jsonDecode data)).2, toGenF (MField.unmarshalJSON prevM data (jsonDecode data)).1) := by
  unfold Gen.messageField_UnmarshalJSON MField.unmarshalJSON
  by_cases hn : data = jsonNull
  · subst hn
    have h1 : (jsonNull == ([110, 117, 108, 108] : Bytes)) = true := by decide
    have h2 : (jsonNull == jsonNull) = true := by decide
    simp only [h1, h2, if_true]
    simp [pure, Except.pure, fErrStr, toGenF]
  · have h1 : (data == ([110, 117, 108, 108] : Bytes)) = false := by simpa [jsonNull] using hn
    have h2 : (data == jsonNull) = false := by simpa using hn
    simp only [h1, h2, Bool.false_eq_true, if_false]
    cases hd : jsonDecode data with
    | none => simp [pure, Except.pure, fErrStr, toGenF]
    | some v =>
      simp only [Option.getD_some, Option.isSome_some, if_true, bne_self_eq_false, Bool.false_eq_true, if_false, bind, Except.bind,
        newMessageField_eq fuel v (hf v hd)]
      cases h : (newMessageField v).2 <;> simp [h, pure, Except.pure, fErrStr, toGenF]

/-- `MarshalText` as translated: the value when it is set, an error otherwise; the receiver is left alone -/
theorem MarshalText_field_eq (fuel : Nat) (f : MField) :
    Gen.messageField_MarshalText fuel (toGenF f) =
      .ok (if f.set then some f.value else none, if f.set then none else some "can't marshal unset string to text", toGenF f) := by
  unfold Gen.messageField_MarshalText Gen.messageField_IsSet Gen.messageField_String
  cases h : f.set <;> simp [toGenF, h, bind, Except.bind, pure, Except.pure]

end GoSSE.GenEquiv
