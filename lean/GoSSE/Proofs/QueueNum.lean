import GoSSE.Model.Queue
/-!
Helper lemmas on the `strconv` models: `fmtUint` is the decimal numeral, `parseUint`
reads it back, and `parseUint` agrees with the specification's `decimal?`.
-/
namespace GoSSE.Proofs
open GoSSE GoSSE.Spec GoSSE.Model

theorem decimal_lt10 (n : Nat) (h : n < 10) : decimal n = [UInt8.ofNat (48 + n)] := by
  rw [decimal]; simp [h]

theorem decimal_ge10 (n : Nat) (h : 10 ≤ n) : decimal n = decimal (n / 10) ++ [UInt8.ofNat (48 + n % 10)] := by
  rw [decimal]; simp [show ¬ n < 10 from by omega]

theorem formatBits_eq (fuel u : Nat) (acc : Bytes) (h : u < fuel) : formatBits fuel u acc = decimal u ++ acc := by
  induction fuel generalizing u acc with
  | zero => omega
  | succ f ih =>
    unfold formatBits
    by_cases hu : u ≥ 10
    · simp only [hu, if_true]
      rw [ih (u / 10) _ (by omega), decimal_ge10 u hu]
      simp
    · simp only [hu, if_false]
      rw [decimal_lt10 u (by omega)]
      simp

theorem formatUint_eq (n : Nat) : fmtUint n = decimal n := by
  simp [fmtUint, formatBits_eq n.succ n [] (by omega)]

def dstep (n : Nat) (b : Byte) : Nat := n * 10 + (b.toNat - 48)

theorem digitsVal_eq (s : Bytes) : digitsVal s = s.foldl dstep 0 := rfl

theorem foldl_dstep_ge (s : Bytes) (n : Nat) : n ≤ s.foldl dstep n := by
  induction s generalizing n with
  | nil => simp
  | cons c t ih =>
    simp only [List.foldl_cons]
    have := ih (dstep n c)
    unfold dstep at this ⊢
    omega

theorem parseUintLoop_ok (s : Bytes) (n : Nat) (hd : s.all isDigit = true) (hv : s.foldl dstep n ≤ maxUint64) :
    parseUintLoop s n = (s.foldl dstep n, false) := by
  induction s generalizing n with
  | nil => rfl
  | cons c t ih =>
    simp only [List.all_cons, Bool.and_eq_true] at hd
    simp only [List.foldl_cons] at hv ⊢
    have hge := foldl_dstep_ge t (dstep n c)
    unfold parseUintLoop
    simp only [hd.1, Bool.not_true, Bool.false_eq_true, if_false]
    have hd' : dstep n c = n * 10 + (c.toNat - 48) := rfl
    have : ¬ (n * 10 + (c.toNat - 48) > maxUint64) := by omega
    simp only [this, if_false]
    exact ih _ hd.2 hv

theorem parseUintLoop_err (s : Bytes) (n : Nat) (hn : n ≤ maxUint64) (h : (parseUintLoop s n).2 = false) :
    s.all isDigit = true ∧ s.foldl dstep n ≤ maxUint64 := by
  induction s generalizing n with
  | nil => exact ⟨rfl, hn⟩
  | cons c t ih =>
    unfold parseUintLoop at h
    by_cases hc : isDigit c = true
    · simp only [hc, Bool.not_true, Bool.false_eq_true, if_false] at h
      by_cases hov : n * 10 + (c.toNat - 48) > maxUint64
      · simp [hov] at h
      · simp only [hov, if_false] at h
        have := ih _ (by omega) h
        simp only [List.all_cons, hc, Bool.true_and, List.foldl_cons]
        exact this
    · simp [hc] at h

/-- `ParseUint` succeeds exactly on the decimal `uint64` numerals and returns their value -/
theorem parseUint_decimal? (s : Bytes) :
    (if (parseUint s).2 then none else some (parseUint s).1) = decimal? s := by
  unfold parseUint decimal?
  cases hs : s with
  | nil => simp
  | cons c t =>
    simp only [List.isEmpty_cons, Bool.false_eq_true, if_false, Bool.not_false, Bool.true_and]
    rw [← hs]
    by_cases hok : s.all isDigit = true ∧ digitsVal s ≤ maxUint64
    · have h2 := hok.2
      rw [digitsVal_eq] at h2
      rw [parseUintLoop_ok s 0 hok.1 h2]
      simp [hok.1, h2, digitsVal_eq]
    · have : (parseUintLoop s 0).2 = true := by
        cases hh : (parseUintLoop s 0).2 with
        | true => rfl
        | false => exact absurd (parseUintLoop_err s 0 (by simp [maxUint64]) hh) hok
      simp only [this, if_true]
      by_cases h1 : s.all isDigit = true
      · have : ¬ digitsVal s ≤ maxUint64 := fun h2 => hok ⟨h1, h2⟩
        simp [h1, this]
      · simp [h1]

theorem isDigit_ofNat (d : Nat) (h : d < 10) : isDigit (UInt8.ofNat (48 + d)) = true := by
  have : d = 0 ∨ d = 1 ∨ d = 2 ∨ d = 3 ∨ d = 4 ∨ d = 5 ∨ d = 6 ∨ d = 7 ∨ d = 8 ∨ d = 9 := by omega
  rcases this with h | h | h | h | h | h | h | h | h | h <;> subst h <;> decide

theorem toNat_ofNat_digit (d : Nat) (h : d < 10) : (UInt8.ofNat (48 + d)).toNat - 48 = d := by
  have : d = 0 ∨ d = 1 ∨ d = 2 ∨ d = 3 ∨ d = 4 ∨ d = 5 ∨ d = 6 ∨ d = 7 ∨ d = 8 ∨ d = 9 := by omega
  rcases this with h | h | h | h | h | h | h | h | h | h <;> subst h <;> decide

theorem decimal_spec (n : Nat) : (decimal n).all isDigit = true ∧ digitsVal (decimal n) = n ∧ decimal n ≠ [] := by
  induction n using Nat.strongRecOn with
  | _ n ih =>
    by_cases h : n < 10
    · rw [decimal_lt10 n h]
      refine ⟨by simp only [List.all_cons, List.all_nil, isDigit_ofNat n h, Bool.and_self], ?_, by simp⟩
      simp only [digitsVal, List.foldl_cons, List.foldl_nil]
      have := toNat_ofNat_digit n h
      omega
    · rw [decimal_ge10 n (by omega)]
      obtain ⟨h1, h2, h3⟩ := ih (n / 10) (by omega)
      refine ⟨?_, ?_, by simp⟩
      · simp only [List.all_append, h1, List.all_cons, List.all_nil, isDigit_ofNat (n % 10) (by omega), Bool.and_self]
      · rw [digitsVal_eq] at h2 ⊢
        simp only [List.foldl_append, h2, List.foldl_cons, List.foldl_nil, dstep,
          toNat_ofNat_digit (n % 10) (by omega)]
        omega

theorem decimal?_decimal (n : Nat) (h : n ≤ maxUint64) : decimal? (decimal n) = some n := by
  obtain ⟨h1, h2, h3⟩ := decimal_spec n
  unfold decimal?
  have : (decimal n).isEmpty = false := by cases hd : decimal n <;> simp_all
  simp [h1, h2, h, this]

theorem parseUint_decimal (n : Nat) (h : n ≤ maxUint64) : parseUint (decimal n) = (n, false) := by
  have := parseUint_decimal? (decimal n)
  rw [decimal?_decimal n h] at this
  cases hp : (parseUint (decimal n)).2 with
  | true => simp [hp] at this
  | false =>
    simp only [hp, Bool.false_eq_true, if_false, Option.some.injEq] at this
    exact Prod.ext this hp

end GoSSE.Proofs
