import GoSSE.Proofs.ParserSplit
/-!
C20 `pulled_bounded`: the bytes the scanner has obtained from the reader never exceed the bytes
consumed by the tokens it has returned plus its limit `max(maxTokenSize, cap(buf))`.

`BufInv` is the scanner invariant, `scan_pulled` shows one `Scan` call keeps it (and the strong
bound), `Reach` lifts it to any sequence of `Scan` calls, `parserNext_reach`/`readLoop_reach` show
the parser only ever drives the scanner through `Scan`, and `implRun_pulled_bounded` is the
statement for the whole run. `implRun_pulled_le_source`: `pulled` never exceeds what the source holds.
-/
namespace GoSSE.Proofs
open GoSSE GoSSE.Spec GoSSE.Model

/-- the scanner's limit on pending bytes: 65536 by default, `max(max, cap buf)` when configured -/
def limitOf (cfg : Option (Nat × Int)) : Nat :=
  match cfg with
  | none => 65536
  | some (capBuf, max) => Nat.max capBuf max.toNat

/-- scanner invariant; `c` = bytes consumed by the tokens returned so far -/
structure BufInv (L c : Nat) (s : Scanner) : Prop where
  pulled : s.pulled = c + s.data.length
  fits : s.start + s.data.length ≤ s.bufLen
  cap : s.bufLen ≤ L
  max : s.maxTok.toNat ≤ L

theorem pinv_init (src : Source) (cfg : Option (Nat × Int)) : BufInv (limitOf cfg) 0 (mkScanner src cfg) := by
  cases cfg with
  | none => constructor <;> simp [mkScanner, limitOf]
  | some p =>
    obtain ⟨capBuf, max⟩ := p
    constructor
    · simp [mkScanner]
    · simp [mkScanner]
    · exact Nat.le_max_left _ _
    · exact Nat.le_max_right _ _

theorem read_length_le (s : Source) (free : Nat) : (s.read free).1.length ≤ free := by
  unfold Source.read
  cases s.chunks with
  | nil => simp
  | cons c rest =>
    simp only
    split
    · split <;> simpa
    · simp only [List.length_take]; omega

/-- the first half of `Scan`: try to split a token off the pending bytes -/
def scanTok (s : Scanner) : Option (Nat × Bytes) × Scanner :=
  if !s.data.isEmpty || s.err.isSome then
    let q := splitFunc s.data s.err.isSome
    match q.2 with
    | some t => (some (q.1, t), { s with start := s.start + q.1, data := s.data.drop q.1 })
    | none => (none, s)
  else (none, s)

theorem splitFunc_adv_le (data : Bytes) (e : Bool) : (splitFunc data e).1 ≤ data.length := by
  cases splitFunc_cases data e with
  | empty hd hr => simp [hr]
  | more B T he hd hB hT _ hr => simp [hr]
  | tok B T nl rest hd hB hT hl hcr hnl _ hr => rw [hr, hd]; simp only [List.length_append]; omega
  | final B T he hd hne hB hT _ hr => simp [hr]

theorem splitFunc_eof_none (data : Bytes) (h : (splitFunc data true).2 = none) : data = [] := by
  cases splitFunc_cases data true with
  | empty hd hr => exact hd
  | more B T he hd hB hT _ hr => cases he
  | tok B T nl rest hd hB hT hl hcr hnl _ hr => rw [hr] at h; cases h
  | final B T he hd hne hB hT _ hr => rw [hr] at h; cases h

theorem scanTok_some {L c : Nat} {s : Scanner} (h : BufInv L c s) {adv : Nat} {t : Bytes}
    (hr : (scanTok s).1 = some (adv, t)) :
    BufInv L (c + adv) (scanTok s).2 ∧ (scanTok s).2.pulled ≤ c + L := by
  obtain ⟨h1, h2, h3, h4⟩ := h
  have hle := splitFunc_adv_le s.data s.err.isSome
  unfold scanTok at hr ⊢
  by_cases hc : (!s.data.isEmpty || s.err.isSome) = true
  · rw [if_pos hc] at hr ⊢
    cases hq : (splitFunc s.data s.err.isSome).2 with
    | none => simp only [hq] at hr; cases hr
    | some t' =>
      simp only [hq, Option.some.injEq, Prod.mk.injEq] at hr ⊢
      obtain ⟨rfl, rfl⟩ := hr
      refine ⟨⟨?_, ?_, h3, h4⟩, ?_⟩
      · simp only [List.length_drop]; omega
      · simp only [List.length_drop]; omega
      · omega
  · rw [if_neg hc] at hr; cases hr

theorem scanTok_none {s : Scanner} (hr : (scanTok s).1 = none) :
    (scanTok s).2 = s ∧ (s.err.isSome = true → s.data = []) := by
  unfold scanTok at hr ⊢
  split
  · simp only at hr ⊢
    split
    · rename_i t' ht'
      rw [if_pos (by assumption)] at hr
      simp only [ht'] at hr
      cases hr
    · rename_i ht'
      refine ⟨rfl, fun he => ?_⟩
      rw [he] at ht'
      exact splitFunc_eof_none _ ht'
  · rename_i hc
    refine ⟨rfl, fun he => ?_⟩
    simp [he] at hc

theorem BufInv.pulled_le {L c : Nat} {s : Scanner} (h : BufInv L c s) : s.pulled ≤ c + L := by
  have := h.pulled; have := h.fits; have := h.cap; omega

theorem pinv_shift {L c : Nat} {s : Scanner} (b : Bool) (h : BufInv L c s) :
    BufInv L c (if b then { s with start := 0 } else s) := by
  cases b with
  | false => exact h
  | true => exact ⟨h.pulled, by have := h.fits; simp only [if_true]; omega, h.cap, h.max⟩

theorem pinv_err {L c : Nat} {s : Scanner} (e : Option SErr) (h : BufInv L c s) :
    BufInv L c { s with err := e } := ⟨h.pulled, h.fits, h.cap, h.max⟩

theorem pinv_grow {L c : Nat} {s : Scanner} (h : BufInv L c s) (hlt : ¬ (s.bufLen : Int) ≥ s.maxTok) :
    BufInv L c { s with bufLen := min (if s.bufLen * 2 == 0 then startBufSize else s.bufLen * 2) s.maxTok.toNat,
                        start := 0 } := by
  obtain ⟨h1, h2, h3, h4⟩ := h
  refine ⟨h1, ?_, ?_, h4⟩
  · simp only [startBufSize]
    split <;> simp_all <;> omega
  · simp only
    omega

theorem pinv_read {L c : Nat} {s : Scanner} (h : BufInv L c s) :
    BufInv L c { s with data := s.data ++ (s.src.read (s.bufLen - (s.start + s.data.length))).1,
                        err := (s.src.read (s.bufLen - (s.start + s.data.length))).2.1,
                        src := (s.src.read (s.bufLen - (s.start + s.data.length))).2.2,
                        pulled := s.pulled + (s.src.read (s.bufLen - (s.start + s.data.length))).1.length } := by
  obtain ⟨h1, h2, h3, h4⟩ := h
  have := read_length_le s.src (s.bufLen - (s.start + s.data.length))
  refine ⟨?_, ?_, h3, h4⟩
  · simp only [List.length_append]; omega
  · simp only [List.length_append]; omega

theorem scan_pulled (L c fuel : Nat) (s : Scanner) (h : BufInv L c s) :
    (Scanner.scan fuel s).2.pulled ≤ c + L ∧
    match (Scanner.scan fuel s).1 with
    | some (adv, _) => BufInv L (c + adv) (Scanner.scan fuel s).2
    | none => BufInv L c (Scanner.scan fuel s).2 := by
  fun_induction Scanner.scan fuel s generalizing c
  case case1 s => exact ⟨h.pulled_le, h⟩
  case case2 fuel s r t hx =>
    obtain ⟨adv, tk⟩ := t
    have := scanTok_some h (adv := adv) (t := tk) hx
    exact ⟨this.2, this.1⟩
  case case3 fuel s r hx s' he =>
    obtain ⟨e1, e2⟩ := scanTok_none (s := s) hx
    have hs' : s' = s := e1
    have hd : s.data = [] := e2 (by rw [← hs']; exact he)
    have hp : BufInv L c { s' with start := 0, data := [] } := by
      rw [hs']
      exact ⟨by rw [h.pulled, hd], by simp, h.cap, h.max⟩
    exact ⟨hp.pulled_le, hp⟩
  case case4 fuel s r hx s' he s'' hfull hge =>
    obtain ⟨e1, e2⟩ := scanTok_none (s := s) hx
    have hs' : s' = s := e1
    have hp : BufInv L c { s'' with err := some .tooLong } := pinv_err _ (pinv_shift _ (hs' ▸ h))
    exact ⟨hp.pulled_le, hp⟩
  case case5 fuel s r hx s' he s'' hfull hge n0 n s3 q ih =>
    obtain ⟨e1, e2⟩ := scanTok_none (s := s) hx
    have hs' : s' = s := e1
    have h2 : BufInv L c s'' := pinv_shift _ (hs' ▸ h)
    exact ih c (pinv_read (pinv_grow h2 hge))
  case case6 fuel s r hx s' he s'' hfull q ih =>
    obtain ⟨e1, e2⟩ := scanTok_none (s := s) hx
    have hs' : s' = s := e1
    have h2 : BufInv L c s'' := pinv_shift _ (hs' ▸ h)
    exact ih c (pinv_read h2)

/-- Ghost-instrumented reachability at `Scanner.scan` granularity: `Reach s0 c s` says the
scanner state `s` is obtained from `s0` by successive `Scan` calls whose returned tokens
consumed `c` bytes in total. -/
inductive Reach (s0 : Scanner) : Nat → Scanner → Prop
  | init : Reach s0 0 s0
  | tok {c s fuel adv t s'} : Reach s0 c s → Scanner.scan fuel s = (some (adv, t), s') → Reach s0 (c + adv) s'
  | stop {c s fuel s'} : Reach s0 c s → Scanner.scan fuel s = (none, s') → Reach s0 c s'

theorem reach_pinv {L : Nat} {s0 : Scanner} (h0 : BufInv L 0 s0) {c : Nat} {s : Scanner}
    (h : Reach s0 c s) : BufInv L c s := by
  induction h with
  | init => exact h0
  | @tok c s fuel adv t s' _ heq ih =>
    have := (scan_pulled L c fuel s ih).2
    rw [heq] at this
    exact this
  | @stop c s fuel s' _ heq ih =>
    have := (scan_pulled L c fuel s ih).2
    rw [heq] at this
    exact this

/-- C20 `pulled_bounded`, on every reachable scanner state -/
theorem reach_pulled_bounded (src : Source) (cfg : Option (Nat × Int)) (c : Nat) (s : Scanner)
    (h : Reach (mkScanner src cfg) c s) : s.pulled ≤ c + limitOf cfg :=
  (reach_pinv (pinv_init src cfg) h).pulled_le

/-- the strong form: the state right after a `Scan` that returns a token of advance `adv` still
satisfies the bound w.r.t. the bytes consumed *before* that token -/
theorem reach_scan_pulled_bounded (src : Source) (cfg : Option (Nat × Int)) (c : Nat) (s : Scanner)
    (h : Reach (mkScanner src cfg) c s) (fuel : Nat) :
    (Scanner.scan fuel s).2.pulled ≤ c + limitOf cfg :=
  (scan_pulled _ c fuel s (reach_pinv (pinv_init src cfg) h)).1

theorem parserNext_reach {s0 : Scanner} (fuel : Nat) {c : Nat} {p : Parser} (h : Reach s0 c p.sc) :
    ∃ c', c ≤ c' ∧ Reach s0 c' (Parser.next fuel p).2.sc := by
  induction fuel generalizing c p with
  | zero => exact ⟨c, Nat.le_refl _, by unfold Parser.next; exact h⟩
  | succ fuel ih =>
    unfold Parser.next
    split
    · exact ⟨c, Nat.le_refl _, h⟩
    · split
      · rename_i heq
        exact ⟨c, Nat.le_refl _, Reach.stop h heq⟩
      · rename_i adv tok sc heq
        obtain ⟨c', hle, hr⟩ := ih (c := c + adv)
          (p := { p with fp := _, sc := sc, skippedBlankLines := _ }) (Reach.tok h heq)
        exact ⟨c', by omega, hr⟩

theorem readLoop_reach {s0 : Scanner} (conn : Bool) (stopAt : Option Nat) (fuel : Nat) {c : Nat} {p : Parser}
    (st : RState) (outs : List Out) (h : Reach s0 c p.sc) :
    ∃ c', c ≤ c' ∧ Reach s0 c' (readLoop conn stopAt fuel p st outs).1.sc := by
  induction fuel generalizing c p st outs with
  | zero => exact ⟨c, Nat.le_refl _, by unfold readLoop; exact h⟩
  | succ fuel ih =>
    obtain ⟨c1, hle1, hr1⟩ := parserNext_reach (p.sc.src.size + p.sc.data.length + 4) h
    unfold readLoop
    split
    · rename_i p' heq
      rw [heq] at hr1
      exact ⟨c1, hle1, hr1⟩
    · rename_i f p' heq
      rw [heq] at hr1
      simp only
      split
      · exact ⟨c1, hle1, hr1⟩
      · obtain ⟨c2, hle2, hr2⟩ := ih (readField conn st f).1 (outs ++ (readField conn st f).2) hr1
        exact ⟨c2, by omega, hr2⟩

/-- the scanner inside the parser when `read()` returns -/
def finalScanner (conn : Bool) (lastID : Bytes) (src : Source) (cfg : Option (Nat × Int))
    (stopAt : Option Nat) : Scanner :=
  (readLoop conn stopAt (src.size + 4) { sc := mkScanner src cfg } { lastID := lastID } []).1.sc

theorem implRun_pulled (conn : Bool) (lastID : Bytes) (src : Source) (cfg : Option (Nat × Int))
    (stopAt : Option Nat) :
    (implRun conn lastID src cfg stopAt).2.2 = (finalScanner conn lastID src cfg stopAt).pulled := by
  unfold implRun finalScanner
  simp only
  repeat' split
  all_goals rfl

theorem finalScanner_reach (conn : Bool) (lastID : Bytes) (src : Source) (cfg : Option (Nat × Int))
    (stopAt : Option Nat) :
    ∃ c, Reach (mkScanner src cfg) c (finalScanner conn lastID src cfg stopAt) := by
  obtain ⟨c, _, h⟩ := readLoop_reach (s0 := mkScanner src cfg) conn stopAt (src.size + 4)
    (p := { sc := mkScanner src cfg }) { lastID := lastID } [] Reach.init
  exact ⟨c, h⟩

/-- C20 `pulled_bounded` for the whole run -/
theorem implRun_pulled_bounded (conn : Bool) (lastID : Bytes) (src : Source) (cfg : Option (Nat × Int))
    (stopAt : Option Nat) :
    ∃ c, Reach (mkScanner src cfg) c (finalScanner conn lastID src cfg stopAt) ∧
      (implRun conn lastID src cfg stopAt).2.2 ≤ c + limitOf cfg := by
  obtain ⟨c, h⟩ := finalScanner_reach conn lastID src cfg stopAt
  exact ⟨c, h, by rw [implRun_pulled]; exact reach_pulled_bounded src cfg c _ h⟩

/-! ### `pulled` never exceeds what the source holds -/

/-- bytes the source still holds -/
def Source.left (s : Source) : Nat := (s.chunks.map List.length).sum

theorem read_left (s : Source) (free : Nat) :
    (s.read free).1.length + Source.left (s.read free).2.2 = Source.left s := by
  unfold Source.read Source.left
  cases hc : s.chunks with
  | nil => simp [hc]
  | cons c rest =>
    simp only
    split
    · split
      · rename_i h
        have : rest = [] := by simp at h; exact h.1
        subst this
        simp
      · simp
    · simp only [List.map_cons, List.sum_cons, List.length_take, List.length_drop]
      omega

theorem scanTok_same (s : Scanner) : (scanTok s).2.pulled = s.pulled ∧ (scanTok s).2.src = s.src := by
  unfold scanTok
  split
  · simp only
    split <;> exact ⟨rfl, rfl⟩
  · exact ⟨rfl, rfl⟩

theorem scan_total (fuel : Nat) (s : Scanner) :
    (Scanner.scan fuel s).2.pulled + Source.left (Scanner.scan fuel s).2.src = s.pulled + Source.left s.src := by
  fun_induction Scanner.scan fuel s
  case case1 s => rfl
  case case2 fuel s r t hx =>
    obtain ⟨e1, e2⟩ := scanTok_same s
    show r.2.pulled + Source.left r.2.src = _
    rw [show r = scanTok s from rfl, e1, e2]
  case case3 fuel s r hx s' he =>
    obtain ⟨e1, e2⟩ := scanTok_same s
    show r.2.pulled + Source.left r.2.src = _
    rw [show r = scanTok s from rfl, e1, e2]
  case case4 fuel s r hx s' he s'' hfull hge =>
    obtain ⟨e1, e2⟩ := scanTok_same s
    have h1 : s''.pulled = s'.pulled := by show (if _ then _ else _ : Scanner).pulled = _; split <;> rfl
    have h2 : s''.src = s'.src := by show (if _ then _ else _ : Scanner).src = _; split <;> rfl
    show s''.pulled + Source.left s''.src = _
    rw [h1, h2, show s' = (scanTok s).2 from rfl, e1, e2]
  case case5 fuel s r hx s' he s'' hfull hge n0 n s3 q ih =>
    obtain ⟨e1, e2⟩ := scanTok_same s
    have h1 : s''.pulled = s'.pulled := by show (if _ then _ else _ : Scanner).pulled = _; split <;> rfl
    have h2 : s''.src = s'.src := by show (if _ then _ else _ : Scanner).src = _; split <;> rfl
    rw [ih]
    show s''.pulled + q.1.length + Source.left q.2.2 = _
    have := read_left s''.src (s3.bufLen - (s3.start + s3.data.length))
    have hq : q = s''.src.read (s3.bufLen - (s3.start + s3.data.length)) := rfl
    rw [← hq] at this
    rw [Nat.add_assoc, this, h1, h2, show s' = (scanTok s).2 from rfl, e1, e2]
  case case6 fuel s r hx s' he s'' hfull q ih =>
    obtain ⟨e1, e2⟩ := scanTok_same s
    have h1 : s''.pulled = s'.pulled := by show (if _ then _ else _ : Scanner).pulled = _; split <;> rfl
    have h2 : s''.src = s'.src := by show (if _ then _ else _ : Scanner).src = _; split <;> rfl
    rw [ih]
    show s''.pulled + q.1.length + Source.left q.2.2 = _
    have := read_left s''.src (s''.bufLen - (s''.start + s''.data.length))
    have hq : q = s''.src.read (s''.bufLen - (s''.start + s''.data.length)) := rfl
    rw [← hq] at this
    rw [Nat.add_assoc, this, h1, h2, show s' = (scanTok s).2 from rfl, e1, e2]

theorem reach_total {s0 : Scanner} {c : Nat} {s : Scanner} (h : Reach s0 c s) :
    s.pulled + Source.left s.src = s0.pulled + Source.left s0.src := by
  induction h with
  | init => rfl
  | @tok c s fuel adv t s' _ heq ih =>
    have := scan_total fuel s
    rw [heq] at this
    exact this.trans ih
  | @stop c s fuel s' _ heq ih =>
    have := scan_total fuel s
    rw [heq] at this
    exact this.trans ih

theorem implRun_pulled_le_source (conn : Bool) (lastID : Bytes) (src : Source) (cfg : Option (Nat × Int))
    (stopAt : Option Nat) :
    (implRun conn lastID src cfg stopAt).2.2 ≤ (src.chunks.map List.length).sum := by
  obtain ⟨c, h⟩ := finalScanner_reach conn lastID src cfg stopAt
  have := reach_total h
  have h0 : (mkScanner src cfg).pulled + Source.left (mkScanner src cfg).src = (src.chunks.map List.length).sum := by
    cases cfg with
    | none => simp [mkScanner, Source.left]
    | some p => obtain ⟨a, b⟩ := p; simp [mkScanner, Source.left]
  rw [implRun_pulled]
  omega

end GoSSE.Proofs
