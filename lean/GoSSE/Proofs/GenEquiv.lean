import GoSSE.Gen.Root
import GoSSE.Model.Parser
/-!
# The generated layer computes the hand-written model

`GoSSE/Gen/*.lean` is produced by `/verif/translate` from /repo's current source on every run. Each theorem
here says that a generated definition, given enough fuel, returns exactly what the hand-written model's
function returns — in particular that it never panics (no index or slice expression out of range) and never
runs out of fuel. The property theorems about the model therefore hold of the translated source text.
-/
set_option linter.unusedSimpArgs false
namespace GoSSE.GenEquiv
open GoSSE GoSSE.GoRT GoSSE.Model

theorem loopM_rule {σ ρ : Type} (body : σ → GoM (Step σ ρ)) (Inv : σ → Prop) (mu : σ → Nat)
    (post : σ ⊕ ρ → Prop)
    (hstep : ∀ s, Inv s →
      match body s with
      | .ok (.next s') => Inv s' ∧ mu s' < mu s
      | .ok (.brk s') => post (.inl s')
      | .ok (.ret r) => post (.inr r)
      | .error _ => False) :
    ∀ fuel s, Inv s → mu s < fuel → ∃ r, loopM body fuel s = .ok r ∧ post r := by
  intro fuel
  induction fuel with
  | zero => intro s _ h; omega
  | succ n ih =>
    intro s hi hm
    have h := hstep s hi
    unfold loopM
    cases hb : body s with
    | error e => rw [hb] at h; exact h.elim
    | ok st =>
      rw [hb] at h
      cases st with
      | next s' => simp only at h ⊢; exact ih s' h.1 (by omega)
      | brk s' => exact ⟨_, rfl, h⟩
      | ret r => exact ⟨_, rfl, h⟩

theorem idx_ok {α} [Inhabited α] (s : List α) (i : Nat) (h : i < s.length) :
    idx s (i : Int) = .ok (s[i]'h) := by
  unfold idx len
  have : (0 : Int) ≤ i ∧ (i : Int) < s.length := ⟨by omega, by omega⟩
  simp [this, List.getD_eq_getElem?_getD, h, pure, Except.pure]

theorem isNewlineChar_eq (fuel : Nat) (b : UInt8) : Gen.isNewlineChar fuel b = .ok (isNl b) := by
  simp [Gen.isNewlineChar, isNl, pure, Except.pure]

/-- shifting: no newline among the first `i` bytes -/
def NoNlBefore (s : Bytes) (i : Nat) : Prop :=
  i ≤ s.length ∧ newlineIndex s = ((newlineIndex (s.drop i)).1 + i, (newlineIndex (s.drop i)).2)

theorem noNl_zero (s : Bytes) : NoNlBefore s 0 := by simp [NoNlBefore]

theorem drop_cons_of_lt (s : Bytes) (i : Nat) (h : i < s.length) : s.drop i = s[i] :: s.drop (i + 1) := by
  exact List.drop_eq_getElem_cons h

theorem ni_cons (b : Byte) (t : Bytes) : newlineIndex (b :: t) =
    if isNl b then (0, if b == 13 && t.head? == some 10 then 2 else 1)
    else ((newlineIndex t).1 + 1, (newlineIndex t).2) := by
  simp [newlineIndex]

theorem NewlineIndex_loop1_step (fuel : Nat) (s : Bytes) (i : Nat) (hi : NoNlBefore s i) :
    match Gen.NewlineIndex_loop1 fuel s (len s) ((i : Int), 0) with
    | .ok (.next s') => s' = (((i + 1 : Nat) : Int), 0) ∧ NoNlBefore s (i + 1)
    | .ok (.brk s') => s' = (((newlineIndex s).1 : Int), ((newlineIndex s).2 : Int))
    | .ok (.ret _) => False
    | .error _ => False := by
  obtain ⟨hle, hsh⟩ := hi
  unfold Gen.NewlineIndex_loop1
  by_cases hlt : i < s.length
  · have hd := drop_cons_of_lt s i hlt
    have c1 : ((i : Int) < len s) := by unfold len; omega
    simp only [c1, decide_true, if_true, idx_ok s i hlt, isNewlineChar_eq, bind, Except.bind]
    rw [hd, ni_cons] at hsh
    by_cases hnl : isNl s[i]
    · simp only [hnl, if_true] at hsh ⊢
      by_cases h13 : s[i] = 13
      · by_cases hlt2 : i + 1 < s.length
        · have c2 : ((i : Int) < len s - 1) := by unfold len; omega
          have e2 : ((i : Int) + 1) = ((i + 1 : Nat) : Int) := by omega
          simp only [h13, beq_self_eq_true, c2, decide_true, Bool.and_self, if_true, e2, idx_ok s (i + 1) hlt2,
            pure, Except.pure]
          have hd2 := drop_cons_of_lt s (i + 1) hlt2
          rw [hd2] at hsh
          simp only [h13, beq_self_eq_true, List.head?_cons, Bool.true_and] at hsh
          by_cases h10 : s[i + 1] = 10
          · simp [h10] at hsh ⊢
            simp [hsh]
          · have : (s[i + 1] == 10) = false := by simpa using h10
            simp [this, h10] at hsh ⊢
            simp [hsh]
        · have c2 : ¬ ((i : Int) < len s - 1) := by unfold len; omega
          simp only [h13, beq_self_eq_true, c2, decide_false, Bool.and_false, if_false, pure, Except.pure]
          have : s.drop (i + 1) = [] := by apply List.drop_eq_nil_of_le; omega
          rw [this] at hsh
          simp at hsh
          simp [hsh]
      · have : (s[i] == 13) = false := by simpa using h13
        simp only [this, Bool.false_and, if_false, pure, Except.pure] at hsh ⊢
        simp at hsh
        simp [hsh]
    · have hnl' : isNl s[i] = false := by simpa using hnl
      simp only [hnl', if_false, pure, Except.pure] at hsh ⊢
      refine ⟨?_, ?_, ?_⟩
      · simp
      · omega
      · rw [hsh]; simp; omega
  · have c1 : ¬ ((i : Int) < len s) := by unfold len; omega
    simp only [c1, decide_false, if_false, pure, Except.pure]
    have : s.drop i = [] := by apply List.drop_eq_nil_of_le; omega
    rw [this] at hsh
    simp [newlineIndex] at hsh
    have : i = s.length := by omega
    simp [hsh]

theorem NewlineIndex_eq (fuel : Nat) (s : Bytes) (hf : s.length < fuel) :
    Gen.NewlineIndex fuel s = .ok (((newlineIndex s).1 : Int), ((newlineIndex s).2 : Int)) := by
  have h := loopM_rule (Gen.NewlineIndex_loop1 fuel s (len s))
    (fun st => ∃ i : Nat, st = ((i : Int), 0) ∧ NoNlBefore s i)
    (fun st => s.length - st.1.toNat)
    (fun r => r = .inl (((newlineIndex s).1 : Int), ((newlineIndex s).2 : Int)))
    (by
      rintro st ⟨i, rfl, hi⟩
      have hs := NewlineIndex_loop1_step fuel s i hi
      revert hs
      cases Gen.NewlineIndex_loop1 fuel s (len s) ((i : Int), 0) with
      | error e => exact fun h => h.elim
      | ok st' =>
        cases st' with
        | next s' =>
          rintro ⟨rfl, hn⟩
          refine ⟨⟨i + 1, rfl, hn⟩, ?_⟩
          have := hn.1
          simp; omega
        | brk s' => rintro rfl; rfl
        | ret r => exact fun h => h.elim)
    fuel ((0 : Int), 0) ⟨0, rfl, noNl_zero s⟩ (by simpa using hf)
  obtain ⟨r, hr, hp⟩ := h
  subst hp
  unfold Gen.NewlineIndex
  simp only [bind, Except.bind, pure, Except.pure]
  have e0 : loopM (Gen.NewlineIndex_loop1 fuel s (len s)) fuel ((0 : Int), (0 : Int)) = _ := hr
  rw [e0]

theorem sliceTo_ok {α} (s : List α) (j : Nat) (h : j ≤ s.length) : sliceTo s (j : Int) = .ok (s.take j) := by
  unfold sliceTo len
  have : (0 : Int) ≤ j ∧ (j : Int) ≤ s.length := ⟨by omega, by omega⟩
  simp [this, pure, Except.pure]

theorem sliceFrom_ok {α} (s : List α) (i : Nat) (h : i ≤ s.length) : sliceFrom s (i : Int) = .ok (s.drop i) := by
  unfold sliceFrom len
  have : (0 : Int) ≤ i ∧ (i : Int) ≤ s.length := ⟨by omega, by omega⟩
  simp [this, pure, Except.pure]

theorem slice_ok {α} (s : List α) (i j : Nat) (h : i ≤ j) (h2 : j ≤ s.length) :
    slice s (i : Int) (j : Int) = .ok ((s.take j).drop i) := by
  unfold slice len
  have : (0 : Int) ≤ i ∧ (i : Int) ≤ j ∧ (j : Int) ≤ s.length := ⟨by omega, by omega, by omega⟩
  simp [this, pure, Except.pure]

theorem newlineIndex_bound (s : Bytes) : (newlineIndex s).1 + (newlineIndex s).2 ≤ s.length := by
  induction s with
  | nil => simp [newlineIndex]
  | cons b t ih =>
    rw [ni_cons]
    split
    · cases t with
      | nil => simp
      | cons c u => simp; split <;> omega
    · simp; omega

theorem NextChunk_eq (fuel : Nat) (s : Bytes) (hf : s.length < fuel) :
    Gen.NextChunk fuel s = .ok (nextChunk s) := by
  have hb := newlineIndex_bound s
  unfold Gen.NextChunk nextChunk
  simp only [bind, Except.bind, NewlineIndex_eq fuel s hf, pure, Except.pure]
  have e : ((newlineIndex s).1 : Int) + ((newlineIndex s).2 : Int) = (((newlineIndex s).1 + (newlineIndex s).2 : Nat) : Int) := by omega
  rw [sliceTo_ok s _ (by omega), e, sliceFrom_ok s _ hb]
  simp only [Except.ok.injEq, Prod.mk.injEq, true_and]
  by_cases h0 : (newlineIndex s).2 = 0
  · simp [h0]
  · have : ((newlineIndex s).2 : Int) ≠ 0 := by omega
    rw [bne_iff_ne.mpr this, bne_iff_ne.mpr h0]

theorem trimFirstSpace_eq (fuel : Nat) (c : Bytes) : Gen.trimFirstSpace fuel c = .ok (trimFirstSpace c) := by
  unfold Gen.trimFirstSpace
  cases c with
  | nil => simp [trimFirstSpace, bind, Except.bind, pure, Except.pure]
  | cons b t =>
    have h0 : idx (b :: t) (0 : Int) = .ok b := idx_ok (b :: t) 0 (by simp)
    have h1 : sliceFrom (b :: t) (1 : Int) = .ok t := sliceFrom_ok (b :: t) 1 (by simp)
    by_cases hb : b = 32
    · subst hb
      simp [trimFirstSpace, bind, Except.bind, pure, Except.pure, h0, h1]
    · have : (b == 32) = false := by simpa using hb
      simp [bind, Except.bind, pure, Except.pure, h0, this]
      unfold trimFirstSpace
      split
      · rename_i heq; simp at heq; exact absurd heq.1 hb
      · rfl

/-- the wire name of a parsed field name -/
def nameBytes : FName → Bytes
  | .data => fData | .event => fEvent | .retry => fRetry | .id => fId | .comment => [58] | .none => []

theorem getFieldName_eq (fuel : Nat) (b : Bytes) :
    Gen.getFieldName fuel b = .ok (match getFieldName b with | some n => (nameBytes n, true) | none => ([], false)) := by
  unfold Gen.getFieldName getFieldName
  by_cases h1 : b = fData
  · subst h1; simp [nameBytes, fData, pure, Except.pure]
  by_cases h2 : b = fEvent
  · subst h2; simp [nameBytes, fData, fEvent, pure, Except.pure]
  by_cases h3 : b = fRetry
  · subst h3; simp [nameBytes, fData, fEvent, fRetry, pure, Except.pure]
  by_cases h4 : b = fId
  · subst h4; simp [nameBytes, fData, fEvent, fRetry, fId, pure, Except.pure]
  have e1 : (b == fData) = false := by simpa using h1
  have e2 : (b == fEvent) = false := by simpa using h2
  have e3 : (b == fRetry) = false := by simpa using h3
  have e4 : (b == fId) = false := by simpa using h4
  simp only [fData, fEvent, fRetry, fId] at e1 e2 e3 e4 h1 h2 h3 h4
  simp [e1, e2, e3, e4, h1, h2, h3, h4, fData, fEvent, fRetry, fId, pure, Except.pure]

end GoSSE.GenEquiv
