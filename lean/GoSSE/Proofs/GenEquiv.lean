import GoSSE.Gen.Root
import GoSSE.Model.Parser
import GoSSE.Model.Fields
import GoSSE.Model.Queue
import GoSSE.Proofs.ParserRange
/-!
# The generated layer computes the hand-written model

`GoSSE/Gen/*.lean` is produced by `/verif/translate` from /repo's current source on every run. Each theorem
here says that a generated definition, given enough fuel, returns exactly what the hand-written model's
function returns — in particular that it never panics (no index or slice expression out of range) and never
runs out of fuel. The property theorems about the model therefore hold of the translated source text.
-/
set_option linter.unusedSimpArgs false
namespace GoSSE.GenEquiv
open GoSSE GoSSE.GoRT GoSSE.Model

theorem loopM_rule {σ ρ : Type} (body : σ → GoM (Step σ ρ)) (Inv : σ → Prop) (mu : σ → Nat)
    (post : σ ⊕ ρ → Prop)
    (hstep : ∀ s, Inv s →
      match body s with
      | .ok (.next s') => Inv s' ∧ mu s' < mu s
      | .ok (.brk s') => post (.inl s')
      | .ok (.ret r) => post (.inr r)
      | .error _ => False) :
    ∀ fuel s, Inv s → mu s < fuel → ∃ r, loopM body fuel s = .ok r ∧ post r := by
  intro fuel
  induction fuel with
  | zero => intro s _ h; omega
  | succ n ih =>
    intro s hi hm
    have h := hstep s hi
    unfold loopM
    cases hb : body s with
    | error e => rw [hb] at h; exact h.elim
    | ok st =>
      rw [hb] at h
      cases st with
      | next s' => simp only at h ⊢; exact ih s' h.1 (by omega)
      | brk s' => exact ⟨_, rfl, h⟩
      | ret r => exact ⟨_, rfl, h⟩

theorem idx_ok {α} [Inhabited α] (s : List α) (i : Nat) (h : i < s.length) :
    idx s (i : Int) = .ok (s[i]'h) := by
  unfold idx len
  have : (0 : Int) ≤ i ∧ (i : Int) < s.length := ⟨by omega, by omega⟩
  simp [this, List.getD_eq_getElem?_getD, h, pure, Except.pure]

theorem isNewlineChar_eq (fuel : Nat) (b : UInt8) : Gen.isNewlineChar fuel b = .ok (isNl b) := by
  simp [Gen.isNewlineChar, isNl, pure, Except.pure]

/-- shifting: no newline among the first `i` bytes -/
def NoNlBefore (s : Bytes) (i : Nat) : Prop :=
  i ≤ s.length ∧ newlineIndex s = ((newlineIndex (s.drop i)).1 + i, (newlineIndex (s.drop i)).2)

theorem noNl_zero (s : Bytes) : NoNlBefore s 0 := by simp [NoNlBefore]

theorem drop_cons_of_lt (s : Bytes) (i : Nat) (h : i < s.length) : s.drop i = s[i] :: s.drop (i + 1) := by
  exact List.drop_eq_getElem_cons h

theorem ni_cons (b : Byte) (t : Bytes) : newlineIndex (b :: t) =
    if isNl b then (0, if b == 13 && t.head? == some 10 then 2 else 1)
    else ((newlineIndex t).1 + 1, (newlineIndex t).2) := by
  simp [newlineIndex]

theorem NewlineIndex_loop1_step (fuel : Nat) (s : Bytes) (i : Nat) (hi : NoNlBefore s i) :
    match Gen.NewlineIndex_loop1 fuel s (len s) ((i : Int), 0) with
    | .ok (.next s') => s' = (((i + 1 : Nat) : Int), 0) ∧ NoNlBefore s (i + 1)
    | .ok (.brk s') => s' = (((newlineIndex s).1 : Int), ((newlineIndex s).2 : Int))
    | .ok (.ret _) => False
    | .error _ => False := by
  obtain ⟨hle, hsh⟩ := hi
  unfold Gen.NewlineIndex_loop1
  by_cases hlt : i < s.length
  · have hd := drop_cons_of_lt s i hlt
    have c1 : ((i : Int) < len s) := by unfold len; omega
    simp only [c1, decide_true, if_true, idx_ok s i hlt, isNewlineChar_eq, bind, Except.bind]
    rw [hd, ni_cons] at hsh
    by_cases hnl : isNl s[i]
    · simp only [hnl, if_true] at hsh ⊢
      by_cases h13 : s[i] = 13
      · by_cases hlt2 : i + 1 < s.length
        · have c2 : ((i : Int) < len s - 1) := by unfold len; omega
          have e2 : ((i : Int) + 1) = ((i + 1 : Nat) : Int) := by omega
          simp only [h13, beq_self_eq_true, c2, decide_true, Bool.and_self, if_true, e2, idx_ok s (i + 1) hlt2,
            pure, Except.pure]
          have hd2 := drop_cons_of_lt s (i + 1) hlt2
          rw [hd2] at hsh
          simp only [h13, beq_self_eq_true, List.head?_cons, Bool.true_and] at hsh
          by_cases h10 : s[i + 1] = 10
          · simp [h10] at hsh ⊢
            simp [hsh]
          · have : (s[i + 1] == 10) = false := by simpa using h10
            simp [this, h10] at hsh ⊢
            simp [hsh]
        · have c2 : ¬ ((i : Int) < len s - 1) := by unfold len; omega
          simp only [h13, beq_self_eq_true, c2, decide_false, Bool.and_false, if_false, pure, Except.pure]
          have : s.drop (i + 1) = [] := by apply List.drop_eq_nil_of_le; omega
          rw [this] at hsh
          simp at hsh
          simp [hsh]
      · have : (s[i] == 13) = false := by simpa using h13
        simp only [this, Bool.false_and, if_false, pure, Except.pure] at hsh ⊢
        simp at hsh
        simp [hsh]
    · have hnl' : isNl s[i] = false := by simpa using hnl
      simp only [hnl', if_false, pure, Except.pure] at hsh ⊢
      refine ⟨?_, ?_, ?_⟩
      · simp
      · omega
      · rw [hsh]; simp; omega
  · have c1 : ¬ ((i : Int) < len s) := by unfold len; omega
    simp only [c1, decide_false, if_false, pure, Except.pure]
    have : s.drop i = [] := by apply List.drop_eq_nil_of_le; omega
    rw [this] at hsh
    simp [newlineIndex] at hsh
    have : i = s.length := by omega
    simp [hsh]

theorem NewlineIndex_eq (fuel : Nat) (s : Bytes) (hf : s.length < fuel) :
    Gen.NewlineIndex fuel s = .ok (((newlineIndex s).1 : Int), ((newlineIndex s).2 : Int)) := by
  have h := loopM_rule (Gen.NewlineIndex_loop1 fuel s (len s))
    (fun st => ∃ i : Nat, st = ((i : Int), 0) ∧ NoNlBefore s i)
    (fun st => s.length - st.1.toNat)
    (fun r => r = .inl (((newlineIndex s).1 : Int), ((newlineIndex s).2 : Int)))
    (by
      rintro st ⟨i, rfl, hi⟩
      have hs := NewlineIndex_loop1_step fuel s i hi
      revert hs
      cases Gen.NewlineIndex_loop1 fuel s (len s) ((i : Int), 0) with
      | error e => exact fun h => h.elim
      | ok st' =>
        cases st' with
        | next s' =>
          rintro ⟨rfl, hn⟩
          refine ⟨⟨i + 1, rfl, hn⟩, ?_⟩
          have := hn.1
          simp; omega
        | brk s' => rintro rfl; rfl
        | ret r => exact fun h => h.elim)
    fuel ((0 : Int), 0) ⟨0, rfl, noNl_zero s⟩ (by simpa using hf)
  obtain ⟨r, hr, hp⟩ := h
  subst hp
  unfold Gen.NewlineIndex
  simp only [bind, Except.bind, pure, Except.pure]
  have e0 : loopM (Gen.NewlineIndex_loop1 fuel s (len s)) fuel ((0 : Int), (0 : Int)) = _ := hr
  rw [e0]

theorem sliceTo_ok {α} (s : List α) (j : Nat) (h : j ≤ s.length) : sliceTo s (j : Int) = .ok (s.take j) := by
  unfold sliceTo len
  have : (0 : Int) ≤ j ∧ (j : Int) ≤ s.length := ⟨by omega, by omega⟩
  simp [this, pure, Except.pure]

theorem sliceFrom_ok {α} (s : List α) (i : Nat) (h : i ≤ s.length) : sliceFrom s (i : Int) = .ok (s.drop i) := by
  unfold sliceFrom len
  have : (0 : Int) ≤ i ∧ (i : Int) ≤ s.length := ⟨by omega, by omega⟩
  simp [this, pure, Except.pure]

theorem slice_ok {α} (s : List α) (i j : Nat) (h : i ≤ j) (h2 : j ≤ s.length) :
    slice s (i : Int) (j : Int) = .ok ((s.take j).drop i) := by
  unfold slice len
  have : (0 : Int) ≤ i ∧ (i : Int) ≤ j ∧ (j : Int) ≤ s.length := ⟨by omega, by omega, by omega⟩
  simp [this, pure, Except.pure]

theorem newlineIndex_bound (s : Bytes) : (newlineIndex s).1 + (newlineIndex s).2 ≤ s.length := by
  induction s with
  | nil => simp [newlineIndex]
  | cons b t ih =>
    rw [ni_cons]
    split
    · cases t with
      | nil => simp
      | cons c u => simp; split <;> omega
    · simp; omega

theorem NextChunk_eq (fuel : Nat) (s : Bytes) (hf : s.length < fuel) :
    Gen.NextChunk fuel s = .ok (nextChunk s) := by
  have hb := newlineIndex_bound s
  unfold Gen.NextChunk nextChunk
  simp only [bind, Except.bind, NewlineIndex_eq fuel s hf, pure, Except.pure]
  have e : ((newlineIndex s).1 : Int) + ((newlineIndex s).2 : Int) = (((newlineIndex s).1 + (newlineIndex s).2 : Nat) : Int) := by omega
  rw [sliceTo_ok s _ (by omega), e, sliceFrom_ok s _ hb]
  simp only [Except.ok.injEq, Prod.mk.injEq, true_and]
  by_cases h0 : (newlineIndex s).2 = 0
  · simp [h0]
  · have : ((newlineIndex s).2 : Int) ≠ 0 := by omega
    rw [bne_iff_ne.mpr this, bne_iff_ne.mpr h0]

theorem trimFirstSpace_eq (fuel : Nat) (c : Bytes) : Gen.trimFirstSpace fuel c = .ok (trimFirstSpace c) := by
  unfold Gen.trimFirstSpace
  cases c with
  | nil => simp [trimFirstSpace, bind, Except.bind, pure, Except.pure]
  | cons b t =>
    have h0 : idx (b :: t) (0 : Int) = .ok b := idx_ok (b :: t) 0 (by simp)
    have h1 : sliceFrom (b :: t) (1 : Int) = .ok t := sliceFrom_ok (b :: t) 1 (by simp)
    by_cases hb : b = 32
    · subst hb
      simp [trimFirstSpace, bind, Except.bind, pure, Except.pure, h0, h1]
    · have : (b == 32) = false := by simpa using hb
      simp [bind, Except.bind, pure, Except.pure, h0, this]
      unfold trimFirstSpace
      split
      · rename_i heq; simp at heq; exact absurd heq.1 hb
      · rfl

/-- the wire name of a parsed field name -/
def nameBytes : FName → Bytes
  | .data => fData | .event => fEvent | .retry => fRetry | .id => fId | .comment => [58] | .none => []

theorem getFieldName_eq (fuel : Nat) (b : Bytes) :
    Gen.getFieldName fuel b = .ok (match getFieldName b with | some n => (nameBytes n, true) | none => ([], false)) := by
  unfold Gen.getFieldName getFieldName
  by_cases h1 : b = fData
  · subst h1; simp [nameBytes, fData, pure, Except.pure]
  by_cases h2 : b = fEvent
  · subst h2; simp [nameBytes, fData, fEvent, pure, Except.pure]
  by_cases h3 : b = fRetry
  · subst h3; simp [nameBytes, fData, fEvent, fRetry, pure, Except.pure]
  by_cases h4 : b = fId
  · subst h4; simp [nameBytes, fData, fEvent, fRetry, fId, pure, Except.pure]
  have e1 : (b == fData) = false := by simpa using h1
  have e2 : (b == fEvent) = false := by simpa using h2
  have e3 : (b == fRetry) = false := by simpa using h3
  have e4 : (b == fId) = false := by simpa using h4
  simp only [fData, fEvent, fRetry, fId] at e1 e2 e3 e4 h1 h2 h3 h4
  simp [e1, e2, e3, e4, h1, h2, h3, h4, fData, fEvent, fRetry, fId, pure, Except.pure]

theorem isSingleLine_eq (fuel : Nat) (p : Bytes) (hf : p.length < fuel) :
    Gen.isSingleLine fuel p = .ok (isSingleLine p) := by
  unfold Gen.isSingleLine isSingleLine
  simp only [bind, Except.bind, NewlineIndex_eq fuel p hf, pure, Except.pure, Except.ok.injEq]
  by_cases h0 : (newlineIndex p).2 = 0
  · simp [h0]
  · have : ((newlineIndex p).2 : Int) ≠ 0 := by omega
    rw [beq_eq_false_iff_ne.mpr this, beq_eq_false_iff_ne.mpr h0]

theorem any_take_succ {α} (l : List α) (p : α → Bool) (i : Nat) (h : i < l.length) :
    (l.take (i + 1)).any p = ((l.take i).any p || p l[i]) := by
  rw [List.take_succ_eq_append_getElem h, List.any_append]; simp

theorem topicsIntersect_loop2_eq (fuel : Nat) (at' : Bytes) (b : List Bytes) (hf : b.length < fuel) :
    loopM (Gen.topicsIntersect_loop2 fuel at' b) fuel (0 : Int) =
      .ok (if b.any (fun bt => at' == bt) then .inr true else .inl (b.length : Int)) := by
  have h := loopM_rule (Gen.topicsIntersect_loop2 fuel at' b)
    (fun st => ∃ i : Nat, st = (i : Int) ∧ i ≤ b.length ∧ (b.take i).any (fun bt => at' == bt) = false)
    (fun st => b.length - st.toNat)
    (fun r => r = (if b.any (fun bt => at' == bt) then .inr true else .inl (b.length : Int)))
    (by
      rintro st ⟨i, rfl, hle, hno⟩
      unfold Gen.topicsIntersect_loop2
      by_cases hlt : i < b.length
      · have c1 : ((i : Int) < len b) := by unfold len; omega
        simp only [c1, if_true, idx_ok b i hlt, bind, Except.bind]
        by_cases heq : at' == b[i]
        · simp only [heq, if_true, pure, Except.pure]
          have : b.any (fun bt => at' == bt) = true := by
            rw [List.any_eq_true]; exact ⟨b[i], List.getElem_mem hlt, heq⟩
          simp [this]
        · have heq' : (at' == b[i]) = false := Bool.eq_false_iff.mpr heq
          simp only [heq', if_false, pure, Except.pure, Bool.false_eq_true]
          refine ⟨⟨i + 1, by omega, by omega, ?_⟩, by simp; omega⟩
          rw [any_take_succ b _ i hlt, hno, heq']; rfl
      · have c1 : ¬ ((i : Int) < len b) := by unfold len; omega
        simp only [c1, if_false, pure, Except.pure]
        have : i = b.length := by omega
        subst this
        rw [List.take_length] at hno
        simp [hno])
    fuel (0 : Int) ⟨0, rfl, by omega, by simp⟩ (by simpa using hf)
  obtain ⟨r, hr, hp⟩ := h
  rw [hr, hp]

theorem topicsIntersect_eq (fuel : Nat) (a b : List Bytes) (hfa : a.length < fuel) (hfb : b.length < fuel) :
    Gen.topicsIntersect fuel a b = .ok (topicsIntersect a b) := by
  have h := loopM_rule (Gen.topicsIntersect_loop1 fuel b a)
    (fun st => ∃ i : Nat, st = (i : Int) ∧ i ≤ a.length ∧
      (a.take i).any (fun at' => b.any fun bt => at' == bt) = false)
    (fun st => a.length - st.toNat)
    (fun r => r = (if topicsIntersect a b then .inr true else .inl (a.length : Int)))
    (by
      rintro st ⟨i, rfl, hle, hno⟩
      unfold Gen.topicsIntersect_loop1
      by_cases hlt : i < a.length
      · have c1 : ((i : Int) < len a) := by unfold len; omega
        simp only [c1, if_true, idx_ok a i hlt, bind, Except.bind, topicsIntersect_loop2_eq fuel a[i] b hfb]
        by_cases hin : b.any (fun bt => a[i] == bt)
        · simp only [hin, if_true, pure, Except.pure]
          have : topicsIntersect a b = true := by
            unfold topicsIntersect
            rw [List.any_eq_true]; exact ⟨a[i], List.getElem_mem hlt, hin⟩
          simp [this]
        · have hin' : b.any (fun bt => a[i] == bt) = false := Bool.eq_false_iff.mpr hin
          simp only [hin', Bool.false_eq_true, if_false, pure, Except.pure]
          refine ⟨⟨i + 1, by omega, by omega, ?_⟩, by simp; omega⟩
          rw [any_take_succ a _ i hlt, hno, hin']; rfl
      · have c1 : ¬ ((i : Int) < len a) := by unfold len; omega
        simp only [c1, if_false, pure, Except.pure]
        have : i = a.length := by omega
        subst this
        rw [List.take_length] at hno
        unfold topicsIntersect
        simp [hno])
    fuel (0 : Int) ⟨0, rfl, by omega, by simp⟩ (by simpa using hfa)
  obtain ⟨r, hr, hp⟩ := h
  unfold Gen.topicsIntersect
  simp only [bind, Except.bind, pure, Except.pure]
  rw [hr, hp]
  by_cases ht : topicsIntersect a b <;> simp [ht]

theorem newlineIndex_pos (s : Bytes) (h : s ≠ []) : 0 < (newlineIndex s).1 + (newlineIndex s).2 := by
  cases s with
  | nil => exact absurd rfl h
  | cons b t =>
    rw [ni_cons]
    split
    · simp; split <;> omega
    · simp; omega

/-- one iteration of `splitFunc`'s loop, as the model's `splitLoop` does it -/
def splitStep (data : Bytes) (adv st : Nat) : Step (Int × Int) (Int × Option Bytes × Option String) :=
  let r := newlineIndex (data.drop adv)
  let adv' := adv + r.1 + r.2
  let st' := if r.1 == 0 then st + r.2 else st
  if adv' == data.length || (isNl ((data.drop adv').headD 0) && decide (r.1 > 0))
  then .brk ((adv' : Int), (st' : Int)) else .next ((adv' : Int), (st' : Int))

theorem headD_drop (data : Bytes) (i : Nat) (h : i < data.length) : (data.drop i).headD 0 = data[i] := by
  rw [drop_cons_of_lt data i h]; rfl

theorem splitFunc_loop1_eq (fuel : Nat) (data : Bytes) (hf : data.length < fuel) (adv st : Nat)
    (ha : adv < data.length) :
    Gen.splitFunc_loop1 fuel data ((adv : Int), (st : Int)) = .ok (splitStep data adv st) := by
  have hb := newlineIndex_bound (data.drop adv)
  have hl : (data.drop adv).length = data.length - adv := by simp
  have hfr : (data.drop adv).length < fuel := by omega
  unfold Gen.splitFunc_loop1 splitStep
  simp only [bind, Except.bind, sliceFrom_ok data adv (by omega), NewlineIndex_eq fuel _ hfr, pure, Except.pure, len]
  generalize hr : newlineIndex (data.drop adv) = r at hb ⊢
  have eadv : ((adv : Int) + ((r.1 : Int) + (r.2 : Int))) = ((adv + r.1 + r.2 : Nat) : Int) := by omega
  have est : ((st : Int) + (r.2 : Int)) = ((st + r.2 : Nat) : Int) := by omega
  rw [eadv, est]
  generalize hA : adv + r.1 + r.2 = A at *
  generalize hS : st + r.2 = S at *
  by_cases hend : A = data.length
  · subst hend
    by_cases h0 : r.1 = 0
    · simp [h0]
    · have c0 : ((r.1 : Int) == 0) = false := by simp; omega
      simp [c0, h0]
  · have hlt : A < data.length := by omega
    have c : (((A : Nat) : Int) == ((data.length : Nat) : Int)) = false := by simp; omega
    have c' : (A == data.length) = false := by simp; omega
    have hidx := idx_ok data A hlt
    have hh := headD_drop data A hlt
    by_cases h0 : r.1 = 0
    · have cg : ¬ ((r.1 : Int) > 0) := by omega
      simp [c, c', h0, hidx, isNewlineChar_eq, hh]
    · have c0 : ((r.1 : Int) == 0) = false := by simp; omega
      have cg : ((r.1 : Int) > 0) := by omega
      have cg' : r.1 > 0 := by omega
      simp only [c, c', c0, Bool.false_eq_true, if_false, hidx, isNewlineChar_eq, cg, decide_true, Bool.and_true,
        Bool.false_or, hh, cg', h0]
      by_cases hn : isNl data[A] <;> simp [hn, h0]

theorem splitLoop_eq (fuel : Nat) (data : Bytes) (hf : data.length < fuel) :
    ∀ (m adv st n : Nat), adv < data.length → data.length - adv ≤ m → m ≤ n →
      loopM (Gen.splitFunc_loop1 fuel data) n ((adv : Int), (st : Int)) =
        .ok (.inl (((splitLoop data.length m (data.drop adv) adv st).1 : Int),
                   ((splitLoop data.length m (data.drop adv) adv st).2 : Int))) := by
  intro m
  induction m with
  | zero => intro adv st n ha hm; omega
  | succ m ih =>
    intro adv st n ha hm hn
    obtain ⟨n', rfl⟩ : ∃ n', n = n' + 1 := ⟨n - 1, by omega⟩
    have hb := newlineIndex_bound (data.drop adv)
    have hl : (data.drop adv).length = data.length - adv := by simp
    have hpos := newlineIndex_pos (data.drop adv) (by
      intro h; have := congrArg List.length h; simp at this; omega)
    unfold loopM
    rw [splitFunc_loop1_eq fuel data hf adv st ha]
    unfold splitLoop splitStep
    generalize hr : newlineIndex (data.drop adv) = r at hb hpos ⊢
    simp only [List.drop_drop]
    have e1 : adv + (r.1 + r.2) = adv + r.1 + r.2 := by omega
    rw [e1]
    by_cases hc : (adv + r.1 + r.2 == data.length || (isNl ((data.drop (adv + r.1 + r.2)).headD 0) && decide (r.1 > 0))) = true
    · simp only [hc, if_true, pure, Except.pure]
    · have hc' : (adv + r.1 + r.2 == data.length || (isNl ((data.drop (adv + r.1 + r.2)).headD 0) && decide (r.1 > 0))) = false := by
        simpa using hc
      simp only [hc', Bool.false_eq_true, if_false]
      have hne : adv + r.1 + r.2 ≠ data.length := by
        intro h; simp [h] at hc'
      exact ih (adv + r.1 + r.2) _ n' (by omega) (by omega) (by omega)

theorem getD_eq (data : Bytes) (i : Nat) (h : i < data.length) : data.getD i 0 = data[i] := by
  simp [List.getD_eq_getElem?_getD, h]

theorem splitFunc_eq (fuel : Nat) (data : Bytes) (atEOF : Bool) (hf : data.length < fuel) :
    Gen.splitFunc fuel data atEOF =
      .ok (((splitFunc data atEOF).1 : Int), (splitFunc data atEOF).2, none) := by
  unfold Gen.splitFunc splitFunc
  by_cases hl0 : data.length = 0
  · simp [len, hl0, pure, Except.pure]
  have hpos : 0 < data.length := by omega
  have hloop := splitLoop_eq fuel data hf (data.length + 1) 0 0 fuel hpos (by omega) (by omega)
  obtain ⟨hr1, hr2⟩ := GoSSE.Proofs.splitFunc_loop_range data
  simp only [List.drop_zero] at hloop
  have e0 : loopM (Gen.splitFunc_loop1 fuel data) fuel ((0 : Int), (0 : Int)) = _ := hloop
  have c0 : (((data.length : Nat) : Int) == (0 : Int)) = false := by rw [beq_eq_false_iff_ne]; omega
  have c0' : (data.length == 0) = false := by rw [beq_eq_false_iff_ne]; omega
  simp only [len, c0, c0', Bool.false_eq_true, if_false, bind, Except.bind, e0, pure, Except.pure]
  generalize splitLoop data.length (data.length + 1) data 0 0 = R at hr1 hr2 ⊢
  by_cases hend : R.1 = data.length
  · have c1 : (((R.1 : Nat) : Int) == ((data.length : Nat) : Int)) = true := by simp [hend]
    have c1' : (R.1 == data.length) = true := by simp [hend]
    cases atEOF with
    | false => simp [c1, c1']
    | true =>
      have c2 : ¬ (((R.1 : Nat) : Int) < ((data.length : Nat) : Int)) := by omega
      have c2' : ¬ (R.1 < data.length) := by omega
      simp only [c1, c1', Bool.not_true, Bool.and_false, Bool.false_eq_true, if_false, c2, decide_false, c2']
      rw [slice_ok data R.2 R.1 hr1 hr2]
  · have hlt : R.1 < data.length := by omega
    have c1 : (((R.1 : Nat) : Int) == ((data.length : Nat) : Int)) = false := by simp; omega
    have c1' : (R.1 == data.length) = false := by simp; omega
    have c2 : (((R.1 : Nat) : Int) < ((data.length : Nat) : Int)) := by omega
    have ea : ((R.1 : Int) + 1) = ((R.1 + 1 : Nat) : Int) := by omega
    simp only [c1, c1', Bool.false_and, Bool.false_eq_true, if_false, c2, decide_true, if_true, hlt, ea]
    by_cases hlt2 : R.1 + 1 < data.length
    · have c3 : (((R.1 + 1 : Nat) : Int) < ((data.length : Nat) : Int)) := by omega
      have em : (((R.1 + 1 : Nat) : Int) - 1) = ((R.1 : Nat) : Int) := by omega
      have em' : R.1 + 1 - 1 = R.1 := by omega
      simp only [c3, decide_true, if_true, em, em', idx_ok data R.1 hlt, hlt2, Bool.true_and,
        getD_eq data R.1 hlt, getD_eq data (R.1 + 1) hlt2]
      by_cases h13 : data[R.1] = 13
      · simp only [h13, beq_self_eq_true, if_true, idx_ok data (R.1 + 1) hlt2, Bool.true_and]
        by_cases h10 : data[R.1 + 1] = 10
        · have ea2 : (((R.1 + 1 : Nat) : Int) + 1) = ((R.1 + 1 + 1 : Nat) : Int) := by omega
          simp only [h10, beq_self_eq_true, if_true, ea2]
          rw [slice_ok data R.2 (R.1 + 1 + 1) (by omega) (by omega)]
        · have : (data[R.1 + 1] == 10) = false := by simpa using h10
          simp only [this, Bool.false_eq_true, if_false]
          rw [slice_ok data R.2 (R.1 + 1) (by omega) (by omega)]
      · have : (data[R.1] == 13) = false := by simpa using h13
        simp only [this, Bool.false_eq_true, if_false, Bool.false_and]
        rw [slice_ok data R.2 (R.1 + 1) (by omega) (by omega)]
    · have c3 : ¬ (((R.1 + 1 : Nat) : Int) < ((data.length : Nat) : Int)) := by omega
      simp only [c3, decide_false, Bool.false_eq_true, if_false, hlt2, Bool.false_and]
      rw [slice_ok data R.2 (R.1 + 1) (by omega) (by omega)]

theorem stringsIndexByte_eq (s : Bytes) (c : UInt8) :
    stringsIndexByte s c = match indexByte s c with | some i => (i : Int) | none => -1 := by
  unfold stringsIndexByte indexByte
  by_cases h : List.findIdx (fun x => x == c) s < s.length <;> simp [h]

theorem indexByte_lt (s : Bytes) (c : UInt8) (i : Nat) (h : indexByte s c = some i) : i < s.length := by
  unfold indexByte at h
  by_cases h' : List.findIdx (fun x => x == c) s < s.length
  · simp [h'] at h; rw [← h]; exact h'
  · simp [h'] at h

/-- a parsed field, as the translated code stores it in `*Field` -/
def fieldOf (m : Model.Field) : Gen.Field := ⟨nameBytes m.name, m.value⟩

theorem scanSegment_tail (fuel : Nat) (f : Gen.FieldParser) (chunk : Bytes) (out : Gen.Field) (cp : Nat)
    (hcp : cp ≤ chunk.length) :
    (do
      let s ← sliceTo chunk (cp : Int)
      let r ← Gen.getFieldName fuel s
      if r.2 then do
        let out := { out with Name := r.1 }
        let s2 ← sliceFrom chunk (min ((cp : Int) + 1) (chunk.length : Int))
        let r2 ← Gen.trimFirstSpace fuel s2
        let out := { out with Value := r2 }
        pure (true, f, out)
      else do
        if (chunk == ([] : Bytes)) then do
          let out := { out with Name := ([] : Bytes) }
          let out := { out with Value := ([] : Bytes) }
          pure (true, f, out)
        else do
          if (((cp : Int) == (0 : Int)) && f.keepComments) then do
            let out := { out with Name := ([58] : Bytes) }
            let s3 ← sliceFrom chunk (min (1 : Int) (chunk.length : Int))
            let r3 ← Gen.trimFirstSpace fuel s3
            let out := { out with Value := r3 }
            pure (true, f, out)
          else do
            pure (false, f, out) : GoM (Bool × Gen.FieldParser × Gen.Field)) =
    .ok (match (match getFieldName (chunk.take cp) with
          | some n => some (Model.Field.mk n (trimFirstSpace (chunk.drop (min (cp + 1) chunk.length))))
          | none =>
            if chunk.isEmpty then some ⟨.none, []⟩
            else if cp == 0 && f.keepComments then some ⟨.comment, trimFirstSpace (chunk.drop (min 1 chunk.length))⟩
            else none) with
         | some fld => (true, f, fieldOf fld)
         | none => (false, f, out)) := by
  have e1 : min ((cp : Int) + 1) (chunk.length : Int) = ((min (cp + 1) chunk.length : Nat) : Int) := by omega
  have e2 : min (1 : Int) (chunk.length : Int) = ((min 1 chunk.length : Nat) : Int) := by omega
  simp only [bind, Except.bind, sliceTo_ok chunk cp hcp, getFieldName_eq, e1, e2]
  cases hg : getFieldName (chunk.take cp) with
  | some n =>
    simp only [if_true, sliceFrom_ok chunk _ (Nat.min_le_right _ _), trimFirstSpace_eq, pure, Except.pure, fieldOf]
  | none =>
    simp only [Bool.false_eq_true, if_false]
    by_cases hce : chunk = []
    · subst hce; simp [pure, Except.pure, fieldOf, nameBytes]
    · have c1 : (chunk == ([] : Bytes)) = false := by simpa using hce
      have c2 : chunk.isEmpty = false := by simpa using hce
      simp only [c1, c2, Bool.false_eq_true, if_false]
      by_cases h0 : cp = 0
      · subst h0
        cases hk : f.keepComments
        · simp [pure, Except.pure]
        · simp [pure, Except.pure, sliceFrom_ok chunk _ (Nat.min_le_right 1 _), trimFirstSpace_eq, fieldOf, nameBytes]
      · have c3 : (((cp : Nat) : Int) == 0) = false := by rw [beq_eq_false_iff_ne]; omega
        have c4 : (cp == 0) = false := by rw [beq_eq_false_iff_ne]; omega
        simp [c3, c4, pure, Except.pure]

theorem scanSegment_eq (fuel : Nat) (f : Gen.FieldParser) (chunk : Bytes) (out : Gen.Field) :
    Gen.FieldParser_scanSegment fuel f chunk out =
      .ok (match scanSegment f.keepComments chunk with
           | some fld => (true, f, fieldOf fld)
           | none => (false, f, out)) := by
  unfold Gen.FieldParser_scanSegment scanSegment
  simp only [stringsIndexByte_eq, len]
  cases hi : indexByte chunk 58 with
  | none =>
    have c1 : ¬ ((-1 : Int) > 5) := by omega
    simp only [c1, decide_false, Bool.false_eq_true, if_false, beq_self_eq_true, if_true]
    refine Eq.trans (scanSegment_tail fuel f chunk out chunk.length (Nat.le_refl _)) ?_
    simp only [List.take_length, Nat.min_eq_right (Nat.le_succ _), List.drop_length]
    cases hg : getFieldName chunk with
    | some n => simp [trimFirstSpace]
    | none =>
      by_cases hce : chunk = []
      · subst hce; simp
      · have c2 : chunk.isEmpty = false := by simpa using hce
        have c4 : (chunk.length == 0) = false := by
          rw [beq_eq_false_iff_ne]; intro h; exact hce (List.length_eq_zero_iff.mp h)
        simp [c2, c4]
  | some cp =>
    have hlt := indexByte_lt chunk 58 cp hi
    simp only [maxFieldNameLength]
    by_cases h5 : cp > 5
    · have c1 : (((cp : Nat) : Int) > 5) := by omega
      simp [c1, h5, pure, Except.pure]
    · have c1 : ¬ (((cp : Nat) : Int) > 5) := by omega
      have c2 : (((cp : Nat) : Int) == (-1 : Int)) = false := by rw [beq_eq_false_iff_ne]; omega
      simp only [c1, decide_false, Bool.false_eq_true, if_false, c2, h5]
      exact scanSegment_tail fuel f chunk out cp (by omega)

/-- the model state a translated `FieldParser` value stands for (the error is `ErrUnexpectedEOF` or nil) -/
def absFP (f : Gen.FieldParser) : FP :=
  { data := f.data, err := f.err.isSome, started := f.started, keepComments := f.keepComments, removeBOM := f.removeBOM }

theorem doRemoveBOM_eq (fuel : Nat) (f : Gen.FieldParser) :
    ∃ f', Gen.FieldParser_doRemoveBOM fuel f = .ok f' ∧ absFP f' = (absFP f).doRemoveBOM ∧ f'.err = f.err := by
  unfold Gen.FieldParser_doRemoveBOM FP.doRemoveBOM
  by_cases hc : (f.removeBOM && !f.started && bom.isPrefixOf f.data) = true
  · have hp : bom.isPrefixOf f.data = true := by
      simp only [Bool.and_eq_true] at hc; exact hc.2
    have hlen : 3 ≤ f.data.length := by
      have := (List.isPrefixOf_iff_prefix.mp hp).length_le
      simpa [bom] using this
    have hc' : (f.removeBOM && !f.started && stringsHasPrefix f.data ([239, 187, 191] : Bytes)) = true := hc
    have hs : sliceFrom f.data (3 : Int) = .ok (f.data.drop 3) := sliceFrom_ok f.data 3 hlen
    refine ⟨{ f with data := f.data.drop 3, started := true }, ?_, ?_, rfl⟩
    · simp only [hc', if_true, bind, Except.bind, hs, pure, Except.pure]
    · have : ((absFP f).removeBOM && !(absFP f).started && bom.isPrefixOf (absFP f).data) = true := hc
      simp only [this, if_true]
      rfl
  · have hc0 : (f.removeBOM && !f.started && bom.isPrefixOf f.data) = false := Bool.eq_false_iff.mpr hc
    have hc' : (f.removeBOM && !f.started && stringsHasPrefix f.data ([239, 187, 191] : Bytes)) = false := hc0
    refine ⟨f, ?_, ?_, rfl⟩
    · simp only [hc', Bool.false_eq_true, if_false, pure, Except.pure]
    · have : ((absFP f).removeBOM && !(absFP f).started && bom.isPrefixOf (absFP f).data) = false := hc0
      simp only [this, Bool.false_eq_true, if_false]

theorem Reset_eq (fuel : Nat) (f : Gen.FieldParser) (data : Bytes) :
    ∃ f', Gen.FieldParser_Reset fuel f data = .ok f' ∧ absFP f' = (absFP f).reset data ∧ f'.err = none := by
  obtain ⟨f', h1, h2, h3⟩ := doRemoveBOM_eq fuel { f with data := data, err := none, started := false }
  refine ⟨f', ?_, ?_, by rw [h3]⟩
  · unfold Gen.FieldParser_Reset
    simp only [bind, Except.bind, pure, Except.pure]
    rw [h1]
  · rw [h2]; rfl

theorem RemoveBOM_eq (fuel : Nat) (f : Gen.FieldParser) (b : Bool) :
    ∃ f', Gen.FieldParser_RemoveBOM fuel f b = .ok f' ∧ absFP f' = (absFP f).setRemoveBOM b ∧ f'.err = f.err := by
  obtain ⟨f', h1, h2, h3⟩ := doRemoveBOM_eq fuel { f with removeBOM := b }
  refine ⟨f', ?_, ?_, by rw [h3]⟩
  · unfold Gen.FieldParser_RemoveBOM
    simp only [bind, Except.bind, pure, Except.pure]
    rw [h1]
  · rw [h2]; rfl

theorem nextChunk_rem_lt (s : Bytes) (h : (nextChunk s).2.2 = true) : (nextChunk s).2.1.length < s.length := by
  have hb := newlineIndex_bound s
  unfold nextChunk at h ⊢
  simp only [List.length_drop]
  have : (newlineIndex s).2 ≠ 0 := by simpa using h
  omega

/-- what the loop of the translated `FieldParser.Next` leaves, against the model's `FP.next` -/
def NextRes (out : Gen.Field) (res : (Gen.FieldParser × Gen.Field) ⊕ (Bool × Gen.FieldParser × Gen.Field))
    (m : Option Model.Field × FP) : Prop :=
  match m.1 with
  | some fld => ∃ f', res = .inr (true, f', fieldOf fld) ∧ absFP f' = m.2
  | none => ∃ f', (res = .inl (f', out) ∨ res = .inr (false, f', out)) ∧ absFP f' = m.2

/-- one iteration of the loop of the translated `FieldParser.Next` -/
def nextStep (f : Gen.FieldParser) (out : Gen.Field) :
    Step (Gen.FieldParser × Gen.Field) (Bool × Gen.FieldParser × Gen.Field) :=
  if f.data = [] then .brk (f, out) else
  let r := nextChunk f.data
  if !r.2.2 then .ret (false, { f with started := true, err := some "ErrUnexpectedEOF" }, out)
  else match scanSegment f.keepComments r.1 with
    | some fld => .ret (true, { f with started := true, data := r.2.1 }, fieldOf fld)
    | none => .next ({ f with started := true, data := r.2.1 }, out)

theorem Next_loop1_eq (fuel : Nat) (f : Gen.FieldParser) (out : Gen.Field) (hf : f.data.length < fuel) :
    Gen.FieldParser_Next_loop1 fuel (f, out) = .ok (nextStep f out) := by
  unfold Gen.FieldParser_Next_loop1 nextStep
  by_cases hd : f.data = []
  · have c1 : (f.data != ([] : Bytes)) = false := by simp [hd]
    rw [if_pos hd]
    simp only [c1, Bool.false_eq_true, if_false, pure, Except.pure]
  · have c1 : (f.data != ([] : Bytes)) = true := by simpa using hd
    rw [if_neg hd]
    simp only [c1, if_true, bind, Except.bind, NextChunk_eq fuel f.data hf]
    by_cases hnl : (nextChunk f.data).2.2 = true
    · simp only [hnl, Bool.not_true, Bool.false_eq_true, if_false, scanSegment_eq]
      cases hs : scanSegment f.keepComments (nextChunk f.data).1 with
      | some fld => simp only [Bool.not_true, Bool.false_eq_true, if_false, pure, Except.pure]
      | none => simp only [Bool.not_false, if_true, pure, Except.pure]
    · have hnl' : (nextChunk f.data).2.2 = false := by simpa using hnl
      simp only [hnl', Bool.not_false, if_true, pure, Except.pure]

theorem Next_loop_eq (fuel : Nat) :
    ∀ (m n : Nat) (f : Gen.FieldParser) (out : Gen.Field), f.data.length < m → m ≤ n → f.data.length < fuel →
      ∃ res, loopM (Gen.FieldParser_Next_loop1 fuel) n (f, out) = .ok res ∧ NextRes out res (FP.next m (absFP f)) := by
  intro m
  induction m with
  | zero => intro n f out h; omega
  | succ m ih =>
    intro n f out hm hn hf
    obtain ⟨n', rfl⟩ : ∃ n', n = n' + 1 := ⟨n - 1, by omega⟩
    unfold loopM
    rw [Next_loop1_eq fuel f out hf]
    unfold nextStep
    by_cases hd : f.data = []
    · have e : FP.next (m + 1) (absFP f) = (none, absFP f) := by
        unfold FP.next; simp [absFP, hd]
      rw [if_pos hd, e]
      exact ⟨_, rfl, f, Or.inl rfl, rfl⟩
    · have c2 : (absFP f).data.isEmpty = false := by simpa [absFP] using hd
      rw [if_neg hd]
      by_cases hnl : (nextChunk f.data).2.2 = true
      · have hrem := nextChunk_rem_lt f.data hnl
        simp only [hnl, Bool.not_true, Bool.false_eq_true, if_false]
        cases hs : scanSegment f.keepComments (nextChunk f.data).1 with
        | some fld =>
          have e : FP.next (m + 1) (absFP f) =
              (some fld, absFP { f with started := true, data := (nextChunk f.data).2.1 }) := by
            unfold FP.next
            simp only [c2, Bool.false_eq_true, if_false]
            have : (absFP f).data = f.data := rfl
            simp only [this, hnl, Bool.not_true, Bool.false_eq_true, if_false]
            have : (absFP f).keepComments = f.keepComments := rfl
            simp only [this, hs]
            rfl
          rw [e]
          exact ⟨_, rfl, _, rfl, rfl⟩
        | none =>
          have e : FP.next (m + 1) (absFP f) =
              FP.next m (absFP { f with started := true, data := (nextChunk f.data).2.1 }) := by
            conv => lhs; unfold FP.next
            simp only [c2, Bool.false_eq_true, if_false]
            have : (absFP f).data = f.data := rfl
            simp only [this, hnl, Bool.not_true, Bool.false_eq_true, if_false]
            have : (absFP f).keepComments = f.keepComments := rfl
            simp only [this, hs]
            rfl
          rw [e]
          exact ih n' { f with started := true, data := (nextChunk f.data).2.1 } out
            (by show (nextChunk f.data).2.1.length < m; omega) (by omega)
            (by show (nextChunk f.data).2.1.length < fuel; omega)
      · have hnl' : (nextChunk f.data).2.2 = false := by simpa using hnl
        have e : FP.next (m + 1) (absFP f) =
            (none, absFP { f with started := true, err := some "ErrUnexpectedEOF" }) := by
          unfold FP.next
          simp only [c2, Bool.false_eq_true, if_false]
          have : (absFP f).data = f.data := rfl
          simp only [this, hnl', Bool.not_false, if_true]
          rfl
        rw [e]
        simp only [hnl', Bool.not_false, if_true]
        exact ⟨_, rfl, _, Or.inr rfl, rfl⟩

theorem Next_eq (fuel : Nat) (f : Gen.FieldParser) (out : Gen.Field) (hf : f.data.length + 1 < fuel) :
    ∃ f' out' ok, Gen.FieldParser_Next fuel f out = .ok (ok, f', out') ∧
      absFP f' = (FP.next (f.data.length + 1) (absFP f)).2 ∧
      (match (FP.next (f.data.length + 1) (absFP f)).1 with
       | some fld => ok = true ∧ out' = fieldOf fld
       | none => ok = false ∧ out' = out) := by
  obtain ⟨res, hr, hres⟩ := Next_loop_eq fuel (f.data.length + 1) fuel f out (by omega) (by omega) (by omega)
  unfold Gen.FieldParser_Next
  simp only [bind, Except.bind, hr, pure, Except.pure]
  unfold NextRes at hres
  cases hm : (FP.next (f.data.length + 1) (absFP f)).1 with
  | some fld =>
    rw [hm] at hres
    obtain ⟨f', rfl, ha⟩ := hres
    exact ⟨f', _, true, rfl, ha, rfl, rfl⟩
  | none =>
    rw [hm] at hres
    obtain ⟨f', h | h, ha⟩ := hres
    · subst h; exact ⟨f', out, false, rfl, ha, rfl, rfl⟩
    · subst h; exact ⟨f', out, false, rfl, ha, rfl, rfl⟩

end GoSSE.GenEquiv
