import GoSSE.Proofs.ParserRun
/-!
Milestones on the way to the refinement theorem, stated on their own: all fields of one
token, and one `splitFunc` step.
-/
namespace GoSSE.Proofs
open GoSSE GoSSE.Spec GoSSE.Model

/-- `read()` restricted to one token: take fields from the `FieldParser` until it has none -/
def drainFP (conn : Bool) : Nat → FP → RState → List Out → FP × RState × List Out
  | 0, f, st, outs => (f, st, outs)
  | n + 1, f, st, outs =>
    match FP.next (f.data.length + 1) f with
    | (some fld, f') => drainFP conn n f' (readField conn st fld).1 (outs ++ (readField conn st fld).2)
    | (none, f') => (f', st, outs)

theorem drainFP_feed (conn : Bool) (n : Nat) (f : FP) (st : RState) (outs : List Out) (sk : Bool)
    (hk : f.keepComments = false) (hn : f.data.length < n) (hclean : CleanInv st)
    (hsk : sk = true → f.data.head? ≠ some 10) :
    ∃ sk' X, feed conn ⟨toI st, [], sk⟩ f.data =
        (⟨toI (drainFP conn n f st outs).2.1, (drainFP conn n f st outs).1.data.reverse, sk'⟩, X) ∧
      (drainFP conn n f st outs).2.2 = outs ++ X ∧ CleanInv (drainFP conn n f st outs).2.1 ∧
      (drainFP conn n f st outs).1.err = (f.err || !(drainFP conn n f st outs).1.data.isEmpty) := by
  induction n generalizing f st outs sk with
  | zero => omega
  | succ n ih =>
    have hpost := FP_next_feed conn (f.data.length + 1) f st sk hk (by omega) hclean hsk
    rw [drainFP]
    cases hR : FP.next (f.data.length + 1) f with
    | mk o f' =>
    rw [hR] at hpost
    obtain ⟨hkc', _, hpost⟩ := hpost
    cases o with
    | some fld =>
      obtain ⟨C, sk1, h1, h2, h3, h4, h5, h6, h7⟩ := hpost
      simp only at h1 h3 h5 hkc' ⊢
      have hlen : f'.data.length < n := by
        have := congrArg List.length h1
        have := List.length_pos_iff.2 h7
        simp only [List.length_append] at *; omega
      obtain ⟨sk', X, e1, e2, e3, e4⟩ := ih f' (readField conn st fld).1 (outs ++ (readField conn st fld).2) sk1
        (hkc'.trans hk) hlen h4 h3
      refine ⟨sk', (readField conn st fld).2 ++ X, ?_, by rw [e2, List.append_assoc], e3, by rw [e4, h5]⟩
      rw [h1, feed_append, h2, e1]
    | none =>
      obtain ⟨sk1, h1, h2, h3, h4⟩ := hpost
      simp only at h1 h3 ⊢
      exact ⟨sk1, [], h1, by simp, hclean, h3⟩

/-- all fields of one token -/
theorem token_fields (conn : Bool) (tok : Bytes) (st : RState) (h : CleanInv st) :
    let r := drainFP conn (tok.length + 1) { data := tok } st []
    let sp := splitLines tok [] false
    interp .gosse conn (toI st) sp.1 = (toI r.2.1, r.2.2) ∧ r.1.err = !sp.2.isEmpty := by
  intro r sp
  obtain ⟨sk', X, e1, e2, _, e4⟩ := drainFP_feed conn (tok.length + 1) { data := tok } st [] false rfl
    (by simp) h (by simp)
  obtain ⟨f1, f2, f3⟩ := feed_spec conn ⟨toI st, [], false⟩ tok
  simp only at e1 f1 f2 f3
  rw [e1] at f1 f2 f3
  simp only at f1 f2 f3
  simp only [List.nil_append] at e2
  refine ⟨?_, ?_⟩
  · apply Prod.ext
    · exact f2.symm
    · show _ = r.2.2; rw [← f1]; exact e2.symm
  · show r.1.err = _
    rw [e4]
    have : sp.2 = r.1.data := by
      have := congrArg List.reverse f3
      simpa using this.symm
    rw [this]; rfl

/-- one successful `splitFunc` call that is not at the end of the input -/
theorem token_step (conn : Bool) (data : Bytes) (adv : Nat) (tok : Bytes) (st : RState) (sk : Bool)
    (hsplit : splitFunc data false = (adv, some tok)) (h : CleanInv st) (hb : Boundary (toI st)) :
    let r := drainFP conn (tok.length + 1) { data := tok } st []
    let sp := splitLines (data.take adv) [] sk
    interp .gosse conn (toI st) sp.1 = (toI r.2.1, r.2.2) ∧ sp.2 = [] ∧
    Boundary (toI r.2.1) ∧ r.1.err = false ∧ adv ≤ data.length := by
  intro r sp
  obtain ⟨B, hD, hB, hadv, hpos, hhead, hshape⟩ := tok_shape data false adv tok hsplit
  have htake : data.take adv = B ++ tok := by
    have : data = (B ++ tok) ++ data.drop adv := hD
    exact take_of_split data (B ++ tok) _ adv this (by simp [hadv])
  obtain ⟨sk2, hbl⟩ := feed_blanks conn (toI st) sk B hb hB
  have hsk2 : sk2 = true → tok.head? ≠ some 10 := by
    intro _ h10
    have := hhead 10 h10
    simp [isNl] at this
  obtain ⟨sk', X, e1, e2, _, e4⟩ := drainFP_feed conn (tok.length + 1) { data := tok } st [] sk2 rfl
    (by simp) h hsk2
  simp only at e1 e4
  simp only [List.nil_append] at e2
  rcases hshape with ⟨T, nl, rest, ht, hl, hcr, hnl⟩ | ⟨he, _⟩
  · have hbd := feed_token_boundary conn ⟨toI st, [], sk2⟩ T nl rest (by simp [M.WF]) hl hcr hnl
    rw [← ht, e1] at hbd
    simp only [List.reverse_eq_nil_iff] at hbd
    obtain ⟨hacc, hbound⟩ := hbd
    have hfeed : feed conn ⟨toI st, [], sk⟩ (B ++ tok) = (⟨toI r.2.1, [], sk'⟩, X) := by
      rw [feed_append, hbl]; simp only [List.nil_append]; rw [e1, hacc]; rfl
    obtain ⟨f1, f2, f3⟩ := feed_spec conn ⟨toI st, [], sk⟩ (B ++ tok)
    rw [hfeed] at f1 f2 f3
    simp only at f1 f2 f3
    have hle : adv ≤ data.length := by
      have := congrArg List.length hD
      simp only [List.length_append] at this; omega
    refine ⟨?_, ?_, hbound, ?_, hle⟩
    · show interp .gosse conn (toI st) (splitLines (data.take adv) [] sk).1 = _
      rw [htake]
      apply Prod.ext
      · exact f2.symm
      · show _ = r.2.2; rw [← f1]; exact e2.symm
    · show (splitLines (data.take adv) [] sk).2 = []
      rw [htake]
      have := congrArg List.reverse f3
      simpa using this.symm
    · show r.1.err = false
      rw [e4, hacc]; rfl
  · simp at he

end GoSSE.Proofs
