import GoSSE.Proofs.Session
/-!
Helper lemmas for C16, second part: the exact forms of one `Send` / `Flush`, what they mean for
the body and the specification's per-call predicates, and `getResponseWriter` / `Upgrade` /
`ServeHTTP` against the specification's functions.
-/
namespace GoSSE.Proofs.Session
open GoSSE GoSSE.Model.Session GoSSE.Model.Server GoSSE.Spec.HttpLog

/-! ### exact forms -/

/-- everything one `Flush` can do: a single flush of the writer, preceded by the header
assignment when the session was not upgraded — never two flushes -/
theorem flush_cases (sched : Sched) (s : Session) (c : Nat) :
    ∃ e, e = (wFlush sched s.res.lvl s.res.kind c).2 ∧ (step sched s c .flush).err = e ∧
      ((s.didUpgrade = true ∧ (step sched s c .flush).evs = [.flush s.res.lvl s.res.kind e]) ∨
       (s.didUpgrade = false ∧ (step sched s c .flush).evs = [upgradeHeader s.res, .flush s.res.lvl s.res.kind e])) := by
  refine ⟨_, rfl, ?_⟩
  rcases doUpgrade_cases sched s c with ⟨hd, hu⟩ | ⟨hd, e, he, hu⟩
  · simp [step, flush, hu, hd, wFlush_ev]
  · subst he
    cases h : (wFlush sched s.res.lvl s.res.kind c).2 with
    | some k => rw [h] at hu; simp [step, flush, hu, hd]
    | none => rw [h] at hu; simp [step, flush, hu, hd]

/-- everything one `Send` can do -/
theorem send_cases (sched : Sched) (s : Session) (c : Nat) (m : Msg) :
    (s.didUpgrade = true ∧
      (step sched s c (.send m)).evs = (writeAll sched s.res.lvl c (encodeWrites m)).evs ∧
      (step sched s c (.send m)).err = (writeAll sched s.res.lvl c (encodeWrites m)).err) ∨
    (s.didUpgrade = false ∧ ∃ k,
      (step sched s c (.send m)).evs = [upgradeHeader s.res, .flush s.res.lvl s.res.kind (some k)] ∧
      (step sched s c (.send m)).err = some k) ∨
    (s.didUpgrade = false ∧
      (step sched s c (.send m)).evs = [upgradeHeader s.res, .flush s.res.lvl s.res.kind none]
        ++ (writeAll sched s.res.lvl (c + 1) (encodeWrites m)).evs ∧
      (step sched s c (.send m)).err = (writeAll sched s.res.lvl (c + 1) (encodeWrites m)).err) := by
  rcases doUpgrade_cases sched s c with ⟨hd, hu⟩ | ⟨hd, e, he, hu⟩
  · left; simp [step, send, hu, hd]
  · cases e with
    | some k => right; left; exact ⟨hd, k, by simp [step, send, hu], by simp [step, send, hu]⟩
    | none => right; right; exact ⟨hd, by simp [step, send, hu], by simp [step, send, hu]⟩

theorem bodyOf_upgrade_pair (res : Res) (e : Option Nat) :
    bodyOf [upgradeHeader res, .flush res.lvl res.kind e] = [] := by
  simp [bodyOf, upgradeHeader, Ev.body]

/-- What one call contributed to the response body. `Flush`: nothing. `Send m` that returned nil:
exactly `encode m`. `Send m` that returned the error of writer call `k`: nothing was written at all
(the failing call was the upgrade flush), or the failing call was the `j`-th `Write` of the message:
then the writes before it in full and the first `n` bytes of that one, `n` as the schedule says. -/
def Contribution (sched : Sched) (e : Entry) : Prop :=
  match e.op with
  | .flush => bodyOf e.evs = []
  | .send m =>
    (e.ret = none ∧ bodyOf e.evs = encode m) ∨
    (∃ k, e.ret = some k ∧
      ((∀ x ∈ e.evs, x.isWrite = false) ∧ bodyOf e.evs = [] ∨
       ∃ j p n, (encodeWrites m)[j]? = some p ∧ sched k = some n ∧
         bodyOf e.evs = ((encodeWrites m).take j).flatten ++ p.take n))

theorem step_contribution (sched : Sched) (s : Session) (c : Nat) (op : Op) :
    Contribution sched ⟨op, (step sched s c op).evs, (step sched s c op).err⟩ := by
  cases op with
  | flush =>
    obtain ⟨e, _, _, h | h⟩ := flush_cases sched s c <;>
      simp [Contribution, h.2, bodyOf, Ev.body, upgradeHeader]
  | send m =>
    simp only [Contribution]
    rcases send_cases sched s c m with ⟨_, h1, h2⟩ | ⟨_, k, h1, h2⟩ | ⟨_, h1, h2⟩
    · rw [h1, h2]
      rcases writeAll_body sched s.res.lvl (encodeWrites m) c with ⟨h3, h4⟩ | ⟨j, p, n, h3, h4, h5, h6⟩
      · left; exact ⟨h3, h4⟩
      · right; exact ⟨c + j, h5, Or.inr ⟨j, p, n, h3, h4, h6⟩⟩
    · right
      refine ⟨k, h2, Or.inl ⟨?_, ?_⟩⟩
      · rw [h1]; intro x hx; simp at hx; rcases hx with h | h <;> subst h <;> rfl
      · rw [h1]; exact bodyOf_upgrade_pair ..
    · rw [h1, h2, bodyOf_append, bodyOf_upgrade_pair, List.nil_append]
      rcases writeAll_body sched s.res.lvl (encodeWrites m) (c + 1) with ⟨h3, h4⟩ | ⟨j, p, n, h3, h4, h5, h6⟩
      · left; exact ⟨h3, h4⟩
      · right; exact ⟨c + 1 + j, h5, Or.inr ⟨j, p, n, h3, h4, h6⟩⟩

theorem Contribution.prefix {sched : Sched} {e : Entry} {m : Msg} (h : Contribution sched e) (hop : e.op = .send m) :
    bodyOf e.evs <+: encode m := by
  simp only [Contribution, hop] at h
  rcases h with ⟨_, h⟩ | ⟨k, _, ⟨_, h⟩ | ⟨j, p, n, h1, _, h2⟩⟩
  · rw [h]; exact List.prefix_refl _
  · rw [h]; exact List.nil_prefix
  · rw [h2]; exact take_flatten_prefix _ _ _ _ h1

/-- the messages of the `Send` calls -/
def sentMsgs : List Op → List Msg
  | [] => []
  | .send m :: t => m :: sentMsgs t
  | .flush :: t => sentMsgs t

theorem body_all_ok (sched : Sched) (obs : List Entry) (hc : ∀ e ∈ obs, Contribution sched e)
    (hr : ∀ e ∈ obs, e.ret = none) :
    (obs.map fun e => bodyOf e.evs).flatten = (sentMsgs (obs.map (·.op))).flatMap encode := by
  induction obs with
  | nil => rfl
  | cons e t ih =>
    have h1 := hc e (by simp)
    have h2 := hr e (by simp)
    have ih' := ih (fun x hx => hc x (by simp [hx])) (fun x hx => hr x (by simp [hx]))
    simp only [List.map_cons, List.flatten_cons]
    cases hop : e.op with
    | flush =>
      simp only [Contribution, hop] at h1
      simp [sentMsgs, h1, ih']
    | send m =>
      simp only [Contribution, hop, h2] at h1
      rcases h1 with ⟨_, h⟩ | ⟨k, h, _⟩
      · simp [sentMsgs, h, ih']
      · cases h

/-- a property of single calls that mentions the session's writer holds for every entry of a run -/
theorem forall_entries_res (sched : Sched) (P : Res → Entry → Prop)
    (h : ∀ s c op, P s.res ⟨op, (step sched s c op).evs, (step sched s c op).err⟩)
    (s : Session) (c : Nat) (ops : List Op) : ∀ e ∈ (runOps sched s c ops).obs, P s.res e := by
  induction ops generalizing s c with
  | nil => simp [runOps]
  | cons op ops ih =>
    simp only [runOps, List.mem_cons, forall_eq_or_imp]
    refine ⟨h s c op, ?_⟩
    have := ih (step sched s c op).s (step sched s c op).calls
    rw [(step_facts sched s c op).res] at this
    exact this

/-- before the stream has started only header assignments and failed flushes happen -/
theorem not_upgraded_yet (res : Res) (evs : List Ev) (p q : Phase) (h : phases res p evs = some q)
    (hq : q ≠ .upgraded) :
    p ≠ .upgraded ∧ ∀ e ∈ evs, e.isHeaderSet = true ∨ ∃ l k j, e = .flush l k (some j) := by
  induction evs generalizing p with
  | nil => simp [phases] at h; subst h; exact ⟨hq, by simp⟩
  | cons e t ih =>
    rw [phases_cons] at h
    cases hs : stepPhase res p e with
    | none => simp [hs] at h
    | some r =>
      rw [hs, Option.bind_some] at h
      obtain ⟨h1, h2⟩ := ih r h
      have : p ≠ .upgraded ∧ (e.isHeaderSet = true ∨ ∃ l k j, e = .flush l k (some j)) := by
        cases p with
        | upgraded =>
          exfalso
          have : r = .upgraded := by
            cases e <;> simp [stepPhase] at hs <;> simp_all
          exact h1 this
        | fresh =>
          cases e <;> simp [stepPhase] at hs
          exact ⟨by simp, Or.inl rfl⟩
        | headerSet =>
          cases e <;> simp [stepPhase] at hs
          rename_i l k err
          cases err with
          | none => simp at hs; exact absurd hs.2.symm h1
          | some j => exact ⟨by simp, Or.inr ⟨_, _, j, rfl⟩⟩
      exact ⟨this.1, by intro x hx; rcases List.mem_cons.mp hx with hx | hx; (rw [hx]; exact this.2); exact h2 x hx⟩

/-! ### the specification's per-call predicates hold for every call -/

theorem step_retOK (sched : Sched) (s : Session) (c : Nat) (op : Op) :
    retOK ⟨op, (step sched s c op).evs, (step sched s c op).err⟩ = true := by
  simp [retOK, (step_facts sched s c op).good.firstErr]

theorem step_bodyOK (sched : Sched) (s : Session) (c : Nat) (op : Op) :
    bodyOK ⟨op, (step sched s c op).evs, (step sched s c op).err⟩ = true := by
  have hc := step_contribution sched s c op
  cases op with
  | flush => simpa [bodyOK, Contribution] using hc
  | send m =>
    cases hr : (step sched s c (.send m)).err with
    | none =>
      simp only [Contribution, hr] at hc
      rcases hc with ⟨_, h⟩ | ⟨k, h, _⟩
      · simp [bodyOK, h]
      · cases h
    | some k =>
      have := hc.prefix rfl
      simp [bodyOK, List.isPrefixOf_iff_prefix, this]

theorem step_flushOK (sched : Sched) (s : Session) (c : Nat) (op : Op) :
    flushOK ⟨op, (step sched s c op).evs, (step sched s c op).err⟩ = true := by
  cases op with
  | send m => rfl
  | flush =>
    obtain ⟨e, _, h1, ⟨_, h2⟩ | ⟨_, h2⟩⟩ := flush_cases sched s c <;>
      cases e <;> simp [flushOK, h1, h2, List.filter, Ev.isFlush, upgradeHeader, isOkFlush]

theorem all_of_forall {α} (l : List α) (p : α → Bool) (h : ∀ x ∈ l, p x = true) : l.all p = true := by
  simpa using h

/-! ### `getResponseWriter`, `Upgrade` -/

theorem pick_eq (c : Caps) :
    c.pick = if canFlush c then some (if reportsErrors c then .flushError else .flusher) else none := by
  cases c <;> rfl

theorem resolve_cons (c : Caps) (ls : List Caps) :
    resolve (c :: ls) = if canFlush c then some ⟨0, if reportsErrors c then .flushError else .flusher⟩
      else (resolve ls).map fun r => ⟨r.lvl + 1, r.kind⟩ := by
  by_cases h : canFlush c
  · simp [resolve, h, List.findIdx?_cons]
  · simp only [resolve, List.find?_cons, h, List.findIdx?_cons, Bool.false_eq_true, if_false]
    cases h1 : ls.find? canFlush <;> cases h2 : ls.findIdx? canFlush <;> simp

theorem getResponseWriter_resolve (shape : Shape) (lvl : Nat) :
    getResponseWriter shape lvl = (resolve (layers shape)).map fun r => ⟨r.lvl + lvl, r.kind⟩ := by
  induction shape generalizing lvl with
  | base c =>
    simp only [getResponseWriter, layers, resolve_cons, pick_eq]
    by_cases h : canFlush c <;> simp [h, resolve]
  | wrapped c inner ih =>
    simp only [getResponseWriter, layers, resolve_cons, pick_eq]
    by_cases h : canFlush c
    · simp [h]
    · simp only [h, Bool.false_eq_true, if_false, ih]
      cases resolve (layers inner) <;> simp [Nat.add_assoc, Nat.add_comm 1 lvl]

theorem lookup_eq_find (h : Header) (k : Bytes) :
    h.lookup k = (h.find? fun kv => kv.1 == k).map (·.2) := by
  induction h with
  | nil => rfl
  | cons kv t ih =>
    obtain ⟨a, b⟩ := kv
    simp only [List.lookup_cons, List.find?_cons]
    by_cases hk : k = a
    · subst hk; simp
    · have h1 : (k == a) = false := by simpa using hk
      have h2 : (a == k) = false := by simpa using fun h => hk h.symm
      simp [h1, h2, ih]

theorem isSingleLine_eq (v : Bytes) : isSingleLine v = !hasNewline v := by
  induction v with
  | nil => rfl
  | cons b t ih =>
    have ih' : (t.all fun b => !isNl b) = !(t.contains 10 || t.contains 13) := ih
    simp only [isSingleLine, List.all_cons, hasNewline, List.contains_cons]
    rw [ih']
    simp only [isNl, Bool.beq_comm (a := (10 : UInt8)), Bool.beq_comm (a := (13 : UInt8))]
    cases b == 10 <;> cases b == 13 <;> cases t.contains 10 <;> cases t.contains 13 <;> rfl

theorem lastEventIDOf_eq (h : Header) : lastEventIDOf h = expectedLastEventID h := by
  simp only [lastEventIDOf, expectedLastEventID, lookup_eq_find]
  cases hf : h.find? (fun kv => kv.1 == headerLastEventID) with
  | none => rfl
  | some kv =>
    obtain ⟨k, vs⟩ := kv
    cases vs with
    | nil => rfl
    | cons v t =>
      simp only [Option.map_some, newID, isSingleLine_eq]
      cases he : v.isEmpty <;> cases hn : hasNewline v <;> rfl

end GoSSE.Proofs.Session
