import GoSSE.Spec.Message
import GoSSE.Proofs.Lines
/-!
Helper lemmas about `appendText`: its chunks are exactly the lines of the WHATWG splitter, and
each is free of CR and LF.
-/
namespace GoSSE.Proofs
open GoSSE GoSSE.Spec GoSSE.Model

/-- no byte of `s` is a CR or LF -/
def NlFree (s : Bytes) : Prop := ∀ b ∈ s, isNl b = false

theorem nlFree_nil : NlFree [] := by intro b h; cases h

theorem nlFree_cons {b : Byte} {s : Bytes} : NlFree (b :: s) ↔ isNl b = false ∧ NlFree s := by
  simp [NlFree]

theorem nlFree_append {s t : Bytes} : NlFree (s ++ t) ↔ NlFree s ∧ NlFree t := by
  simp only [NlFree, List.mem_append]
  constructor
  · intro h; exact ⟨fun b hb => h b (Or.inl hb), fun b hb => h b (Or.inr hb)⟩
  · intro h b hb; cases hb with
    | inl hb => exact h.1 b hb
    | inr hb => exact h.2 b hb

theorem hasNewline_eq_false {s : Bytes} : hasNewline s = false ↔ NlFree s := by
  simp only [hasNewline, NlFree, isNl, List.any_eq_false]
  constructor
  · intro h b hb; have := h b hb; simpa using this
  · intro h b hb; have := h b hb; simpa using this

/-- the prefix before the first newline sequence has no CR/LF -/
theorem newlineIndex_take_nlFree (s : Bytes) : NlFree (s.take (newlineIndex s).1) := by
  induction s with
  | nil => simp [newlineIndex, NlFree]
  | cons b t ih =>
    unfold newlineIndex
    by_cases h : isNl b = true
    · simp [h, NlFree]
    · simp only [h, Bool.false_eq_true, if_false, List.take_succ_cons]
      rw [nlFree_cons]
      exact ⟨by simpa using h, ih⟩

/-- no newline sequence found: the index is the length and the string has no CR/LF -/
theorem newlineIndex_none (s : Bytes) (h : (newlineIndex s).2 = 0) :
    (newlineIndex s).1 = s.length ∧ NlFree s := by
  induction s with
  | nil => simp [newlineIndex, NlFree]
  | cons b t ih =>
    unfold newlineIndex at h ⊢
    by_cases hb : isNl b = true
    · simp only [hb, if_true] at h
      split at h <;> omega
    · simp only [hb, Bool.false_eq_true, if_false] at h ⊢
      have := ih h
      exact ⟨by simp [this.1], nlFree_cons.2 ⟨by simpa using hb, this.2⟩⟩

theorem newlineIndex_of_nlFree (s : Bytes) (h : NlFree s) : newlineIndex s = (s.length, 0) := by
  induction s with
  | nil => simp [newlineIndex]
  | cons b t ih =>
    have hb := (nlFree_cons.1 h).1
    unfold newlineIndex
    simp [hb, ih (nlFree_cons.1 h).2]

theorem isSingleLine_iff (s : Bytes) : isSingleLine s = true ↔ NlFree s := by
  unfold isSingleLine
  constructor
  · intro h; exact (newlineIndex_none s (by simpa using h)).2
  · intro h; simp [newlineIndex_of_nlFree s h]

theorem newlineIndex_pos_of_nonempty (s : Bytes) (h : s ≠ []) :
    0 < (newlineIndex s).1 + (newlineIndex s).2 := by
  cases s with
  | nil => exact absurd rfl h
  | cons b t =>
    unfold newlineIndex
    by_cases hb : isNl b = true
    · simp only [hb, if_true]; split <;> omega
    · simp only [hb, Bool.false_eq_true, if_false]; omega

/-- `linesOf` unfolded along `NewlineIndex` -/
theorem linesOf_unfold (s : Bytes) :
    linesOf s =
      if (newlineIndex s).2 = 0 then (if s.isEmpty then [] else [s])
      else s.take (newlineIndex s).1 :: linesOf (s.drop ((newlineIndex s).1 + (newlineIndex s).2)) := by
  unfold linesOf
  rw [splitLines_acc s []]
  by_cases h : (newlineIndex s).2 = 0
  · simp only [h, if_true, List.reverse_nil, List.nil_append]
  · simp only [h, if_false, List.reverse_nil, List.nil_append]
    split <;> simp

/-- `appendText`'s inner loop appends exactly the lines of `c` -/
theorem appendLoop_eq (ic : Bool) (f : Nat) (c : Bytes) (cs : List Chunk) (h : c.length ≤ f) :
    appendLoop ic f c cs = cs ++ (linesOf c).map (fun l => ⟨l, ic⟩) := by
  induction f generalizing c cs with
  | zero =>
    have : c = [] := List.eq_nil_of_length_eq_zero (by omega)
    subst this
    simp [appendLoop, linesOf, splitLines]
  | succ f ih =>
    unfold appendLoop
    cases c with
    | nil => simp [linesOf, splitLines]
    | cons b t =>
      simp only [List.isEmpty_cons, Bool.false_eq_true, if_false, nextChunk]
      rw [linesOf_unfold (b :: t)]
      have hle := newlineIndex_le (b :: t)
      have hpos := newlineIndex_pos_of_nonempty (b :: t) (by simp)
      have hlen : ((b :: t).drop ((newlineIndex (b :: t)).1 + (newlineIndex (b :: t)).2)).length ≤ f := by
        simp only [List.length_drop]; simp only [List.length_cons] at h hle ⊢; omega
      rw [ih _ _ hlen]
      by_cases hz : (newlineIndex (b :: t)).2 = 0
      · have hn := newlineIndex_none (b :: t) hz
        simp only [hz, if_true, List.isEmpty_cons, Bool.false_eq_true, if_false, Nat.add_zero, hn.1]
        simp [linesOf, splitLines]
      · simp [hz]

/-- every line of `linesOf` is free of CR and LF -/
theorem linesOf_nlFree (s : Bytes) : ∀ l ∈ linesOf s, NlFree l := by
  -- strong induction on the length through a fuel argument
  suffices h : ∀ n (s : Bytes), s.length ≤ n → ∀ l ∈ linesOf s, NlFree l from h s.length s (Nat.le_refl _)
  intro n
  induction n with
  | zero =>
    intro s hs l hl
    have : s = [] := List.eq_nil_of_length_eq_zero (by omega)
    subst this
    simp [linesOf, splitLines] at hl
  | succ n ih =>
    intro s hs l hl
    rw [linesOf_unfold] at hl
    by_cases hz : (newlineIndex s).2 = 0
    · simp only [hz, if_true] at hl
      cases s with
      | nil => simp at hl
      | cons b t =>
        simp at hl; subst hl
        exact (newlineIndex_none _ hz).2
    · simp only [hz, if_false, List.mem_cons] at hl
      cases hl with
      | inl hl => subst hl; exact newlineIndex_take_nlFree s
      | inr hl =>
        have hle := newlineIndex_le s
        have hpos : 0 < (newlineIndex s).1 + (newlineIndex s).2 := by omega
        refine ih _ ?_ l hl
        simp only [List.length_drop]; omega

end GoSSE.Proofs
