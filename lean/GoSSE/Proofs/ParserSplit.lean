import GoSSE.Proofs.Lines
/-!
Structure of `NewlineIndex`, of the loop of `splitFunc`, and of the token `splitFunc` returns.
-/
namespace GoSSE.Proofs
open GoSSE GoSSE.Spec GoSSE.Model

/-- no CR/LF in the string -/
def NoNl (l : Bytes) : Prop := ∀ b ∈ l, isNl b = false

theorem isNl_10 : isNl 10 = true := by decide
theorem isNl_13 : isNl 13 = true := by decide

theorem isNl_false_iff (b : Byte) : isNl b = false ↔ b ≠ 10 ∧ b ≠ 13 := by
  simp [isNl]

theorem isNl_true_iff (b : Byte) : isNl b = true ↔ b = 10 ∨ b = 13 := by
  simp [isNl]

/-- what `NewlineIndex` finds -/
inductive NlCase (s : Bytes) : Prop
  | none (h : NoNl s) (e : newlineIndex s = (s.length, 0))
  | lf (l t : Bytes) (hs : s = l ++ 10 :: t) (h : NoNl l) (e : newlineIndex s = (l.length, 1))
  | crlf (l t : Bytes) (hs : s = l ++ 13 :: 10 :: t) (h : NoNl l) (e : newlineIndex s = (l.length, 2))
  | cr (l t : Bytes) (hs : s = l ++ 13 :: t) (ht : t.head? ≠ some 10) (h : NoNl l) (e : newlineIndex s = (l.length, 1))

theorem newlineIndex_cases (s : Bytes) : NlCase s := by
  induction s with
  | nil => exact .none (by simp [NoNl]) (by simp [newlineIndex])
  | cons b t ih =>
    by_cases hb : isNl b = true
    · rcases (isNl_true_iff b).1 hb with h | h
      · subst h
        exact .lf [] t (by simp) (by simp [NoNl]) (by simp [newlineIndex, isNl])
      · subst h
        cases t with
        | nil => exact .cr [] [] (by simp) (by simp) (by simp [NoNl]) (by simp [newlineIndex, isNl])
        | cons c t' =>
          by_cases hc : c = 10
          · subst hc
            exact .crlf [] t' (by simp) (by simp [NoNl]) (by simp [newlineIndex, isNl])
          · exact .cr [] (c :: t') (by simp) (by simp [hc]) (by simp [NoNl]) (by simp [newlineIndex, isNl, hc])
    · have hb' : isNl b = false := by simpa using hb
      have hcons : ∀ l, NoNl l → NoNl (b :: l) := by
        intro l hl x hx
        rcases List.mem_cons.1 hx with h | h
        · subst h; exact hb'
        · exact hl x h
      cases ih with
      | none h e => exact .none (hcons _ h) (by simp [newlineIndex, hb', e])
      | lf l t' hs h e => exact .lf (b :: l) t' (by simp [hs]) (hcons _ h) (by simp [newlineIndex, hb', e])
      | crlf l t' hs h e => exact .crlf (b :: l) t' (by simp [hs]) (hcons _ h) (by simp [newlineIndex, hb', e])
      | cr l t' hs ht h e => exact .cr (b :: l) t' (by simp [hs]) ht (hcons _ h) (by simp [newlineIndex, hb', e])
def AllNl (l : Bytes) : Prop := ∀ b ∈ l, isNl b = true
def HeadNotNl (l : Bytes) : Prop := ∀ b, l.head? = some b → isNl b = false
def HeadIsNl (l : Bytes) : Prop := ∃ b, l.head? = some b ∧ isNl b = true
def LastIsNl (l : Bytes) : Prop := ∃ b, l.getLast? = some b ∧ isNl b = true

/-- a line terminator as `NewlineIndex` delimits it, followed by `t` -/
def IsTerm (term t : Bytes) : Prop := term = [10] ∨ term = [13, 10] ∨ (term = [13] ∧ t.head? ≠ some 10)

theorem IsTerm.ne_nil {term t} (h : IsTerm term t) : term ≠ [] := by
  rcases h with h | h | ⟨h, _⟩ <;> simp [h]
theorem IsTerm.allNl {term t} (h : IsTerm term t) : AllNl term := by
  rcases h with h | h | ⟨h, _⟩ <;> subst h <;> intro b hb <;> simp at hb <;> rcases hb with rfl | rfl <;> decide
theorem IsTerm.lastIsNl {term t} (h : IsTerm term t) (p : Bytes) : LastIsNl (p ++ term) := by
  rcases h with h | h | ⟨h, _⟩ <;> subst h
  · exact ⟨10, by simp, by decide⟩
  · exact ⟨10, by simp, by decide⟩
  · exact ⟨13, by simp, by decide⟩
theorem IsTerm.last_cr {term t} (h : IsTerm term t) (p : Bytes) (hl : (p ++ term).getLast? = some 13) :
    t.head? ≠ some 10 := by
  rcases h with h | h | ⟨h, ht⟩ <;> subst h
  · simp at hl
  · simp at hl
  · exact ht
theorem IsTerm.pos {term t} (h : IsTerm term t) : 0 < term.length := by
  rcases h with h | h | ⟨h, _⟩ <;> simp [h]

theorem nl_split (s : Bytes) :
    (NoNl s ∧ newlineIndex s = (s.length, 0)) ∨
    ∃ l term t, s = l ++ term ++ t ∧ NoNl l ∧ IsTerm term t ∧ newlineIndex s = (l.length, term.length) := by
  cases newlineIndex_cases s with
  | none h e => exact .inl ⟨h, e⟩
  | lf l t hs h e => exact .inr ⟨l, [10], t, by simp [hs], h, .inl rfl, e⟩
  | crlf l t hs h e => exact .inr ⟨l, [13, 10], t, by simp [hs], h, .inr (.inl rfl), e⟩
  | cr l t hs ht h e => exact .inr ⟨l, [13], t, by simp [hs], h, .inr (.inr ⟨rfl, ht⟩), e⟩

theorem NoNl.headNotNl {l : Bytes} (h : NoNl l) : HeadNotNl l := by
  intro b hb
  cases l with
  | nil => simp at hb
  | cons c t => simp at hb; subst hb; exact h _ (by simp)

/-! ### lexical event boundaries -/

/-- Length of the first *piece* of a stream: blank lines, then the non-blank lines of an event,
then the terminator of the blank line that closes it (a CRLF counts in full); `none` if the
stream holds no complete piece. A byte-at-a-time scanner; states: `0` in the leading blank
lines, `1` inside a non-blank line, `2` at the start of a line after a non-blank line, `3` the
same but the terminator was a lone CR so far (an LF would still belong to it). -/
def pieceLen : Bytes → Nat → Option Nat
  | [], _ => none
  | b :: t, 0 => if isNl b then (pieceLen t 0).map (· + 1) else (pieceLen t 1).map (· + 1)
  | b :: t, 1 =>
    if b == 10 then (pieceLen t 2).map (· + 1)
    else if b == 13 then (pieceLen t 3).map (· + 1)
    else (pieceLen t 1).map (· + 1)
  | b :: t, 2 =>
    if b == 10 then some 1
    else if b == 13 then some (if t.head? == some 10 then 2 else 1)
    else (pieceLen t 1).map (· + 1)
  | b :: t, _ + 3 =>
    if b == 10 then (pieceLen t 2).map (· + 1)
    else if b == 13 then some (if t.head? == some 10 then 2 else 1)
    else (pieceLen t 1).map (· + 1)

theorem omap_add (x : Option Nat) (a b : Nat) : (x.map (· + a)).map (· + b) = x.map (· + (a + b)) := by
  cases x <;> simp [Nat.add_assoc]

theorem omap_zero (x : Option Nat) : x.map (· + 0) = x := by cases x <;> simp

theorem omap_pos (x : Option Nat) (n : Nat) (h : x.map (· + 1) = some n) : 0 < n := by
  cases x with
  | none => simp at h
  | some v => simp at h; omega

theorem pieceLen_pos (Y : Bytes) (σ n : Nat) (h : pieceLen Y σ = some n) : 0 < n := by
  cases Y with
  | nil => simp [pieceLen] at h
  | cons b t =>
    match σ with
    | 0 => rw [pieceLen] at h; split at h <;> exact omap_pos _ _ h
    | 1 =>
      rw [pieceLen] at h
      split at h
      · exact omap_pos _ _ h
      · split at h <;> exact omap_pos _ _ h
    | 2 =>
      rw [pieceLen] at h
      split at h
      · simp at h; omega
      · split at h
        · simp at h; split at h <;> omega
        · exact omap_pos _ _ h
    | k + 3 =>
      rw [pieceLen] at h
      split at h
      · exact omap_pos _ _ h
      · split at h
        · simp at h; split at h <;> omega
        · exact omap_pos _ _ h

/-- blank lines before the event -/
theorem pieceLen_blanks (B Y : Bytes) (hB : AllNl B) : pieceLen (B ++ Y) 0 = (pieceLen Y 0).map (· + B.length) := by
  induction B with
  | nil => simp
  | cons b t ih =>
    have hb : isNl b = true := hB b (by simp)
    have ht : AllNl t := fun x hx => hB x (by simp [hx])
    simp only [List.cons_append, pieceLen, hb, if_true, ih ht, omap_add, List.length_cons]

/-- inside a line -/
theorem pieceLen_line (l Y : Bytes) (hl : NoNl l) : pieceLen (l ++ Y) 1 = (pieceLen Y 1).map (· + l.length) := by
  induction l with
  | nil => simp
  | cons b t ih =>
    obtain ⟨h10, h13⟩ := (isNl_false_iff b).1 (hl b (by simp))
    have ht : NoNl t := fun x hx => hl x (by simp [hx])
    simp only [List.cons_append, pieceLen, beq_iff_eq, h10, h13, if_false, ih ht, omap_add, List.length_cons]

/-- a non-blank line starts -/
theorem pieceLen_line_start (l Y : Bytes) (σ : Nat) (hσ : σ ≠ 1) (hl : NoNl l) (hl0 : l ≠ []) :
    pieceLen (l ++ Y) σ = (pieceLen Y 1).map (· + l.length) := by
  cases l with
  | nil => exact absurd rfl hl0
  | cons b t =>
    obtain ⟨h10, h13⟩ := (isNl_false_iff b).1 (hl b (by simp))
    have hb : isNl b = false := hl b (by simp)
    have ht : NoNl t := fun x hx => hl x (by simp [hx])
    have key : pieceLen (b :: (t ++ Y)) σ = (pieceLen (t ++ Y) 1).map (· + 1) := by
      match σ, hσ with
      | 0, _ => simp [pieceLen, hb]
      | 2, _ => simp [pieceLen, h10, h13]
      | k + 3, _ => simp [pieceLen, h10, h13]
    rw [List.cons_append, key, pieceLen_line t Y ht, omap_add, List.length_cons]

/-- state after a line terminator -/
def termState (term : Bytes) : Nat := if term = [13] then 3 else 2

/-- the terminator of a non-blank line -/
theorem pieceLen_term (term t Y : Bytes) (h : IsTerm term t) :
    pieceLen (term ++ Y) 1 = (pieceLen Y (termState term)).map (· + term.length) := by
  rcases h with h | h | ⟨h, _⟩ <;> subst h
  · simp [pieceLen, termState]
  · have : pieceLen (13 :: 10 :: Y) 1 = ((pieceLen Y 2).map (· + 1)).map (· + 1) := by
      simp [pieceLen]
    simp only [List.cons_append, List.nil_append, this, omap_add, termState]
    simp
  · simp [pieceLen, termState]

/-- state of the piece scanner after the part `T` of the token collected so far -/
def sigma (T : Bytes) : Nat :=
  match T.getLast? with
  | none => 0
  | some 13 => 3
  | some 10 => 2
  | some _ => 1

/-- the loop of `splitFunc` moves along the piece scanner -/
def Phi (B T : Bytes) : Prop :=
  ∀ Y, pieceLen (B ++ T ++ Y) 0 = (pieceLen Y (sigma T)).map (· + (B.length + T.length))

theorem phi_nil : Phi [] [] := by intro Y; simp [sigma]

theorem phi_blank (B term : Bytes) (_h : Phi B []) (hB : AllNl B) (hterm : AllNl term) : Phi (B ++ term) [] := by
  intro Y
  have hB' : AllNl (B ++ term) := by
    intro b hb; rcases List.mem_append.1 hb with h | h
    · exact hB b h
    · exact hterm b h
  simp only [List.append_nil, List.length_nil, Nat.add_zero]
  rw [pieceLen_blanks _ Y hB']
  simp [sigma]

theorem sigma_of_last (T : Bytes) (hT : T = [] ∨ LastIsNl T) : sigma T ≠ 1 := by
  rcases hT with h | ⟨b, hb1, hb2⟩
  · simp [h, sigma]
  · rcases (isNl_true_iff b).1 hb2 with h | h <;> subst h <;> simp [sigma, hb1]

theorem sigma_term (P term t : Bytes) (h : IsTerm term t) : sigma (P ++ term) = termState term := by
  rcases h with h | h | ⟨h, _⟩ <;> subst h <;> simp [sigma, termState]

theorem sigma_noNl (P l : Bytes) (hl : NoNl l) (hl0 : l ≠ []) : sigma (P ++ l) = 1 := by
  obtain ⟨b, hb⟩ : ∃ b, l.getLast? = some b := by
    cases h : l.getLast? with
    | none => simp at h; exact absurd h hl0
    | some b => exact ⟨b, rfl⟩
  have hmem : b ∈ l := List.mem_of_getLast? hb
  obtain ⟨h10, h13⟩ := (isNl_false_iff b).1 (hl b hmem)
  have : (P ++ l).getLast? = some b := by rw [List.getLast?_append, hb]; rfl
  simp only [sigma, this]

theorem phi_line (B T l term t : Bytes) (h : Phi B T) (hT : T = [] ∨ LastIsNl T) (hl : NoNl l) (hl0 : l ≠ [])
    (hterm : IsTerm term t) : Phi B (T ++ (l ++ term)) := by
  intro Y
  have e : B ++ (T ++ (l ++ term)) ++ Y = B ++ T ++ (l ++ (term ++ Y)) := by simp
  rw [e, h, pieceLen_line_start l _ _ (sigma_of_last T hT) hl hl0, pieceLen_term term t Y hterm, omap_add, omap_add]
  have : sigma (T ++ (l ++ term)) = termState term := by
    rw [← List.append_assoc]; exact sigma_term _ term t hterm
  rw [this]
  congr 1
  funext x
  simp only [List.length_append]; omega

theorem phi_tail (B T rest : Bytes) (h : Phi B T) (hT : T = [] ∨ LastIsNl T) (hno : NoNl rest) (hr : rest ≠ []) :
    Phi B (T ++ rest) := by
  intro Y
  have e : B ++ (T ++ rest) ++ Y = B ++ T ++ (rest ++ Y) := by simp
  rw [e, h, pieceLen_line_start rest _ _ (sigma_of_last T hT) hno hr, omap_add, sigma_noNl T rest hno hr]
  congr 1
  funext x
  simp only [List.length_append]; omega

/-- loop-head condition of `splitFunc`'s loop on the token part `T` collected so far -/
def PT (T rest : Bytes) : Prop :=
  T = [] ∨ (HeadNotNl T ∧ LastIsNl T ∧ (T.getLast? = some 13 → rest.head? ≠ some 10) ∧ HeadNotNl rest)
/-- loop-exit condition -/
def QT (T rest : Bytes) : Prop :=
  HeadNotNl T ∧ (rest ≠ [] → LastIsNl T ∧ (T.getLast? = some 13 → rest.head? ≠ some 10) ∧ HeadIsNl rest)

theorem headD_isNl_iff (t : Bytes) : isNl (t.headD 0) = true ↔ HeadIsNl t := by
  cases t with
  | nil => simp [HeadIsNl]; decide
  | cons c t => simp [HeadIsNl]

theorem splitLoop_spec (len fuel : Nat) (B T rest : Bytes) (hf : rest.length < fuel) (hr : rest ≠ [])
    (hlen : len = (B ++ T ++ rest).length) (hB : AllNl B) (hT : PT T rest) (hΦ : Phi B T) :
    ∃ B' T' rest', B ++ T ++ rest = B' ++ T' ++ rest' ∧
      splitLoop len fuel rest (B.length + T.length) B.length = (B'.length + T'.length, B'.length) ∧
      AllNl B' ∧ QT T' rest' ∧ Phi B' T' := by
  induction fuel generalizing B T rest with
  | zero => omega
  | succ fuel ih =>
    have hTl : T = [] ∨ LastIsNl T := by
      rcases hT with h | ⟨_, h, _, _⟩
      · exact .inl h
      · exact .inr h
    unfold splitLoop
    rcases nl_split rest with ⟨hno, e⟩ | ⟨l, term, t, hs, hl, hterm, e⟩
    · -- no newline: the loop stops at the end of data
      have hpos : 0 < rest.length := List.length_pos_iff.2 hr
      refine ⟨B, T ++ rest, [], by simp, ?_, hB, ⟨?_, by simp⟩, phi_tail B T rest hΦ hTl hno hr⟩
      · simp only [e]
        have h1 : (B.length + T.length + rest.length + 0 == len) = true := by
          simp [hlen]; omega
        rw [if_pos (by simp only [h1, Bool.true_or])]
        have h2 : (rest.length == 0) = false := by simp; omega
        simp [h2]; omega
      · rcases hT with hT | ⟨h1, _, _, _⟩
        · subst hT; simpa using hno.headNotNl
        · intro b hb
          cases T with
          | nil => simpa using hno.headNotNl b (by simpa using hb)
          | cons c T' => exact h1 b (by simpa using hb)
    · subst hs
      have htl := hterm.pos
      simp only [e]
      have hdrop : (l ++ term ++ t).drop (l.length + term.length) = t := by
        rw [← List.length_append, List.drop_left]
      rw [hdrop]
      by_cases hl0 : l = []
      · -- a blank line: it is skipped, we are still before the token
        subst hl0
        have hTnil : T = [] := by
          rcases hT with hT | ⟨_, _, _, h4⟩
          · exact hT
          · exfalso
            obtain ⟨b, hb1, hb2⟩ := hterm.lastIsNl []
            cases term with
            | nil => exact hterm.ne_nil rfl
            | cons c term' =>
              have := h4 c (by simp)
              have := hterm.allNl c (by simp)
              simp_all
        subst hTnil
        simp only [List.length_nil, Nat.add_zero, beq_self_eq_true, if_true, Nat.lt_irrefl, decide_false, Bool.and_false, Bool.or_false]
        have hB' : AllNl (B ++ term) := by
          intro b hb; rcases List.mem_append.1 hb with h | h
          · exact hB b h
          · exact hterm.allNl b h
        by_cases ht : t = []
        · subst ht
          refine ⟨B ++ term, [], [], by simp, ?_, hB', by simp [QT, HeadNotNl], phi_blank B term hΦ hB hterm.allNl⟩
          have : (B.length + term.length == len) = true := by simp [hlen]
          simp [this]
        · have : (B.length + term.length == len) = false := by
            have : 0 < t.length := List.length_pos_iff.2 ht
            simp [hlen]; omega
          simp only [this, Bool.false_eq_true, if_false]
          have := ih (B ++ term) [] t (by simp at hf; omega) ht (by simp [hlen]) hB' (.inl rfl) (phi_blank B term hΦ hB hterm.allNl)
          simpa [Nat.add_assoc] using this
      · -- a non-blank line joins the token
        have hlpos : 0 < l.length := List.length_pos_iff.2 hl0
        have hl0' : (l.length == 0) = false := by simp; omega
        simp only [hl0', Bool.false_eq_true, if_false]
        have hhead : HeadNotNl (T ++ (l ++ term)) := by
          intro b hb
          rcases hT with hT | ⟨h1, _, _, _⟩
          · subst hT
            cases l with
            | nil => exact absurd rfl hl0
            | cons c l' => simp at hb; subst hb; exact hl _ (by simp)
          · cases T with
            | nil => cases l with
              | nil => exact absurd rfl hl0
              | cons c l' => simp at hb; subst hb; exact hl _ (by simp)
            | cons c T' => exact h1 b (by simpa using hb)
        have hlast : LastIsNl (T ++ (l ++ term)) := by
          have := hterm.lastIsNl (T ++ l); simpa using this
        have hcr : (T ++ (l ++ term)).getLast? = some 13 → t.head? ≠ some 10 := by
          intro h; exact hterm.last_cr (T ++ l) (by simpa using h)
        have hphi' : Phi B (T ++ (l ++ term)) := phi_line B T l term t hΦ hTl hl hl0 hterm
        have hadv : B.length + T.length + l.length + term.length = B.length + (T ++ (l ++ term)).length := by
          simp; omega
        by_cases ht : t = []
        · subst ht
          refine ⟨B, T ++ (l ++ term), [], by simp, ?_, hB, ⟨hhead, by simp⟩, hphi'⟩
          have : (B.length + T.length + l.length + term.length == len) = true := by simp [hlen]; omega
          simp [this]; omega
        · have hne : (B.length + T.length + l.length + term.length == len) = false := by
            have : 0 < t.length := List.length_pos_iff.2 ht
            simp [hlen]; omega
          simp only [hne, Bool.false_or]
          by_cases hnl : isNl (t.headD 0) = true
          · refine ⟨B, T ++ (l ++ term), t, by simp, ?_, hB, ⟨hhead, fun _ => ⟨hlast, hcr, (headD_isNl_iff t).1 hnl⟩⟩, hphi'⟩
            rw [if_pos (by simp only [hnl, Bool.true_and, decide_eq_true_eq]; exact hlpos)]
            simp; omega
          · have hnl' : HeadNotNl t := by
              intro b hb
              cases t with
              | nil => simp at hb
              | cons c t' => simp at hb; subst hb; simpa using hnl
            simp only [hnl, Bool.false_and, Bool.false_eq_true, if_false]
            have := ih B (T ++ (l ++ term)) t (by simp at hf; omega) ht (by simp [hlen]) hB
              (.inr ⟨hhead, hlast, hcr, hnl'⟩) hphi'
            rw [hadv]
            simpa using this

/-- everything `splitFunc` can do -/
inductive SplitRes (data : Bytes) (e : Bool) : Prop
  | empty (hd : data = []) (hr : splitFunc data e = (0, none))
  /-- no complete event in the buffer and more may come: request more data -/
  | more (B T : Bytes) (he : e = false) (hd : data = B ++ T) (hB : AllNl B) (hT : HeadNotNl T)
      (hphi : Phi B T) (hr : splitFunc data e = (0, none))
  /-- skipped blank lines `B`, then the token: non-blank lines `T` and one more line end `nl` -/
  | tok (B T nl rest : Bytes) (hd : data = B ++ T ++ nl ++ rest) (hB : AllNl B) (hT : HeadNotNl T)
      (hl : LastIsNl T) (hcr : T.getLast? = some 13 → nl.head? ≠ some 10) (hnl : IsTerm nl rest)
      (hphi : Phi B T) (hr : splitFunc data e = ((B ++ T ++ nl).length, some (T ++ nl)))
  /-- at the end of the input: all that is left after the blank lines -/
  | final (B T : Bytes) (he : e = true) (hd : data = B ++ T) (hne : data ≠ []) (hB : AllNl B) (hT : HeadNotNl T)
      (hphi : Phi B T) (hr : splitFunc data e = (data.length, some T))

theorem getD_of_split (data P : Bytes) (c : Byte) (t : Bytes) (n : Nat) (h : data = P ++ c :: t)
    (hn : n = P.length) : data.getD n 0 = c := by
  subst h hn; simp [List.getD_eq_getElem?_getD]

theorem take_of_split (data P t : Bytes) (n : Nat) (h : data = P ++ t) (hn : n = P.length) :
    data.take n = P := by
  subst h hn; simp

theorem drop_of_split (data P t : Bytes) (n : Nat) (h : data = P ++ t) (hn : n = P.length) :
    data.drop n = t := by
  subst h hn; simp

theorem splitFunc_cases (data : Bytes) (e : Bool) : SplitRes data e := by
  by_cases hd : data = []
  · exact .empty hd (by simp [hd, splitFunc])
  have hpos : 0 < data.length := List.length_pos_iff.2 hd
  obtain ⟨B, T, rest, hsplit, hloop, hB, ⟨hT1, hT2⟩, hphi⟩ :=
    splitLoop_spec data.length (data.length + 1) [] [] data (by omega) hd (by simp) (by simp [AllNl]) (.inl rfl) phi_nil
  simp only [List.nil_append, List.length_nil, Nat.add_zero] at hsplit hloop
  have hl0 : (data.length == 0) = false := by simp; omega
  by_cases hrest : rest = []
  · subst hrest
    simp only [List.append_nil] at hsplit
    have hlen : B.length + T.length = data.length := by rw [hsplit]; simp
    cases e with
    | false => exact .more B T rfl hsplit hB hT1 hphi (by unfold splitFunc; simp only [hl0, Bool.false_eq_true, if_false, hloop]; simp [hlen])
    | true =>
      refine .final B T rfl hsplit hd hB hT1 hphi ?_
      unfold splitFunc; simp only [hl0, Bool.false_eq_true, if_false, hloop]
      simp only [hlen, beq_self_eq_true, Bool.true_and, Nat.lt_irrefl, if_false]
      simp only [Bool.not_true, Bool.false_eq_true, if_false, List.take_length]
      rw [drop_of_split data B T _ hsplit rfl]
  · obtain ⟨hl, hcr, c, hc1, hc2⟩ := hT2 hrest
    cases rest with
    | nil => exact absurd rfl hrest
    | cons c' rest' =>
      simp only [List.head?_cons, Option.some.injEq] at hc1
      subst hc1
      have hlen : data.length = B.length + T.length + (rest'.length + 1) := by rw [hsplit]; simp; omega
      have hlt : B.length + T.length < data.length := by omega
      have hne : (B.length + T.length == data.length) = false := by simp; omega
      have hg1 : data.getD (B.length + T.length) 0 = c' :=
        getD_of_split data (B ++ T) c' rest' _ hsplit (by simp)
      by_cases hcrlf : c' = 13 ∧ rest'.head? = some 10
      · obtain ⟨h13, h10⟩ := hcrlf
        subst h13
        cases rest' with
        | nil => simp at h10
        | cons d rest'' =>
          simp only [List.head?_cons, Option.some.injEq] at h10
          subst h10
          have hg2 : data.getD (B.length + T.length + 1) 0 = 10 :=
            getD_of_split data (B ++ T ++ [13]) 10 rest'' _ (by rw [hsplit]; simp) (by simp only [List.length_append, List.length_cons, List.length_nil] <;> omega)
          have hlt2 : B.length + T.length + 1 < data.length := by rw [hlen]; simp
          have htk : data.take (B.length + T.length + 1 + 1) = B ++ T ++ [13, 10] :=
            take_of_split data _ rest'' _ (by rw [hsplit]; simp) (by simp only [List.length_append, List.length_cons, List.length_nil] <;> omega)
          have hlen2 : (B ++ T ++ [13, 10]).length = B.length + T.length + 1 + 1 := by simp only [List.length_append, List.length_cons, List.length_nil] <;> omega
          refine .tok B T [13, 10] rest'' (by rw [hsplit]; simp) hB hT1 hl (by simp at hcr ⊢) (.inr (.inl rfl)) hphi ?_
          unfold splitFunc; simp only [hl0, Bool.false_eq_true, if_false, hloop]
          simp only [hne, Bool.false_and, Bool.false_eq_true, if_false, hlt, if_true, Nat.add_sub_cancel, hg1]
          simp only [hlt2, decide_true, hg2, beq_self_eq_true, Bool.and_self, if_true]
          rw [hlen2, htk]
          simp
      · have hterm : IsTerm [c'] rest' := by
          rcases (isNl_true_iff c').1 hc2 with h | h
          · subst h; exact .inl rfl
          · subst h; exact .inr (.inr ⟨rfl, fun h10 => hcrlf ⟨rfl, h10⟩⟩)
        have hcond : (decide (B.length + T.length + 1 < data.length) && c' == 13 && data.getD (B.length + T.length + 1) 0 == 10) = false := by
          cases rest' with
          | nil => have : ¬ (B.length + T.length + 1 < data.length) := by rw [hlen]; simp
                   simp [this]
          | cons d rest'' =>
            have hg2 : data.getD (B.length + T.length + 1) 0 = d :=
              getD_of_split data (B ++ T ++ [c']) d rest'' _ (by rw [hsplit]; simp) (by simp only [List.length_append, List.length_cons, List.length_nil] <;> omega)
            rw [hg2]
            by_cases h13 : c' = 13
            · have : d ≠ 10 := fun h => hcrlf ⟨h13, by simp [h]⟩
              simp [this]
            · simp [h13]
        have htk : data.take (B.length + T.length + 1) = B ++ T ++ [c'] :=
          take_of_split data _ rest' _ (by rw [hsplit]; simp) (by simp only [List.length_append, List.length_cons, List.length_nil] <;> omega)
        have hlen2 : (B ++ T ++ [c']).length = B.length + T.length + 1 := by simp only [List.length_append, List.length_cons, List.length_nil] <;> omega
        refine .tok B T [c'] rest' (by rw [hsplit]; simp) hB hT1 hl (by simpa using hcr) hterm hphi ?_
        unfold splitFunc; simp only [hl0, Bool.false_eq_true, if_false, hloop]
        simp only [hne, Bool.false_and, Bool.false_eq_true, if_false, hlt, if_true, Nat.add_sub_cancel, hg1]
        simp only [hcond, Bool.false_eq_true, if_false]
        rw [hlen2, htk]
        simp

end GoSSE.Proofs
