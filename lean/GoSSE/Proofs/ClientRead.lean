import GoSSE.Model.Parser
/-!
# The client's read loop always ends with an error value, and with the right one

Fuel sufficiency of `Scanner.scan`, `Parser.next` and `readLoop`, plus the small invariants
needed to read off `Parser.err` of the final parser.
-/
namespace GoSSE.Proofs.ClientRead
open GoSSE GoSSE.Spec GoSSE.Model

/-! ## `newlineIndex`, `splitLoop`, `splitFunc` -/

private theorem nlIndex_le (s : Bytes) : (newlineIndex s).1 + (newlineIndex s).2 ≤ s.length := by
  induction s with
  | nil => simp [newlineIndex]
  | cons b t ih =>
    unfold newlineIndex
    split
    · cases t with
      | nil => simp
      | cons c t' => simp; split <;> omega
    · simp; omega

theorem splitLoop_le (len fuel : Nat) (rest : Bytes) (adv st : Nat) (h : adv + rest.length ≤ len) :
    (splitLoop len fuel rest adv st).1 ≤ len := by
  induction fuel generalizing rest adv st with
  | zero => simp [splitLoop]; omega
  | succ n ih =>
    have hle := nlIndex_le rest
    unfold splitLoop
    simp only []
    split
    · simp only []; omega
    · apply ih
      simp only [List.length_drop]; omega

/-- a token consumes at least one and at most all pending bytes, and is no longer than the advance -/
theorem splitFunc_some (data : Bytes) (atEOF : Bool) (tok : Bytes)
    (h : (splitFunc data atEOF).2 = some tok) :
    1 ≤ data.length ∧ 1 ≤ (splitFunc data atEOF).1 ∧ (splitFunc data atEOF).1 ≤ data.length ∧
      tok.length ≤ (splitFunc data atEOF).1 := by
  have hl := splitLoop_le data.length (data.length + 1) data 0 0 (by omega)
  unfold splitFunc at h ⊢
  simp only [] at h ⊢
  split at h
  · simp at h
  · rename_i h0
    have h0' : data.length ≠ 0 := by simpa using h0
    rw [if_neg h0]
    split at h
    · simp at h
    · rename_i h1
      rw [if_neg h1]
      simp only [Option.some.injEq] at h
      subst h
      simp only [List.length_drop, List.length_take]
      refine ⟨by omega, ?_⟩
      split
      · split
        · rename_i hc
          simp only [Bool.and_eq_true, decide_eq_true_eq] at hc
          omega
        · omega
      · omega

theorem splitFunc_atEOF (data : Bytes) (h : data ≠ []) : (splitFunc data true).2 ≠ none := by
  have : data.length ≠ 0 := by simpa using h
  unfold splitFunc
  simp [this]

theorem splitFunc_nil (atEOF : Bool) : (splitFunc [] atEOF).2 = none := by
  simp [splitFunc]

/-! ## `Source` -/

/-- `Source.size` as a structural recursion -/
def sz : List Bytes → Nat
  | [] => 0
  | c :: r => c.length + 1 + sz r

theorem foldl_sz (l : List Bytes) (n : Nat) :
    l.foldl (fun n c => n + c.length + 1) n = n + sz l := by
  induction l generalizing n with
  | nil => simp [sz]
  | cons c r ih => simp [List.foldl, ih, sz]; omega

theorem size_eq (s : Source) : s.size = sz s.chunks := by simp [Source.size, foldl_sz]

/-- a `Read` into a destination with room never loses bytes, keeps the kind of the final
error, and makes progress unless it reports the end -/
theorem read_spec (s : Source) (free : Nat) (hf : 0 < free) :
    (s.read free).2.2.endErr = s.endErr ∧
    (s.read free).1.length ≤ free ∧
    (s.read free).1.length + (s.read free).2.2.size ≤ s.size ∧
    ((s.read free).2.1 = none → (s.read free).2.2.size + 1 ≤ s.size) ∧
    (∀ e, (s.read free).2.1 = some e → e = if s.endErr then SErr.read else SErr.eof) := by
  obtain ⟨chunks, endErr, ewl⟩ := s
  cases chunks with
  | nil => simp [Source.read, size_eq, sz]
  | cons c rest =>
    simp only [Source.read]
    split
    · split
      · simp [size_eq, sz]; omega
      · simp [size_eq, sz]; omega
    · simp [size_eq, sz]; omega

/-! ## `Scanner.scan`, one iteration at a time -/

/-- the token of the split call of one `Scan` iteration, if there is one -/
def tokOf (s : Scanner) : Option Bytes :=
  if !s.data.isEmpty || s.err.isSome then (splitFunc s.data s.err.isSome).2 else none

def shift (s : Scanner) : Scanner :=
  if s.start > 0 && (s.start + s.data.length == s.bufLen || s.start > s.bufLen / 2)
  then { s with start := 0 } else s

def grow (s : Scanner) : Scanner :=
  { s with bufLen := min (if s.bufLen * 2 == 0 then startBufSize else s.bufLen * 2) s.maxTok.toNat,
           start := 0 }

def readInto (s : Scanner) : Scanner :=
  let q := s.src.read (s.bufLen - (s.start + s.data.length))
  { s with data := s.data ++ q.1, err := q.2.1, src := q.2.2, pulled := s.pulled + q.1.length }

theorem scan_tok (fuel : Nat) (s : Scanner) (t : Bytes) (h : tokOf s = some t) :
    Scanner.scan (fuel + 1) s =
      (some ((splitFunc s.data s.err.isSome).1, t),
        { s with start := s.start + (splitFunc s.data s.err.isSome).1,
                 data := s.data.drop (splitFunc s.data s.err.isSome).1 }) := by
  unfold tokOf at h
  unfold Scanner.scan
  split at h
  · rename_i hc
    simp only [hc, if_true, h]
  · simp at h

theorem scan_err (fuel : Nat) (s : Scanner) (h : tokOf s = none) (he : s.err.isSome = true) :
    Scanner.scan (fuel + 1) s = (none, { s with start := 0, data := [] }) := by
  unfold tokOf at h
  unfold Scanner.scan
  split at h
  · rename_i hc
    simp only [hc, if_true, h]
    simp only [he, if_true]
  · rename_i hc
    simp only [hc]
    simp [he]

theorem scan_more (fuel : Nat) (s : Scanner) (h : tokOf s = none) (he : s.err = none) :
    Scanner.scan (fuel + 1) s =
      if (shift s).start + (shift s).data.length == (shift s).bufLen then
        if ((shift s).bufLen : Int) ≥ (shift s).maxTok then (none, { shift s with err := some .tooLong })
        else Scanner.scan fuel (readInto (grow (shift s)))
      else Scanner.scan fuel (readInto (shift s)) := by
  have he' : s.err.isSome = false := by simp [he]
  unfold tokOf at h
  conv => lhs; unfold Scanner.scan
  split at h
  · rename_i hc
    simp only [hc, if_true, h]
    simp only [he', Bool.false_eq_true, if_false]
    rfl
  · rename_i hc
    simp only [hc]
    simp only [he', Bool.false_eq_true, if_false]
    rfl

/-! ## Scanner invariant and the fuel of `Scanner.scan` -/

/-- a scanner error is the token-size error or the one the source ends with -/
def ErrOK (s : Scanner) : Prop :=
  ∀ e, s.err = some e → e = SErr.tooLong ∨ e = (if s.src.endErr then SErr.read else SErr.eof)

/-- the pending bytes lie inside the buffer; the error is a legitimate one -/
def SInv (s : Scanner) : Prop := s.start + s.data.length ≤ s.bufLen ∧ ErrOK s

/-- bytes not yet handed out as tokens (plus one per outstanding read) -/
def M (s : Scanner) : Nat := s.data.length + s.src.size

def ScanPost (s : Scanner) (r : Option (Nat × Bytes) × Scanner) : Prop :=
  SInv r.2 ∧ r.2.src.endErr = s.src.endErr ∧ (r.1 = none → r.2.err.isSome = true) ∧
    (∀ adv tok, r.1 = some (adv, tok) → tok.length + M r.2 ≤ M s ∧ M r.2 + 1 ≤ M s)

theorem ScanPost.mono {s1 s : Scanner} {r} (h : ScanPost s1 r)
    (he : s1.src.endErr = s.src.endErr) (hm : M s1 ≤ M s) : ScanPost s r := by
  obtain ⟨a, b, c, d⟩ := h
  refine ⟨a, by rw [b, he], c, ?_⟩
  intro adv tok h
  have := d adv tok h
  omega

theorem shift_spec (s : Scanner) (hI : SInv s) :
    SInv (shift s) ∧ (shift s).data = s.data ∧ (shift s).src = s.src ∧ (shift s).err = s.err := by
  obtain ⟨h1, h2⟩ := hI
  unfold shift
  split
  · refine ⟨⟨?_, h2⟩, rfl, rfl, rfl⟩
    simp only []; omega
  · exact ⟨⟨h1, h2⟩, rfl, rfl, rfl⟩

theorem readInto_spec (s : Scanner) (hI : SInv s) (hfree : s.start + s.data.length < s.bufLen) :
    SInv (readInto s) ∧ (readInto s).src.endErr = s.src.endErr ∧ M (readInto s) ≤ M s ∧
      ((readInto s).err = none → (readInto s).src.size + 1 ≤ s.src.size) := by
  obtain ⟨h1, _⟩ := hI
  have hf : 0 < s.bufLen - (s.start + s.data.length) := by omega
  obtain ⟨r1, r2, r3, r4, r5⟩ := read_spec s.src _ hf
  unfold readInto
  simp only [SInv, ErrOK, M, List.length_append]
  refine ⟨⟨by omega, ?_⟩, r1, by omega, r4⟩
  intro e he
  rw [r1]
  exact Or.inr (r5 e he)

/-- growing the buffer below the token limit makes room -/
theorem grow_room (s : Scanner) (h : s.start + s.data.length ≤ s.bufLen)
    (hmax : ¬ ((s.bufLen : Int) ≥ s.maxTok)) :
    (grow s).start + (grow s).data.length < (grow s).bufLen := by
  simp only [grow, startBufSize, beq_iff_eq]
  split <;> omega

theorem tokOf_some (s : Scanner) (t : Bytes) (h : tokOf s = some t) :
    (splitFunc s.data s.err.isSome).2 = some t := by
  unfold tokOf at h
  split at h
  · exact h
  · simp at h

/-- with an error pending, no token means no pending bytes -/
theorem tokOf_none_err (s : Scanner) (h : tokOf s = none) (he : s.err.isSome = true) : s.data = [] := by
  unfold tokOf at h
  simp only [he, Bool.or_true, if_true] at h
  by_cases hd : s.data = []
  · exact hd
  · exact absurd h (splitFunc_atEOF _ hd)

/-- `Scanner.scan` does not run out of fuel: without a token the scanner has an error -/
theorem scan_spec (fuel : Nat) (s : Scanner) (hI : SInv s) (h1 : 1 ≤ fuel)
    (h2 : s.err = none → s.src.size + 2 ≤ fuel) : ScanPost s (Scanner.scan fuel s) := by
  induction fuel generalizing s with
  | zero => omega
  | succ fuel ih =>
    cases ht : tokOf s with
    | some t =>
      rw [scan_tok fuel s t ht]
      obtain ⟨a, b, c, d⟩ := splitFunc_some _ _ _ (tokOf_some s t ht)
      obtain ⟨i1, i2⟩ := hI
      refine ⟨⟨?_, i2⟩, rfl, by simp, ?_⟩
      · simp only [List.length_drop]; omega
      · intro adv tok h
        simp only [Option.some.injEq, Prod.mk.injEq] at h
        obtain ⟨h, h'⟩ := h
        subst h'
        simp only [M, List.length_drop]
        omega
    | none =>
      cases he : s.err with
      | some e =>
        rw [scan_err fuel s ht (by simp [he])]
        obtain ⟨i1, i2⟩ := hI
        exact ⟨⟨by simp, i2⟩, rfl, by simp [he], by simp⟩
      | none =>
        have key : ∀ s1 : Scanner, SInv s1 → s1.start + s1.data.length < s1.bufLen →
            s1.src = s.src → s1.data = s.data → ScanPost s (Scanner.scan fuel (readInto s1)) := by
          intro s1 hI1 hfree hsrc hdata
          obtain ⟨r1, r2, r3, r4⟩ := readInto_spec s1 hI1 hfree
          have h2' := h2 he
          rw [hsrc] at r2 r4
          have hM : M s1 = M s := by simp [M, hsrc, hdata]
          refine (ih (readInto s1) r1 (by omega) ?_).mono r2 (by omega)
          intro hn
          have := r4 hn
          omega
        obtain ⟨⟨j1, j2⟩, jd, js, je⟩ := shift_spec s hI
        rw [scan_more fuel s ht he]
        split
        · split
          · refine ⟨⟨j1, ?_⟩, by simp [js], by simp, by simp⟩
            intro e h
            simp only [Option.some.injEq] at h
            exact Or.inl h.symm
          · rename_i hfull hmax
            apply key
            · exact ⟨Nat.le_of_lt (grow_room _ j1 hmax), j2⟩
            · exact grow_room _ j1 hmax
            · simp [grow, js]
            · simp [grow, jd]
        · rename_i hfull
          apply key _ ⟨j1, j2⟩ _ js jd
          simp only [beq_iff_eq] at hfull
          omega

/-! ## `FP.next` and `Parser.next` -/

theorem nlIndex_pos (s : Bytes) (h : (newlineIndex s).2 ≠ 0) (hne : s ≠ []) :
    (s.drop ((newlineIndex s).1 + (newlineIndex s).2)).length + 1 ≤ s.length := by
  have : s.length ≠ 0 := by simpa using hne
  simp only [List.length_drop]
  omega

/-- a field is only produced after consuming at least one byte -/
theorem fpNext_some (fuel : Nat) (f : FP) (h : (FP.next fuel f).1.isSome = true) :
    (FP.next fuel f).2.data.length + 1 ≤ f.data.length := by
  induction fuel generalizing f with
  | zero => simp [FP.next] at h
  | succ n ih =>
    unfold FP.next at h ⊢
    split
    · rename_i h0; simp [h0] at h
    · rename_i h0
      rw [if_neg h0] at h
      simp only [] at h ⊢
      have hne : f.data ≠ [] := by simpa using h0
      split
      · rename_i h1; simp [h1] at h
      · rename_i h1
        rw [if_neg h1] at h
        have hnz : (newlineIndex f.data).2 ≠ 0 := by
          simpa [nextChunk] using h1
        have hlen := nlIndex_pos f.data hnz hne
        split
        · simp only [nextChunk]; exact hlen
        · rename_i hs
          simp only [hs] at h
          have := ih _ h
          simp only [nextChunk] at this ⊢
          omega

theorem reset_len (f : FP) (d : Bytes) : (f.reset d).data.length ≤ d.length := by
  unfold FP.reset FP.doRemoveBOM
  split
  · simp
  · simp

theorem next_field (fuel : Nat) (p : Parser) (f : Field) (fp : FP)
    (h : FP.next (p.fp.data.length + 1) p.fp = (some f, fp)) :
    Parser.next (fuel + 1) p = (some f, { p with fp := fp }) := by
  conv => lhs; unfold Parser.next
  simp only [h]

theorem next_none (fuel : Nat) (p : Parser) (fp : FP) (sc : Scanner)
    (h : FP.next (p.fp.data.length + 1) p.fp = (none, fp))
    (hs : Scanner.scan (p.sc.src.size + p.sc.data.length + 4) p.sc = (none, sc)) :
    Parser.next (fuel + 1) p = (none, { p with fp := fp, sc := sc, gone := sc.err == some .eof }) := by
  conv => lhs; unfold Parser.next
  simp only [h, hs]

theorem next_tok (fuel : Nat) (p : Parser) (fp : FP) (sc : Scanner) (adv : Nat) (tok : Bytes)
    (h : FP.next (p.fp.data.length + 1) p.fp = (none, fp))
    (hs : Scanner.scan (p.sc.src.size + p.sc.data.length + 4) p.sc = (some (adv, tok), sc)) :
    Parser.next (fuel + 1) p =
      Parser.next fuel { p with
        fp := (if fp.started || (p.skippedBlankLines || adv > tok.length) then fp.setRemoveBOM false else fp).reset tok,
        sc := sc, skippedBlankLines := p.skippedBlankLines || adv > tok.length } := by
  conv => lhs; unfold Parser.next
  simp only [h, hs]

/-- bytes not yet turned into fields -/
def M3 (p : Parser) : Nat := p.fp.data.length + M p.sc

def NextPost (p : Parser) (r : Option Field × Parser) : Prop :=
  SInv r.2.sc ∧ r.2.sc.src.endErr = p.sc.src.endErr ∧
    (r.1 = none → r.2.sc.err.isSome = true ∧ r.2.gone = (r.2.sc.err == some .eof)) ∧
    (r.1.isSome = true → M3 r.2 + 1 ≤ M3 p)

theorem NextPost.mono {p1 p : Parser} {r} (h : NextPost p1 r)
    (he : p1.sc.src.endErr = p.sc.src.endErr) (hm : M3 p1 ≤ M3 p) : NextPost p r := by
  obtain ⟨a, b, c, d⟩ := h
  refine ⟨a, by rw [b, he], c, ?_⟩
  intro h
  have := d h
  omega

/-- `Parser.next` does not run out of fuel: it yields a field and consumed a byte, or the
scanner has stopped with an error -/
theorem next_spec (fuel : Nat) (p : Parser) (hI : SInv p.sc) (hf : M p.sc + 1 ≤ fuel) :
    NextPost p (Parser.next fuel p) := by
  induction fuel generalizing p with
  | zero => omega
  | succ fuel ih =>
    cases hfp : FP.next (p.fp.data.length + 1) p.fp with
    | mk o fp =>
    cases o with
    | some f =>
      rw [next_field fuel p f fp hfp]
      refine ⟨hI, rfl, by simp, ?_⟩
      intro _
      have := fpNext_some (p.fp.data.length + 1) p.fp (by simp [hfp])
      simp only [hfp] at this
      simp only [M3]
      omega
    | none =>
      have hsc := scan_spec (p.sc.src.size + p.sc.data.length + 4) p.sc hI (by omega) (by intro; omega)
      cases hs : Scanner.scan (p.sc.src.size + p.sc.data.length + 4) p.sc with
      | mk o sc =>
      rw [hs] at hsc
      obtain ⟨s1, s2, s3, s4⟩ := hsc
      cases o with
      | none =>
        rw [next_none fuel p fp sc hfp hs]
        exact ⟨s1, s2, fun _ => ⟨s3 rfl, rfl⟩, by simp⟩
      | some at' =>
        obtain ⟨adv, tok⟩ := at'
        rw [next_tok fuel p fp sc adv tok hfp hs]
        obtain ⟨m1, m2⟩ := s4 adv tok rfl
        have hr := reset_len (if fp.started || (p.skippedBlankLines || adv > tok.length) then fp.setRemoveBOM false else fp) tok
        refine (ih _ s1 ?_).mono s2 ?_
        · show M sc + 1 ≤ fuel
          have : M sc + 1 ≤ M p.sc := m2
          omega
        · simp only [M3]
          have : tok.length + M sc ≤ M p.sc := m1
          omega

/-! ## `readLoop` -/

/-- what `readLoop` leaves behind when the consumer never stops it -/
def Final (src : Source) (p : Parser) : Prop :=
  SInv p.sc ∧ p.sc.src.endErr = src.endErr ∧ p.sc.err.isSome = true ∧
    p.gone = (p.sc.err == some .eof)

theorem readLoop_none (conn : Bool) (fuel : Nat) (p p' : Parser) (st : RState) (outs : List Out)
    (h : p.next (p.sc.src.size + p.sc.data.length + 4) = (none, p')) :
    readLoop conn none (fuel + 1) p st outs = (p', st, outs, false) := by
  conv => lhs; unfold readLoop
  simp only [h]

theorem readLoop_some (conn : Bool) (fuel : Nat) (p p' : Parser) (f : Field) (st : RState)
    (outs : List Out) (h : p.next (p.sc.src.size + p.sc.data.length + 4) = (some f, p')) :
    readLoop conn none (fuel + 1) p st outs =
      readLoop conn none fuel p' (readField conn st f).1 (outs ++ (readField conn st f).2) := by
  conv => lhs; unfold readLoop
  simp only [h, stopped, Bool.and_false, Bool.false_eq_true, if_false]

/-- `readLoop` does not run out of fuel: it ends because `Parser.next` returned `false` -/
theorem readLoop_spec (conn : Bool) (fuel : Nat) (p : Parser) (st : RState) (outs : List Out)
    (hI : SInv p.sc) (hf : M3 p + 1 ≤ fuel) :
    (readLoop conn none fuel p st outs).2.2.2 = false ∧
      Final p.sc.src (readLoop conn none fuel p st outs).1 := by
  induction fuel generalizing p st outs with
  | zero => omega
  | succ fuel ih =>
    have hn := next_spec (p.sc.src.size + p.sc.data.length + 4) p hI (by simp only [M]; omega)
    cases hp : p.next (p.sc.src.size + p.sc.data.length + 4) with
    | mk o p' =>
    rw [hp] at hn
    obtain ⟨n1, n2, n3, n4⟩ := hn
    cases o with
    | none =>
      rw [readLoop_none conn fuel p p' st outs hp]
      obtain ⟨a, b⟩ := n3 rfl
      exact ⟨rfl, n1, n2, a, b⟩
    | some f =>
      rw [readLoop_some conn fuel p p' f st outs hp]
      have hm : M3 p' + 1 ≤ M3 p := n4 rfl
      obtain ⟨a, b, c, d, e⟩ := ih p' _ _ n1 (by omega)
      exact ⟨a, b, by rw [c]; exact n2, d, e⟩

/-! ## `implRun` -/

theorem mkScanner_inv (src : Source) (cfg : Option (Nat × Int)) :
    SInv (mkScanner src cfg) ∧ (mkScanner src cfg).src = src ∧ (mkScanner src cfg).data = [] := by
  unfold mkScanner
  split
  · simp [SInv, ErrOK]
  · simp [SInv, ErrOK]

/-- `Parser.err` of a parser whose scanner has stopped -/
theorem err_of_final (src : Source) (p : Parser) (h : Final src p) :
    p.err ≠ PErr.none ∧ (p.err = PErr.unexpectedEOF → src.endErr = false) ∧
      (src.endErr = true → p.err = PErr.read ∨ p.err = PErr.tooLong) := by
  obtain ⟨⟨_, hE⟩, h2, h3, h4⟩ := h
  cases he : p.sc.err with
  | none => simp [he] at h3
  | some e =>
    have hE' := hE e he
    rw [h2] at hE'
    cases e with
    | eof =>
      have hg : p.gone = true := by simp [h4, he]
      have hend : src.endErr = false := by
        cases hb : src.endErr with
        | false => rfl
        | true => simp [hb] at hE'
      unfold Parser.err
      simp only [hg, he, hend]
      cases p.fp.err <;> simp
    | read =>
      have hg : p.gone = false := by simp [h4, he]
      have hend : src.endErr = true := by
        cases hb : src.endErr with
        | true => rfl
        | false => simp [hb] at hE'
      unfold Parser.err
      simp [hg, he, hend]
    | tooLong =>
      have hg : p.gone = false := by simp [h4, he]
      unfold Parser.err
      simp [hg, he]

/-- the parser `implRun` ends with, without a consumer that stops -/
def finalParser (conn : Bool) (lastID : Bytes) (src : Source) (cfg : Option (Nat × Int)) : Parser :=
  (readLoop conn none (src.size + 4) { sc := mkScanner src cfg } { lastID := lastID } []).1

theorem finalParser_final (conn : Bool) (lastID : Bytes) (src : Source) (cfg : Option (Nat × Int)) :
    (readLoop conn none (src.size + 4) { sc := mkScanner src cfg } { lastID := lastID } []).2.2.2 = false ∧
      Final src (finalParser conn lastID src cfg) := by
  obtain ⟨i1, i2, i3⟩ := mkScanner_inv src cfg
  have := readLoop_spec conn (src.size + 4) { sc := mkScanner src cfg } { lastID := lastID } [] i1
    (by simp [M3, M, i2, i3])
  simp only [i2] at this
  exact this

/-- the error `implRun` reports is `Parser.err` of the final parser, a clean end of a
non-connection read excepted -/
theorem implRun_err (conn : Bool) (lastID : Bytes) (src : Source) (cfg : Option (Nat × Int)) :
    (implRun conn lastID src cfg none).2.1 =
      if (finalParser conn lastID src cfg).err == PErr.eof && !conn then PErr.none
      else (finalParser conn lastID src cfg).err := by
  obtain ⟨hflag, _⟩ := finalParser_final conn lastID src cfg
  unfold implRun finalParser
  simp only [hflag, stopped, Bool.false_eq_true, if_false]
  split
  · rename_i hc
    simp only [Bool.and_eq_true] at hc
    simp only [hc.2, Bool.true_and]
  · rfl

/-- R1: a connection's read never ends without an error value -/
theorem implRun_conn_ne_none (lastID : Bytes) (src : Source) (cfg : Option (Nat × Int)) :
    (implRun true lastID src cfg none).2.1 ≠ PErr.none := by
  rw [implRun_err]
  simp only [Bool.not_true, Bool.and_false, Bool.false_eq_true, if_false]
  exact (err_of_final src _ (finalParser_final true lastID src cfg).2).1

/-- R2: ErrUnexpectedEOF is only reported when the byte source ended cleanly (io.EOF) -/
theorem implRun_ueof_clean (conn : Bool) (lastID : Bytes) (src : Source) (cfg : Option (Nat × Int)) :
    (implRun conn lastID src cfg none).2.1 = PErr.unexpectedEOF → src.endErr = false := by
  rw [implRun_err]
  intro h
  apply (err_of_final src _ (finalParser_final conn lastID src cfg).2).2.1
  split at h
  · exact absurd h (by decide)
  · exact h

/-- R3: if the byte source ends with an error, that error (or the earlier token-size
error) is what is reported -/
theorem implRun_read_error (conn : Bool) (lastID : Bytes) (src : Source) (cfg : Option (Nat × Int)) :
    src.endErr = true → (implRun conn lastID src cfg none).2.1 = PErr.read ∨
      (implRun conn lastID src cfg none).2.1 = PErr.tooLong := by
  intro hend
  rw [implRun_err]
  have h := (err_of_final src _ (finalParser_final conn lastID src cfg).2).2.2 hend
  have hne : ((finalParser conn lastID src cfg).err == PErr.eof) = false := by
    cases h with
    | inl h => simp [h]
    | inr h => simp [h]
  simp only [hne, Bool.false_and, Bool.false_eq_true, if_false]
  exact h

end GoSSE.Proofs.ClientRead
