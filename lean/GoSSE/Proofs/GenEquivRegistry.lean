import GoSSE.Proofs.GenEquivDispatch
import GoSSE.Proofs.ClientRegistry
/-!
# Scripts over the translated registry functions refine the specification of C13

`GState.step` runs one operation of a script (`Spec.Client.ROp`) through what the translated functions of
client_connection.go compute (`afterSub`, `afterSubAll`, `afterUnsub`, `afterUnsubAll`, `dispatch_eq`'s result — each
proved equal to the translated text in `GenEquivDispatch`; `stepM_eq` below puts them together). The callback of the
`k`-th subscribe operation is the number `k`; the removers are the environments the translated `addSubscriber…` hand back.
The visiting orders of `dispatch`'s two `range` statements come from an oracle `ord` of which only what Go guarantees is
assumed (`Covers`: every key of the map ranged over, once).

`run_refines`: for every script and every such oracle the registry a reader sees is exactly the specification's list of
live subscriptions, and every dispatched event went to a permutation of the live subscriptions matching its type — each
once, nobody else.
-/
set_option linter.unusedSimpArgs false
set_option linter.unusedVariables false
namespace GoSSE.GenEquiv
open GoSSE GoSSE.GoRT GoSSE.MapL GoSSE.Spec.Client

abbrev LogsPerm := GoSSE.Proofs.ClientRegistry.LogsPerm

/-- visiting orders of the two ranges of `dispatch` -/
abbrev Orders := Gen.Connection → Bytes → List Int × List Int

/-- what Go guarantees of a range over a map: every key, once -/
def Covers (ord : Orders) : Prop :=
  ∀ c ty, (ord c ty).1.Nodup ∧ (∀ k, k ∈ (ord c ty).1 ↔ (mapGet (typed c ty) k).isSome = true) ∧
          (ord c ty).2.Nodup ∧ (∀ k, k ∈ (ord c ty).2 ↔ (mapGet c.callbacksAll k).isSome = true)

structure GState where
  conn : Gen.Connection
  removers : List (Option Bytes × Int)     -- what the k-th subscribe operation handed back: (type or all, id)
  log : List (List Nat)                     -- per dispatched event: the callbacks called, in call order

def evOf (ty : Bytes) : Gen.Event := ⟨[], ty, []⟩

def callsAt (ord : Orders) (c : Gen.Connection) (ty : Bytes) : List (Nat × Gen.Event) :=
  callsOf (typed c ty) (ord c ty).1 (evOf ty) ++ callsOf c.callbacksAll (ord c ty).2 (evOf ty)

def GState.step (ord : Orders) (s : GState) : ROp → GState
  | .sub ev => { s with conn := afterSub s.conn ev s.removers.length, removers := s.removers ++ [(some ev, s.conn.callbackID)] }
  | .subAll => { s with conn := afterSubAll s.conn s.removers.length, removers := s.removers ++ [(none, s.conn.callbackID)] }
  | .unsub k =>
    match s.removers[k]? with
    | some (some ev, id) => { s with conn := afterUnsub s.conn ev id }
    | some (none, id) => { s with conn := afterUnsubAll s.conn id }
    | none => s
  | .event ty => { s with conn := logged s.conn (callsAt ord s.conn ty), log := s.log ++ [(callsAt ord s.conn ty).map (·.1)] }

/-- the same step through the translated text -/
def GState.stepM (fuel : Nat) (ord : Orders) (s : GState) : ROp → GoM GState
  | .sub ev => do
    let r ← Gen.Connection_addSubscriber fuel s.conn ev s.removers.length
    pure { s with conn := r.2, removers := s.removers ++ [(some r.1.1, r.1.2)] }
  | .subAll => do
    let r ← Gen.Connection_addSubscriberToAll fuel s.conn s.removers.length
    pure { s with conn := r.2, removers := s.removers ++ [(none, r.1)] }
  | .unsub k =>
    match s.removers[k]? with
    | some (some ev, id) => do
      let c ← Gen.Connection_removeFromType fuel s.conn ev id
      pure { s with conn := c }
    | some (none, id) => do
      let c ← Gen.Connection_removeFromAll fuel s.conn id
      pure { s with conn := c }
    | none => pure s
  | .event ty => do
    let c ← Gen.Connection_dispatch fuel s.conn (evOf ty) (ord s.conn ty).1 (ord s.conn ty).2
    pure { s with conn := c, log := s.log ++ [(c.cblog.drop s.conn.cblog.length).map (·.1)] }

theorem stepM_eq (fuel : Nat) (ord : Orders) (s : GState) (op : ROp)
    (hf : ∀ ty, op = .event ty → (ord s.conn ty).1.length < fuel ∧ (ord s.conn ty).2.length < fuel) :
    GState.stepM fuel ord s op = .ok (GState.step ord s op) := by
  cases op with
  | sub ev => simp [GState.stepM, GState.step, addSubscriber_eq, afterSub, bind, Except.bind, pure, Except.pure]
  | subAll => simp [GState.stepM, GState.step, addSubscriberToAll_eq, afterSubAll, bind, Except.bind, pure, Except.pure]
  | unsub k =>
    simp only [GState.stepM, GState.step]
    cases h : s.removers[k]? with
    | none => rfl
    | some r =>
      obtain ⟨f, id⟩ := r
      cases f with
      | none => simp [removeFromAll_eq, afterUnsubAll, bind, Except.bind, pure, Except.pure]
      | some ev => simp [removeFromType_eq, afterUnsub, bind, Except.bind, pure, Except.pure]
  | event ty =>
    have h := dispatch_eq fuel s.conn (evOf ty) (ord s.conn ty).1 (ord s.conn ty).2 (hf ty rfl).1 (hf ty rfl).2
    have ht : (evOf ty).Type' = ty := rfl
    rw [ht] at h
    simp only [GState.stepM, GState.step, h, bind, Except.bind, pure, Except.pure, callsAt]
    congr 2
    simp [logged]

/-! ## the invariant -/

structure RInv (s : GState) (sp : SubState) : Prop where
  cnt : s.conn.callbackID = (sp.count : Int)
  len : s.removers.length = sp.count
  ids : ∀ (j : Nat) f id, s.removers[j]? = some (f, id) → id = (j : Int)
  liveRem : ∀ (j : Nat) f, (j, f) ∈ sp.live → s.removers[j]? = some (f, (j : Int))
  typedSlots : ∀ ty (k : Int) (cb : Nat), mapGet (typed s.conn ty) k = some cb ↔ ∃ j : Nat, (j, some ty) ∈ sp.live ∧ k = (j : Int) ∧ cb = j
  allSlots : ∀ (k : Int) (cb : Nat), mapGet s.conn.callbacksAll k = some cb ↔ ∃ j : Nat, (j, none) ∈ sp.live ∧ k = (j : Int) ∧ cb = j
  nodup : (sp.live.map (·.1)).Nodup
  bound : ∀ (j : Nat) f, (j, f) ∈ sp.live → j < sp.count

def GState.init : GState := ⟨⟨(), none, [], [], [], (), (), (), 0, false, []⟩, [], []⟩

theorem rinv_init : RInv GState.init {} := by
  refine ⟨rfl, rfl, ?_, ?_, ?_, ?_, ?_, ?_⟩
  · intro j f id h; simp [GState.init] at h
  · intro j f h; simp at h
  · intro ty k cb
    simp [GState.init, typed, inner, get_nil]
  · intro k cb
    simp [GState.init, get_nil]
  · simp
  · intro j f h; simp at h

theorem fst_unique {l : List (Nat × Option Bytes)} (hn : (l.map (·.1)).Nodup) {j : Nat} {f f' : Option Bytes}
    (h : (j, f) ∈ l) (h' : (j, f') ∈ l) : f = f' := by
  induction l with
  | nil => cases h
  | cons a l ih =>
    simp only [List.map_cons, List.nodup_cons, List.mem_map, not_exists, not_and] at hn
    cases h with
    | head =>
      cases h' with
      | head => rfl
      | tail _ hm => exact absurd rfl (hn.1 (j, f') hm)
    | tail _ hm =>
      cases h' with
      | head => exact absurd rfl (hn.1 (j, f) hm)
      | tail _ hm' => exact ih hn.2 hm hm'

theorem rinv_sub (s : GState) (sp : SubState) (ord : Orders) (ev : Bytes) (h : RInv s sp) :
    RInv (s.step ord (.sub ev)) (sp.step (.sub ev)) := by
  have hlen := h.len
  have hcnt := h.cnt
  refine ⟨?_, ?_, ?_, ?_, ?_, ?_, ?_, ?_⟩
  · show s.conn.callbackID + 1 = ((sp.count + 1 : Nat) : Int)
    omega
  · show (s.removers ++ [_]).length = sp.count + 1
    simp [hlen]
  · intro j f id hj
    have hj' : (s.removers ++ [(some ev, s.conn.callbackID)])[j]? = some (f, id) := hj
    rw [List.getElem?_append] at hj'
    by_cases hlt : j < s.removers.length
    · simp only [hlt, if_true] at hj'
      exact h.ids j f id hj'
    · simp only [hlt, if_false] at hj'
      by_cases hz : j - s.removers.length = 0
      · rw [hz] at hj'
        simp at hj'
        rw [← hj'.2, hcnt]
        have : j = sp.count := by omega
        rw [this]
      · have : ([(some ev, s.conn.callbackID)] : List (Option Bytes × Int))[j - s.removers.length]? = none := by
          apply List.getElem?_eq_none; simp; omega
        rw [this] at hj'; cases hj'
  · intro j f hm
    have hm' : (j, f) ∈ sp.live ++ [(sp.count, some ev)] := hm
    show (s.removers ++ [(some ev, s.conn.callbackID)])[j]? = some (f, (j : Int))
    rw [List.getElem?_append]
    rcases List.mem_append.mp hm' with hl | hr
    · have hb := h.bound j f hl
      have hlt : j < s.removers.length := by omega
      simp only [hlt, if_true]
      exact h.liveRem j f hl
    · simp at hr
      obtain ⟨rfl, rfl⟩ := hr
      have hlt : ¬ sp.count < s.removers.length := by omega
      simp only [hlt, if_false]
      have : sp.count - s.removers.length = 0 := by omega
      rw [this]
      simp [hcnt]
  · intro ty k cb
    show mapGet (typed (afterSub s.conn ev s.removers.length) ty) k = some cb ↔
      ∃ j : Nat, (j, some ty) ∈ sp.live ++ [(sp.count, some ev)] ∧ k = (j : Int) ∧ cb = j
    by_cases he : ty = ev ∧ k = s.conn.callbackID
    · obtain ⟨rfl, rfl⟩ := he
      rw [sub_self]
      constructor
      · intro hc
        have : s.removers.length = cb := by simpa using hc
        exact ⟨sp.count, by simp, hcnt, by omega⟩
      · rintro ⟨j, _, hk, hcb⟩
        have : j = sp.count := by omega
        subst hcb; simp; omega
    · have he' : ty ≠ ev ∨ k ≠ s.conn.callbackID := by
        by_cases ht : ty = ev
        · exact Or.inr (fun hk => he ⟨ht, hk⟩)
        · exact Or.inl ht
      rw [sub_other _ _ _ _ _ he', h.typedSlots]
      constructor
      · rintro ⟨j, hm, hk, hcb⟩
        exact ⟨j, List.mem_append_left _ hm, hk, hcb⟩
      · rintro ⟨j, hm, hk, hcb⟩
        rcases List.mem_append.mp hm with hl | hr
        · exact ⟨j, hl, hk, hcb⟩
        · simp at hr
          obtain ⟨rfl, rfl⟩ := hr
          exfalso
          apply he
          exact ⟨rfl, by omega⟩
  · intro k cb
    show mapGet s.conn.callbacksAll k = some cb ↔ ∃ j : Nat, (j, none) ∈ sp.live ++ [(sp.count, some ev)] ∧ k = (j : Int) ∧ cb = j
    rw [h.allSlots]
    constructor
    · rintro ⟨j, hm, hk, hcb⟩
      exact ⟨j, List.mem_append_left _ hm, hk, hcb⟩
    · rintro ⟨j, hm, hk, hcb⟩
      rcases List.mem_append.mp hm with hl | hr
      · exact ⟨j, hl, hk, hcb⟩
      · simp at hr
  · show ((sp.live ++ [(sp.count, some ev)]).map (·.1)).Nodup
    rw [List.map_append, List.nodup_append]
    refine ⟨h.nodup, by simp, ?_⟩
    intro a ha b hb
    simp at hb
    subst hb
    obtain ⟨x, hx, rfl⟩ := List.mem_map.mp ha
    have := h.bound x.1 x.2 hx
    omega
  · intro j f hm
    have hm' : (j, f) ∈ sp.live ++ [(sp.count, some ev)] := hm
    show j < sp.count + 1
    rcases List.mem_append.mp hm' with hl | hr
    · have := h.bound j f hl; omega
    · simp at hr; omega

theorem rinv_subAll (s : GState) (sp : SubState) (ord : Orders) (h : RInv s sp) :
    RInv (s.step ord .subAll) (sp.step .subAll) := by
  have hlen := h.len
  have hcnt := h.cnt
  refine ⟨?_, ?_, ?_, ?_, ?_, ?_, ?_, ?_⟩
  · show s.conn.callbackID + 1 = ((sp.count + 1 : Nat) : Int)
    omega
  · show (s.removers ++ [_]).length = sp.count + 1
    simp [hlen]
  · intro j f id hj
    have hj' : (s.removers ++ [(none, s.conn.callbackID)])[j]? = some (f, id) := hj
    rw [List.getElem?_append] at hj'
    by_cases hlt : j < s.removers.length
    · simp only [hlt, if_true] at hj'
      exact h.ids j f id hj'
    · simp only [hlt, if_false] at hj'
      by_cases hz : j - s.removers.length = 0
      · rw [hz] at hj'
        simp at hj'
        rw [← hj'.2, hcnt]
        have : j = sp.count := by omega
        rw [this]
      · have : ([(none, s.conn.callbackID)] : List (Option Bytes × Int))[j - s.removers.length]? = none := by
          apply List.getElem?_eq_none; simp; omega
        rw [this] at hj'; cases hj'
  · intro j f hm
    have hm' : (j, f) ∈ sp.live ++ [(sp.count, none)] := hm
    show (s.removers ++ [(none, s.conn.callbackID)])[j]? = some (f, (j : Int))
    rw [List.getElem?_append]
    rcases List.mem_append.mp hm' with hl | hr
    · have hb := h.bound j f hl
      have hlt : j < s.removers.length := by omega
      simp only [hlt, if_true]
      exact h.liveRem j f hl
    · simp at hr
      obtain ⟨rfl, rfl⟩ := hr
      have hlt : ¬ sp.count < s.removers.length := by omega
      simp only [hlt, if_false]
      have : sp.count - s.removers.length = 0 := by omega
      rw [this]
      simp [hcnt]
  · intro ty k cb
    show mapGet (typed s.conn ty) k = some cb ↔ ∃ j : Nat, (j, some ty) ∈ sp.live ++ [(sp.count, none)] ∧ k = (j : Int) ∧ cb = j
    rw [h.typedSlots]
    constructor
    · rintro ⟨j, hm, hk, hcb⟩
      exact ⟨j, List.mem_append_left _ hm, hk, hcb⟩
    · rintro ⟨j, hm, hk, hcb⟩
      rcases List.mem_append.mp hm with hl | hr
      · exact ⟨j, hl, hk, hcb⟩
      · simp at hr
  · intro k cb
    show mapGet (afterSubAll s.conn s.removers.length).callbacksAll k = some cb ↔
      ∃ j : Nat, (j, none) ∈ sp.live ++ [(sp.count, none)] ∧ k = (j : Int) ∧ cb = j
    by_cases he : k = s.conn.callbackID
    · subst he
      rw [subAll_self]
      constructor
      · intro hc
        have : s.removers.length = cb := by simpa using hc
        exact ⟨sp.count, by simp, hcnt, by omega⟩
      · rintro ⟨j, _, hk, hcb⟩
        have : j = sp.count := by omega
        subst hcb; simp; omega
    · rw [subAll_other _ _ _ he, h.allSlots]
      constructor
      · rintro ⟨j, hm, hk, hcb⟩
        exact ⟨j, List.mem_append_left _ hm, hk, hcb⟩
      · rintro ⟨j, hm, hk, hcb⟩
        rcases List.mem_append.mp hm with hl | hr
        · exact ⟨j, hl, hk, hcb⟩
        · simp at hr
          exfalso; apply he; omega
  · show ((sp.live ++ [(sp.count, (none : Option Bytes))]).map (·.1)).Nodup
    rw [List.map_append, List.nodup_append]
    refine ⟨h.nodup, by simp, ?_⟩
    intro a ha b hb
    simp at hb
    subst hb
    obtain ⟨x, hx, rfl⟩ := List.mem_map.mp ha
    have := h.bound x.1 x.2 hx
    omega
  · intro j f hm
    have hm' : (j, f) ∈ sp.live ++ [(sp.count, none)] := hm
    show j < sp.count + 1
    rcases List.mem_append.mp hm' with hl | hr
    · have := h.bound j f hl; omega
    · simp at hr; omega

theorem filter_ne_nodup (l : List (Nat × Option Bytes)) (k : Nat) (hn : (l.map (·.1)).Nodup) :
    ((l.filter (fun x => x.1 != k)).map (·.1)).Nodup :=
  List.Nodup.sublist (List.Sublist.map _ List.filter_sublist) hn

theorem mem_filter_ne (l : List (Nat × Option Bytes)) (k j : Nat) (f : Option Bytes) :
    (j, f) ∈ l.filter (fun x => x.1 != k) ↔ (j, f) ∈ l ∧ j ≠ k := by
  simp [List.mem_filter]

theorem rinv_unsub (s : GState) (sp : SubState) (ord : Orders) (k : Nat) (h : RInv s sp) :
    RInv (s.step ord (.unsub k)) (sp.step (.unsub k)) := by
  have hlive : (sp.step (.unsub k)).live = sp.live.filter (fun x => x.1 != k) := rfl
  have hcount : (sp.step (.unsub k)).count = sp.count := rfl
  cases hr : s.removers[k]? with
  | none =>
    have hs : s.step ord (.unsub k) = s := by simp [GState.step, hr]
    rw [hs]
    have hk : sp.count ≤ k := by
      have := List.getElem?_eq_none_iff.mp hr
      have := h.len; omega
    have hf : sp.live.filter (fun x => x.1 != k) = sp.live := by
      rw [List.filter_eq_self]
      intro a ha
      have := h.bound a.1 a.2 ha
      simp; omega
    have hsp : sp.step (.unsub k) = sp := by
      show { sp with live := sp.live.filter (fun x => x.1 != k) } = sp
      rw [hf]
    rw [hsp]; exact h
  | some r =>
    obtain ⟨f, id⟩ := r
    have hid : id = (k : Int) := h.ids k f id hr
    subst hid
    -- the k-th subscription, if live, has filter f
    have hfilt : ∀ f', (k, f') ∈ sp.live → f' = f := by
      intro f' hm
      have := h.liveRem k f' hm
      rw [hr] at this
      simp at this
      exact this.symm
    cases f with
    | some ev =>
      have hs : s.step ord (.unsub k) = { s with conn := afterUnsub s.conn ev (k : Int) } := by simp [GState.step, hr]
      rw [hs]
      refine ⟨h.cnt, h.len, h.ids, ?_, ?_, ?_, ?_, ?_⟩
      · intro j f' hm
        rw [hlive, mem_filter_ne] at hm
        exact h.liveRem j f' hm.1
      · intro ty k' cb
        show mapGet (typed (afterUnsub s.conn ev (k : Int)) ty) k' = some cb ↔ _
        rw [unsub_lookup, hlive]
        by_cases he : ty = ev ∧ k' = (k : Int)
        · simp only [he, and_self, if_true]
          constructor
          · intro hc; cases hc
          · rintro ⟨j, hm, hk, _⟩
            rw [mem_filter_ne] at hm
            exfalso; apply hm.2; omega
        · simp only [he, if_false, h.typedSlots]
          constructor
          · rintro ⟨j, hm, hk, hcb⟩
            refine ⟨j, ?_, hk, hcb⟩
            rw [mem_filter_ne]
            refine ⟨hm, ?_⟩
            intro hjk
            subst hjk
            have := hfilt _ hm
            simp at this
            exact he ⟨this, hk⟩
          · rintro ⟨j, hm, hk, hcb⟩
            rw [mem_filter_ne] at hm
            exact ⟨j, hm.1, hk, hcb⟩
      · intro k' cb
        show mapGet s.conn.callbacksAll k' = some cb ↔ _
        rw [h.allSlots, hlive]
        constructor
        · rintro ⟨j, hm, hk, hcb⟩
          refine ⟨j, ?_, hk, hcb⟩
          rw [mem_filter_ne]
          refine ⟨hm, ?_⟩
          intro hjk
          subst hjk
          have := hfilt _ hm
          simp at this
        · rintro ⟨j, hm, hk, hcb⟩
          rw [mem_filter_ne] at hm
          exact ⟨j, hm.1, hk, hcb⟩
      · rw [hlive]; exact filter_ne_nodup _ _ h.nodup
      · intro j f' hm
        rw [hlive, mem_filter_ne] at hm
        exact h.bound j f' hm.1
    | none =>
      have hs : s.step ord (.unsub k) = { s with conn := afterUnsubAll s.conn (k : Int) } := by simp [GState.step, hr]
      rw [hs]
      refine ⟨h.cnt, h.len, h.ids, ?_, ?_, ?_, ?_, ?_⟩
      · intro j f' hm
        rw [hlive, mem_filter_ne] at hm
        exact h.liveRem j f' hm.1
      · intro ty k' cb
        show mapGet (typed s.conn ty) k' = some cb ↔ _
        rw [h.typedSlots, hlive]
        constructor
        · rintro ⟨j, hm, hk, hcb⟩
          refine ⟨j, ?_, hk, hcb⟩
          rw [mem_filter_ne]
          refine ⟨hm, ?_⟩
          intro hjk
          subst hjk
          have := hfilt _ hm
          simp at this
        · rintro ⟨j, hm, hk, hcb⟩
          rw [mem_filter_ne] at hm
          exact ⟨j, hm.1, hk, hcb⟩
      · intro k' cb
        show mapGet (afterUnsubAll s.conn (k : Int)).callbacksAll k' = some cb ↔ _
        rw [unsubAll_lookup, hlive]
        by_cases he : k' = (k : Int)
        · simp only [he, if_true]
          constructor
          · intro hc; cases hc
          · rintro ⟨j, hm, hk, _⟩
            rw [mem_filter_ne] at hm
            exfalso; apply hm.2; omega
        · simp only [he, if_false, h.allSlots]
          constructor
          · rintro ⟨j, hm, hk, hcb⟩
            refine ⟨j, ?_, hk, hcb⟩
            rw [mem_filter_ne]
            refine ⟨hm, ?_⟩
            intro hjk
            subst hjk
            exact he hk
          · rintro ⟨j, hm, hk, hcb⟩
            rw [mem_filter_ne] at hm
            exact ⟨j, hm.1, hk, hcb⟩
      · rw [hlive]; exact filter_ne_nodup _ _ h.nodup
      · intro j f' hm
        rw [hlive, mem_filter_ne] at hm
        exact h.bound j f' hm.1

theorem rinv_event (s : GState) (sp : SubState) (ord : Orders) (ty : Bytes) (h : RInv s sp) :
    RInv (s.step ord (.event ty)) (sp.step (.event ty)) :=
  ⟨h.cnt, h.len, h.ids, h.liveRem, h.typedSlots, h.allSlots, h.nodup, h.bound⟩

theorem rinv_step (s : GState) (sp : SubState) (ord : Orders) (op : ROp) (h : RInv s sp) :
    RInv (s.step ord op) (sp.step op) := by
  cases op with
  | sub ev => exact rinv_sub s sp ord ev h
  | subAll => exact rinv_subAll s sp ord h
  | unsub k => exact rinv_unsub s sp ord k h
  | event ty => exact rinv_event s sp ord ty h

/-! ## what an event is handed to -/

theorem callsOf_fst (m : List (Int × Nat)) (o : List Int) (ev : Gen.Event) :
    (callsOf m o ev).map (·.1) = o.filterMap (fun k => mapGet m k) := by
  simp [callsOf, List.map_map, Function.comp_def]

theorem nodup_filterMap_of_inj {α β : Type} (f : α → Option β) (l : List α) (hl : l.Nodup)
    (hinj : ∀ a a' b, f a = some b → f a' = some b → a = a') : (l.filterMap f).Nodup := by
  induction l with
  | nil => simp
  | cons a l ih =>
    rw [List.nodup_cons] at hl
    rw [List.filterMap_cons]
    cases hfa : f a with
    | none => exact ih hl.2
    | some b =>
      simp only
      rw [List.nodup_cons]
      refine ⟨?_, ih hl.2⟩
      intro hb
      obtain ⟨a', ha', hfa'⟩ := List.mem_filterMap.mp hb
      have := hinj a a' b hfa hfa'
      subst this
      exact hl.1 ha'

theorem event_perm (s : GState) (sp : SubState) (ord : Orders) (hc : Covers ord) (ty : Bytes) (h : RInv s sp) :
    ((callsAt ord s.conn ty).map (·.1)).Perm ((sp.live.filter (matchesSub ty)).map (·.1)) := by
  obtain ⟨hn1, hm1, hn2, hm2⟩ := hc s.conn ty
  have hL : (callsAt ord s.conn ty).map (·.1) =
      (ord s.conn ty).1.filterMap (fun k => mapGet (typed s.conn ty) k) ++
      (ord s.conn ty).2.filterMap (fun k => mapGet s.conn.callbacksAll k) := by
    simp only [callsAt, List.map_append, callsOf_fst]
  rw [hL]
  -- membership in the two parts
  have mem1 : ∀ cb : Nat, cb ∈ (ord s.conn ty).1.filterMap (fun k => mapGet (typed s.conn ty) k) ↔ (cb, some ty) ∈ sp.live := by
    intro cb
    rw [List.mem_filterMap]
    constructor
    · rintro ⟨k, _, hg⟩
      obtain ⟨j, hm, _, hcb⟩ := (h.typedSlots ty k cb).mp hg
      subst hcb; exact hm
    · intro hm
      have hg : mapGet (typed s.conn ty) (cb : Int) = some cb := (h.typedSlots ty cb cb).mpr ⟨cb, hm, rfl, rfl⟩
      exact ⟨(cb : Int), (hm1 _).mpr (by simp [hg]), hg⟩
  have mem2 : ∀ cb : Nat, cb ∈ (ord s.conn ty).2.filterMap (fun k => mapGet s.conn.callbacksAll k) ↔ (cb, none) ∈ sp.live := by
    intro cb
    rw [List.mem_filterMap]
    constructor
    · rintro ⟨k, _, hg⟩
      obtain ⟨j, hm, _, hcb⟩ := (h.allSlots k cb).mp hg
      subst hcb; exact hm
    · intro hm
      have hg : mapGet s.conn.callbacksAll (cb : Int) = some cb := (h.allSlots cb cb).mpr ⟨cb, hm, rfl, rfl⟩
      exact ⟨(cb : Int), (hm2 _).mpr (by simp [hg]), hg⟩
  rw [List.perm_ext_iff_of_nodup]
  · intro cb
    rw [List.mem_append, mem1, mem2, List.mem_map]
    constructor
    · rintro (hm | hm)
      · exact ⟨(cb, some ty), List.mem_filter.mpr ⟨hm, by simp [matchesSub]⟩, rfl⟩
      · exact ⟨(cb, none), List.mem_filter.mpr ⟨hm, by simp [matchesSub]⟩, rfl⟩
    · rintro ⟨⟨j, f⟩, hm, rfl⟩
      obtain ⟨hml, hmatch⟩ := List.mem_filter.mp hm
      cases f with
      | none => exact Or.inr hml
      | some t =>
        have : t = ty := by simpa [matchesSub] using hmatch
        subst this
        exact Or.inl hml
  · rw [List.nodup_append]
    refine ⟨?_, ?_, ?_⟩
    · apply nodup_filterMap_of_inj _ _ hn1
      intro a a' b ha ha'
      obtain ⟨j, _, hk, hcb⟩ := (h.typedSlots ty a b).mp ha
      obtain ⟨j', _, hk', hcb'⟩ := (h.typedSlots ty a' b).mp ha'
      omega
    · apply nodup_filterMap_of_inj _ _ hn2
      intro a a' b ha ha'
      obtain ⟨j, _, hk, hcb⟩ := (h.allSlots a b).mp ha
      obtain ⟨j', _, hk', hcb'⟩ := (h.allSlots a' b).mp ha'
      omega
    · intro a ha b hb hab
      subst hab
      have h1 := (mem1 a).mp ha
      have h2 := (mem2 a).mp hb
      have := fst_unique h.nodup h1 h2
      cases this
  · exact List.Nodup.sublist (List.Sublist.map _ List.filter_sublist) h.nodup

theorem run_from (ord : Orders) (hc : Covers ord) (ops : List ROp) (s : GState) (sp : SubState) (h : RInv s sp)
    (hl : LogsPerm s.log sp.log) :
    RInv (ops.foldl (GState.step ord) s) (ops.foldl SubState.step sp) ∧
    LogsPerm (ops.foldl (GState.step ord) s).log (ops.foldl SubState.step sp).log := by
  induction ops generalizing s sp with
  | nil => exact ⟨h, hl⟩
  | cons op ops ih =>
    apply ih _ _ (rinv_step s sp ord op h)
    cases op with
    | event ty =>
      show LogsPerm (s.log ++ [_]) (sp.log ++ [_])
      exact GoSSE.Proofs.ClientRegistry.LogsPerm.append hl
        (GoSSE.Proofs.ClientRegistry.LogsPerm.cons (event_perm s sp ord hc ty h) GoSSE.Proofs.ClientRegistry.LogsPerm.nil)
    | sub ev => exact hl
    | subAll => exact hl
    | unsub k =>
      have : (s.step ord (.unsub k)).log = s.log := by
        simp only [GState.step]
        split <;> rfl
      rw [this]; exact hl

/-- **Scripts over the translated registry refine the specification.** -/
theorem run_refines (ord : Orders) (hc : Covers ord) (ops : List ROp) :
    RInv (ops.foldl (GState.step ord) GState.init) (specScript ops) ∧
    LogsPerm (ops.foldl (GState.step ord) GState.init).log (specScript ops).log :=
  run_from ord hc ops GState.init {} rinv_init GoSSE.Proofs.ClientRegistry.LogsPerm.nil

/-- fuel enough for the loops of the step at hand (only `dispatch` has loops: one round per visited key, and one to stop) -/
def fuelFor (ord : Orders) (s : GState) : ROp → Nat
  | .event ty => (ord s.conn ty).1.length + (ord s.conn ty).2.length + 1
  | _ => 0

/-- the whole script through the translated text -/
def runM (ord : Orders) : List ROp → GState → GoM GState
  | [], s => pure s
  | op :: ops, s => do
    let s' ← GState.stepM (fuelFor ord s op) ord s op
    runM ord ops s'

theorem runM_eq (ord : Orders) (ops : List ROp) (s : GState) : runM ord ops s = .ok (ops.foldl (GState.step ord) s) := by
  induction ops generalizing s with
  | nil => rfl
  | cons op ops ih =>
    have hf : ∀ ty, op = .event ty → (ord s.conn ty).1.length < fuelFor ord s op ∧ (ord s.conn ty).2.length < fuelFor ord s op := by
      intro ty he; subst he; simp only [fuelFor]; omega
    simp only [runM, stepM_eq _ ord s op hf, bind, Except.bind, List.foldl_cons]
    exact ih _

/-! ## an oracle that covers: the keys in list order, duplicates dropped -/

theorem nodup_eraseDups : ∀ (n : Nat) (l : List Int), l.length ≤ n → l.eraseDups.Nodup
  | 0, l, h => by
    have : l = [] := List.length_eq_zero_iff.mp (by omega)
    subst this; simp
  | n + 1, [], _ => by simp
  | n + 1, a :: as, h => by
    rw [List.eraseDups_cons, List.nodup_cons]
    refine ⟨?_, nodup_eraseDups n _ ?_⟩
    · intro hm
      rw [List.mem_eraseDups, List.mem_filter] at hm
      simp at hm
    · have h1 : (as.filter fun b => b != a).length ≤ as.length := List.length_filter_le _ as
      have h2 : as.length ≤ n := by simpa using h
      exact Nat.le_trans h1 h2

theorem mem_keys_iff (m : List (Int × Nat)) (k : Int) : k ∈ m.map (·.1) ↔ (mapGet m k).isSome = true := by
  induction m with
  | nil => simp [get_nil]
  | cons e m ih =>
    obtain ⟨a, b⟩ := e
    rw [List.map_cons, List.mem_cons, get_cons, ih]
    by_cases hak : a = k
    · simp [hak]
    · have : ¬ k = a := fun e => hak e.symm
      simp [hak, this]

def canonOrders : Orders := fun c ty => (((typed c ty).map (·.1)).eraseDups, (c.callbacksAll.map (·.1)).eraseDups)

theorem covers_canon : Covers canonOrders := by
  intro c ty
  refine ⟨nodup_eraseDups _ _ (Nat.le_refl _), ?_, nodup_eraseDups _ _ (Nat.le_refl _), ?_⟩
  · intro k; show k ∈ ((typed c ty).map (·.1)).eraseDups ↔ _
    rw [List.mem_eraseDups, mem_keys_iff]
  · intro k; show k ∈ (c.callbacksAll.map (·.1)).eraseDups ↔ _
    rw [List.mem_eraseDups, mem_keys_iff]

end GoSSE.GenEquiv
