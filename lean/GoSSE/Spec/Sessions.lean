/-!
# Specification: the sessions of a reconnecting client (C05)

The published log is a list of (unique) event IDs. In one session the server sends the log entries after
the presented ID (a conforming replayer, then live delivery: C04), the client dispatches the first `k` of
them (a prefix of complete messages) and remembers the ID of the last one it dispatched (C10).
-/
namespace GoSSE.Proofs

section Sessions
variable {ι : Type} [DecidableEq ι]

/-- the entries of the log after the one with the given ID (nothing if absent) -/
def afterG (L : List ι) (k : ι) : List ι := (L.dropWhile (· != k)).drop 1

def playSessions (L : List ι) : ι → List Nat → List ι × ι
  | cur, [] => ([], cur)
  | cur, k :: ks =>
    let seg := (afterG L cur).take k
    let cur' := seg.getLast?.getD cur
    let r := playSessions L cur' ks
    (seg ++ r.1, r.2)

end Sessions

end GoSSE.Proofs
