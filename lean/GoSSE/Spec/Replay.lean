import GoSSE.Basic
/-!
# Specification: what a replayer stores and what it replays  (C08, C09, C18; `ReplaySpec` of C04)

The state of a replayer is a plain list of stored entries, oldest first.

* `put` appends the ID-carrying copy of the message; a `FiniteReplayer` of capacity `N`
  keeps the last `N` (`takeLast`), a `ValidReplayer` stamps `exp = now + ttl`.
* `gc now` (ValidReplayer only) drops the expired entries from the front.
* `replay auto id topics now` = the entries *after* the presented ID (`after`), filtered
  by topics and (ValidReplayer) by `exp > now`.

`after`, manual IDs: the entries behind the first (oldest) stored entry whose ID is the
presented one; nothing if there is none (unset, never issued, evicted) or it is the newest.
`after`, automatic IDs: IDs are decimal numbers; the stored entries whose number is greater
than the presented number (so: nothing for the newest and for numbers not yet issued,
everything stored for a number below the oldest stored one, `"007"` denotes 7); nothing if
the presented ID is not a decimal `uint64`.
-/
namespace GoSSE.Spec

/-- `EventID`: `none` = unset, `some v` = set with value `v` (possibly empty). -/
abbrev EventID := Option Bytes

/-- A stored event: `msg` is the identity of the message (which `Put` created it). -/
structure Entry where
  msg : Nat
  id : EventID
  topics : List Bytes
  exp : Int := 0
deriving DecidableEq, Repr, Inhabited

inductive PutErr | noTopic | noID | hasID
deriving DecidableEq, Repr

/-- the last `n` elements -/
def takeLast (n : Nat) (l : List α) : List α := l.drop (l.length - n)

/-- decimal numeral of `n`, no leading zeros -/
def decimal (n : Nat) : Bytes :=
  if n < 10 then [UInt8.ofNat (48 + n)] else decimal (n / 10) ++ [UInt8.ofNat (48 + n % 10)]
termination_by n
decreasing_by omega

/-- the number a string of ASCII digits denotes, if it fits a `uint64` -/
def decimal? (s : Bytes) : Option Nat :=
  if !s.isEmpty && s.all isDigit && digitsVal s ≤ maxUint64 then some (digitsVal s) else none

def idNum (id : EventID) : Option Nat := id.bind decimal?

/-- the subscription's topics and the entry's topics have an element in common -/
def matchesTopics (sub : List Bytes) (e : Entry) : Bool := sub.any fun t => e.topics.contains t

/-- manual IDs: what follows the first entry carrying `id` -/
def afterManual (id : EventID) : List Entry → List Entry
  | [] => []
  | e :: t => if e.id = id then t else afterManual id t

/-- automatic IDs: the entries numbered above the presented number -/
def afterAuto (id : EventID) (l : List Entry) : List Entry :=
  match idNum id with
  | none => []
  | some n => l.filter fun e => decide (n < (idNum e.id).getD 0)

def after (auto : Bool) (id : EventID) (l : List Entry) : List Entry :=
  if auto then afterAuto id l else afterManual id l

/-- the events a `Replay` must send, in order; `live` is the expiry test at the moment of
the call (`fun _ => true` for a FiniteReplayer) -/
def replay (auto : Bool) (live : Entry → Bool) (l : List Entry) (id : EventID) (topics : List Bytes) :
    List Entry :=
  (after auto id l).filter fun e => live e && matchesTopics topics e

/-! ### the subscriber: a `MessageWriter` whose `failAt`-th `Send` (0-based) fails, and whose `Flush` may -/
structure Sub where
  lastEventID : EventID
  topics : List Bytes
  failAt : Option Nat
  flushFails : Bool
deriving Repr

inductive Call where
  | send (e : Entry)
  | flush
deriving Repr, DecidableEq

inductive RErr | nil | send | flush
deriving Repr, DecidableEq

structure ReplayOut where
  calls : List Call
  err : RErr
deriving Repr, DecidableEq

/-- what `Replay` does to the subscriber: nothing at all if the presented ID gives no starting
point (`started = false`: nothing stored after it); otherwise the sends in order up to and
including the first failing one (whose error is returned), and one `Flush` iff no send failed. -/
def serve (sub : Sub) (started : Bool) (sends : List Entry) : ReplayOut :=
  if !started then { calls := [], err := .nil } else
  match sub.failAt with
  | some k =>
    if k < sends.length then { calls := (sends.take (k + 1)).map .send, err := .send }
    else { calls := sends.map .send ++ [.flush], err := if sub.flushFails then .flush else .nil }
  | none => { calls := sends.map .send ++ [.flush], err := if sub.flushFails then .flush else .nil }

/-- `Replay` as the specification prescribes it -/
def replayOut (auto : Bool) (live : Entry → Bool) (l : List Entry) (sub : Sub) : ReplayOut :=
  serve sub (!(after auto sub.lastEventID l).isEmpty) (replay auto live l sub.lastEventID sub.topics)

/-- ID validation / assignment: `next = none` is manual mode, `some k` the next automatic ID -/
def assignID (next : Option Nat) (id : EventID) : Except PutErr (EventID × Option Nat) :=
  match next with
  | none => if id.isSome then .ok (id, none) else .error .noID
  | some k => if id.isSome then .error .hasID else .ok (some (decimal k), some (k + 1))

/-- state of a replayer: the stored entries and the automatic-ID counter -/
structure State where
  log : List Entry
  next : Option Nat
deriving Repr

def State.init (auto : Bool) : State := { log := [], next := if auto then some 0 else none }

/-- `Put`: rejected (state unchanged) without topics or with a wrong ID; otherwise the
ID-carrying copy is appended, keeping the last `cap` entries if there is a capacity. -/
def put (cap : Option Nat) (s : State) (msg : Nat) (id : EventID) (topics : List Bytes) (exp : Int) :
    Except PutErr Entry × State :=
  if topics.isEmpty then (.error .noTopic, s) else
  match assignID s.next id with
  | .error e => (.error e, s)
  | .ok (id', next') =>
    let e : Entry := { msg, id := id', topics, exp }
    let log := s.log ++ [e]
    (.ok e, { log := match cap with | some n => takeLast n log | none => log, next := next' })

/-- garbage collection of a ValidReplayer: expired entries (a prefix, expiries being
non-decreasing) are dropped -/
def gc (now : Int) (l : List Entry) : List Entry := l.dropWhile fun e => decide (e.exp ≤ now)

/-! ## The two replayers, as the interface Joe's model is parametric in -/

/-- `ReplaySpec`: `put s now msg id topics` and `replay s now id topics`. -/
structure ReplaySpec where
  State : Type
  init : State
  put : State → Int → Nat → EventID → List Bytes → Except PutErr Entry × State
  replay : State → Int → EventID → List Bytes → List Entry
  stored : State → List Entry

def ReplaySpec.finite (n : Nat) (auto : Bool) : ReplaySpec where
  State := Spec.State
  init := .init auto
  put s _ msg id topics := Spec.put (some n) s msg id topics 0
  replay s _ id topics := Spec.replay auto (fun _ => true) s.log id topics
  stored s := s.log

/-- ValidReplayer with explicit collection only (`GCInterval = 0`); see `VState` for Put-triggered GC -/
def ReplaySpec.valid (ttl : Int) (auto : Bool) : ReplaySpec where
  State := Spec.State
  init := .init auto
  put s now msg id topics := Spec.put none s msg id topics (now + ttl)
  replay s now id topics := Spec.replay auto (fun e => decide (e.exp > now)) s.log id topics
  stored s := s.log

/-! ## ValidReplayer with the documented collection schedule

"The replayer removes any expired events when a new event is put and after at least a
GCInterval period passed" (0 disables it); the period is counted from the first Put. -/
structure VState where
  st : State
  lastGC : Option Int
deriving Repr

def VState.init (auto : Bool) : VState := { st := .init auto, lastGC := none }

def vput (ttl gcInterval : Int) (v : VState) (now : Int) (msg : Nat) (id : EventID) (topics : List Bytes) :
    Except PutErr Entry × VState :=
  if topics.isEmpty then (.error .noTopic, v) else
  let last := v.lastGC.getD now
  let due := decide (gcInterval > 0 ∧ now - last ≥ gcInterval)
  let st : State := if due then { v.st with log := gc now v.st.log } else v.st
  let last := if due then now else last
  let r := put none st msg id topics (now + ttl)
  (r.1, { st := r.2, lastGC := some last })

def vgc (v : VState) (now : Int) : VState := { v with st := { v.st with log := gc now v.st.log } }

def vreplay (auto : Bool) (v : VState) (now : Int) (id : EventID) (topics : List Bytes) : List Entry :=
  replay auto (fun e => decide (e.exp > now)) v.st.log id topics

end GoSSE.Spec
