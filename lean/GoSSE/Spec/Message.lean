import GoSSE.Model.Heap
/-!
# Specifications for the message side (C02, C14, C15, C19)

Everything here is stated without reference to how `message.go` is written: lines come from
the WHATWG splitter `splitLines`, events from a three-field description of what the caller
handed to the API, writer accounting from the flat list of `Write` calls, clone families from
plain values.
-/
namespace GoSSE.Spec
open GoSSE GoSSE.Model

/-! ## C02 -/

/-- The lines of an appended string: CR, LF and CRLF each end a line; a non-empty
unterminated tail is a line too. -/
def linesOf (s : Bytes) : List Bytes :=
  let r := splitLines s [] false
  if r.2.isEmpty then r.1 else r.1 ++ [r.2]

/-- LF-join -/
def joinLF : List Bytes → Bytes
  | [] => []
  | l :: ls => match ls with
    | [] => l
    | _ :: _ => l ++ [10] ++ joinLF ls

def hasNewline (v : Bytes) : Bool := v.any fun b => b == 10 || b == 13

/-- What the caller handed to the API, as far as an SSE client may see it. -/
structure Built where
  id : Option Bytes := none
  typ : Option Bytes := none
  dataLines : List Bytes := []
deriving DecidableEq, Repr

def Built.apply (b : Built) : BuildOp → Built
  | .appendData strs => { b with dataLines := b.dataLines ++ strs.flatMap linesOf }
  | .appendComment _ => b
  | .setID v => { b with id := if hasNewline v then none else some v }
  | .setType v => { b with typ := if hasNewline v then none else some v }
  | .setRetry _ => b

def describe (ops : List BuildOp) : Built := ops.foldl Built.apply {}

/-- the ID an SSE client takes from the message: one containing NUL is ignored (WHATWG) -/
def Built.effID (b : Built) : Option Bytes :=
  match b.id with
  | some v => if v.contains 0 then none else some v
  | none => none

/-- does the message make the client dispatch an event? -/
def Built.dispatches (mode : Mode) (b : Built) : Bool :=
  match mode with
  | .whatwg => !b.dataLines.isEmpty
  | .gosse => !b.dataLines.isEmpty || b.typ.isSome || b.effID.isSome

/-- The events a client must see for a sequence of messages: at most one per message,
`Data` the LF-join of the data lines, `Type` and `ID` as set, the last event ID threaded
from message to message. -/
def expected (mode : Mode) : Bytes → List Built → List Out
  | _, [] => []
  | lastID, b :: bs =>
    let id := b.effID.getD lastID
    (if b.dispatches mode then [.event { lastEventID := id, type := b.typ.getD [], data := joinLF b.dataLines }] else [])
      ++ expected mode id bs

/-! ## C15 -/

/-- retry "to the millisecond": whole milliseconds, and a value that is not written reads back as 0 -/
def normaliseRetry (d : Int) : Int :=
  if Int.tdiv d 1000000 ≤ 0 then 0 else Int.tdiv d 1000000 * 1000000

def normalise (m : Message) : Message := { m with retry := normaliseRetry m.retry }

/-- a message with at least one field -/
def hasField (m : Message) : Bool := m.id.set || m.typ.set || decide (m.millis > 0) || !m.chunks.isEmpty

/-- Writing a list of byte strings to an `io.Writer`, stopping at the first error:
the specification of how `WriteTo` must treat its writer. -/
def writeAll {σ ε : Type} (w : Writer σ ε) : WR σ ε → List Bytes → WR σ ε
  | r, [] => r
  | r, p :: ps => if r.err.isSome then r else writeAll w (r.write w p) ps

/-! ## C19: messages as values, no sharing -/

structure PureState where
  fam : List Message := [{}]
  ctr : Nat → Nat := fun _ => 0
  puts : List PutRes := []

def PureState.modify (st : PureState) (i : Nat) (f : Message → Message) : PureState :=
  match st.fam[i]? with
  | none => st
  | some m => { st with fam := st.fam.set i (f m) }

def PureState.step (st : PureState) : FOp → PureState
  | .appendData i s => st.modify i fun m => m.appendData s
  | .appendComment i s => st.modify i fun m => m.appendComment s
  | .setID i v => st.modify i fun m => { m with id := (newID v).1 }
  | .setType i v => st.modify i fun m => { m with typ := (newType v).1 }
  | .setRetry i d => st.modify i fun m => { m with retry := d }
  | .clone i =>
    match st.fam[i]? with
    | none => st
    | some m => { st with fam := st.fam ++ [m] }
  | .put i rep =>
    match st.fam[i]? with
    | none => st
    | some m =>
      if !autoIDs rep then
        { st with puts := st.puts ++ [if m.id.set then .same i else .errNoID] }
      else if m.id.set then { st with puts := st.puts ++ [.errHasID] }
      else
        -- a copy carrying the decimal counter value; the original is untouched
        { st with fam := st.fam ++ [{ m with id := { value := formatUint (st.ctr rep), set := true } }],
                  ctr := fun r => if r = rep then st.ctr rep + 1 else st.ctr r,
                  puts := st.puts ++ [.fresh st.fam.length] }
  | .unmarshal i p => st.modify i fun _ => (Message.unmarshalText p).1

def PureState.run (st : PureState) (ops : List FOp) : PureState := ops.foldl PureState.step st

end GoSSE.Spec
