import GoSSE.Spec.EventStream
/-!
# Specification of the client side: what a `Connection` must do (C10, C11, C12, C13)

Vocabulary of observations (errors, request bodies, trace items) and the *table* the four
properties prescribe, written with closed forms and the WHATWG specification `Spec.run`, not with
the code's mechanisms:

* the request of attempt `i` (C10): header = last dispatched ID of all streams so far (absent iff
  empty), body = a fresh one from `GetBody` per retry;
* how an attempt's outcome is classified (C11): context error / permanent / retryable, the error a
  stream ends with being the specification's end condition;
* the retry schedule (C12): the `k`-th consecutive base is `nextBase^[k-1] b₁`, limits;
* the subscription registry (C13): a flat list of live subscriptions.
-/
namespace GoSSE.Spec.Client
open GoSSE GoSSE.Spec

/-! ## vocabulary -/

inductive ErrV
  | nil | ctx | transport | validator | noGetBody | getBody | eof | ueof | read | tooLong
deriving DecidableEq, Repr

/-- which object `r.Body` is -/
inductive BodyRef | none | noBody | orig | fresh (k : Nat)
deriving DecidableEq, Repr

/-- `r.GetBody`: absent, or present and failing at its `failAt`-th call (0-based), if any -/
inductive GetBody | absent | present (failAt : Option Nat)
deriving DecidableEq, Repr

inductive Reason | resetFailed | connFailed | validation | lost
deriving DecidableEq, Repr

/-- what `Connect` returns / `OnRetry` receives -/
inductive Res
  | bare (e : ErrV)                      -- the error as is (`.bare .nil` = `nil`)
  | wrapped (why : Reason) (e : ErrV)    -- `&ConnectionError{Reason: why, Err: e}`
deriving DecidableEq, Repr

inductive TItem
  | attempt (header : Option Bytes) (body : BodyRef) (getBodyCalls : Nat)   -- `Do` is called with this request
  | connected (outs : List Out)     -- the validator accepted; events dispatched and retry fields seen
  | retry (err : Res) (wait : Int)  -- `OnRetry(err, wait)`, then `t.Reset(wait)`
deriving Repr

def isEvent : Out → Bool
  | .event _ => true
  | _ => false

/-- the ID of the last dispatched event, `cur` if none was dispatched -/
def lastDispatched (cur : Bytes) (outs : List Out) : Bytes :=
  outs.foldl (fun cur o => match o with | .event e => e.lastEventID | _ => cur) cur

def headerOf (id : Bytes) : Option Bytes := if id.isEmpty then none else some id

/-! ## C12: the schedule -/

structure SCfg where
  initialInterval : Int
  maxInterval : Int
  maxElapsedTime : Int
  maxRetries : Int
  jitterOff : Bool
  mul : Int → Int        -- `b ↦ b · Multiplier` (truncated)

/-- `b_(k+1) = min(b_k·Multiplier, MaxInterval)` when `MaxInterval` is set, else `b_k·Multiplier` -/
def nextBase (c : SCfg) (b : Int) : Int :=
  if c.maxInterval > 0 then min (c.mul b) c.maxInterval else c.mul b

/-- the base of the `(k+1)`-th consecutive retry after a connection whose base is `b1` -/
def baseAt (c : SCfg) (b1 : Int) : Nat → Int
  | 0 => b1
  | k + 1 => nextBase c (baseAt c b1 k)

/-- `b₁` after a connection that reported `outs`: the last retry field decides; a positive value (in
ms, as `int64` ns) is taken, anything else (`retry: 0`) restores `InitialInterval`. -/
def retryBase (initial : Int) (outs : List Out) : Int :=
  match (outs.filterMap fun o => match o with | .retry n => some n | _ => none).getLast? with
  | none => initial
  | some n =>
    let d := (((n : Int) * 1000000 + 9223372036854775808) % 18446744073709551616) - 9223372036854775808
    if d > 0 then d else initial

/-- may a `(k+1)`-th consecutive retry be made at all? (`MaxRetries`: <0 none, 0 unbounded) -/
def retryAllowed (c : SCfg) (k : Nat) : Bool :=
  !(c.maxRetries < 0 || (c.maxRetries > 0 && (k : Int) == c.maxRetries))

/-! ## C10/C11: the table -/

inductive SOutcome
  | transport (isCtx : Bool)
  | rejected
  | stream (bytes : Bytes) (ek : EndKind) (errIsCtx : Bool)

structure SAttempt where
  timerWins : Bool
  out : SOutcome
  cancelDuring : Bool
  cancelAfter : Bool
  elapsed : Int           -- time since the current retry series began, when the retry is decided
  wait : Int → Int        -- base ↦ the randomised wait (only used when jitter is on)

/-- the request attempt `i` must carry (C10), or the error that ends `Connect` -/
def requestOf (body0 : BodyRef) (gb : GetBody) (hdr0 : Option Bytes) (i : Nat) (id : Bytes) :
    Except ErrV (Option Bytes × BodyRef × Nat) :=
  if i == 0 then .ok (hdr0, body0, 0)
  else if body0 == .none || body0 == .noBody then .ok (headerOf id, body0, 0)
  else match gb with
    | .absent => .error .noGetBody
    | .present failAt => if failAt == some (i - 1) then .error .getBody else .ok (headerOf id, .fresh i, i)

/-- the error a stream ends with (C11): the specification's end condition; a read error is itself -/
def streamErr (e : EndCond) (errIsCtx : Bool) : ErrV :=
  match e with
  | .clean => .eof
  | .unexpectedEOF => .ueof
  | .readErr => if errIsCtx then .ctx else .read

def specLoop (c : SCfg) (body0 : BodyRef) (gb : GetBody) (hdr0 : Option Bytes) :
    List SAttempt → Nat → Bytes → Nat → Int → Bool → List TItem × Option Res
  | [], _, _, _, _, _ => ([], none)
  | a :: rest, i, id, k, b1, done =>
    if done && !a.timerWins then ([], some (.bare .ctx))
    else match requestOf body0 gb hdr0 i id with
    | .error e => ([], some (.wrapped .resetFailed e))
    | .ok (hdr, body, calls) =>
      let att := TItem.attempt hdr body calls
      let done := done || a.cancelDuring
      -- (items, error, is it final whatever the retry policy says, id, k, b1)
      let row : List TItem × Res × Bool × Bytes × Nat × Int := match a.out with
        | .transport isCtx =>
          if isCtx && done then ([att], .bare .ctx, true, id, k, b1)
          else ([att], .wrapped .connFailed (if isCtx then .ctx else .transport), false, id, k, b1)
        | .rejected => ([att], .wrapped .validation .validator, true, id, k, b1)
        | .stream s ek errIsCtx =>
          let r := run .gosse true id s ek
          let e := streamErr r.2 errIsCtx
          let id' := lastDispatched id r.1
          let b1' := retryBase c.initialInterval r.1
          if e == .ctx && done then ([att, .connected r.1], .bare .ctx, true, id', 0, b1')
          else ([att, .connected r.1], .wrapped .lost e, false, id', 0, b1')
      let (items, err, final, id, k, b1) := row
      if final then (items, some err)
      else if !retryAllowed c k then (items, some err)
      else
        let b := baseAt c b1 k
        let w := if c.jitterOff then b else a.wait b
        if c.maxElapsedTime > 0 && a.elapsed + w > c.maxElapsedTime then (items, some err)
        else
          let q := specLoop c body0 gb hdr0 rest (i + 1) id (k + 1) b1 (done || a.cancelAfter)
          (items ++ TItem.retry err w :: q.1, q.2)

/-- what a `Connection` over request `(hdr0, body0, gb)` must do on a history -/
def specConnect (c : SCfg) (body0 : BodyRef) (gb : GetBody) (hdr0 : Option Bytes) (done0 : Bool)
    (h : List SAttempt) : List TItem × Option Res :=
  specLoop c body0 gb hdr0 h 0 [] 0 c.initialInterval done0

/-! ## C12: `mergeDefaults` as a decision table -/

/-- a float as far as the table needs it -/
inductive FClass | minusOne | nonPositive | unit | geOne | nan
deriving DecidableEq, Repr

/-- which value is in force after `mergeDefaults`: `true` = the user's, `false` = the default -/
def keepInitial (ii : Int) : Bool := ii > 0
def keepMultiplier : FClass → Bool
  | .geOne => true | .nan => true | _ => false
def keepJitter : FClass → Bool
  | .minusOne => true | .unit => true | .nan => true | _ => false

/-! ## C13: subscriptions -/

inductive ROp
  | sub (event : Bytes)     -- SubscribeEvent(event, cb) / SubscribeMessages(cb) for the empty type
  | subAll                  -- SubscribeToAll(cb)
  | unsub (k : Nat)         -- call the remover returned by the k-th subscribe operation of the script
  | event (typ : Bytes)     -- an event of this type is dispatched
deriving Repr, DecidableEq

/-- live subscriptions `(k, filter)`: the `k`-th subscribe operation; `none` = all events -/
structure SubState where
  live : List (Nat × Option Bytes) := []
  count : Nat := 0
  log : List (List Nat) := []      -- per dispatched event: which subscriptions receive it
deriving Repr

def matchesSub (typ : Bytes) (s : Nat × Option Bytes) : Bool :=
  match s.2 with
  | none => true
  | some t => t == typ

def SubState.step (s : SubState) : ROp → SubState
  | .sub ev => { s with live := s.live ++ [(s.count, some ev)], count := s.count + 1 }
  | .subAll => { s with live := s.live ++ [(s.count, none)], count := s.count + 1 }
  | .unsub k => { s with live := s.live.filter (·.1 != k) }
  | .event typ => { s with log := s.log ++ [(s.live.filter (matchesSub typ)).map (·.1)] }

def specScript (ops : List ROp) : SubState := ops.foldl SubState.step {}

end GoSSE.Spec.Client
