import GoSSE.Basic
/-!
# Specification: WHATWG event-stream parsing and interpretation, on bytes

<https://html.spec.whatwg.org/multipage/server-sent-events.html#parsing-an-event-stream>

The specification consumes the stream one byte at a time, so it is independent of
how the bytes were segmented into reads *by construction*.

go-sse's three documented adaptations are parameters:
* `Mode.gosse`: an event is dispatched when any of data/event/id (for connections also
  retry) was seen; `Mode.whatwg`: only when the data buffer is non-empty;
* the type is left empty instead of defaulting to `message` (both modes: the default is
  applied by the consumer, here we report the raw type buffer);
* end of stream: see `run`.
-/
namespace GoSSE.Spec

structure Event where
  lastEventID : Bytes
  type : Bytes
  data : Bytes
deriving DecidableEq, Repr

/-- One BOM is stripped, at the very start of the stream only. -/
def stripBOM (s : Bytes) : Bytes := if bom.isPrefixOf s then s.drop 3 else s

/-- Line splitter: `splitLines s acc skipLF` returns the terminated lines of `s` and the
unterminated rest. CR, LF and CRLF each end a line (`skipLF` swallows the LF of a CRLF). -/
def splitLines : Bytes → Bytes → Bool → List Bytes × Bytes
  | [], acc, _ => ([], acc.reverse)
  | b :: t, acc, skip =>
    if skip && b == 10 then splitLines t acc false
    else if b == 10 then
      let r := splitLines t [] false
      (acc.reverse :: r.1, r.2)
    else if b == 13 then
      let r := splitLines t [] true
      (acc.reverse :: r.1, r.2)
    else splitLines t (b :: acc) false

def dropOneSpace : Bytes → Bytes
  | 32 :: t => t
  | s => s

/-- name and value of a non-empty line; `none` for comment lines (leading colon). -/
def parseLine (l : Bytes) : Option (Bytes × Bytes) :=
  match l.span (· != 58) with
  | (name, []) => some (name, [])
  | (name, _ :: v) => if name.isEmpty then none else some (name, dropOneSpace v)

/-- "if the field value consists of only ASCII digits"; go-sse additionally requires the
value to fit an int64 (recorded as part of the reading of the property). -/
def retryVal (v : Bytes) : Option Nat :=
  if !v.isEmpty && v.all isDigit && digitsVal v ≤ maxInt64 then some (digitsVal v) else none

inductive Mode | gosse | whatwg deriving DecidableEq, Repr

structure IState where
  lastID : Bytes
  typ : Bytes := []
  data : Bytes := []
  dirty : Bool := false
deriving DecidableEq, Repr

inductive Out
  | event (e : Event)
  | retry (ms : Nat)
deriving DecidableEq, Repr

def mkEvent (st : IState) : Event :=
  { lastEventID := st.lastID, type := st.typ, data := st.data.dropLast }

def dispatchable (m : Mode) (st : IState) : Bool :=
  match m with
  | .gosse => st.dirty
  | .whatwg => !st.data.isEmpty

/-- Process one complete line. `conn` says whether retry fields are honoured (Connection)
or ignored (Read). -/
def procLine (m : Mode) (conn : Bool) (st : IState) (l : Bytes) : IState × List Out :=
  if l.isEmpty then
    if dispatchable m st then ({ lastID := st.lastID }, [.event (mkEvent st)])
    else ({ lastID := st.lastID }, [])
  else match parseLine l with
    | none => (st, [])
    | some (name, v) =>
      if name == fData then ({ st with data := st.data ++ v ++ [10], dirty := true }, [])
      else if name == fEvent then ({ st with typ := v, dirty := true }, [])
      else if name == fId then
        if v.contains 0 then (st, []) else ({ st with lastID := v, dirty := true }, [])
      else if name == fRetry then
        match retryVal v with
        | some n => if conn then ({ st with dirty := true }, [.retry n]) else (st, [])
        | none => (st, [])
      else (st, [])

def interp (m : Mode) (conn : Bool) : IState → List Bytes → IState × List Out
  | st, [] => (st, [])
  | st, l :: ls =>
    let r := procLine m conn st l
    let q := interp m conn r.1 ls
    (q.1, r.2 ++ q.2)

/-- how the byte source ended -/
inductive EndKind | eof | err deriving DecidableEq, Repr
/-- what the reader reports at the end -/
inductive EndCond | clean | unexpectedEOF | readErr deriving DecidableEq, Repr

/-- The whole specification. End rule (third adaptation): a read error discards the
pending event and is reported; a clean end with an unterminated last line discards the
pending event and reports `unexpectedEOF`; a clean end otherwise dispatches the pending
event. -/
def run (m : Mode) (conn : Bool) (lastID : Bytes) (s : Bytes) (ek : EndKind) : List Out × EndCond :=
  let ls := splitLines (stripBOM s) [] false
  let r := interp m conn { lastID := lastID } ls.1
  match ek with
  | .err => (r.2, .readErr)
  | .eof =>
    if !ls.2.isEmpty then (r.2, .unexpectedEOF)
    else if dispatchable m r.1 then (r.2 ++ [.event (mkEvent r.1)], .clean)
    else (r.2, .clean)

end GoSSE.Spec
