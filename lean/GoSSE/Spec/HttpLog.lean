import GoSSE.Model.Server
/-!
# Specification C16: what the log of a recording `http.ResponseWriter` must look like

Executable predicates over an *observed* log — they never look at the model's functions, only at
the vocabulary (`Ev`, `Entry`, `Msg`, `encode`, `Shape`). The check evaluates them on what the real
code did (column `S`); `Props/C16` proves that every run of the model satisfies them and what they
mean in plain terms.

An observation of a session is a list of `Entry`: one per `Send`/`Flush` call, with the events
that call caused on the writer and the value it returned.
-/
namespace GoSSE.Spec.HttpLog
open GoSSE GoSSE.Model.Session GoSSE.Model.Server

/-! ## which writer the session must talk to -/

def layers : Shape → List Caps
  | .base c => [c]
  | .wrapped c inner => c :: layers inner

def canFlush : Caps → Bool
  | .plain => false
  | _ => true

def reportsErrors : Caps → Bool
  | .flushError => true
  | .both => true
  | _ => false

/-- The outermost layer that can flush at all (only layers that cannot are unwrapped), through
`FlushError` when that layer has it. `none`: the response writer cannot flush. -/
def resolve (ls : List Caps) : Option Res :=
  match ls.find? canFlush, ls.findIdx? canFlush with
  | some c, some i => some ⟨i, if reportsErrors c then .flushError else .flusher⟩
  | _, _ => none

/-! ## the log of a session -/

/-- where the protocol is: nothing done; header assigned but not flushed; header flushed -/
inductive Phase | fresh | headerSet | upgraded
deriving DecidableEq, Repr

/-- One event of a session's log, seen by the protocol: before the stream starts the only thing
that may happen is "assign `Content-Type: text/event-stream`, then flush" (again after a failed
flush); once that flush has succeeded only body writes and flushes follow — the header is never
assigned again. Everything happens on the session's writer. `none` = not allowed. -/
def stepPhase (res : Res) : Phase → Ev → Option Phase
  | .fresh, .headerSet l k v =>
    if l = res.lvl ∧ k = headerContentType ∧ v = headerContentTypeValue then some .headerSet else none
  | .headerSet, .flush l k err =>
    if l = res.lvl ∧ k = res.kind then some (if err.isNone then .upgraded else .fresh) else none
  | .upgraded, .write l _ _ _ => if l = res.lvl then some .upgraded else none
  | .upgraded, .flush l k _ => if l = res.lvl ∧ k = res.kind then some .upgraded else none
  | _, _ => none

def phases (res : Res) (p : Phase) (evs : List Ev) : Option Phase := evs.foldlM (stepPhase res) p

/-- the first error any writer call of `evs` returned -/
def firstErr (evs : List Ev) : Option Nat := evs.findSome? Ev.err

def isOkFlush : Ev → Bool
  | .flush _ _ none => true
  | _ => false

/-- "the first write or flush error is returned to the caller" -/
def retOK (e : Entry) : Bool := e.ret == firstErr e.evs

/-- "the body is exactly the concatenation of the sent messages' encodings": a `Send` that
returned nil contributed exactly the message's encoding, one that failed a prefix of it,
a `Flush` nothing. -/
def bodyOK (e : Entry) : Bool :=
  match e.op, e.ret with
  | .send m, none => bodyOf e.evs == encode m
  | .send m, some _ => (bodyOf e.evs).isPrefixOf (encode m)
  | .flush, _ => bodyOf e.evs == []

/-- "Flush pushes everything sent so far" (a `Flush` that returned nil ends with a successful
flush of the writer) and does so with one flush, not two -/
def flushOK (e : Entry) : Bool :=
  match e.op with
  | .send _ => true
  | .flush =>
    (e.evs.filter Ev.isFlush).length ≤ 1 &&
    (e.ret.isSome || (match e.evs.getLast? with | some ev => isOkFlush ev | none => false))

/-- verdict on an observed session log -/
def checkSession (res : Res) (obs : List Entry) : String :=
  if (phases res .fresh (trace obs)).isNone then "BAD:header-flush-body-order"
  else if !obs.all retOK then "BAD:first-error-not-returned"
  else if !obs.all bodyOK then "BAD:body-not-concat-of-encodings"
  else if !obs.all flushOK then "BAD:flush"
  else "ok"

/-! ## `ServeHTTP` -/

def hasNewline (v : Bytes) : Bool := v.contains 10 || v.contains 13

/-- the request's Last-Event-ID: the first value under the canonical key, unset when absent, empty
or not a single line -/
def expectedLastEventID (h : Header) : Option Bytes :=
  match h.find? (fun kv => kv.1 == headerLastEventID) with
  | some (_, v :: _) => if v.isEmpty || hasNewline v then none else some v
  | _ => none

/-- the topics chosen by `OnSession`, `DefaultTopic` if none -/
def expectedTopics (onSession : Option OnSessionB) : List Bytes :=
  match onSession with
  | some b => if b.topics.isEmpty then [[]] else b.topics
  | none => [[]]

/-- the response is a 500: the first status written is 500 and no body byte precedes it -/
def answers500 (evs : List Ev) : Bool :=
  match evs.dropWhile Ev.isHeaderSet with
  | .writeHeader _ code :: _ => code == 500
  | _ => false

/-- nothing has been sent yet: all that happened to the writer are header assignments and flushes
that failed -/
def nothingSent (evs : List Ev) : Bool :=
  evs.all fun e => match e with
    | .headerSet .. => true
    | .flush _ _ (some _) => true
    | _ => false

/-- verdict on an observed `ServeHTTP` call. `refused`: the error text `Subscribe` returned, if any. -/
def checkServed (shape : Shape) (h : Header) (onSession : Option OnSessionB) (refused : Bool)
    (o : Served) : String :=
  match resolve (layers shape) with
  | none =>
    -- the response writer cannot flush
    if o.onSessionCalled || o.sub.isSome || !o.obs.isEmpty || !o.pre.isEmpty then "BAD:unsupported-but-used"
    else if !answers500 o.tail then "BAD:no-500-when-unsupported"
    else "ok"
  | some res =>
    let rejected := match onSession with | some b => !b.ok | none => false
    if rejected then
      if o.sub.isSome || !o.obs.isEmpty then "BAD:rejected-but-subscribed"
      else if !o.tail.isEmpty then "BAD:wrote-after-rejection"
      else "ok"
    else
      if o.sub != some ⟨expectedLastEventID h, expectedTopics onSession⟩ then "BAD:subscription-fields"
      else
        let v := checkSession res o.obs
        if v != "ok" then v
        else if refused && nothingSent (o.pre ++ trace o.obs) && !answers500 o.tail then "BAD:no-500-when-refused"
        else "ok"

end GoSSE.Spec.HttpLog
