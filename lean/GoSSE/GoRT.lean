import GoSSE.Basic
/-!
# Go runtime prelude for the generated layer (`GoSSE/Gen/*.lean`)

The translator (`/verif/translate`) turns a fixed list of Go functions of /repo into Lean definitions over
this prelude, on every run. What is *assumed* about Go here (the translator's semantic base, DESIGN.md §4):

* `int` is `Int` (no overflow: none of the translated functions computes beyond lengths of its inputs),
  `byte` is `UInt8`, `string` and `[]byte` are `Bytes` (values; the translated functions never write
  through a slice), `[]string` is `List Bytes`, a slice that is compared with / assigned `nil` is an `Option`;
* indexing and slicing outside `0 ≤ i ≤ j ≤ len` panic (slicing a `[]byte` up to its *capacity* is legal Go,
  so this is stricter than Go: a translated function proved panic-free here is panic-free in Go);
* a `for` loop is `loopM` with explicit fuel: running out of fuel is an error of its own, distinct from a panic,
  and the equivalence theorems give the fuel that suffices;
* `strings.IndexByte`, `strings.HasPrefix`, the `min` builtin, `strconv.ParseUint(s, 10, 64)`, `strconv.FormatUint(n, 10)`:
  re-modelled below;
* `uint64` is `UInt64` (arithmetic modulo 2^64, as in Go); a `*uint64` is an `Option UInt64` (nil or a cell — the
  translated code holds at most one pointer to each cell, so a cell is a value); a pointer to a struct is the struct
  where it is a parameter or receiver (handed in and back, assumed non-nil) and an `Option` where it is a struct
  field, a result or a variable that is given `nil` somewhere; dereferencing `none` panics;
* `time.Time` is an `Int`: nanoseconds since the zero Time, so `IsZero` is `= 0` (`Now()` is assumed never to return
  the zero Time — a hypothesis of the theorems that need it), `Add`/`Sub` are `+`/`−` (Go saturates a `Sub` that
  overflows a Duration: out of scope), `After`/`Before` are `>`/`<`; a function-valued field without parameters
  (`ValidReplayer.Now`) is a computation `GoM α`;
* an iterator `func(yield func(A, B) bool)` that is applied to a function literal on the spot (`q.each(i)(func…)`) is a
  function of what the literal does with its state — the variables it assigns outside itself — and that state;
* an interface value whose methods are called (`MessageWriter`) is a state and its methods' answers (`MsgWriter`);
* a local function literal bound to a variable (`doYield := func(data string) bool { … }`) is a Lean function of its
  parameters, of the outer variables it reads (passed at every call, as they are then) and of the tuple of outer
  variables it assigns; a function-typed parameter without results (`onRetry func(int64)`) is an effect on the
  consumer's state, threaded like `yield`, `nil` being `none`; a `strings.Builder` is the bytes written so far; the
  `*parser.Parser` event.go reads from is a `ParserI` (a state and the answers of `Next` / `Err`);
* `int64` / `time.Duration` multiplication wraps (`wrapInt64`); `strconv.ParseInt(s, 10, 64)`, the one use of
  `strings.IndexFunc` (first rune outside an ASCII range) and `utf8.DecodeRuneInString` (approximate: only error texts
  depend on it) are re-modelled below; an error value built from a struct (`&UnmarshalError{…}`) is its type name and
  reason text (`errStruct`); a `nil` assigned to a slice that is never compared with `nil` is the empty list;
* a `bytes.Buffer` / `strings.Builder` handed to a callee as its `io.Writer` is `bufWriter` (appends, never fails); the
  package's `ResponseWriter` is a `ResW` (a state and what `Write`, `Flush` and `Header()[k] = v` do to it; as an
  `io.Writer` it is `resWriter`: same state, same `Write`); a `*http.Request` kept in a struct is `Unit`; a package-level
  `[]string` with constant elements is its value;
* `float64` is an abstract carrier `φ` with the operations the Go code performs (`FloatI`; nothing assumed of them);
  a `*rand.Rand` is the list of the draws it will return (`rngFloat64`; asking for more than were supplied is a fuel
  fault); `time.Now()` / `time.Since(t)` read the parameter `now` of the translated function (one reading per call);
* an `interface{}` is an `AnyV` (nil, a `[]byte`, a `string`, or some other dynamic type); `json.Unmarshal(data, &s)` into
  a string is the parameter `jsonDecode` of the translated function (what it decodes, `none` = an error);
* an `*http.Request` is an `HttpReq` (body as `BodyV`, `GetBody` as the answers of its calls, header map with canonical
  keys); of a struct listed under `prune` only the fields the translated functions select are declared;
* a channel is a number (its identity); `ch <- v` and `close(ch)` append a `ChanOp` to the ghost field `chlog` of the
  struct listed under `chanLog` — what is sent and closed, in order; blocking, buffering and the panic of a second close
  are not modelled (the theorems count the closes instead); a Go map is an association list with at most one entry per
  key (`mapGet` / `mapSet` / `mapDel`), `range` over it takes the visiting order as a parameter (any list of keys; a key
  absent at its turn is skipped, as Go skips entries deleted during the iteration; entries *added* during an iteration
  are out of scope — the translated loops add none); a `regions` entry makes the first `range` statement of a function
  a definition of its own, its free variables its parameters;
* a callback (a named function type with one parameter and no result) is a number, a call through it appends to the ghost
  field `cblog` of the struct listed under `callLog` (what the callback itself does — re-entering the library included —
  is outside); a method that returns a parameterless function literal returns the tuple of the variables the literal
  captures, and the literal's body is a definition of its own over the receiver and that tuple (closure conversion: a
  `regions` entry of kind `retlit`); `sync.Mutex` / `RWMutex` calls are no-ops (each translated function is one critical
  section); in a map of maps the inner maps are reachable through the outer map only (`mapInner`, `mapDelIn`);
* in a target marked `dynRW` an `http.ResponseWriter` is a `DynRW`; `case T:` of a type switch over it, `T` an interface
  of the package, asks whether its dynamic type has `T`'s methods (`dynHas`); `wrapper{v}`, a struct literal embedding
  such an interface, is the wrapper's name and `v`; the package's `ResponseWriter` as a result is that pair or nil;
* a function-valued struct field listed under `fieldFuncs` (a callback of the package's user) is a parameter `<name>P` of
  the function that reads it: `none` is nil, calling nil panics, the callback is any function of its arguments (its
  effects on them are outside); a `*T` stored in a `MessageWriter`-typed field goes through a parameter `as<T>WriterP`.
-/
namespace GoSSE.GoRT
open GoSSE

inductive Fault
  | panic (msg : String)     -- a Go run-time panic (index / slice bounds)
  | fuel                     -- the fuel given to a loop did not suffice
deriving DecidableEq, Repr

abbrev GoM := Except Fault

@[inline] def len {α} (s : List α) : Int := s.length

def idx {α} [Inhabited α] (s : List α) (i : Int) : GoM α :=
  if 0 ≤ i ∧ i < len s then pure (s.getD i.toNat default) else throw (.panic "index out of range")

def sliceFrom {α} (s : List α) (i : Int) : GoM (List α) :=
  if 0 ≤ i ∧ i ≤ len s then pure (s.drop i.toNat) else throw (.panic "slice bounds out of range")

def sliceTo {α} (s : List α) (j : Int) : GoM (List α) :=
  if 0 ≤ j ∧ j ≤ len s then pure (s.take j.toNat) else throw (.panic "slice bounds out of range")

def slice {α} (s : List α) (i j : Int) : GoM (List α) :=
  if 0 ≤ i ∧ i ≤ j ∧ j ≤ len s then pure ((s.take j.toNat).drop i.toNat) else throw (.panic "slice bounds out of range")

/-- `s[i] = v` -/
def setIdx {α} (s : List α) (i : Int) (v : α) : GoM (List α) :=
  if 0 ≤ i ∧ i < len s then pure (s.set i.toNat v) else throw (.panic "index out of range")

/-- `make([]T, n)`: `n` zero values -/
def makeSlice {α} (zero : α) (n : Int) : GoM (List α) :=
  if 0 ≤ n then pure (List.replicate n.toNat zero) else throw (.panic "makeslice: len out of range")

/-- `copy(dst[off:], src)`: the new `dst` and the number of elements copied, `min(len(dst)-off, len(src))` -/
def copyInto {α} (dst : List α) (off : Int) (src : List α) : GoM (List α × Int) :=
  if 0 ≤ off ∧ off ≤ len dst then
    let n := min (dst.length - off.toNat) src.length
    pure (dst.take off.toNat ++ src.take n ++ dst.drop (off.toNat + n), (n : Int))
  else throw (.panic "slice bounds out of range")

/-- one iteration of a loop body: go on with a new state, leave the loop, or return from the function -/
inductive Step (σ ρ : Type)
  | next (s : σ)
  | brk (s : σ)
  | ret (r : ρ)

/-- a Go `for` loop; the body includes the condition and the post statement -/
def loopM {σ ρ : Type} (body : σ → GoM (Step σ ρ)) : Nat → σ → GoM (σ ⊕ ρ)
  | 0, _ => throw .fuel
  | n + 1, s =>
    match body s with
    | .error e => .error e
    | .ok (.next s') => loopM body n s'
    | .ok (.brk s') => pure (.inl s')
    | .ok (.ret r) => pure (.inr r)

/-- An `io.Reader`: the chunks successive `Read` calls would return if the destination were large enough, then
`io.EOF` or a read error, possibly delivered together with the last bytes (the same shape as `Model.Source`). -/
structure Reader where
  chunks : List Bytes
  endErr : Bool
  errWithLast : Bool
deriving DecidableEq, Repr

/-- `r.Read(p)` with `len(p) = free`: the bytes stored into `p`, the error, the reader afterwards -/
def readerRead (r : Reader) (free : Int) : GoM (Bytes × Option String × Reader) :=
  if free < 0 then throw (.panic "slice bounds out of range") else
  let e : Option String := some (if r.endErr then "verif.errRead" else "io.EOF")
  match r.chunks with
  | [] => pure ([], e, r)
  | c :: rest =>
    if c.length ≤ free.toNat then
      if rest.isEmpty && r.errWithLast then pure (c, e, { r with chunks := [] })
      else pure (c, none, { r with chunks := rest })
    else pure (c.take free.toNat, none, { r with chunks := c.drop free.toNat :: rest })

/-- An `io.Writer`: a state and what `Write(p)` answers and becomes — the count accepted, the error, the new state.
Any function is allowed here; the `io.Writer` contract (`0 ≤ n ≤ len(p)`, `n < len(p) → err ≠ nil`) is a hypothesis
of the theorems that need it. -/
structure Writer (σ : Type) where
  st : σ
  write : σ → Bytes → Int × Option String × σ

/-- A subscriber (`MessageWriter`): a state and what `Send(m)` / `Flush()` answer and become. `μ` is the message type
(`Send` takes a pointer: `none` is a nil message). Any functions are allowed; what a particular subscriber does
(fail at its k-th Send, …) is an instance. -/
structure MsgWriter (μ σ : Type) where
  st : σ
  send : σ → Option μ → Option String × σ
  flush : σ → Option String × σ

/-- An `sse.ResponseWriter` (an `http.ResponseWriter` with `Flush() error`; external code): a state, what `Write(p)`
and `Flush()` answer and become, and what the assignment `Header()[key] = values` does to the state. Handed to a
callee as its `io.Writer` it is `resWriter`: the same state and `Write`. -/
structure ResW (σ : Type) where
  st : σ
  write : σ → Bytes → Int × Option String × σ
  flush : σ → Option String × σ
  setHeader : σ → Bytes → List Bytes → σ

def resWriter {σ : Type} (r : ResW σ) : Writer σ := { st := r.st, write := r.write }

/-- `float64` as the translated code sees it: an abstract carrier `φ` with the operations the Go code performs —
constants (`lit num den`), `float64(n)`, `int64(x)` / `time.Duration(x)`, the four arithmetic operations and the
comparisons `<`, `<=`, `==` (`>`, `>=` are these with the operands swapped, `!=` is the negation of `==`: all false,
resp. true, on NaN as in Go). Nothing is assumed of them: a theorem about translated float code holds for every
implementation, rounding or exact. -/
structure FloatI (φ : Type) where
  lit : Int → Nat → φ
  ofInt : Int → φ
  toInt : φ → Int
  add : φ → φ → φ
  sub : φ → φ → φ
  mul : φ → φ → φ
  div : φ → φ → φ
  lt : φ → φ → Bool
  le : φ → φ → Bool
  eq : φ → φ → Bool

/-- `(*rand.Rand).Float64()`: the generator is the list of the draws still to come (an input of the run); asking for
more draws than were supplied is running out of fuel, not a behaviour of the code -/
def rngFloat64 {φ : Type} (rng : List φ) : GoM (φ × List φ) :=
  match rng with
  | x :: rest => pure (x, rest)
  | [] => throw .fuel

/-- An `interface{}` value as the translated code can tell it apart: nil, a `[]byte`, a `string`, or a value of some
other dynamic type (a type switch with other cases stops the translator) -/
inductive AnyV
  | nil
  | bytes (b : Bytes)
  | str (s : Bytes)
  | other
deriving DecidableEq, Repr, Inhabited

def anyIsNil : AnyV → Bool | .nil => true | _ => false
def anyIsBytes : AnyV → Bool | .bytes _ => true | _ => false
def anyIsStr : AnyV → Bool | .str _ => true | _ => false
def anyBytes : AnyV → Bytes | .bytes b => b | _ => []
def anyStr : AnyV → Bytes | .str s => s | _ => []

/-- A request body (`io.ReadCloser`) as the translated code can tell it apart: nil, `http.NoBody`, or some reader
identified by a tag -/
inductive BodyV
  | nil
  | noBody
  | tag (k : Nat)
deriving DecidableEq, Repr, Inhabited

/-- `textproto.CanonicalMIMEHeaderKey` for keys made of letters, digits and `-` (what the translated code passes):
the first letter and every letter after a `-` in upper case, the others in lower case -/
def canonKey (k : Bytes) : Bytes :=
  let up (b : UInt8) : UInt8 := if 97 ≤ b ∧ b ≤ 122 then b - 32 else b
  let lo (b : UInt8) : UInt8 := if 65 ≤ b ∧ b ≤ 90 then b + 32 else b
  (k.foldl (fun (acc : Bytes × Bool) b => (acc.1 ++ [if acc.2 then up b else lo b], b == 45)) ([], true)).1

/-- An `*http.Request` as the translated code uses it (external type, written out here): its body, its `GetBody`
function — nil, or what its k-th call answers (`gbCalls` = calls made so far) — and its header map
(canonical key ↦ values). -/
structure HttpReq where
  Body : BodyV
  GetBody : Option (Nat → BodyV × Option String)
  gbCalls : Nat
  Header : List (Bytes × List Bytes)

instance : Inhabited HttpReq := ⟨⟨.nil, none, 0, []⟩⟩

/-- `r.GetBody()` (a nil function value panics) -/
def httpGetBody (r : HttpReq) : GoM (BodyV × Option String × HttpReq) :=
  match r.GetBody with
  | none => throw (.panic "invalid memory address or nil pointer dereference")
  | some f => pure ((f r.gbCalls).1, (f r.gbCalls).2, { r with gbCalls := r.gbCalls + 1 })

/-- What a goroutine did to channels (identified by numbers), in order: the translated code appends to a log instead of
communicating; whether a send blocks or a close panics is a question about the log and the channels' state, asked
by the theorems. `ε` is what is sent. -/
inductive ChanOp (ε : Type)
  | send (ch : Nat) (v : ε)
  | close (ch : Nat)
deriving DecidableEq, Repr

/-- a Go map as an association list (at most one entry per key is an invariant of the functions below) -/
def mapGet {κ ν : Type} [BEq κ] (m : List (κ × ν)) (k : κ) : Option ν := (m.find? fun e => e.1 == k).map (·.2)
def mapDel {κ ν : Type} [BEq κ] (m : List (κ × ν)) (k : κ) : List (κ × ν) := m.filter fun e => !(e.1 == k)
def mapSet {κ ν : Type} [BEq κ] (m : List (κ × ν)) (k : κ) (v : ν) : List (κ × ν) := m.map fun e => if e.1 == k then (k, v) else e
/-- `m[k] = v`: replaces the entry of `k`, or adds one (at the end: where is immaterial, the order of a range is a parameter) -/
def mapPut {κ ν : Type} [BEq κ] (m : List (κ × ν)) (k : κ) (v : ν) : List (κ × ν) :=
  if (mapGet m k).isSome then mapSet m k v else m ++ [(k, v)]
/-- the inner map `m[k]` for a write `m[k][i] = v`: writing to an entry of a nil map (no `k`) panics -/
def mapInner {κ ι ν : Type} [BEq κ] (m : List (κ × List (ι × ν))) (k : κ) : GoM (List (ι × ν)) :=
  match mapGet m k with
  | some inner => pure inner
  | none => throw (.panic "assignment to entry in nil map")
/-- `delete(m[k], i)`: the inner map loses `i`; a nil inner map (no `k`) is left alone -/
def mapDelIn {κ ι ν : Type} [BEq κ] [BEq ι] (m : List (κ × List (ι × ν))) (k : κ) (i : ι) : List (κ × List (ι × ν)) :=
  match mapGet m k with
  | some inner => mapSet m k (mapDel inner i)
  | none => m

/-- an `http.ResponseWriter` of whatever dynamic type: an identity the translated code only hands on -/
abbrev HttpRW := Nat

/-- an `http.ResponseWriter` as a type switch over interfaces sees it: an identity, the methods its dynamic type has
beyond `Header` / `Write` / `WriteHeader` (but for `Unwrap`), and what its `Unwrap()` returns if it has one (a writer
whose `Unwrap()` returns nil is one that unwraps to a writer without further methods: a type switch sends both to its
default clause) -/
inductive DynRW where
  | mk (id : Nat) (methods : List String) (inner : Option DynRW)

instance : Inhabited DynRW := ⟨.mk 0 [] none⟩

def DynRW.id : DynRW → Nat | .mk i _ _ => i
def DynRW.methods : DynRW → List String | .mk _ m _ => m
def DynRW.inner : DynRW → Option DynRW | .mk _ _ i => i

/-- `case T:` of a type switch over a response writer, `T` an interface asking for the methods `ms` -/
def dynHas (w : DynRW) (ms : List String) : Bool :=
  ms.all fun m => if m == "Unwrap" then w.inner.isSome else w.methods.contains m

/-- `v.Unwrap()` -/
def dynUnwrap (w : DynRW) : GoM DynRW :=
  match w.inner with
  | some i => pure i
  | none => throw (.panic "Unwrap() of a writer that has none")

/-- `h[key]` on an `http.Header`: the values stored under exactly that key (no canonicalisation: a map index) -/
def headerGet (h : List (Bytes × List Bytes)) (k : Bytes) : List Bytes :=
  match h.find? (fun e => e.1 == k) with
  | some e => e.2
  | none => []

/-- `http.Header.Del` / `Set` -/
def headerDel (h : List (Bytes × List Bytes)) (k : Bytes) : List (Bytes × List Bytes) := h.filter fun e => e.1 != canonKey k
def headerSet (h : List (Bytes × List Bytes)) (k v : Bytes) : List (Bytes × List Bytes) := headerDel h k ++ [(canonKey k, [v])]

/-- The field source of event.go (`*parser.Parser`, which is not translated: the split wrapper `parser.New` installs
writes to the parser from inside `bufio.Scanner.Scan`): a state, what `Next(&f)` answers — whether there is a field,
the field variable afterwards, the new state — and what `Err()` answers. `φ` is the field type. -/
structure ParserI (φ π : Type) where
  st : π
  next : π → φ → Bool × φ × π
  err : π → Option String

/-- `*p` / `p.f` of a pointer that may be nil -/
def derefPtr {α} (p : Option α) : GoM α :=
  match p with
  | some a => pure a
  | none => throw (.panic "invalid memory address or nil pointer dereference")

/-- `uint64(x)` of an `int`: modulo 2^64 -/
def u64OfInt (x : Int) : UInt64 := UInt64.ofNat (x % 18446744073709551616).toNat

/-- `int(x)` of a `uint64`: two's complement -/
def intOfU64 (x : UInt64) : Int :=
  if x.toNat < 9223372036854775808 then (x.toNat : Int) else (x.toNat : Int) - 18446744073709551616

/-- the digit loop of `strconv.FormatUint(n, 10)` (`formatBits`): digits from the least significant one -/
def formatDigits : Nat → Nat → Bytes → Bytes
  | 0, _, acc => acc
  | fuel + 1, u, acc =>
    if u ≥ 10 then formatDigits fuel (u / 10) (UInt8.ofNat (48 + u % 10) :: acc)
    else UInt8.ofNat (48 + u) :: acc

/-- `strconv.FormatUint(n, 10)` -/
def strconvFormatUint (n : UInt64) : Bytes := formatDigits (n.toNat + 1) n.toNat []

/-- the digit loop of `strconv.ParseUint(s, 10, 64)`: a non-digit is a syntax error with value 0, leaving the uint64
range a range error with the largest value — whichever comes first from the left -/
def parseUintDigits : Bytes → Nat → Nat × Option String
  | [], n => (n, none)
  | c :: t, n =>
    if !(48 ≤ c && c ≤ 57) then (0, some "strconv.ErrSyntax") else
    let n1 := n * 10 + (c.toNat - 48)
    if n1 > 18446744073709551615 then (18446744073709551615, some "strconv.ErrRange") else parseUintDigits t n1

/-- `strconv.ParseUint(s, 10, 64)` (the empty string is a syntax error; base 10 takes no sign, prefix or underscore) -/
def strconvParseUint (s : Bytes) : UInt64 × Option String :=
  if s.isEmpty then (0, some "strconv.ErrSyntax") else
  let r := parseUintDigits s 0
  (UInt64.ofNat r.1, r.2)

/-- `int64` (and `time.Duration`) multiplication: two's complement wrap-around -/
def wrapInt64 (x : Int) : Int := ((x + 9223372036854775808) % 18446744073709551616) - 9223372036854775808

/-- the digit loop of `strconv.ParseInt`'s magnitude (`ParseUint` with cutoff 2^64) -/
def parseIntDigits : Bytes → Nat → Option Nat
  | [], n => some n
  | c :: t, n => if !(48 ≤ c && c ≤ 57) then none else parseIntDigits t (n * 10 + (c.toNat - 48))

/-- `strconv.ParseInt(s, 10, 64)`: an optional sign, then digits; a non-digit (or nothing) is a syntax error with
value 0, a magnitude out of the int64 range a range error with the nearest bound -/
def strconvParseInt (s : Bytes) : Int × Option String :=
  let neg := s.head? == some 45
  let body := if s.head? == some 43 || s.head? == some 45 then s.drop 1 else s
  if body.isEmpty then (0, some "strconv.ErrSyntax") else
  match parseIntDigits body 0 with
  | none => (0, some "strconv.ErrSyntax")
  | some n =>
    if neg then (if n ≤ 9223372036854775808 then (-(n : Int), none) else (-9223372036854775808, some "strconv.ErrRange"))
    else (if n ≤ 9223372036854775807 then ((n : Int), none) else (9223372036854775807, some "strconv.ErrRange"))

/-- `strings.IndexFunc(s, func(r rune) bool { return r < lo || r > hi })` for ASCII bounds `lo ≤ hi < 128`: the index of
the first byte outside `[lo, hi]` (a multi-byte or invalid sequence starts with a byte ≥ 0x80 and decodes to a rune above
`hi`; the bytes before it are single-byte runes), or −1 -/
def stringsIndexOutside (s : Bytes) (lo hi : Nat) : Int :=
  let i := s.findIdx (fun b => b.toNat < lo || b.toNat > hi)
  if i < s.length then (i : Int) else -1

/-- `utf8.DecodeRuneInString`, approximately (exact for ASCII; anything else is reported as U+FFFD of width 1): the
translated code uses its result inside error texts only, and error texts are not modelled -/
def utf8DecodeRuneApprox (s : Bytes) : Int × Int :=
  match s with
  | [] => (65533, 0)
  | b :: _ => if b.toNat < 128 then ((b.toNat : Int), 1) else (65533, 1)

/-- an error value of a struct type (`&UnmarshalError{Reason: …}`): its type name and the text of its reason -/
def errStruct (name : String) (reason : Option String) : Option String :=
  some (name ++ ": " ++ reason.getD "")

/-- a `strings.Builder` / `bytes.Buffer` handed to a callee as its `io.Writer`: appends, never fails -/
def bufWriter (st : Bytes) : Writer Bytes :=
  { st := st, write := fun st p => ((p.length : Int), none, st ++ p) }

/-- `strings.IndexByte` -/
def stringsIndexByte (s : Bytes) (c : UInt8) : Int :=
  let i := s.findIdx (· == c)
  if i < s.length then (i : Int) else -1

/-- `strings.HasPrefix` -/
def stringsHasPrefix (s p : Bytes) : Bool := p.isPrefixOf s

end GoSSE.GoRT
