import GoSSE.Proofs.QueueValid
import GoSSE.Props.C08
import GoSSE.Props.C09
/-!
# C18 — replayers retain no evicted or expired messages

The models keep EVERY slot of the backing array (`Queue.buf : List (Option Entry)`, `none` = the
zero value). "Reachable from the replayer" is modelled as "referenced from a slot of the current
backing array"; the Go collector itself is not modelled.
-/
namespace GoSSE.Props.C18
open GoSSE GoSSE.Spec GoSSE.Model GoSSE.Proofs

/-- `slots_bounded`: a FiniteReplayer's backing array has exactly `N` slots — initially
(`C08.new_inv`) and after every `Put` (`C08.put_refines` re-establishes `FInv N`) — so at most
`N` messages are referenced. -/
theorem slots_bounded (N : Nat) (f : Finite) (h : FInv N f) :
    f.buf.buf.length = N ∧ (f.buf.buf.filterMap id).length ≤ N := by
  refine ⟨h.len, ?_⟩
  have := filterMap_id_length_le f.buf.buf
  rw [h.len] at this; exact this

/-- `slots_bounded` along any Put: the array still has `N` slots afterwards -/
theorem slots_bounded_put (N : Nat) (f : Finite) (h : FInv N f) (msg : Nat) (id : EventID) (topics : List Bytes) :
    ∃ r f', f.put msg id topics = .ok (r, f') ∧ f'.buf.buf.length = N ∧ (f'.buf.buf.filterMap _root_.id).length ≤ N := by
  obtain ⟨r, f', hp, hinv, _⟩ := C08.put_refines N f h msg id topics
  exact ⟨r, f', hp, slots_bounded N f' hinv⟩

/-- FiniteReplayer: non-live slots are empty (until the first wrap there are unused slots; they
hold nothing), so the messages referenced from any slot are exactly the stored last-`N` entries:
an evicted message is referenced from no slot. -/
theorem finite_only_stored_referenced (N : Nat) (f : Finite) (h : FInv N f) (i : Nat) (e : Entry)
    (hs : f.buf.buf[i]? = some (some e)) : e ∈ abs f.buf :=
  nonempty_slot_stored h.wf h.dead i e hs

/-- `dead_slots_zero`: in a ValidReplayer every slot outside the live range is zero. It is part
of `VInv`, which `NewValidReplayer` establishes and `Put`/`GC` preserve (`C09.new_inv`,
`C09.put_refines`, `C09.gc_refines`); hence only stored entries are referenced. -/
theorem dead_slots_zero (t : Int) (v : Valid) (h : VInv t v) :
    (∀ i, i < v.messages.buf.length → ¬ isLive v.messages i → v.messages.buf[i]? = some none) ∧
    (∀ (i : Nat) (e : Entry), v.messages.buf[i]? = some (some e) → e ∈ abs v.messages) :=
  ⟨h.dead, fun i e hs => nonempty_slot_stored h.wf h.dead i e hs⟩

/-- `dequeue` zeroes the vacated slot: dead slots stay zero -/
theorem dequeue_zeroes (q : Queue) (h : WF q) (hd : DeadZero q) (hpos : 0 < q.count) :
    ∃ q', q.dequeue = .ok q' ∧ WF q' ∧ DeadZero q' ∧ q'.buf[q.head]? = some none := by
  obtain ⟨q', hdq, hw, _, _, _, hd'⟩ := dequeue_spec h hpos
  refine ⟨q', hdq, hw, hd' hd, ?_⟩
  have hh : q.head < q.buf.length := by have := h.cnt; have := h.hd; omega
  simp only [Queue.dequeue, hh, if_true, QRes.ok.injEq] at hdq
  subst hdq
  simp [hh]

/-- `resize` copies only the live range (wrapped, full and empty buffers alike): in the new
array the first `count` slots are the live slots in order and every other slot is zero. -/
theorem resize_copies_live_only (q : Queue) (h : WF q) (hd : DeadZero q) (n : Nat) (hn : q.count < n) :
    ∃ q', q.resize n = .ok q' ∧ q'.buf.length = n ∧ DeadZero q' ∧
      (∀ i, q.count ≤ i → i < n → q'.buf[i]? = some none) := by
  obtain ⟨q', hr, _, _, _, hl, _, hz⟩ := resize_spec h hd n hn
  obtain ⟨q'', hr', _, hd', _, _, _⟩ := resize_abs h hd n hn
  rw [hr] at hr'; cases hr'
  exact ⟨q', hr, hl, hd', hz⟩

/-- `after_gc_only_unexpired`: after `doGC now` (explicit `GC`, or the collection `Put` runs once
`GCInterval` has passed) every non-empty slot of the backing array holds an entry with
`exp > now`: no expired message stays referenced. -/
theorem after_gc_only_unexpired (t : Int) (v : Valid) (h : VInv t v) (now : Int) (v' : Valid)
    (hg : v.doGC now = .ok v') (i : Nat) (e : Entry) (hs : v'.messages.buf[i]? = some (some e)) :
    e.exp > now := by
  obtain ⟨v'', hg', hinv, ha, _⟩ := doGC_inv h now
  rw [hg] at hg'; cases hg'
  have := nonempty_slot_stored hinv.wf hinv.dead i e hs
  rw [ha] at this
  exact gc_all_unexpired now h.sorted e this


/-- non-vacuity: five Puts (the buffer grows 4 → 8), the TTL passes, `GC`: the array shrinks to 4
slots and no slot references a message any more -/
example :
    let p (v : Valid) (k : Nat) (i : Byte) := match v.put 0 k (some [i]) [[97]] with | .ok (_, v') => v' | .panic => v
    let v := p (p (p (p (p ((newValid 10 false (some 0)).getD ⟨none, none, ⟨[], 0, 0, 0⟩, 0, 0⟩) 0 65) 1 66) 2 67) 3 68) 4 69
    v.messages.buf.length = 8 ∧ v.messages.count = 5 ∧
    (match v.gc 10 with | .ok v' => v'.messages.buf | .panic => []) = [none, none, none, none] := by decide

end GoSSE.Props.C18
