import GoSSE.Proofs.GenEquivQueue
import GoSSE.Proofs.GenEquivReplay
import GoSSE.Proofs.QueueValid
/-!
# C09 — ValidReplayer replays exactly the unexpired events after the given ID

`VInv t v`: the queue is well formed, dead slots are zero, automatic IDs are consecutive,
expiries are non-decreasing along the stored entries and bounded by `t + ttl`, where `t` is the
latest instant the clock has shown. Every operation takes the current instant `now ≥ t`
(non-decreasing clock) and re-establishes `VInv now`. Holds for every TTL, every `GCInterval`
(`≤ 0`, below and above the TTL), both ID modes, every interleaving of Put/Replay/GC/clock steps.
-/
namespace GoSSE.Props.C09
open GoSSE GoSSE.Spec GoSSE.Model GoSSE.Proofs

/-- `NewValidReplayer` rejects `ttl ≤ 0`; otherwise the invariant holds and the state is empty. -/
theorem new_inv (ttl : Int) (auto : Bool) (g : Option Int) (t : Int) :
    (ttl ≤ 0 → newValid ttl auto g = none) ∧
    (0 < ttl → ∃ v, newValid ttl auto g = some v ∧ VInv t v ∧ vspec v = VState.init auto ∧ v.ttl = ttl ∧
      v.gcInterval = g.getD (Int.tdiv ttl 4)) := by
  constructor
  · intro h; simp [newValid, h]
  · intro h
    simp only [newValid, show ¬ ttl ≤ 0 from by omega, if_false]
    have habs : abs { buf := [], head := 0, tail := 0, count := 0 } = [] := by simp [abs, slots]
    refine ⟨_, rfl, ⟨?_, ?_, ?_, ?_, ?_⟩, ?_, rfl, rfl⟩
    · constructor <;> simp
    · intro i hi; simp at hi
    · intro c _; rw [habs]; exact consec_nil c
    · rw [habs]; exact List.Pairwise.nil
    · rw [habs]; intro e he; simp at he
    · simp [vspec, habs, VState.init, State.init]

theorem putStore_refines (t : Int) (v1 : Valid) (hinv1 : VInv t v1) (now : Int) (hnow : t ≤ now)
    (msg : Nat) (id : EventID) (topics : List Bytes) (ht : ¬ topics.isEmpty = true) :
    ∃ r v', v1.putStore now msg id topics = .ok (r, v') ∧ VInv now v' ∧ v'.ttl = v1.ttl ∧
      v'.gcInterval = v1.gcInterval ∧ v'.lastGC = v1.lastGC ∧
      (r, ({ log := abs v'.messages, next := v'.currentID } : State)) =
        Spec.put none { log := abs v1.messages, next := v1.currentID } msg id topics (now + v1.ttl) := by
  unfold Valid.putStore
  simp only [ensureID_eq, Spec.put, ht, if_false, Bool.false_eq_true]
  cases ha : assignID v1.currentID id with
  | error e =>
    simp only
    exact ⟨_, _, rfl, ⟨hinv1.wf, hinv1.dead, hinv1.auto, hinv1.sorted,
      fun e he => by have := hinv1.bound e he; omega⟩, rfl, rfl, rfl, rfl⟩
  | ok p =>
    obtain ⟨id', cur'⟩ := p
    simp only
    obtain ⟨q2, hgrow, hw2, hd2, ha2, hroom⟩ := growIfFull_spec hinv1.wf hinv1.dead
    rw [hgrow]
    simp only
    obtain ⟨q3, he, hw3, hl3, habs3⟩ := enqueue_abs hw2 (by omega)
      { msg := msg, id := id', topics := topics, exp := now + v1.ttl }
    rw [he]
    simp only
    have hlen2 := abs_length hw2
    rw [takeLast_all _ _ (by simp; omega), ha2] at habs3
    refine ⟨_, _, rfl, ⟨hw3, enqueue_deadZero hw2 (by omega) hd2 _ q3 he, ?_, ?_, ?_⟩, rfl, rfl, rfl, ?_⟩
    · intro c hc
      simp only at hc
      subst hc
      cases hcc : v1.currentID with
      | none => cases id <;> simp [assignID, hcc] at ha
      | some k =>
        rw [hcc] at ha
        cases id with
        | some _ => simp [assignID] at ha
        | none =>
          simp only [assignID, Option.isSome_none, Bool.false_eq_true, if_false, Except.ok.injEq, Prod.mk.injEq,
            Option.some.injEq] at ha
          obtain ⟨h1, h2⟩ := ha
          subst h1 h2
          simp only [habs3]
          have := consec_put (hinv1.auto k hcc) { msg := msg, id := some (decimal k), topics := topics, exp := now + v1.ttl }
            rfl ((abs v1.messages).length + 1)
          rwa [takeLast_all _ _ (by simp)] at this
    · simp only [habs3]
      apply sorted_snoc hinv1.sorted
      intro e he
      have := hinv1.bound e he
      simp only; omega
    · simp only [habs3]
      intro e he
      rw [List.mem_append] at he
      rcases he with he | he
      · have := hinv1.bound e he; omega
      · simp at he; subst he; simp
    · simp only [habs3]

/-- `Put` at instant `now` (clock non-decreasing: `t ≤ now`) never panics, preserves the
invariant — in particular expiries stay non-decreasing and `enqueue` never overwrites, the
buffer having been grown first — and refines the specification's `vput`: optional collection of
the expired prefix, then the ID-carrying copy with `exp = now + ttl` is appended; a Put rejected
for its ID changes nothing else. -/
theorem put_refines (t : Int) (v : Valid) (h : VInv t v) (now : Int) (hnow : t ≤ now)
    (msg : Nat) (id : EventID) (topics : List Bytes) :
    ∃ r v', v.put now msg id topics = .ok (r, v') ∧ VInv now v' ∧ v'.ttl = v.ttl ∧ v'.gcInterval = v.gcInterval ∧
      (r, vspec v') = vput v.ttl v.gcInterval (vspec v) now msg id topics := by
  unfold Valid.put vput
  by_cases ht : topics.isEmpty = true
  · simp only [ht, if_true]
    exact ⟨_, _, rfl, ⟨h.wf, h.dead, h.auto, h.sorted, fun e he => by have := h.bound e he; omega⟩, rfl, rfl, rfl⟩
  · simp only [ht, if_false, Bool.false_eq_true]
    obtain ⟨v1, hg, hinv1, httl, hgci, hcur, habs1, hlast⟩ := gcIfDue_spec h now
    rw [hg]
    simp only [vspec]
    obtain ⟨r, v', hp, hinv', e1, e2, e3, hs⟩ := putStore_refines t v1 hinv1 now hnow msg id topics ht
    refine ⟨r, v', hp, hinv', by rw [e1, httl], by rw [e2, hgci], ?_⟩
    by_cases hdue : v.gcInterval > 0 ∧ now - v.lastGC.getD now ≥ v.gcInterval
    · simp only [hdue, and_self, decide_true, if_true] at habs1 hlast ⊢
      rw [habs1, hcur, httl] at hs
      rw [← hs, e3, hlast]
    · simp only [hdue, decide_false, Bool.false_eq_true, if_false] at habs1 hlast ⊢
      rw [habs1, hcur, httl] at hs
      rw [← hs, e3, hlast]

/-- explicit `GC()` never panics, preserves the invariant and removes exactly the expired prefix:
`abs (doGC now q) = (abs q).dropWhile (exp ≤ now)` -/
theorem gc_refines (t : Int) (v : Valid) (h : VInv t v) (now : Int) (hnow : t ≤ now) :
    ∃ v', v.gc now = .ok v' ∧ VInv now v' ∧ v'.ttl = v.ttl ∧ v'.gcInterval = v.gcInterval ∧
      vspec v' = vgc (vspec v) now ∧
      abs v'.messages = (abs v.messages).dropWhile (fun e => decide (e.exp ≤ now)) := by
  obtain ⟨v', hg, hinv, ha, hv'⟩ := doGC_inv h now
  have e1 : v'.ttl = v.ttl := by rw [hv']
  have e2 : v'.currentID = v.currentID := by rw [hv']
  have e3 : v'.gcInterval = v.gcInterval := by rw [hv']
  have e4 : v'.lastGC = v.lastGC := by rw [hv']
  refine ⟨v', hg, ⟨hinv.wf, hinv.dead, hinv.auto, hinv.sorted, fun e he => by have := hinv.bound e he; omega⟩,
    e1, e3, ?_, ha⟩
  simp [vspec, vgc, ha, e2, e4]

/-- `gc_keeps_unexpired`: collection — explicit or triggered by `Put` — never drops an unexpired entry -/
theorem gc_keeps_unexpired (t : Int) (v : Valid) (h : VInv t v) (now : Int) (v' : Valid)
    (hg : v.doGC now = .ok v') : ∀ e ∈ abs v.messages, e.exp > now → e ∈ abs v'.messages := by
  obtain ⟨v'', hg', _, ha, _⟩ := doGC_inv h now
  rw [hg] at hg'; cases hg'
  rw [ha]
  exact gc_keeps now _

/-- `resize` (growing and shrinking; wrapped, full and empty buffers) preserves the stored entries -/
theorem resize_preserves_abs (q : Queue) (h : WF q) (hd : DeadZero q) (n : Nat) (hn : q.count < n) :
    ∃ q', q.resize n = .ok q' ∧ WF q' ∧ abs q' = abs q := by
  obtain ⟨q', hr, hw, _, ha, _, _⟩ := resize_abs h hd n hn
  exact ⟨q', hr, hw, ha⟩

/-- expiries are non-decreasing along the stored entries (part of the invariant) -/
theorem expiries_nondecreasing (t : Int) (v : Valid) (h : VInv t v) :
    List.Pairwise (fun a b : Entry => a.exp ≤ b.exp) (abs v.messages) := h.sorted

/-- `replay_refines`: `Replay` at instant `now` never panics and makes exactly the calls the
specification prescribes: sends = `((abs q).after id).filter (exp > now ∧ topics)`, in Put order,
cut at the first failing `Send`, then one `Flush` iff no `Send` failed; no call at all if nothing
stored follows the presented ID (newest, absent, unset). -/
theorem replay_refines (t : Int) (v : Valid) (h : VInv t v) (now : Int)
    (hcur : ∀ c, v.currentID = some c → c ≤ maxUint64 + 1) (sub : Sub) :
    v.replay now sub =
      .ok (replayOut v.currentID.isSome (fun e => decide (e.exp > now)) (abs v.messages) sub) := by
  obtain ⟨r, hr, hcase⟩ := replay_core h.wf v.currentID.isSome rfl h.auto hcur sub (fun e => decide (e.exp > now))
  unfold Valid.replay
  rw [hr]
  rcases hcase with ⟨hneg, hout⟩ | ⟨hpos, st, hst, hfin⟩
  · simp [hneg, hout]
  · simp only [show ¬ r < 0 from by omega, if_false, hst, hfin]

theorem serve_sends_subset (sub : Sub) (started : Bool) (sends : List Entry) (e : Entry)
    (h : Call.send e ∈ (serve sub started sends).calls) : e ∈ sends := by
  unfold serve at h
  split at h
  · simp at h
  · split at h
    · split at h
      · simp only [List.mem_map, Call.send.injEq, exists_eq_right] at h
        exact List.mem_of_mem_take h
      · simpa using h
    · simpa using h

/-- `never_replayed_after_expiry`: an event is never sent at or after its Put time plus the TTL -/
theorem never_replayed_after_expiry (t : Int) (v : Valid) (h : VInv t v) (now : Int)
    (hcur : ∀ c, v.currentID = some c → c ≤ maxUint64 + 1) (sub : Sub) (out : ReplayOut)
    (hr : v.replay now sub = .ok out) (e : Entry) (he : Call.send e ∈ out.calls) : e.exp > now := by
  rw [replay_refines t v h now hcur sub] at hr
  cases hr
  have := serve_sends_subset _ _ _ e he
  simp only [replay, List.mem_filter, Bool.and_eq_true, decide_eq_true_eq] at this
  exact this.2.1


/-- non-vacuity and regression (fixed defect, commit 5493bb9): manual IDs, four Puts at instant 0
with TTL 10 (the buffer has grown to 4 slots and the write index has just wrapped). The newest ID
replays nothing; the oldest replays the other three while they are unexpired (instant 9) and
only flushes once they have expired (instant 10 = Put time + TTL). -/
example :
    let p (v : Valid) (k : Nat) (i : Byte) := match v.put 0 k (some [i]) [[97]] with | .ok (_, v') => v' | .panic => v
    let v := p (p (p (p ((newValid 10 false (some 0)).getD ⟨none, none, ⟨[], 0, 0, 0⟩, 0, 0⟩) 0 65) 1 66) 2 67) 3 68
    v.messages.tail = 0 ∧ v.messages.count = 4 ∧ v.messages.buf.length = 4 ∧
    v.replay 0 ⟨some [68], [[97]], none, false⟩ = .ok ⟨[], .nil⟩ ∧
    v.replay 9 ⟨some [65], [[97]], none, false⟩ =
      .ok ⟨[.send ⟨1, some [66], [[97]], 10⟩, .send ⟨2, some [67], [[97]], 10⟩, .send ⟨3, some [68], [[97]], 10⟩, .flush], .nil⟩ ∧
    v.replay 10 ⟨some [65], [[97]], none, false⟩ = .ok ⟨[.flush], .nil⟩ := by decide


/-! ### The translated source text (regenerated from /repo on every run) -/

/-- `queue[T].dequeue` and `queue[T].resize` *as translated from replay.go* (`make`, the two `copy` calls and the
three slice expressions checked operations) produce, from every queue state, exactly the state of the model's
functions (`resize_preserves_abs`, `gc_refines` above are about those), panicking exactly where the model does. -/
theorem translated_dequeue_is_model (fuel : Nat) (q : Queue) (hc : 0 < q.count) :
    GenEquiv.Agrees (Gen.queue_dequeue fuel (GenEquiv.toGen q)) (Queue.dequeue q) :=
  GenEquiv.dequeue_eq fuel q hc

theorem translated_resize_is_model (fuel : Nat) (q : Queue) (n : Nat) :
    GenEquiv.Agrees (Gen.queue_resize fuel (GenEquiv.toGen q) (n : Int)) (Queue.resize q n) :=
  GenEquiv.resize_eq fuel q n

/-- non-vacuity: the translated `resize` on a wrapped ring [c, _, a, b] (head 2, tail 1) growing to 6 slots -/
example :
    Gen.queue_resize 1 ({ buf := [some 3, none, some 1, some 2], head := 2, tail := 1, count := 3 } : Gen.queue (Option Nat)) 6
      = .ok { buf := [some 1, some 2, some 3, none, none, none], head := 0, tail := 3, count := 3 } := by rfl


/-! #### `ValidReplayer` itself, as translated

`GoSSE/Gen/Replay.lean` holds `ValidReplayer.shouldGC`, `doGC`, `GC`, `Put` and `Replay` as translated from
replay.go (with `ensureID`, `findIDInQueue`, `queue.each`, … — Props/C08). A model replayer `v` whose clock reads
`now` is `toGenValid mk now v`: `time.Time` values are nanoseconds since the zero Time (the model's `lastGC = none` is
that zero; `lastGC ≠ some 0` and `0 < now` say that the clock never shows it), `Now` is the constant computation
`now`, the slots are `gSlotV mk` (the zero slot ↦ the zero value, an entry ↦ its message, topics and expiry). -/

/-- `doGC(now)` as translated: the collection loop and the shrink, from every state -/
theorem translated_doGC_is_model (mk : Entry → Gen.Message) (now clock : Int) (hnow : 0 < now) (v : Valid) (fuel : Nat)
    (hf : v.messages.count < fuel) :
    GenEquiv.AgreesV (GenEquiv.toGenValid mk clock) (Gen.ValidReplayer_doGC fuel (GenEquiv.toGenValid mk clock v) now)
      (v.doGC now) :=
  GenEquiv.doGC_eq mk now clock hnow v fuel hf

/-- `GC()` as translated -/
theorem translated_GC_is_model (mk : Entry → Gen.Message) (now : Int) (hnow : 0 < now) (v : Valid) (fuel : Nat)
    (hf : v.messages.count < fuel) :
    GenEquiv.AgreesV (GenEquiv.toGenValid mk now) (Gen.ValidReplayer_GC fuel (GenEquiv.toGenValid mk now v)) (v.gc now) :=
  GenEquiv.GC_eq mk now hnow v fuel hf

/-- `ValidReplayer.Put` as translated: the collection schedule, `ensureID`, growth and the stored entry with
`exp = now + ttl` — the model's verdict, entry and next state, from every state -/
theorem translated_ValidPut_is_model (mk : Entry → Gen.Message) (now : Int) (hnow : 0 < now) (v : Valid)
    (hl : v.lastGC ≠ some 0) (k : Nat) (id : EventID) (topics : List Bytes) (m : Gen.Message)
    (hm : m.ID = GenEquiv.genID id)
    (hmk : ∀ id' ex, mk { msg := k, id := id', topics := topics, exp := ex } = { m with ID := GenEquiv.genID id' })
    (hc : ∀ c, v.currentID = some c → c + 1 < 18446744073709551616) (fuel : Nat)
    (hf : ∀ c, v.currentID = some c → (fmtUint c).length < fuel) (hfc : v.messages.count < fuel) :
    GenEquiv.PutAgrees mk (GenEquiv.toGenValid mk now) (v.put now k id topics)
      (Gen.ValidReplayer_Put fuel (GenEquiv.toGenValid mk now v) (some m) topics) :=
  GenEquiv.validPut_eq mk now hnow v hl k id topics m hm hmk hc fuel hf hfc

/-- `ValidReplayer.Replay` as translated, with the model's subscriber: only entries that expire after `now` are
sent, in the model's order; the model's error; the replayer unchanged -/
theorem translated_ValidReplay_is_model (mk : Entry → Gen.Message) (hmk : GenEquiv.CarriesID mk) (now : Int) (v : Valid)
    (sub : Sub) (fuel : Nat) (hf : v.messages.tail + v.messages.buf.length + 1 < fuel)
    (hcount : v.messages.count < 9223372036854775808) (hft : GenEquiv.TopicsFuel fuel v.messages.buf sub) :
    GenEquiv.ReplayAgrees mk sub (GenEquiv.toGenValid mk now v) (Valid.replay v now sub)
      (Gen.ValidReplayer_Replay fuel (GenEquiv.toGenValid mk now v) (GenEquiv.gSub sub [])) :=
  GenEquiv.validReplay_eq mk hmk now v sub fuel hf hcount hft

end GoSSE.Props.C09
