import GoSSE.Proofs.SessionServer
import GoSSE.Proofs.GenEquivSession
import GoSSE.Proofs.GenEquivUpgrade
import GoSSE.Proofs.GenEquivWriters
import GoSSE.Proofs.GenEquivServer
/-!
# C16 — Session and Server keep the HTTP side of the protocol

Property theorems only (helper lemmas: `GoSSE/Proofs/Session.lean`, `SessionServer.lean`).

Every theorem of the session part holds for **every** fault schedule `sched : Nat → Option Nat`
(each `Write`/`Flush` call of the response writer may fail independently, a failing `Write` accepts any
number of bytes up to what was offered), every list `ops` of `Send`/`Flush` calls with arbitrary
messages, every writer layer/flush method `s.res`, and every starting value `c` of the call counter
(i.e. whatever `OnSession` did to the writer before). A run is `runOps sched s c ops`; its observation
`obs` has one entry per call with the events the call caused on the writer and the value it returned;
`trace obs` is the whole log, `bodyOf` the bytes the writer accepted.
-/
namespace GoSSE.Props.C16
open GoSSE GoSSE.Model.Session GoSSE.Model.Server GoSSE.Spec.HttpLog GoSSE.Proofs.Session

/-- the events `doUpgrade` causes when its flush succeeds: `Content-Type: text/event-stream` is assigned
on the session's writer, then that writer is flushed without error -/
abbrev upgradePair (res : Res) : List Ev := [upgradeHeader res, .flush res.lvl res.kind none]

/-- **The header is set and flushed before the first event byte.** Whatever `Write` call appears in
the log of a fresh session (even one that accepted nothing), the header assignment immediately
followed by a successful flush appears before it. -/
theorem no_body_before_successful_upgrade_flush (sched : Sched) (s : Session) (c : Nat) (ops : List Op)
    (hs : s.didUpgrade = false) (pre post : List Ev) (e : Ev)
    (h : trace (runOps sched s c ops).obs = pre ++ e :: post) (hw : e.isWrite = true) :
    ∃ a b, pre = a ++ upgradePair s.res ++ b := by
  have hp := run_phases sched s c ops
  rw [h, phases_append] at hp
  simp only [phaseOf, hs, Bool.false_eq_true, if_false] at hp
  cases hq : phases s.res .fresh pre with
  | none => simp [hq] at hp
  | some q =>
    rw [hq, Option.bind_some, phases_cons] at hp
    cases hq2 : stepPhase s.res q e with
    | none => simp [hq2] at hp
    | some q2 =>
      have := write_needs_upgraded s.res q e q2 hq2 hw
      subst this
      rcases reach_upgraded s.res pre .fresh hq with h1 | ⟨h1, _⟩ | h1
      · cases h1
      · cases h1
      · exact h1

/-- non-vacuity: a Send on a fresh session does write, after the pair -/
example : trace (runOps (fun _ => none) ⟨⟨0, .flushError⟩, false⟩ 0 [.send ⟨none, none, 0, [([120], false)]⟩]).obs
    = upgradePair ⟨0, .flushError⟩ ++ [.write 0 bytesData bytesData none, .write 0 [120] [120] none,
        .write 0 nl nl none, .write 0 nl nl none] := by decide

/-- **… and only once.** Once the header assignment has been followed by a successful flush, the header
is never assigned again, whatever is called afterwards and whatever fails; before that point the log
consists of header assignments and *failed* flushes only (failed attempts are repeated, a successful one
is not). -/
theorem upgrade_flush_succeeds_at_most_once (sched : Sched) (s : Session) (c : Nat) (ops : List Op)
    (hs : s.didUpgrade = false) (a b : List Ev) (x y : Ev)
    (h : trace (runOps sched s c ops).obs = a ++ x :: y :: b) (hx : x.isHeaderSet = true) (hy : isOkFlush y = true) :
    (∀ e ∈ b, e.isHeaderSet = false) ∧
    (∀ e ∈ a, e.isHeaderSet = true ∨ ∃ l k j, e = .flush l k (some j)) := by
  have hp := run_phases sched s c ops
  rw [h, phases_append] at hp
  simp only [phaseOf, hs, Bool.false_eq_true, if_false] at hp
  cases hq : phases s.res .fresh a with
  | none => simp [hq] at hp
  | some q =>
    rw [hq, Option.bind_some, phases_cons] at hp
    cases hq2 : stepPhase s.res q x with
    | none => simp [hq2] at hp
    | some q2 =>
      obtain ⟨h1, h2, _⟩ := headerSet_needs_fresh s.res q x q2 hq2 hx
      subst h1 h2
      rw [hq2, Option.bind_some, phases_cons] at hp
      have hy' : stepPhase s.res .headerSet y = some .upgraded ∨ stepPhase s.res .headerSet y = none := by
        cases y with
        | flush l k err =>
          cases err with
          | some j => simp [isOkFlush] at hy
          | none => by_cases hc : l = s.res.lvl ∧ k = s.res.kind <;> simp [stepPhase, hc]
        | _ => simp [isOkFlush] at hy
      rcases hy' with hy' | hy'
      · rw [hy', Option.bind_some] at hp
        cases hq3 : phases s.res .upgraded b with
        | none => simp [hq3] at hp
        | some q3 =>
          exact ⟨(upgraded_stays s.res b q3 hq3).2, (not_upgraded_yet s.res a .fresh .fresh hq (by simp)).2⟩
      · simp [hy'] at hp

/-- **`Flush` right after an upgrade does not flush twice**: every `Flush` call, from any state and
under any schedule, flushes the writer exactly once (and a `Send` never does, except for the upgrade). -/
theorem flush_flushes_exactly_once (sched : Sched) (s : Session) (c : Nat) (ops : List Op) :
    ∀ e ∈ (runOps sched s c ops).obs, e.op = .flush → (e.evs.filter Ev.isFlush).length = 1 := by
  apply forall_entries
  intro s c op hop
  simp only at hop
  subst hop
  obtain ⟨e, _, _, ⟨_, h⟩ | ⟨_, h⟩⟩ := flush_cases sched s c <;>
    simp [h, List.filter, Ev.isFlush, upgradeHeader]

/-- **The body is exactly the concatenation of the sent messages' encodings.** The body is the
concatenation of what each call contributed, and each call contributed (`Contribution`): `Flush` — nothing;
`Send m` returning nil — exactly `encode m`; `Send m` returning the error of writer call `k` — either no
`Write` was attempted (the upgrade flush failed) or the `Write`s before the failing one in full plus the
first `n` bytes of the failing one, `sched k = some n`. -/
theorem body_is_concat_of_encodings (sched : Sched) (s : Session) (c : Nat) (ops : List Op) :
    bodyOf (trace (runOps sched s c ops).obs) = ((runOps sched s c ops).obs.map fun e => bodyOf e.evs).flatten ∧
    ∀ e ∈ (runOps sched s c ops).obs, Contribution sched e :=
  ⟨bodyOf_trace _, forall_entries sched _ (step_contribution sched) s c ops⟩

/-- … in particular a failed `Send` leaves a prefix of its message's encoding, -/
theorem failed_send_leaves_prefix (sched : Sched) (s : Session) (c : Nat) (ops : List Op) :
    ∀ e ∈ (runOps sched s c ops).obs, ∀ m, e.op = .send m → bodyOf e.evs <+: encode m :=
  fun e he _ hop => ((body_is_concat_of_encodings sched s c ops).2 e he).prefix hop

/-- … and when no call reported an error the body is exactly the encodings of the sent messages, in order. -/
theorem body_when_no_error (sched : Sched) (s : Session) (c : Nat) (ops : List Op)
    (hr : ∀ e ∈ (runOps sched s c ops).obs, e.ret = none) :
    bodyOf (trace (runOps sched s c ops).obs) = (sentMsgs ops).flatMap encode := by
  have h := body_is_concat_of_encodings sched s c ops
  rw [h.1, body_all_ok sched _ h.2 hr, run_ops]

/-- non-vacuity of the failing branch: a short write in the middle of a message -/
example : (runOps (fun k => if k = 2 then some 1 else none) ⟨⟨0, .flushError⟩, false⟩ 0
    [.send ⟨none, none, 0, [([120, 121], false)]⟩]).obs.map (fun e => (bodyOf e.evs, e.ret))
    = [(bytesData ++ [120], some 2)] := by decide

/-- **`Flush` pushes everything sent so far.** When a `Flush` returns nil, the log up to and including
that call ends with a flush of the session's writer that reported no error: no accepted byte follows
the last flush. -/
theorem flush_pushes_everything (sched : Sched) (s : Session) (c : Nat) (ops : List Op)
    (before after : List Entry) (e : Entry) (h : (runOps sched s c ops).obs = before ++ e :: after)
    (hop : e.op = .flush) (hret : e.ret = none) :
    ∃ pre, trace (before ++ [e]) = pre ++ [.flush s.res.lvl s.res.kind none] := by
  have key : ∀ x ∈ (runOps sched s c ops).obs, x.op = .flush → x.ret = none →
      ∃ pre, x.evs = pre ++ [.flush s.res.lvl s.res.kind none] := by
    refine forall_entries_res sched
      (fun res x => x.op = .flush → x.ret = none → ∃ pre, x.evs = pre ++ [.flush res.lvl res.kind none]) ?_ s c ops
    intro s c op hop hret
    simp only at hop hret
    subst hop
    obtain ⟨r, _, h1, ⟨_, h2⟩ | ⟨_, h2⟩⟩ := flush_cases sched s c
    · exact ⟨[], by rw [h2, ← h1, hret]; rfl⟩
    · exact ⟨[upgradeHeader s.res], by rw [h2, ← h1, hret]; rfl⟩
  obtain ⟨pre, hpre⟩ := key e (by rw [h]; simp) hop hret
  exact ⟨trace before ++ pre, by simp [trace, hpre]⟩

/-- **The first write or flush error is returned to the caller.** Every call returns the first error
any writer call made on its behalf returned (nil if none did); moreover the call stops there: the
failing writer call is the last thing it does. -/
theorem first_error_returned (sched : Sched) (s : Session) (c : Nat) (ops : List Op) :
    ∀ e ∈ (runOps sched s c ops).obs,
      e.ret = firstErr e.evs ∧
      ∀ a x b, e.evs = a ++ x :: b → x.err ≠ none → b = [] ∧ e.ret = x.err := by
  apply forall_entries
  intro s c op
  have g := (step_facts sched s c op).good
  exact ⟨g.firstErr.symm, fun a x b h hx => g.stops h hx⟩

/-- The executable specification (`Spec/HttpLog.checkSession`, the oracle `./check` evaluates on the
real code's log) accepts every run of the model. -/
theorem session_spec_holds (sched : Sched) (s : Session) (c : Nat) (ops : List Op) (hs : s.didUpgrade = false) :
    checkSession s.res (runOps sched s c ops).obs = "ok" := by
  have hp := run_phases sched s c ops
  simp only [phaseOf, hs, Bool.false_eq_true, if_false] at hp
  have h1 := all_of_forall _ retOK (forall_entries sched (fun e => retOK e = true) (step_retOK sched) s c ops)
  have h2 := all_of_forall _ bodyOK (forall_entries sched (fun e => bodyOK e = true) (step_bodyOK sched) s c ops)
  have h3 := all_of_forall _ flushOK (forall_entries sched (fun e => flushOK e = true) (step_flushOK sched) s c ops)
  simp [checkSession, hp, h1, h2, h3]

/-! ## `Upgrade`, `getSubscription`, `ServeHTTP` -/

/-- **Which writer.** `getResponseWriter` stops at the outermost layer that can flush at all (unwrapping
only layers that cannot) and flushes through `FlushError` when that layer has it; it gives up (nil,
`ErrUpgradeUnsupported`) exactly when no layer can flush. -/
theorem getResponseWriter_spec (shape : Shape) : getResponseWriter shape 0 = resolve (layers shape) := by
  rw [getResponseWriter_resolve]
  cases resolve (layers shape) <;> simp

/-- **The subscription.** Whenever `ServeHTTP` calls the provider, the subscription carries the
request's Last-Event-ID — the first value under the key `Last-Event-Id`, unset when the key is absent,
has no values, the value is empty or is not a single line — and the topics `OnSession` returned,
`DefaultTopic` if it is nil or returned none. The provider is called iff the writer can flush and
`OnSession` did not reject. -/
theorem subscription_fields (sched : Sched) (shape : Shape) (h : Header) (onSession : Option OnSessionB)
    (prov : ProviderB) :
    (serveHTTP sched shape h onSession prov).sub =
      if (resolve (layers shape)).isSome ∧ (∀ b, onSession = some b → b.ok = true)
      then some ⟨expectedLastEventID h, expectedTopics onSession⟩ else none := by
  simp only [serveHTTP, upgrade, getResponseWriter_spec, lastEventIDOf_eq]
  cases resolve (layers shape) with
  | none => simp
  | some res =>
    cases onSession with
    | none => simp [getSubscription, expectedTopics, defaultTopicSlice, defaultTopic]; split <;> rfl
    | some b =>
      cases hok : b.ok with
      | false => simp [getSubscription, hok]
      | true =>
        cases ht : b.topics with
        | nil => simp [getSubscription, hok, ht, expectedTopics, defaultTopicSlice, defaultTopic]; split <;> rfl
        | cons t ts => simp [getSubscription, hok, ht, expectedTopics]; split <;> rfl

/-- the header rule case by case -/
theorem last_event_id_cases (h : Header) :
    (h.lookup headerLastEventID = none → lastEventIDOf h = none) ∧
    (h.lookup headerLastEventID = some [] → lastEventIDOf h = none) ∧
    (∀ v rest, h.lookup headerLastEventID = some (v :: rest) →
      lastEventIDOf h = if v = [] ∨ 10 ∈ v ∨ 13 ∈ v then none else some v) := by
  refine ⟨fun h0 => by simp [lastEventIDOf, h0], fun h0 => by simp [lastEventIDOf, h0], fun v rest h0 => ?_⟩
  simp only [lastEventIDOf, h0, newID, isSingleLine_eq, hasNewline]
  cases v with
  | nil => simp
  | cons b t =>
    have e1 : ((b :: t).contains 10 = true) ↔ 10 ∈ (b :: t) := List.contains_iff_mem
    have e2 : ((b :: t).contains 13 = true) ↔ 13 ∈ (b :: t) := List.contains_iff_mem
    by_cases h1 : (10 : UInt8) ∈ (b :: t) <;> by_cases h2 : (13 : UInt8) ∈ (b :: t) <;>
      simp [h1, h2, List.isEmpty] <;> simp_all

/-- non-vacuity: only the first value counts; a multi-line value leaves the ID unset -/
example : lastEventIDOf [(headerLastEventID, [[53], [54]])] = some [53] ∧
    lastEventIDOf [(headerLastEventID, [[53, 10, 54]])] = none ∧
    lastEventIDOf [([108, 97, 115, 116, 45, 101, 118, 101, 110, 116, 45, 105, 100], [[53]])] = none := by decide

/-- **A rejected session: `ServeHTTP` writes nothing of its own.** When `OnSession` returns false the
provider is not called and the log is exactly what `OnSession` itself did with the writer. -/
theorem rejected_session_writes_nothing (sched : Sched) (shape : Shape) (h : Header) (b : OnSessionB)
    (prov : ProviderB) (res : Res) (hres : resolve (layers shape) = some res) (hrej : b.ok = false) :
    let o := serveHTTP sched shape h (some b) prov
    o.sub = none ∧ o.obs = [] ∧ o.tail = [] ∧ o.log = (runActs sched res 0 b.acts).1 := by
  simp [serveHTTP, upgrade, getResponseWriter_spec, hres, getSubscription, hrej, Served.log, trace]

/-- **The 500 table.** (1) The writer cannot flush: `OnSession` and the provider are not called and the
response is `http.Error("Server-sent events unsupported", 500)`. (2) The provider returns an error:
`ServeHTTP` answers `http.Error(<error text>, 500)` after whatever the provider did with the session —
in particular, when nothing was sent before, the response *is* that 500. (3) The provider returns nil,
or (4) `OnSession` rejects: `ServeHTTP` adds nothing. -/
theorem error_500_table (sched : Sched) (shape : Shape) (h : Header) (onSession : Option OnSessionB)
    (prov : ProviderB) :
    let o := serveHTTP sched shape h onSession prov
    (resolve (layers shape) = none →
      o = ⟨false, [], none, [], httpError sched 0 unsupportedText 500⟩) ∧
    (∀ text, o.sub.isSome → provError prov.ret o.obs = some text →
      ∃ calls, o.tail = httpError sched calls text 500) ∧
    (o.sub.isSome → provError prov.ret o.obs = none → o.tail = []) ∧
    (o.sub.isNone → (resolve (layers shape)).isSome → o.tail = []) ∧
    (∀ calls text, answers500 (httpError sched calls text 500) = true) := by
  simp only [serveHTTP, upgrade, getResponseWriter_spec]
  refine ⟨?_, ?_, ?_, ?_, ?_⟩
  · intro hn; simp [hn]
  · intro text
    cases resolve (layers shape) with
    | none => simp
    | some res =>
      simp only
      split
      · simp
      · split
        · rename_i hp; simp [hp]
        · rename_i t hp; simp only [hp]; intro _ ht; exact ⟨_, by rw [Option.some.inj ht]⟩
  · cases resolve (layers shape) with
    | none => simp
    | some res =>
      simp only
      split
      · simp
      · split
        · simp
        · rename_i t hp; simp [hp]
  · cases resolve (layers shape) with
    | none => simp
    | some res =>
      simp only
      split
      · simp
      · split <;> simp
  · intro calls text; simp [answers500, httpError, List.dropWhile, Ev.isHeaderSet]

/-- The executable specification of `ServeHTTP` (`Spec/HttpLog.checkServed`, evaluated by `./check`
on what the real code did) accepts every run of the model. -/
theorem served_spec_holds (sched : Sched) (shape : Shape) (h : Header) (onSession : Option OnSessionB)
    (prov : ProviderB) :
    let o := serveHTTP sched shape h onSession prov
    checkServed shape h onSession (provError prov.ret o.obs).isSome o = "ok" := by
  have h500 : ∀ calls text, answers500 (httpError sched calls text 500) = true :=
    (error_500_table sched shape h onSession prov).2.2.2.2
  simp only [serveHTTP, upgrade, getResponseWriter_spec, checkServed]
  cases hres : resolve (layers shape) with
  | none => simp [h500]
  | some res =>
    simp only
    cases onSession with
    | none =>
      have hsess := session_spec_holds sched ⟨res, false⟩ 0 prov.ops rfl
      cases hp : provError prov.ret (runOps sched ⟨res, false⟩ 0 prov.ops).obs with
      | none => simp [getSubscription, hp, hsess, lastEventIDOf_eq, expectedTopics, defaultTopicSlice, defaultTopic]
      | some t => simp [getSubscription, hp, hsess, lastEventIDOf_eq, expectedTopics, defaultTopicSlice, defaultTopic, h500]
    | some b =>
      cases hok : b.ok with
      | false => simp [getSubscription, hok]
      | true =>
        have hsess := session_spec_holds sched ⟨res, false⟩ (runActs sched res 0 b.acts).2 prov.ops rfl
        cases hp : provError prov.ret (runOps sched ⟨res, false⟩ (runActs sched res 0 b.acts).2 prov.ops).obs with
        | none =>
          cases htp : b.topics <;>
            simp [getSubscription, hok, hp, htp, lastEventIDOf_eq, hsess, expectedTopics, defaultTopicSlice, defaultTopic]
        | some t =>
          cases htp : b.topics <;>
            simp [getSubscription, hok, hp, htp, lastEventIDOf_eq, hsess, expectedTopics, defaultTopicSlice, defaultTopic, h500]

/-! ### The translated source text (regenerated from /repo's session.go and message.go on every run) -/

/-- **`Session.Send`, `Session.Flush` and `Session.doUpgrade` as translated from session.go** — `Send` through the
translated `Message.WriteTo` with every `if err != nil { return }` of message.go — over the recording response writer
with *any* fault schedule (`GenEquiv.resOf`: the writer the theorems above quantify over, as a response writer of the
translated code: a state (calls so far, events so far), `Write`, `Flush`, `Header()[k] = v`): **for every sequence of
`Send` / `Flush` calls** with any messages (built values with a `time.Duration` retry), starting from any session
state, call counter and log, the translated code returns call by call what `runOps` returns, makes exactly the writer
calls `runOps` logs, and leaves `runOps`' session; it does not panic. The theorems above (`session_spec_holds` and its
parts) are therefore statements about the source text of session.go. -/
theorem translated_session_is_model (fuel : Nat) (sched : Sched) (ops : List GenEquiv.GOp) (s : Session) (c : Nat) (log : List Ev)
    (lid : Gen.EventID) (hf : 13 < fuel) (hok : ∀ op ∈ ops, op.Ok fuel) :
    GenEquiv.genRun fuel (GenEquiv.toGenS sched s (c, log) lid) ops =
      .ok ((runOps sched s c (ops.map GenEquiv.GOp.toOp)).obs.map (fun e => e.ret.map GenEquiv.errS),
           GenEquiv.toGenS sched (runOps sched s c (ops.map GenEquiv.GOp.toOp)).s
             ((runOps sched s c (ops.map GenEquiv.GOp.toOp)).calls,
              log ++ trace (runOps sched s c (ops.map GenEquiv.GOp.toOp)).obs) lid) :=
  GenEquiv.genRun_eq fuel sched ops s c log lid hf hok

/-- The session model's own small message encoding (`encodeWrites`, what `body_is_concat_of_encodings` speaks of) is
the message model's list of `Write` calls (`Message.writes`, what C02/C15 are stated over and the translated
`WriteTo` is proved to make): the two hand-written models agree for every message. -/
theorem session_encoding_is_message_encoding (m : GoSSE.Model.Message) (hm : m.retry ≤ (maxInt64 : Int)) :
    encodeWrites (GoSSE.Proofs.msgOf m) = m.writes :=
  GoSSE.Proofs.encodeWrites_msgOf m hm

/-- non-vacuity: a fresh session, a failing first flush, then a successful `Send` of `id: 7` + `data: x` and a `Flush` -/
example :
    (GenEquiv.genRun 20 (GenEquiv.toGenS (fun c => if c = 0 then some 0 else none) ⟨⟨0, .flushError⟩, false⟩ (0, []) default)
      [.send { chunks := [{ content := [120], isComment := false }], id := { value := [55], set := true } }, .flush,
       .send { chunks := [{ content := [120], isComment := false }], id := { value := [55], set := true } }]).map (·.1) =
    .ok [some "0", none, none] := by
  rfl

/-- **`sse.Upgrade` as translated from session.go.** Which writer the session gets is `getResponseWriter`'s answer, a
parameter here (`grw`: any function; its model is `getResponseWriter_spec` above, tied by the SESS / SERVE
correspondence): when it answers nil, `Upgrade` returns `ErrUpgradeUnsupported` and no session; otherwise a session over
that writer and the request, not yet upgraded, whose `LastEventID` is `upgradeLastEventID` of the values stored under
the canonical `Last-Event-Id` key — the function `last_event_id_cases` is stated over. It does not panic. -/
theorem translated_Upgrade_is_model {σ : Type} (fuel : Nat) (w : GoRT.HttpRW) (r : GoRT.HttpReq)
    (grw : GoRT.HttpRW → Option (GoRT.ResW σ))
    (hf : ∀ v ∈ (GoRT.headerGet r.Header GenEquiv.lastEventIdKey).head?, v.length < fuel) :
    Gen.Upgrade fuel w r grw =
      .ok (match grw w with
           | none => (none, some "ErrUpgradeUnsupported", r)
           | some rw => (some (GenEquiv.sessOf rw r (GoSSE.Model.upgradeLastEventID (GoRT.headerGet r.Header GenEquiv.lastEventIdKey))), none, r)) :=
  GenEquiv.Upgrade_eq fuel w r grw hf

/-- **`getResponseWriter` as translated from session.go** — the function `translated_Upgrade_is_model` takes as a
parameter. An `http.ResponseWriter` is a `GoRT.DynRW` there (an identity, the extra methods of its dynamic type, what
`Unwrap()` returns); a model `Shape` is such a writer with the layer numbers as identities (`toDyn`). For **every** shape
(any depth of `Unwrap()` wrappers, any combination of `Flush()` / `FlushError() error` on each layer) the translated loop
ends without a fault and chooses what the model chooses (`getResponseWriter_spec`: the outermost layer that can flush at
all, through `FlushError` if that layer has it, else through `Flush`; nil when no layer can) — named by the wrapper type
the source builds and the layer it wraps. -/
theorem translated_getResponseWriter_is_model (fuel : Nat) (sh : Shape) (hf : GenEquiv.depth sh < fuel) :
    ∃ r, Gen.getResponseWriter fuel (GenEquiv.toDyn sh 0) = .ok r ∧
      GenEquiv.resView r = GenEquiv.modelView (getResponseWriter sh 0) :=
  GenEquiv.getResponseWriter_eq fuel sh hf

/-- non-vacuity: a plain `Unwrap()`-only wrapper around a layer with both methods around anything: layer 1, `FlushError` -/
example :
    (Gen.getResponseWriter 5 (GenEquiv.toDyn (.wrapped .plain (.wrapped .both (.base .flusher))) 0)).map GenEquiv.resView =
      .ok (some ("flusherErrorWrapper", 1)) := by
  rfl

/-- **`Server.getSubscription` as translated from server.go** — "subscribes the session to the topics chosen by OnSession
(the default topic if it names none)". `OnSession` is the caller's callback: a parameter (`none` = the field is nil), read
from the field **at this call**. For every session and every callback the translated function does not fault, leaves
server and session alone, and answers the model's `getSubscription` of what the callback returned for this session's
writer and request: the subscriber is this session, with its `LastEventID`; the topics are the callback's when it approves
and names at least one, else the default topic; the verdict is the callback's (`true` without one). -/
theorem translated_getSubscription_is_model {σ : Type} (fuel : Nat) (s : Gen.Server) (sess : Gen.Session σ)
    (asW : Gen.Session σ → GoRT.MsgWriter Gen.Message σ)
    (onS : Option (GoRT.ResW σ → Option GoRT.HttpReq → (List Bytes × Bool))) :
    Gen.Server_getSubscription fuel s sess asW onS =
      .ok (({ Client := asW sess, LastEventID := sess.LastEventID,
              Topics := (getSubscription none (onS.map fun f => f sess.Res sess.Req)).1.topics } : Gen.Subscription σ),
           (getSubscription none (onS.map fun f => f sess.Res sess.Req)).2, s, sess) :=
  GenEquiv.getSubscription_eq fuel s sess asW onS

end GoSSE.Props.C16
