import GoSSE.Proofs.JoeMore
import GoSSE.Props.C03
/-!
# C17 — a failing subscriber or replayer affects nobody else
-/
namespace GoSSE.Props.C17
open GoSSE.Model.Joe GoSSE.Proofs.Joe

/-- A subscription's delivery window ends only for its *own* reasons: one of its own live Send/Flush
calls failed, its own context was cancelled, or the provider was shut down. Whatever happens to other
subscribers or to the replayer never ends it. -/
theorem window_ends_only_for_own_reason {c : Cfg} {s : St} (h : Reachable c s) (i : SubId)
    (he : (s.subs i).endAt ≠ none) :
    failedLive (s.subs i) = true ∨ (s.subs i).ctxCancelled = true ∨ s.doneClosed = true :=
  (reachable_all h).2.2.endWhy i he

/-- **Isolation.** A registered subscription none of whose own calls failed, whose context is not
cancelled, with no shutdown requested, has — whenever Joe is idle — been sent *every* matching
publication accepted since it was registered: the message during whose fan-out another subscriber
failed, and all later ones. -/
theorem isolation {c : Cfg} {s : St} (h : Reachable c s) (hj : s.joe = .idle) (i : SubId) (a : Nat)
    (hr : (s.subs i).regAt = some a) (hok : failedLive (s.subs i) = false)
    (hctx : (s.subs i).ctxCancelled = false) (hdone : s.doneClosed = false) :
    livePubs (s.subs i) = (s.log.drop a).filter (matchesP c i) := by
  have he : (s.subs i).endAt = none := by
    cases hne : (s.subs i).endAt with
    | none => rfl
    | some b =>
      exfalso
      rcases window_ends_only_for_own_reason h i (by simp [hne]) with x | x | x
      · rw [hok] at x; simp at x
      · rw [hctx] at x; simp at x
      · rw [hdone] at x; simp at x
  exact C03.registered_gets_everything h hj i a hr he

/-- Only the failing subscriber gets the error: the value placed in a subscription's channel, and hence
what its Subscribe call can return, is its own error — never another subscriber's. -/
theorem own_failure_removes_only_self {c : Cfg} {s s' : St} (h : Reachable c s) (k : SubId) (a b : Bool)
    (hs : step c s (.fanStep k a b) = some s') (i : SubId) (hik : i ≠ k) :
    (s'.subs i).ch = (s.subs i).ch ∧ (s'.subs i).endAt = (s.subs i).endAt ∧
    (i ∈ s'.subscribers ↔ i ∈ s.subscribers) := by
  have hi := (reachable_all h).1
  simp only [step] at hs
  split at hs
  · rename_i p rest hj
    split at hs
    · rename_i hmem
      have hmem' : k ∈ rest := by simpa using hmem
      have hk : k ∈ s.subscribers := (hi.fan p rest hj).2 k hmem'
      have hnf : ∀ p' j rest', s.joe ≠ .failed p' j rest' := by simp [hj]
      have hcl := (hi.reg k hk).1
      have hbuf : (s.subs k).ch.buf = none := by
        rcases (hi.reg k hk).2 with hb | ⟨p', rest', hf⟩
        · exact hb
        · exact absurd hf (hnf p' k rest')
      split at hs
      · simp only [Option.some.injEq] at hs; subst hs
        simp [setSub, upd, hik]
      · simp only [Option.some.injEq] at hs; subst hs
        rw [sendChan_ok _ _ _ (by simpa [setSub] using hcl) (by simpa [setSub] using hbuf)]
        simp [bad, setSub, hj, upd, hik]
    · simp at hs
  · simp at hs

/-- **Put error**: the Publish call gets the replayer's error, and the message is accepted into the log
and fanned out to exactly the same subscribers as if Put had succeeded (then `C03.delivery_exact`
applies to it like to any other logged publication). -/
theorem put_error_still_delivered {c : Cfg} {s s' s'' : St} (p : PubId)
    (herr : step c s (.pubAccept p .err) = some s') (hok : step c s (.pubAccept p (.ok 0)) = some s'') :
    (s'.pubs p).pc = .handed (some (.put p)) ∧ s'.log = s.log ++ [p] ∧ s'.joe = s''.joe ∧
    s'.subscribers = s''.subscribers ∧ s'.replayer = s''.replayer := by
  simp only [step] at herr hok
  split at herr
  · rename_i hg
    rw [if_pos hg] at hok
    split at herr
    · simp at herr
    · rename_i hn
      split at hok
      · simp at hok
      · simp only [Option.some.injEq] at herr hok; subst herr; subst hok
        simp [setPub]
        cases s.replayer <;> rfl
  · simp at herr

/-- **Replayer panic**: the call proceeds as if no replayer were configured (the subscription is
registered / the message is fanned out) and the replayer is disabled. -/
theorem panic_proceeds_and_disables {c : Cfg} {s s' : St} (i : SubId) (rc : List Call)
    (hs : step c s (.subAccept i rc .panic) = some s') :
    s'.replayer = false ∧ i ∈ s'.subscribers ∧ (s'.subs i).pc = .waiting := by
  simp only [step] at hs
  split at hs
  · split at hs
    · simp only [Option.some.injEq] at hs; subst hs; simp [setSub]
    · split at hs
      · rename_i h; simp at h
      · simp at hs
  · simp at hs

theorem put_panic_proceeds_and_disables {c : Cfg} {s s' : St} (p : PubId)
    (hs : step c s (.pubAccept p .panic) = some s') :
    s'.replayer = false ∧ s'.log = s.log ++ [p] ∧ (s'.pubs p).pc = .handed none := by
  simp only [step] at hs
  split at hs
  · split at hs
    · simp at hs
    · simp only [Option.some.injEq] at hs; subst hs; simp [setPub]
  · simp at hs

/-- Once disabled, the replayer stays disabled, and no later transition involves a `Put` or `Replay`
outcome: with `replayer = false` the only accepted subscription label is "no replay calls, ok" and the
only accepted publication label is "ok, nothing stored". -/
theorem disabled_replayer_is_never_used {c : Cfg} {s s' : St} (hd : s.replayer = false) (l : Label)
    (hs : step c s l = some s') :
    s'.replayer = false ∧
    (∀ i rc o, l = .subAccept i rc o → rc = [] ∧ o = .ok) ∧
    (∀ p o, l = .pubAccept p o → o = .ok 0) := by
  refine ⟨?_, ?_, ?_⟩
  · exact step_replayer l hs hd
  · intro i rc o hl; subst hl
    simp only [step] at hs
    split at hs
    · simp only [hd, Bool.false_eq_true, if_false] at hs
      split at hs
      · rename_i h; exact ⟨h.2, h.1⟩
      · simp at hs
    · simp at hs
  · intro p o hl; subst hl
    simp only [step] at hs
    split at hs
    · split at hs
      · simp at hs
      · rename_i h
        simp only [hd, Bool.false_eq_true, not_false_eq_true, true_and, Decidable.not_not] at h
        exact h
    · simp at hs

/-! ### The translated fan-out (see `Props/C03.lean`): a failing subscriber -/

/-- **Only the failing subscriber is removed, and it is handed its own error.** What the translated fan-out appends to the
log of Joe's channel operations is exactly, for every subscriber whose `Send` or `Flush` failed, in the order visited:
that error sent on *its own* `done` channel, then that channel's close — and nothing for anybody else. So a failed
subscriber gets its own first error (a failed `Send` is not followed by a `Flush`), exactly once, on a channel that is
closed right after and never touched again; the subscribers that did not fail stay in the map (`C03.fanout_exactly_once`:
their entries are `delivered` or `skipped`), whatever happened to the others before or after them in the same fan-out. -/
theorem fanout_hands_over_own_error {σ : Type} (fuel : Nat) (j : Gen.Joe σ) (msg : Gen.publishedMessage) (order : List Nat)
    (hf : order.length < fuel) (hfit : GenEquiv.TopicsFit fuel msg j) (hnd : order.Nodup) :
    ∃ j', Gen.Joe_fanout fuel j msg order = .ok j' ∧
      j'.chlog = j.chlog ++ order.flatMap fun k => GenEquiv.stepLog msg k (GoRT.mapGet j.subscribers k) :=
  ⟨_, GenEquiv.fanout_eq fuel j msg order hf hfit, GenEquiv.fold_log msg order j hnd⟩

/-- non-vacuity: three subscribers on topic "t"; the second one's Send fails: it gets "boom" and is closed, the others
are delivered to and stay -/
example :
    let w (fail : Bool) : GoRT.MsgWriter Gen.Message Nat :=
      ⟨0, fun st _ => (if fail then some "boom" else none, st + 1), fun st => (none, st + 10)⟩
    let sub (fail : Bool) : Gen.Subscription Nat := ⟨w fail, default, [[116]]⟩
    let j : Gen.Joe Nat := ⟨0, 0, 0, 0, 0, [(1, sub false), (2, sub true), (3, sub false)], (), (), []⟩
    let msg : Gen.publishedMessage := ⟨9, ⟨none, [[116]]⟩⟩
    (Gen.Joe_fanout 10 j msg [3, 2, 1]).map (fun j' => (j'.subscribers.map fun e => (e.1, e.2.Client.st), j'.chlog)) =
      .ok ([(1, 11), (3, 11)], [GoRT.ChanOp.send 2 (some "boom"), GoRT.ChanOp.close 2]) := by
  intro w sub j msg
  rfl

end GoSSE.Props.C17
