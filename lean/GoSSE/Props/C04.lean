import GoSSE.Proofs.JoeResume
import GoSSE.Props.C03
/-!
# C04 — resuming with Last-Event-ID yields exactly the missed events, then live ones

Runs of Joe with a replayer conforming to `ReplaySpec` (`ReachableC`: every Put is accepted and
stored, possibly evicting oldest entries; every Replay sends exactly the stored publications after
the presented one that match the topics — what C08/C09 prove of the two real replayers). Replay and
registration are one transition of the loop, so no publication can fall between them.
-/
namespace GoSSE.Props.C04
open GoSSE.Model.Joe GoSSE.Proofs.Joe

/-- **Exactly the missed events, then the live ones, no gap, no duplicate, in publish order.**
If subscription `i` presented the ID of publication `k` and `k` was still held by the replayer when the
loop accepted the subscription, then — whenever Joe is idle — everything ever sent to `i` (replayed,
then live) is exactly the part of the publication log after `k`, up to the end of `i`'s window,
filtered by `i`'s topics. -/
theorem resume_exact {c : Cfg} {s : St} (h : ReachableC c s) (hj : s.joe = .idle ∨ s.joe = .exited)
    (i : SubId) (a : Nat) (k : PubId) (hr : (s.subs i).regAt = some a) (hk : c.subLast i = some k)
    (hst : k ∈ (s.subs i).storeAt) :
    ∃ m, s.log[m]? = some k ∧ m < a ∧
      pubsOf (s.subs i).calls =
        ((s.log.take ((s.subs i).endAt.getD s.log.length)).drop (m + 1)).filter (matchesP c i) := by
  have hre := h.reachable
  have hall := reachable_all hre
  have hri := reachableC_rinv h
  obtain ⟨n, hn, hsa⟩ := hri.storeAt i a hr
  obtain ⟨hale, hb⟩ := hall.2.1.bounds i a hr
  -- the store at acceptance time is a duplicate-free piece of the log
  have hnd : (s.subs i).storeAt.Nodup := by
    rw [hsa]; exact (hall.2.2.logNodup.sublist (List.take_sublist _ _)).sublist (List.drop_sublist _ _)
  obtain ⟨pre, post, hdec⟩ := List.append_of_mem hst
  have hkpre : k ∉ pre := by
    intro hm
    rw [hdec] at hnd
    have := (List.nodup_append.mp hnd).2.2 k hm k (by simp)
    exact this rfl
  have hafter : afterID (s.subs i).storeAt k = post := by rw [hdec]; exact afterID_decomp pre post k hkpre
  -- position of k in the log
  have hlen : n + pre.length < a := by
    have : ((s.log.take a).drop n).length = (pre ++ k :: post).length := by rw [← hsa, hdec]
    simp at this; omega
  have hdropm : (s.log.take a).drop (n + pre.length) = k :: post := by
    have : ((s.log.take a).drop n).drop pre.length = k :: post := by
      rw [← hsa, hdec, List.drop_left]
    rwa [List.drop_drop] at this
  have hget : s.log[n + pre.length]? = some k := by
    have h1 : (s.log.take a)[n + pre.length]? = some k := by
      have := congrArg List.head? hdropm
      simpa [List.head?_drop] using this
    rw [List.getElem?_take] at h1
    simpa [hlen] using h1
  have hpost : (s.log.take a).drop (n + pre.length + 1) = post := by
    have := congrArg (List.drop 1) hdropm
    simpa [List.drop_drop, Nat.add_comm] using this
  refine ⟨n + pre.length, hget, hlen, ?_⟩
  have hb' : a ≤ (s.subs i).endAt.getD s.log.length := by
    cases he : (s.subs i).endAt with
    | none => simpa using hale
    | some b => simpa using (hb b he).1
  rw [pubsOf_calls, hri.replayed i a hr, C03.delivery_exact_idle hre hj i, hr]
  simp only [replaySends, hk, hafter]
  rw [take_drop_split s.log (n + pre.length + 1) a _ (by omega) hb', List.filter_append, hpost]

/-- non-vacuity of `resume_exact`: two publications, then a subscription presenting the ID of the first
one is replayed the second one; all hypotheses hold in the resulting (reachable, conforming) state -/
example : ∃ (c : Cfg) (s : St), ReachableC c s ∧ s.joe = .idle ∧ (s.subs 0).regAt = some 2 ∧ c.subLast 0 = some 0 ∧
    0 ∈ (s.subs 0).storeAt ∧ pubsOf (s.subs 0).calls = [1] := by
  let c : Cfg := { subTopics := fun _ => [0], pubTopics := fun _ => [0], subLast := fun _ => some 0 }
  let ls : List Label := [.pubCall 0, .pubAccept 0 (.ok 0), .fanDone, .pubRecv 0, .pubCall 1, .pubAccept 1 (.ok 0), .fanDone,
    .subCall 0, .subAccept 0 [.send 1 true, .flush true] .ok]
  have h0 : ReachableC c (GoSSE.Model.Joe.init true) :=
    ReachableC.init (by simp [IsInit, GoSSE.Model.Joe.init]) rfl
  match hr : runC c (GoSSE.Model.Joe.init true) ls with
  | some s =>
    refine ⟨c, s, runC_reachable h0 hr, ?_⟩
    have : ((runC c (GoSSE.Model.Joe.init true) ls).map fun t =>
        (decide (t.joe = .idle) && decide ((t.subs 0).regAt = some 2) && decide (0 ∈ (t.subs 0).storeAt) &&
          decide (pubsOf (t.subs 0).calls = [1]))) = some true := by decide
    rw [hr] at this
    simp only [Option.map_some, Option.some.injEq, Bool.and_eq_true, decide_eq_true_eq] at this
    exact ⟨this.1.1.1, this.1.1.2, rfl, this.1.2, this.2⟩
  | none =>
    have : (runC c (GoSSE.Model.Joe.init true) ls).isSome = true := by decide
    rw [hr] at this; simp at this

/-- **Presenting the newest ID replays nothing** (conforming replayer): the stored publications after
the newest stored one are none. -/
theorem newest_replays_nothing (c : Cfg) (pre : List PubId) (k : PubId) (i : SubId) (hk : c.subLast i = some k)
    (hn : k ∉ pre) : replaySends c (pre ++ [k]) i = [] := by
  simp [replaySends, hk, afterID_decomp pre [] k hn]

/-- **A never-issued (or evicted) ID replays nothing** — and live delivery proceeds: by
`C03.delivery_exact` the subscription receives every matching publication accepted after its registration. -/
theorem unknown_id_replays_nothing (c : Cfg) (store : List PubId) (k : PubId) (i : SubId) (hk : c.subLast i = some k)
    (hn : k ∉ store) : replaySends c store i = [] := by
  simp [replaySends, hk, afterID_absent store k hn]

theorem unknown_id_live_only {c : Cfg} {s : St} (h : ReachableC c s) (hj : s.joe = .idle ∨ s.joe = .exited)
    (i : SubId) (a : Nat) (k : PubId) (hr : (s.subs i).regAt = some a) (hk : c.subLast i = some k)
    (hst : k ∉ (s.subs i).storeAt) :
    pubsOf (s.subs i).calls =
      ((s.log.take ((s.subs i).endAt.getD s.log.length)).drop a).filter (matchesP c i) := by
  have hri := reachableC_rinv h
  rw [pubsOf_calls, hri.replayed i a hr, unknown_id_replays_nothing c _ k i hk hst,
    C03.delivery_exact_idle h.reachable hj i, hr]
  simp

/-- an unset Last-Event-ID replays nothing -/
theorem unset_id_replays_nothing (c : Cfg) (store : List PubId) (i : SubId) (hk : c.subLast i = none) :
    replaySends c store i = [] := by
  simp [replaySends, hk]

end GoSSE.Props.C04
