import GoSSE.Proofs.JoeResult
/-!
# C06 — the provider never crashes and never touches a subscriber after Subscribe returned

Statements about every reachable state of the transition system `GoSSE.Model.Joe`, i.e. every
interleaving of Subscribe / Publish / Shutdown calls, context cancellations, Send / Flush / Put /
Replay outcomes and `select` choices. The tie between that system and `joe.go` is the trace
inclusion check (`./check C06`).
-/
namespace GoSSE.Props.C06
open GoSSE.Model.Joe GoSSE.Proofs.Joe

/-- Joe's goroutine never panics (close of a closed channel, send on a closed channel) and never
blocks forever on a subscriber's channel — in every reachable state. -/
theorem never_panics {c : Cfg} {s : St} (h : Reachable c s) : s.joe ≠ .panicked ∧ s.joe ≠ .blocked :=
  (reachable_inv h).ok

/-- Once a `Subscribe` call has returned, no transition whatsoever makes another call on its
`MessageWriter`, and the call stays returned with the same result. -/
theorem untouched_after_return {c : Cfg} {s s' : St} (h : Reachable c s) (i : SubId) (r : Option Err)
    (hr : (s.subs i).pc = .returned r) (l : Label) (hs : step c s l = some s') :
    (s'.subs i).calls = (s.subs i).calls ∧ (s'.subs i).pc = .returned r := by
  have hinv := reachable_inv h
  -- a returned subscription is not in a fan-out's to-do list
  have hnot : ∀ p rest, s.joe = .fanout p rest → i ∉ rest := by
    intro p rest hj hmem
    have hi := (hinv.fan p rest hj).2 i hmem
    rcases hinv.ret i r hr with hn | ⟨p', rest', hf⟩
    · exact hn hi
    · rw [hj] at hf; simp at hf
  cases l with
  | subCall k =>
    simp only [step] at hs
    split at hs
    · rename_i hpc
      simp only [Option.some.injEq] at hs; subst hs
      have hki : i ≠ k := by intro e; subst e; rw [hr] at hpc; simp at hpc
      simp [setSub, upd, hki, hr]
    · simp at hs
  | subAccept k rc o =>
    simp only [step] at hs
    split at hs
    · rename_i hg
      have hki : i ≠ k := by intro e; subst e; rw [hr] at hg; simp at hg
      split at hs
      · cases o <;> simp only [Option.some.injEq] at hs <;> subst hs <;>
          simp [setSub, sendChan, closeChan, upd, hki, hr] <;> (repeat' split) <;> simp [upd, hki, hr]
      · split at hs
        · simp only [Option.some.injEq] at hs; subst hs; simp [setSub, upd, hki, hr]
        · simp at hs
    · simp at hs
  | subClosedEarly k =>
    simp only [step] at hs
    split at hs
    · rename_i hg
      simp only [Option.some.injEq] at hs; subst hs
      have hki : i ≠ k := by intro e; subst e; rw [hr] at hg; simp at hg
      simp [setSub, upd, hki, hr]
    · simp at hs
  | subSeeCancel k =>
    simp only [step] at hs
    split at hs
    · rename_i hg
      simp only [Option.some.injEq] at hs; subst hs
      have hki : i ≠ k := by intro e; subst e; rw [hr] at hg; simp at hg
      simp [setSub, upd, hki, hr]
    · simp at hs
  | subRecv k =>
    simp only [step] at hs
    split at hs
    · rename_i hg
      have hki : i ≠ k := by intro e; subst e; rw [hr] at hg; simp at hg
      split at hs
      · simp only [Option.some.injEq] at hs; subst hs; simp [setSub, upd, hki, hr]
      · split at hs
        · simp only [Option.some.injEq] at hs; subst hs; simp [setSub, upd, hki, hr]
        · simp at hs
    · simp at hs
  | unsubAccept k =>
    simp only [step] at hs
    split at hs
    · rename_i hg
      simp only [Option.some.injEq] at hs; subst hs
      have hki : i ≠ k := by intro e; subst e; rw [hr] at hg; simp at hg
      by_cases hk : k ∈ s.subscribers
      · rw [remove_mem k hk (hinv.reg k hk).1]; simp [setSub, upd, hki, hr]
      · rw [remove_not_mem k hk]; simp [setSub, upd, hki, hr]
    · simp at hs
  | cancel k =>
    simp only [step] at hs; split at hs <;> simp at hs; subst hs
    by_cases hki : i = k
    · subst hki; simp [setSub, hr]
    · simp [setSub, upd, hki, hr]
  | pubCall p => simp only [step] at hs; split at hs <;> simp at hs; subst hs; simp [setPub, hr]
  | pubNoTopic p => simp only [step] at hs; split at hs <;> simp at hs; subst hs; simp [setPub, hr]
  | pubAccept p o =>
    simp only [step] at hs
    split at hs
    · split at hs
      · simp at hs
      · simp only [Option.some.injEq] at hs; subst hs; simp [setPub, hr]
    · simp at hs
  | pubClosedEarly p => simp only [step] at hs; split at hs <;> simp at hs; subst hs; simp [setPub, hr]
  | pubRecv p => simp only [step] at hs; split at hs <;> simp at hs; subst hs; simp [setPub, hr]
  | fanStep k a b =>
    simp only [step] at hs
    split at hs
    · rename_i p rest hj
      split at hs
      · rename_i hmem
        have hki : i ≠ k := by intro e; subst e; exact hnot p rest hj (by simpa using hmem)
        split at hs
        · simp only [Option.some.injEq] at hs; subst hs; simp [setSub, upd, hki, hr]
        · simp only [Option.some.injEq] at hs; subst hs
          simp only [sendChan, setSub]
          (repeat' split) <;> simp [upd, hki, hr, setSub]
      · simp at hs
    · simp at hs
  | fanRemove =>
    simp only [step] at hs
    split at hs
    · rename_i p k rest hj
      simp only [Option.some.injEq] at hs; subst hs
      obtain ⟨hk, _, _, _⟩ := hinv.fail p k rest hj
      rw [remove_mem k hk (hinv.reg k hk).1]
      by_cases hki : i = k
      · subst hki; simp [bad, hj, hr]
      · simp [bad, hj, upd, hki, hr]
    · simp at hs
  | fanDone => simp only [step] at hs; split at hs <;> simp at hs; subst hs; simp [hr]
  | loopExit =>
    simp only [step] at hs
    split at hs
    · rename_i hg
      simp only [Option.some.injEq] at hs; subst hs
      obtain ⟨_, hj1, hpc⟩ := inv_closeAll hinv hg.1 s.subscribers
      have hcalls : ∀ (l : List SubId) (t : St), Inv t → t.joe = .idle →
          ((closeAll l t).subs i).calls = (t.subs i).calls := by
        intro l
        induction l with
        | nil => intro t _ _; rfl
        | cons k ks ih =>
          intro t ht hjt
          obtain ⟨h1, hj1', _, _⟩ := inv_remove_idle ht hjt k
          show ((closeAll ks (removeSubscriber t k)).subs i).calls = _
          rw [ih _ h1 hj1']
          by_cases hk : k ∈ t.subscribers
          · rw [remove_mem k hk (ht.reg k hk).1]
            by_cases hki : i = k
            · subst hki; simp
            · simp [upd, hki]
          · rw [remove_not_mem k hk]
      have hnb : bad (closeAll s.subscribers s) = false := by simp [bad, hj1]
      simp only [hnb, Bool.false_eq_true, if_false]
      exact ⟨hcalls _ _ hinv hg.1, by rw [hpc i, hr]⟩
    · simp at hs
  | shutCall k => simp only [step] at hs; split at hs <;> simp at hs; subst hs; simp [setShut, hr]
  | shutClose k => simp only [step] at hs; split at hs <;> simp at hs; subst hs; simp [setShut, hr]
  | shutRecovered k => simp only [step] at hs; split at hs <;> simp at hs; subst hs; simp [setShut, hr]
  | shutSeeClosed k => simp only [step] at hs; split at hs <;> simp at hs; subst hs; simp [setShut, hr]
  | shutCtx k => simp only [step] at hs; split at hs <;> simp at hs; subst hs; simp [setShut, hr]
  | shutCancel k => simp only [step] at hs; split at hs <;> simp at hs; subst hs; simp [setShut, hr]

/-- **What Subscribe can return.** In every reachable state a returned Subscribe call returned one of:
nil — and then its context was cancelled or the provider was shut down; its own Send/Flush error; the
error Replay returned for it; ErrProviderClosed. Never another subscriber's error. -/
theorem subscribe_result {c : Cfg} {s : St} (h : Reachable c s) (i : SubId) (r : Option Err)
    (hr : (s.subs i).pc = .returned r) :
    (r = none ∧ ((s.subs i).ctxCancelled = true ∨ s.doneClosed = true)) ∨
    r = some (.own i) ∨ r = some (.replay i) ∨ r = some .closed := by
  rcases (reachable_jinv h).result i r hr with ⟨h1, h2⟩ | h' | h' | h'
  · left; simp only [Bool.or_eq_true] at h2; exact ⟨h1, h2⟩
  · exact Or.inr (Or.inl h')
  · exact Or.inr (Or.inr (Or.inl h'))
  · exact Or.inr (Or.inr (Or.inr h'))

/-- **The own error is returned if one occurred**: when one of the subscription's own live Send/Flush
calls failed, the Subscribe call — once it returns — returns that error, unless its context was also
cancelled (then the two race and nil is possible; see DESIGN.md §7 "readings"). -/
theorem own_error_is_returned {c : Cfg} {s : St} (h : Reachable c s) (i : SubId) (r : Option Err)
    (hf : failedLive (s.subs i) = true) (hr : (s.subs i).pc = .returned r) :
    r = some (.own i) ∨ (s.subs i).ctxCancelled = true := by
  rcases (reachable_jinv h).ownErr i hf with ⟨_, hb⟩ | ⟨r', hr', hx⟩
  · exact Or.inr (hb r hr)
  · rw [hr] at hr'; simp only [SubPc.returned.injEq] at hr'; subst hr'; exact hx

end GoSSE.Props.C06
