import GoSSE.Proofs.JoeMeasure
import GoSSE.Proofs.GenEquivJoeFanout
/-!
# C07 — Shutdown terminates everything; no provider call blocks forever

`Pending s`: some call is at a point from which the property says it must be able to go on — a
Subscribe not yet accepted, a Subscribe whose context is cancelled or whose provider is shutting
down, any Publish that has not returned, any Shutdown that has not returned. Labels of the
environment (a new call is made, a context is cancelled) are not progress.
-/
namespace GoSSE.Props.C07
open GoSSE.Model.Joe GoSSE.Proofs.Joe

def isEnv : Label → Bool
  | .subCall _ | .pubCall _ | .shutCall _ | .cancel _ | .shutCancel _ => true
  | _ => false

def SubPending (s : St) (i : SubId) : Prop :=
  (s.subs i).pc = .start ∨ (s.subs i).pc = .cancelled ∨
  ((s.subs i).pc = .waiting ∧ ((s.subs i).ctxCancelled = true ∨ s.doneClosed = true))

def PubPending (s : St) (p : PubId) : Prop := (s.pubs p).pc = .start ∨ ∃ e, (s.pubs p).pc = .handed e

def ShutPending (s : St) (k : ShutId) : Prop := (s.shuts k).pc = .start ∨ (s.shuts k).pc = .waiting

def Pending (s : St) : Prop := (∃ i, SubPending s i) ∨ (∃ p, PubPending s p) ∨ (∃ k, ShutPending s k)

/-- while the loop is in the middle of a fan-out it can always take its next step (given that Send and
Flush return — they are labels) -/
theorem loop_busy_can_step {c : Cfg} {s : St} (hb : (∃ p rest, s.joe = .fanout p rest) ∨ (∃ p i rest, s.joe = .failed p i rest)) :
    ∃ l, isEnv l = false ∧ (step c s l).isSome = true := by
  rcases hb with ⟨p, rest, hj⟩ | ⟨p, i, rest, hj⟩
  · cases rest with
    | nil => exact ⟨.fanDone, rfl, by simp [step, hj]⟩
    | cons i is => exact ⟨.fanStep i true true, rfl, by simp [step, hj]⟩
  · exact ⟨.fanRemove, rfl, by simp [step, hj]⟩

/-- **No deadlock.** In every reachable state in which some call is pending, some transition other
than an environment action is enabled. -/
theorem no_deadlock {c : Cfg} {s : St} (h : Reachable c s) (hp : Pending s) :
    ∃ l, isEnv l = false ∧ (step c s l).isSome = true := by
  have hinv := (reachable_all h).1
  have hpinv := reachable_pinv h
  -- what the loop can do, by its state
  cases hj : s.joe with
  | fanout p rest => exact loop_busy_can_step (Or.inl ⟨p, rest, hj⟩)
  | failed p i rest => exact loop_busy_can_step (Or.inr ⟨p, i, rest, hj⟩)
  | panicked => exact absurd hj hinv.ok.1
  | blocked => exact absurd hj hinv.ok.2
  | idle =>
    rcases hp with ⟨i, hi⟩ | ⟨p, hp⟩ | ⟨k, hk⟩
    · rcases hi with hs | hc | ⟨hw, hx | hd⟩
      · by_cases hr : s.replayer = true
        · exact ⟨.subAccept i [] .ok, rfl, by simp [step, hs, hj, hr]⟩
        · exact ⟨.subAccept i [] .ok, rfl, by simp [step, hs, hj, hr]⟩
      · exact ⟨.unsubAccept i, rfl, by simp [step, hc, hj]⟩
      · exact ⟨.subSeeCancel i, rfl, by simp [step, hw, hx]⟩
      · exact ⟨.loopExit, rfl, by simp [step, hj, hd]⟩
    · rcases hp with hs | ⟨e, he⟩
      · by_cases ht : c.pubTopics p = []
        · exact ⟨.pubNoTopic p, rfl, by simp [step, hs, ht]⟩
        · exact ⟨.pubAccept p (.ok 0), rfl, by simp [step, hs, hj, ht]⟩
      · exact ⟨.pubRecv p, rfl, by simp [step, he]⟩
    · rcases hk with hs | hw
      · by_cases hd : s.doneClosed = true
        · exact ⟨.shutRecovered k, rfl, by simp [step, hs, hd]⟩
        · exact ⟨.shutClose k, rfl, by simp [step, hs, hd]⟩
      · exact ⟨.loopExit, rfl, by simp [step, hj, hpinv.shutWaiting k hw]⟩
  | exited =>
    obtain ⟨hd, hcc, hsubs⟩ := hpinv.exited hj
    rcases hp with ⟨i, hi⟩ | ⟨p, hp⟩ | ⟨k, hk⟩
    · have recv : ((s.subs i).pc = .waiting ∨ (s.subs i).pc = .cancelled) → ∃ l, isEnv l = false ∧ (step c s l).isSome = true := by
        intro hw
        rcases hpinv.waitingOK i hw with hm | hb | hcl
        · rw [hsubs] at hm; simp at hm
        · cases hbuf : (s.subs i).ch.buf with
          | none => exact absurd hbuf hb
          | some e => exact ⟨.subRecv i, rfl, by simp [step, hw, hbuf]⟩
        · cases hbuf : (s.subs i).ch.buf with
          | none => exact ⟨.subRecv i, rfl, by simp [step, hw, hbuf, hcl]⟩
          | some e => exact ⟨.subRecv i, rfl, by simp [step, hw, hbuf]⟩
      rcases hi with hs | hc | ⟨hw, _⟩
      · exact ⟨.subClosedEarly i, rfl, by simp [step, hs, hd]⟩
      · exact recv (Or.inr hc)
      · exact recv (Or.inl hw)
    · rcases hp with hs | ⟨e, he⟩
      · by_cases ht : c.pubTopics p = []
        · exact ⟨.pubNoTopic p, rfl, by simp [step, hs, ht]⟩
        · exact ⟨.pubClosedEarly p, rfl, by simp [step, hs, hd, ht]⟩
      · exact ⟨.pubRecv p, rfl, by simp [step, he]⟩
    · rcases hk with hs | hw
      · exact ⟨.shutRecovered k, rfl, by simp [step, hs, hd]⟩
      · exact ⟨.shutSeeClosed k, rfl, by simp [step, hw, hcc]⟩

/-- **Termination without fairness assumptions.** Fix any bounds `nS`, `nP`, `nK` on the identifiers of
the calls made so far. Every run that starts in a reachable state and contains no *new* call (cancellations,
`select` choices, Send/Flush/Put/Replay outcomes and every interleaving are allowed) has at most
`mu nS nP nK s` steps. Together with `no_deadlock`: from any reachable state — in particular after
`Shutdown` has closed `done` — every maximal run without new calls is finite and ends in a state where
nothing is pending: every Subscribe that is started, cancelled or caught by the shutdown has returned,
every Publish and every Shutdown has returned. -/
theorem runs_terminate {c : Cfg} {s s' : St} {ls : List Label} (nS nP nK : Nat) (h : Reachable c s)
    (hb : SubsBelow nS s) (r : Run c s ls s') (hls : ∀ l ∈ ls, isCall l = false ∧ labelIn nS nP nK l) :
    ls.length ≤ mu nS nP nK s := by
  have := run_bounded nS nP nK h hb r hls
  omega

/-- a state in which no transition other than an environment action is enabled has nothing pending -/
theorem quiescent_means_all_returned {c : Cfg} {s : St} (h : Reachable c s)
    (hq : ∀ l, isEnv l = false → (step c s l).isSome = false) : ¬ Pending s := by
  intro hp
  obtain ⟨l, hl, hs⟩ := no_deadlock h hp
  rw [hq l hl] at hs; simp at hs

/-- After the loop has exited it has released every subscriber and closed `closed`; `closed` is closed
only by the exiting loop. -/
theorem exit_releases_everything {c : Cfg} {s : St} (h : Reachable c s) :
    (s.joe = .exited → s.doneClosed = true ∧ s.closedClosed = true ∧ s.subscribers = []) ∧
    (s.closedClosed = true → s.joe = .exited) :=
  ⟨(reachable_pinv h).exited, (reachable_pinv h).closedExited⟩

/-- **Return values of Shutdown.** A Shutdown call that finds `done` already closed (a repeated or
concurrent call: closing a closed channel panics and is recovered) returns ErrProviderClosed; the call
that closes it returns nil once the loop has exited, or its context's error if that ends first. -/
theorem shutdown_results {c : Cfg} {s s' : St} (h : Reachable c s) (k : ShutId) (l : Label) (hs : step c s l = some s')
    (hbefore : ∀ r, (s.shuts k).pc ≠ .returned r) (r : Option Err) (hafter : (s'.shuts k).pc = .returned r) :
    (l = .shutRecovered k ∧ s.doneClosed = true ∧ r = some .closed) ∨
    (l = .shutSeeClosed k ∧ s.closedClosed = true ∧ r = none) ∨
    (l = .shutCtx k ∧ (s.shuts k).ctxDone = true ∧ r = some (.ctx k)) := by
  have hi := (reachable_all h).1
  -- transitions that leave `shuts` alone cannot make the call return
  have same : s'.shuts = s.shuts → False := fun e => by rw [e] at hafter; exact hbefore r hafter
  cases l with
  | shutRecovered j =>
    simp only [step] at hs
    split at hs
    · rename_i hg
      simp only [Option.some.injEq] at hs; subst hs
      by_cases hjk : k = j
      · subst hjk; simp [setShut] at hafter; exact Or.inl ⟨rfl, hg.2, hafter.symm⟩
      · simp [setShut, upd, hjk] at hafter; exact absurd hafter (hbefore r)
    · simp at hs
  | shutSeeClosed j =>
    simp only [step] at hs
    split at hs
    · rename_i hg
      simp only [Option.some.injEq] at hs; subst hs
      by_cases hjk : k = j
      · subst hjk; simp [setShut] at hafter; exact Or.inr (Or.inl ⟨rfl, hg.2, hafter.symm⟩)
      · simp [setShut, upd, hjk] at hafter; exact absurd hafter (hbefore r)
    · simp at hs
  | shutCtx j =>
    simp only [step] at hs
    split at hs
    · rename_i hg
      simp only [Option.some.injEq] at hs; subst hs
      by_cases hjk : k = j
      · subst hjk; simp [setShut] at hafter; exact Or.inr (Or.inr ⟨rfl, hg.2, hafter.symm⟩)
      · simp [setShut, upd, hjk] at hafter; exact absurd hafter (hbefore r)
    · simp at hs
  | shutCall j =>
    simp only [step] at hs; split at hs <;> simp at hs; subst hs
    by_cases hjk : k = j
    · subst hjk; simp [setShut] at hafter
    · simp [setShut, upd, hjk] at hafter; exact absurd hafter (hbefore r)
  | shutClose j =>
    simp only [step] at hs; split at hs <;> simp at hs; subst hs
    by_cases hjk : k = j
    · subst hjk; simp [setShut] at hafter
    · simp [setShut, upd, hjk] at hafter; exact absurd hafter (hbefore r)
  | shutCancel j =>
    simp only [step] at hs; split at hs <;> simp at hs; subst hs
    by_cases hjk : k = j
    · subst hjk; simp [setShut] at hafter; exact absurd hafter (hbefore r)
    · simp [setShut, upd, hjk] at hafter; exact absurd hafter (hbefore r)
  | subCall j => exfalso; apply same; simp only [step] at hs; split at hs <;> simp at hs; subst hs; rfl
  | subAccept j rc o =>
    exfalso; apply same
    simp only [step] at hs
    split at hs
    · rename_i hg
      obtain ⟨hch0, _⟩ := hi.fresh j (Or.inr hg.1)
      split at hs
      · cases o with
        | ok => simp only [Option.some.injEq] at hs; subst hs; rfl
        | panic => simp only [Option.some.injEq] at hs; subst hs; rfl
        | err =>
          simp only [Option.some.injEq] at hs; subst hs
          simp only [sendChan, closeChan, setSub, upd_same, hch0]
          simp
      · split at hs
        · simp only [Option.some.injEq] at hs; subst hs; rfl
        · simp at hs
    · simp at hs
  | subClosedEarly j => exfalso; apply same; simp only [step] at hs; split at hs <;> simp at hs; subst hs; rfl
  | subSeeCancel j => exfalso; apply same; simp only [step] at hs; split at hs <;> simp at hs; subst hs; rfl
  | subRecv j =>
    exfalso; apply same
    simp only [step] at hs
    split at hs
    · split at hs
      · simp only [Option.some.injEq] at hs; subst hs; rfl
      · split at hs
        · simp only [Option.some.injEq] at hs; subst hs; rfl
        · simp at hs
    · simp at hs
  | unsubAccept j =>
    exfalso; apply same
    simp only [step] at hs; split at hs <;> simp at hs; subst hs
    exact (removeSubscriber_rest hi j).2.1
  | cancel j => exfalso; apply same; simp only [step] at hs; split at hs <;> simp at hs; subst hs; rfl
  | pubCall p => exfalso; apply same; simp only [step] at hs; split at hs <;> simp at hs; subst hs; rfl
  | pubNoTopic p => exfalso; apply same; simp only [step] at hs; split at hs <;> simp at hs; subst hs; rfl
  | pubAccept p o =>
    exfalso; apply same
    simp only [step] at hs
    split at hs
    · split at hs
      · simp at hs
      · simp only [Option.some.injEq] at hs; subst hs; rfl
    · simp at hs
  | pubClosedEarly p => exfalso; apply same; simp only [step] at hs; split at hs <;> simp at hs; subst hs; rfl
  | pubRecv p => exfalso; apply same; simp only [step] at hs; split at hs <;> simp at hs; subst hs; rfl
  | fanStep j a b =>
    exfalso; apply same
    simp only [step] at hs
    split at hs
    · rename_i p rest hjo
      split at hs
      · rename_i hmem
        have hmem' : j ∈ rest := by simpa using hmem
        have hkm : j ∈ s.subscribers := (hi.fan p rest hjo).2 j hmem'
        have hnf : ∀ p' j' rest', s.joe ≠ .failed p' j' rest' := by simp [hjo]
        have hcl := (hi.reg j hkm).1
        have hbuf : (s.subs j).ch.buf = none := by
          rcases (hi.reg j hkm).2 with hb | ⟨p', rest', hf⟩
          · exact hb
          · exact absurd hf (hnf p' j rest')
        split at hs
        · simp only [Option.some.injEq] at hs; subst hs; rfl
        · simp only [Option.some.injEq] at hs
          rw [sendChan_ok _ _ _ (by simpa [setSub] using hcl) (by simpa [setSub] using hbuf)] at hs
          simp only [bad, setSub, hjo] at hs
          subst hs; rfl
      · simp at hs
    · simp at hs
  | fanRemove =>
    exfalso; apply same
    simp only [step] at hs
    split at hs
    · rename_i p j rest hjo
      obtain ⟨_, hnb⟩ := inv_fanRemove hi hjo
      simp only [Bool.not_eq_true] at hnb
      simp only [Option.some.injEq] at hs; subst hs
      simp only [hnb, Bool.false_eq_true, if_false]
      exact (removeSubscriber_rest hi j).2.1
    · simp at hs
  | fanDone => exfalso; apply same; simp only [step] at hs; split at hs <;> simp at hs; subst hs; rfl
  | loopExit =>
    exfalso; apply same
    simp only [step] at hs
    split at hs
    · rename_i hg
      simp only [Option.some.injEq] at hs; subst hs
      obtain ⟨_, hj1, _⟩ := inv_closeAll hi hg.1 s.subscribers
      have hnb : bad (closeAll s.subscribers s) = false := by simp [bad, hj1]
      simp only [hnb, Bool.false_eq_true, if_false]
      exact (closeAll_subM hi hg.1 s.subscribers 0).2.2
    · simp at hs

/-! ### `closeSubscribers` and `removeSubscriber`, as translated from joe.go -/

/-- **`closeSubscribers` as translated** (what the loop's deferred exit runs): whatever the order in which the map of
subscribers is ranged over, afterwards none of the visited keys is a subscriber any more, and — for a duplicate-free
order — the channel log has grown by exactly one close per subscriber that was registered, in that order: every pending
`Subscribe` is released, no channel is closed twice (a second close would panic). `removeSubscriber` (`removeSpec`) does
nothing to a key that is not registered — the guard that makes a late unsubscription harmless. -/
theorem translated_closeSubscribers {σ : Type} (fuel : Nat) (j : Gen.Joe σ) (order : List Nat) (hf : order.length < fuel)
    (hnd : order.Nodup) :
    ∃ j', Gen.Joe_closeSubscribers fuel j order = .ok j' ∧
      (∀ k ∈ order, GoRT.mapGet j'.subscribers k = none) ∧
      j'.chlog = j.chlog ++ (order.filter fun k => (GoRT.mapGet j.subscribers k).isSome).map GoRT.ChanOp.close :=
  ⟨_, GenEquiv.closeSubscribers_eq fuel j order hf, fun k hk => GenEquiv.closeFold_gone order j k hk,
    GenEquiv.closeFold_log order j hnd⟩

theorem translated_removeSubscriber {σ : Type} (fuel : Nat) (j : Gen.Joe σ) (k : Nat) :
    Gen.Joe_removeSubscriber fuel j k = .ok (GenEquiv.removeSpec j k) :=
  GenEquiv.removeSubscriber_eq fuel j k

end GoSSE.Props.C07
