import GoSSE.Proofs.GenEquivQueue
import GoSSE.Proofs.GenEquivReplay
import GoSSE.Proofs.GenEquiv
import GoSSE.Proofs.QueueFinite
/-!
# C08 — FiniteReplayer is a bounded FIFO of the last N events

The model (`Model/Queue.lean`, `Model/Finite.lean`) follows `replay.go` function by function;
the specification (`Spec/Replay.lean`) is a plain list. `abs f.buf` reads the ring buffer as
the list of stored entries (from `head`, `count` of them, conditional wrap); `FInv N f` is the
invariant (`wf`: `count ≤ N`, `head, tail < N`, `head + count ≡ tail`, live slots non-empty;
`buf.length = N`; automatic IDs consecutive; dead slots zero). Everything holds for every
capacity `N ≥ 2`, both ID modes and every reachable `(head, tail, count)`.
-/
namespace GoSSE.Props.C08
open GoSSE GoSSE.Spec GoSSE.Model GoSSE.Proofs

/-- `NewFiniteReplayer` rejects `N < 2`; otherwise the new replayer satisfies the invariant and
stands for the empty specification state. -/
theorem new_inv (N : Nat) (auto : Bool) :
    (N < 2 → newFinite N auto = none) ∧
    (2 ≤ N → ∃ f, newFinite N auto = some f ∧ FInv N f ∧ fspec f = State.init auto) := by
  constructor
  · intro h; simp [newFinite, h]
  · intro h
    simp only [newFinite, show ¬ N < 2 from by omega, if_false]
    refine ⟨_, rfl, ?_, ?_⟩
    · exact ⟨wf_new N (by omega), by simp, h, by intro c _; rw [abs_replicate]; exact consec_nil c, deadZero_new N⟩
    · simp [fspec, abs_replicate, State.init]

/-- `put_refines` (with `wf_preserved`): `Put` never panics, preserves the invariant, and acts on
the abstraction exactly as the specification's `put`: rejected Puts change nothing, accepted ones
append the ID-carrying copy and keep the last `N` entries
(`abs (put q m) = (abs q ++ [m']).takeLast N`). -/
theorem put_refines (N : Nat) (f : Finite) (h : FInv N f) (msg : Nat) (id : EventID) (topics : List Bytes) :
    ∃ r f', f.put msg id topics = .ok (r, f') ∧ FInv N f' ∧
      (r, fspec f') = Spec.put (some N) (fspec f) msg id topics 0 := by
  unfold Finite.put Spec.put
  by_cases ht : topics.isEmpty = true
  · simp only [ht, if_true]
    exact ⟨_, _, rfl, h, rfl⟩
  · simp only [ht, if_false, Bool.false_eq_true, ensureID_eq, fspec]
    cases ha : assignID f.currentID id with
    | error e => exact ⟨_, _, rfl, h, rfl⟩
    | ok p =>
      obtain ⟨id', cur'⟩ := p
      simp only
      obtain ⟨q', he, hw, hl, habs⟩ := enqueue_abs h.wf (by have := h.cap; have := h.len; omega)
        { msg := msg, id := id', topics := topics, exp := 0 }
      rw [he]
      refine ⟨_, _, rfl, ?_, ?_⟩
      · refine ⟨hw, by rw [hl, h.len], h.cap, ?_, enqueue_deadZero h.wf (by have := h.cap; have := h.len; omega) h.dead _ q' he⟩
        intro c hc
        simp only at hc
        subst hc
        cases hcur : f.currentID with
        | none => cases id <;> simp [assignID, hcur] at ha
        | some k =>
          rw [hcur] at ha
          cases id with
          | some _ => simp [assignID] at ha
          | none =>
            simp only [assignID, Option.isSome_none, Bool.false_eq_true, if_false, Except.ok.injEq, Prod.mk.injEq,
              Option.some.injEq] at ha
            obtain ⟨h1, h2⟩ := ha
            subst h1 h2
            simp only [habs]
            exact consec_put (h.auto k hcur) _ rfl _
      · simp only [habs, h.len]

/-- `wf_preserved`, spelled out: after any `Put` on a replayer satisfying the invariant,
`count ≤ N`, `head, tail < N`, `head + count ≡ tail (mod N)`, full ↔ `head = tail ∧ count ≠ 0`,
the backing array still has `N` slots, and the `count` slots from `head` are non-empty. -/
theorem wf_preserved (N : Nat) (f : Finite) (h : FInv N f) (msg : Nat) (id : EventID) (topics : List Bytes) :
    ∃ r f', f.put msg id topics = .ok (r, f') ∧ f'.buf.buf.length = N ∧ f'.buf.count ≤ N ∧
      f'.buf.head < N ∧ f'.buf.tail < N ∧
      (f'.buf.head + f'.buf.count = f'.buf.tail ∨ f'.buf.head + f'.buf.count = f'.buf.tail + N) ∧
      (f'.buf.count = N ↔ (f'.buf.head = f'.buf.tail ∧ f'.buf.count ≠ 0)) ∧
      (abs f'.buf).length = f'.buf.count := by
  obtain ⟨r, f', hp, hinv, _⟩ := put_refines N f h msg id topics
  have hw := hinv.wf
  have hl := hinv.len
  have hc := hinv.cap
  have := hw.cnt; have := hw.hd; have := hw.tl; have := hw.ring
  refine ⟨r, f', hp, hl, by omega, by omega, by omega, by omega, ?_, abs_length hw⟩
  rw [← hl]; exact hw.full_iff (by omega)

/-- the three rejections leave the replayer — buffer and counter — untouched -/
theorem put_rejected_unchanged (f : Finite) (msg : Nat) (id : EventID) (topics : List Bytes)
    (e : PutErr) (f' : Finite) (h : f.put msg id topics = .ok (.error e, f')) : f' = f := by
  unfold Finite.put at h
  split at h
  · cases h; rfl
  · split at h
    · cases h; rfl
    · simp only at h
      split at h <;> cases h

/-- which Puts are rejected: no topics; no ID in manual mode; an ID in automatic mode -/
theorem put_rejects_iff (N : Nat) (f : Finite) (h : FInv N f) (msg : Nat) (id : EventID) (topics : List Bytes) :
    (∃ e f', f.put msg id topics = .ok (.error e, f')) ↔
      (topics = [] ∨ (f.currentID = none ∧ id = none) ∨ (f.currentID ≠ none ∧ id ≠ none)) := by
  obtain ⟨r, f', hp, _, hs⟩ := put_refines N f h msg id topics
  rw [hp]
  have hr : r = (Spec.put (some N) (fspec f) msg id topics 0).1 := by rw [← hs]
  constructor
  · rintro ⟨e, f'', heq⟩
    simp only [QRes.ok.injEq, Prod.mk.injEq] at heq
    rw [hr] at heq
    have h1 := heq.1
    unfold Spec.put at h1
    by_cases ht : topics = []
    · exact Or.inl ht
    · right
      simp only [List.isEmpty_iff, ht, if_false, fspec] at h1
      cases hc : f.currentID <;> cases id <;> simp_all [assignID]
  · intro hcase
    have : ∃ e, r = .error e := by
      rw [hr]; unfold Spec.put
      rcases hcase with ht | ⟨hc, hi⟩ | ⟨hc, hi⟩
      · simp [ht]
      · by_cases ht : topics.isEmpty = true
        · simp [ht]
        · simp [ht, fspec, hc, hi, assignID]
      · by_cases ht : topics.isEmpty = true
        · simp [ht]
        · cases hcc : f.currentID with
          | none => exact absurd hcc hc
          | some k => cases id with
            | none => exact absurd rfl hi
            | some v => simp [ht, fspec, hcc, assignID]
    obtain ⟨e, he⟩ := this
    exact ⟨e, f', by rw [he]⟩

/-- automatic mode: an accepted Put returns the decimal numeral of the counter and increments it;
so the `k`-th accepted Put gets decimal `k` (the counter starts at 0, `new_inv`, and rejected
Puts do not touch it, `put_rejected_unchanged`) -/
theorem auto_ids_consecutive (f : Finite) (k : Nat) (hk : f.currentID = some k)
    (msg : Nat) (id : EventID) (topics : List Bytes) (e : Entry) (f' : Finite)
    (h : f.put msg id topics = .ok (.ok e, f')) :
    e.id = some (decimal k) ∧ f'.currentID = some (k + 1) := by
  unfold Finite.put at h
  split at h
  · cases h
  · rw [ensureID_eq, hk] at h
    cases id with
    | some v => simp [assignID] at h
    | none =>
      simp only [assignID, Option.isSome_none, Bool.false_eq_true, if_false] at h
      split at h
      · cases h
      · cases h; exact ⟨rfl, rfl⟩

/-- `replay_refines`: `Replay` never panics and makes exactly the calls the specification
prescribes: no call if nothing follows the presented ID (unset, absent, newest; evicted with
manual IDs), otherwise `Send` for the entries after it whose topics intersect the subscription's,
in Put order, up to and including the first failing `Send`, and then one `Flush` iff no `Send`
failed. (Automatic mode: the counter has not wrapped a `uint64`.) -/
theorem replay_refines (N : Nat) (f : Finite) (h : FInv N f)
    (hcur : ∀ c, f.currentID = some c → c ≤ maxUint64 + 1) (sub : Sub) :
    f.replay sub = .ok (replayOut f.currentID.isSome (fun _ => true) (abs f.buf) sub) := by
  obtain ⟨r, hr, hcase⟩ := replay_core h.wf f.currentID.isSome rfl h.auto hcur sub (fun _ => true)
  unfold Finite.replay
  rw [hr]
  rcases hcase with ⟨hneg, hout⟩ | ⟨hpos, st, hst, hfin⟩
  · simp [hneg, hout]
  · simp only [Bool.true_and] at hst
    simp only [show ¬ r < 0 from by omega, if_false, hst, hfin]


/-- `auto_ids_consecutive` over whole histories: in automatic mode the accepted Puts of ANY
history (valid and invalid Puts interleaved, any length relative to `N`) return the decimal
numerals `c, c+1, c+2, …` in Put order, `c` being the counter at the start — 0 for a new replayer. -/
theorem auto_ids_history (N : Nat) (f : Finite) (h : FInv N f) (c : Nat) (hc : f.currentID = some c)
    (ps : List PutIn) :
    ∃ rs f', runPuts f ps = .ok (rs, f') ∧ FInv N f' ∧
      acceptedIDs rs = (List.range' c (acceptedIDs rs).length).map fun k => some (decimal k) := by
  induction ps generalizing f c with
  | nil => exact ⟨[], f, rfl, h, rfl⟩
  | cons p ps ih =>
    obtain ⟨r, f1, hp, hinv1, _⟩ := put_refines N f h p.msg p.id p.topics
    simp only [runPuts, hp]
    cases r with
    | error e =>
      have := put_rejected_unchanged f p.msg p.id p.topics e f1 hp
      subst this
      obtain ⟨rs, f', hr, hinv', hids⟩ := ih f1 h c hc
      rw [hr]
      exact ⟨_, f', rfl, hinv', by simpa [acceptedIDs] using hids⟩
    | ok e =>
      obtain ⟨hid, hc1⟩ := auto_ids_consecutive f c hc p.msg p.id p.topics e f1 hp
      obtain ⟨rs, f', hr, hinv', hids⟩ := ih f1 hinv1 (c + 1) hc1
      rw [hr]
      refine ⟨_, f', rfl, hinv', ?_⟩
      simp only [acceptedIDs, List.length_cons, List.range'_succ, List.map_cons, hid]
      rw [← hids]

/-- a new automatic replayer numbers its accepted Puts 0, 1, 2, … -/
theorem auto_ids_from_zero (N : Nat) (hN : 2 ≤ N) (ps : List PutIn) :
    ∃ f rs f', newFinite N true = some f ∧ runPuts f ps = .ok (rs, f') ∧
      acceptedIDs rs = (List.range (acceptedIDs rs).length).map fun k => some (decimal k) := by
  obtain ⟨f, hf, hinv, hs⟩ := (new_inv N true).2 hN
  have hc : f.currentID = some 0 := by
    have := congrArg State.next hs
    simpa [fspec, State.init] using this
  obtain ⟨rs, f', hr, _, hids⟩ := auto_ids_history N f hinv 0 hc ps
  exact ⟨f, rs, f', hf, hr, by rw [List.range_eq_range']; exact hids⟩

/-! ### what `after` means (the specification read against the property's wording) -/

/-- manual IDs: the ID of a stored event (its first occurrence, if IDs repeat) replays exactly the
later stored events; with distinct IDs this is the property as written -/
theorem after_stored_manual (a b : List Entry) (e : Entry) (hfirst : ∀ x ∈ a, x.id ≠ e.id) :
    after false e.id (a ++ e :: b) = b := by
  simp only [after, Bool.false_eq_true, if_false]
  induction a with
  | nil => simp [afterManual]
  | cons x t ih =>
    have hx := hfirst x (by simp)
    simp only [List.cons_append, afterManual, hx, if_false]
    exact ih (fun y hy => hfirst y (by simp [hy]))

/-- manual IDs: the newest ID replays nothing -/
theorem after_newest_manual (a : List Entry) (e : Entry) (hfirst : ∀ x ∈ a, x.id ≠ e.id) :
    after false e.id (a ++ [e]) = [] := after_stored_manual a [] e hfirst

/-- manual IDs: an ID that no stored event carries — unset, never issued, or evicted — replays nothing -/
theorem after_absent_manual (l : List Entry) (id : EventID) (h : ∀ x ∈ l, x.id ≠ id) : after false id l = [] := by
  simp only [after, Bool.false_eq_true, if_false]
  exact afterManual_none id l h

/-- automatic IDs (stored IDs are the consecutive decimals below the counter `cur`): the `k`-th
stored ID replays exactly the later stored events; in particular the newest replays nothing -/
theorem after_stored_auto (l : List Entry) (cur : Nat) (h : Consec l cur) (hcur : cur ≤ maxUint64 + 1)
    (k : Nat) (hk : k < l.length) : after true l[k].id l = l.drop (k + 1) := by
  simp only [after, if_true]
  have hnum : idNum l[k].id = some (cur - l.length + k) := by
    rw [h.2 k hk]; simp only [idNum, Option.bind_some]
    exact decimal?_decimal _ (by have := h.1; omega)
  rw [afterAuto_consec h hcur _ _ hnum]
  congr 1; have := h.1; omega

theorem after_newest_auto (l : List Entry) (cur : Nat) (h : Consec l cur) (hcur : cur ≤ maxUint64 + 1)
    (hne : 0 < l.length) : after true (l[l.length - 1]'(by omega)).id l = [] := by
  rw [after_stored_auto l cur h hcur (l.length - 1) (by omega)]
  apply List.drop_of_length_le; omega

/-- automatic IDs: IDs are compared as numbers. A number not yet issued (or the newest) replays
nothing; a number below the oldest stored one replays everything stored; a presented ID that is
not a decimal `uint64` (unset, non-numeric, overflowing) replays nothing. -/
theorem after_auto_numeric (l : List Entry) (cur : Nat) (h : Consec l cur) (hcur : cur ≤ maxUint64 + 1)
    (id : EventID) :
    (idNum id = none → after true id l = []) ∧
    (∀ n, idNum id = some n → cur ≤ n + 1 → after true id l = []) ∧
    (∀ n, idNum id = some n → n + l.length < cur → after true id l = l) := by
  refine ⟨?_, ?_, ?_⟩
  · intro hn; simp [after, afterAuto, hn]
  · intro n hn hge
    simp only [after, if_true]
    rw [afterAuto_consec h hcur _ _ hn]
    apply List.drop_of_length_le; have := h.1; omega
  · intro n hn hlt
    simp only [after, if_true]
    rw [afterAuto_consec h hcur _ _ hn]
    have : n + 1 - (cur - l.length) = 0 := by omega
    rw [this]; rfl

/-- `"007"` denotes 7; `"18446744073709551616"`, `"+1"` and the empty string denote nothing -/
example : idNum (some [48, 48, 55]) = some 7 ∧
    idNum (some [49,56,52,52,54,55,52,52,48,55,51,55,48,57,53,53,49,54,49,54]) = none ∧
    idNum (some [43, 49]) = none ∧ idNum (some []) = none ∧ idNum none = none := by decide

/-- non-vacuity and regression (fixed defect, commit 5493bb9): N = 3, manual IDs, exactly three
Puts (the write index has just wrapped); the newest ID replays nothing, the oldest replays the
other two and flushes. -/
example :
    let p (f : Finite) (k : Nat) (i : Byte) := match f.put k (some [i]) [[97]] with | .ok (_, f') => f' | .panic => f
    let f := p (p (p ((newFinite 3 false).getD ⟨none, ⟨[], 0, 0, 0⟩⟩) 0 65) 1 66) 2 67
    f.buf.tail = 0 ∧ f.buf.count = 3 ∧
    f.replay ⟨some [67], [[97]], none, false⟩ = .ok ⟨[], .nil⟩ ∧
    f.replay ⟨some [65], [[97]], none, false⟩ =
      .ok ⟨[.send ⟨1, some [66], [[97]], 0⟩, .send ⟨2, some [67], [[97]], 0⟩, .flush], .nil⟩ := by decide


/-! ### The translated source text (regenerated from /repo on every run) -/

/-- `topicsIntersect` *as translated from replay.go* (two nested range loops with an early return) is the model's
function for all topic lists, and never panics. -/
theorem translated_topicsIntersect_is_model (fuel : Nat) (a b : List Bytes) (hfa : a.length < fuel) (hfb : b.length < fuel) :
    Gen.topicsIntersect fuel a b = .ok (topicsIntersect a b) :=
  GenEquiv.topicsIntersect_eq fuel a b hfa hfb

example : Gen.topicsIntersect 4 [[97], [98]] [[99], [98]] = .ok true := by rfl


/-- `queue[T].enqueue` *as translated from replay.go* (generic code instantiated at a message slot; the element
assignment `q.buf[q.tail] = v` a checked operation) produces, from every queue state, exactly the state of the
model's `enqueue` the theorems above are about — and panics exactly where the model says so (never, from a
well-formed state: `wf_preserved`). -/
theorem translated_enqueue_is_model (fuel : Nat) (q : Queue) (v : Entry) :
    GenEquiv.Agrees (Gen.queue_enqueue fuel (GenEquiv.toGen q) (some v)) (Queue.enqueue q v) :=
  GenEquiv.enqueue_eq fuel q v


/-! #### `FiniteReplayer` itself, as translated

`GoSSE/Gen/Replay.lean` holds `ensureID`, `queue.each` (an iterator: a function of what the function literal it is
applied to does with its state), `findIDInQueue` (generic, with the method `ID()` of its type parameter as a
dictionary), `NewFiniteReplayer`, `FiniteReplayer.Put` and `FiniteReplayer.Replay` as translated from replay.go.
A model replayer `f` is represented by `toGenFin mk f`: counters cast, every slot mapped — the zero slot to the zero
value, an entry `e` to the message `mk e` with `e`'s topics; `mk` is any assignment of messages to entries that
carries the entry's ID (`CarriesID`). The subscriber is any `MessageWriter`; the model's one (`failAt`-th Send
fails, Flush may) is `recW`, whose state is the list of calls it saw. -/

/-- a message assignment that meets `CarriesID`: the hypotheses below are satisfiable -/
def mk0 (e : Entry) : Gen.Message :=
  { chunks := [{ content := [109], isComment := false }], ID := GenEquiv.genID e.id,
    Type' := { messageField := { value := [], set := false } }, Retry := 0 }
example : GenEquiv.CarriesID mk0 := fun _ => rfl

/-- `ensureID` as translated: the model's verdict; with automatic IDs the result differs from the caller's message
in its ID only (the caller's message is an input, nothing is written back to it — C19), and the counter moves on by
one (`cur + 1 < 2^64`: wrap-around is out of scope, as in the model). -/
theorem translated_ensureID_is_model (fuel : Nat) (m : Gen.Message) (id : EventID) (hm : m.ID = GenEquiv.genID id)
    (cur : Option Nat) (hc : ∀ c, cur = some c → c + 1 < 18446744073709551616)
    (hf : ∀ c, cur = some c → (fmtUint c).length < fuel) :
    Gen.ensureID fuel m (GenEquiv.genCur cur) =
      match Model.ensureID id cur with
      | .error e => .ok (none, some (GenEquiv.putErrStr e), GenEquiv.genCur cur)
      | .ok (id', cur') => .ok (some { m with ID := GenEquiv.genID id' }, none, GenEquiv.genCur cur') :=
  GenEquiv.ensureID_eq fuel m id hm cur hc hf

/-- `queue.each` as translated, applied to any function literal that agrees with a callback of the model on the
buffer's slots (under an invariant `P` of the callback's state): the model's final state, the queue untouched, a
panic exactly where the model has one. -/
theorem translated_each_is_model {T κ σ : Type} [Inhabited T] (P : σ → Prop) (g : Slot → T) (r : σ → κ)
    (yield : Int → T → κ → GoRT.GoM (Bool × κ)) (f : σ → Nat → Slot → QRes (σ × Bool)) (q : Queue)
    (hy : GenEquiv.YieldAgrees q.buf P g r yield f) (startAt : Nat) (s : σ) (hP : P s) (fuel : Nat)
    (hf : q.tail + q.buf.length + 1 < fuel) :
    GenEquiv.AgreesV (fun s' => (GenEquiv.toGenQ g q, r s'))
      (Gen.queue_each fuel (GenEquiv.toGenQ g q) (startAt : Int) yield (r s)) (Queue.each q startAt f s) :=
  GenEquiv.each_eq P g r yield f q hy startAt s hP fuel hf

/-- `findIDInQueue` as translated (uint64 arithmetic modulo 2^64, `int`↔`uint64` conversions as Go defines them):
the model's index for every queue state — well-formed or not —, every presented ID and both ID modes. -/
theorem translated_findIDInQueue_is_model {T : Type} [Inhabited T] (g : Slot → T) (M_ID : Nat → T → GoRT.GoM Gen.EventID)
    (hid : GenEquiv.IDAgrees g M_ID) (q : Queue) (id : EventID) (auto : Bool) (fuel : Nat)
    (hf : q.tail + q.buf.length + 1 < fuel) (hcount : q.count < 9223372036854775808) :
    GenEquiv.AgreesV (fun i => (i, GenEquiv.toGenQ g q))
      (Gen.findIDInQueue fuel M_ID (GenEquiv.toGenQ g q) (GenEquiv.genID id) auto) (Model.findIDInQueue q id auto) :=
  GenEquiv.findIDInQueue_eq g M_ID hid q id auto fuel hf hcount

theorem translated_NewFiniteReplayer_is_model (mk : Entry → Gen.Message) (fuel : Nat) (count : Nat) (auto : Bool) :
    Gen.NewFiniteReplayer fuel (count : Int) auto = .ok (match newFinite count auto with
      | none => (none, some "count must be at least 2")
      | some f => (some (GenEquiv.toGenFin mk f), none)) :=
  GenEquiv.newFinite_eq mk fuel count auto

/-- `FiniteReplayer.Put` as translated: from every replayer state, for the caller's message `m` (tag `k`, ID `id`)
— the model's verdict, the model's stored entry (as the message `mk` assigns to it) and the model's next state. -/
theorem translated_FinitePut_is_model (mk : Entry → Gen.Message) (f : Finite) (k : Nat) (id : EventID) (topics : List Bytes)
    (m : Gen.Message) (hm : m.ID = GenEquiv.genID id)
    (hmk : ∀ id', mk { msg := k, id := id', topics := topics, exp := 0 } = { m with ID := GenEquiv.genID id' })
    (hc : ∀ c, f.currentID = some c → c + 1 < 18446744073709551616) (fuel : Nat)
    (hf : ∀ c, f.currentID = some c → (fmtUint c).length < fuel) :
    GenEquiv.PutAgrees mk (GenEquiv.toGenFin mk) (Finite.put f k id topics)
      (Gen.FiniteReplayer_Put fuel (GenEquiv.toGenFin mk f) (some m) topics) :=
  GenEquiv.finitePut_eq mk f k id topics m hm hmk hc fuel hf

/-- `FiniteReplayer.Replay` as translated, with the model's subscriber: it sees the model's calls in the model's
order, `Replay` returns the model's error, the replayer is unchanged. -/
theorem translated_FiniteReplay_is_model (mk : Entry → Gen.Message) (hmk : GenEquiv.CarriesID mk) (f : Finite) (sub : Sub)
    (fuel : Nat) (hf : f.buf.tail + f.buf.buf.length + 1 < fuel) (hcount : f.buf.count < 9223372036854775808)
    (hft : GenEquiv.TopicsFuel fuel f.buf.buf sub) :
    GenEquiv.ReplayAgrees mk sub (GenEquiv.toGenFin mk f) (Finite.replay f sub)
      (Gen.FiniteReplayer_Replay fuel (GenEquiv.toGenFin mk f) (GenEquiv.gSub sub [])) :=
  GenEquiv.finiteReplay_eq mk hmk f sub fuel hf hcount hft

end GoSSE.Props.C08
