import GoSSE.Proofs.GenEquiv
import GoSSE.Proofs.GenEquivFieldRoutes
import GoSSE.Proofs.GenEquivFields
import GoSSE.Proofs.MessageFields
import GoSSE.Proofs.MessageBuild
/-!
# C14 — a set EventID/EventType is always a single line

One pair of theorems per construction route of a `messageField` in package `sse`
(`message_fields.go`, `message.go`, `session.go`): `set_implies_single_line` and
`multiline_leaves_unset` (with the error where the route reports one).
`NlFree v` says that no byte of `v` is CR or LF (`nlFree_iff`).
-/
namespace GoSSE.Props.C14
open GoSSE GoSSE.Spec GoSSE.Model GoSSE.Proofs

/-- `NlFree` is what the property calls a single line -/
theorem single_line_means (v : Bytes) : NlFree v ↔ ∀ b ∈ v, b ≠ 10 ∧ b ≠ 13 := nlFree_iff v

/-! ### `newMessageField` — behind `NewID`, `NewType`, `ID`, `Type` -/

theorem newMessageField_set_implies_single_line (v : Bytes) :
    (newMessageField v).1.set = true → NlFree (newMessageField v).1.value ∧ (newMessageField v).1.value = v := by
  rcases newMessageField_cases v with ⟨h, e⟩ | ⟨h, e⟩ <;> simp [e, h]

theorem newMessageField_multiline_leaves_unset (v : Bytes) (h : ¬ NlFree v) :
    (newMessageField v).1 = {} ∧ (newMessageField v).2 = true := by
  simp [newMessageField_multi v h]

/-- `NewID` / `NewType` -/
theorem newID_set_implies_single_line (v : Bytes) : (newID v).1.set = true → NlFree (newID v).1.value := by
  rcases newMessageField_cases v with ⟨h, e⟩ | ⟨h, e⟩ <;> simp [newID, e, h]

theorem newID_multiline_leaves_unset (v : Bytes) (h : ¬ NlFree v) : (newID v).1 = {} ∧ (newID v).2 = true := by
  simp [newID, newMessageField_multi v h]

theorem newType_set_implies_single_line (v : Bytes) : (newType v).1.set = true → NlFree (newType v).1.value :=
  newID_set_implies_single_line v

theorem newType_multiline_leaves_unset (v : Bytes) (h : ¬ NlFree v) : (newType v).1 = {} ∧ (newType v).2 = true :=
  newID_multiline_leaves_unset v h

/-- `ID` / `Type`: a value is returned only for single-line input; otherwise the call panics -/
theorem mustID_single_line (v : Bytes) (f : MField) (h : mustID v = some f) : NlFree f.value ∧ f.set = true := by
  rcases newMessageField_cases v with ⟨hv, e⟩ | ⟨_, e⟩
  · simp [mustID, newID, e] at h; subst h; exact ⟨hv, rfl⟩
  · simp [mustID, newID, e] at h

theorem mustID_multiline_panics (v : Bytes) (h : ¬ NlFree v) : mustID v = none ∧ mustType v = none := by
  simp [mustType, mustID, newID, newMessageField_multi v h]

/-! ### `UnmarshalText`, `UnmarshalJSON`, `Scan` on a receiver holding any previous value -/

theorem unmarshalText_set_implies_single_line (prev : MField) (data : Bytes) :
    (MField.unmarshalText prev data).1.set = true → NlFree (MField.unmarshalText prev data).1.value := by
  rcases newMessageField_cases data with ⟨h, e⟩ | ⟨h, e⟩ <;> simp [MField.unmarshalText, e, h]

theorem unmarshalText_multiline_leaves_unset (prev : MField) (data : Bytes) (h : ¬ NlFree data) :
    (MField.unmarshalText prev data).1 = {} ∧ (MField.unmarshalText prev data).2 = true := by
  simp [MField.unmarshalText, newMessageField_multi data h]

/-- for every document and whatever string `encoding/json` decodes from it -/
theorem unmarshalJSON_set_implies_single_line (prev : MField) (data : Bytes) (decoded : Option Bytes) :
    (MField.unmarshalJSON prev data decoded).1.set = true → NlFree (MField.unmarshalJSON prev data decoded).1.value := by
  unfold MField.unmarshalJSON
  by_cases hn : (data == jsonNull) = true
  · simp [hn]
  · cases decoded with
    | none => simp [hn]
    | some s => rcases newMessageField_cases s with ⟨h, e⟩ | ⟨h, e⟩ <;> simp [hn, e, h]

theorem unmarshalJSON_multiline_leaves_unset (prev : MField) (data s : Bytes) (h : ¬ NlFree s) :
    (MField.unmarshalJSON prev data (some s)).1 = {} ∧
      (data ≠ jsonNull → (MField.unmarshalJSON prev data (some s)).2 = .multiline) := by
  unfold MField.unmarshalJSON
  by_cases hn : (data == jsonNull) = true
  · simp [hn]; simpa using hn
  · simp [hn, newMessageField_multi s h]

/-- `Scan`, for `nil`, `[]byte`, `string` and every other dynamic type -/
theorem scan_set_implies_single_line (prev : MField) (src : ScanSrc) :
    (MField.scan prev src).1.set = true → NlFree (MField.scan prev src).1.value := by
  cases src with
  | nil => simp [MField.scan]
  | other => simp [MField.scan]
  | bytes v => rcases newMessageField_cases v with ⟨h, e⟩ | ⟨h, e⟩ <;> simp [MField.scan, e, h]
  | string v => rcases newMessageField_cases v with ⟨h, e⟩ | ⟨h, e⟩ <;> simp [MField.scan, e, h]

theorem scan_multiline_leaves_unset (prev : MField) (v : Bytes) (h : ¬ NlFree v) :
    MField.scan prev (.bytes v) = ({}, .multiline) ∧ MField.scan prev (.string v) = ({}, .multiline) := by
  simp [MField.scan, newMessageField_multi v h]

/-- the defect of the original tree (§7-8) cannot come back unnoticed: its input is refused -/
example : MField.scan {} (.string [97, 10, 100, 97, 116, 97, 58, 32, 105, 110, 106, 101, 99, 116, 101, 100]) = ({}, .multiline) := by
  decide

/-! ### the `Last-Event-Id` header in `Upgrade` -/

theorem upgrade_set_implies_single_line (h : List Bytes) :
    (upgradeLastEventID h).set = true → NlFree (upgradeLastEventID h).value := by
  unfold upgradeLastEventID
  cases h with
  | nil => simp
  | cons h0 t =>
    by_cases he : h0.isEmpty = true
    · simp [he]
    · simp only [he, Bool.false_eq_true, if_false]; exact newID_set_implies_single_line h0

theorem upgrade_multiline_leaves_unset (h0 : Bytes) (t : List Bytes) (h : ¬ NlFree h0) :
    upgradeLastEventID (h0 :: t) = {} := by
  unfold upgradeLastEventID
  by_cases he : h0.isEmpty = true
  · simp [he]
  · simp [he, (newID_multiline_leaves_unset h0 h).1]

/-! ### `Message.UnmarshalText`'s direct assignments -/

/-- for every wire text: an ID or type left set on the receiver (also when an error is returned)
is a single line, because it is part of one `NextChunk` chunk; so is every data/comment chunk -/
theorem message_unmarshalText_set_implies_single_line (p : Bytes) :
    ((Message.unmarshalText p).1.id.set = true → NlFree (Message.unmarshalText p).1.id.value) ∧
    ((Message.unmarshalText p).1.typ.set = true → NlFree (Message.unmarshalText p).1.typ.value) ∧
    (∀ c ∈ (Message.unmarshalText p).1.chunks, NlFree c.content) :=
  let h := unmarshalText_ok p
  ⟨h.id, h.typ, h.chunks⟩

example : (Message.unmarshalText [105, 100, 58, 32, 97, 13, 100, 97, 116, 97, 58, 32, 120, 10, 10]).1 =
    { id := { value := [97], set := true }, chunks := [⟨[120], false⟩] } := by decide

/-! ### hence: no injection through ID or type -/

/-- A message whose ID and type came from any of the routes above, and whose chunks came from
`appendText` or `UnmarshalText`, is well formed, so C02's decoding theorem applies to it:
in particular the wire form of `{ID: id}` decodes to at most one event carrying exactly `id`. -/
theorem id_cannot_inject (mode : Mode) (id₀ : Bytes) (f : MField) (h : f.set = true → NlFree f.value) :
    Spec.run mode false id₀ ({ id := f } : Message).encode .eof =
      (expected mode id₀ [{ id := if f.set then some f.value else none }], .clean) := by
  have hw : WF ({ id := f } : Message) :=
    { chunks := by intro c hc; simp at hc, id := h, typ := by intro h'; simp at h', retry := Or.inl (by simp [Message.millis]) }
  have := run_flatMap_encode mode id₀ [({ id := f } : Message)] (by intro m hm; simp at hm; subst hm; exact hw)
  simpa [builtOf, dataOf] using this


/-! ### The translated source text (regenerated from /repo on every run) -/

/-- `isSingleLine` *as translated from message.go* (through the translated `parser.NewlineIndex`) is the model's
predicate, for every string, and never panics: the gate every construction route passes through. -/
theorem translated_isSingleLine_is_model (fuel : Nat) (p : Bytes) (hf : p.length < fuel) :
    Gen.isSingleLine fuel p = .ok (isSingleLine p) :=
  GenEquiv.isSingleLine_eq fuel p hf

example : Gen.isSingleLine 5 [97, 13, 98] = .ok false := by rfl

/-- `newMessageField`, `(*messageField).UnmarshalText`, `NewID`, `NewType` *as translated from message_fields.go*
return, for every input, exactly the field of the model's routes (`…_set_implies_single_line`,
`…_multiline_leaves_unset` above are about those) and an error exactly when the model reports one. -/
theorem translated_newMessageField_is_model (fuel : Nat) (v : Bytes) (hf : v.length < fuel) :
    Gen.newMessageField fuel v =
      .ok (GenEquiv.toGenF (newMessageField v).1, if (newMessageField v).2 then some "input is multiline" else none) :=
  GenEquiv.newMessageField_eq fuel v hf

theorem translated_UnmarshalText_is_model (fuel : Nat) (prev : Gen.messageField) (data : Bytes) (hf : data.length < fuel)
    (prevM : MField) :
    ∃ err, Gen.messageField_UnmarshalText fuel prev data =
        .ok (err, GenEquiv.toGenF (MField.unmarshalText prevM data).1) ∧
      err.isSome = (MField.unmarshalText prevM data).2 :=
  GenEquiv.UnmarshalText_eq fuel prev data hf prevM

theorem translated_NewID_is_model (fuel : Nat) (v : Bytes) (hf : v.length < fuel) :
    ∃ err, Gen.NewID fuel v = .ok ({ messageField := GenEquiv.toGenF (newID v).1 }, err) ∧ err.isSome = (newID v).2 :=
  GenEquiv.NewID_eq fuel v hf

theorem translated_NewType_is_model (fuel : Nat) (v : Bytes) (hf : v.length < fuel) :
    ∃ err, Gen.NewType fuel v = .ok ({ messageField := GenEquiv.toGenF (newType v).1 }, err) ∧ err.isSome = (newType v).2 :=
  GenEquiv.NewType_eq fuel v hf

/-- consequence, on the translated text itself: whatever `NewID` returns as set contains no CR or LF -/
theorem translated_NewID_set_is_single_line (fuel : Nat) (v : Bytes) (hf : v.length < fuel) (id : Gen.EventID)
    (err : Option String) (h : Gen.NewID fuel v = .ok (id, err)) (hs : id.messageField.set = true) :
    isSingleLine id.messageField.value = true := by
  obtain ⟨err', h', _⟩ := GenEquiv.NewID_eq fuel v hf
  rw [h'] at h
  injection h with h
  injection h with h1 _
  subst h1
  simp only [GenEquiv.toGenF] at hs ⊢
  unfold newID newMessageField at hs ⊢
  by_cases hsl : isSingleLine v <;> simp [hsl] at hs ⊢

/-! ### The translated source text of the other routes (regenerated from /repo's message_fields.go on every run) -/

/-- **`(*messageField).Scan` as translated** — the zeroing of the receiver, the nil test, the type switch over
`[]byte` / `string` / anything else, `newMessageField` — returns for every dynamic type of the source and whatever
the receiver held before exactly the model's receiver and error class (`MField.scan`, the function the theorems above
are stated over); it does not panic. -/
theorem translated_Scan_is_model (fuel : Nat) (prev : Gen.messageField) (prevM : MField) (src : ScanSrc)
    (hf : GenEquiv.srcLen src < fuel) :
    Gen.messageField_Scan fuel prev (GenEquiv.toAny src) =
      .ok (GenEquiv.fErrStr (MField.scan prevM src).2, GenEquiv.toGenF (MField.scan prevM src).1) :=
  GenEquiv.Scan_eq fuel prev prevM src hf

/-- **`(*messageField).UnmarshalJSON` as translated**, for **every** decoder (`jsonDecode`: what
`json.Unmarshal(data, &string)` yields — `encoding/json` is not modelled, any function stands for it): the model's
receiver and error class (`MField.unmarshalJSON`). -/
theorem translated_UnmarshalJSON_is_model (fuel : Nat) (prev : Gen.messageField) (prevM : MField) (data : Bytes)
    (jsonDecode : Bytes → Option Bytes) (hf : ∀ v, jsonDecode data = some v → v.length < fuel) :
    Gen.messageField_UnmarshalJSON fuel prev data jsonDecode =
      .ok (GenEquiv.fErrStr (MField.unmarshalJSON prevM data (jsonDecode data)).2,
           GenEquiv.toGenF (MField.unmarshalJSON prevM data (jsonDecode data)).1) :=
  GenEquiv.UnmarshalJSON_eq fuel prev prevM data jsonDecode hf

/-- `(*messageField).MarshalText` as translated: the value when set, an error when unset; the receiver is left alone -/
theorem translated_MarshalText_field (fuel : Nat) (f : MField) :
    Gen.messageField_MarshalText fuel (GenEquiv.toGenF f) =
      .ok (if f.set then some f.value else none, if f.set then none else some "can't marshal unset string to text", GenEquiv.toGenF f) :=
  GenEquiv.MarshalText_field_eq fuel f

example : Gen.messageField_Scan 10 default (.str [97, 10, 98]) = .ok (some "input is multiline", { value := [], set := false }) ∧
    Gen.messageField_Scan 10 default (.bytes [97]) = .ok (none, { value := [97], set := true }) := ⟨rfl, rfl⟩


end GoSSE.Props.C14
