import GoSSE.Proofs.ClientConnect
import GoSSE.Proofs.GenEquivReset
import GoSSE.Props.C01
import GoSSE.Props.C20
/-!
# C10 — reconnects carry the last dispatched event ID and a fresh request body

Model: `Model/Connection.lean` (`resetRequestBody`, `resetRequest`, `doConnect`, the `Connect` loop over a
history of attempt outcomes); a stream attempt runs the parser model `implRun` (C01's model) with the
connection's `lastEventID`, and stores the `LastEventID` of every dispatched event.

Two forms of the headline:
* `header_is_last_dispatched_id` — against the MODEL: the events are those `implRun` dispatches;
* `header_is_last_dispatched_id_spec` — against the SPECIFICATION `Spec.run`, under the clearly named
  hypothesis `RefinesSpec h` (the reader dispatches exactly the specification's events on the streams of
  the history — that refinement is property C01, proved by the parser group).
Trace predicates (`headersOK`, `bodiesOK`, `expectedHeaders`, `attemptHeaders`) live in
`Proofs/ClientConnect.lean`.
-/
namespace GoSSE.Props.C10
open GoSSE GoSSE.Spec GoSSE.Spec.Client GoSSE.Model GoSSE.Model.Client GoSSE.Proofs.ClientBackoff GoSSE.Proofs.ClientConnect

/-- Model form. In the trace of every `Connect` run, every attempt after the first carries
`Last-Event-ID = ` the `LastEventID` of the most recently dispatched event of all connections so far
(`lastDispatched` over the `connected` items), and no header iff that is empty. The value survives any
number of failed attempts (only `connected` items change it); an `id` of an event that was not dispatched
is not in `outs` and so does not count; IDs with NUL never enter `LastEventID` (`readField`). -/
theorem header_is_last_dispatched_id (cfg : Cfg) (fl : Floats) (h : List Attempt) (c : Conn) (t0 : Int) (done0 : Bool)
    (hc : c.isRetry = false) :
    headersOK true c.lastEventID (connect cfg fl c t0 done0 h).trace := by
  have key := connectLoop_induct cfg fl (fun c _ tr => headersOK (!c.isRetry) c.lastEventID tr)
    (fun _ _ => trivial)
    (by
      intro c ctl a done
      have hk := resetRequest_keeps c
      rcases doConnect_spec cfg c ctl a done with ⟨e, _, he⟩ | ⟨hr, ⟨hi, _⟩ | ⟨src, ic, _, hi, _⟩⟩
      · simp [he, headersOK]
      · have hh := resetRequest_header c hr
        rw [hi]; simp only [attOf, headersOK, hh]
        cases c.isRetry <;> simp
      · have hh := resetRequest_header c hr
        rw [hi]; simp only [attOf, headersOK, hh]
        cases c.isRetry <;> simp)
    (by
      intro c ctl a done w q hs hw ih
      have hk := resetRequest_keeps c
      rcases doConnect_spec cfg c ctl a done with ⟨e, _, he⟩ | ⟨hr, ⟨hi, _, hcn, _⟩ | ⟨src, ic, _, hi, _, hcn⟩⟩
      · rw [he] at hs; cases hs
      · have hh := resetRequest_header c hr
        rw [hcn, hk.2.2.2, hk.1] at ih
        rw [hi]; simp only [attOf, headersOK, hh, List.cons_append, List.nil_append]
        refine ⟨by cases c.isRetry <;> simp, by simpa using ih⟩
      · have hh := resetRequest_header c hr
        rw [hcn] at ih
        simp only [hk.2.2.2, hk.1] at ih
        rw [hi]; simp only [attOf, headersOK, hh, List.cons_append, List.nil_append]
        refine ⟨by cases c.isRetry <;> simp, by simpa using ih⟩)
  have := key h c (Ctl.new cfg t0) done0
  simpa [hc, connect] using this

/-- Specification form (headline). Under `RefinesSpec h` (C01), the headers of the attempts of any run are
a prefix of: the request's own header for the first attempt, then for attempt `n+1` the header of the
last dispatched ID according to the SPECIFICATION interpretation (`Spec.run`) of all streams of
attempts `0..n` — absent iff that ID is empty. -/
theorem header_is_last_dispatched_id_spec (cfg : Cfg) (fl : Floats) (h : List Attempt) (c : Conn) (t0 : Int) (done0 : Bool)
    (hc : c.isRetry = false) (href : RefinesSpec c.buf h) :
    attemptHeaders (connect cfg fl c t0 done0 h).trace <+: expectedHeaders c.req.header c.lastEventID h := by
  have key := connectLoop_induct_h cfg fl
    (fun h c _ _ tr => RefinesSpec c.buf h →
      attemptHeaders tr <+: expectedHeaders (if c.isRetry then headerOf c.lastEventID else c.req.header) c.lastEventID h)
    (by intro h c ctl done _; simp [attemptHeaders])
    (by
      intro a rest c ctl done _
      rcases doConnect_spec cfg c ctl a done with ⟨e, _, he⟩ | ⟨hr, ⟨hi, _⟩ | ⟨src, ic, _, hi, _⟩⟩
      · simp [he, attemptHeaders]
      · rw [hi]; simp only [attOf, attemptHeaders, expectedHeaders, resetRequest_header c hr]
        exact List.prefix_cons_inj _ |>.mpr (List.nil_prefix)
      · rw [hi]; simp only [attOf, attemptHeaders, expectedHeaders, resetRequest_header c hr]
        exact List.prefix_cons_inj _ |>.mpr (List.nil_prefix))
    (by
      intro a rest c ctl done w q hs hw ih href
      have hk := resetRequest_keeps c
      have href' : RefinesSpec c.buf rest := fun b hb => href b (List.mem_cons_of_mem _ hb)
      rcases doConnect_spec cfg c ctl a done with ⟨e, _, he⟩ | ⟨hr, ⟨hi, _, hcn, hns⟩ | ⟨src, ic, ho, hi, _, hcn⟩⟩
      · rw [he] at hs; cases hs
      · rw [hcn] at ih
        simp only [hk.2.2.2, hk.1, hk.2.1, if_true] at ih
        have ih := ih href'
        have hid : idAfterSpec c.lastEventID a = c.lastEventID := by
          unfold idAfterSpec
          cases ho : a.out with
          | stream s i => exact absurd ho (hns s i)
          | transport _ => rfl
          | rejected => rfl
        rw [hi]
        simp only [attOf, attemptHeaders, expectedHeaders, resetRequest_header c hr, List.cons_append, List.nil_append, hid]
        exact (List.prefix_cons_inj _).mpr ih
      · rw [hcn] at ih
        simp only [hk.2.2.2, hk.1, hk.2.1, if_true] at ih
        have ih := ih href'
        have hid : idAfterSpec c.lastEventID a =
            lastDispatched c.lastEventID (outsOf (resetRequest c).1 src) := by
          unfold idAfterSpec outsOf
          rw [ho]
          simp only [hk.1, hk.2.1]
          exact (lastDispatched_congr _ _ _ (href a List.mem_cons_self src ic ho _)).symm
        rw [hi]
        simp only [attOf, attemptHeaders, expectedHeaders, resetRequest_header c hr, List.cons_append, List.nil_append, hid]
        exact (List.prefix_cons_inj _).mpr ih)
  have := key h c (Ctl.new cfg t0) done0 href
  simpa [hc, connect] using this

/-- `RefinesSpec` is what C01 proves: whenever no stream of the history makes the connection's scanner
report `ErrTooLong`, the reader dispatches exactly the specification's events (`C01.read_conforms_or_toolong`). -/
theorem refinesSpec_of_noTooLong (buf : Option (Nat × Int)) (h : List Attempt) (hn : NoTooLong buf h) :
    RefinesSpec buf h := by
  intro a ha src ic ho id
  have hc := GoSSE.Props.C01.read_conforms_or_toolong true id src buf
  simp only at hc
  rcases hc with ⟨ht, _⟩ | ⟨he, _⟩
  · exact absurd ht (hn a ha src ic ho id)
  · unfold srcBytes srcEnd; rw [he]

/-- **Headline, with C01 discharged.** For every history none of whose streams exceeds the connection's
buffer limit, the Last-Event-ID header of every attempt is the one the WHATWG interpretation of all
streams received so far prescribes (absent iff that ID is empty): the ID of the most recently *dispatched*
event that set one — an `id` line of an event cut before dispatch does not count, NUL IDs are ignored, the
value survives failed attempts. -/
theorem header_is_last_dispatched_id_whatwg (cfg : Cfg) (fl : Floats) (h : List Attempt) (c : Conn) (t0 : Int) (done0 : Bool)
    (hc : c.isRetry = false) (hn : NoTooLong c.buf h) :
    attemptHeaders (connect cfg fl c t0 done0 h).trace <+: expectedHeaders c.req.header c.lastEventID h :=
  header_is_last_dispatched_id_spec cfg fl h c t0 done0 hc (refinesSpec_of_noTooLong c.buf h hn)

/-- non-vacuity of `NoTooLong`: a short stream under the default limit -/
example : NoTooLong none [{ out := .stream { chunks := [[105, 100, 58, 32, 49, 10, 10]], endErr := false } false }] := by
  intro a ha src ic ho id
  simp only [List.mem_singleton] at ha
  subst ha
  simp only [Outcome.stream.injEq] at ho
  obtain ⟨rfl, _⟩ := ho
  have hfit := GoSSE.Props.C20.fits_implies_complete true id { chunks := [[105, 100, 58, 32, 49, 10, 10]], endErr := false } none
    (by
      show GoSSE.Proofs.FitsLimit 65536 [105, 100, 58, 32, 49, 10, 10]
      refine GoSSE.Proofs.FitsLimit.piece _ 7 (by decide) (by decide) ?_
      exact GoSSE.Proofs.FitsLimit.rest _ (by decide) (by decide))
  exact hfit.1

/-- non-vacuity of `RefinesSpec` on a concrete stream: `id: 1`, blank line, then an event cut before
dispatch whose `id: 2` does not count — model and specification both end with ID `1` -/
example :
    let src : Source := { chunks := [[105, 100, 58, 32, 49, 10, 10, 105, 100, 58, 32, 50, 10, 100]], endErr := false }
    lastDispatched [] (implRun true [] src none).1 = [49] ∧
    lastDispatched [] (run .gosse true [] (srcBytes src) (srcEnd src)).1 = [49] := by
  decide

/-- The first attempt is sent with the request exactly as the caller made it: header, body and
`GetBody` untouched. -/
theorem first_attempt_untouched (cfg : Cfg) (fl : Floats) (a : Attempt) (rest : List Attempt) (c : Conn) (t0 : Int)
    (hc : c.isRetry = false) (x : TItem) (hx : (connect cfg fl c t0 false (a :: rest)).trace.head? = some x) :
    x = .attempt c.req.header c.req.body c.req.getBodyCalls := by
  have hr : resetRequest c = ({ c with isRetry := true }, none) := resetRequest_first c hc
  have hitems : ∃ t, (doConnect cfg c (Ctl.new cfg t0) a false).items = .attempt c.req.header c.req.body c.req.getBodyCalls :: t := by
    rcases doConnect_spec cfg c (Ctl.new cfg t0) a false with ⟨e, he, _⟩ | ⟨_, ⟨hi, _⟩ | ⟨src, ic, _, hi, _⟩⟩
    · rw [hr] at he; cases he
    · exact ⟨[], by rw [hi, hr]; rfl⟩
    · exact ⟨_, by rw [hi, hr]; rfl⟩
  obtain ⟨t, ht⟩ := hitems
  unfold connect at hx
  rcases connectLoop_trace cfg fl a rest c (Ctl.new cfg t0) false with h1 | h1 | ⟨w, _, _, h1⟩
  · rw [h1] at hx; cases hx
  · rw [h1, ht] at hx; simpa using hx.symm
  · rw [h1, ht] at hx; simpa using hx.symm

/-- The body table of one reset (`resetRequestBody`), complete: no body / `NoBody` — nothing happens and
`GetBody` is not called; a body without `GetBody` — `ErrNoGetBody`; `GetBody` failing — its own error;
otherwise exactly one `GetBody` call and the request carries the fresh body it returned. -/
theorem body_reset_table (r : Req) :
    ((r.body = .none ∨ r.body = .noBody) → resetRequestBody r = (r, none)) ∧
    (¬ (r.body = .none ∨ r.body = .noBody) →
      (r.getBody = .absent → resetRequestBody r = (r, some .noGetBody)) ∧
      (∀ failAt, r.getBody = .present failAt →
        (failAt = some r.getBodyCalls → resetRequestBody r = ({ r with getBodyCalls := r.getBodyCalls + 1 }, some .getBody)) ∧
        (failAt ≠ some r.getBodyCalls →
          resetRequestBody r = ({ r with getBodyCalls := r.getBodyCalls + 1, body := .fresh (r.getBodyCalls + 1) }, none)))) :=
  resetRequestBody_table r

/-- A body that cannot be re-obtained ends `Connect` at once, with that error wrapped, and without
another request being sent: if the reset of a retry fails with `e`, the run ends right there with
`ConnectionError{Err: e}` and contributes nothing more to the trace. -/
theorem reset_failure_ends_connect (cfg : Cfg) (fl : Floats) (a : Attempt) (rest : List Attempt) (c : Conn) (ctl : Ctl)
    (done : Bool) (e : ErrV) (hsel : (done && !a.timerWins) = false) (he : (resetRequest c).2 = some e) :
    (connectLoop cfg fl (a :: rest) c ctl done).trace = [] ∧
    (connectLoop cfg fl (a :: rest) c ctl done).result = some (.wrapped .resetFailed e) ∧
    (e = .noGetBody ∨ e = .getBody) := by
  rw [connectLoop_cons]
  simp only [hsel, Bool.false_eq_true, if_false, doConnect_resetFailed cfg c ctl a done e he]
  refine ⟨by simp, by simp, ?_⟩
  exact resetRequest_err_kinds c e he

/-- Across a whole run: the `i`-th attempt (0-based) carries the original body for `i = 0` and, for
`i > 0`, the fresh body returned by the `i`-th `GetBody` call, `GetBody` having been called exactly `i`
times — one call per retry, a consumed body is never sent again; requests without a body (or with
`NoBody`) never call `GetBody`. -/
theorem body_per_attempt (cfg : Cfg) (fl : Floats) (h : List Attempt) (c : Conn) (t0 : Int) (done0 : Bool)
    (hc : c.isRetry = false) (hg : c.req.getBodyCalls = 0)
    (hb : c.req.body = .none ∨ c.req.body = .noBody ∨ c.req.body = .orig) :
    bodiesOK c.req.body 0 (connect cfg fl c t0 done0 h).trace := by
  -- invariant: after `i` attempts
  let Inv : BodyRef → Conn → Nat → Prop := fun body0 c i =>
    (i = 0 → c.isRetry = false ∧ c.req.body = body0 ∧ c.req.getBodyCalls = 0) ∧
    (i > 0 → c.isRetry = true ∧
      ((body0 = .none ∨ body0 = .noBody) → c.req.body = body0 ∧ c.req.getBodyCalls = 0) ∧
      (¬ (body0 = .none ∨ body0 = .noBody) → c.req.getBodyCalls = i - 1 ∧ (i = 1 → c.req.body = body0) ∧ (i > 1 → c.req.body = .fresh (i - 1))))
  have hstepInv : ∀ (body0 : BodyRef) (c : Conn) (i : Nat), (body0 = .none ∨ body0 = .noBody ∨ body0 = .orig) →
      Inv body0 c i → (resetRequest c).2 = none →
      Inv body0 (resetRequest c).1 (i + 1) ∧
      (if body0 = .none ∨ body0 = .noBody then (resetRequest c).1.req.body = body0 ∧ (resetRequest c).1.req.getBodyCalls = 0
       else if i = 0 then (resetRequest c).1.req.body = body0 ∧ (resetRequest c).1.req.getBodyCalls = 0
       else (resetRequest c).1.req.body = .fresh i ∧ (resetRequest c).1.req.getBodyCalls = i) := by
    intro body0 c i hb0 hinv hr
    cases i with
    | zero =>
      obtain ⟨h1, h2, h3⟩ := hinv.1 rfl
      rw [resetRequest_first c h1]
      refine ⟨⟨(by intro h; omega), fun _ => ⟨rfl, fun hbl => ⟨h2, h3⟩, fun hnb => ⟨by simpa using h3, fun _ => h2, fun hgt => by omega⟩⟩⟩, ?_⟩
      by_cases hbl : body0 = .none ∨ body0 = .noBody
      · simp [hbl, h2, h3]
      · simp [hbl, h2, h3]
    | succ i =>
      obtain ⟨h1, h2, h3⟩ := hinv.2 (by omega)
      by_cases hbl : body0 = .none ∨ body0 = .noBody
      · obtain ⟨hb2, hc2⟩ := h2 hbl
        have ht := (resetRequestBody_table c.req).1 (by rw [hb2]; exact hbl)
        have hrr := (resetRequest_retry c h1).2 (by rw [ht])
        rw [hrr, ht]
        refine ⟨⟨(by intro h; omega), fun _ => ⟨h1, fun _ => ⟨hb2, hc2⟩, fun hnb => absurd hbl hnb⟩⟩, ?_⟩
        simp [hbl, hb2, hc2]
      · obtain ⟨hc3, hb3, hb4⟩ := h3 hbl
        have hbody : ¬ (c.req.body = .none ∨ c.req.body = .noBody) := by
          cases i with
          | zero => rw [hb3 rfl]; exact hbl
          | succ j => rw [hb4 (by omega)]; simp
        have ht := (resetRequestBody_table c.req).2 hbody
        cases hgb : c.req.getBody with
        | absent =>
          have := ht.1 hgb
          have hrr := (resetRequest_retry c h1).1 .noGetBody (by rw [this])
          rw [hrr] at hr; cases hr
        | present failAt =>
          by_cases hf : failAt = some c.req.getBodyCalls
          · have := ((ht.2 failAt hgb).1 hf)
            have hrr := (resetRequest_retry c h1).1 .getBody (by rw [this])
            rw [hrr] at hr; cases hr
          · have hok := ((ht.2 failAt hgb).2 hf)
            have hrr := (resetRequest_retry c h1).2 (by rw [hok])
            rw [hrr, hok]
            simp only [hc3]
            refine ⟨⟨(by intro h; omega), fun _ => ⟨h1, fun hbl' => absurd hbl' hbl, fun _ => ⟨(by simp), (by intro h; omega), fun _ => (by simp)⟩⟩⟩, ?_⟩
            simp [hbl]
  have key := connectLoop_induct cfg fl
    (fun c' _ tr => ∀ i, Inv c.req.body c' i → bodiesOK c.req.body i tr)
    (fun _ _ _ _ => trivial)
    (by
      intro c' ctl a done i hinv
      rcases doConnect_spec cfg c' ctl a done with ⟨e, _, he⟩ | ⟨hr, ⟨hi, _⟩ | ⟨src, ic, _, hi, _⟩⟩
      · simp [he, bodiesOK]
      · rw [hi]; simp only [attOf, bodiesOK, and_true]
        exact (hstepInv _ c' i hb hinv hr).2
      · rw [hi]; simp only [attOf, bodiesOK, and_true]
        exact (hstepInv _ c' i hb hinv hr).2)
    (by
      intro c' ctl a done w q hs hw ih i hinv
      rcases doConnect_spec cfg c' ctl a done with ⟨e, _, he⟩ | ⟨hr, ⟨hi, _, hcn, _⟩ | ⟨src, ic, _, hi, _, hcn⟩⟩
      · rw [he] at hs; cases hs
      · have hst := hstepInv _ c' i hb hinv hr
        rw [hi]; simp only [attOf, bodiesOK, List.cons_append, List.nil_append]
        refine ⟨hst.2, ih (i + 1) ?_⟩
        rw [hcn]; exact hst.1
      · have hst := hstepInv _ c' i hb hinv hr
        rw [hi]; simp only [attOf, bodiesOK, List.cons_append, List.nil_append]
        refine ⟨hst.2, ih (i + 1) ?_⟩
        rw [hcn]; exact hst.1)
  exact key h c (Ctl.new cfg t0) done0 0 ⟨fun _ => ⟨hc, rfl, hg⟩, (by intro h; omega)⟩

/-! ### The translated source text (regenerated from /repo's client_connection.go on every run) -/

/-- **`Connection.resetRequest` and `resetRequestBody` as translated** — what every (re)connection attempt does to the
request before it is sent. On `GoRT.HttpReq` (the request's body, its `GetBody` as the answers of its successive calls,
its header map with any other headers `rest`) the translated code is the model's `resetRequest`: nothing but `isRetry`
changes before the first attempt; afterwards a body other than nil / `http.NoBody` is re-obtained through `GetBody`
(`ErrNoGetBody` when there is none, `GetBody`'s own error otherwise — and then neither body nor header is touched), and
the `Last-Event-ID` header is set to the connection's last event ID or removed when that is empty; it does not panic.
The header / body theorems above are stated over that model function, so they are statements about the source text of
these two functions (the `Connect` loop that calls them stays with the hand model and the CONN correspondence). -/
theorem translated_resetRequest_is_model (fuel : Nat) (rest : List (Bytes × List Bytes))
    (hrest : ∀ e ∈ rest, e.1 ≠ GenEquiv.leidKey) (c : Conn) :
    Gen.Connection_resetRequest fuel (GenEquiv.gOf rest c) =
      .ok (GenEquiv.resetErrS (resetRequest c).2, GenEquiv.gOf rest (resetRequest c).1) :=
  GenEquiv.resetRequest_eq fuel rest hrest c

theorem translated_resetRequestBody_is_model (fuel : Nat) (rest : List (Bytes × List Bytes)) (r : Req) :
    Gen.resetRequestBody fuel (GenEquiv.toGenReq rest r) =
      .ok (GenEquiv.resetErrS (resetRequestBody r).2, GenEquiv.toGenReq rest (resetRequestBody r).1) :=
  GenEquiv.resetRequestBody_eq fuel rest r

/-- non-vacuity: a retry with last event ID `7` on a request with a body and `GetBody`: the body is the fresh one, the
header is set -/
example :
    (Gen.Connection_resetRequest 1 (GenEquiv.gOf [] { req := { header := none, body := .orig, getBody := .present none }, lastEventID := [55], isRetry := true })).map
      (fun r => (r.1, r.2.request.map fun q => (q.Body, q.gbCalls, q.Header))) =
    .ok (none, some (.tag 1, 1, [(GenEquiv.leidKey, [[55]])])) := by
  rfl

end GoSSE.Props.C10
