import GoSSE.Proofs.ClientConnect
import GoSSE.Proofs.GenEquivBackoff
/-!
# C12 — the retry schedule follows the Backoff configuration

Model: `Model/Backoff.lean` (`mergeDefaults`, `Ctl.new/reset/next`, `nextInterval`, `growInterval`) and
the `Connect` loop of `Model/Connection.lean`. Durations are `Int` ns. The float computations are the
abstract functions `fl.grow`, `fl.capped`, `fl.jitter` (see `Model/Backoff.lean`); hypotheses on them are
explicit. All theorems hold for every configuration, every history of attempt outcomes, every clock and
every sequence of random draws. Trace predicates (`boundedRuns`, `shape`, `sched`) are defined in
`Proofs/ClientConnect.lean`.

Excluded by hypothesis (DESIGN.md §3): `int64` overflow of an interval (durations are unbounded `Int`
here) and float rounding (validated by testing against exact rationals, tolerance 1 ns).
-/
namespace GoSSE.Props.C12
open GoSSE GoSSE.Spec GoSSE.Spec.Client GoSSE.Model GoSSE.Model.Client GoSSE.Proofs.ClientBackoff GoSSE.Proofs.ClientConnect

/-- At most `MaxRetries` retries without an intervening successful connection: in the trace of any
`Connect` run there are never more than `MaxRetries` consecutive `retry` items not separated by a
`connected` item (`MaxRetries > 0`). -/
theorem retries_bounded (cfg : Cfg) (fl : Floats) (h : List Attempt) (c : Conn) (t0 : Int) (done0 : Bool)
    (hm : cfg.maxRetries > 0) :
    boundedRuns cfg.maxRetries 0 (connect cfg fl c t0 done0 h).trace := by
  have key := connectLoop_induct cfg fl
    (fun _ ctl tr => 0 ≤ ctl.numRetries → ctl.numRetries ≤ cfg.maxRetries → boundedRuns cfg.maxRetries ctl.numRetries tr)
    (fun _ _ _ _ => trivial)
    (by
      intro c ctl a done h0 hk
      rcases doConnect_spec cfg c ctl a done with ⟨e, _, he⟩ | ⟨_, ⟨hi, _⟩ | ⟨src, ic, _, hi, _⟩⟩
      · simp [he, boundedRuns]
      · simp [hi, attOf, boundedRuns]
      · simp [hi, attOf, boundedRuns])
    (by
      intro c ctl a done w q hs hw ih h0 hk
      obtain ⟨hl, _, hst, _⟩ := next_some cfg fl _ _ _ w hw
      rw [hst] at ih
      simp only [] at ih
      have hne : ¬ ((doConnect cfg c ctl a done).ctl.numRetries = cfg.maxRetries) := by
        intro e
        simp [limitHit, hm, e] at hl
      rcases doConnect_spec cfg c ctl a done with ⟨e, _, he⟩ | ⟨_, ⟨hi, hc, _⟩ | ⟨src, ic, _, hi, hc, _⟩⟩
      · rw [he] at hs; cases hs
      · rw [hi]
        rw [hc] at hne ih
        simp only [attOf, List.cons_append, List.nil_append, boundedRuns]
        exact ⟨by omega, ih (by omega) (by omega)⟩
      · rw [hi]
        have h0' := (applyRetries_spec cfg ctl (outsOf (resetRequest c).1 src) a.tReset).1
        rw [hc] at hne ih
        rw [h0'] at hne ih
        simp only [attOf, List.cons_append, List.nil_append, boundedRuns]
        exact ⟨by omega, ih (by omega) (by omega)⟩)
  exact key h c (Ctl.new cfg t0) done0 (by simp [Ctl.new]) (by simp [Ctl.new]; omega)

/-- `MaxRetries < 0`: no retry at all. -/
theorem no_retries_when_negative (cfg : Cfg) (fl : Floats) (h : List Attempt) (c : Conn) (t0 : Int) (done0 : Bool)
    (hm : cfg.maxRetries < 0) : noRetry (connect cfg fl c t0 done0 h).trace := by
  have key := connectLoop_induct cfg fl (fun _ _ tr => noRetry tr)
    (fun _ _ => trivial)
    (by
      intro c ctl a done
      rcases doConnect_spec cfg c ctl a done with ⟨e, _, he⟩ | ⟨_, ⟨hi, _⟩ | ⟨src, ic, _, hi, _⟩⟩
      · simp [he, noRetry]
      · simp [hi, attOf, noRetry]
      · simp [hi, attOf, noRetry])
    (by
      intro c ctl a done w q hs hw _
      obtain ⟨hl, _⟩ := next_some cfg fl _ _ _ w hw
      simp [limitHit, hm] at hl)
  exact key h c _ done0

/-- `MaxRetries = 0` (and no `MaxElapsedTime`): unbounded — `next` never refuses, for any state. -/
theorem retries_unbounded_when_zero (cfg : Cfg) (fl : Floats) (ctl : Ctl) (now draw : Int)
    (hm : cfg.maxRetries = 0) (he : cfg.maxElapsedTime ≤ 0) :
    (ctl.next cfg fl now draw).2 = some (nextInterval cfg fl ctl.interval draw) := by
  have hl : limitHit cfg ctl = false := by simp [limitHit, hm]
  rw [(next_step cfg fl ctl now draw hl).2]
  have : ¬ cfg.maxElapsedTime > 0 := by omega
  simp [this]

/-- `OnRetry` is called exactly once before each further attempt, with the wait actually used: the
trace of any run has the shape `attempt connected? (retry attempt connected?)* retry?` — two attempts
are always separated by exactly one `retry` item, and that item's wait is the very value the timer is
reset to (one variable in `Connect`, one field of the item). -/
theorem on_retry_once_with_wait (cfg : Cfg) (fl : Floats) (h : List Attempt) (c : Conn) (t0 : Int) (done0 : Bool) :
    shape 0 (connect cfg fl c t0 done0 h).trace := by
  have key := connectLoop_induct cfg fl (fun _ _ tr => shape 0 tr)
    (fun _ _ => trivial)
    (by
      intro c ctl a done
      rcases doConnect_spec cfg c ctl a done with ⟨e, _, he⟩ | ⟨_, ⟨hi, _⟩ | ⟨src, ic, _, hi, _⟩⟩
      · simp [he, shape]
      · simp [hi, attOf, shape]
      · simp [hi, attOf, shape])
    (by
      intro c ctl a done w q hs hw ih
      rcases doConnect_spec cfg c ctl a done with ⟨e, _, he⟩ | ⟨_, ⟨hi, _⟩ | ⟨src, ic, _, hi, _⟩⟩
      · rw [he] at hs; cases hs
      · rw [hi]; simpa [attOf, shape] using ih
      · rw [hi]; simpa [attOf, shape] using ih)
  exact key h c _ done0

/-- The schedule, for any relation `P` between a base and a wait that `nextInterval` guarantees:
in the trace of any run, every wait is `P`-related to its base, where the base is `InitialInterval`
at first, the server's retry value (`retryInterval`: last positive `retry` field, else
`InitialInterval`) after each successful connection, and `growInterval` of the previous base after
each retry. -/
theorem schedule (P : Int → Int → Prop) (cfg : Cfg) (fl : Floats) (hP : ∀ b u, P b (nextInterval cfg fl b u))
    (h : List Attempt) (c : Conn) (t0 : Int) (done0 : Bool) :
    sched P cfg fl cfg.initialInterval (connect cfg fl c t0 done0 h).trace := by
  have key := connectLoop_induct cfg fl (fun _ ctl tr => sched P cfg fl ctl.interval tr)
    (fun _ _ => trivial)
    (by
      intro c ctl a done
      rcases doConnect_spec cfg c ctl a done with ⟨e, _, he⟩ | ⟨_, ⟨hi, _⟩ | ⟨src, ic, _, hi, _⟩⟩
      · simp [he, sched]
      · simp [hi, attOf, sched]
      · simp [hi, attOf, sched])
    (by
      intro c ctl a done w q hs hw ih
      obtain ⟨_, hwv, hst, _⟩ := next_some cfg fl _ _ _ w hw
      rw [hst] at ih
      simp only [] at ih
      rcases doConnect_spec cfg c ctl a done with ⟨e, _, he⟩ | ⟨_, ⟨hi, hc, _⟩ | ⟨src, ic, _, hi, hc, _⟩⟩
      · rw [he] at hs; cases hs
      · rw [hi]
        rw [hc] at hwv ih
        simp only [attOf, List.cons_append, List.nil_append, sched]
        exact ⟨hwv ▸ hP _ _, ih⟩
      · rw [hi]
        have hb := (applyRetries_spec cfg ctl (outsOf (resetRequest c).1 src) a.tReset).2.2
        rw [hc] at hwv ih
        rw [hb] at hwv ih
        simp only [attOf, List.cons_append, List.nil_append, sched]
        exact ⟨hwv ▸ hP _ _, ih⟩)
  exact key h c (Ctl.new cfg t0) done0

/-- The base sequence at the controller: if `k+1` consecutive `next` calls all grant a retry, the
wait of the last one is `nextInterval` of `growInterval^[k] b₁`, where `b₁` is the interval the
series started with. -/
theorem base_sequence (cfg : Cfg) (fl : Floats) (c : Ctl) (steps : List (Int × Int))
    (hall : ∀ r ∈ nexts cfg fl c steps, r.isSome = true) (k : Nat) (hk : k < steps.length) :
    (nexts cfg fl c steps)[k]? = some (some (nextInterval cfg fl (iter (growI cfg fl) k c.interval) (steps[k]).2)) :=
  nexts_all_some cfg fl c steps hall k hk

/-- `b_(k+1) = min(b_k · Multiplier, MaxInterval)` when `MaxInterval` is set, else `b_k · Multiplier`:
provided the float comparison in `growInterval` agrees with the product it guards (`CapOK`, validated
by testing; satisfied by the exact-arithmetic instance, `exactFloats_capOK`), the model's base
sequence is the specification's closed form `baseAt`. -/
theorem base_is_spec (cfg : Cfg) (fl : Floats) (hc : CapOK fl) (b1 : Int) (k : Nat) :
    iter (growI cfg fl) k b1 = baseAt (scfg cfg fl) b1 k ∧
    growI cfg fl b1 = (if cfg.maxInterval > 0 then min (fl.grow b1) cfg.maxInterval else fl.grow b1) :=
  ⟨iter_eq_baseAt cfg fl hc b1 k, by rw [growI_eq_nextBase cfg fl hc]; rfl⟩

/-- non-vacuity of `CapOK`-style hypotheses: the driver's exact instance, Multiplier 3/2 -/
example : ∀ c m : Int, 0 ≤ c → m > 0 →
    ((exactFloats 3 2 1 2).capped c m = true ↔ m ≤ (exactFloats 3 2 1 2).grow c) :=
  exactFloats_capOK 3 2 1 2 (by decide) (by decide)

/-- A successful connection resets count and interval, and a server retry field overrides the base:
after a stream attempt the controller has made 0 retries, its series starts now, and its base is the
last positive `retry` value of that connection, `InitialInterval` if there is none or the last one is
`retry: 0` (the recorded reading of `reset`'s contract) — which is the specification's `retryBase`. -/
theorem reset_on_success (cfg : Cfg) (c : Conn) (ctl : Ctl) (a : Attempt) (done : Bool) (src : Source) (ic : Bool)
    (hr : (resetRequest c).2 = none) (ho : a.out = .stream src ic) :
    (doConnect cfg c ctl a done).ctl.numRetries = 0 ∧
    (doConnect cfg c ctl a done).ctl.start = a.tReset ∧
    (doConnect cfg c ctl a done).ctl.interval = retryBase cfg.initialInterval (outsOf (resetRequest c).1 src) := by
  rw [doConnect_stream cfg c ctl a done src ic hr ho]
  have := applyRetries_spec cfg ctl (outsOf (resetRequest c).1 src) a.tReset
  rw [retryInterval_eq_retryBase] at this
  simp only [outsOf] at this ⊢
  split <;> exact this

/-- `retry: 0` restores `InitialInterval`; a positive value `n` ms (below the `int64` range) is taken. -/
theorem server_retry_reading (initial : Int) (pre : List Out) (n : Nat) :
    retryBase initial (pre ++ [.retry 0]) = initial ∧
    (0 < n → n * 1000000 ≤ 9223372036854775807 → retryBase initial (pre ++ [.retry n]) = n * 1000000) := by
  constructor
  · simp [retryBase, List.filterMap_append]
  · intro hp hle
    simp only [retryBase, List.filterMap_append, List.filterMap_cons, List.filterMap_nil, List.getLast?_append,
      List.getLast?_singleton, Option.some_or]
    have h1 : ((n : Int) * 1000000 + 9223372036854775808) % 18446744073709551616 - 9223372036854775808 = (n : Int) * 1000000 := by
      omega
    simp only [h1]
    have : (n : Int) * 1000000 > 0 := by omega
    simp [this]

/-- No retry starts once `MaxElapsedTime` would be exceeded: whenever `next` grants a wait `w` at
clock reading `now`, the time since the series began plus `w` is within `MaxElapsedTime` (if set). -/
theorem max_elapsed_respected (cfg : Cfg) (fl : Floats) (c : Ctl) (now draw w : Int)
    (h : (c.next cfg fl now draw).2 = some w) (hm : cfg.maxElapsedTime > 0) :
    (now - c.start) + w ≤ cfg.maxElapsedTime :=
  (next_some cfg fl c now draw w h).2.2.2 hm

/-- `Jitter = -1`: every wait of every run equals its base exactly. -/
theorem jitter_minus_one_exact (cfg : Cfg) (fl : Floats) (hj : cfg.jitterOff = true)
    (h : List Attempt) (c : Conn) (t0 : Int) (done0 : Bool) :
    sched (fun b w => w = b) cfg fl cfg.initialInterval (connect cfg fl c t0 done0 h).trace :=
  schedule _ cfg fl (by intro b u; simp [nextInterval, hj]) h c t0 done0

/-- With jitter, every wait of every run is within the bound of its base, under the stated hypothesis
on the abstract `jitter` function: `b - B b ≤ jitter b u ≤ b + B b + 1` (for `B b = Jitter · b` this is
what `nextInterval` computes in exact arithmetic; for the float code it is validated by testing). -/
theorem wait_within_jitter (cfg : Cfg) (fl : Floats) (B : Int → Int) (hB : ∀ b, 0 ≤ B b)
    (hj : ∀ b u, b - B b ≤ fl.jitter b u ∧ fl.jitter b u ≤ b + B b + 1)
    (h : List Attempt) (c : Conn) (t0 : Int) (done0 : Bool) :
    sched (fun b w => b - B b ≤ w ∧ w ≤ b + B b + 1) cfg fl cfg.initialInterval (connect cfg fl c t0 done0 h).trace := by
  apply schedule
  intro b u
  unfold nextInterval
  split
  · have := hB b; constructor <;> omega
  · exact hj b u

/-- The same for the driver's exact-arithmetic instance, with no hypothesis on `jitter` left: for
`Jitter = jn/jd ∈ [0,1)`, `Multiplier = mn/md ≥ 0`, a non-negative `InitialInterval` and random draws
`u/2^53 ∈ [0,1)`, every wait of every run lies within `⌊Jitter·b⌋ + 1` below and `⌊Jitter·b⌋ + 2` above
its base `b`. (This also shows the hypotheses of `wait_within_jitter` are satisfiable.) -/
theorem wait_within_jitter_exact (cfg : Cfg) (mn : Int) (md : Nat) (jn : Int) (jd : Nat)
    (hmn : 0 ≤ mn) (hjd : 0 < jd) (hjn : 0 ≤ jn) (hlt : jn < jd) (hi : 0 ≤ cfg.initialInterval)
    (h : List Attempt) (hU : ∀ a ∈ h, 0 ≤ a.draw ∧ a.draw < 9007199254740992) (c : Conn) (t0 : Int) (done0 : Bool) :
    sched (fun b w => b - (jn * b / jd + 1) ≤ w ∧ w ≤ b + (jn * b / jd + 1) + 1) cfg (exactFloats mn md jn jd)
      cfg.initialInterval (connect cfg (exactFloats mn md jn jd) c t0 done0 h).trace := by
  apply schedule_inv _ (fun b => 0 ≤ b) (fun u => 0 ≤ u ∧ u < 9007199254740992) cfg _ hi
    (fun b hb => growI_nonneg_exact cfg mn md jn jd hmn b hb)
    (fun outs => retryInterval_nonneg _ hi outs) _ h hU
  intro b u hb hu
  unfold nextInterval
  split
  · have : 0 ≤ jn * b / (jd : Int) := Int.ediv_nonneg (Int.mul_nonneg hjn hb) (Int.natCast_nonneg jd)
    constructor <;> omega
  · exact exactFloats_jitter_bounds mn md jn jd hjd hjn hlt b u hb hu.1 hu.2

/-- non-vacuity of the jitter hypothesis: a jitter function that adds `u mod (b/2 + 1)` -/
example : ∀ b u : Int, 0 ≤ b → b - b / 2 ≤ (b + u % (b / 2 + 1)) ∧ (b + u % (b / 2 + 1)) ≤ b + b / 2 + 1 := by
  intro b u hb
  have h1 : 0 ≤ u % (b / 2 + 1) := Int.emod_nonneg _ (by omega)
  have h2 : u % (b / 2 + 1) < b / 2 + 1 := Int.emod_lt_of_pos _ (by omega)
  constructor <;> omega

/-- `mergeDefaults` as a decision table, for any float carrier: each of the three defaulted fields is
replaced independently, exactly under the condition the code tests; the other fields are untouched. -/
theorem mergeDefaults_table {F : Type} (o : FloatOps F) (d b : Backoff F) :
    (mergeDefaults o d b).initialInterval = (if b.initialInterval ≤ 0 then d.initialInterval else b.initialInterval) ∧
    (mergeDefaults o d b).multiplier = (if o.ltOne b.multiplier then d.multiplier else b.multiplier) ∧
    (mergeDefaults o d b).jitter =
      (if !o.isMinusOne b.jitter && (o.leZero b.jitter || o.geOne b.jitter) then d.jitter else b.jitter) ∧
    (mergeDefaults o d b).maxInterval = b.maxInterval ∧
    (mergeDefaults o d b).maxElapsedTime = b.maxElapsedTime ∧
    (mergeDefaults o d b).maxRetries = b.maxRetries := by
  unfold mergeDefaults
  by_cases h1 : b.initialInterval ≤ 0 <;> by_cases h2 : o.ltOne b.multiplier = true <;>
    by_cases h3 : (!o.isMinusOne b.jitter && (o.leZero b.jitter || o.geOne b.jitter)) = true <;>
    simp [h1, h2, h3]

/-- The table on actual values (exact rationals and NaN), in the specification's vocabulary: `Jitter`
is kept iff it is -1, inside (0,1) or NaN — in particular -1 ("no randomization") survives;
`Multiplier` is kept iff it is ≥ 1 or NaN; `InitialInterval` iff it is positive. -/
theorem mergeDefaults_table_values (d b : Backoff FV)
    (hm : ∀ n dd, b.multiplier = .rat n dd → 0 < dd) (hj : ∀ n dd, b.jitter = .rat n dd → 0 < dd) :
    (mergeDefaults FV.ops d b).initialInterval = (if keepInitial b.initialInterval then b.initialInterval else d.initialInterval) ∧
    (mergeDefaults FV.ops d b).multiplier = (if keepMultiplier b.multiplier.cls then b.multiplier else d.multiplier) ∧
    (mergeDefaults FV.ops d b).jitter = (if keepJitter b.jitter.cls then b.jitter else d.jitter) := by
  obtain ⟨h1, h2, h3, _⟩ := mergeDefaults_table FV.ops d b
  refine ⟨?_, ?_, ?_⟩
  · rw [h1]; simp only [keepInitial, decide_eq_true_eq]; split <;> split <;> first | rfl | omega
  · rw [h2]
    cases hmv : b.multiplier with
    | nan => simp [FV.ops, FV.cls, keepMultiplier]
    | rat n dd =>
      have := hm n dd hmv
      simp only [FV.ops, FV.cls]
      by_cases e1 : n = -(dd : Int)
      · have : n < dd := by omega
        simp [e1, keepMultiplier]; omega
      · by_cases e2 : n ≤ 0
        · have : n < dd := by omega
          simp [e1, e2, keepMultiplier, this]
        · by_cases e3 : n < dd <;> simp [e1, e2, e3, keepMultiplier]
  · rw [h3]
    cases hjv : b.jitter with
    | nan => simp [FV.ops, FV.cls, keepJitter]
    | rat n dd =>
      have := hj n dd hjv
      simp only [FV.ops, FV.cls]
      by_cases e1 : n = -(dd : Int)
      · simp [e1, keepJitter]
      · by_cases e2 : n ≤ 0
        · simp [e1, e2, keepJitter]
        · by_cases e3 : n < dd
          · have : ¬ n ≥ dd := by omega
            simp [e1, e2, e3, keepJitter, this]
          · have : n ≥ dd := by omega
            simp [e1, e2, e3, keepJitter, this]

/-- non-vacuity / the fixed defect: `Jitter: -1` is kept, `0`, `1`, `1.5` are replaced by the default -/
example :
    ((mergeDefaults FV.ops ⟨500, .rat 3 2, .rat 1 2, 0, 0, 0⟩ ⟨0, .rat 1 2, .rat (-1) 1, 0, 0, 0⟩).jitter,
     (mergeDefaults FV.ops ⟨500, .rat 3 2, .rat 1 2, 0, 0, 0⟩ ⟨7, .rat 1 1, .rat 3 2, 0, 0, 0⟩).jitter,
     (mergeDefaults FV.ops ⟨500, .rat 3 2, .rat 1 2, 0, 0, 0⟩ ⟨0, .rat 1 2, .rat 0 1, 0, 0, 0⟩).initialInterval)
    = (.rat (-1) 1, .rat 1 2, 500) := by decide

/-! ### The translated source text (regenerated from /repo's client.go on every run) -/

/-- **`backoffController.next` as translated from client.go** (with `nextInterval` and `growInterval`) is one step of the
model's controller. In the translated text `float64` is an abstract carrier with the operations the Go code performs
(`fo`; nothing is assumed of them, so this holds for IEEE arithmetic as for exact arithmetic), the generator is the
list of its coming draws and the clock reading of the call is a parameter; `GenEquiv.floatsOf` spells the model's three
float computations out of `fo`, the configuration's `Multiplier` / `Jitter` and the draw at hand. For **every**
configuration, controller state, draw and clock reading, `next` returns `(wait, true)` / `(0, false)` exactly as
`Ctl.next` answers `some wait` / `none`, leaves the model's `start`, `interval`, `numRetries`, consumes the draw exactly
when the retry limit does not refuse and jitter is on, and does not panic. The schedule theorems above (`schedule`,
`base_sequence`, `retries_bounded`, `max_elapsed_respected`, …) are therefore statements about the text of client.go's
controller (the `Connect` loop around it stays with the hand model and the CONN correspondence). -/
theorem translated_next_is_model {φ : Type} (fo : GoRT.FloatI φ) (fuel : Nat) (c : Gen.backoffController φ) (b : Gen.Backoff φ)
    (hb : c.b = some b) (d : φ) (rest : List φ) (hr : c.rng = d :: rest) (now : Int) :
    Gen.backoffController_next fo fuel c now =
      .ok (GenEquiv.nextRes c (Ctl.next (GenEquiv.cfgOf fo b) (GenEquiv.floatsOf fo b d) (GenEquiv.ctlOf c) now 0)
        (if GenEquiv.refused (GenEquiv.cfgOf fo b) (GenEquiv.ctlOf c) || (GenEquiv.cfgOf fo b).jitterOff then c.rng else rest)) :=
  GenEquiv.next_eq fo fuel c b hb d rest hr now

/-- … and with `Jitter == -1` no draw is needed, whatever the generator holds -/
theorem translated_next_is_model_jitter_off {φ : Type} (fo : GoRT.FloatI φ) (fuel : Nat) (c : Gen.backoffController φ)
    (b : Gen.Backoff φ) (hb : c.b = some b) (d : φ) (hoff : (GenEquiv.cfgOf fo b).jitterOff = true) (now : Int) :
    Gen.backoffController_next fo fuel c now =
      .ok (GenEquiv.nextRes c (Ctl.next (GenEquiv.cfgOf fo b) (GenEquiv.floatsOf fo b d) (GenEquiv.ctlOf c) now 0) c.rng) :=
  GenEquiv.next_eq_off fo fuel c b hb d hoff now

/-- **`backoffController.reset` as translated** is `Ctl.reset` at the clock reading of the call (a positive server
`retry` value becomes the interval, anything else restores `InitialInterval`; the retry count starts again) -/
theorem translated_reset_is_model {φ : Type} (fo : GoRT.FloatI φ) (fuel : Nat) (c : Gen.backoffController φ) (b : Gen.Backoff φ)
    (hb : c.b = some b) (newInterval now : Int) :
    Gen.backoffController_reset fo fuel c newInterval now =
      .ok (GenEquiv.withCtl c (Ctl.reset (GenEquiv.cfgOf fo b) (GenEquiv.ctlOf c) newInterval now) c.rng) :=
  GenEquiv.reset_eq fo fuel c b hb newInterval now

/-- non-vacuity: integers as the float carrier, `Multiplier` 2, `Jitter` −1, `MaxInterval` 15, at most 3 retries: a step
from interval 5 waits 5 and doubles the interval; from 10 the interval is capped; the fourth `next` refuses -/
example :
    let fo : GoRT.FloatI Int := ⟨fun n _ => n, id, id, (· + ·), (· - ·), (· * ·), (· / ·), fun a b => decide (a < b), fun a b => decide (a ≤ b), fun a b => a == b⟩
    let b : Gen.Backoff Int := ⟨5, 2, -1, 15, 0, 3⟩
    (Gen.backoffController_next fo 1 ⟨0, [], some b, 5, 0⟩ 7).map (fun r => (r.1, r.2.1, r.2.2.interval, r.2.2.numRetries)) = .ok (5, true, 10, 1) ∧
    (Gen.backoffController_next fo 1 ⟨0, [], some b, 10, 1⟩ 7).map (fun r => (r.1, r.2.1, r.2.2.interval, r.2.2.numRetries)) = .ok (10, true, 15, 2) ∧
    (Gen.backoffController_next fo 1 ⟨0, [], some b, 15, 3⟩ 7).map (fun r => (r.1, r.2.1, r.2.2.interval, r.2.2.numRetries)) = .ok (0, false, 15, 3) := by
  intro fo b
  exact ⟨rfl, rfl, rfl⟩

end GoSSE.Props.C12
