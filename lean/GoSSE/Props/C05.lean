import GoSSE.Proofs.E2E
import GoSSE.Props.C06
/-!
# C05 — end to end: no event lost, duplicated or reordered across reconnects

A composition over the component theorems (DESIGN.md §6/C05), not a new model:

* the body of session *n* is the concatenation of the encodings of what the session's `Send` calls
  wrote (C16 `body_is_concat_of_encodings`), and those are the log entries after the presented ID,
  contiguous, in order (C04 `resume_exact`, C03 `delivery_exact`);
* the client sees a *prefix* of that body — cut anywhere — and dispatches exactly the messages that lie
  wholly inside the prefix (`prefix_decodes_complete_messages` below, with C01 for go-sse's own parser);
* it remembers the ID of the last dispatched event and presents it next (C10);
* hence the concatenation over all sessions is the published sequence, each event once, in order
  (`sessions_compose`);
* the server survives every cut: `net/http` turns a failed write into a cancellation of the request
  context, and Joe never panics under any interleaving of failure and cancellation (`C06.never_panics`).

`net/http`'s framing and cancellation behaviour are observed by the end-to-end harness, not modelled.
-/
namespace GoSSE.Props.C05
open GoSSE GoSSE.Spec GoSSE.Model GoSSE.Proofs

/-- **A cut body decodes to exactly the complete messages inside it.** Take any messages built through the
API (`WF`), the concatenation `W` of their encodings, and *any* prefix of `W` (a connection cut after `n`
bytes, anywhere: inside a field, between the two newlines ending an event, …) ended by a read error.
A spec-conforming client dispatches exactly the events of the first `k` messages, for the `k` such that
those `k` encodings lie wholly inside the prefix — nothing of the message that was cut. -/
theorem prefix_decodes_complete_messages (mode : Mode) (id₀ : Bytes) (ms : List Message) (h : ∀ m ∈ ms, WF m) (n : Nat) :
    ∃ k, k ≤ ms.length ∧
      (Spec.run mode false id₀ ((ms.flatMap Message.encode).take n) .err).1 = expected mode id₀ ((ms.take k).map builtOf) ∧
      (ms.take k).flatMap Message.encode <+: (ms.flatMap Message.encode).take n := by
  have hnl : ∀ l ∈ ms.flatMap msgLines, NlFree l := by
    intro l hl
    obtain ⟨m, hm, hlm⟩ := List.mem_flatMap.mp hl
    exact msgLines_nlFree m (h m hm) l hlm
  rw [flatMap_encode]
  obtain ⟨j, r, hj, ht, hr, hend⟩ := take_term (ms.flatMap msgLines) n
  obtain ⟨k, j', hk, hk2, hkend⟩ := take_flatMap_msgLines ms j
  refine ⟨k, hk, ?_, ?_⟩
  · -- no BOM at the start of a prefix of encodings
    have hbomW : stripBOM (term (ms.flatMap msgLines)) = term (ms.flatMap msgLines) := by
      rw [← flatMap_encode]; exact stripBOM_flatMap_encode ms
    have hbom : stripBOM ((term (ms.flatMap msgLines)).take n) = (term (ms.flatMap msgLines)).take n := by
      unfold stripBOM at hbomW ⊢
      split
      · rename_i hp
        exfalso
        have hpW : bom.isPrefixOf (term (ms.flatMap msgLines)) = true := by
          rw [List.isPrefixOf_iff_prefix] at hp ⊢
          exact hp.trans (List.take_prefix _ _)
        rw [if_pos hpW] at hbomW
        have hl := congrArg List.length hbomW
        have h3 : 3 ≤ (term (ms.flatMap msgLines)).length := by
          have := (List.isPrefixOf_iff_prefix.mp hpW).length_le
          simpa [bom] using this
        simp at hl; omega
      · rfl
    have hrfree : NlFree r := by
      by_cases hjl : j < (ms.flatMap msgLines).length
      · intro b hb
        exact hnl _ (List.getElem_mem hjl) b ((hr hjl).subset hb)
      · have : r = [] := hend (by omega)
        rw [this]; exact nlFree_nil
    have hsplit : splitLines ((term (ms.flatMap msgLines)).take n) [] false = ((ms.flatMap msgLines).take j, r) := by
      rw [ht, splitLines_term _ _ (fun l hl => hnl l (List.mem_of_mem_take hl)), splitLines_nlFree r [] hrfree]
      simp
    unfold Spec.run
    rw [hbom, hsplit]
    simp only
    rw [hk2, interp_append]
    obtain ⟨id', hi⟩ := interp_flatMap_msgLines mode id₀ (ms.take k)
    have e0 : ({ lastID := id₀ } : IState) = clean id₀ := rfl
    rw [e0, hi]
    simp only
    rw [interp_nonblank_silent mode _ _ (fun l hl => lines_nonempty _ l (List.mem_of_mem_take hl))]
    simp
  · rw [ht, hk2, term_append, List.append_assoc]
    rw [flatMap_encode]
    exact List.prefix_append _ _

/-- … and when the handler returns after whole messages (a clean end of the body at a message boundary)
the client dispatches exactly those messages (this is C02's headline, restated for a session). -/
theorem clean_end_decodes_all (mode : Mode) (id₀ : Bytes) (ms : List Message) (h : ∀ m ∈ ms, WF m) :
    Spec.run mode false id₀ (ms.flatMap Message.encode) .eof = (expected mode id₀ (ms.map builtOf), .clean) :=
  run_flatMap_encode mode id₀ ms h

/-- **Sessions compose** (see `GoSSE.Proofs.sessions_compose`): with unique event IDs, however many
sessions there are and however little each delivers before it is cut, what the client dispatched over all
of them is exactly the log after the ID it started from — in order, each entry once. -/
theorem sessions_compose {ι : Type} [DecidableEq ι] (L : List ι) (hn : L.Nodup) (cur : ι) (hc : cur ∈ L) (ks : List Nat) :
    (playSessions L cur ks).1 = (afterG L cur).take ks.sum :=
  GoSSE.Proofs.sessions_compose L hn cur hc ks

/-- non-vacuity / illustration: three sessions delivering 1, 0 and 2 events -/
example : (playSessions [10, 11, 12, 13, 14] 10 [1, 0, 2]).1 = [11, 12, 13] := by decide

/-- **The server survives every cut**: whatever write fails and whatever context gets cancelled, in
whatever order, Joe's goroutine neither panics nor blocks forever (C06). -/
theorem server_survives {c : Joe.Cfg} {s : Joe.St} (h : Joe.Reachable c s) : s.joe ≠ .panicked ∧ s.joe ≠ .blocked :=
  C06.never_panics h

end GoSSE.Props.C05
