import GoSSE.Proofs.GenEquiv
import GoSSE.Proofs.GenEquivScan
import GoSSE.Proofs.ParserRange
import GoSSE.Proofs.ParserPulled
import GoSSE.Proofs.ParserRun
import GoSSE.Proofs.ParserFits
/-!
# C20 — parser memory is bounded by the configured maximum event size

Property theorems only; helper lemmas live in `GoSSE/Proofs`.
-/
namespace GoSSE.Props.C20
open GoSSE GoSSE.Spec GoSSE.Model GoSSE.Proofs

/-- Every index `splitFunc` takes is in range, for every buffer content and both values of
`atEOF`: after the loop `start ≤ advance ≤ len(data)`; the returned advance is `≤ len(data)`; a
returned token is `data[start:advance]` with `start ≤ advance`, and it always comes with a
positive advance (so bufio's "too many empty tokens without progressing" panic cannot occur). -/
theorem split_indices_in_range (data : Bytes) (atEOF : Bool) :
    let loop := splitLoop data.length (data.length + 1) data 0 0
    let r := splitFunc data atEOF
    loop.2 ≤ loop.1 ∧ loop.1 ≤ data.length ∧ r.1 ≤ data.length ∧
    ∀ tok, r.2 = some tok → 0 < r.1 ∧ loop.2 ≤ r.1 ∧ tok = (data.take r.1).drop loop.2 := by
  intro loop r
  refine ⟨(splitFunc_loop_range data).1, (splitFunc_loop_range data).2, sf_adv_le data atEOF, ?_⟩
  intro tok h
  obtain ⟨h1, _, h3, h4⟩ := splitFunc_token_range data atEOF tok h
  exact ⟨h1, h3, h4⟩

/-- Inside the loop of `splitFunc`, from any state in which `rest = data[advance:]`: after the
step `rest' = data[advance':]` again, so `advance' ≤ len(data)` and the byte `data[advance']`
inspected by the exit test exists unless `advance' == len(data)` — which Go tests first. -/
theorem split_loop_step_in_range (len : Nat) (rest : Bytes) (adv : Nat) (h : adv + rest.length = len) :
    let r := newlineIndex rest
    adv + r.1 + r.2 + (rest.drop (r.1 + r.2)).length = len ∧
    (rest.drop (r.1 + r.2) = [] ↔ adv + r.1 + r.2 = len) :=
  splitLoop_step_range len rest adv h

/-- non-vacuity -/
example : (3 : Nat) + ([100, 10, 10] : Bytes).length = 6 := by decide

/-- Bytes requested from the reader never exceed the bytes consumed by completed tokens plus the
limit `L = limitOf cfg` (65536 by default, `max(max, cap buf)` when configured): for every scanner
state reachable from the initial one by `Scan` calls (`Reach … c s`: `c` = sum of the advances of
the tokens returned so far), and even across the next `Scan` call, whatever it returns. -/
theorem pulled_bounded (src : Source) (cfg : Option (Nat × Int)) (c : Nat) (s : Scanner)
    (h : Reach (mkScanner src cfg) c s) (fuel : Nat) :
    s.pulled ≤ c + limitOf cfg ∧ (Scanner.scan fuel s).2.pulled ≤ c + limitOf cfg :=
  ⟨reach_pulled_bounded src cfg c s h, reach_scan_pulled_bounded src cfg c s h fuel⟩

/-- non-vacuity: the initial scanner is reachable -/
example (src : Source) (cfg : Option (Nat × Int)) : Reach (mkScanner src cfg) 0 (mkScanner src cfg) := .init

/-- The scanner at the end of a whole run (`Read`/`Connection.read`, any early stop) is such a
reachable state, and `implRun` reports its counter: the run pulled at most `L` bytes more than
its completed tokens consumed, and never more than the source holds. -/
theorem run_pulled_bounded (conn : Bool) (lastID : Bytes) (src : Source) (cfg : Option (Nat × Int))
    (stopAt : Option Nat) :
    (∃ c, Reach (mkScanner src cfg) c (finalScanner conn lastID src cfg stopAt) ∧
      (implRun conn lastID src cfg stopAt).2.2 ≤ c + limitOf cfg) ∧
    (implRun conn lastID src cfg stopAt).2.2 ≤ (src.chunks.map List.length).sum :=
  ⟨implRun_pulled_bounded conn lastID src cfg stopAt, implRun_pulled_le_source conn lastID src cfg stopAt⟩

/-- An oversized event is never delivered truncated or partially parsed: in every run — in
particular one that ends in `ErrTooLong` — everything that was yielded is a prefix of what the
specification prescribes for the stream (complete, correctly parsed events only); by
`read_conforms_or_toolong` the prefix is proper only when the run ends in `ErrTooLong`. -/
theorem toolong_yields_no_partial_event (conn : Bool) (lastID : Bytes) (src : Source) (cfg : Option (Nat × Int)) :
    (implRun conn lastID src cfg none).1 <+:
      (Spec.run .gosse conn lastID src.chunks.flatten (if src.endErr then .err else .eof)).1 := by
  have a := implRun_conforms conn lastID src cfg
  simp only at a
  rcases a with ⟨_, hp⟩ | ⟨ho, _⟩
  · exact hp
  · rw [ho]; exact List.prefix_refl _

/-- non-vacuity: a run that does end in `ErrTooLong` (a 7-byte line against a 3-byte limit) -/
example : (implRun false [] { chunks := [[100, 97, 116, 97, 58, 120, 120]], endErr := false } (some (0, 3)) none).2.1 =
    PErr.tooLong := by decide

/-- **Below the limit everything is delivered intact.** `FitsLimit L s`: cut `s` at the event
boundaries (`pieceLen`: blank lines, the event's lines with their terminators, and the
terminator of its closing blank line); every complete piece is shorter than `L`, and the
unfinished remainder `R` has `|R| + 1 < L`. Then, for `L = limitOf cfg` (65536 by default,
`max(max, cap buf)` when configured), every segmentation, both end kinds and both entry points,
the run never ends in `ErrTooLong` and yields exactly the specification's events, retries and
end condition. -/
theorem fits_implies_complete (conn : Bool) (lastID : Bytes) (src : Source) (cfg : Option (Nat × Int))
    (hfit : FitsLimit (limitOf cfg) src.chunks.flatten) :
    let r := implRun conn lastID src cfg none
    let sp := Spec.run .gosse conn lastID src.chunks.flatten (if src.endErr then .err else .eof)
    r.2.1 ≠ PErr.tooLong ∧ r.1 = sp.1 ∧ r.2.1 = endErr conn sp.2 := by
  intro r sp
  have hno := fits_no_toolong conn lastID src cfg none hfit
  have a := implRun_conforms conn lastID src cfg
  simp only at a
  rcases a with ⟨e, _⟩ | ⟨ho, he⟩
  · exact absurd e hno
  · exact ⟨hno, ho, he⟩

/-- with an early stop, too, the limit is never hit -/
theorem fits_no_toolong_early_stop (conn : Bool) (lastID : Bytes) (src : Source) (cfg : Option (Nat × Int))
    (stopAt : Option Nat) (hfit : FitsLimit (limitOf cfg) src.chunks.flatten) :
    (implRun conn lastID src cfg stopAt).2.1 ≠ PErr.tooLong :=
  fits_no_toolong conn lastID src cfg stopAt hfit

/-- non-vacuity: "data:x\n\n" followed by the unfinished "id" fits a limit of 10 -/
example : FitsLimit 10 [100, 97, 116, 97, 58, 120, 10, 10, 105, 100] :=
  .piece _ 8 (by decide) (by decide) (.rest _ (by decide) (by decide))

/-- The slack byte in the remainder clause of `FitsLimit` is necessary: with `|R| < L` only
(the reading of DESIGN §6) the claim fails. Stream "a\n\r\n" + 9 bytes, limit 10: the complete
piece has 4 bytes, the remainder 9 < 10, but cut as "a\n\r" | "\n" + 9 bytes the run ends in
`ErrTooLong` (the LF of the CRLF is still pending in front of the remainder), while the same
stream in one read is delivered (`ErrUnexpectedEOF`). -/
example :
    (implRun false [] { chunks := [[97, 10, 13], [10, 120, 120, 120, 120, 120, 120, 120, 120, 120]], endErr := false }
      (some (0, 10)) none).2.1 = PErr.tooLong ∧
    (implRun false [] { chunks := [[97, 10, 13, 10, 120, 120, 120, 120, 120, 120, 120, 120, 120]], endErr := false }
      (some (0, 10)) none).2.1 = PErr.unexpectedEOF ∧
    pieceLen [97, 10, 13, 10, 120, 120, 120, 120, 120, 120, 120, 120, 120] 0 = some 4 := by
  decide


/-! ### The translated source text (regenerated from /repo on every run) -/

/-- `splitFunc` *as translated from parser.go* — every index and slice expression checked, loops with fuel —
returns, for every buffer content and both values of `atEOF`, exactly what the model's `splitFunc` returns: it
never panics (no index or slice out of range), its loop ends within `len(data)+1` iterations, and its error
result is always nil. The index facts above (`split_indices_in_range`) therefore hold of the source text. -/
theorem translated_splitFunc_is_model (fuel : Nat) (data : Bytes) (atEOF : Bool) (hf : data.length < fuel) :
    Gen.splitFunc fuel data atEOF = .ok (((splitFunc data atEOF).1 : Int), (splitFunc data atEOF).2, none) :=
  GenEquiv.splitFunc_eq fuel data atEOF hf

/-- `(*bufio.Scanner).Scan` *as translated from the installed toolchain's bufio/scan.go* — the buffer management the
size limit of this property lives in: shift, grow up to `maxTokenSize`, `ErrTooLong`, the read loop, the final token at
EOF — with go-sse's translated `splitFunc` as its split function, does in one call exactly what the model's
`Scanner.scan` does (the function `pulled_bounded`, `fits_implies_complete` and C01's theorems are stated over): it
returns `true` exactly when the model yields a token, that token is in `s.token`, and the scanner afterwards stands
for the model's (`Rel`: pending bytes, buffer length, limit, reader, sticky error). It never panics — no slice
expression out of range, no "too many empty tokens" — and its loops end. Hypotheses: the sizes are below the fuel
and `maxInt/2`, and the reader never returns `0, nil` (`Bnd`). -/
theorem translated_bufio_Scan_is_model (F : Nat) (g : Gen.Scanner) (m : Scanner) (hR : GenEquiv.Rel F g m)
    (hB : GenEquiv.Bnd F m) (hI : SInv m) (hk : (if m.err.isSome then 1 else m.src.size + 2) ≤ F) :
    ∃ g', Gen.Scanner_Scan F g = .ok ((Scanner.scan F m).1.isSome, g') ∧ GenEquiv.Rel F g' (Scanner.scan F m).2 ∧
      (∀ t, (Scanner.scan F m).1 = some t → g'.token = some t.2) ∧ GenEquiv.Bnd F (Scanner.scan F m).2 :=
  GenEquiv.Scan_eq F g m hR hB hI hk

/-- the hypotheses hold of a scanner as `parser.New` (and `Parser.Buffer`) leave it, so the theorem applies to the
first call; it re-establishes them (`Rel`, `Bnd`; `SInv` by `scan_spec`), so it applies to every later call -/
theorem translated_bufio_initial (F : Nat) (src : Source) (buf : Bytes) (max : Int) :
    GenEquiv.Rel F (GenEquiv.newGenScanner F src buf max) (mkScanner src (some (buf.length, max))) ∧
    GenEquiv.Rel F (GenEquiv.newGenScanner F src [] 65536) (mkScanner src none) :=
  ⟨GenEquiv.rel_initial F src buf max, GenEquiv.rel_initial_default F src⟩

/-- non-vacuity: the translated function on "a\n\nb" (at EOF) yields the token "a\n\n" with advance 3 -/
example : Gen.splitFunc 7 [97, 10, 10, 98] true = .ok (3, some [97, 10, 10], none) := by rfl

end GoSSE.Props.C20
