import GoSSE.Proofs.ClientRegistry
/-!
# C13 — each event reaches exactly the callbacks subscribed to its type

Model: `Model/Registry.lean` (`addSubscriber`, `addSubscriberToAll`, remover closures, `dispatch`).
Specification: `Spec/Client.lean` (`SubState`: a flat list of live subscriptions, the `k`-th subscribe
operation has identity `k`). Scripts (`ROp`) interleave subscribe / subscribe-to-all / calling the
remover of the `k`-th subscription (any number of times, also stale) / dispatched events, in any order
and of any length.

Race freedom (the last clause of the property) is outside Lean: `checklib/p_client.py` checks the lock
discipline on the source text and the harness runs a concurrent variant under the race detector; that
clause is testing.
-/
namespace GoSSE.Props.C13
open GoSSE GoSSE.Spec GoSSE.Spec.Client GoSSE.Model GoSSE.Model.Client GoSSE.Proofs.ClientRegistry

/-- Ids are unique: the remover handed out by the `k`-th subscribe operation of any script captured
id `k`, so no two subscriptions ever share an id. -/
theorem ids_unique (ops : List ROp) (i j : Nat) (a b : Remover)
    (hi : (runScript ops).removers[i]? = some a) (hj : (runScript ops).removers[j]? = some b) (hne : i ≠ j) :
    a.id ≠ b.id := by
  have h := inv_run ops
  rw [h.ids i a hi, h.ids j b hj]; exact hne

/-- Exactly the right callbacks, each once: after any script, an event of type `t` is passed to a
permutation (map order is unspecified) of the live subscriptions whose filter is `t` or "all", and no
callback is invoked twice. -/
theorem dispatch_exact (ops : List ROp) (t : Bytes) :
    ((runScript ops).reg.dispatch t).Perm (((specScript ops).live.filter (matchesSub t)).map (·.1)) ∧
    ((runScript ops).reg.dispatch t).Nodup := by
  have h := inv_run ops
  have hp : ((runScript ops).reg.dispatch t).Perm (((specScript ops).live.filter (matchesSub t)).map (·.1)) := by
    rw [dispatch_eq, h.typed, h.all]; exact matches_perm _ _
  refine ⟨hp, hp.nodup_iff.mpr ?_⟩
  exact List.Nodup.sublist (List.Sublist.map _ List.filter_sublist) h.nodup

/-- The same for every event of the script: the model's log of invocations equals the specification's,
event by event, up to the order within one event. -/
theorem dispatch_exact_log (ops : List ROp) : LogsPerm (runScript ops).log (specScript ops).log :=
  log_rel_from ops {} {} inv_init LogsPerm.nil

/-- Removers are idempotent and local, for every registry (reachable or not) and every remover
(current, repeated or stale — e.g. after the same type was subscribed again): calling it twice is
calling it once, and for every event type the callbacks invoked other than the remover's own are
exactly the same as before, in the same order. -/
theorem remover_idempotent_and_local (r : Registry) (rm : Remover) :
    (r.remove rm).remove rm = r.remove rm ∧
    ∀ t, ((r.remove rm).dispatch t).filter (· != rm.id) = (r.dispatch t).filter (· != rm.id) := by
  refine ⟨remove_remove r rm, fun t => ?_⟩
  rw [dispatch_eq, dispatch_eq]
  cases rm with
  | all id => simp [typedIds_remove_all, all_remove_all, Remover.id, List.filter_filter]
  | typed t' id =>
    rw [all_remove_typed]
    by_cases ht : t = t'
    · subst ht; rw [typedIds_remove_typed_same]; simp [Remover.id, List.filter_filter]
    · rw [typedIds_remove_typed_other _ _ _ _ ht]

/-- After an unsubscribe function has returned, its callback is never invoked again, whatever the
script does afterwards (ids are never reused, so nothing can bring it back): once the remover of
subscription `k` was called, `k` is not among the callbacks any later event is passed to. (The second
disjunct only covers scripts that call a remover that does not exist yet.) -/
theorem removed_never_invoked (pre post : List ROp) (k : Nat) (t : Bytes) :
    k ∉ (runScript (pre ++ .unsub k :: post)).reg.dispatch t ∨ (runScript pre).removers[k]? = none := by
  cases hr : (runScript pre).removers[k]? with
  | none => exact Or.inr rfl
  | some rm =>
    left
    intro hmem
    have hp := (dispatch_exact (pre ++ .unsub k :: post) t).1
    have hm := hp.subset hmem
    -- in the specification, `k` is not live after `unsub k`: ids only grow
    have hcount : ∀ (ops : List ROp) (ss : SubState), (∀ a ∈ ss.live, a.1 ≠ k) → k < ss.count →
        ∀ a ∈ (ops.foldl SubState.step ss).live, a.1 ≠ k := by
      intro ops
      induction ops with
      | nil => intro ss h _; exact h
      | cons op ops ih =>
        intro ss h hk
        apply ih
        · cases op with
          | sub ev =>
            intro a ha
            simp only [SubState.step, List.mem_append, List.mem_singleton] at ha
            rcases ha with ha | ha
            · exact h a ha
            · subst ha; simp; omega
          | subAll =>
            intro a ha
            simp only [SubState.step, List.mem_append, List.mem_singleton] at ha
            rcases ha with ha | ha
            · exact h a ha
            · subst ha; simp; omega
          | unsub j => intro a ha; exact h a (List.mem_filter.mp ha).1
          | event typ => exact h
        · cases op <;> simp [SubState.step] <;> omega
    have hinv := inv_run pre
    have hk : k < (specScript pre).count := by
      rw [← hinv.len]
      exact (List.getElem?_eq_some_iff.mp hr).1
    have := hcount post ((specScript pre).step (.unsub k))
      (by intro a ha; simp only [SubState.step] at ha; have := (List.mem_filter.mp ha).2; simpa using this)
      (by simpa [SubState.step] using hk)
    obtain ⟨a, ha, hak⟩ := List.mem_map.mp hm
    have ha' := (List.mem_filter.mp ha).1
    simp only [specScript, List.foldl_append, List.foldl_cons] at ha'
    exact this a ha' hak

/-- Stream order: the `j`-th dispatched event of any script is the `j`-th entry of the log, delivered
to the callbacks registered at that moment; later operations never touch earlier entries. Hence every
callback sees the events it receives in stream order. -/
theorem stream_order (pre post : List ROp) (t : Bytes) :
    ∃ rest, (runScript (pre ++ .event t :: post)).log =
      (runScript pre).log ++ (runScript pre).reg.dispatch t :: rest := by
  simp only [runScript, List.foldl_append, List.foldl_cons]
  obtain ⟨rest, hr⟩ := foldl_step_append post ((List.foldl RegState.step {} pre).step (.event t))
  refine ⟨rest, ?_⟩
  rw [hr]
  simp [RegState.step]

/-- non-vacuity: a stale remover called after the same type was subscribed again removes nothing else -/
example :
    (runScript [.sub [97], .unsub 0, .sub [97], .unsub 0, .subAll, .event [97], .event []]).log = [[1, 2], [2]] := by
  decide

end GoSSE.Props.C13
