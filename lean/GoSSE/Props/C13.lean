import GoSSE.Proofs.ClientRegistry
import GoSSE.Proofs.GenEquivDispatch
import GoSSE.Proofs.GenEquivRegistry
/-!
# C13 — each event reaches exactly the callbacks subscribed to its type

Model: `Model/Registry.lean` (`addSubscriber`, `addSubscriberToAll`, remover closures, `dispatch`).
Specification: `Spec/Client.lean` (`SubState`: a flat list of live subscriptions, the `k`-th subscribe
operation has identity `k`). Scripts (`ROp`) interleave subscribe / subscribe-to-all / calling the
remover of the `k`-th subscription (any number of times, also stale) / dispatched events, in any order
and of any length.

Race freedom (the last clause of the property) is outside Lean: `checklib/p_client.py` checks the lock
discipline on the source text and the harness runs a concurrent variant under the race detector; that
clause is testing.
-/
namespace GoSSE.Props.C13
open GoSSE GoSSE.Spec GoSSE.Spec.Client GoSSE.Model GoSSE.Model.Client GoSSE.Proofs.ClientRegistry

/-- Ids are unique: the remover handed out by the `k`-th subscribe operation of any script captured
id `k`, so no two subscriptions ever share an id. -/
theorem ids_unique (ops : List ROp) (i j : Nat) (a b : Remover)
    (hi : (runScript ops).removers[i]? = some a) (hj : (runScript ops).removers[j]? = some b) (hne : i ≠ j) :
    a.id ≠ b.id := by
  have h := inv_run ops
  rw [h.ids i a hi, h.ids j b hj]; exact hne

/-- Exactly the right callbacks, each once: after any script, an event of type `t` is passed to a
permutation (map order is unspecified) of the live subscriptions whose filter is `t` or "all", and no
callback is invoked twice. -/
theorem dispatch_exact (ops : List ROp) (t : Bytes) :
    ((runScript ops).reg.dispatch t).Perm (((specScript ops).live.filter (matchesSub t)).map (·.1)) ∧
    ((runScript ops).reg.dispatch t).Nodup := by
  have h := inv_run ops
  have hp : ((runScript ops).reg.dispatch t).Perm (((specScript ops).live.filter (matchesSub t)).map (·.1)) := by
    rw [dispatch_eq, h.typed, h.all]; exact matches_perm _ _
  refine ⟨hp, hp.nodup_iff.mpr ?_⟩
  exact List.Nodup.sublist (List.Sublist.map _ List.filter_sublist) h.nodup

/-- The same for every event of the script: the model's log of invocations equals the specification's,
event by event, up to the order within one event. -/
theorem dispatch_exact_log (ops : List ROp) : LogsPerm (runScript ops).log (specScript ops).log :=
  log_rel_from ops {} {} inv_init LogsPerm.nil

/-- Removers are idempotent and local, for every registry (reachable or not) and every remover
(current, repeated or stale — e.g. after the same type was subscribed again): calling it twice is
calling it once, and for every event type the callbacks invoked other than the remover's own are
exactly the same as before, in the same order. -/
theorem remover_idempotent_and_local (r : Registry) (rm : Remover) :
    (r.remove rm).remove rm = r.remove rm ∧
    ∀ t, ((r.remove rm).dispatch t).filter (· != rm.id) = (r.dispatch t).filter (· != rm.id) := by
  refine ⟨remove_remove r rm, fun t => ?_⟩
  rw [dispatch_eq, dispatch_eq]
  cases rm with
  | all id => simp [typedIds_remove_all, all_remove_all, Remover.id, List.filter_filter]
  | typed t' id =>
    rw [all_remove_typed]
    by_cases ht : t = t'
    · subst ht; rw [typedIds_remove_typed_same]; simp [Remover.id, List.filter_filter]
    · rw [typedIds_remove_typed_other _ _ _ _ ht]

/-- After an unsubscribe function has returned, its callback is never invoked again, whatever the
script does afterwards (ids are never reused, so nothing can bring it back): once the remover of
subscription `k` was called, `k` is not among the callbacks any later event is passed to. (The second
disjunct only covers scripts that call a remover that does not exist yet.) -/
theorem removed_never_invoked (pre post : List ROp) (k : Nat) (t : Bytes) :
    k ∉ (runScript (pre ++ .unsub k :: post)).reg.dispatch t ∨ (runScript pre).removers[k]? = none := by
  cases hr : (runScript pre).removers[k]? with
  | none => exact Or.inr rfl
  | some rm =>
    left
    intro hmem
    have hp := (dispatch_exact (pre ++ .unsub k :: post) t).1
    have hm := hp.subset hmem
    -- in the specification, `k` is not live after `unsub k`: ids only grow
    have hcount : ∀ (ops : List ROp) (ss : SubState), (∀ a ∈ ss.live, a.1 ≠ k) → k < ss.count →
        ∀ a ∈ (ops.foldl SubState.step ss).live, a.1 ≠ k := by
      intro ops
      induction ops with
      | nil => intro ss h _; exact h
      | cons op ops ih =>
        intro ss h hk
        apply ih
        · cases op with
          | sub ev =>
            intro a ha
            simp only [SubState.step, List.mem_append, List.mem_singleton] at ha
            rcases ha with ha | ha
            · exact h a ha
            · subst ha; simp; omega
          | subAll =>
            intro a ha
            simp only [SubState.step, List.mem_append, List.mem_singleton] at ha
            rcases ha with ha | ha
            · exact h a ha
            · subst ha; simp; omega
          | unsub j => intro a ha; exact h a (List.mem_filter.mp ha).1
          | event typ => exact h
        · cases op <;> simp [SubState.step] <;> omega
    have hinv := inv_run pre
    have hk : k < (specScript pre).count := by
      rw [← hinv.len]
      exact (List.getElem?_eq_some_iff.mp hr).1
    have := hcount post ((specScript pre).step (.unsub k))
      (by intro a ha; simp only [SubState.step] at ha; have := (List.mem_filter.mp ha).2; simpa using this)
      (by simpa [SubState.step] using hk)
    obtain ⟨a, ha, hak⟩ := List.mem_map.mp hm
    have ha' := (List.mem_filter.mp ha).1
    simp only [specScript, List.foldl_append, List.foldl_cons] at ha'
    exact this a ha' hak

/-- Stream order: the `j`-th dispatched event of any script is the `j`-th entry of the log, delivered
to the callbacks registered at that moment; later operations never touch earlier entries. Hence every
callback sees the events it receives in stream order. -/
theorem stream_order (pre post : List ROp) (t : Bytes) :
    ∃ rest, (runScript (pre ++ .event t :: post)).log =
      (runScript pre).log ++ (runScript pre).reg.dispatch t :: rest := by
  simp only [runScript, List.foldl_append, List.foldl_cons]
  obtain ⟨rest, hr⟩ := foldl_step_append post ((List.foldl RegState.step {} pre).step (.event t))
  refine ⟨rest, ?_⟩
  rw [hr]
  simp [RegState.step]

/-- non-vacuity: a stale remover called after the same type was subscribed again removes nothing else -/
example :
    (runScript [.sub [97], .unsub 0, .sub [97], .unsub 0, .subAll, .event [97], .event []]).log = [[1, 2], [2]] := by
  decide

/-! ### The registry as translated from client_connection.go

`Connection.addSubscriber`, `addSubscriberToAll`, the function literals they return (the removers: translated as
definitions over the variables they capture) and `dispatch` are translated from the source on every run
(`Gen/Reset.lean`). A callback is a number, a call through it an entry of the log the connection carries (`cblog`);
the visiting orders of `dispatch`'s two `range` statements are parameters — the theorems hold for **every** order.
A *reader's view* of the registry is `mapGet (typed c ty) k` (the callback registered for type `ty` under id `k`) and
`mapGet c.callbacksAll k`: whether an emptied inner map is dropped or kept makes no difference to it. -/

open GoSSE.GoRT GoSSE.GenEquiv in
/-- **`dispatch` as translated.** For every connection, event and pair of visiting orders the translated `dispatch` does
not fault, leaves the registry alone and appends to the call log exactly: one call per visited id registered for the
event's exact type, then one per visited id registered for all events — every one of them with this event. -/
theorem translated_dispatch (fuel : Nat) (c : Gen.Connection) (ev : Gen.Event) (order order2 : List Int)
    (hf : order.length < fuel) (hf2 : order2.length < fuel) :
    Gen.Connection_dispatch fuel c ev order order2 =
      .ok (logged c (callsOf (typed c ev.Type') order ev ++ callsOf c.callbacksAll order2 ev)) :=
  dispatch_eq fuel c ev order order2 hf hf2

open GoSSE.GoRT GoSSE.GenEquiv in
/-- **… and to no other.** Every call the translated `dispatch` makes carries the dispatched event and goes to a callback
that is registered, at that moment, for the event's exact type or for all events; a duplicate-free order makes exactly
as many calls as it visits registered ids (one each, `callsOf`), so with the orders Go produces — every key once — each
registration is served exactly once. -/
theorem translated_dispatch_only_subscribed (fuel : Nat) (c : Gen.Connection) (ev : Gen.Event) (order order2 : List Int)
    (hf : order.length < fuel) (hf2 : order2.length < fuel) :
    ∃ c', Gen.Connection_dispatch fuel c ev order order2 = .ok c' ∧
      c'.callbacks = c.callbacks ∧ c'.callbacksAll = c.callbacksAll ∧ c'.callbackID = c.callbackID ∧
      ∃ calls, c'.cblog = c.cblog ++ calls ∧
        (∀ x ∈ calls, x.2 = ev ∧
          ((∃ k ∈ order, mapGet (typed c ev.Type') k = some x.1) ∨ (∃ k ∈ order2, mapGet c.callbacksAll k = some x.1))) ∧
        calls.length = (order.filter fun k => (mapGet (typed c ev.Type') k).isSome).length +
                       (order2.filter fun k => (mapGet c.callbacksAll k).isSome).length := by
  refine ⟨_, dispatch_eq fuel c ev order order2 hf hf2, rfl, rfl, rfl, _, rfl, ?_, ?_⟩
  · intro x hx
    rcases List.mem_append.mp hx with h | h
    · have := mem_callsOf _ _ _ _ h
      exact ⟨this.1, Or.inl this.2⟩
    · have := mem_callsOf _ _ _ _ h
      exact ⟨this.1, Or.inr this.2⟩
  · rw [List.length_append, callsOf_length, callsOf_length]

open GoSSE.GoRT GoSSE.GenEquiv in
/-- **Subscribing as translated.** `addSubscriber event cb` does not fault; it hands back `(event, id)` — what the remover
captures — with `id` the counter's value, registers `cb` for `event` under `id`, changes nothing else a reader sees and
advances the counter. While every id in use is below the counter (`Fresh`, kept by every operation) the slot it takes
was free: a subscription never takes over or overwrites another one. -/
theorem translated_subscribe (fuel : Nat) (c : Gen.Connection) (event : Bytes) (cb : Nat) :
    Gen.Connection_addSubscriber fuel c event cb = .ok ((event, c.callbackID), afterSub c event cb) ∧
    mapGet (typed (afterSub c event cb) event) c.callbackID = some cb ∧
    (∀ ty k, ty ≠ event ∨ k ≠ c.callbackID → mapGet (typed (afterSub c event cb) ty) k = mapGet (typed c ty) k) ∧
    (afterSub c event cb).callbacksAll = c.callbacksAll ∧ (afterSub c event cb).cblog = c.cblog ∧
    (Fresh c → Fresh (afterSub c event cb) ∧ mapGet (typed c event) c.callbackID = none) :=
  ⟨addSubscriber_eq fuel c event cb, sub_self c event cb, fun ty k h => sub_other c event cb ty k h, rfl, rfl,
    fun h => ⟨sub_fresh c event cb h, sub_slot_free c event h⟩⟩

open GoSSE.GoRT GoSSE.GenEquiv in
theorem translated_subscribe_to_all (fuel : Nat) (c : Gen.Connection) (cb : Nat) :
    Gen.Connection_addSubscriberToAll fuel c cb = .ok (c.callbackID, afterSubAll c cb) ∧
    mapGet (afterSubAll c cb).callbacksAll c.callbackID = some cb ∧
    (∀ k, k ≠ c.callbackID → mapGet (afterSubAll c cb).callbacksAll k = mapGet c.callbacksAll k) ∧
    (afterSubAll c cb).callbacks = c.callbacks ∧ (afterSubAll c cb).cblog = c.cblog ∧
    (Fresh c → Fresh (afterSubAll c cb) ∧ mapGet c.callbacksAll c.callbackID = none) :=
  ⟨addSubscriberToAll_eq fuel c cb, subAll_self c cb, fun k h => subAll_other c cb k h, rfl, rfl,
    fun h => ⟨subAll_fresh c cb h, subAll_slot_free c h⟩⟩

open GoSSE.GoRT GoSSE.GenEquiv in
/-- **The removers as translated.** The function literal `addSubscriber` returns, run on what it captured, does not fault
and takes exactly its own registration out of a reader's view — whatever the registry looks like by then: every other
type and id reads as before, also when its type's inner map was emptied and dropped, when its type has since been
subscribed to again, and when it has been called before (the reader's view after a second call is that after the first:
calling it repeatedly is harmless and never affects other subscriptions). After it has run, a `dispatch` visits no
registration under its id (`translated_dispatch`: calls come from registered ids only). -/
theorem translated_remover_typed (fuel : Nat) (c : Gen.Connection) (event : Bytes) (id : Int) :
    Gen.Connection_removeFromType fuel c event id = .ok (afterUnsub c event id) ∧
    (∀ ty k, mapGet (typed (afterUnsub c event id) ty) k = if ty = event ∧ k = id then none else mapGet (typed c ty) k) ∧
    (∀ ty k, mapGet (typed (afterUnsub (afterUnsub c event id) event id) ty) k = mapGet (typed (afterUnsub c event id) ty) k) ∧
    (afterUnsub c event id).callbacksAll = c.callbacksAll ∧ (afterUnsub c event id).callbackID = c.callbackID ∧
    (Fresh c → Fresh (afterUnsub c event id)) := by
  refine ⟨removeFromType_eq fuel c event id, fun ty k => unsub_lookup c event id ty k, ?_, rfl, rfl, unsub_fresh c event id⟩
  intro ty k
  rw [unsub_lookup, unsub_lookup]
  by_cases h : ty = event ∧ k = id <;> simp [h]

open GoSSE.GoRT GoSSE.GenEquiv in
theorem translated_remover_all (fuel : Nat) (c : Gen.Connection) (id : Int) :
    Gen.Connection_removeFromAll fuel c id = .ok (afterUnsubAll c id) ∧
    (∀ k, mapGet (afterUnsubAll c id).callbacksAll k = if k = id then none else mapGet c.callbacksAll k) ∧
    (∀ k, mapGet (afterUnsubAll (afterUnsubAll c id) id).callbacksAll k = mapGet (afterUnsubAll c id).callbacksAll k) ∧
    (afterUnsubAll c id).callbacks = c.callbacks ∧ (afterUnsubAll c id).callbackID = c.callbackID ∧
    (Fresh c → Fresh (afterUnsubAll c id)) := by
  refine ⟨removeFromAll_eq fuel c id, fun k => unsubAll_lookup c id k, ?_, rfl, rfl, unsubAll_fresh c id⟩
  intro k
  rw [unsubAll_lookup, unsubAll_lookup]
  by_cases h : k = id <;> simp [h]

open GoSSE.GoRT GoSSE.GenEquiv in
/-- **The property, for the translated source, for every script.** Run any script of subscribe / subscribe-to-all /
remover calls (repeated, stale, of any earlier subscription) / dispatched events through the **translated** functions
(`runM`: `Gen.Connection_addSubscriber`, `…ToAll`, the two translated removers, `Gen.Connection_dispatch`, the callback of
the `k`-th subscribe operation being the number `k`), the two `range` statements of `dispatch` visiting their maps in any
order Go may produce (`Covers`: every key once). Then nothing faults, and

* every dispatched event was handed to a permutation of the specification's live subscriptions matching its type — each
  exactly once, nobody else (`LogsPerm … (specScript ops).log`);
* the registry a reader sees is exactly the specification's list of live subscriptions: the callback of the `j`-th
  subscribe operation sits under id `j` of its own type (or of the all-set) if and only if it is live — so a removed
  callback is in no slot any more (it is never invoked again), a remover that runs twice or after its type was
  subscribed to again touches nothing else, and ids are never reused. -/
theorem translated_scripts_refine_spec (ord : Orders) (hc : Covers ord) (ops : List ROp) :
    ∃ s : GState, runM ord ops GState.init = .ok s ∧
      GoSSE.Proofs.ClientRegistry.LogsPerm s.log (specScript ops).log ∧
      (∀ ty (k : Int) (cb : Nat), mapGet (typed s.conn ty) k = some cb ↔
        ∃ j : Nat, (j, some ty) ∈ (specScript ops).live ∧ k = (j : Int) ∧ cb = j) ∧
      (∀ (k : Int) (cb : Nat), mapGet s.conn.callbacksAll k = some cb ↔
        ∃ j : Nat, (j, none) ∈ (specScript ops).live ∧ k = (j : Int) ∧ cb = j) ∧
      s.conn.callbackID = ((specScript ops).count : Int) := by
  have h := run_refines ord hc ops
  exact ⟨_, runM_eq ord ops GState.init, h.2, h.1.typedSlots, h.1.allSlots, h.1.cnt⟩

/-- … and the hypothesis on the orders is satisfiable: the keys in list order, duplicates dropped -/
theorem covering_orders_exist : GenEquiv.Covers GenEquiv.canonOrders := GenEquiv.covers_canon

/-- non-vacuity of the script theorem: the stale-remover script of the example above, through the translated text with the
canonical orders, produces the specification's log itself -/
example :
    (GenEquiv.runM GenEquiv.canonOrders [.sub [97], .unsub 0, .sub [97], .unsub 0, .subAll, .event [97], .event []]
      GenEquiv.GState.init).map (·.log) = .ok [[1, 2], [2]] := by
  rfl

/-- non-vacuity, through the translated text itself: subscribe 7 to "a", 8 to all, 9 to "a"; unsubscribe the first (twice);
an event of type "a" visited in the order 2, 0, 1 is handed to 9 and then to 8 — and nobody else -/
example :
    let c0 : Gen.Connection := ⟨(), none, [], [], [], (), (), (), 0, false, []⟩
    let ev : Gen.Event := ⟨[], [97], [120]⟩
    (do let r1 ← Gen.Connection_addSubscriber 5 c0 [97] 7
        let r2 ← Gen.Connection_addSubscriberToAll 5 r1.2 8
        let r3 ← Gen.Connection_addSubscriber 5 r2.2 [97] 9
        let c4 ← Gen.Connection_removeFromType 5 r3.2 r1.1.1 r1.1.2
        let c5 ← Gen.Connection_removeFromType 5 c4 r1.1.1 r1.1.2
        let c6 ← Gen.Connection_dispatch 5 c5 ev [2, 0, 1] [2, 1, 0]
        pure (c6.cblog.map (·.1), c6.callbacks, c6.callbacksAll, c6.callbackID) : GoRT.GoM _) =
      .ok ([9, 8], [([97], [(2, 9)])], [(1, 8)], 3) := by
  intro c0 ev
  rfl

end GoSSE.Props.C13
