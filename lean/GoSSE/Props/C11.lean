import GoSSE.Proofs.ClientConnect
import GoSSE.Proofs.ClientRead
/-!
# C11 — Connect returns only for a reason

Model: `Parser.err` precedence and `read`'s final yield (`implRun`, `Model/Parser.lean`), `doConnect`'s
classification with the `errors.Is(err, ctx.Err())` shapes — including `errors.Is(nil, nil) = true` —
and the `Connect` loop over a history of attempt outcomes, cancellation instants and `select` choices
(`Model/Connection.lean`). The fuel-sufficiency argument behind `read_conn_never_nil` is in
`Proofs/ClientRead.lean`.

Reading of "context done ⇒ its error" (recorded in the check's assumptions): the context's error is
returned when the attempt's own error *is* the context's error, or when the cancellation is seen at the
wait; an attempt failing for an independent reason while the context is being cancelled is classified by
its own error.
-/
namespace GoSSE.Props.C11
open GoSSE GoSSE.Spec GoSSE.Spec.Client GoSSE.Model GoSSE.Model.Client GoSSE.Proofs.ClientBackoff GoSSE.Proofs.ClientConnect GoSSE.Proofs.ClientRead

/-- The connection's read never ends without an error: for every byte source (any chunking, any
ending), every starting ID and every buffer configuration, the error yielded at the end is not `nil`. -/
theorem read_conn_never_nil (lastID : Bytes) (src : Source) (cfg : Option (Nat × Int)) :
    (implRun true lastID src cfg none).2.1 ≠ PErr.none :=
  implRun_conn_ne_none lastID src cfg

/-- A single attempt never yields `nil`: the `errors.Is(nil, nil)` shape of `doConnect` is unreachable. -/
theorem attempt_never_nil (cfg : Cfg) (c : Conn) (ctl : Ctl) (a : Attempt) (done : Bool) :
    (doConnect cfg c ctl a done).err ≠ .bare .nil := by
  cases h : (resetRequest c).2 with
  | some e => rw [doConnect_resetFailed cfg c ctl a done e h]; simp
  | none =>
    cases ho : a.out with
    | transport isCtx =>
      rw [doConnect_transport cfg c ctl a done isCtx h ho]
      split <;> cases isCtx <;> simp [trErr]
    | rejected => rw [doConnect_rejected cfg c ctl a done h ho]; simp
    | stream src ic =>
      rw [doConnect_stream cfg c ctl a done src ic h ho]
      have hne := implRun_conn_ne_none (resetRequest c).1.lastEventID src (resetRequest c).1.buf
      simp only []
      split
      · simp only [ne_eq, Res.bare.injEq]
        intro he
        apply hne
        revert he
        cases (implRun true (resetRequest c).1.lastEventID src (resetRequest c).1.buf).2.1 <;> simp [readErr]
        cases ic <;> simp
      · simp

/-- `Connect` never returns `nil`: for every history of attempt outcomes, every cancellation pattern,
every `select` oracle, every configuration, clock and draws. -/
theorem connect_never_nil (cfg : Cfg) (fl : Floats) (h : List Attempt) (c : Conn) (ctl : Ctl) (done : Bool) :
    (connectLoop cfg fl h c ctl done).result ≠ some (.bare .nil) := by
  induction h generalizing c ctl done with
  | nil => simp [connectLoop_nil]
  | cons a rest ih =>
    rw [connectLoop_cons]
    split
    · simp
    · simp only []
      have hn := attempt_never_nil cfg c ctl a done
      split
      · simpa using hn
      · split
        · simpa using hn
        · exact ih _ _ _

/-- The complete table of one attempt (`doConnect`): what is returned, and whether `Connect` goes on.
* body reset fails → `ConnectionError{reset, e}`, stop;
* `Do` fails with the context's error while the context is done → that error as is, stop;
  any other `Do` failure → `ConnectionError{conn, e}`, retry;
* validator rejects → `ConnectionError{validation}`, stop;
* stream: the read error `e` (never `nil`); `e` is the context's error while the context is done → `e` as
  is, stop; otherwise `ConnectionError{lost, e}`, retry. -/
theorem attempt_table (cfg : Cfg) (c : Conn) (ctl : Ctl) (a : Attempt) (done : Bool) :
    let r := doConnect cfg c ctl a done
    let d := done || a.cancelDuring
    (∀ e, (resetRequest c).2 = some e → r.shouldRetry = false ∧ r.err = .wrapped .resetFailed e) ∧
    ((resetRequest c).2 = none →
      (∀ isCtx, a.out = .transport isCtx →
        (isCtx = true ∧ d = true → r.shouldRetry = false ∧ r.err = .bare .ctx) ∧
        (¬ (isCtx = true ∧ d = true) → r.shouldRetry = true ∧ r.err = .wrapped .connFailed (trErr isCtx))) ∧
      (a.out = .rejected → r.shouldRetry = false ∧ r.err = .wrapped .validation .validator) ∧
      (∀ src ic, a.out = .stream src ic →
        strErr (resetRequest c).1 src ic ≠ .nil ∧
        (strErr (resetRequest c).1 src ic = .ctx ∧ d = true → r.shouldRetry = false ∧ r.err = .bare .ctx) ∧
        (¬ (strErr (resetRequest c).1 src ic = .ctx ∧ d = true) →
          r.shouldRetry = true ∧ r.err = .wrapped .lost (strErr (resetRequest c).1 src ic)))) := by
  intro r d
  refine ⟨?_, ?_⟩
  · intro e he
    simp only [r, doConnect_resetFailed cfg c ctl a done e he, and_self]
  · intro hr
    refine ⟨?_, ?_, ?_⟩
    · intro isCtx ho
      simp only [r, doConnect_transport cfg c ctl a done isCtx hr ho]
      cases isCtx <;> cases hd : (done || a.cancelDuring) <;> simp [trErr, errorsIs, ctxErr, d, hd]
    · intro ho
      simp only [r, doConnect_rejected cfg c ctl a done hr ho, and_self]
    · intro src ic ho
      have hne := implRun_conn_ne_none (resetRequest c).1.lastEventID src (resetRequest c).1.buf
      have hnil : strErr (resetRequest c).1 src ic ≠ .nil := by
        unfold strErr
        revert hne
        cases (implRun true (resetRequest c).1.lastEventID src (resetRequest c).1.buf).2.1 <;> simp [readErr]
        cases ic <;> simp
      refine ⟨hnil, ?_⟩
      have hdo := doConnect_stream cfg c ctl a done src ic hr ho
      simp only [] at hdo
      simp only [r, hdo]
      change _ ∧ _
      have hfold : readErr (implRun true (resetRequest c).1.lastEventID src (resetRequest c).1.buf).2.1 ic
          = strErr (resetRequest c).1 src ic := rfl
      rw [hfold]
      cases hd : (done || a.cancelDuring)
      · have : ¬ (strErr (resetRequest c).1 src ic = .nil) := hnil
        simp [errorsIs, ctxErr, d, hd, this]
      · by_cases hc : strErr (resetRequest c).1 src ic = .ctx
        · simp [errorsIs, ctxErr, d, hd, hc]
        · simp [errorsIs, ctxErr, d, hd, hc]

/-- What `Connect` can return, for every history (result table). The result, if the run ends within the
history, is one of:
1. the bare context error — and then the context was cancelled at some instant (before `Connect`, during
   an attempt, in `OnRetry` or during a wait);
2. `ConnectionError{reset, e}` with `e` = `ErrNoGetBody` or `GetBody`'s own error;
3. `ConnectionError{validation, validator's error}`;
4. the last attempt's error `e ≠ nil` wrapped as `ConnectionError{conn | lost, e}` — and then the back-off
   controller refused another retry (retries exhausted or `MaxElapsedTime` would be exceeded). -/
theorem connect_result_table (cfg : Cfg) (fl : Floats) (h : List Attempt) (c : Conn) (ctl : Ctl) (done : Bool) (res : Res)
    (hres : (connectLoop cfg fl h c ctl done).result = some res) :
    (res = .bare .ctx ∧ (done = true ∨ ∃ a ∈ h, a.cancelDuring = true ∨ a.cancelAfter = true)) ∨
    (∃ e, res = .wrapped .resetFailed e ∧ (e = .noGetBody ∨ e = .getBody)) ∨
    res = .wrapped .validation .validator ∨
    (∃ e, (res = .wrapped .connFailed e ∨ res = .wrapped .lost e) ∧ e ≠ .nil ∧
      ∃ ctl' now draw, (Ctl.next cfg fl ctl' now draw).2 = none) := by
  induction h generalizing c ctl done with
  | nil => simp [connectLoop_nil] at hres
  | cons a rest ih =>
    by_cases hsel : (done && !a.timerWins) = true
    · rw [connectLoop_cons] at hres
      simp only [hsel, if_true] at hres
      left
      refine ⟨by simpa using hres.symm, Or.inl ?_⟩
      simp only [Bool.and_eq_true] at hsel; exact hsel.1
    · have hsel' : (done && !a.timerWins) = false := by simpa using hsel
      have tbl := attempt_table cfg c ctl a done
      simp only [] at tbl
      -- a terminal attempt: classify by the table
      have terminal : (doConnect cfg c ctl a done).shouldRetry = false → res = (doConnect cfg c ctl a done).err →
          (res = .bare .ctx ∧ (done = true ∨ ∃ b ∈ a :: rest, b.cancelDuring = true ∨ b.cancelAfter = true)) ∨
          (∃ e, res = .wrapped .resetFailed e ∧ (e = .noGetBody ∨ e = .getBody)) ∨
          res = .wrapped .validation .validator ∨
          (∃ e, (res = .wrapped .connFailed e ∨ res = .wrapped .lost e) ∧ e ≠ .nil ∧
            ∃ ctl' now draw, (Ctl.next cfg fl ctl' now draw).2 = none) := by
        intro hs hr
        cases hrr : (resetRequest c).2 with
        | some e =>
          have := (tbl.1 e hrr).2
          have hc := resetRequest_err_kinds c e hrr
          exact Or.inr (Or.inl ⟨e, by rw [hr, this], hc⟩)
        | none =>
          have t2 := tbl.2 hrr
          cases ho : a.out with
          | transport isCtx =>
            by_cases hcd : isCtx = true ∧ (done || a.cancelDuring) = true
            · have := ((t2.1 isCtx ho).1 hcd).2
              left
              refine ⟨by rw [hr, this], ?_⟩
              have hd := hcd.2
              simp only [Bool.or_eq_true] at hd
              rcases hd with hd | hd
              · exact Or.inl hd
              · exact Or.inr ⟨a, List.mem_cons_self, Or.inl hd⟩
            · have := ((t2.1 isCtx ho).2 hcd).1
              rw [this] at hs; cases hs
          | rejected =>
            have := (t2.2.1 ho).2
            exact Or.inr (Or.inr (Or.inl (by rw [hr, this])))
          | stream src ic =>
            have t3 := t2.2.2 src ic ho
            by_cases hcd : strErr (resetRequest c).1 src ic = .ctx ∧ (done || a.cancelDuring) = true
            · have := ((t3.2.1) hcd).2
              left
              refine ⟨by rw [hr, this], ?_⟩
              have hd := hcd.2
              simp only [Bool.or_eq_true] at hd
              rcases hd with hd | hd
              · exact Or.inl hd
              · exact Or.inr ⟨a, List.mem_cons_self, Or.inl hd⟩
            · have := ((t3.2.2) hcd).1
              rw [this] at hs; cases hs
      -- a retryable attempt whose retry is refused
      have refused : (doConnect cfg c ctl a done).shouldRetry = true → res = (doConnect cfg c ctl a done).err →
          ((doConnect cfg c ctl a done).ctl.next cfg fl a.tNext a.draw).2 = none →
          ∃ e, (res = .wrapped .connFailed e ∨ res = .wrapped .lost e) ∧ e ≠ .nil ∧
            ∃ ctl' now draw, (Ctl.next cfg fl ctl' now draw).2 = none := by
        intro hs hr hn
        have hex : ∃ ctl' now draw, (Ctl.next cfg fl ctl' now draw).2 = none := ⟨_, _, _, hn⟩
        cases hrr : (resetRequest c).2 with
        | some e => have := (tbl.1 e hrr).1; rw [this] at hs; cases hs
        | none =>
          have t2 := tbl.2 hrr
          cases ho : a.out with
          | transport isCtx =>
            by_cases hcd : isCtx = true ∧ (done || a.cancelDuring) = true
            · have := ((t2.1 isCtx ho).1 hcd).1; rw [this] at hs; cases hs
            · have := ((t2.1 isCtx ho).2 hcd).2
              exact ⟨trErr isCtx, Or.inl (by rw [hr, this]), by cases isCtx <;> simp [trErr], hex⟩
          | rejected => have := (t2.2.1 ho).1; rw [this] at hs; cases hs
          | stream src ic =>
            have t3 := t2.2.2 src ic ho
            by_cases hcd : strErr (resetRequest c).1 src ic = .ctx ∧ (done || a.cancelDuring) = true
            · have := ((t3.2.1) hcd).1; rw [this] at hs; cases hs
            · have := ((t3.2.2) hcd).2
              exact ⟨_, Or.inr (by rw [hr, this]), t3.1, hex⟩
      rw [connectLoop_cons] at hres
      simp only [hsel', Bool.false_eq_true, if_false] at hres
      by_cases hs : (doConnect cfg c ctl a done).shouldRetry = true
      · simp only [hs, Bool.not_true, Bool.false_eq_true, if_false] at hres
        split at hres
        · rename_i hn
          exact Or.inr (Or.inr (Or.inr (refused hs (by simpa using hres.symm) hn)))
        · -- the run continues
          have := ih _ _ _ hres
          rcases this with ⟨h1, h2⟩ | h2
          · left
            refine ⟨h1, ?_⟩
            rcases h2 with h2 | ⟨b, hb, h2⟩
            · simp only [Bool.or_eq_true] at h2
              rcases h2 with (h2 | h2) | h2
              · exact Or.inl h2
              · exact Or.inr ⟨a, List.mem_cons_self, Or.inl h2⟩
              · exact Or.inr ⟨a, List.mem_cons_self, Or.inr h2⟩
            · exact Or.inr ⟨b, List.mem_cons_of_mem _ hb, h2⟩
          · exact Or.inr h2
      · have hs' : (doConnect cfg c ctl a done).shouldRetry = false := by simpa using hs
        simp only [hs', Bool.not_false, if_true] at hres
        exact terminal hs' (by simpa using hres.symm)

/-- Permanent errors end `Connect` at once, without a retry: if the validator rejects the response of
an attempt that is made, the run ends with that attempt — result `ConnectionError{validation}`, no
`retry` item after it. -/
theorem rejection_is_immediate (cfg : Cfg) (fl : Floats) (a : Attempt) (rest : List Attempt) (c : Conn) (ctl : Ctl) (done : Bool)
    (hsel : (done && !a.timerWins) = false) (hr : (resetRequest c).2 = none) (ho : a.out = .rejected) :
    (connectLoop cfg fl (a :: rest) c ctl done).result = some (.wrapped .validation .validator) ∧
    (connectLoop cfg fl (a :: rest) c ctl done).trace = [attOf (resetRequest c).1] := by
  rw [connectLoop_cons]
  simp [hsel, doConnect_rejected cfg c ctl a done hr ho]

/-- Cancellation that interrupts a partially received line is reported as the context's error: if the
body reader ends with the context's error (the reader's error is the context's, the context is done),
then — whatever bytes were received, also in mid-line, unless the token limit was hit first — the
attempt ends `Connect` with the bare context error. -/
theorem cancel_midline_is_ctx (cfg : Cfg) (fl : Floats) (a : Attempt) (rest : List Attempt) (c : Conn) (ctl : Ctl) (done : Bool)
    (src : Source) (hsel : (done && !a.timerWins) = false) (hr : (resetRequest c).2 = none)
    (ho : a.out = .stream src true) (hend : src.endErr = true) (hd : (done || a.cancelDuring) = true)
    (hlim : (implRun true (resetRequest c).1.lastEventID src (resetRequest c).1.buf).2.1 ≠ .tooLong) :
    (connectLoop cfg fl (a :: rest) c ctl done).result = some (.bare .ctx) := by
  have hre := implRun_read_error true (resetRequest c).1.lastEventID src (resetRequest c).1.buf hend
  have hread : (implRun true (resetRequest c).1.lastEventID src (resetRequest c).1.buf).2.1 = .read := by
    rcases hre with h | h
    · exact h
    · exact absurd h hlim
  rw [connectLoop_cons]
  simp [hsel, doConnect_stream cfg c ctl a done src true hr ho, hread, readErr, errorsIs, ctxErr, hd]

/-- A read error is reported as itself, by `Read` and by `Connect`'s reader: if the byte source ends
with an error, the error yielded is that read error (or `ErrTooLong`, if the token limit was hit
before) — never `ErrUnexpectedEOF`, never `io.EOF`, never nothing. -/
theorem read_error_reported_as_itself (conn : Bool) (lastID : Bytes) (src : Source) (cfg : Option (Nat × Int))
    (h : src.endErr = true) :
    (implRun conn lastID src cfg none).2.1 = .read ∨ (implRun conn lastID src cfg none).2.1 = .tooLong :=
  implRun_read_error conn lastID src cfg h

/-- `ErrUnexpectedEOF` is reported only when the stream really ended cleanly in mid-line.
Model: it is only reported when the byte source ended with `io.EOF`. Specification: `Spec.run` reports it
iff the source ended cleanly and the last line is unterminated (the tie between `implRun` and `Spec.run`
on end conditions is C01). -/
theorem ueof_iff_clean_midline :
    (∀ (conn : Bool) (lastID : Bytes) (src : Source) (cfg : Option (Nat × Int)),
      (implRun conn lastID src cfg none).2.1 = .unexpectedEOF → src.endErr = false) ∧
    (∀ (m : Mode) (conn : Bool) (lastID s : Bytes) (ek : EndKind),
      (run m conn lastID s ek).2 = .unexpectedEOF ↔ (ek = .eof ∧ (splitLines (stripBOM s) [] false).2 ≠ [])) := by
  refine ⟨implRun_ueof_clean, ?_⟩
  intro m conn lastID s ek
  unfold run
  cases ek with
  | err => simp
  | eof =>
    simp only [true_and]
    by_cases h : (splitLines (stripBOM s) [] false).2 = []
    · simp [h]; split <;> simp
    · simp [h]

/-- non-vacuity: a body of just "\n" — `Connect` retries (the fixed defect: it used to return `nil`) -/
example :
    (connect { initialInterval := 5 } (exactFloats 1 1 0 1)
      { req := { header := none, body := .none, getBody := .absent } } 0 false
      [{ out := .stream { chunks := [[10]], endErr := false } false }]).trace.length = 3 := by
  decide

end GoSSE.Props.C11
