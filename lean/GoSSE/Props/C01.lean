import GoSSE.Proofs.Lines
/-!
# C01 — event-stream interpretation conforms to the WHATWG algorithm

Property theorems only; helper lemmas live in `GoSSE/Proofs`.
-/
namespace GoSSE.Props.C01
open GoSSE GoSSE.Spec GoSSE.Model GoSSE.Proofs

/-- go-sse's line discipline (`NewlineIndex` + `NextChunk`, iterated as `FieldParser.Next`
does) produces exactly the lines, and the unterminated rest, that the WHATWG byte-at-a-time
splitter produces — for every byte string. -/
theorem lines_conform (s : Bytes) : chunks (s.length + 1) s = splitLines s [] false :=
  chunks_eq_splitLines _ s (by omega)

/-- non-vacuity: a CRLF/CR/LF mix -/
example : chunks 100 [100, 13, 10, 101, 13, 102, 10, 103] = ([[100], [101], [102]], [103]) := by decide

end GoSSE.Props.C01
