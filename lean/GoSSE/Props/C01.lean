import GoSSE.Proofs.GenEquiv
import GoSSE.Proofs.GenEquivEvent
import GoSSE.Proofs.Lines
import GoSSE.Proofs.ParserRun
import GoSSE.Proofs.ParserStop
import GoSSE.Proofs.ParserToken
/-!
# C01 — event-stream interpretation conforms to the WHATWG algorithm

Property theorems only; helper lemmas live in `GoSSE/Proofs`.
-/
namespace GoSSE.Props.C01
open GoSSE GoSSE.Spec GoSSE.Model GoSSE.Proofs

/-- go-sse's line discipline (`NewlineIndex` + `NextChunk`, iterated as `FieldParser.Next`
does) produces exactly the lines, and the unterminated rest, that the WHATWG byte-at-a-time
splitter produces — for every byte string. -/
theorem lines_conform (s : Bytes) : chunks (s.length + 1) s = splitLines s [] false :=
  chunks_eq_splitLines _ s (by omega)

/-- non-vacuity: a CRLF/CR/LF mix -/
example : chunks 100 [100, 13, 10, 101, 13, 102, 10, 103] = ([[100], [101], [102]], [103]) := by decide

/-- One line: `scanSegment` followed by one iteration of the `switch` in `read()` does to the
interpreter state exactly what the specification's `procLine` does — for every byte string
`l`, both entry points. (`CleanInv`: `read()` clears `typ` and `sb` whenever it clears `dirty`.) -/
theorem line_conforms (conn : Bool) (st : RState) (l : Bytes) (h : CleanInv st) :
    procLine .gosse conn (toI st) l = (toI (lineStep conn st l).1, (lineStep conn st l).2) ∧
    CleanInv (lineStep conn st l).1 :=
  lineStep_conforms conn st l h

/-- non-vacuity of `CleanInv`: the initial state of `read()` -/
example (lastID : Bytes) : CleanInv { lastID := lastID } := by simp [CleanInv]

/-- One token: draining the `FieldParser` over a token (`drainFP` = the loop of `read()`
restricted to one `Reset`) interprets exactly the lines the specification's splitter finds in it,
and `FieldParser.Err` is set iff the token ends in an unterminated line. -/
theorem token_fields_conform (conn : Bool) (tok : Bytes) (st : RState) (h : CleanInv st) :
    let r := drainFP conn (tok.length + 1) { data := tok } st []
    let sp := splitLines tok [] false
    interp .gosse conn (toI st) sp.1 = (toI r.2.1, r.2.2) ∧ r.1.err = !sp.2.isEmpty :=
  token_fields conn tok st h

/-- One `splitFunc` step before the end of the input: if it returns `(adv, tok)`, then running
the specification over the `adv` consumed bytes (skipped blank lines included) from an event
boundary — whether or not an LF is still to be swallowed (`sk`) — gives what `read()` makes of
`tok`, leaves no partial line, and ends at an event boundary again, without `ErrUnexpectedEOF`. -/
theorem token_step_conforms (conn : Bool) (data : Bytes) (adv : Nat) (tok : Bytes) (st : RState) (sk : Bool)
    (hsplit : splitFunc data false = (adv, some tok)) (h : CleanInv st) (hb : Boundary (toI st)) :
    let r := drainFP conn (tok.length + 1) { data := tok } st []
    let sp := splitLines (data.take adv) [] sk
    interp .gosse conn (toI st) sp.1 = (toI r.2.1, r.2.2) ∧ sp.2 = [] ∧
    Boundary (toI r.2.1) ∧ r.1.err = false ∧ adv ≤ data.length :=
  token_step conn data adv tok st sk hsplit h hb

/-- non-vacuity: a buffer "\n\rdata:x\r\n\rid" holds the token "data:x\r\n\r" after two blank-line bytes -/
example : splitFunc [10, 13, 100, 97, 116, 97, 58, 120, 13, 10, 13, 105, 100] false =
    (11, some [100, 97, 116, 97, 58, 120, 13, 10, 13]) ∧
    Boundary (toI { lastID := [] }) ∧ CleanInv { lastID := [] } := by
  refine ⟨by decide, by simp [Boundary, toI], by simp [CleanInv]⟩

/-- **Refinement.** For every source (every chunking of every byte string, both end kinds,
error delivered with the last bytes or not), both entry points, every scanner configuration
and every initial last-event ID: either the run ends in `bufio.ErrTooLong` and what was yielded
until then is a prefix of what the WHATWG specification prescribes, or events, retry reports and
the final error are exactly those of the specification. (The `io.Reader` contract "no empty
reads" is not needed by the model.) -/
theorem read_conforms_or_toolong (conn : Bool) (lastID : Bytes) (src : Source) (cfg : Option (Nat × Int)) :
    let r := implRun conn lastID src cfg none
    let sp := Spec.run .gosse conn lastID src.chunks.flatten (if src.endErr then .err else .eof)
    (r.2.1 = PErr.tooLong ∧ r.1 <+: sp.1) ∨ (r.1 = sp.1 ∧ r.2.1 = endErr conn sp.2) :=
  implRun_conforms conn lastID src cfg

/-- How the bytes are cut into reads does not matter (as long as no run hits the scanner's
token limit): same bytes, same end kind ⇒ same events, retries and error. -/
theorem segmentation_independent (conn : Bool) (lastID : Bytes) (src₁ src₂ : Source)
    (cfg₁ cfg₂ : Option (Nat × Int))
    (hbytes : src₁.chunks.flatten = src₂.chunks.flatten) (hend : src₁.endErr = src₂.endErr)
    (h₁ : (implRun conn lastID src₁ cfg₁ none).2.1 ≠ PErr.tooLong)
    (h₂ : (implRun conn lastID src₂ cfg₂ none).2.1 ≠ PErr.tooLong) :
    (implRun conn lastID src₁ cfg₁ none).1 = (implRun conn lastID src₂ cfg₂ none).1 ∧
    (implRun conn lastID src₁ cfg₁ none).2.1 = (implRun conn lastID src₂ cfg₂ none).2.1 := by
  have a₁ := implRun_conforms conn lastID src₁ cfg₁
  have a₂ := implRun_conforms conn lastID src₂ cfg₂
  simp only at a₁ a₂
  rw [hbytes, hend] at a₁
  rcases a₁ with ⟨e, _⟩ | ⟨o₁, e₁⟩
  · exact absurd e h₁
  rcases a₂ with ⟨e, _⟩ | ⟨o₂, e₂⟩
  · exact absurd e h₂
  exact ⟨o₁.trans o₂.symm, e₁.trans e₂.symm⟩

/-- non-vacuity: the same stream whole and byte-pair-wise -/
example : (implRun true [] { chunks := [[100, 97, 116, 97, 58, 120, 10, 10]], endErr := false } none none).2.1 ≠ PErr.tooLong ∧
    (implRun true [] { chunks := [[100, 97], [116, 97], [58, 120], [10, 10]], endErr := false } none none).2.1 ≠ PErr.tooLong := by
  decide

/-- A consumer that returns `false` from its `k`-th event yield sees exactly the first `k`
event yields of the full run (with the retries reported before the `k`-th event); if the run
was cut no error is yielded; if the full run has fewer than `k` events nothing changes. -/
theorem early_stop_is_prefix (conn : Bool) (lastID : Bytes) (src : Source) (cfg : Option (Nat × Int))
    (k : Nat) (hk : 1 ≤ k) :
    let r := implRun conn lastID src cfg none
    let rk := implRun conn lastID src cfg (some k)
    rk.1 = takeEvents k r.1 ∧
    (k ≤ countEvents r.1 → rk.2.1 = PErr.none) ∧
    (countEvents r.1 < k → rk = r) :=
  implRun_early_stop conn lastID src cfg k hk


/-! ### The translated source text (regenerated from /repo on every run)

`NewlineIndex`, `NextChunk`, `trimFirstSpace`, `getFieldName` and the methods of `FieldParser` *as translated from
chunk.go, field.go and field_parser.go* compute exactly the functions of the model the theorems above are about,
and never panic. -/

theorem translated_NewlineIndex_is_model (fuel : Nat) (s : Bytes) (hf : s.length < fuel) :
    Gen.NewlineIndex fuel s = .ok (((newlineIndex s).1 : Int), ((newlineIndex s).2 : Int)) :=
  GenEquiv.NewlineIndex_eq fuel s hf

theorem translated_NextChunk_is_model (fuel : Nat) (s : Bytes) (hf : s.length < fuel) :
    Gen.NextChunk fuel s = .ok (nextChunk s) :=
  GenEquiv.NextChunk_eq fuel s hf

theorem translated_scanSegment_is_model (fuel : Nat) (f : Gen.FieldParser) (chunk : Bytes) (out : Gen.Field) :
    Gen.FieldParser_scanSegment fuel f chunk out =
      .ok (match scanSegment f.keepComments chunk with
           | some fld => (true, f, GenEquiv.fieldOf fld)
           | none => (false, f, out)) :=
  GenEquiv.scanSegment_eq fuel f chunk out

/-- `FieldParser.Next`: same result, same field, same state (`absFP` reads the translated struct as the model's) -/
theorem translated_FieldParser_Next_is_model (fuel : Nat) (f : Gen.FieldParser) (out : Gen.Field)
    (hf : f.data.length + 1 < fuel) :
    ∃ f' out' ok, Gen.FieldParser_Next fuel f out = .ok (ok, f', out') ∧
      GenEquiv.absFP f' = (FP.next (f.data.length + 1) (GenEquiv.absFP f)).2 ∧
      (match (FP.next (f.data.length + 1) (GenEquiv.absFP f)).1 with
       | some fld => ok = true ∧ out' = GenEquiv.fieldOf fld
       | none => ok = false ∧ out' = out) :=
  GenEquiv.Next_eq fuel f out hf

theorem translated_FieldParser_Reset_is_model (fuel : Nat) (f : Gen.FieldParser) (data : Bytes) :
    ∃ f', Gen.FieldParser_Reset fuel f data = .ok f' ∧ GenEquiv.absFP f' = (GenEquiv.absFP f).reset data ∧ f'.err = none :=
  GenEquiv.Reset_eq fuel f data

theorem translated_FieldParser_RemoveBOM_is_model (fuel : Nat) (f : Gen.FieldParser) (b : Bool) :
    ∃ f', Gen.FieldParser_RemoveBOM fuel f b = .ok f' ∧ GenEquiv.absFP f' = (GenEquiv.absFP f).setRemoveBOM b ∧
      f'.err = f.err :=
  GenEquiv.RemoveBOM_eq fuel f b

/-- non-vacuity: the translated `NextChunk` on "ab\r\ncd" -/
example : Gen.NextChunk 8 [97, 98, 13, 10, 99, 100] = .ok ([97, 98], [99, 100], true) := by rfl


/-! #### The interpreter: event.go's `read` as translated

`GoSSE/Gen/Event.lean` holds `read` — the iterator both `sse.Read` and the client's connection are built on — as
translated from event.go: the `for p.Next(&f)` loop, the `switch` over the field names (data buffer, event type, the
NUL check of ids, the digits-only and `ParseInt` checks of `retry`, dispatch on the blank line through the local
function literal `doYield`), and what happens at the end of the stream (the pending event is dispatched only at a
clean EOF; `Read` swallows EOF, a connection reports it). `parser.Parser` is not translated (`parser.New` installs a
split function that writes to the parser from inside `bufio.Scanner.Scan`): `read` takes its fields from an interface
(`GoRT.ParserI`), instantiated here with the hand-written model of the parser (`parserI`), whose pieces — `splitFunc`,
`bufio.Scanner.Scan`, `FieldParser.Next` — are themselves proved equal to the translated source above. The consumer
records what it is given and stops at its `k`-th event (`yieldOf`), a connection's `onRetry` records the value. -/

theorem translated_read_is_model (conn : Bool) (stopAt : Option Nat) (lastID : Bytes) (src : Source) (cfg : Option (Nat × Int))
    (fuel : Nat) (hs : stopped stopAt [] = false) (hF : src.size + 4 < fuel) :
    Gen.read fuel (pure (GenEquiv.parserI { sc := mkScanner src cfg })) lastID (GenEquiv.onRetryOf conn) (!conn)
        (GenEquiv.yieldOf stopAt) {} =
      .ok { outs := (implRun conn lastID src cfg stopAt).1, err := GenEquiv.perrStr (implRun conn lastID src cfg stopAt).2.1 } := by
  have hinv := ClientRead.mkScanner_inv src cfg
  have hM : ClientRead.M3 ({ sc := mkScanner src cfg } : Parser) + 1 ≤ src.size + 4 := by
    simp only [ClientRead.M3, ClientRead.M, hinv.2.1, hinv.2.2]
    simp
  rw [GenEquiv.read_eq conn stopAt lastID { sc := mkScanner src cfg } (src.size + 4) fuel hinv.1 hM hF hs]
  have h := GenEquiv.implRun_runFrom conn lastID src cfg stopAt
  rw [← h]

/-- … hence, with `read_conforms_or_toolong`: what the translated `read` hands a consumer that never stops is the
WHATWG specification's output, unless the run ends in `bufio.ErrTooLong` (then a prefix of it). -/
theorem translated_read_conforms (conn : Bool) (lastID : Bytes) (src : Source) (cfg : Option (Nat × Int)) (fuel : Nat)
    (hF : src.size + 4 < fuel) :
    ∃ c : GenEquiv.Cons,
      Gen.read fuel (pure (GenEquiv.parserI { sc := mkScanner src cfg })) lastID (GenEquiv.onRetryOf conn) (!conn)
        (GenEquiv.yieldOf none) {} = .ok c ∧
      let sp := Spec.run .gosse conn lastID src.chunks.flatten (if src.endErr then .err else .eof)
      ((c.err = some "TOOLONG" ∧ c.outs <+: sp.1) ∨ (c.outs = sp.1 ∧ c.err = GenEquiv.perrStr (endErr conn sp.2))) := by
  refine ⟨_, translated_read_is_model conn none lastID src cfg fuel rfl hF, ?_⟩
  have h := read_conforms_or_toolong conn lastID src cfg
  simp only at h ⊢
  rcases h with ⟨h1, h2⟩ | ⟨h1, h2⟩
  · left; exact ⟨by rw [h1]; rfl, h2⟩
  · right; exact ⟨h1, by rw [h2]⟩

end GoSSE.Props.C01
