import GoSSE.Proofs.MessageRoundTrip
import GoSSE.Proofs.GenEquivWrite
import GoSSE.Proofs.GenEquivEncode
import GoSSE.Proofs.GenEquivUnmarshal
import GoSSE.Props.C02
/-!
# C15 — message text round trip and exact byte accounting

`Writer σ ε` is an arbitrary `io.Writer` (a state machine); `Writer.Obeys` is the `io.Writer`
contract; the ghost `log` of a `WriteTo` run lists the `Write` calls made (argument, count
accepted, error returned); `accepted log` are the bytes the writer took, in order.
-/
namespace GoSSE.Props.C15
open GoSSE GoSSE.Spec GoSSE.Model GoSSE.Proofs

/-- Under the writer contract `WriteTo` is exactly "perform the `Write` calls `writes m` in order
and stop at the first error" — for every writer, every state, every message with an `int64` Retry. -/
theorem writeTo_is_writeAll {σ ε : Type} (w : Writer σ ε) (hw : w.Obeys) (st : σ) (m : Message)
    (hm : m.retry ≤ (maxInt64 : Int)) :
    m.writeTo w st = writeAll w { n := 0, err := none, st := st, log := [] } m.writes :=
  writeTo_eq_writeAll w hw st m (retryOK_of_le m hm)

/-- Accounting. For every writer obeying the `io.Writer` contract — in particular one that fails
or short-writes at any call — `WriteTo`
* returns as `n` exactly the number of bytes the writer accepted,
* has written a prefix of the full encoding, the whole of it when it returns no error,
* made an initial segment of the encoding's `Write` calls, all of them when there is no error,
* returns the error of the last call it made, every earlier call having succeeded in full
  (so it stops at the first error and returns that error),
* never panics. -/
theorem writeTo_accounting {σ ε : Type} (w : Writer σ ε) (hw : w.Obeys) (st : σ) (m : Message)
    (hm : m.retry ≤ (maxInt64 : Int)) :
    let r := m.writeTo w st
    r.n = (accepted r.log).length ∧
    accepted r.log <+: m.encode ∧
    (r.err = none → accepted r.log = m.encode) ∧
    r.log.map (·.1) <+: m.writes ∧
    (r.err = none → r.log.map (·.1) = m.writes) ∧
    r.err = lastErr r.log ∧
    (∀ c ∈ r.log.dropLast, c.2.2 = none ∧ c.2.1 = c.1.length) ∧
    r.panic = false := by
  have hok := retryOK_of_le m hm
  have h := r0_acc w hw st m.writes
  have hp : (m.writeTo w st).panic = false := by
    rw [writeTo_eq_writeAll w hw st m hok, writeAll_panic]; rfl
  rw [← writeTo_eq_writeAll w hw st m hok] at h
  exact ⟨h.count, h.bytes, fun he => (h.complete he).2, h.calls, fun he => (h.complete he).1, h.err_last, h.earlier, hp⟩

/-- "… equal iff no error": for writers that report an error only together with a short write,
the accepted bytes are the whole encoding exactly when `WriteTo` returns no error. (A writer may
also take all of the last `Write` and still return an error; then everything was written and the
error is returned — covered by `writeTo_accounting`.) -/
theorem complete_iff_no_error {σ ε : Type} (w : Writer σ ε) (hw : w.Obeys)
    (hstrict : ∀ st p, (w.write st p).2.1 ≠ none → (w.write st p).1 < p.length)
    (st : σ) (m : Message) (hm : m.retry ≤ (maxInt64 : Int)) :
    accepted (m.writeTo w st).log = m.encode ↔ (m.writeTo w st).err = none := by
  have hok := retryOK_of_le m hm
  have h := r0_acc w hw st m.writes
  rw [← writeTo_eq_writeAll w hw st m hok] at h
  constructor
  · intro heq
    cases he : (m.writeTo w st).err with
    | none => rfl
    | some e =>
      exfalso
      obtain ⟨c, hc, hlen⟩ := h.short (by simp [he])
      have hce : c.2.2 = some e := by
        have := h.err_last; rw [he] at this; simp [lastErr, hc] at this; exact this.symm
      -- the failing call is a logged call of `w`, hence short
      have hlog := writeAll_log_faithful w (r0 st) m.writes (by intro c hc; simp [r0] at hc)
      rw [← writeTo_eq_writeAll w hw st m hok] at hlog
      obtain ⟨s, hs1, hs2⟩ := hlog c (List.mem_of_getLast? hc)
      have := hstrict s c.1 (by rw [← hs2, hce]; simp)
      rw [← hs1] at this
      have hl : (accepted (m.writeTo w st).log).length = m.encode.length := by rw [heq]
      unfold Message.encode at hl
      omega
  · exact fun he => (h.complete he).2

/-- `WriteTo` (into a buffer), `MarshalText` and `String` produce identical bytes — the encoding —
and `WriteTo` reports their number and no error. -/
theorem three_encoders_agree (m : Message) (hm : m.retry ≤ (maxInt64 : Int)) :
    (m.writeTo bufWriter []).st = m.encode ∧ m.marshalText = m.encode ∧ m.string = m.encode ∧
    (m.writeTo bufWriter []).n = m.encode.length ∧ (m.writeTo bufWriter []).err = none := by
  have e := writeTo_eq_writeAll bufWriter bufWriter_obeys [] m (retryOK_of_le m hm)
  have b := buf_writeAll (r0 []) m.writes rfl
  simp only [Message.marshalText, Message.string, e]
  simp only [r0, List.nil_append, Nat.zero_add] at b
  exact ⟨b.1, b.1, b.1, b.2.2, b.2.1⟩

/-- a message with nothing to write makes no `Write` call at all, on any writer, and returns `(0, nil)` -/
theorem nothing_to_write_writes_nothing {σ ε : Type} (w : Writer σ ε) (st : σ) (m : Message) (h : hasField m = false) :
    m.encode = [] ∧ (m.writeTo w st).log = [] ∧ (m.writeTo w st).n = 0 ∧ (m.writeTo w st).err = none := by
  simp only [hasField, Bool.or_eq_false_iff, Bool.not_eq_false', decide_eq_false_iff_not, List.isEmpty_iff] at h
  obtain ⟨⟨⟨h1, h2⟩, h3⟩, h4⟩ := h
  have hb : m.bodyWrites = [] := by
    unfold Message.bodyWrites
    have : m.millis ≤ 0 := by omega
    simp [h1, h2, h4, this]
  have hok : RetryOK m := Or.inl (by omega)
  rw [writeTo_body w st m hok]
  simp [Message.encode, Message.writes, hb, writeAll, r0]

/-- … and a message with at least one field writes something -/
theorem has_field_writes_something (m : Message) (h : hasField m = true) : m.encode ≠ [] := by
  rw [encode_eq]
  intro he
  have : (msgLines m) = [] := by
    cases hl : msgLines m with
    | nil => rfl
    | cons l ls => rw [hl] at he; simp [term] at he
  unfold msgLines at this
  split at this
  · rename_i hl
    unfold lines at hl
    simp only [hasField, Bool.or_eq_true, decide_eq_true_eq, Bool.not_eq_true', List.isEmpty_eq_false_iff] at h
    rcases h with ((h | h) | h) | h
    · simp [h] at hl
    · simp [h] at hl
    · have : ¬ m.millis ≤ 0 := by omega
      simp [this] at hl
    · cases hc : m.chunks with
      | nil => exact absurd hc h
      | cons c cs => simp [hc] at hl
  · simp at this

/-- Round trip. For every message built through the public API that has at least one field and
whose ID (if set) has no NUL: `UnmarshalText(MarshalText(m))` succeeds and reproduces the same ID,
type, ordered data and comment lines, and the retry value to the millisecond (`normalise`). -/
theorem unmarshal_marshal (ops : List BuildOp) (hv : ∀ op ∈ ops, BuildOp.Valid op)
    (hf : hasField (build ops) = true) (hnul : (build ops).id.set = true → (build ops).id.value.contains 0 = false) :
    Message.unmarshalText (build ops).marshalText = (normalise (build ops), .nil) := by
  have hm := wf_build ops hv
  have hr := build_retry_le ops hv
  rw [(three_encoders_agree _ hr).2.1]
  exact unmarshal_encode (build ops) hm (canon_build ops) hr hf hnul

example : Message.unmarshalText (build [.setID [49], .appendData [[97, 10, 98]], .appendComment [[99]], .setRetry 1999999]).marshalText =
    ({ id := { value := [49], set := true }, chunks := [⟨[97], false⟩, ⟨[98], false⟩, ⟨[99], true⟩], retry := 1000000 }, .nil) := by
  decide


/-! ### The translated source text (regenerated from /repo on every run) -/

/-- `Message.WriteTo` *as translated from message.go* — `writeID`, `writeType`, `writeRetry` with its 13-byte digit
buffer, the chunk loop, `chunk.WriteTo`, `writeMessageField`, `writeString`, every `n += m; if err != nil { return }`
— returns, for **every** writer (any state machine), message and starting state, exactly the count and the error of
the model's `writeTo` and leaves the writer in the model's state; it panics exactly when the model does. The
accounting theorem above (`writeTo_accounting`: count = bytes accepted, accepted bytes a prefix of the encoding, the
first error returned) is therefore a statement about the source text. -/
theorem translated_WriteTo_is_model {σ : Type} (fuel : Nat) (w : Writer σ String) (st : σ) (m : Message)
    (hf : 13 < fuel) (hc : m.chunks.length < fuel) :
    Gen.Message_WriteTo fuel (GenEquiv.toGenMsg m) (GenEquiv.toGenW w st) =
      GenEquiv.okOrPanic w (m.writeTo w st) (GenEquiv.toGenMsg m) :=
  GenEquiv.WriteTo_eq fuel w st m hf hc

/-- … and for a `time.Duration` retry value it does not panic: the translated code returns normally -/
theorem translated_WriteTo_returns {σ : Type} (fuel : Nat) (w : Writer σ String) (st : σ) (m : Message)
    (hf : 13 < fuel) (hc : m.chunks.length < fuel) (hm : m.retry ≤ (maxInt64 : Int)) :
    Gen.Message_WriteTo fuel (GenEquiv.toGenMsg m) (GenEquiv.toGenW w st) =
      .ok (((m.writeTo w st).n : Int), (m.writeTo w st).err, GenEquiv.toGenMsg m, GenEquiv.toGenW w (m.writeTo w st).st) := by
  rw [GenEquiv.WriteTo_eq fuel w st m hf hc]
  unfold GenEquiv.okOrPanic GenEquiv.okOf
  rw [GoSSE.Props.C02.writeTo_never_panics w st m hm]
  rfl


/-- `Message.MarshalText` and `Message.String` *as translated from message.go* — each a `WriteTo` into a
`bytes.Buffer` / `strings.Builder` (the bytes written so far; as an `io.Writer`, the writer that appends and never
fails) — return, for every message with a `time.Duration` retry value, exactly the model's encoding, `MarshalText`
with a nil error, and leave the message as it was: the three ways of encoding agree on the source text. -/
theorem translated_MarshalText_is_encode (fuel : Nat) (m : Message) (hf : 13 < fuel) (hc : m.chunks.length < fuel)
    (hm : m.retry ≤ (maxInt64 : Int)) :
    Gen.Message_MarshalText fuel (GenEquiv.toGenMsg m) = .ok (m.encode, none, GenEquiv.toGenMsg m) :=
  GenEquiv.MarshalText_eq fuel m hf hc hm

theorem translated_String_is_encode (fuel : Nat) (m : Message) (hf : 13 < fuel) (hc : m.chunks.length < fuel)
    (hm : m.retry ≤ (maxInt64 : Int)) :
    Gen.Message_String fuel (GenEquiv.toGenMsg m) = .ok (m.encode, GenEquiv.toGenMsg m) :=
  GenEquiv.MessageString_eq fuel m hf hc hm


/-- `Message.UnmarshalText` *as translated from message.go* — `reset`, the field-parser loop with its `switch` (a
`break` that leaves the switch, the labelled `break loop`), the retry checks (first non-digit, `strconv.ParseInt`,
the `int64` multiplication by `time.Millisecond` with wrap-around), the final emptiness test — returns, for **every**
text and whatever the receiver held before, the model's receiver and the model's error class; it does not panic
and its loop ends. -/
theorem translated_UnmarshalText_is_model (fuel : Nat) (e : Gen.Message) (p : Bytes) (hf : p.length + 2 < fuel) :
    Gen.Message_UnmarshalText fuel e p =
      .ok (GenEquiv.uErrStr (Message.unmarshalText p).2, GenEquiv.toGenMsg (Message.unmarshalText p).1) :=
  GenEquiv.Message_UnmarshalText_eq fuel e p hf

/-- The round trip, on the translated decoding side: for every message built through the public API with at least
one field and no NUL in its ID, the translated `UnmarshalText` applied to the model's `MarshalText` (which the
translated `WriteTo` is proved to produce, `translated_WriteTo_is_model`) returns no error and the normalised
message. -/
theorem translated_unmarshal_marshal (fuel : Nat) (e : Gen.Message) (ops : List BuildOp) (hv : ∀ op ∈ ops, BuildOp.Valid op)
    (hf : hasField (build ops) = true) (hnul : (build ops).id.set = true → (build ops).id.value.contains 0 = false)
    (hfuel : (build ops).marshalText.length + 2 < fuel) :
    Gen.Message_UnmarshalText fuel e (build ops).marshalText = .ok (none, GenEquiv.toGenMsg (normalise (build ops))) := by
  rw [GenEquiv.Message_UnmarshalText_eq fuel e _ hfuel, unmarshal_marshal ops hv hf hnul]
  rfl

example : Gen.Message_UnmarshalText 40 default [105, 100, 58, 32, 55, 10, 100, 97, 116, 97, 58, 32, 120, 10, 10] =
    .ok (none, { chunks := [{ content := [120], isComment := false }], ID := { messageField := { value := [55], set := true } },
                 Type' := { messageField := { value := [], set := false } }, Retry := 0 }) := by
  rfl

end GoSSE.Props.C15
