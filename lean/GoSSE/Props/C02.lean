import GoSSE.Proofs.MessageBuild
import GoSSE.Proofs.GenEquivFields
import GoSSE.Props.C01
/-!
# C02 — encoded messages decode to exactly what was appended (no injection)

`build ops` is the model's `Message` after the public-API calls `ops` (`AppendData`,
`AppendComment`, `m.ID, _ = NewID(v)`, `m.Type, _ = NewType(v)`, `m.Retry = d`); `describe ops`
is the specification's reading of the same calls (lines by the WHATWG splitter `splitLines`);
`Spec.run` is the WHATWG interpreter on bytes; `expected` lists the events a client must see.
`BuildOp.Valid` only says that a `Retry` value is an `int64`.
Property theorems only; helper lemmas live in `GoSSE/Proofs/Message*.lean`.
-/
namespace GoSSE.Props.C02
open GoSSE GoSSE.Spec GoSSE.Model GoSSE.Proofs

/-- `appendText` adds, for every string, exactly the lines the WHATWG splitter finds in it
(CR, LF and CRLF each end a line; a non-empty unterminated tail is a line), in order. -/
theorem appendText_lines (m : Message) (isComment : Bool) (strs : List Bytes) :
    (m.appendText isComment strs).chunks = m.chunks ++ (strs.flatMap linesOf).map (fun l => ⟨l, isComment⟩) :=
  appendText_chunks m isComment strs

example : (({} : Message).appendData [[97, 13, 10, 98, 13, 99, 10, 10, 100]]).chunks =
    [⟨[97], false⟩, ⟨[98], false⟩, ⟨[99], false⟩, ⟨[], false⟩, ⟨[100], false⟩] := by decide

/-- every chunk `appendText` creates is a single line: it contains neither CR nor LF -/
theorem appended_chunks_single_line (s : Bytes) : ∀ l ∈ linesOf s, ∀ b ∈ l, b ≠ 10 ∧ b ≠ 13 := by
  intro l hl b hb
  have := linesOf_nlFree s l hl b hb
  simpa [isNl] using this

/-- messages built through the API are well formed: single-line chunks, single-line ID and type,
a retry value whose digits fit the 13-byte buffer -/
theorem built_messages_wf (ops : List BuildOp) (hv : ∀ op ∈ ops, BuildOp.Valid op) : WF (build ops) :=
  wf_build ops hv

/-- encode structure: the wire form is the sequence of the message's field lines, each
terminated by one LF, followed by one blank line iff there is any field line -/
theorem encode_structure (m : Message) :
    m.encode = ((if (lines m).isEmpty then [] else lines m ++ [[]]).flatMap (· ++ [10])) := by
  rw [encode_eq]; rfl

/-- … and a spec-conforming line splitter finds exactly those lines in a concatenation of wire
forms, with nothing left over: no payload can add, cut or merge a line. -/
theorem wire_lines_exact (ms : List Message) (h : ∀ m ∈ ms, WF m) :
    splitLines (ms.flatMap Message.encode) [] false = (ms.flatMap msgLines, []) :=
  splitLines_flatMap_encode ms h

/-- Single message: the WHATWG interpreter (either dispatch rule) reads the wire form of a
message built through the API as exactly the expected event (or none), and ends cleanly. -/
theorem decode_single (mode : Mode) (id₀ : Bytes) (ops : List BuildOp) (hv : ∀ op ∈ ops, BuildOp.Valid op) :
    Spec.run mode false id₀ (build ops).encode .eof = (expected mode id₀ [describe ops], .clean) := by
  have := run_flatMap_encode mode id₀ [build ops] (by intro m hm; simp at hm; subst hm; exact wf_build ops hv)
  simpa [builtOf_build] using this

example : Spec.run .gosse false [] (build [.setID [49], .appendData [[97, 10, 100, 97, 116, 97, 58, 32, 120]],
      .appendComment [[10, 10]], .setRetry 1500000]).encode .eof =
    ([.event { lastEventID := [49], type := [], data := [97, 10, 100, 97, 116, 97, 58, 32, 120] }], .clean) := by
  rw [decode_single _ _ _ (by intro op h; simp at h; rcases h with h | h | h | h <;> subst h <;> simp [BuildOp.Valid, maxInt64])]
  decide

/-- Headline, go-sse's dispatch rule: the concatenation of the wire forms of any messages built
through the API decodes to exactly the expected events. -/
theorem decode_concat_gosse (id₀ : Bytes) (scripts : List (List BuildOp))
    (hv : ∀ ops ∈ scripts, ∀ op ∈ ops, BuildOp.Valid op) :
    Spec.run .gosse false id₀ ((scripts.map build).flatMap Message.encode) .eof =
      (expected .gosse id₀ (scripts.map describe), .clean) := by
  have := run_flatMap_encode .gosse id₀ (scripts.map build) (by
    intro m hm
    simp only [List.mem_map] at hm
    obtain ⟨ops, ho, rfl⟩ := hm
    exact wf_build ops (hv ops ho))
  simpa [builtOf_build, Function.comp_def] using this

/-- Headline, the pure WHATWG dispatch rule (only messages with data dispatch). -/
theorem decode_concat_whatwg (id₀ : Bytes) (scripts : List (List BuildOp))
    (hv : ∀ ops ∈ scripts, ∀ op ∈ ops, BuildOp.Valid op) :
    Spec.run .whatwg false id₀ ((scripts.map build).flatMap Message.encode) .eof =
      (expected .whatwg id₀ (scripts.map describe), .clean) := by
  have := run_flatMap_encode .whatwg id₀ (scripts.map build) (by
    intro m hm
    simp only [List.mem_map] at hm
    obtain ⟨ops, ho, rfl⟩ := hm
    exact wf_build ops (hv ops ho))
  simpa [builtOf_build, Function.comp_def] using this

/-- no injection: at most one event per message, whatever the payloads -/
theorem at_most_one_event_per_message (mode : Mode) (id₀ : Bytes) (bs : List Built) :
    (expected mode id₀ bs).length ≤ bs.length := by
  induction bs generalizing id₀ with
  | nil => simp [expected]
  | cons b bs ih =>
    simp only [expected, List.length_append, List.length_cons]
    have := ih (b.effID.getD id₀)
    split <;> simp <;> omega

/-- no injection: exactly the messages with data produce an event under the WHATWG rule -/
theorem event_count_whatwg (id₀ : Bytes) (bs : List Built) :
    (expected .whatwg id₀ bs).length = (bs.filter fun b => !b.dataLines.isEmpty).length := by
  induction bs generalizing id₀ with
  | nil => simp [expected]
  | cons b bs ih =>
    simp only [expected, List.length_append, ih, Built.dispatches, List.filter_cons]
    by_cases hdl : (!b.dataLines.isEmpty) = true
    · simp only [hdl, if_true, List.length_cons, List.length_nil]; omega
    · simp only [hdl, Bool.false_eq_true, if_false, List.length_nil]; omega

/-- no leak into neighbours: the events of a concatenation are the events of the first part
followed by the events of the second, which depend on the first only through the last event ID -/
theorem neighbours_independent (mode : Mode) (id₀ : Bytes) (a b : List Built) :
    ∃ id₁, expected mode id₀ (a ++ b) = expected mode id₀ a ++ expected mode id₁ b := by
  induction a generalizing id₀ with
  | nil => exact ⟨id₀, by simp [expected]⟩
  | cons x xs ih =>
    obtain ⟨id₁, h⟩ := ih (x.effID.getD id₀)
    exact ⟨id₁, by simp [expected, h]⟩

/-- retry: for every millisecond count an `int64` duration can have (1 … 9 223 372 036 854) the
13-byte buffer loop does not panic and writes the decimal representation: all digits, no leading
zero, value `ms` — i.e. the specification's `retryVal` reads `ms` back. -/
theorem retry_digits (ms : Nat) (h1 : 1 ≤ ms) (h2 : ms ≤ 9223372036854) :
    ∃ ds, retryDigits ms = some ds ∧ Spec.retryVal ds = some ms ∧ ds.head? ≠ some 48 := by
  have hs := accLoop_isSome 13 ms [] (by omega)
  rw [← retryDigits_eq] at hs
  cases hd : retryDigits ms with
  | none => simp [hd] at hs
  | some ds =>
    refine ⟨ds, rfl, ?_, ?_⟩
    · rw [retryDigits_eq] at hd
      have hv := accLoop_val _ _ _ _ hd
      have hdig := accLoop_digits _ _ _ _ hd (by simp)
      obtain ⟨d, t, hdt, _⟩ := accLoop_head _ _ _ _ hd (by omega)
      simp only [List.length_nil, Nat.pow_zero, Nat.mul_one, digitsVal, List.foldl_nil, Nat.add_zero] at hv
      have hne : ds.isEmpty = false := by rw [hdt]; rfl
      have hle : digitsVal ds ≤ maxInt64 := by unfold maxInt64; unfold digitsVal; omega
      unfold retryVal
      simp only [hne, Bool.not_false, hdig, Bool.and_self, Bool.true_and]
      simp only [digitsVal] at hle ⊢
      rw [hv] at hle
      simp [hle, hv]
    · rw [retryDigits_eq] at hd
      obtain ⟨d, t, hdt, hne⟩ := accLoop_head _ _ _ _ hd (by omega)
      rw [hdt]; simpa using hne

example : retryDigits 9223372036854 = some [57, 50, 50, 51, 51, 55, 50, 48, 51, 54, 56, 53, 52] := by decide

/-- retry: the digit buffer suffices for every `int64` duration — `WriteTo` never panics -/
theorem writeTo_never_panics {σ ε : Type} (w : Writer σ ε) (st : σ) (m : Message) (h : m.retry ≤ (maxInt64 : Int)) :
    (m.writeTo w st).panic = false := by
  rw [writeTo_body w st m (retryOK_of_le m h)]
  simp only
  have hp : (writeAll w (r0 st) m.bodyWrites).panic = false := by rw [writeAll_panic]; rfl
  split
  · exact hp
  · split
    · exact hp
    · simpa [WR.write] using hp

/-- **… and by go-sse's own parser, under every segmentation.** However the wire form of any sequence of
messages is cut into reads, whatever the buffer configuration, `sse.Read` (model `implRun`, tied to the
specification by `C01.read_conforms_or_toolong`) yields exactly the expected events and no error — unless the
size limit is hit, in which case it has yielded a prefix of them. -/
theorem own_parser_decodes_concat (id₀ : Bytes) (scripts : List (List BuildOp))
    (hv : ∀ ops ∈ scripts, ∀ op ∈ ops, BuildOp.Valid op) (src : Source) (cfg : Option (Nat × Int))
    (hsrc : src.chunks.flatten = (scripts.map build).flatMap Message.encode) (hend : src.endErr = false) :
    let r := implRun false id₀ src cfg
    (r.2.1 = PErr.tooLong ∧ r.1 <+: expected .gosse id₀ (scripts.map describe)) ∨
    (r.1 = expected .gosse id₀ (scripts.map describe) ∧ r.2.1 = PErr.none) := by
  have hc := GoSSE.Props.C01.read_conforms_or_toolong false id₀ src cfg
  have hd := decode_concat_gosse id₀ scripts hv
  simp only [hsrc, hend, Bool.false_eq_true, if_false, hd] at hc
  simpa [GoSSE.Proofs.endErr] using hc


/-! ### The translated source text (regenerated from /repo on every run) -/

/-- `Message.appendText` *as translated from message.go* — the range loop over the arguments with the
`for c != ""` / `parser.NextChunk` / `append` loop inside — leaves, for every message, flag and argument list,
exactly the chunk list of the model's `appendText` (the function `appendText_lines` and
`appended_chunks_single_line` above are about), touching no other field, never panicking, its loops ending. -/
theorem translated_appendText_is_model (fuel : Nat) (e : Gen.Message) (isComment : Bool) (strs : List Bytes)
    (m : Message) (he : e.chunks = m.chunks.map GenEquiv.gC) (hf : ∀ c ∈ strs, c.length + 1 < fuel)
    (hn : strs.length < fuel) :
    Gen.Message_appendText fuel e isComment strs =
      .ok { e with chunks := (m.appendText isComment strs).chunks.map GenEquiv.gC } := by
  rw [GenEquiv.appendText_chunks]
  exact GenEquiv.appendText_eq fuel e isComment strs m.chunks he hf hn

/-- non-vacuity: the translated `AppendData("a\r\nb", "c")` on an empty message yields three data chunks -/
example :
    (Gen.Message_AppendData 9 { chunks := [], ID := ⟨⟨[], false⟩⟩, Type' := ⟨⟨[], false⟩⟩, Retry := 0 }
        [[97, 13, 10, 98], [99]]).map (·.chunks) =
      .ok [⟨[97], false⟩, ⟨[98], false⟩, ⟨[99], false⟩] := by rfl

end GoSSE.Props.C02
