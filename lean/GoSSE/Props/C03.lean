import GoSSE.Proofs.JoeMore
import GoSSE.Proofs.GenEquivServer
import GoSSE.Proofs.GenEquivJoeFanout
/-!
# C03 — Joe delivers each message exactly once, in order, to matching subscribers

All statements are about every reachable state of `GoSSE.Model.Joe`, i.e. every interleaving.
`log` is the order in which Joe's loop accepted the Publish calls — the single linearisation.
-/
namespace GoSSE.Props.C03
open GoSSE.Model.Joe GoSSE.Proofs.Joe

/-- **Exactly once, in order, only to matching registered subscribers.** In every reachable state,
the publications sent live to subscription `i` — followed by the one being fanned out right now if
`i` is still to be visited — are exactly the publications of `i`'s registration window of the log
(from its registration to its removal, or to now) whose topics intersect `i`'s, in log order. -/
theorem delivery_exact {c : Cfg} {s : St} (h : Reachable c s) (i : SubId) :
    livePubs (s.subs i) ++ pendingFor s i = expected c s i :=
  (reachable_dinv h).2.main i

/-- Whenever Joe is idle (or has exited) nothing is pending: what was sent is exactly the window. -/
theorem delivery_exact_idle {c : Cfg} {s : St} (h : Reachable c s) (hj : s.joe = .idle ∨ s.joe = .exited) (i : SubId) :
    livePubs (s.subs i) =
      match (s.subs i).regAt with
      | none => []
      | some a => ((s.log.take ((s.subs i).endAt.getD s.log.length)).drop a).filter (matchesP c i) := by
  have := delivery_exact h i
  have hp : pendingFor s i = [] := by rcases hj with e | e <;> simp [pendingFor, restOf, e]
  rw [hp, List.append_nil] at this
  rw [this]; simp only [expected, window]
  cases (s.subs i).regAt <;> simp

/-- Nothing is ever sent live to a subscription the loop has not registered. -/
theorem nothing_unless_registered {c : Cfg} {s : St} (h : Reachable c s) (i : SubId)
    (hr : (s.subs i).regAt = none) : livePubs (s.subs i) = [] := by
  have := delivery_exact h i
  simp only [expected, window, hr, List.filter_nil, List.append_eq_nil_iff] at this
  exact this.1

/-- **One order for everybody**: what any subscription was sent is a sub-sequence of the log, so any
two subscribers see the messages they both receive in the same relative order — the order in which
Joe serialised the Publish calls. -/
theorem single_order {c : Cfg} {s : St} (h : Reachable c s) (i : SubId) :
    (livePubs (s.subs i)).Sublist s.log := by
  have hsub : (expected c s i).Sublist s.log := by
    simp only [expected, window]
    cases (s.subs i).regAt with
    | none => simp
    | some a =>
      exact (List.filter_sublist).trans ((List.drop_sublist _ _).trans (List.take_sublist _ _))
  have := delivery_exact h i
  exact (List.sublist_append_left _ _).trans (this ▸ hsub)

/-- Only publications matching the subscription's topics are sent. -/
theorem only_matching {c : Cfg} {s : St} (h : Reachable c s) (i : SubId) (p : PubId)
    (hp : p ∈ livePubs (s.subs i)) : matchesP c i p = true := by
  have := delivery_exact h i
  have hm : p ∈ expected c s i := by rw [← this]; exact List.mem_append_left _ hp
  exact (List.mem_filter.mp hm).2

/-- **Never twice**, however many topics match: every Publish call is accepted at most once, and a
subscription is sent each publication at most once. -/
theorem never_twice {c : Cfg} {s : St} (h : Reachable c s) (i : SubId) : (livePubs (s.subs i)).Nodup :=
  List.Nodup.sublist (single_order h i) (reachable_all h).2.2.logNodup

/-- **Nothing published while registered is skipped**: a subscription that is still registered
(its window has not ended) has, whenever Joe is idle, been sent every matching publication accepted
since its registration. Unsubscription (after a cancellation) is processed only when Joe is idle, so
every message whose Publish was accepted before that moment — in particular before the cancellation
was requested — is part of the window. -/
theorem registered_gets_everything {c : Cfg} {s : St} (h : Reachable c s) (hj : s.joe = .idle) (i : SubId) (a : Nat)
    (hr : (s.subs i).regAt = some a) (he : (s.subs i).endAt = none) :
    livePubs (s.subs i) = (s.log.drop a).filter (matchesP c i) := by
  have := delivery_exact_idle h (Or.inl hj) i
  rw [hr, he] at this
  simpa using this

/-- **Published before the window closed ⇒ inside the window.** Take any reachable state `s` in which
subscription `i`'s window is still open (in particular: any state before its cancellation is processed),
and any continuation of the run to a state `s'` in which the window has ended at `b`. Then `b` is at least
the length of the log at `s`: every publication Joe had accepted by then — every Publish call that had
returned — lies inside `i`'s window, so by `delivery_exact` it is delivered to `i` if it matches. -/
theorem published_before_end_is_in_window {c : Cfg} {s s' : St} {ls : List Label} (h : Reachable c s)
    (r : Run c s ls s') (i : SubId) (he : (s.subs i).endAt = none) (b : Nat) (hb : (s'.subs i).endAt = some b) :
    s.log.length ≤ b :=
  (run_window_end h r i).2 he b hb

/-- non-vacuity of the hypotheses above: a run with an open window that then ends -/
example : ∃ (c : Cfg) (s s' : St) (ls : List Label), Reachable c s ∧ Run c s ls s' ∧
    (s.subs 0).endAt = none ∧ (s'.subs 0).endAt = some 0 := by
  let c : Cfg := { subTopics := fun _ => [0], pubTopics := fun _ => [0] }
  let ls : List Label := [.subCall 0, .subAccept 0 [] .ok, .cancel 0, .subSeeCancel 0, .unsubAccept 0]
  have h0 : Reachable c (GoSSE.Model.Joe.init true) := Reachable.init (by simp [IsInit, GoSSE.Model.Joe.init])
  match hr : run c (GoSSE.Model.Joe.init true) ls with
  | some s' =>
    refine ⟨c, _, s', ls, h0, run_Run hr, rfl, ?_⟩
    have : ((run c (GoSSE.Model.Joe.init true) ls).map fun t => (t.subs 0).endAt) = some (some 0) := by decide
    rw [hr] at this; simpa using this
  | none =>
    have : (run c (GoSSE.Model.Joe.init true) ls).isSome = true := by decide
    rw [hr] at this; simp at this

/-! ### The translated source text (regenerated from /repo's server.go on every run) -/

/-- `Server.Publish(m, topics...)` publishes on `getTopics(topics)`: **as translated from server.go**, the topics as
given, or — when none are given — exactly the default topic (the empty name), so that "whose topics intersect the
message's topics" reads the same through the server's entry point as through `Joe.Publish`. -/
theorem translated_getTopics (fuel : Nat) (l : List Bytes) :
    Gen.getTopics fuel l = .ok (if l.isEmpty then [[]] else l) :=
  GenEquiv.getTopics_eq fuel l

example : Gen.getTopics 0 [] = .ok [[]] ∧ Gen.getTopics 0 [[110], []] = .ok [[110], []] := ⟨rfl, rfl⟩

/-! ### The fan-out of a published message, as translated from joe.go

The `range` statement of the message case of `Joe.start` — `for done, sub := range j.subscribers { if topicsIntersect … {
Send; Flush; on error: done <- err; removeSubscriber } }` — is translated as a definition of its own (`Gen.Joe_fanout`;
`GenEquiv.fanout_eq`: the fold of `fanStep` over the order in which the map is ranged over, **any** order). The theorems
below are about that source text, for every map of subscribers, every message, every behaviour of the subscribers'
writers (`GoRT.MsgWriter`: any state machine) and every duplicate-free visiting order (a map's keys are distinct). -/

/-- The translated fan-out is the fold of the one-key step; it does not panic, its loop ends. -/
theorem translated_fanout_is_fold {σ : Type} (fuel : Nat) (j : Gen.Joe σ) (msg : Gen.publishedMessage) (order : List Nat)
    (hf : order.length < fuel) (hfit : GenEquiv.TopicsFit fuel msg j) :
    Gen.Joe_fanout fuel j msg order = .ok (order.foldl (GenEquiv.fanStep msg) j) :=
  GenEquiv.fanout_eq fuel j msg order hf hfit

/-- **Exactly once, and only to matching subscribers.** After the translated fan-out the entry of every visited subscriber
is what *one* `outcome` makes of the entry it had before: left exactly as it was when its topics do not meet the message's
(no call on its writer), its writer in the state after exactly one `Send` of the message followed by one `Flush` when both
succeeded — never twice, however many topics match —, and gone when one of them failed. -/
theorem fanout_exactly_once {σ : Type} (fuel : Nat) (j : Gen.Joe σ) (msg : Gen.publishedMessage) (order : List Nat)
    (hf : order.length < fuel) (hfit : GenEquiv.TopicsFit fuel msg j) (hnd : order.Nodup)
    (k : Nat) (sub : Gen.Subscription σ) (hk : k ∈ order) (h : GoRT.mapGet j.subscribers k = some sub) :
    ∃ j', Gen.Joe_fanout fuel j msg order = .ok j' ∧
      GoRT.mapGet j'.subscribers k =
        match GenEquiv.outcome msg sub with
        | .skipped => some sub
        | .delivered sub' => some sub'
        | .failed _ => none :=
  ⟨_, GenEquiv.fanout_eq fuel j msg order hf hfit, GenEquiv.fold_at msg order j k sub hnd hk h⟩

/-- … and a key the range does not produce keeps its entry: nobody else is written to. -/
theorem fanout_touches_no_other {σ : Type} (fuel : Nat) (j : Gen.Joe σ) (msg : Gen.publishedMessage) (order : List Nat)
    (hf : order.length < fuel) (hfit : GenEquiv.TopicsFit fuel msg j) (k : Nat) (hk : k ∉ order) :
    ∃ j', Gen.Joe_fanout fuel j msg order = .ok j' ∧ GoRT.mapGet j'.subscribers k = GoRT.mapGet j.subscribers k :=
  ⟨_, GenEquiv.fanout_eq fuel j msg order hf hfit, GenEquiv.fold_not_in msg order j k hk⟩

end GoSSE.Props.C03
