import GoSSE.Proofs.MessageHeap
/-!
# C19 — publishing never mutates the caller's message; clones are independent

Heap level (`Model/Heap.lean`): `Message.chunks` is a slice `(array, len, cap)` into a shared
heap of backing arrays; `append` writes in place when `len < cap` and otherwise moves to a fresh
array whose capacity is *any* number `≥ len + 1` (oracle `extra`, one free choice per
allocation); `Clone` is `chunks[:len:len]`; `Put` is `ensureID`. Value level
(`Spec/Message.lean`, `PureState`): messages are plain values, a clone is a copy.
A script `ops : List FOp` is any interleaving of AppendData / AppendComment / ID, Type, Retry
assignment / Clone / Put on the members of a family that starts with one empty message.
-/
namespace GoSSE.Props.C19
open GoSSE GoSSE.Spec GoSSE.Model GoSSE.Proofs

/-- The ownership invariant holds after every script, under every growth policy: every slice
lies within its array; among the messages sharing an array at most one has `cap > len`, and
every other one has `cap = len ≤` that one's `len`. -/
theorem invariant_holds (extra : Nat → Nat) (ops : List FOp) :
    HInv (({} : FamState).run extra ops).heap (({} : FamState).run extra ops).fam :=
  (run_sim extra ops {} {} hinv_init sim_init).1

/-- Clone independence, Put included: for every interleaving of operations and every growth
policy, what each member of the family *is* (its chunks read through the heap, its fields) —
hence what it encodes to — is exactly its own value-level history: the result of running the
same script on plain values, where an operation on one member cannot touch another.
The results of the `Put` calls agree too. -/
theorem clone_family_independent (extra : Nat → Nat) (ops : List FOp) :
    (({} : FamState).run extra ops).views = (({} : PureState).run ops).fam ∧
    (({} : FamState).run extra ops).puts = (({} : PureState).run ops).puts := by
  have h := (run_sim extra ops {} {} hinv_init sim_init).2
  exact ⟨sim_views _ _ h, h.puts⟩

/-- every member encodes (`String()`) to what its own history prescribes -/
theorem encodings_are_own_history (extra : Nat → Nat) (ops : List FOp) :
    (({} : FamState).run extra ops).views.map Message.encode = (({} : PureState).run ops).fam.map Message.encode := by
  rw [(clone_family_independent extra ops).1]

/-- the growth policy of `append` is unobservable -/
theorem growth_policy_irrelevant (extra₁ extra₂ : Nat → Nat) (ops : List FOp) :
    (({} : FamState).run extra₁ ops).views = (({} : FamState).run extra₂ ops).views := by
  rw [(clone_family_independent extra₁ ops).1, (clone_family_independent extra₂ ops).1]

/-- non-vacuity: in-place appends do happen and are shared (policy with spare capacity), yet the
clone taken in the middle keeps its own two lines -/
example : (({} : FamState).run (fun _ => 3)
      [.appendData 0 [[97]], .appendData 0 [[98]], .clone 0, .appendData 0 [[99]], .appendData 1 [[100]]]).views.map (·.chunks.map (·.content)) =
    [[[97], [98], [99]], [[97], [98], [100]]] := by decide

/-- the target of an operation -/
def target : FOp → Nat
  | .appendData i _ | .appendComment i _ | .setID i _ | .setType i _ | .setRetry i _ | .clone i | .put i _ | .unmarshal i _ => i

/-- at the value level an operation leaves every existing member other than its target alone,
and `Clone`/`Put` leave their target alone as well -/
theorem pure_step_frame (ps : PureState) (op : FOp) (j : Nat) (hj : j < ps.fam.length)
    (hne : j ≠ target op ∨ (∃ i, op = .clone i) ∨ (∃ i r, op = .put i r)) :
    (ps.step op).fam[j]? = ps.fam[j]? := by
  have modify : ∀ (i : Nat) (f : Message → Message), j ≠ i → (ps.modify i f).fam[j]? = ps.fam[j]? := by
    intro i f hji
    unfold PureState.modify
    split
    · rfl
    · simp [List.getElem?_set, Ne.symm hji]
  have push : ∀ (x : Message), (ps.fam ++ [x])[j]? = ps.fam[j]? := fun x => List.getElem?_append_left hj
  cases op with
  | appendData i s => rcases hne with h | ⟨_, h⟩ | ⟨_, _, h⟩ <;> first | exact modify i _ h | cases h
  | appendComment i s => rcases hne with h | ⟨_, h⟩ | ⟨_, _, h⟩ <;> first | exact modify i _ h | cases h
  | setID i v => rcases hne with h | ⟨_, h⟩ | ⟨_, _, h⟩ <;> first | exact modify i _ h | cases h
  | setType i v => rcases hne with h | ⟨_, h⟩ | ⟨_, _, h⟩ <;> first | exact modify i _ h | cases h
  | setRetry i d => rcases hne with h | ⟨_, h⟩ | ⟨_, _, h⟩ <;> first | exact modify i _ h | cases h
  | unmarshal i p => rcases hne with h | ⟨_, h⟩ | ⟨_, _, h⟩ <;> first | exact modify i _ h | cases h
  | clone i =>
    simp only [PureState.step]
    split
    · rfl
    · exact push _
  | put i rep =>
    simp only [PureState.step]
    split
    · rfl
    · split
      · rfl
      · split
        · rfl
        · exact push _

/-- `Put` (and therefore `Publish`) never modifies the message it is given, nor any other existing
message: after a `Put` on a reachable family, under any growth policy, every member that existed
before — the published one included — is what it was. -/
theorem put_does_not_mutate (extra : Nat → Nat) (ops : List FOp) (i rep j : Nat)
    (hj : j < (({} : FamState).run extra ops).fam.length) :
    (({} : FamState).run extra (ops ++ [.put i rep])).views[j]? = (({} : FamState).run extra ops).views[j]? := by
  rw [(clone_family_independent extra (ops ++ [FOp.put i rep])).1, (clone_family_independent extra ops).1]
  have hlen : (({} : FamState).run extra ops).fam.length = (({} : PureState).run ops).fam.length := by
    have := congrArg List.length (clone_family_independent extra ops).1
    simpa [FamState.views] using this
  have : ({} : PureState).run (ops ++ [.put i rep]) = (({} : PureState).run ops).step (.put i rep) := by
    simp [PureState.run, List.foldl_append]
  rw [this]
  exact pure_step_frame _ _ j (by omega) (Or.inr (Or.inr ⟨i, rep, rfl⟩))

/-- `Clone` does not modify anything either -/
theorem clone_does_not_mutate (extra : Nat → Nat) (ops : List FOp) (i j : Nat)
    (hj : j < (({} : FamState).run extra ops).fam.length) :
    (({} : FamState).run extra (ops ++ [.clone i])).views[j]? = (({} : FamState).run extra ops).views[j]? := by
  rw [(clone_family_independent extra (ops ++ [FOp.clone i])).1, (clone_family_independent extra ops).1]
  have hlen : (({} : FamState).run extra ops).fam.length = (({} : PureState).run ops).fam.length := by
    have := congrArg List.length (clone_family_independent extra ops).1
    simpa [FamState.views] using this
  have : ({} : PureState).run (ops ++ [.clone i]) = (({} : PureState).run ops).step (.clone i) := by
    simp [PureState.run, List.foldl_append]
  rw [this]
  exact pure_step_frame _ _ j (by omega) (Or.inr (Or.inl ⟨i, rfl⟩))

/-- an operation on one member never changes what another existing member is (and encodes to) -/
theorem other_members_untouched (extra : Nat → Nat) (ops : List FOp) (op : FOp) (j : Nat)
    (hj : j < (({} : FamState).run extra ops).fam.length) (hne : j ≠ target op) :
    (({} : FamState).run extra (ops ++ [op])).views[j]? = (({} : FamState).run extra ops).views[j]? := by
  rw [(clone_family_independent extra (ops ++ [op])).1, (clone_family_independent extra ops).1]
  have hlen : (({} : FamState).run extra ops).fam.length = (({} : PureState).run ops).fam.length := by
    have := congrArg List.length (clone_family_independent extra ops).1
    simpa [FamState.views] using this
  have : ({} : PureState).run (ops ++ [op]) = (({} : PureState).run ops).step op := by
    simp [PureState.run, List.foldl_append]
  rw [this]
  exact pure_step_frame _ _ j (by omega) (Or.inl hne)

/-- decimal IDs of different counter values differ -/
theorem formatUint_injective (a b : Nat) (h : formatUint a = formatUint b) : a = b := by
  have := congrArg digitsVal h
  rwa [digitsVal_formatUint, digitsVal_formatUint] at this

/-- Each publication gets its own ID. Publishing member `i` (which has no ID) `k` times in a
row through a replayer with automatic IDs, from any reachable family and under any growth policy:
the `n`-th publication stores a new message that is the original with ID `decimal(c + n)`, `c`
being the replayer's counter; the original stays as it was; the IDs are pairwise distinct
(`formatUint_injective`). -/
theorem each_publication_own_id (extra : Nat → Nat) (ops : List FOp) (i rep k : Nat) (m : Message)
    (ha : autoIDs rep = true) (hi : (({} : PureState).run ops).fam[i]? = some m) (hid : m.id.set = false) :
    (({} : FamState).run extra (ops ++ List.replicate k (.put i rep))).views =
      (({} : PureState).run ops).fam ++
        (List.range k).map (fun n => { m with id := { value := formatUint ((({} : PureState).run ops).ctr rep + n), set := true } }) := by
  rw [(clone_family_independent extra _).1]
  have : ({} : PureState).run (ops ++ List.replicate k (.put i rep)) =
      (({} : PureState).run ops).run (List.replicate k (.put i rep)) := by
    simp [PureState.run, List.foldl_append]
  rw [this]
  exact (pure_puts (({} : PureState).run ops) i rep k m ha hi hid).1

example : (({} : FamState).run (fun _ => 0) [.appendData 0 [[104, 105]], .put 0 0, .put 0 0, .put 0 2]).views.map (·.id) =
    [{}, { value := [48], set := true }, { value := [49], set := true }, { value := [48], set := true }] := by decide

end GoSSE.Props.C19
