import GoSSE.Basic
