import GoSSE.Basic
import GoSSE.Spec.EventStream
import GoSSE.Model.Parser
