import Driver.Common
import GoSSE.Model.Finite
import GoSSE.Model.Valid
/-!
Driver ops of the replayers (C08, C09, C18). One case = one whole history:

  FINITE  <N> <auto 0/1> <op;op;…>          FINITES … : the same, plus the slot report (C18);
                                            FINITEF/VALIDF: as …S, the Go side also confirms with finalizers
  VALID   <ttl> <gcInterval|d> <auto> <op;op;…>   VALIDS …

ops (fields separated by `:`; byte strings hex, `-` = empty, topic lists comma separated, `_` = ""):
  P:<topics>:<id|~>                         Put; `~` = no ID; the message's tag is the op's index
  R:<topics>:<lastID|~>:<failAt|->:<flushFails 0/1>   Replay
  N:<topics>:<k>                            one message without an ID put k times in a row (all k copies carry the op's index as tag);
                                            result `N=` + the k Put results with runs of successors (next decimal ID / same error) as first>last
  G                                         GC (ValidReplayer)
  T:<delta>                                 the clock advances by delta (ValidReplayer)

results, joined by `;`:
  P=<id> | P!NOTOPIC | P!NOID | P!HASID ;  R=<S<tag>.<id>,…,F | ->/<nil|SEND|FLUSH> ;  G ;  T
with the slot report appended to every result in the …S variants:
  model `@<head>.<tail>.<count>.<len>{sorted tags referenced from any slot}`, specification `{sorted stored tags}`
-/
namespace Driver.ReplayD
open GoSSE GoSSE.Spec GoSSE.Model Driver

inductive Op where
  | put (topics : List Bytes) (id : EventID)
  | replay (sub : Sub)
  | gc
  | tick (d : Int)
  | setGC (g : Int)     -- the exported field GCInterval is assigned between calls (ValidReplayer only)
  | bulk (topics : List Bytes) (k : Nat)   -- one message without an ID put k times in a row
  | bad

def parseID (s : String) : EventID := if s == "~" then none else some (unhex s)

def parseOp (s : String) : Op :=
  match s.splitOn ":" with
  | ["P", t, i] => .put (unhexList t) (parseID i)
  | ["R", t, i, k, f] => .replay { lastEventID := parseID i, topics := unhexList t, failAt := k.toNat?, flushFails := boolOf f }
  | ["N", t, k] => match k.toNat? with | some k => if k < 2 ^ 20 then .bulk (unhexList t) k else .bad | none => .bad
  | ["G"] => .gc
  | ["T", d] => match parseInt? d with | some d => .tick d | none => .bad
  | ["I", g] => match parseInt? g with | some g => .setGC g | none => .bad
  | _ => .bad

def parseOps (s : String) : List Op := if s == "-" then [] else (s.splitOn ";").map parseOp

def showPutErr : PutErr → String
  | .noTopic => "P!NOTOPIC" | .noID => "P!NOID" | .hasID => "P!HASID"

def showPut : Except PutErr Entry → String
  | .ok e => "P=" ++ (match e.id with | some v => hex v | none => "~")
  | .error e => showPutErr e

def showCall : Call → String
  | .send e => s!"S{e.msg}.{match e.id with | some v => hex v | none => "~"}"
  | .flush => "F"

def showReplay (r : ReplayOut) : String :=
  let c := if r.calls.isEmpty then "-" else ",".intercalate (r.calls.map showCall)
  let e := match r.err with | .nil => "nil" | .send => "SEND" | .flush => "FLUSH"
  s!"R={c}/{e}"

/-- the decimal value of a result `P=<hex of a canonical decimal>` -/
def decOf (r : String) : Option Nat :=
  if !r.startsWith "P=" then none else
  let h := (r.drop 2).toString
  if h == "~" then none else
  let b := unhex h
  if b.isEmpty || !b.all (fun c => 48 ≤ c && c ≤ 57) || (b.length > 1 && b.head? == some 48) then none else
  let v := b.foldl (fun acc c => acc * 10 + (c.toNat - 48)) 0
  if v < 2 ^ 62 then some v else none

def isSucc (a b : String) : Bool :=
  (a == b && !a.startsWith "P=") ||
  (match decOf a, decOf b with | some x, some y => y == x + 1 | _, _ => false)

/-- `compressRuns` of the harness (replay_run.go): maximal runs of successors as first>last.
`cur` = (first, last, longer than one) of the run being built, `acc` the finished parts, newest first. -/
def compressGo : List String → Option (String × String × Bool) → List String → List String
  | [], none, acc => acc.reverse
  | [], some (f, l, m), acc => ((if m then f ++ ">" ++ l else f) :: acc).reverse
  | r :: rest, none, acc => compressGo rest (some (r, r, false)) acc
  | r :: rest, some (f, l, m), acc =>
    if isSucc l r then compressGo rest (some (f, r, true)) acc
    else compressGo rest (some (r, r, false)) ((if m then f ++ ">" ++ l else f) :: acc)

def showBulk (rs : List String) : String :=
  "N=" ++ (if rs.isEmpty then "-" else ",".intercalate (compressGo rs none []))

def insertSorted (x : Nat) : List Nat → List Nat
  | [] => [x]
  | y :: t => if x < y then x :: y :: t else if x = y then y :: t else y :: insertSorted x t

def showTags (l : List Nat) : String :=
  "{" ++ ",".intercalate ((l.foldl (fun acc x => insertSorted x acc) []).map toString) ++ "}"

def showSlots (q : Queue) : String :=
  s!"@{q.head}.{q.tail}.{q.count}.{q.buf.length}" ++ showTags (q.buf.filterMap fun s => s.map (·.msg))

def join (l : List String) : String := if l.isEmpty then "-" else ";".intercalate l

/-! ### FiniteReplayer -/

def finiteModel (slots : Bool) (f : Finite) : Nat → List Op → List String → String
  | _, [], acc => join acc.reverse
  | k, op :: rest, acc =>
    let fin (r : String) (f : Finite) := finiteModel slots f (k + 1) rest ((if slots then r ++ showSlots f.buf else r) :: acc)
    match op with
    | .put t i => match f.put k i t with
      | .panic => "PANIC"
      | .ok (r, f') => fin (showPut r) f'
    | .bulk t n =>
      let rec go : Nat → Finite → List String → Option (Finite × List String)
        | 0, f, rs => some (f, rs.reverse)
        | j + 1, f, rs => match f.put k none t with
          | .panic => none
          | .ok (r, f') => go j f' (showPut r :: rs)
      match go n f [] with
      | none => "PANIC"
      | some (f', rs) => fin (showBulk rs) f'
    | .replay sub => match f.replay sub with
      | .panic => "PANIC"
      | .ok r => fin (showReplay r) f
    | .gc => fin "G" f
    | .tick _ => fin "T" f
    | .setGC _ => fin "I" f
    | .bad => "bad-op"

def finiteSpec (slots : Bool) (n : Nat) (auto : Bool) (s : State) : Nat → List Op → List String → String
  | _, [], acc => join acc.reverse
  | k, op :: rest, acc =>
    let fin (r : String) (s : State) := finiteSpec slots n auto s (k + 1) rest ((if slots then r ++ showTags (s.log.map (·.msg)) else r) :: acc)
    match op with
    | .put t i => let r := Spec.put (some n) s k i t 0; fin (showPut r.1) r.2
    | .bulk t cnt =>
      let r := (List.range cnt).foldl (fun (acc : State × List String) _ =>
        let r := Spec.put (some n) acc.1 k none t 0; (r.2, showPut r.1 :: acc.2)) (s, [])
      fin (showBulk r.2.reverse) r.1
    | .replay sub => fin (showReplay (replayOut auto (fun _ => true) s.log sub)) s
    | .gc => fin "G" s
    | .tick _ => fin "T" s
    | .setGC _ => fin "I" s
    | .bad => "bad-op"

def finite (slots : Bool) (args : List String) : String × String :=
  match args with
  | n :: a :: ops :: _ =>
    match n.toNat? with
    | none => ("bad-args", "bad-args")
    | some n =>
      let auto := boolOf a
      let ops := parseOps ops
      match newFinite n auto with
      | none => ("NEWERR", if n < 2 then "NEWERR" else "?")
      | some f => (finiteModel slots f 0 ops [], if n < 2 then "NEWERR" else finiteSpec slots n auto (.init auto) 0 ops [])
  | _ => ("bad-args", "bad-args")

/-! ### ValidReplayer -/

def validModel (slots : Bool) (v : Valid) (now : Int) : Nat → List Op → List String → String
  | _, [], acc => join acc.reverse
  | k, op :: rest, acc =>
    let fin (r : String) (v : Valid) (now : Int) :=
      validModel slots v now (k + 1) rest ((if slots then r ++ showSlots v.messages else r) :: acc)
    match op with
    | .put t i => match v.put now k i t with
      | .panic => "PANIC"
      | .ok (r, v') => fin (showPut r) v' now
    | .bulk t n =>
      let rec go : Nat → Valid → List String → Option (Valid × List String)
        | 0, v, rs => some (v, rs.reverse)
        | j + 1, v, rs => match v.put now k none t with
          | .panic => none
          | .ok (r, v') => go j v' (showPut r :: rs)
      match go n v [] with
      | none => "PANIC"
      | some (v', rs) => fin (showBulk rs) v' now
    | .replay sub => match v.replay now sub with
      | .panic => "PANIC"
      | .ok r => fin (showReplay r) v now
    | .gc => match v.gc now with
      | .panic => "PANIC"
      | .ok v' => fin "G" v' now
    | .tick d => fin "T" v (now + d)
    | .setGC g => fin "I" { v with gcInterval := g } now
    | .bad => "bad-op"

def validSpec (slots : Bool) (ttl gci : Int) (auto : Bool) (v : VState) (now : Int) : Nat → List Op → List String → String
  | _, [], acc => join acc.reverse
  | k, op :: rest, acc =>
    let fin (r : String) (v : VState) (now : Int) :=
      validSpec slots ttl gci auto v now (k + 1) rest ((if slots then r ++ showTags (v.st.log.map (·.msg)) else r) :: acc)
    match op with
    | .put t i => let r := vput ttl gci v now k i t; fin (showPut r.1) r.2 now
    | .bulk t cnt =>
      let r := (List.range cnt).foldl (fun (acc : VState × List String) _ =>
        let r := vput ttl gci acc.1 now k none t; (r.2, showPut r.1 :: acc.2)) (v, [])
      fin (showBulk r.2.reverse) r.1 now
    | .replay sub => fin (showReplay (replayOut auto (fun e => decide (e.exp > now)) v.st.log sub)) v now
    | .gc => fin "G" (vgc v now) now
    | .tick d => fin "T" v (now + d)
    | .setGC g =>
      validSpec slots ttl g auto v now (k + 1) rest ((if slots then "I" ++ showTags (v.st.log.map (·.msg)) else "I") :: acc)
    | .bad => "bad-op"

def valid (slots : Bool) (args : List String) : String × String :=
  match args with
  | ttl :: g :: a :: ops :: _ =>
    match parseInt? ttl with
    | none => ("bad-args", "bad-args")
    | some ttl =>
      let gci : Option Int := if g == "d" then none else parseInt? g
      let auto := boolOf a
      let ops := parseOps ops
      match newValid ttl auto gci with
      | none => ("NEWERR", if ttl ≤ 0 then "NEWERR" else "?")
      | some v =>
        (validModel slots v 0 0 ops [],
         if ttl ≤ 0 then "NEWERR" else validSpec slots ttl (gci.getD (Int.tdiv ttl 4)) auto (.init auto) 0 0 ops [])
  | _ => ("bad-args", "bad-args")

def handle (op : String) (args : List String) : Option (String × String) :=
  match op with
  | "FINITE" => some (finite false args)
  | "FINITES" | "FINITEF" => some (finite true args)
  | "VALID" => some (valid false args)
  | "VALIDS" | "VALIDF" => some (valid true args)
  | _ => none

end Driver.ReplayD
