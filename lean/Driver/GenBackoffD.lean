import Driver.ClientD
import GoSSE.Gen.Backoff
/-!
`GCTRL <args of CTRL>`: `backoffController.next / reset` (with `nextInterval`, `growInterval`) **as translated** from
client.go (`GoSSE/Gen/Backoff.lean`), run with exact rational arithmetic for `float64` (`fvI`: the operations the
translated text asks for, on `FV`) and the scripted draw as the generator's next value (`draw / 2^53`). Model column =
the translated code, specification column = the hand-written model (`Model/Backoff.lean`, `Ctl.next` / `Ctl.reset` with
`exactFloats`); the real code's observation must equal both (the generator of CTRL cases keeps to values on which
float64 arithmetic is exact).
-/
namespace Driver.GenBackoffD
open GoSSE GoSSE.GoRT GoSSE.Model.Client Driver Driver.ClientD

def fvBin (f : Int → Nat → Int → Nat → FV) : FV → FV → FV
  | .rat a b, .rat c d => f a b c d
  | _, _ => .nan

def fvCmp (f : Int → Int → Bool) : FV → FV → Bool
  | .rat a b, .rat c d => f (a * d) (c * b)
  | _, _ => false

/-- exact rational arithmetic as the float operations of the translated code -/
def fvI : FloatI FV :=
  { lit := fun n d => .rat n d,
    ofInt := fun n => .rat n 1,
    toInt := fun x => match x with | .rat n d => n.tdiv d | .nan => 0,
    add := fvBin fun a b c d => .rat (a * d + c * b) (b * d),
    sub := fvBin fun a b c d => .rat (a * d - c * b) (b * d),
    mul := fvBin fun a b c d => .rat (a * c) (b * d),
    div := fvBin fun a b c d => if c == 0 then .nan else if c < 0 then .rat (-(a * d)) (b * c.natAbs) else .rat (a * d) (b * c.natAbs),
    lt := fvCmp fun x y => decide (x < y),
    le := fvCmp fun x y => decide (x ≤ y),
    eq := fvCmp fun x y => x == y }

def gctrl (args : List String) : String × String :=
  match args with
  | bk :: df :: ops :: _ =>
    let hand := (ctrl args).1
    let b := mergeDefaults FV.ops (parseBackoff df) (parseBackoff bk)
    let gb : Gen.Backoff FV := ⟨b.initialInterval, b.multiplier, b.jitter, b.maxInterval, b.maxElapsedTime, b.maxRetries⟩
    let opl := (ops.splitOn ";").filter (· != "-")
    let c0 : Gen.backoffController FV := ⟨0, [], some gb, b.initialInterval, 0⟩
    let r := opl.foldl (fun (acc : Except Fault (Gen.backoffController FV × List String)) o =>
      match acc with
      | .error f => .error f
      | .ok (c, out) =>
        match o.splitOn ":" with
        | ["N", el, dr] =>
          -- SetElapsed: the controller started `el` before now; the next draw of the generator is `dr / 2^53`
          let c1 := { c with start := 0, rng := [FV.rat (int dr) 9007199254740992] }
          match Gen.backoffController_next fvI 10 c1 (int el) with
          | .error f => .error f
          | .ok r => .ok (r.2.2, out ++ [s!"N {if r.2.1 then toString r.1 else (if r.1 == 0 then "stop" else "stop-with-nonzero")} {r.2.2.interval} {r.2.2.numRetries}"])
        | ["R", d] =>
          match Gen.backoffController_reset fvI 10 c (int d) 0 with
          | .error f => .error f
          | .ok c' => .ok (c', out ++ [s!"R {c'.interval} {c'.numRetries}"])
        | _ => .ok (c, out ++ ["?"])) (.ok (c0, []))
    match r with
    | .error (.panic _) => ("PANIC", hand)
    | .error .fuel => ("FUEL", hand)
    | .ok (_, out) => (" | ".intercalate out, hand)
  | _ => ("bad-args", "bad-args")

def handle (op : String) (args : List String) : Option (String × String) :=
  match op with
  | "GCTRL" => some (gctrl args)
  | _ => none

end Driver.GenBackoffD
