import Driver.Common
import GoSSE.Model.Joe
/-!
Driver op `JOE <seed> <big>` — the observation (`GO=<facts> ## <scenario> ## <trace>`) is the
recorded trace of a real run. `M` = is the trace a run of the transition system of
`GoSSE.Model.Joe` (trace inclusion, modulo reordering of events of different goroutines: the
recorder's global order is a linearisation of hook *records*, not of the operations they
follow); `S` = the property predicates of C03/C04/C06/C07/C17 evaluated on the trace.
-/
namespace Driver.JoeD
open GoSSE.Model.Joe Driver

/-- which goroutine an event belongs to (program order is kept within one) -/
inductive Proc | loop | sub (i : Nat) | pub (p : Nat) | shut (k : Nat) | env (n : Nat)
deriving DecidableEq, Repr

inductive Ev
  | lab (l : Label)                       -- a transition of the model
  | fan (i : Nat) (p : Option Nat) (sendOk flushOk : Bool)  -- a fan-out step, with the message seen
  | at (t : Int) (e : Ev)                 -- a loop event stamped with what the injected clock showed the replayer
  | subRet (i : Nat) (r : String)         -- Subscribe returned r: checked against the model's pc
  | pubRet (p : Nat) (r : String)
  | shutRet (k : Nat) (r : String)
  | skip
deriving Repr

instance : Inhabited Proc := ⟨.loop⟩
instance : Inhabited Ev := ⟨.skip⟩

structure Scenario where
  rep : String := "none"
  auto : Bool := false
  subTopics : List (List Nat) := []
  subLast : List String := []
  pubTopics : List (List Nat) := []
  pubBad : List Bool := []
deriving Repr

def natsOf (s : String) : List Nat :=
  if s == "-" || s == "" then [] else (s.splitOn ".").filterMap String.toNat?

def parseScenario (s : String) : Scenario :=
  let kv := (s.splitOn ";").map fun x => match x.splitOn "=" with
    | [k, v] => (k, v)
    | _ => ("", "")
  let get (k : String) := ((kv.find? (·.1 == k)).map (·.2)).getD "-"
  let items (v : String) := if v == "-" then [] else v.splitOn "|"
  let subs := (items (get "subs")).map fun x => x.splitOn "/"
  { rep := get "rep", auto := get "auto" == "1",
    subTopics := subs.map fun f => natsOf (f.headD ""),
    subLast := subs.map fun f => (f.drop 1).headD "-",
    pubTopics := (items (get "pubs")).map fun x => natsOf ((x.splitOn "/").headD ""),
    pubBad := (items (get "pubs")).map fun x => ((x.splitOn "/").drop 2).headD "0" == "1" }

def numAfter (s : String) (n : Nat) : Nat := ((s.drop n).toString.toNat?).getD 0

def unknownPub : Nat := 999999

/-- replay calls are `ws<i>:<p>:<ok>` / `wf<i>:<ok>` joined by `.` -/
def parseCalls (s : String) : List Call :=
  if s == "-" then [] else (s.splitOn ".").filterMap fun c =>
    match c.splitOn ":" with
    | [a, p, ok] => if a.startsWith "ws" then some (.send ((p.toNat?).getD unknownPub) (ok == "1")) else none
    | [a, ok] => if a.startsWith "wf" then some (.flush (ok == "1")) else none
    | _ => none

partial def parseEv (s : String) : Proc × Ev :=
  match s.splitOn "@" with
  | [body, t] =>
    let r := parseEv body
    (r.1, .at ((parseInt? t).getD 0) r.2)
  | _ =>
  let f := s.splitOn ":"
  let h := f.headD ""
  let tag := (h.take 2).toString
  let n := numAfter h 2
  let arg (k : Nat) := (f.drop k).headD ""
  match tag with
  | "sc" => (.sub n, .lab (.subCall n))
  | "sa" =>
    let o := f.getLastD ""
    let mid := ":".intercalate ((f.drop 1).dropLast)
    let ro : ROutcome := if o == "err" then .err else if o == "panic" then .panic else .ok
    (.loop, .lab (.subAccept n (parseCalls mid) ro))
  | "se" => (.sub n, .lab (.subClosedEarly n))
  | "sk" => (.sub n, .lab (.subSeeCancel n))
  | "sr" => (.sub n, .lab (.subRecv n))
  | "ua" => (.loop, .lab (.unsubAccept n))
  | "cx" => (.env n, .lab (.cancel n))
  | "sR" => (.sub n, .subRet n (arg 1))
  | "pc" => (.pub n, .lab (.pubCall n))
  | "pa" =>
    let o := arg 1
    (.loop, .lab (.pubAccept n (if o == "err" then .err else if o == "panic" then .panic else .ok 0)))
  | "pe" => (.pub n, .lab (.pubClosedEarly n))
  | "pR" => (.pub n, .pubRet n (arg 1))
  | "fs" =>
    let fl := arg 2
    (.loop, .fan n (arg 1).toNat? (fl.startsWith "1") (fl == "11"))
  | "fr" => (.loop, .lab .fanRemove)
  | "fd" => (.loop, .lab .fanDone)
  | "lx" => (.loop, .lab .loopExit)
  | "hc" => (.shut n, .lab (.shutCall n))
  | "hC" => (.shut n, .lab (.shutClose n))
  | "hr" => (.shut n, .lab (.shutRecovered n))
  | "hs" => (.shut n, .lab (.shutSeeClosed n))
  | "hx" => (.shut n, .lab (.shutCtx n))
  | "hn" => (.env (100000 + n), .lab (.shutCancel n))
  | "hR" => (.shut n, .shutRet n (arg 1))
  | _ => (.env unknownPub, .skip)

def errStr : Option Err → String
  | none => "nil"
  | some (.own _) => "own"
  | some (.replay _) => "replay"
  | some (.put _) => "put"
  | some .closed => "closed"
  | some .noTopic => "notopic"
  | some (.ctx _) => "ctx"

/-- apply one event to the model state; `none` = not enabled (now) -/
def applyEv (c : Cfg) (s : St) : Ev → Option St
  | .lab (.cancel i) => if (s.subs i).ctxCancelled then some s else step c s (.cancel i)   -- cancel funcs are idempotent
  | .lab (.shutCancel k) => if (s.shuts k).ctxDone then some s else step c s (.shutCancel k)
  | .lab l => step c s l
  | .fan i p sendOk flushOk =>
    match s.joe with
    | .fanout cur _ => if p == some cur then step c s (.fanStep i sendOk flushOk) else none
    | _ => none
  | .subRet i r =>
    match (s.subs i).pc with
    | .returned e =>
      -- a replayer hands back the subscriber's own Send/Flush error as Replay's error
      if errStr e == r || (errStr e == "replay" && r == "own") then some s else none
    | _ => none
  | .pubRet p r =>
    -- Publish's own receive from `errs` and the ErrNoTopic early return have no hook: fold them in
    let s := match (s.pubs p).pc with
      | .handed _ => (step c s (.pubRecv p)).getD s
      | .start => if r == "notopic" then (step c s (.pubNoTopic p)).getD s else s
      | _ => s
    match (s.pubs p).pc with
    | .returned e => if errStr e == r then some s else none
    | _ => none
  | .shutRet k r =>
    match (s.shuts k).pc with
    | .returned e => if errStr e == r then some s else none
    | _ => none
  | .skip => some s
  | .at _ e => applyEv c s e

/-- Trace inclusion with deferral: repeatedly take the first pending event that is enabled and
is the earliest pending event of its own goroutine. -/
partial def validate (c : Cfg) (s : St) (pending : List (Proc × Ev)) (steps : Nat) : String × St :=
  if bad s then (s!"reject: model reached a panicked/blocked state after {steps} steps", s) else
  let rec pick (seen : List Proc) (before : List (Proc × Ev)) : List (Proc × Ev) → Option (St × List (Proc × Ev))
    | [] => none
    | (pr, e) :: t =>
      if seen.contains pr then pick seen ((pr, e) :: before) t
      else match applyEv c s e with
        | some s' => some (s', before.reverse ++ t)
        | none => pick (pr :: seen) ((pr, e) :: before) t
  match pending with
  | [] => ("accept", s)
  | (pr, e) :: _ =>
    match pick [] [] pending with
    | some (s', rest) => validate c s' rest (steps + 1)
    | none => (s!"reject: after {steps} steps no pending event is enabled; first pending: {repr pr} {repr e}", s)

/-- capacity-N FIFO of publications for the `finite:N` replayer (ReplaySpec instance) -/
def pushStore (cap : Nat) (store : List Nat) (p : Nat) : List Nat :=
  let s := store ++ [p]
  s.drop (s.length - cap)

/-- What a conforming replayer sends for a presented ID: the stored publications after it.
`okLog` = the publications the replayer accepted, in order (automatic ID k denotes `okLog[k]`);
`store` = what it still holds. `none` = the presented ID is not of a currently held publication,
so the property (C04: "presents the ID of a buffered event") does not say what is replayed. -/
def candidates (auto : Bool) (okLog store : List Nat) (last : String) : Option (List Nat) :=
  if last == "-" then some [] else
  -- never issued in either mode: "x" unparsable text, "h" 2^64-1, "g" 2^63
  if last == "x" || last == "h" || last == "g" then some [] else
  let k := numAfter last 1
  let p? : Option Nat := if auto then okLog[k]? else some k
  match p? with
  | some p => if store.contains p then some ((store.dropWhile (· != p)).drop 1)
              else if auto then none else (if okLog.contains p then none else some [])
  -- automatic ID k with k ≥ the number of accepted Puts so far: not issued (yet) when Replay ran
  | none => some []

structure Obs where
  log : List Nat := []
  okLog : List Nat := []
  store : List Nat := []
  exps : List (Nat × Int) := []      -- expiry instants (ValidReplayer)
  now : Int := 0
  fanCur : Option Nat := none
  /-- per sub: (registered at log length, end at log length, live sends seen, replayed calls, failed) -/
  reg : List (Nat × Nat) := []
  ended : List (Nat × Nat) := []
  live : List (Nat × Nat) := []        -- (sub, pub) in order
  viol : List String := []
  returnedSubs : List Nat := []
  cancelled : List Nat := []
  ownFailed : List Nat := []
  faults : Bool := false
  exited : Bool := false
  pubRets : List (Nat × String) := []
  putErrs : List Nat := []             -- publications whose Put returned an error (the loop's own record)

def intersects (a b : List Nat) : Bool := a.any fun x => b.contains x

/-- The property predicates, evaluated on the recorded order of the loop's events (a faithful
order: they all come from Joe's single goroutine) and the harness's return records. -/
def judge (sc : Scenario) (evs : List (Proc × Ev)) : List String :=
  let cap : Option Nat := match sc.rep.splitOn ":" with
    | ["finite", n] => n.toNat?
    | _ => none
  let ttl : Option Int := match sc.rep.splitOn ":" with
    | ["valid", n] => n.toNat?.map fun k => (k : Int) * 1000
    | _ => none
  let real := cap.isSome || ttl.isSome
  -- flatten clock stamps
  let evs : List (Proc × Ev × Option Int) := evs.map fun pe => match pe.2 with
    | .at t e => (pe.1, e, some t)
    | e => (pe.1, e, none)
  let o : Obs := evs.foldl (fun o pe =>
    let o := match pe.2.2 with | some t => { o with now := t } | none => o
    match pe.2.1 with
    | .lab (.subAccept i rc ro) =>
      let o := if ro != .ok then { o with faults := true } else o
      -- C04: what was replayed
      let sends := rc.filterMap fun c => match c with | .send p _ => some p | _ => none
      let anyFail := rc.any fun c => match c with | .send _ ok => !ok | .flush ok => !ok
      let o := if sends.contains unknownPub then
          { o with viol := s!"C04:sub{i} was replayed a message that no Put returned" :: o.viol } else o
      let o := if real then
          -- what is held and unexpired right now
          let held := o.store.filter fun p => match ttl with
            | some _ => (((o.exps.find? (·.1 == p)).map (·.2)).getD 0) > o.now
            | none => true
          let last := (sc.subLast[i]?).getD "-"
          -- the presented publication itself must still be held and unexpired for the property to speak
          let presentedOK : Bool := match candidates sc.auto o.okLog held last with | some _ => true | none => false
          match candidates sc.auto o.okLog o.store last, presentedOK with
          | some after, true =>
            let want := (after.filter fun p => held.contains p).filter fun p =>
              intersects ((sc.subTopics[i]?).getD []) ((sc.pubTopics[p]?).getD [])
            if (!anyFail && sends != want) || (anyFail && !(sends.isPrefixOf want)) then
              { o with viol := s!"C04:sub{i} replayed {sends}, expected {want} (held {held}, presented {last})" :: o.viol }
            else o
          | _, _ => o
        else
          if !rc.isEmpty && sc.rep != "none" then
            { o with viol := s!"C04:sub{i} got replay calls from a replayer that replays nothing" :: o.viol } else o
      let o := if anyFail then { o with ownFailed := i :: o.ownFailed, faults := true } else o
      if ro == .err then o else { o with reg := (i, o.log.length) :: o.reg }
    | .lab (.pubAccept p po) =>
      let o := if po != .ok 0 then { o with faults := true } else o
      let store := match cap, po with
        | some c, .ok _ => pushStore c o.store p
        | none, .ok _ => if sc.rep == "none" then o.store else o.store ++ [p]
        | _, _ => o.store
      let isOk := match po with | .ok _ => true | _ => false
      let exps := match ttl with
        | some t => if isOk then (p, o.now + t) :: o.exps else o.exps
        | none => o.exps
      let putErrs := if po == .err then p :: o.putErrs else o.putErrs
      { o with log := o.log ++ [p], okLog := if isOk then o.okLog ++ [p] else o.okLog, store := store, exps := exps, fanCur := some p, putErrs := putErrs }
    | .fan i p sendOk flushOk =>
      let o := match p with
        | some q => { o with live := o.live ++ [(i, q)] }
        | none => { o with viol := s!"C04:sub{i} was sent a message that is neither published nor returned by Put" :: o.viol }
      let o := if o.returnedSubs.contains i then
        { o with viol := s!"C03:sub{i} was sent a message after its Subscribe returned (it is no longer a subscriber)" :: s!"C06:sub{i} was written to after its Subscribe returned" :: o.viol } else o
      let o := if o.ownFailed.contains i then
        { o with viol := s!"C17:sub{i} is still being sent to after its own Send/Flush failed (it must have been removed)" :: o.viol } else o
      if sendOk && flushOk then o
      else { o with ended := (i, o.log.length) :: o.ended, ownFailed := i :: o.ownFailed, faults := true }
    | .lab (.unsubAccept i) => if (o.ended.find? (·.1 == i)).isSome then o else { o with ended := (i, o.log.length) :: o.ended }
    | .lab .loopExit =>
      let open' := o.reg.filter fun r => (o.ended.find? (·.1 == r.1)).isNone
      { o with ended := open'.map (fun r => (r.1, o.log.length)) ++ o.ended, exited := true }
    | .lab (.cancel i) => { o with cancelled := i :: o.cancelled }
    | .pubRet p r => { o with pubRets := (p, r) :: o.pubRets }
    | .shutRet k r =>
      if r == "nil" && !o.exited then
        { o with viol := s!"C07:Shutdown call {k} returned nil before all subscribers were released" :: o.viol }
      else if r != "nil" && r != "closed" && r != "ctx" then
        -- "Shutdown itself returns nil … or its context's error", a repeated call ErrProviderClosed: nothing else
        { o with viol := s!"C07:Shutdown call {k} returned {r}" :: o.viol }
      else o
    | .subRet i r =>
      let o := { o with returnedSubs := i :: o.returnedSubs }
      -- C06: own error is returned if one occurred and the subscription was not also cancelled
      if o.ownFailed.contains i && !o.cancelled.contains i && r != "own" && r != "replay" then
        -- (C17 as well: "… and gets the error from Subscribe")
        { o with viol := s!"C17:sub{i} failed but Subscribe returned {r}" :: s!"C06:sub{i} failed but Subscribe returned {r}" :: o.viol }
      else if r != "nil" && r != "own" && r != "replay" && r != "closed" then
        { o with viol := s!"C06:Subscribe of sub{i} returned {r}" :: o.viol }
      else o
    | _ => o) {}
  -- C03 / C17: per subscriber, live sends = the matching publications of its window of the log
  let perSub := o.reg.foldl (fun acc r =>
    let i := r.1
    let endAt := ((o.ended.find? (·.1 == i)).map (·.2)).getD o.log.length
    let window := (o.log.take endAt).drop r.2
    let want := window.filter fun p => intersects ((sc.subTopics[i]?).getD []) ((sc.pubTopics[p]?).getD [])
    let got := (o.live.filter (·.1 == i)).map (·.2)
    if got == want then acc
    else
      let tag := if o.faults && !o.ownFailed.contains i then "C17" else "C03"
      s!"{tag}:sub{i} was sent {got}, expected {want} (log {o.log}, registered at {r.2}, ended at {endAt})" :: acc) []
  let stray := (o.live.filter fun l => (o.reg.find? (·.1 == l.1)).isNone).map fun l =>
    s!"C03:sub{l.1} was sent {l.2} without being registered"
  -- a Publish that returned nil or the replayer's error was accepted by the loop (and so delivered);
  -- judged at the end of the trace: Publish may return before the loop's hook is recorded
  let unaccepted := o.pubRets.filterMap fun pr =>
    if (pr.2 == "nil" || pr.2 == "put") && !o.log.contains pr.1 then
      some s!"{if pr.2 == "put" then "C17" else "C03"}:Publish of pub{pr.1} returned {pr.2} but Joe never accepted the message for delivery"
    else none
  -- C17: Publish returns the replayer's error exactly when this publication's Put returned one; after a panic
  -- (and when Put stored the message) it returns nil, "as if no replayer were configured"
  let wrongRet := o.pubRets.filterMap fun pr =>
    if !o.log.contains pr.1 then none
    else if pr.2 == "put" && !o.putErrs.contains pr.1 then
      some s!"C17:Publish of pub{pr.1} returned a replayer error although its Put call returned none"
    else if pr.2 == "nil" && o.putErrs.contains pr.1 then
      some s!"C17:Publish of pub{pr.1} returned nil although its Put call returned an error"
    else none
  (o.viol ++ perSub ++ stray ++ unaccepted ++ wrongRet).reverse

/-- "every Send is followed by a Flush before Joe goes idle", for the Sends of a replay inside Joe's subscription step:
a replay that returned no error and sent something ends with a Flush (a replay that failed was abandoned at the
failing call) -/
def judgeReplayFlush (sc : Scenario) (evs : List (Proc × Ev)) : List String :=
  if !(sc.rep.startsWith "finite" || sc.rep.startsWith "valid") then [] else
  evs.filterMap fun pe =>
    let e := match pe.2 with | .at _ e => e | e => e
    match e with
    | .lab (.subAccept i calls .ok) =>
      let sent := calls.any fun c => match c with | .send _ _ => true | _ => false
      let flushedLast := match calls.getLast? with | some (.flush _) => true | _ => false
      if sent && !flushedLast then some s!"C03:the replay for sub{i} sent messages and returned without a Flush after the last one"
      else none
    | _ => none

/-- publications that violate the replayer's ID mode must be rejected by Put, all others accepted -/
def judgePuts (sc : Scenario) (evs : List (Proc × Ev)) : List String :=
  if !(sc.rep.startsWith "finite" || sc.rep.startsWith "valid") then [] else
  evs.filterMap fun pe =>
    let e := match pe.2 with | .at _ e => e | e => e
    match e with
    | .lab (.pubAccept p po) =>
      let bad := (sc.pubBad[p]?).getD false
      let isOk := match po with | .ok _ => true | _ => false
      if bad && isOk then some s!"C04:Put accepted pub{p} although it violates the replayer's ID mode"
      else if !bad && !isOk then some s!"C04:Put rejected the well-formed pub{p}"
      else none
    | _ => none

def factsTag (f : String) : List String :=
  if f == "ok" then [] else
  ((f.drop 4).toString.splitOn ",").flatMap fun x =>
    -- (C06: "Subscribe returns the subscriber's own … error if one occurred"; C17: "… and gets the error from Subscribe")
    if x.startsWith "SUBSCRIBE-DROPPED-JOES-VERDICT" then ["C06:" ++ x, "C17:" ++ x] else
    -- (the same two clauses: the error a Subscribe call returns is that subscriber's own, not another subscriber's)
    if x.startsWith "SUBSCRIBE-RETURNED-ANOTHERS-ERROR" then ["C06:" ++ x, "C17:" ++ x] else
    -- (C03 as well: a subscriber whose Subscribe call has returned is no longer registered — "never to any other subscriber")
    if x.startsWith "CALL-AFTER-RETURN" then ["C06:" ++ x, "C03:" ++ x] else
    -- (C06: "Subscribe returns … nil when it ended through cancellation or shutdown"; C07: every pending Subscribe returns)
    if x.startsWith "SUBSCRIBE-NEVER-RETURNED" then ["C06:" ++ x, "C07:" ++ x] else
    List.singleton <|
    if x.startsWith "CALL-AFTER-RETURN" then "C06:" ++ x
    else if x.startsWith "REPLAYER-USED-AFTER-PANIC" || x.startsWith "REJECTED-WITHOUT-REPLAY-ERROR"
      || x.startsWith "REGISTERED-DESPITE-REPLAY-ERROR" then "C17:" ++ x
    else if x.startsWith "SEND-WITHOUT-FLUSH" || x.startsWith "STRAY-FLUSH" then "C03:" ++ x
    else if x.startsWith "UNKNOWN-MESSAGE" then "C04:" ++ x
    else if x.startsWith "CALLER-MESSAGE-MODIFIED" then "C19:" ++ x
    else "C07:" ++ x

def joe (args : List String) : String × String :=
  match args.getLast? with
  | some g =>
    if !g.startsWith "GO=" then ("need-observation", "need-observation") else
    match (g.drop 3).toString.splitOn " ## " with
    | [facts, scen, trace] =>
      let sc := parseScenario scen
      let evs := if trace == "-" then [] else (trace.splitOn ",").map parseEv
      let cfg : Cfg := { subTopics := fun i => (sc.subTopics[i]?).getD [], pubTopics := fun p => (sc.pubTopics[p]?).getD [] }
      let init : St := GoSSE.Model.Joe.init (sc.rep != "none")
      let v := validate cfg init evs 0
      let viol := factsTag facts ++ judge sc evs ++ judgePuts sc evs ++ judgeReplayFlush sc evs
      (v.1, if viol.isEmpty then "ok" else "viol " ++ " ;; ".intercalate viol)
    | _ => ("bad-observation", "bad-observation")
  | none => ("bad-args", "bad-args")

def handle (op : String) (args : List String) : Option (String × String) :=
  match op with
  | "JOE" => some (joe args)
  | _ => none

end Driver.JoeD
