import Driver.Common
/-! Driver ops of this group; `handle op args` returns `none` for ops it does not know. -/
namespace Driver.JoeD
open GoSSE Driver

def handle (op : String) (args : List String) : Option (String × String) :=
  match op, args with
  | _, _ => none

end Driver.JoeD
