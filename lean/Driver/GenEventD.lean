import Driver.ParserD
import GoSSE.Gen.Event
import GoSSE.Proofs.GenEquivEvent
/-!
`GPARSE <args of PARSE>`: event.go's `read` **as translated** (`GoSSE/Gen/Event.lean`), reading its fields from the
hand-written model of `parser.Parser` (which is not translated) through the interface `ParserI`, delivering to a
consumer that records what it is given and stops where the case says. Model column = that run, specification
column = the hand-written model's `implRun`; the number of bytes pulled from the reader is not visible through `read`
and is masked (`-`) on all three sides.
-/
namespace Driver.GenEventD
open GoSSE GoSSE.GoRT GoSSE.Spec GoSSE.Model Driver Driver.ParserD

open GoSSE.GenEquiv (parserI Cons yieldOf onRetryOf)

def showErrG : Option String → String
  | none => "nil" | some "io.EOF" => "EOF" | some "parser.ErrUnexpectedEOF" => "UEOF"
  | some "READ" => "READ" | some "TOOLONG" => "TOOLONG" | some e => "OTHER:" ++ e

def gparse (args : List String) : String × String :=
  match args with
  | c :: e :: ewl :: cfg :: stop :: lid :: chunks :: _ =>
    let conn := boolOf c
    let cs := (unhexList chunks).filter (!·.isEmpty)
    let stopAt := stop.toNat?
    let src : Source := { chunks := cs, endErr := boolOf e, errWithLast := boolOf ewl }
    let evs (o : List Out) := o.filter fun x => match x with | .event _ => true | _ => false
    -- (`:w`: the connection's initial interval is 1 ms + 7 ns, so that the wait before the second attempt is short)
    let base : Int := if cfg.endsWith ":w" then 1000007 else parseInitialInterval
    let wait (o : List Out) := if conn then toString (retryInterval base o) else "-"
    let hand := implRun conn (unhex lid) src (parseCfg cfg) stopAt
    let hs := s!"{showOuts (evs hand.1)} | {showPErr hand.2.1} | - | {wait hand.1}"
    let p0 : Model.Parser := { sc := mkScanner src (parseCfg cfg) }
    match Gen.read (src.size + 8) (pure (parserI p0)) (unhex lid) (onRetryOf conn) (!conn) (yieldOf stopAt) {} with
    | .error (.panic m) => ("PANIC " ++ m, hs)
    | .error .fuel => ("FUEL", hs)
    | .ok st => (s!"{showOuts (evs st.outs)} | {showErrG st.err} | - | {wait st.outs}", hs)
  | _ => ("bad-args", "bad-args")

def handle (op : String) (args : List String) : Option (String × String) :=
  match op with
  | "GPARSE" => some (gparse args)
  | _ => none

end Driver.GenEventD
