import Driver.Common
import Driver.ParserD
import GoSSE.Model.Connection
import GoSSE.Model.Registry
/-! Driver ops of the client group (C10–C13); `handle op args` returns `none` for ops it does not know.

* `CONN <backoff> <defaults> <body> <hdr> <done0> <history>` — a whole `Connect` run (C10, C11, C12)
* `CTRL <backoff> <defaults> <ops>` — the back-off controller alone (C12)
* `FLOAT g <cur> <maxI> <mul>` / `FLOAT n <cur> <jit> <draw>` — `growInterval` / `nextInterval` (C12, testing)
* `MERGE <backoff> <defaults>` — `mergeDefaults` (C12)
* `REG <mode> <script>` — subscription scripts (C13); `REGC …` — concurrent variant, judged by the harness
-/
namespace Driver.ClientD
open GoSSE GoSSE.Spec GoSSE.Spec.Client GoSSE.Model GoSSE.Model.Client Driver

/-! ### parsing -/

def parseFV (s : String) : FV :=
  if s == "nan" then .nan else
  match s.splitOn "/" with
  | [n, d] => .rat ((parseInt? n).getD 0) (d.toNat?.getD 1)
  | [n] => .rat ((parseInt? n).getD 0) 1
  | _ => .nan

def showFV : FV → String
  | .nan => "nan"
  | .rat n d => s!"{n}/{d}"

def int (s : String) : Int := (parseInt? s).getD 0

/-- `ii,mul,jit,maxI,maxE,maxR` -/
def parseBackoff (s : String) : Backoff FV :=
  match s.splitOn "," with
  | [ii, mul, jit, mi, me, mr] => ⟨int ii, parseFV mul, parseFV jit, int mi, int me, int mr⟩
  | [ii, mul, jit] => ⟨int ii, parseFV mul, parseFV jit, 0, 0, 0⟩
  | _ => ⟨0, .nan, .nan, 0, 0, 0⟩

def showBackoff (b : Backoff FV) : String :=
  s!"{b.initialInterval},{showFV b.multiplier},{showFV b.jitter},{b.maxInterval},{b.maxElapsedTime},{b.maxRetries}"

def ratOf : FV → Int × Nat
  | .rat n d => (n, d)
  | .nan => (0, 1)

def floatsOf (b : Backoff FV) : Floats :=
  let m := ratOf b.multiplier
  let j := ratOf b.jitter
  exactFloats m.1 m.2 j.1 j.2

/-- the specification's view of a merged configuration -/
def scfgOf (b : Backoff FV) : SCfg :=
  let m := ratOf b.multiplier
  { initialInterval := b.initialInterval, maxInterval := b.maxInterval, maxElapsedTime := b.maxElapsedTime,
    maxRetries := b.maxRetries, jitterOff := b.jitter == .rat (-1) 1 || (match b.jitter with | .rat n d => n == -(d : Int) | _ => false),
    mul := fun x => (x * m.1).tdiv m.2 }

/-! ### printing -/

def showErr : ErrV → String
  | .nil => "nil" | .ctx => "CTX" | .transport => "TRANSPORT" | .validator => "VALIDATOR"
  | .noGetBody => "NOGETBODY" | .getBody => "GETBODY" | .eof => "EOF" | .ueof => "UEOF"
  | .read => "READ" | .tooLong => "TOOLONG"

def showReason : Reason → String
  | .resetFailed => "reset" | .connFailed => "conn" | .validation => "valid" | .lost => "lost"

def showRes : Res → String
  | .bare e => "B:" ++ showErr e
  | .wrapped why e => "W:" ++ showReason why ++ ":" ++ showErr e

def showBody : BodyRef → String
  | .none => "nil" | .noBody => "nobody" | .orig => "B0" | .fresh k => s!"B{k}"

def showHdr : Option Bytes → String
  | none => "none"
  | some b => "h:" ++ hex b

def showItem : TItem → String
  | .attempt h b g => s!"A {showHdr h} {showBody b} {g}"
  | .connected outs => "C " ++ ParserD.showOuts (outs.filter isEvent)
  | .retry e w => s!"R {showRes e} {w}"

def showTrace (tr : List TItem) (r : Option Res) : String :=
  " | ".intercalate (tr.map showItem ++ [match r with | some r => "RET " ++ showRes r | none => "RET pending"])

/-! ### CONN -/

structure PAttempt where
  kind : Char            -- T V S
  sub : Char             -- T: 0..3; V: 0/1; S: E R C K
  ewl : Bool := false
  cancel : String := "-"
  chunks : List Bytes := []
  bang : Bool := false

def parseAttempt (s0 : String) : PAttempt :=
  let bang := s0.startsWith "!"
  let s := if bang then (s0.drop 1).toString else s0
  let cs := s.toList
  match cs with
  | 'T' :: c :: _ => { kind := 'T', sub := c, bang }
  | 'V' :: c :: _ => { kind := 'V', sub := c, bang }
  | 'S' :: c :: _ =>
    match s.splitOn ":" with
    | [hd, cancel, chunks] =>
      { kind := 'S', sub := c, ewl := hd.toList.contains 'w', cancel, chunks := (unhexList chunks).filter (!·.isEmpty), bang }
    | _ => { kind := 'S', sub := c, bang }
  | _ => { kind := 'T', sub := '1', bang }

def sourceOf (p : PAttempt) : Source :=
  { chunks := p.chunks, endErr := p.sub != 'E', errWithLast := p.ewl }

/-- is the context cancelled during this attempt, before `doConnect` inspects it? For `e<k>` this
depends on how many events the stream dispatches (`nEvents`). -/
def cancelDuringOf (p : PAttempt) (nEvents : Nat) : Bool :=
  match p.kind with
  | 'T' => p.sub == '1' || p.sub == '3'
  | 'V' => p.sub == '1'
  | _ =>
    p.sub == 'C' || p.cancel == "b" ||
      (p.cancel.startsWith "e" && (match (p.cancel.drop 1).toNat? with | some k => decide (k ≥ 1 ∧ k ≤ nEvents) | none => false))

def countEv (o : List Out) : Nat := (o.filter isEvent).length

/-- observed trace: number of `A` items, is the result the bare context error, waits of the `R` items -/
def parseGo (go : String) : Nat × Bool × List Int :=
  let items := go.splitOn " | "
  let nA := (items.filter (·.startsWith "A ")).length
  let ctx := items.any (· == "RET B:CTX")
  let waits := items.filterMap fun it =>
    if it.startsWith "R " then (match it.splitOn " " with | [_, _, w] => parseInt? w | _ => none) else none
  (nA, ctx, waits)

def conn (args : List String) : String × String :=
  match args with
  | bk :: df :: body :: hdr :: done0 :: hist :: rest =>
    let go := (rest.find? (·.startsWith "GO=")).map (fun s => (s.drop 3).toString)
    let (nA, retCtx, waits) := parseGo (go.getD "")
    let b := mergeDefaults FV.ops (parseBackoff df) (parseBackoff bk)
    let cfg := toCfg FV.ops b
    let fl0 := floatsOf b
    -- with jitter on, the random draw is not an input of the case: the abstract `jitter` function is
    -- instantiated with what the environment produced (draw = index of the retry)
    let fl : Floats := { fl0 with jitter := fun c u => waits.getD u.toNat c }   -- a refused retry has no observed wait: its base
    let (body0, gb) : BodyRef × GetBody := match body.splitOn ":" with
      | ["none"] => (.none, .absent)
      | ["nobody"] => (.noBody, .absent)
      | ["gb"] => (.orig, .present none)
      | ["gbfail", k] => (.orig, .present (some (k.toNat?.getD 0)))
      | _ => (.orig, .absent)
    -- `<hdr>[+b:<cap>:<max>]`: the initial Last-Event-ID header and an optional `Connection.Buffer(make([]byte, 0, cap), max)`
    let hdrParts := hdr.splitOn "+"
    let hdrH := hdrParts.headD "-"
    let buf0 : Option (Nat × Int) := (hdrParts.drop 1).findSome? fun tok => match tok.splitOn ":" with
      | ["b", c, mx] => some (c.toNat?.getD 0, (parseInt? mx).getD 0)
      | _ => none
    -- `+w`: an earlier `Connect` call on the same Connection made one attempt, which the validator rejected: this
    -- call's first attempt is a reconnection (the request is reset, C10), with a back-off series of its own
    let warm : Bool := (hdrParts.drop 1).contains "w"
    let hdr0 : Option Bytes := if hdrH.startsWith "h:" then some (unhex (hdrH.drop 2).toString) else none
    let ps := ((hist.splitOn ";").filter (· != "-")).map parseAttempt ++ [{ kind := 'T', sub := '1' }]
    let timerWins (i : Nat) : Bool := decide (i < nA) || !retCtx
    -- model attempts: `cancelDuring` of `e<k>` needs the number of events the model's read dispatches;
    -- thread the last event ID as the model does
    let mk : List PAttempt → Nat → Bytes → List Attempt
      := fun ps i0 id0 => (ps.foldl (fun (acc : List Attempt × Nat × Bytes) p =>
          let (l, i, id) := acc
          match p.kind with
          | 'T' => (l ++ [{ timerWins := timerWins i, out := .transport (p.sub == '1' || p.sub == '2'),
                            cancelDuring := cancelDuringOf p 0, cancelAfter := p.bang, draw := i }], i + 1, id)
          | 'V' => (l ++ [{ timerWins := timerWins i, out := .rejected, cancelDuring := cancelDuringOf p 0,
                            cancelAfter := p.bang, draw := i }], i + 1, id)
          | _ =>
            let r := implRun true id (sourceOf p) buf0
            (l ++ [{ timerWins := timerWins i, out := .stream (sourceOf p) (p.sub == 'C' || p.sub == 'K'),
                     cancelDuring := cancelDuringOf p (countEv r.1), cancelAfter := p.bang, draw := i }],
             i + 1, GoSSE.Spec.Client.lastDispatched id r.1)) ([], i0, id0)).1
    let h := mk ps 0 []
    let c : Conn := { req := { header := hdr0, body := body0, getBody := gb }, buf := buf0, isRetry := warm }
    let m := connect cfg fl c 0 (boolOf done0) h
    -- specification attempts
    let sc := scfgOf b
    let smk := (ps.foldl (fun (acc : List SAttempt × Nat × Bytes) p =>
          let (l, i, id) := acc
          let w : Int → Int := fun b => waits.getD i b
          match p.kind with
          | 'T' => (l ++ [{ timerWins := timerWins i, out := .transport (p.sub == '1' || p.sub == '2'),
                            cancelDuring := cancelDuringOf p 0, cancelAfter := p.bang, elapsed := 0, wait := w }], i + 1, id)
          | 'V' => (l ++ [{ timerWins := timerWins i, out := .rejected, cancelDuring := cancelDuringOf p 0,
                            cancelAfter := p.bang, elapsed := 0, wait := w }], i + 1, id)
          | _ =>
            let bytes := p.chunks.flatten
            let ek : EndKind := if p.sub == 'E' then .eof else .err
            let r := Spec.run .gosse true id bytes ek
            (l ++ [{ timerWins := timerWins i, out := .stream bytes ek (p.sub == 'C' || p.sub == 'K'),
                     cancelDuring := cancelDuringOf p (countEv r.1), cancelAfter := p.bang, elapsed := 0, wait := w }],
             i + 1, GoSSE.Spec.Client.lastDispatched id r.1)) (([] : List SAttempt), 0, ([] : Bytes))).1
    let s := if warm then specLoop sc body0 gb hdr0 smk 1 [] 0 sc.initialInterval (boolOf done0)
             else specConnect sc body0 gb hdr0 (boolOf done0) smk
    -- C12, jitter on: every observed wait must lie within ±Jitter of its base (+1 ns)
    let j := ratOf b.jitter
    let bases : List Int := (s.1.foldl (fun (acc : List Int × Nat × Int) it =>
        let (l, k, b1) := acc
        match it with
        | .connected outs => (l, 0, retryBase sc.initialInterval outs)
        | .retry _ _ => (l ++ [baseAt sc b1 k], k + 1, b1)
        | _ => (l, k, b1)) ([], 0, sc.initialInterval)).1
    let within := cfg.jitterOff || (bases.zip waits).all fun (bw : Int × Int) =>
      let d := bw.2 - bw.1
      -- |w - b| * jd ≤ jn * b + 2*jd
      decide ((if d < 0 then -d else d) * j.2 ≤ j.1 * bw.1 + 2 * j.2)
    (showTrace m.trace m.result, showTrace s.1 s.2 ++ (if within then "" else " | JITTER-OUT-OF-BOUNDS"))
  | _ => ("bad-args", "bad-args")

/-! ### CTRL -/

def ctrl (args : List String) : String × String :=
  match args with
  | bk :: df :: ops :: _ =>
    let b := mergeDefaults FV.ops (parseBackoff df) (parseBackoff bk)
    let cfg := toCfg FV.ops b
    let fl := floatsOf b
    let sc := scfgOf b
    let opl := (ops.splitOn ";").filter (· != "-")
    -- model: clock = 0 at every reset, `now = elapsed` at every next
    let m := opl.foldl (fun (acc : Ctl × List String) o =>
      let (c, out) := acc
      match o.splitOn ":" with
      | ["N", el, dr] =>
        let c0 := { c with start := 0 }     -- SetElapsed
        let r := c0.next cfg fl (int el) (int dr)
        (r.1, out ++ [s!"N {match r.2 with | some w => toString w | none => "stop"} {r.1.interval} {r.1.numRetries}"])
      | ["R", d] =>
        let c' := c.reset cfg (int d) 0
        (c', out ++ [s!"R {c'.interval} {c'.numRetries}"])
      | _ => (c, out ++ ["?"])) (Ctl.new cfg 0, [])
    -- specification: (b1, k) and closed forms
    let s := opl.foldl (fun (acc : (Int × Nat) × List String) o =>
      let ((b1, k), out) := acc
      match o.splitOn ":" with
      | ["N", el, dr] =>
        if !retryAllowed sc k then ((b1, k), out ++ [s!"N stop {baseAt sc b1 k} {k}"])
        else
          let base := baseAt sc b1 k
          let w := if sc.jitterOff then base else fl.jitter base (int dr)
          let stop := sc.maxElapsedTime > 0 && int el + w > sc.maxElapsedTime
          ((b1, k + 1), out ++ [s!"N {if stop then "stop" else toString w} {baseAt sc b1 (k + 1)} {k + 1}"])
      | ["R", d] =>
        let b1' := if int d > 0 then int d else sc.initialInterval
        ((b1', 0), out ++ [s!"R {b1'} 0"])
      | _ => ((b1, k), out ++ ["?"])) ((sc.initialInterval, 0), [])
    (" | ".intercalate m.2, " | ".intercalate s.2)
  | _ => ("bad-args", "bad-args")

/-! ### FLOAT, MERGE -/

def float (args : List String) : String × String :=
  match args with
  | "g" :: cur :: maxI :: mul :: _ =>
    let m := ratOf (parseFV mul)
    let fl := exactFloats m.1 m.2 0 1
    let r := growInterval fl (int cur) (int maxI)
    -- specification: min(cur·mul, maxI) when maxI is set
    let p := (int cur * m.1).tdiv m.2
    let s := if int maxI > 0 then min p (int maxI) else p
    (toString r, toString s)
  | "n" :: cur :: jit :: draw :: _ =>
    let j := ratOf (parseFV jit)
    let cfg : Cfg := { initialInterval := 1, jitterOff := parseFV jit == .rat (-1) 1 }
    let fl := exactFloats 1 1 j.1 j.2
    let r := nextInterval cfg fl (int cur) (int draw)
    (toString r, toString r)
  | _ => ("bad-args", "bad-args")

def merge (args : List String) : String × String :=
  match args with
  | bk :: df :: _ =>
    let b := parseBackoff bk
    let d := parseBackoff df
    let m := mergeDefaults FV.ops d b
    let s : Backoff FV := { b with
      initialInterval := if keepInitial b.initialInterval then b.initialInterval else d.initialInterval,
      multiplier := if keepMultiplier (b.multiplier.cls) then b.multiplier else d.multiplier,
      jitter := if keepJitter (b.jitter.cls) then b.jitter else d.jitter }
    (showBackoff m, showBackoff s)
  | _ => ("bad-args", "bad-args")

/-! ### REG -/

def parseROp (s : String) : Option ROp :=
  match s.splitOn ":" with
  | ["s", t] => some (.sub (unhex t))
  | ["a"] => some .subAll
  | ["u", k] => k.toNat?.map .unsub
  | ["e", t] => some (.event (unhex t))
  | _ => none

def sortNat (l : List Nat) : List Nat := (l.toArray.qsort (· < ·)).toList

def showLog (log : List (List Nat)) : String :=
  if log.isEmpty then "-" else
  ";".intercalate (log.map fun ids => if ids.isEmpty then "_" else ",".intercalate ((sortNat ids).map toString))

def reg (args : List String) : String × String :=
  match args with
  | _mode :: script :: _ =>
    let ops := ((script.splitOn ";").filter (· != "-")).filterMap parseROp
    let m := runScript ops
    let s := specScript ops
    (showLog m.log ++ " | ord=ok", showLog s.log ++ " | ord=ok")
  | _ => ("bad-args", "bad-args")

def handle (op : String) (args : List String) : Option (String × String) :=
  match op with
  | "CONN" => some (conn args)
  | "CTRL" => some (ctrl args)
  | "FLOAT" => some (float args)
  | "MERGE" => some (merge args)
  | "REG" => some (reg args)
  | "REGC" => some ("ok", "ok")
  | _ => none

end Driver.ClientD
