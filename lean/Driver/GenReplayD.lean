import Driver.ReplayD
import Driver.MessageD
import GoSSE.Gen.Replay
import GoSSE.Gen.Unmarshal
import GoSSE.Gen.Write
import GoSSE.Proofs.GenEquivWrite
import GoSSE.Proofs.GenEquivFieldRoutes
import GoSSE.Proofs.GenEquivUpgrade
/-!
Ops that run the *translated* replayers (`GoSSE/Gen/Replay.lean`: `FiniteReplayer.Put/Replay`, `ValidReplayer.Put/GC/Replay`
with `ensureID`, `findIDInQueue`, `queue.each` …, regenerated from /repo's replay.go on every run) over whole histories:

  GFINITE <N> <auto> <ops>      GVALID <ttl> <gcInterval|d> <auto> <ops>       (the histories of FINITE / VALID)

model column = the translated code, specification column = the hand-written model (`Model/Finite.lean`,
`Model/Valid.lean`); the real code's output must equal both. A message is its tag: one data chunk `m<k>`.
The ValidReplayer's clock starts at a non-zero instant (`time.Now()` never returns the zero Time).
-/
namespace Driver.GenReplayD
open GoSSE GoSSE.GoRT GoSSE.Spec Driver Driver.ReplayD

def F : Nat := 100000000

def genID : Option Bytes → Gen.EventID
  | none => { messageField := { value := [], set := false } }
  | some v => { messageField := { value := v, set := true } }

def mkMsg (k : Nat) (id : Option Bytes) : Gen.Message :=
  { chunks := [{ content := (s!"m{k}").toUTF8.toList, isComment := false }], ID := genID id,
    Type' := { messageField := { value := [], set := false } }, Retry := 0 }

def tagOf (m : Gen.Message) : String :=
  match m.chunks with
  | c :: _ => (String.fromUTF8! ⟨(c.content.drop 1).toArray⟩)
  | [] => "?"

def showGenID (i : Gen.EventID) : String := if i.messageField.set then hex i.messageField.value else "~"

def showPutG (r : Option Gen.Message × Option String) : String :=
  match r.2 with
  | some "ErrNoTopic" => "P!NOTOPIC"
  | some "message has no ID" => "P!NOID"
  | some "message already has an ID, can't use generated ID" => "P!HASID"
  | some e => "P!OTHER(" ++ e ++ ")"
  | none => match r.1 with
    | some m => "P=" ++ showGenID m.ID
    | none => "P=nil"

/-- the recording subscriber: its `failAt`-th Send (0-based) fails, its Flush may; every call is recorded -/
structure Rec where
  calls : List String := []
  sends : Nat := 0

def recWriter (failAt : Option Nat) (flushFails : Bool) : MsgWriter Gen.Message Rec :=
  { st := {},
    send := fun st m =>
      let c := match m with
        | some m => s!"S{tagOf m}.{showGenID m.ID}"
        | none => "Snil"
      (if failAt == some st.sends then some "SEND" else none, { calls := st.calls ++ [c], sends := st.sends + 1 }),
    flush := fun st => (if flushFails then some "FLUSH" else none, { st with calls := st.calls ++ ["F"] }) }

def mkSub (sub : Sub) : Gen.Subscription Rec :=
  { Client := recWriter sub.failAt sub.flushFails, LastEventID := genID sub.lastEventID, Topics := sub.topics }

def showReplayG (err : Option String) (s : Gen.Subscription Rec) : String :=
  let c := if s.Client.st.calls.isEmpty then "-" else ",".intercalate s.Client.st.calls
  s!"R={c}/{err.getD "nil"}"

def showFault : Fault → String
  | .panic _ => "PANIC"
  | .fuel => "FUEL"

/-! ### FiniteReplayer -/

def finiteGen (f : Gen.FiniteReplayer) : Nat → List Op → List String → String
  | _, [], acc => join acc.reverse
  | k, op :: rest, acc =>
    match op with
    | .put t i =>
      match Gen.FiniteReplayer_Put F f (some (mkMsg k i)) t with
      | .error e => showFault e
      | .ok r => finiteGen r.2.2 (k + 1) rest (showPutG (r.1, r.2.1) :: acc)
    | .bulk t n =>
      let rec go : Nat → Gen.FiniteReplayer → List String → Except Fault (Gen.FiniteReplayer × List String)
        | 0, f, rs => .ok (f, rs.reverse)
        | j + 1, f, rs => match Gen.FiniteReplayer_Put F f (some (mkMsg k none)) t with
          | .error e => .error e
          | .ok r => go j r.2.2 (showPutG (r.1, r.2.1) :: rs)
      match go n f [] with
      | .error e => showFault e
      | .ok (f', rs) => finiteGen f' (k + 1) rest (showBulk rs :: acc)
    | .replay sub =>
      match Gen.FiniteReplayer_Replay F f (mkSub sub) with
      | .error e => showFault e
      | .ok r => finiteGen r.2.1 (k + 1) rest (showReplayG r.1 r.2.2 :: acc)
    | .gc => finiteGen f (k + 1) rest ("G" :: acc)
    | .tick _ => finiteGen f (k + 1) rest ("T" :: acc)
    | .setGC _ => finiteGen f (k + 1) rest ("I" :: acc)
    | .bad => "bad-op"

def gfinite (args : List String) : String × String :=
  match args with
  | n :: a :: ops :: _ =>
    match n.toNat? with
    | none => ("bad-args", "bad-args")
    | some n =>
      let hand := (finite false args).1
      match Gen.NewFiniteReplayer F (n : Int) (boolOf a) with
      | .error e => (showFault e, hand)
      | .ok (none, _) => ("NEWERR", hand)
      | .ok (some f, _) => (finiteGen f 0 (parseOps ops) [], hand)
  | _ => ("bad-args", "bad-args")

/-! ### ValidReplayer -/

/-- the first instant of a history (the model's clock starts at 0, where the zero Time would be) -/
def t0 : Int := 1000000000000

def validGen (v : Gen.ValidReplayer) (now : Int) : Nat → List Op → List String → String
  | _, [], acc => join acc.reverse
  | k, op :: rest, acc =>
    let v := { v with Now := pure (t0 + now) }
    match op with
    | .put t i =>
      match Gen.ValidReplayer_Put F v (some (mkMsg k i)) t with
      | .error e => showFault e
      | .ok r => validGen r.2.2 now (k + 1) rest (showPutG (r.1, r.2.1) :: acc)
    | .bulk t n =>
      let rec go : Nat → Gen.ValidReplayer → List String → Except Fault (Gen.ValidReplayer × List String)
        | 0, v, rs => .ok (v, rs.reverse)
        | j + 1, v, rs => match Gen.ValidReplayer_Put F v (some (mkMsg k none)) t with
          | .error e => .error e
          | .ok r => go j r.2.2 (showPutG (r.1, r.2.1) :: rs)
      match go n v [] with
      | .error e => showFault e
      | .ok (v', rs) => validGen v' now (k + 1) rest (showBulk rs :: acc)
    | .replay sub =>
      match Gen.ValidReplayer_Replay F v (mkSub sub) with
      | .error e => showFault e
      | .ok r => validGen r.2.1 now (k + 1) rest (showReplayG r.1 r.2.2 :: acc)
    | .gc =>
      match Gen.ValidReplayer_GC F v with
      | .error e => showFault e
      | .ok v' => validGen v' now (k + 1) rest ("G" :: acc)
    | .tick d => validGen v (now + d) (k + 1) rest ("T" :: acc)
    | .setGC g => validGen { v with GCInterval := g } now (k + 1) rest ("I" :: acc)
    | .bad => "bad-op"

def gvalid (args : List String) : String × String :=
  match args with
  | ttl :: g :: a :: ops :: _ =>
    match parseInt? ttl with
    | none => ("bad-args", "bad-args")
    | some ttl =>
      let hand := (valid false args).1
      -- (`NewValidReplayer` stores `time.Now` and is not translated: its result is written out here)
      if ttl ≤ 0 then ("NEWERR", hand) else
      let gci : Int := if g == "d" then Int.tdiv ttl 4 else (parseInt? g).getD 0
      let v : Gen.ValidReplayer :=
        { lastGC := 0, Now := pure t0, currentID := if boolOf a then some 0 else none,
          messages := { buf := [], head := 0, tail := 0, count := 0 }, ttl := ttl, GCInterval := gci }
      (validGen v 0 0 (parseOps ops) [], hand)
  | _ => ("bad-args", "bad-args")

/-! ### `Message.UnmarshalText` as translated -/

def modelMsg (m : Gen.Message) : Model.Message :=
  { chunks := m.chunks.map fun c => { content := c.content, isComment := c.isComment },
    id := { value := m.ID.messageField.value, set := m.ID.messageField.set },
    typ := { value := m.Type'.messageField.value, set := m.Type'.messageField.set }, retry := m.Retry }

/-- the receiver before the call: every kind of field set (the harness' `junkMessage`) -/
def junk : Gen.Message :=
  { chunks := [{ content := "junk".toUTF8.toList, isComment := false }, { content := "junk".toUTF8.toList, isComment := true }],
    ID := genID (some "junk".toUTF8.toList), Type' := { messageField := { value := "junk".toUTF8.toList, set := true } },
    Retry := 5000000000 }

/-- error classes: the translated code does not keep which `strconv` error it wrapped -/
def errClassG : Option String → String
  | none => "nil"
  | some "UnmarshalError: contains character %q, which is not an ASCII digit" => "RETRY-NONDIGIT"
  | some "UnmarshalError: invalid retry value: %w" => "RETRY-INVALID"
  | some "UnmarshalError: ErrUnexpectedEOF" => "UEOF"
  | some e => "OTHER(" ++ e ++ ")"

def errClassM : Model.UErr → String
  | .nil => "nil" | .retryNonDigit => "RETRY-NONDIGIT" | .retrySyntax => "RETRY-INVALID"
  | .retryRange => "RETRY-INVALID" | .unexpectedEOF => "UEOF"

/-- `GUT <hex text>` -/
def gut (args : List String) : String × String :=
  match Driver.MessageD.dropGo args with
  | [t] =>
    let p := unhex t
    let hand := Model.Message.unmarshalText p
    let hs := s!"{errClassM hand.2} | {Driver.MessageD.showMsg hand.1}"
    match Gen.Message_UnmarshalText (p.length + 10) junk p with
    | .error e => (showFault e, hs)
    | .ok r => (s!"{errClassG r.1} | {Driver.MessageD.showMsg (modelMsg r.2)}", hs)
  | _ => ("bad-args", "bad-args")

/-! ### `Message.WriteTo`, `MarshalText`, `String` as translated -/

/-- the fault-injecting writer of `WT`, as a writer of the translated code: state = (calls so far, bytes accepted, a
Write failed) -/
def faultWriterG (k : Option Nat) (j : Nat) (e : Bool) : GoRT.Writer (Nat × Bytes × Bool) :=
  { st := (0, [], false),
    write := fun st p =>
      if some st.1 == k then
        let fail := e || j < p.length
        (((min j p.length : Nat) : Int), (if fail then some "FAULT" else none), (st.1 + 1, st.2.1 ++ p.take (min j p.length), st.2.2 || fail))
      else ((p.length : Int), none, (st.1 + 1, st.2.1 ++ p, st.2.2)) }

/-- `GWT <msg> <k|-> <j> <e>`: the translated `WriteTo` against the `WT` writer, then the translated `MarshalText` and
`String`; specification column = the hand-written model -/
def gwt (args : List String) : String × String :=
  match Driver.MessageD.dropGo args with
  | [ms, k, j, e] =>
    let m := Model.build (Driver.MessageD.parseMsg ms)
    let w := Driver.MessageD.faultWriter k.toNat? (j.toNat?.getD 0) (boolOf e)
    let hand := s!"{Driver.MessageD.showWR (m.writeTo w 0)} | {hex m.marshalText} | {hex m.string}"
    let g := GenEquiv.toGenMsg m
    let fuel := m.chunks.length + 20
    let r : GoM String := do
      let a ← Gen.Message_WriteTo fuel g (faultWriterG k.toNat? (j.toNat?.getD 0) (boolOf e))
      let b ← Gen.Message_MarshalText fuel g
      let c ← Gen.Message_String fuel g
      let st := a.2.2.2.st
      let es := match a.2.1 with | none => "nil" | some "FAULT" => "FAULT" | some x => "OTHER(" ++ x ++ ")"
      let me := match b.2.1 with | none => hex b.1 | some x => "ERR(" ++ x ++ ")"
      pure s!"{a.1} | {es} | {hex st.2.1} | {st.1} | {if st.2.2 then 1 else 0} | {me} | {hex c.1}"
    match r with
    | .error f => (showFault f, hand)
    | .ok s => (s, hand)
  | _ => ("bad-args", "bad-args")

/-! ### `(*messageField).Scan` and `UnmarshalJSON` as translated -/

def fErrOfStr : Option String → Model.FErr
  | none => .nil
  | some "json.Unmarshal" => .json
  | some "input is multiline" => .multiline
  | some _ => .unsupported

/-- `GFLD <route> <args of FLD>` for the routes `scan-*` and `json-*`: model column = the translated method, specification
column = the hand-written model's answer (the model column of `FLD`) -/
def gfld (args : List String) : String × String :=
  let hand := (Driver.MessageD.fld args).1
  let go := Driver.MessageD.goField args
  let gj := Driver.MessageD.kv go "J"
  let a := Driver.MessageD.dropGo args
  let route := a.headD ""
  let isType := route.endsWith "type"
  let arg1 := (a.drop 1).headD "-"
  let arg2 := (a.drop 2).headD "-"
  let prevG := GenEquiv.toGenF Driver.MessageD.prevField
  let out (r : Option String × Gen.messageField) (j : String) : String :=
    let f : Model.MField := { value := r.2.value, set := r.2.set }
    s!"{showBool f.set} {hex f.value} {Driver.MessageD.showFErr (fErrOfStr r.1)} W={hex (Driver.MessageD.wireOf isType f)}" ++ (if j.isEmpty then "" else " J=" ++ j)
  if route == "scan-id" || route == "scan-type" then
    let src : AnyV := match arg1 with
      | "nil" => .nil | "bytes" => .bytes (unhex arg2) | "string" => .str (unhex arg2) | _ => .other
    match Gen.messageField_Scan ((unhex arg2).length + 10) prevG src with
    | .error e => (showFault e, hand)
    | .ok r => (out r "", hand)
  else if route == "json-id" || route == "json-type" then
    let dec := if gj == "!" || gj == "" then none else some (unhex gj)
    match Gen.messageField_UnmarshalJSON ((dec.getD []).length + 10) prevG (unhex arg1) (fun _ => dec) with
    | .error e => (showFault e, hand)
    | .ok r => (out r gj, hand)
  else if route == "hdr" then
    -- `hdr <c|l|s> <hexlist>`: sse.Upgrade as translated, over a request whose header map holds the values under the
    -- canonical key (c: assigned as they are; s: added one by one, nothing when there are none) or under a
    -- non-canonical one (l: a map assignment that bypasses net/http's canonicalisation)
    let vals := unhexList arg2
    let key : Bytes := if arg1 == "l" then "last-event-id".toUTF8.toList else GenEquiv.lastEventIdKey
    let hdr : List (Bytes × List Bytes) := if arg1 == "s" && vals.isEmpty then [] else [(key, vals)]
    let rw : ResW Unit := ⟨(), fun _ p => (p.length, none, ()), fun _ => (none, ()), fun _ _ _ => ()⟩
    let req : HttpReq := ⟨.nil, none, 0, hdr⟩
    match Gen.Upgrade (1000 + (vals.headD []).length) 0 req (fun _ => some rw) with
    | .error e => (showFault e, hand)
    | .ok r =>
      match r.1 with
      | none => ("UPGRADE-FAILED", hand)
      | some sess => (out (none, sess.LastEventID.messageField) "", hand)
  else ("bad-route", "bad-route")

def handle (op : String) (args : List String) : Option (String × String) :=
  match op with
  | "GUT" => some (gut args)
  | "GWT" => some (gwt args)
  | "GFLD" => some (gfld args)
  | "GFINITE" => some (gfinite args)
  | "GVALID" => some (gvalid args)
  | _ => none

end Driver.GenReplayD
