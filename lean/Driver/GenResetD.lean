import Driver.Common
import GoSSE.Proofs.GenEquivReset
/-!
`GRST <body> <hdr0> <ids>`: `Connection.resetRequest` (with `resetRequestBody`) **as translated** from client_connection.go
(`GoSSE/Gen/Reset.lean`), call by call with the connection's last event ID set before each call. Model column = the
translated code on `GoRT.HttpReq`, specification column = the hand-written model (`Model/Connection.lean`); the real
code's observation (error class, `Last-Event-ID` header values, which body, `GetBody` calls so far) must equal both.
-/
namespace Driver.GenResetD
open GoSSE GoSSE.GoRT GoSSE.Spec.Client GoSSE.Model.Client Driver

def parseBody (s : String) : Option (BodyRef × Spec.Client.GetBody) :=
  match s.splitOn ":" with
  | ["none"] => some (.none, .absent)
  | ["nobody"] => some (.noBody, .absent)
  | ["gb"] => some (.orig, .present none)
  | ["gbfail", k] => some (.orig, .present (some (k.toNat?.getD 0)))
  | ["nogb"] => some (.orig, .absent)
  | _ => none

def showErr : Option String → String
  | none => "nil" | some "ErrNoGetBody" => "NOGETBODY" | some "GetBody" => "GETBODY" | some _ => "OTHER"

def showErrV : Option ErrV → String
  | none => "nil" | some .noGetBody => "NOGETBODY" | some .getBody => "GETBODY" | some _ => "OTHER"

def showBodyV : BodyV → String
  | .nil => "nil" | .noBody => "nobody" | .tag k => s!"B{k}"

def showBodyRef : BodyRef → String
  | .none => "nil" | .noBody => "nobody" | .orig => "B0" | .fresh k => s!"B{k}"

def grst (args : List String) : String × String :=
  match args with
  | body :: hdr :: ids :: _ =>
    match parseBody body with
    | none => ("bad-args", "bad-args")
    | some (b, gb) =>
      let h0 : Option Bytes := if hdr == "-" then none else some (unhex hdr)
      let c0 : Conn := { req := { header := h0, body := b, getBody := gb } }
      let idl := (ids.splitOn ";").map fun s => if s == "_" then [] else unhex s
      -- the hand-written model
      let hand := (idl.foldl (fun (acc : Conn × List String) id =>
        let r := resetRequest { acc.1 with lastEventID := id }
        let hv := match r.1.req.header with | none => "-" | some v => hex v
        (r.1, acc.2 ++ [s!"{showErrV r.2} {hv} {showBodyRef r.1.req.body} {r.1.req.getBodyCalls}"])) (c0, [])).2
      -- the translated code
      let g0 := GenEquiv.gOf [] c0
      let gen := idl.foldl (fun (acc : Except Fault (Gen.Connection × List String)) id =>
        match acc with
        | .error f => .error f
        | .ok (g, out) =>
          match Gen.Connection_resetRequest 1 { g with lastEventID := id } with
          | .error f => .error f
          | .ok r =>
            match r.2.request with
            | none => .ok (r.2, out ++ ["NO-REQUEST"])
            | some q =>
              let vals := (q.Header.filter fun e => e.1 == GenEquiv.leidKey).flatMap (·.2)
              let hv := if vals.isEmpty then "-" else ",".intercalate (vals.map hex)
              .ok (r.2, out ++ [s!"{showErr r.1} {hv} {showBodyV q.Body} {q.gbCalls}"])) (.ok (g0, []))
      match gen with
      | .error (.panic _) => ("PANIC", " | ".intercalate hand)
      | .error .fuel => ("FUEL", " | ".intercalate hand)
      | .ok (_, out) => (" | ".intercalate out, " | ".intercalate hand)
  | _ => ("bad-args", "bad-args")

def handle (op : String) (args : List String) : Option (String × String) :=
  match op with
  | "GRST" => some (grst args)
  | _ => none

end Driver.GenResetD
