import Driver.Common
import GoSSE.Gen.Root
import GoSSE.Gen.Bufio
import GoSSE.Model.Parser
import GoSSE.Model.Fields
/-!
Ops that validate the translator (`/verif/translate`): the model column runs the *generated* definitions
(`GoSSE/Gen`, regenerated from /repo's source on every run) with fuel `len + 2`; the specification column runs
the hand-written model. The real code's output (Go column) must equal both.

  GNLI <hex> · GNC <hex> · GSPLIT <atEOF> <hex> · GFP <keep> <bom> <hex> · GSL <hex> ·
  GSCAN <cap|-> <max|-> <endErr> <errWithLast> <chunks>
-/
namespace Driver.GenD
open GoSSE GoSSE.GoRT GoSSE.Model Driver

def showM {α} (f : α → String) : GoM α → String
  | .ok a => f a
  | .error (.panic m) => "PANIC " ++ m
  | .error .fuel => "FUEL"

def nameBytes : FName → Bytes
  | .data => fData | .event => fEvent | .retry => fRetry | .id => fId | .comment => [58] | .none => []

def showFields (l : List (Bytes × Bytes)) : String :=
  if l.isEmpty then "-" else ",".intercalate (l.map fun p => hex p.1 ++ "=" ++ hex p.2)

/-- generated `FieldParser`: options, `Reset(data)`, then `Next` until it returns false -/
def genFP (fuel : Nat) (keep bom : Bool) (data : Bytes) : GoM String := do
  let f : Gen.FieldParser := { err := none, data := [], started := false, keepComments := false, removeBOM := false }
  let f ← Gen.FieldParser_KeepComments fuel f keep
  let f ← Gen.FieldParser_RemoveBOM fuel f bom
  let f ← Gen.FieldParser_Reset fuel f data
  let rec go (n : Nat) (f : Gen.FieldParser) (acc : List (Bytes × Bytes)) : GoM (Gen.FieldParser × List (Bytes × Bytes)) :=
    match n with
    | 0 => pure (f, acc)
    | n + 1 => do
      let r ← Gen.FieldParser_Next fuel f { Name := [], Value := [] }
      if r.1 then go n r.2.1 (acc ++ [(r.2.2.Name, r.2.2.Value)]) else pure (r.2.1, acc)
  let r ← go (data.length + 2) f []
  let e ← Gen.FieldParser_Err fuel r.1
  let s ← Gen.FieldParser_Started fuel e.2
  pure s!"{showFields r.2} | {if e.1.isSome then "UEOF" else "nil"} | {showBool s.1}"

/-- the hand-written model on the same script -/
def modelFP (keep bom : Bool) (data : Bytes) : String :=
  let f : FP := { keepComments := keep }
  let f := f.setRemoveBOM bom
  let f := f.reset data
  let rec go (n : Nat) (f : FP) (acc : List (Bytes × Bytes)) : FP × List (Bytes × Bytes) :=
    match n with
    | 0 => (f, acc)
    | n + 1 =>
      match FP.next (f.data.length + 1) f with
      | (some fld, f') => go n f' (acc ++ [(nameBytes fld.name, fld.value)])
      | (none, f') => (f', acc)
  let r := go (data.length + 2) f []
  s!"{showFields r.2} | {if r.1.err then "UEOF" else "nil"} | {showBool r.1.started}"

/-! ### `bufio.Scanner` with go-sse's split function: translated source vs hand-written model -/

def showErr (e : Option String) : String :=
  match e with
  | none => "nil"
  | some "verif.errRead" => "READ"
  | some "ErrTooLong" => "TOOLONG"
  | some x => "OTHER:" ++ x

def showToks (l : List Bytes) : String := if l.isEmpty then "-" else ",".intercalate (l.map hex)

/-- the translated scanner: `Scan` until it returns false, then `Err` -/
def genScan (F : Nat) (src : Source) (cfg : Option (Nat × Int)) : GoM String := do
  let g : Gen.Scanner := { r := { chunks := src.chunks, endErr := src.endErr, errWithLast := src.errWithLast }, split := fun d e => Gen.splitFunc F d e, maxTokenSize := (cfg.map (·.2)).getD 65536, token := none, buf := List.replicate ((cfg.map (·.1)).getD 0) 0, start := 0, end' := 0, err := none, empties := 0, scanCalled := false, done := false }
  let rec go (n : Nat) (g : Gen.Scanner) (acc : List Bytes) : GoM (Gen.Scanner × List Bytes) :=
    match n with
    | 0 => pure (g, acc)
    | n + 1 => do
      let r ← Gen.Scanner_Scan F g
      if r.1 then go n r.2 (acc ++ [r.2.token.getD []]) else pure (r.2, acc)
  let r ← go (src.size + 4) g []
  let e ← Gen.Scanner_Err F r.1
  pure s!"{showToks r.2} | {showErr e.1}"

/-- the hand-written model on the same script -/
def modelScan (src : Source) (cfg : Option (Nat × Int)) : String :=
  let rec go (n : Nat) (s : Scanner) (acc : List Bytes) : Scanner × List Bytes :=
    match n with
    | 0 => (s, acc)
    | n + 1 =>
      match Scanner.scan (s.src.size + s.data.length + 4) s with
      | (some t, s') => go n s' (acc ++ [t.2])
      | (none, s') => (s', acc)
  let r := go (src.size + 4) (mkScanner src cfg) []
  let e := match r.1.err with
    | some .read => "READ" | some .tooLong => "TOOLONG" | _ => "nil"
  s!"{showToks r.2} | {e}"

def handle (op : String) (args : List String) : Option (String × String) :=
  let args := args.filter fun a => !a.startsWith "GO="
  match op, args with
  | "GNLI", [h] =>
    let s := unhex h
    some (showM (fun r => s!"{r.1} {r.2}") (Gen.NewlineIndex (s.length + 2) s),
          s!"{(newlineIndex s).1} {(newlineIndex s).2}")
  | "GNC", [h] =>
    let s := unhex h
    let sh := fun (r : Bytes × Bytes × Bool) => s!"{hex r.1} {hex r.2.1} {showBool r.2.2}"
    some (showM sh (Gen.NextChunk (s.length + 2) s), sh (nextChunk s))
  | "GSPLIT", [e, h] =>
    let s := unhex h
    let tok := fun (t : Option Bytes) => match t with | some t => hex t | none => "nil"
    some (showM (fun r => match r.2.2 with
                  | some e => "ERR " ++ e
                  | none => s!"{r.1} {tok r.2.1}") (Gen.splitFunc (s.length + 2) s (boolOf e)),
          let r := splitFunc s (boolOf e); s!"{r.1} {tok r.2}")
  | "GFP", [k, b, h] =>
    let s := unhex h
    some (showM id (genFP (s.length + 3) (boolOf k) (boolOf b) s), modelFP (boolOf k) (boolOf b) s)
  | "GSCAN", [c, mx, ee, ewl, ch] =>
    let chunks := (unhexList ch).filter (!·.isEmpty)
    let src : Source := { chunks := chunks, endErr := boolOf ee, errWithLast := boolOf ewl }
    let cfg : Option (Nat × Int) := if c == "-" then none else some (c.toNat?.getD 0, (parseInt? mx).getD 0)
    let total := chunks.foldl (fun n x => n + x.length) 0
    some (showM id (genScan (total + 70000 + ((cfg.map (·.2.toNat)).getD 0)) src cfg), modelScan src cfg)
  | "GSL", [h] =>
    let s := unhex h
    some (showM showBool (Gen.isSingleLine (s.length + 2) s), showBool (isSingleLine s))
  | "GNLI", _ | "GNC", _ | "GSPLIT", _ | "GFP", _ | "GSL", _ | "GSCAN", _ => some ("bad-args", "bad-args")
  | _, _ => none

end Driver.GenD
