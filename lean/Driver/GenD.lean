import Driver.Common
import GoSSE.Gen.Root
import GoSSE.Model.Parser
import GoSSE.Model.Fields
/-!
Ops that validate the translator (`/verif/translate`): the model column runs the *generated* definitions
(`GoSSE/Gen`, regenerated from /repo's source on every run) with fuel `len + 2`; the specification column runs
the hand-written model. The real code's output (Go column) must equal both.

  GNLI <hex> · GNC <hex> · GSPLIT <atEOF> <hex> · GFP <keep> <bom> <hex> · GSL <hex>
-/
namespace Driver.GenD
open GoSSE GoSSE.GoRT GoSSE.Model Driver

def showM {α} (f : α → String) : GoM α → String
  | .ok a => f a
  | .error (.panic m) => "PANIC " ++ m
  | .error .fuel => "FUEL"

def nameBytes : FName → Bytes
  | .data => fData | .event => fEvent | .retry => fRetry | .id => fId | .comment => [58] | .none => []

def showFields (l : List (Bytes × Bytes)) : String :=
  if l.isEmpty then "-" else ",".intercalate (l.map fun p => hex p.1 ++ "=" ++ hex p.2)

/-- generated `FieldParser`: options, `Reset(data)`, then `Next` until it returns false -/
def genFP (fuel : Nat) (keep bom : Bool) (data : Bytes) : GoM String := do
  let f : Gen.FieldParser := { err := none, data := [], started := false, keepComments := false, removeBOM := false }
  let f ← Gen.FieldParser_KeepComments fuel f keep
  let f ← Gen.FieldParser_RemoveBOM fuel f bom
  let f ← Gen.FieldParser_Reset fuel f data
  let rec go (n : Nat) (f : Gen.FieldParser) (acc : List (Bytes × Bytes)) : GoM (Gen.FieldParser × List (Bytes × Bytes)) :=
    match n with
    | 0 => pure (f, acc)
    | n + 1 => do
      let r ← Gen.FieldParser_Next fuel f { Name := [], Value := [] }
      if r.1 then go n r.2.1 (acc ++ [(r.2.2.Name, r.2.2.Value)]) else pure (r.2.1, acc)
  let r ← go (data.length + 2) f []
  let e ← Gen.FieldParser_Err fuel r.1
  let s ← Gen.FieldParser_Started fuel e.2
  pure s!"{showFields r.2} | {if e.1.isSome then "UEOF" else "nil"} | {showBool s.1}"

/-- the hand-written model on the same script -/
def modelFP (keep bom : Bool) (data : Bytes) : String :=
  let f : FP := { keepComments := keep }
  let f := f.setRemoveBOM bom
  let f := f.reset data
  let rec go (n : Nat) (f : FP) (acc : List (Bytes × Bytes)) : FP × List (Bytes × Bytes) :=
    match n with
    | 0 => (f, acc)
    | n + 1 =>
      match FP.next (f.data.length + 1) f with
      | (some fld, f') => go n f' (acc ++ [(nameBytes fld.name, fld.value)])
      | (none, f') => (f', acc)
  let r := go (data.length + 2) f []
  s!"{showFields r.2} | {if r.1.err then "UEOF" else "nil"} | {showBool r.1.started}"

def handle (op : String) (args : List String) : Option (String × String) :=
  let args := args.filter fun a => !a.startsWith "GO="
  match op, args with
  | "GNLI", [h] =>
    let s := unhex h
    some (showM (fun r => s!"{r.1} {r.2}") (Gen.NewlineIndex (s.length + 2) s),
          s!"{(newlineIndex s).1} {(newlineIndex s).2}")
  | "GNC", [h] =>
    let s := unhex h
    let sh := fun (r : Bytes × Bytes × Bool) => s!"{hex r.1} {hex r.2.1} {showBool r.2.2}"
    some (showM sh (Gen.NextChunk (s.length + 2) s), sh (nextChunk s))
  | "GSPLIT", [e, h] =>
    let s := unhex h
    let tok := fun (t : Option Bytes) => match t with | some t => hex t | none => "nil"
    some (showM (fun r => match r.2.2 with
                  | some e => "ERR " ++ e
                  | none => s!"{r.1} {tok r.2.1}") (Gen.splitFunc (s.length + 2) s (boolOf e)),
          let r := splitFunc s (boolOf e); s!"{r.1} {tok r.2}")
  | "GFP", [k, b, h] =>
    let s := unhex h
    some (showM id (genFP (s.length + 3) (boolOf k) (boolOf b) s), modelFP (boolOf k) (boolOf b) s)
  | "GSL", [h] =>
    let s := unhex h
    some (showM showBool (Gen.isSingleLine (s.length + 2) s), showBool (isSingleLine s))
  | "GNLI", _ | "GNC", _ | "GSPLIT", _ | "GFP", _ | "GSL", _ => some ("bad-args", "bad-args")
  | _, _ => none

end Driver.GenD
