import GoSSE.Basic
/-! Line-protocol helpers shared by all driver modules. Bytes are hex, `-` is empty. -/
namespace Driver
open GoSSE

def hexVal (c : Char) : Nat :=
  if c.isDigit then c.toNat - '0'.toNat
  else if 'a' ≤ c ∧ c ≤ 'f' then c.toNat - 'a'.toNat + 10
  else c.toNat - 'A'.toNat + 10

def unhex (s : String) : Bytes :=
  let rec go : List Char → Bytes
    | a :: b :: t => (UInt8.ofNat (hexVal a * 16 + hexVal b)) :: go t
    | _ => []
  if s == "-" then [] else go s.toList

def hexDigit (n : Nat) : Char := if n < 10 then Char.ofNat (48 + n) else Char.ofNat (87 + n)

def hex (b : Bytes) : String :=
  if b.isEmpty then "-" else String.ofList (b.flatMap fun x => [hexDigit (x.toNat / 16), hexDigit (x.toNat % 16)])

/-- comma-separated list of hex strings; `-` or empty = empty list; `_` = an empty element -/
def unhexList (s : String) : List Bytes :=
  if s == "-" || s == "" || s == "=" then [] else (s.splitOn ",").map fun x => if x == "_" then [] else unhex x

def hexList (l : List Bytes) : String :=
  if l.isEmpty then "-" else ",".intercalate (l.map fun b => if b.isEmpty then "_" else hex b)

def parseInt? (s : String) : Option Int :=
  if s.startsWith "-" then (s.drop 1).toNat?.map fun n => -(n : Int) else s.toNat?.map fun n => (n : Int)

def boolOf (s : String) : Bool := s == "1"
def showBool (b : Bool) : String := if b then "1" else "0"

end Driver
