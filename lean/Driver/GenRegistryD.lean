import Driver.ClientD
import GoSSE.Proofs.GenEquivRegistry
/-!
`GREG <mode> <script>`: the script of a `REG` case run through the registry functions **as translated** from
client_connection.go (`GenEquiv.runM`: `Gen.Connection_addSubscriber`, `…ToAll`, the two translated removers,
`Gen.Connection_dispatch`, regenerated on every run), the callback of the k-th subscribe operation being the number k and
`dispatch`'s ranges visiting their maps in list order (`GenEquiv.canonOrders`; the real map's order is not observable: both
sides sort the callbacks of one event). Model column = the translated code's log, specification column = the
specification's (`Spec/Client.lean`); the real Connection's observation must equal both.
-/
namespace Driver.GenRegistryD
open GoSSE GoSSE.GoRT Driver Driver.ClientD GoSSE.Spec.Client

def greg (args : List String) : String × String :=
  match args with
  | _mode :: script :: _ =>
    let ops := ((script.splitOn ";").filter (· != "-")).filterMap parseROp
    let m := match GenEquiv.runM GenEquiv.canonOrders ops GenEquiv.GState.init with
      | .ok s => showLog s.log ++ " | ord=ok"
      | .error _ => "fault"
    (m, showLog (specScript ops).log ++ " | ord=ok")
  | _ => ("bad-args", "bad-args")

def handle (op : String) (args : List String) : Option (String × String) :=
  match op with
  | "GREG" => some (greg args)
  | _ => none

end Driver.GenRegistryD
